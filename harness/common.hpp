// Shared helpers for the correspondence harnesses (hex line protocol, crash isolation).
#pragma once
#include <string>
#include <vector>
#include <sstream>
#include <iostream>
#include <fstream>
#include <functional>
#include <algorithm>
#include <cstdio>
#include <cstring>
#include <map>
#include <sys/mman.h>
#include <signal.h>
#include <sys/wait.h>
#include <unistd.h>

namespace vh
{
  inline std::string hex(const std::string& s)
  {
    if (s.empty()) return "-";
    static const char* d = "0123456789abcdef";
    std::string o;
    o.reserve(s.size() * 2);
    for (unsigned char c : s) { o.push_back(d[c >> 4]); o.push_back(d[c & 15]); }
    return o;
  }
  template <typename C> inline std::string hexc(const C& c)
  { return hex(std::string(c.begin(), c.end())); }

  inline int hv(char c)
  {
    if (c >= '0' && c <= '9') return c - '0';
    if (c >= 'a' && c <= 'f') return c - 'a' + 10;
    if (c >= 'A' && c <= 'F') return c - 'A' + 10;
    return -1;
  }
  inline std::string unhex(const std::string& h)
  {
    std::string o;
    if (h == "-") return o;
    for (size_t i = 0; i + 1 < h.size(); i += 2)
      o.push_back(static_cast<char>(hv(h[i]) * 16 + hv(h[i + 1])));
    return o;
  }
  inline std::vector<std::string> words(const std::string& line)
  {
    std::vector<std::string> w;
    std::istringstream is(line);
    std::string t;
    while (is >> t) w.push_back(t);
    return w;
  }
  // key=value argument lookup
  inline std::string arg(const std::vector<std::string>& w, const std::string& key,
                         const std::string& dflt = "")
  {
    for (auto& t : w)
      if (t.size() > key.size() && t.compare(0, key.size(), key) == 0 && t[key.size()] == '=')
        return t.substr(key.size() + 1);
    return dflt;
  }
  inline std::vector<std::string> splitc(const std::string& s, char d)
  {
    std::vector<std::string> o;
    if (s.empty() || s == "-") return o;
    size_t p = 0;
    while (true)
    {
      size_t q = s.find(d, p);
      if (q == std::string::npos) { o.push_back(s.substr(p)); break; }
      o.push_back(s.substr(p, q - p));
      p = q + 1;
    }
    return o;
  }

  struct Case { std::string id; std::vector<std::string> lines; };

  inline std::vector<Case> read_cases(std::istream& in)
  {
    std::vector<Case> cases;
    std::string line;
    while (std::getline(in, line))
    {
      if (line.empty() || line[0] == '#') continue;
      if (line.compare(0, 5, "case ") == 0) { cases.push_back(Case{line.substr(5), {}}); continue; }
      if (cases.empty()) cases.push_back(Case{"_", {}});
      cases.back().lines.push_back(line);
    }
    return cases;
  }

  // Run every case in a child process; when the child dies (sanitizer abort, signal, escaped
  // exception) the case in progress gets an "abort" line and a new child continues with the next.
  inline int run_cases(const std::vector<Case>& cases,
                       const std::function<void(const Case&)>& run_one)
  {
    size_t* progress = static_cast<size_t*>(mmap(nullptr, sizeof(size_t), PROT_READ | PROT_WRITE,
                                                  MAP_SHARED | MAP_ANONYMOUS, -1, 0));
    size_t next = 0;
    while (next < cases.size())
    {
      std::cout.flush();
      pid_t pid = fork();
      if (pid == 0)
      {
        // watchdog: a case that does not finish (a loop of the library that no longer makes progress) ends the child
        // with `abort:hang`; the parent then goes on with the next case
        signal(SIGALRM, [](int) { const char m[] = "abort:hang\n"; ssize_t r = write(1, m, sizeof(m) - 1); (void)r; _exit(3); });
        for (size_t i = next; i < cases.size(); ++i)
        {
          *progress = i;
          alarm(90);
          std::cout << "case " << cases[i].id << std::endl;
          try { run_one(cases[i]); }
          catch (std::exception const& e)
          { std::cout << "abort:exception\n"; }
          catch (...)
          { std::cout << "abort:exception\n"; }
          std::cout.flush();
        }
        *progress = cases.size();
        std::cout.flush();
        _exit(0);
      }
      int status = 0;
      waitpid(pid, &status, 0);
      if (*progress >= cases.size() && WIFEXITED(status) && WEXITSTATUS(status) == 0)
        break;
      // the child died while running case *progress
      std::cout << "abort:crash\n";
      next = *progress + 1;
    }
    std::cout.flush();
    return 0;
  }
}
