// net_driver.cpp - real-socket validation harness for via-httplib (/repo/include).
//
// Everything runs in ONE process: a via::http_server runs its io_context in
// one or more std::threads, the peer (client side) is written with plain asio
// sockets (asio::ip::tcp::socket, asio::ssl::stream under NET_TLS) driven from
// the main thread (or from dedicated peer threads in the `pool` scenario).
// Every wait on the peer side is bounded by a deadline, so no scenario hangs.
//
// Build (run from /verif; each command is one line):
//   plain :
//     g++ -std=c++17 -O1 -g -DASIO_STANDALONE -pthread -I/repo/include harness/net_driver.cpp -o /tmp/net_driver_plain
//   tls   :
//     g++ -std=c++17 -O1 -g -DASIO_STANDALONE -DNET_TLS -pthread -I/repo/include harness/net_driver.cpp -o /tmp/net_driver_tls -lssl -lcrypto
//   pool  :
//     clang++-14 -std=c++17 -O1 -g -fsanitize=thread -DHTTP_THREAD_SAFE -DASIO_STANDALONE -pthread -I/repo/include harness/net_driver.cpp -o /tmp/net_driver_pool
//     (also builds without -fsanitize=thread, and with g++ instead of clang++-14)
//
// Usage: net_driver <scenario> key=value ...
//   prints exactly one line `RESULT key=value ...` on stdout and exits 0 when
//   the scenario could be run (whatever it observed); prints `ERROR ...` and
//   exits 2 when the scenario could not be set up.  Library diagnostics go to
//   stderr.  Under ThreadSanitizer the default exit code is forced to 0
//   (override with TSAN_OPTIONS=exitcode=N); the number of TSan reports seen
//   before the RESULT line was printed is given as tsan_reports=<n>.
//
// Scenarios:
//   timeout ms=<server timeout> point=<connect|reqline|headers|body|between|active|tcponly>
//           wait_ms=<peer silence>
//     RESULT scenario=timeout point=<p> ms=<ms> closed=<0|1> after_ms=<n> requests_ok=<n>
//            end=<open|eof|reset|tls_close_notify|tls_truncated|error> rx_bytes=<n> ...
//     (tcponly: like connect but, under NET_TLS, without the TLS handshake)
//   bigbody size=<bytes> version=<1.0|1.1close|1.1> delay_ms=<n>
//     RESULT scenario=bigbody version=<v> size=<n> head=<n> received_body=<n> complete=<0|1>
//            end=<eof|reset|timeout|tls_close_notify|tls_truncated|open|error> ...
//     (end=open: version=1.1, everything arrived and the peer stopped reading)
//   pool threads=<n> conns=<c> reqs=<r>
//     RESULT scenario=pool threads=<n> conns=<c> sent=<n> answered=<n> overlaps=<n> timeouts=<n>
//            handled=<handler calls> srv_sent=<SENT events> srv_connected=<n> srv_disconnected=<n> ...
//     (a request that times out does not stop its connection: the next one is
//      sent anyway; answered counts every complete response that arrived)
//
// Common optional keys: certdir=<dir> (default /repo/examples/certificates),
//   tlsver=<12|13> (server context, default 13 as in simple_https_server.cpp).

#ifdef NET_TLS
  #ifndef HTTP_SSL
  #define HTTP_SSL
  #endif
  #include "via/comms/ssl/ssl_tcp_adaptor.hpp"
  typedef via::comms::ssl::ssl_tcp_adaptor adaptor_type;
#else
  #include "via/comms/tcp_adaptor.hpp"
  typedef via::comms::tcp_adaptor adaptor_type;
#endif
#include "via/http_server.hpp"

#include <atomic>
#include <chrono>
#include <cstdio>
#include <cstdlib>
#include <cstring>
#include <functional>
#include <map>
#include <memory>
#include <mutex>
#include <sstream>
#include <string>
#include <thread>
#include <vector>

#include <sys/types.h>
#include <sys/socket.h>
#include <netinet/in.h>
#include <unistd.h>

//////////////////////////////////////////////////////////////////////////////
// ThreadSanitizer hooks (only when built with -fsanitize=thread)
#if defined(__has_feature)
  #if __has_feature(thread_sanitizer)
    #define NET_TSAN 1
  #endif
#endif
#if !defined(NET_TSAN) && defined(__SANITIZE_THREAD__)
  #define NET_TSAN 1
#endif

#ifdef NET_TSAN
static volatile int g_tsan_reports = 0;
extern "C" const char* __tsan_default_options() { return "exitcode=0"; }
extern "C" __attribute__((no_sanitize("thread"))) void __tsan_on_report(void*)
{ g_tsan_reports = g_tsan_reports + 1; }
#endif

//////////////////////////////////////////////////////////////////////////////
namespace
{
  typedef via::http_server<adaptor_type, std::string> http_server_type;
  typedef http_server_type::http_connection_type http_connection;
  typedef http_server_type::http_request http_request;
  typedef asio::ip::tcp tcp;
  typedef std::chrono::steady_clock clock_type;

  std::string g_certdir("/repo/examples/certificates");
  int g_tlsver = 13;

#ifdef NET_TLS
  const char* const VARIANT = "tls";
#else
  const char* const VARIANT = "plain";
#endif
#ifdef HTTP_THREAD_SAFE
  const int THREAD_SAFE = 1;
#else
  const int THREAD_SAFE = 0;
#endif

  long long ms_since(clock_type::time_point t0)
  {
    return std::chrono::duration_cast<std::chrono::milliseconds>
             (clock_type::now() - t0).count();
  }

  void sleep_ms(long long ms)
  {
    if (ms > 0)
      std::this_thread::sleep_for(std::chrono::milliseconds(ms));
  }

  ////////////////////////////////////////////////////////////////////////////
  // command line
  typedef std::map<std::string, std::string> arg_map;

  bool get_int(arg_map const& args, const char* key, long long& value,
               std::string& err)
  {
    auto it(args.find(key));
    if (it == args.end())
    { err = std::string("missing argument ") + key; return false; }
    char* end(nullptr);
    value = strtoll(it->second.c_str(), &end, 10);
    if (it->second.empty() || *end != '\0' || value < 0)
    { err = std::string("bad value for ") + key; return false; }
    return true;
  }

  bool get_str(arg_map const& args, const char* key, std::string& value,
               std::string& err)
  {
    auto it(args.find(key));
    if (it == args.end())
    { err = std::string("missing argument ") + key; return false; }
    value = it->second;
    return true;
  }

  ////////////////////////////////////////////////////////////////////////////
  /// Find a free ephemeral port: bind a throw-away socket to port 0, read the
  /// port back and close it.  @return 0 on failure.
  unsigned short pick_free_port()
  {
    unsigned short port(0);
    int fd(::socket(AF_INET6, SOCK_STREAM, 0));
    if (fd >= 0)
    {
      int off(0);
      ::setsockopt(fd, IPPROTO_IPV6, IPV6_V6ONLY, &off, sizeof(off));
      struct sockaddr_in6 a;
      memset(&a, 0, sizeof(a));
      a.sin6_family = AF_INET6;
      a.sin6_addr = in6addr_any;
      socklen_t len(sizeof(a));
      if (::bind(fd, reinterpret_cast<struct sockaddr*>(&a), sizeof(a)) == 0 &&
          ::getsockname(fd, reinterpret_cast<struct sockaddr*>(&a), &len) == 0)
        port = ntohs(a.sin6_port);
      ::close(fd);
      if (port)
        return port;
    }

    fd = ::socket(AF_INET, SOCK_STREAM, 0);
    if (fd >= 0)
    {
      struct sockaddr_in a;
      memset(&a, 0, sizeof(a));
      a.sin_family = AF_INET;
      a.sin_addr.s_addr = htonl(INADDR_ANY);
      socklen_t len(sizeof(a));
      if (::bind(fd, reinterpret_cast<struct sockaddr*>(&a), sizeof(a)) == 0 &&
          ::getsockname(fd, reinterpret_cast<struct sockaddr*>(&a), &len) == 0)
        port = ntohs(a.sin_port);
      ::close(fd);
    }
    return port;
  }

  ////////////////////////////////////////////////////////////////////////////
  /// The via http_server, its io_context and the threads running it.
  class ServerBox
  {
    asio::io_context io_;
#ifdef NET_TLS
    asio::ssl::context ssl_ctx_;
#endif
    std::unique_ptr<http_server_type> srv_;
    std::vector<std::thread> threads_;
    std::atomic<int> running_{0};
    std::atomic<int> exceptions_{0};
    std::mutex exc_mutex_;
    std::string exc_what_;
    unsigned short port_{0};
    bool clean_exit_{false};
    bool stopped_{true};
    bool shutdown_posted_{false};

    void thread_main()
    {
      for (;;)
      {
        try
        {
          io_.run();
          break;
        }
        catch (std::exception const& e)
        {
          // an exception escaped from a library handler: note it and carry on
          ++exceptions_;
          std::lock_guard<std::mutex> lock(exc_mutex_);
          exc_what_ = e.what();
        }
      }
      --running_;
    }

  public:
    ServerBox()
#ifdef NET_TLS
      : ssl_ctx_(g_tlsver == 12 ? asio::ssl::context::tlsv12_server
                                : asio::ssl::context::tlsv13_server)
#endif
    {}

    ~ServerBox()
    { stop(0); }

    unsigned short port() const { return port_; }
    bool clean_exit() const { return clean_exit_; }
    int exceptions() const { return exceptions_.load(); }
    std::string exception_text()
    {
      std::lock_guard<std::mutex> lock(exc_mutex_);
      std::string s(exc_what_);
      for (auto& c : s)
        if (c == ' ' || c == '\n' || c == '\r' || c == '\t' || c == '=')
          c = '_';
      return s;
    }

    /// @param configure called on the fresh server before accept_connections.
    bool start(std::function<void (http_server_type&)> configure,
               int nthreads, std::string& err)
    {
#ifdef NET_TLS
      // As in examples/server/simple_https_server.cpp
      asio::error_code ec;
      ssl_ctx_.set_options(asio::ssl::context_base::default_workarounds
                         | asio::ssl::context_base::no_sslv2, ec);
      ssl_ctx_.set_verify_mode(asio::ssl::verify_peer, ec);
      ssl_ctx_.use_certificate_chain_file
          (g_certdir + "/server/server-certificate.pem", ec);
      if (ec)
      { err = "use_certificate_chain_file: " + ec.message(); return false; }
      ssl_ctx_.use_private_key_file(g_certdir + "/server/server-key.pem",
                                    asio::ssl::context::pem, ec);
      if (ec)
      { err = "use_private_key_file: " + ec.message(); return false; }
#endif

      bool ok(false);
      for (int attempt(0); attempt < 25 && !ok; ++attempt)
      {
        port_ = pick_free_port();
        if (port_ == 0)
        { err = "no free port"; continue; }

        try
        {
#ifdef NET_TLS
          srv_.reset(new http_server_type(io_, ssl_ctx_));
#else
          srv_.reset(new http_server_type(io_));
#endif
          configure(*srv_);
          asio::error_code aec(srv_->accept_connections(port_));
          if (aec)
            err = "accept_connections: " + aec.message();
          else
            ok = true;
        }
        catch (std::exception const& e)
        { err = std::string("accept_connections threw: ") + e.what(); }

        if (!ok)
          srv_.reset();
      }

      if (!ok)
        return false;

      stopped_ = false;
      if (nthreads < 1)
        nthreads = 1;
      running_ = nthreads;
      for (int i(0); i < nthreads; ++i)
        threads_.emplace_back([this]{ thread_main(); });
      return true;
    }

    /// shutdown() the server from inside the io_context (as the examples do
    /// from their signal handler), give it grace_ms to run out of work, then
    /// stop the io_context and join the threads.
    void stop(int grace_ms)
    {
      begin_shutdown();
      finish(grace_ms);
    }

    /// Post http_server::shutdown() into the io_context.
    void begin_shutdown()
    {
      if (stopped_ || shutdown_posted_)
        return;
      shutdown_posted_ = true;

      asio::post(io_, [this]
      {
        try { srv_->shutdown(); }
        catch (std::exception const& e)
        {
          ++exceptions_;
          std::lock_guard<std::mutex> lock(exc_mutex_);
          exc_what_ = e.what();
        }
      });
    }

    /// Wait up to grace_ms for the io_context to run out of work, then stop
    /// it, join the threads and destroy the server.
    void finish(int grace_ms)
    {
      if (stopped_)
        return;
      stopped_ = true;

      auto t0(clock_type::now());
      while (running_.load() > 0 && ms_since(t0) < grace_ms)
        sleep_ms(2);
      clean_exit_ = (running_.load() == 0);

      io_.stop();
      for (auto& t : threads_)
        if (t.joinable())
          t.join();
      threads_.clear();
      srv_.reset();
    }
  };

  ////////////////////////////////////////////////////////////////////////////
  /// The peer: a client socket driven synchronously with deadlines.
  /// All asynchronous operations run on the peer's own io_context, which is
  /// only ever run by the thread that calls the member functions.
  class Peer
  {
  public:
    enum class Rd { Data, Timeout, Closed };

  private:
    asio::io_context io_;
#ifdef NET_TLS
    std::string ctx_err_;
    asio::ssl::context ctx_;
    asio::ssl::stream<tcp::socket> stream_;
#else
    tcp::socket stream_;
#endif
    bool handshaken_{false};

    // generic one-shot operation state (connect, handshake, shutdown)
    bool op_done_{false};
    asio::error_code op_ec_;

    // write state
    std::string wr_buf_;
    bool wr_pending_{false};
    bool wr_done_{false};
    asio::error_code wr_ec_;

    // read state: at most one read is outstanding, it survives timeouts
    std::vector<char> rd_buf_;
    bool rd_pending_{false};
    bool rd_done_{false};
    bool rd_closed_{false};
    asio::error_code rd_ec_;
    size_t rd_n_{0};

#ifdef NET_TLS
    static asio::ssl::context make_ctx(std::string& err)
    {
      asio::ssl::context c(asio::ssl::context::tls_client);
      asio::error_code ec;
      c.load_verify_file(g_certdir + "/ca-certificate.pem", ec);
      if (ec)
        err = "load_verify_file: " + ec.message();
      c.set_verify_mode(asio::ssl::verify_peer, ec);
      return c;
    }
#endif

    tcp::socket& sock()
    {
#ifdef NET_TLS
      return stream_.next_layer();
#else
      return stream_;
#endif
    }

    /// Run the io_context until flag is set or timeout_ms has passed.
    bool run_until(bool const& flag, long long timeout_ms)
    {
      io_.restart();
      if (timeout_ms <= 0)
      {
        io_.poll();
        return flag;
      }

      auto deadline(clock_type::now() + std::chrono::milliseconds(timeout_ms));
      while (!flag)
      {
        auto now(clock_type::now());
        if (now >= deadline)
          break;
        size_t n(io_.run_one_for(deadline - now));
        if (n == 0 && io_.stopped())
        {
          if (flag)
            break;
          // out of work although the operation has not completed: cannot
          // happen, but never spin
          io_.restart();
          if (io_.poll() == 0)
            break;
        }
      }
      return flag;
    }

    void drain()
    {
      io_.restart();
      io_.poll();
    }

  public:
    Peer() :
#ifdef NET_TLS
      ctx_(make_ctx(ctx_err_)),
      stream_(io_, ctx_),
#else
      stream_(io_),
#endif
      rd_buf_(65536)
    {}

    Peer(Peer const&) = delete;
    Peer& operator=(Peer const&) = delete;

    ~Peer()
    { close(); }

    asio::error_code const& read_error() const { return rd_ec_; }
    asio::error_code const& write_error() const { return wr_ec_; }
    bool handshaken() const { return handshaken_; }

    bool connect(unsigned short port, bool do_handshake, long long timeout_ms,
                 std::string& err)
    {
#ifdef NET_TLS
      if (!ctx_err_.empty())
      { err = ctx_err_; return false; }
#endif
      tcp::endpoint ep(asio::ip::make_address_v4("127.0.0.1"), port);
      op_done_ = false;
      sock().async_connect(ep, [this](asio::error_code const& ec)
        { op_done_ = true; op_ec_ = ec; });
      if (!run_until(op_done_, timeout_ms))
      { err = "connect timed out"; abort_socket(); return false; }
      if (op_ec_)
      { err = "connect: " + op_ec_.message(); abort_socket(); return false; }

      asio::error_code ignored;
      sock().set_option(tcp::no_delay(true), ignored);

#ifdef NET_TLS
      if (do_handshake)
      {
        op_done_ = false;
        stream_.async_handshake(asio::ssl::stream_base::client,
          [this](asio::error_code const& ec){ op_done_ = true; op_ec_ = ec; });
        if (!run_until(op_done_, timeout_ms))
        { err = "TLS handshake timed out"; abort_socket(); return false; }
        if (op_ec_)
        { err = "TLS handshake: " + op_ec_.message(); abort_socket(); return false; }
        handshaken_ = true;
      }
#else
      (void)do_handshake;
#endif
      return true;
    }

    /// Write all of data, bounded by timeout_ms.
    bool write_all(std::string const& data, long long timeout_ms)
    {
      if (wr_pending_)
        return false;
      wr_buf_ = data;
      wr_pending_ = true;
      wr_done_ = false;
      auto handler([this](asio::error_code const& ec, size_t)
        { wr_done_ = true; wr_pending_ = false; wr_ec_ = ec; });
#ifdef NET_TLS
      if (handshaken_)
        asio::async_write(stream_, asio::buffer(wr_buf_), handler);
      else
        asio::async_write(stream_.next_layer(), asio::buffer(wr_buf_), handler);
#else
      asio::async_write(stream_, asio::buffer(wr_buf_), handler);
#endif
      if (!run_until(wr_done_, timeout_ms))
      {
        wr_ec_ = asio::error::timed_out;
        return false;
      }
      return !wr_ec_;
    }

    /// Read whatever arrives within timeout_ms and append it to out.
    Rd read_some(std::string& out, long long timeout_ms)
    {
      if (rd_closed_)
        return Rd::Closed;

      if (!rd_pending_)
      {
        rd_pending_ = true;
        rd_done_ = false;
        auto handler([this](asio::error_code const& ec, size_t n)
          { rd_done_ = true; rd_ec_ = ec; rd_n_ = n; });
#ifdef NET_TLS
        if (handshaken_)
          stream_.async_read_some(asio::buffer(rd_buf_), handler);
        else
          stream_.next_layer().async_read_some(asio::buffer(rd_buf_), handler);
#else
        stream_.async_read_some(asio::buffer(rd_buf_), handler);
#endif
      }

      if (!run_until(rd_done_, timeout_ms))
        return Rd::Timeout;

      rd_pending_ = false;
      if (rd_n_ > 0)
        out.append(rd_buf_.data(), rd_n_);
      if (rd_ec_)
      {
        rd_closed_ = true;
        if (rd_n_ > 0)
        { rd_n_ = 0; return Rd::Data; }
        return Rd::Closed;
      }
      rd_n_ = 0;
      return Rd::Data;
    }

    /// How the connection ended, from the read error.
    std::string end_kind() const
    {
      if (!rd_closed_)
        return "open";
      return classify(rd_ec_);
    }

    std::string classify(asio::error_code const& ec) const
    {
      if (ec == asio::error::eof)
        return handshaken_ ? "tls_close_notify" : "eof";
#ifdef NET_TLS
      if (ec == asio::ssl::error::stream_truncated)
        return "tls_truncated";
  #ifdef SSL_R_UNEXPECTED_EOF_WHILE_READING
      if (ec.category() == asio::error::get_ssl_category() &&
          ERR_GET_REASON(static_cast<unsigned long>(ec.value()))
            == SSL_R_UNEXPECTED_EOF_WHILE_READING)
        return "tls_truncated";
  #endif
#endif
      if (ec == asio::error::connection_reset ||
          ec == asio::error::connection_aborted ||
          ec == asio::error::broken_pipe)
        return "reset";
      return "error";
    }

    /// Close the socket immediately and run the aborted handlers.
    void abort_socket()
    {
      asio::error_code ignored;
      if (sock().is_open())
        sock().close(ignored);
      drain();
      rd_pending_ = false;
      wr_pending_ = false;
      rd_closed_ = true;
    }

    /// Abortive close: SO_LINGER 0, so that the peer's stack sends a RST at once.
    void reset_socket()
    {
      asio::error_code ignored;
      if (sock().is_open())
      {
        sock().set_option(asio::socket_base::linger(true, 0), ignored);
        sock().close(ignored);
      }
      drain();
      rd_pending_ = false;
      wr_pending_ = false;
      rd_closed_ = true;
    }

    /// Polite close: (TLS: bounded close_notify), then close the socket.
    void close()
    {
      if (!sock().is_open())
      { drain(); return; }

#ifdef NET_TLS
      if (handshaken_)
      {
        asio::error_code ignored;
        if (rd_pending_ || wr_pending_)
        {
          sock().cancel(ignored);
          auto t0(clock_type::now());
          while ((rd_pending_ && !rd_done_) || wr_pending_)
          {
            if (ms_since(t0) > 200)
              break;
            io_.restart();
            io_.run_one_for(std::chrono::milliseconds(20));
          }
        }
        if (!(rd_pending_ && !rd_done_) && !wr_pending_)
        {
          op_done_ = false;
          stream_.async_shutdown([this](asio::error_code const& ec)
            { op_done_ = true; op_ec_ = ec; });
          run_until(op_done_, 300);
        }
      }
#endif
      abort_socket();
    }
  };

  ////////////////////////////////////////////////////////////////////////////
  // HTTP response framing on the peer side

  bool iequal_prefix(const char* s, size_t n, const char* lower)
  {
    size_t l(strlen(lower));
    if (n < l)
      return false;
    for (size_t i(0); i < l; ++i)
    {
      char c(s[i]);
      if (c >= 'A' && c <= 'Z')
        c = static_cast<char>(c - 'A' + 'a');
      if (c != lower[i])
        return false;
    }
    return true;
  }

  /// Parse a response head (up to and including the blank line).
  /// @return false if buf does not contain a complete head yet.
  bool parse_head(std::string const& buf, size_t& head_len,
                  long long& content_length, int& status)
  {
    size_t pos(buf.find("\r\n\r\n"));
    if (pos == std::string::npos)
      return false;
    head_len = pos + 4;
    content_length = -1;
    status = 0;
    if (buf.size() >= 12 && buf.compare(0, 5, "HTTP/") == 0)
      status = atoi(buf.c_str() + 9);

    size_t line(buf.find("\r\n") + 2);
    while (line < head_len - 2)
    {
      size_t eol(buf.find("\r\n", line));
      if (iequal_prefix(buf.data() + line, eol - line, "content-length:"))
        content_length = atoll(buf.c_str() + line + 15);
      line = eol + 2;
    }
    return true;
  }

  enum class Resp { Ok, Timeout, Closed };

  /// Read until buf starts with one complete response (head plus
  /// Content-Length bytes), then remove it from buf.
  Resp read_response(Peer& peer, std::string& buf, long long timeout_ms,
                     int* status_out = nullptr)
  {
    auto t0(clock_type::now());
    for (;;)
    {
      size_t head_len(0);
      long long cl(-1);
      int status(0);
      if (parse_head(buf, head_len, cl, status))
      {
        size_t total(head_len + (cl > 0 ? static_cast<size_t>(cl) : 0));
        if (buf.size() >= total)
        {
          buf.erase(0, total);
          if (status_out)
            *status_out = status;
          return Resp::Ok;
        }
      }

      long long left(timeout_ms - ms_since(t0));
      if (left <= 0)
        return Resp::Timeout;
      Peer::Rd r(peer.read_some(buf, left));
      if (r == Peer::Rd::Closed)
        return Resp::Closed;
    }
  }

  std::string tail_keys(ServerBox& box)
  {
    std::ostringstream os;
    os << " variant=" << VARIANT << " thread_safe=" << THREAD_SAFE
       << " port=" << box.port()
       << " srv_clean_exit=" << (box.clean_exit() ? 1 : 0)
       << " srv_exceptions=" << box.exceptions();
    if (box.exceptions() > 0)
      os << " srv_exception=" << box.exception_text();
#ifdef NET_TSAN
    os << " tsan_reports=" << g_tsan_reports;
#endif
    return os.str();
  }

  int fail(std::string const& msg)
  {
    printf("ERROR %s\n", msg.c_str());
    fflush(stdout);
    return 2;
  }

  ////////////////////////////////////////////////////////////////////////////
  // Scenario 1: timeout
  int scenario_timeout(arg_map const& args)
  {
    long long ms(0), wait_ms(0);
    std::string point, err;
    if (!get_int(args, "ms", ms, err) || !get_str(args, "point", point, err) ||
        !get_int(args, "wait_ms", wait_ms, err))
      return fail(err);
    if (point != "connect" && point != "reqline" && point != "headers" &&
        point != "body" && point != "between" && point != "active" &&
        point != "tcponly")
      return fail("bad value for point");

    std::atomic<int> handled(0);
    ServerBox box;
    if (!box.start([&](http_server_type& srv)
        {
          srv.request_received_event(
            [&handled](http_connection::weak_pointer weak_ptr,
                       http_request const&, std::string const&)
          {
            ++handled;
            http_connection::shared_pointer connection(weak_ptr.lock());
            if (connection)
            {
              via::http::tx_response response(via::http::response_status::code::OK);
              connection->send(std::move(response), std::string("ok"));
            }
          });
          srv.set_timeout(static_cast<int>(ms));
        }, 1, err))
      return fail("server: " + err);

    int closed(0), requests_ok(0), resp_timeouts(0);
    long long after_ms(wait_ms);
    size_t rx_bytes(0);
    std::string end("open");
    {
      Peer peer;
      if (!peer.connect(box.port(), point != "tcponly", 5000, err))
      {
        box.stop(200);
        return fail("peer: " + err);
      }

      const std::string get("GET / HTTP/1.1\r\nHost: a\r\n\r\n");
      std::string buf;
      bool write_ok(true);
      bool early_close(false);

      if (point == "reqline")
        write_ok = peer.write_all("GET / HT", 2000);
      else if (point == "headers")
        write_ok = peer.write_all("GET / HTTP/1.1\r\nHost: a\r\nX:", 2000);
      else if (point == "body")
        write_ok = peer.write_all("POST / HTTP/1.1\r\nHost: a\r\n"
                                  "Content-Length: 10\r\n\r\nabc", 2000);
      else if (point == "between")
      {
        write_ok = peer.write_all(get, 2000);
        if (write_ok)
        {
          Resp r(read_response(peer, buf, 3000));
          if (r == Resp::Ok)
            ++requests_ok;
          else if (r == Resp::Closed)
            early_close = true;
          else
            ++resp_timeouts;
        }
      }

      auto t0(clock_type::now());
      if (!write_ok || early_close)
      {
        closed = 1;
        after_ms = 0;
        end = early_close ? peer.end_kind() : peer.classify(peer.write_error());
      }
      else if (point == "active")
      {
        // one request every 100 ms for wait_ms
        long long tick(0);
        while (ms_since(t0) < wait_ms && !closed)
        {
          if (!peer.write_all(get, 2000))
          {
            closed = 1;
            after_ms = ms_since(t0);
            end = peer.classify(peer.write_error());
            break;
          }
          Resp r(read_response(peer, buf, 2000));
          if (r == Resp::Ok)
            ++requests_ok;
          else if (r == Resp::Timeout)
            ++resp_timeouts;
          else
          {
            closed = 1;
            after_ms = ms_since(t0);
            end = peer.end_kind();
            break;
          }

          tick += 100;
          long long next(tick < wait_ms ? tick : wait_ms);
          // stay idle until the next tick, watching for a close
          while (ms_since(t0) < next)
          {
            Peer::Rd rd(peer.read_some(buf, next - ms_since(t0)));
            if (rd == Peer::Rd::Closed)
            {
              closed = 1;
              after_ms = ms_since(t0);
              end = peer.end_kind();
              break;
            }
          }
        }
        rx_bytes = buf.size();
      }
      else
      {
        // stay silent and wait for the server to close the connection
        while (ms_since(t0) < wait_ms)
        {
          Peer::Rd rd(peer.read_some(buf, wait_ms - ms_since(t0)));
          if (rd == Peer::Rd::Closed)
          {
            closed = 1;
            after_ms = ms_since(t0);
            end = peer.end_kind();
            break;
          }
        }
        rx_bytes = buf.size();
      }

      peer.close();
    }
    box.stop(500);

    std::ostringstream os;
    os << "RESULT scenario=timeout point=" << point << " ms=" << ms
       << " closed=" << closed << " after_ms=" << after_ms
       << " requests_ok=" << requests_ok
       << " end=" << end << " rx_bytes=" << rx_bytes
       << " resp_timeouts=" << resp_timeouts
       << " handled=" << handled.load()
       << tail_keys(box);
    printf("%s\n", os.str().c_str());
    fflush(stdout);
    return 0;
  }

  ////////////////////////////////////////////////////////////////////////////
  // Scenario 2: bigbody
  int scenario_bigbody(arg_map const& args)
  {
    long long size(0), delay_ms(0);
    std::string version, err;
    if (!get_int(args, "size", size, err) ||
        !get_str(args, "version", version, err) ||
        !get_int(args, "delay_ms", delay_ms, err))
      return fail(err);
    if (version != "1.0" && version != "1.1close" && version != "1.1")
      return fail("bad value for version");

    std::atomic<int> handled(0);
    const size_t body_size(static_cast<size_t>(size));
    ServerBox box;
    if (!box.start([&](http_server_type& srv)
        {
          srv.request_received_event(
            [&handled, body_size](http_connection::weak_pointer weak_ptr,
                                  http_request const&, std::string const&)
          {
            ++handled;
            http_connection::shared_pointer connection(weak_ptr.lock());
            if (connection)
            {
              std::string body(body_size, '\0');
              for (size_t i(0); i < body_size; ++i)
                body[i] = static_cast<char>('a' + i % 26);
              via::http::tx_response response(via::http::response_status::code::OK);
              connection->send(std::move(response), std::move(body));
            }
          });
        }, 1, err))
      return fail("server: " + err);

    size_t head_len(0), received_body(0);
    long long content_length(-1);
    int status(0);
    bool match(true);
    std::string end("timeout");
    long long elapsed(0);
    {
      Peer peer;
      if (!peer.connect(box.port(), true, 5000, err))
      {
        box.stop(200);
        return fail("peer: " + err);
      }

      std::string request;
      if (version == "1.0")
        request = "GET / HTTP/1.0\r\n\r\n";
      else if (version == "1.1close")
        request = "GET / HTTP/1.1\r\nHost: localhost\r\nConnection: close\r\n\r\n";
      else
        request = "GET / HTTP/1.1\r\nHost: localhost\r\n\r\n";

      if (!peer.write_all(request, 2000))
      {
        box.stop(200);
        return fail("peer: could not send the request: " +
                    peer.write_error().message());
      }

      sleep_ms(delay_ms);

      const long long DEADLINE_MS(20000);
      auto t0(clock_type::now());
      std::string head;     // bytes before the end of the head
      std::string chunk;
      bool have_head(false);
      bool stop(false);
      while (!stop)
      {
        long long left(DEADLINE_MS - ms_since(t0));
        if (left <= 0)
        { end = "timeout"; break; }

        chunk.clear();
        Peer::Rd rd(peer.read_some(chunk, left));
        if (rd == Peer::Rd::Timeout)
        { end = "timeout"; break; }
        if (rd == Peer::Rd::Closed)
        { end = peer.end_kind(); break; }

        const char* p(chunk.data());
        size_t n(chunk.size());
        if (!have_head)
        {
          head.append(p, n);
          if (parse_head(head, head_len, content_length, status))
          {
            have_head = true;
            // whatever follows the head is body
            chunk.assign(head, head_len, std::string::npos);
            head.resize(head_len);
            p = chunk.data();
            n = chunk.size();
          }
          else
            n = 0;
        }

        for (size_t i(0); i < n; ++i)
        {
          if (p[i] != static_cast<char>('a' + (received_body + i) % 26))
            match = false;
        }
        received_body += n;

        if (have_head && version == "1.1" && received_body >= body_size)
        { end = "open"; stop = true; }
      }
      if (!have_head)
        head_len = head.size();
      elapsed = ms_since(t0);
      peer.close();
    }
    box.stop(500);

    int complete((received_body == body_size && match && head_len > 0) ? 1 : 0);
    std::ostringstream os;
    os << "RESULT scenario=bigbody version=" << version << " size=" << size
       << " head=" << head_len << " received_body=" << received_body
       << " complete=" << complete << " end=" << end
       << " status=" << status << " content_length=" << content_length
       << " content_match=" << (match ? 1 : 0)
       << " delay_ms=" << delay_ms << " read_ms=" << elapsed
       << " handled=" << handled.load()
       << tail_keys(box);
    printf("%s\n", os.str().c_str());
    fflush(stdout);
    return 0;
  }

  ////////////////////////////////////////////////////////////////////////////
  // Scenario 3: pool
  int scenario_pool(arg_map const& args)
  {
    long long nthreads(0), conns(0), reqs(0);
    std::string err;
    if (!get_int(args, "threads", nthreads, err) ||
        !get_int(args, "conns", conns, err) ||
        !get_int(args, "reqs", reqs, err))
      return fail(err);
    if (nthreads < 1 || nthreads > 256 || conns < 1 || conns > 1024)
      return fail("threads/conns out of range");

    long long rounds(1);
    if (args.count("rounds"))
    {
      if (!get_int(args, "rounds", rounds, err))
        return fail(err);
    }
    long long connected_us(2000);
    if (args.count("connected_us"))
    {
      if (!get_int(args, "connected_us", connected_us, err))
        return fail(err);
    }

    // every application handler of one connection: never two at a time, and
    // none before that connection's connected handler has returned
    std::mutex in_handler_mutex;
    std::map<void*, int> in_handler;
    std::map<void*, int> connected_done;
    std::atomic<long long> overlaps(0), order_violations(0), handled(0),
                           srv_sent(0), srv_connected(0), srv_disconnected(0), dup_disconnected(0);
    std::map<void*, int> disconnected_seen;     // raw connection pointer -> disconnected events since its connected event

    auto enter([&](void* key, bool is_connected_handler)
    {
      std::lock_guard<std::mutex> lock(in_handler_mutex);
      int& count(in_handler[key]);
      if (count != 0)
        ++overlaps;
      ++count;
      if (!is_connected_handler && key && connected_done[key] == 0)
        ++order_violations;
    });
    auto leave([&](void* key, bool is_connected_handler)
    {
      std::lock_guard<std::mutex> lock(in_handler_mutex);
      --in_handler[key];
      if (is_connected_handler)
        connected_done[key] = 1;
    });

    ServerBox box;
    if (!box.start([&](http_server_type& srv)
        {
          srv.message_sent_event([&](http_connection::weak_pointer weak_ptr)
            {
              void* key(weak_ptr.lock().get());
              enter(key, false);
              ++srv_sent;
              leave(key, false);
            });
          srv.socket_connected_event([&](http_connection::weak_pointer weak_ptr)
            {
              void* key(weak_ptr.lock().get());
              {
                std::lock_guard<std::mutex> lock(in_handler_mutex);
                disconnected_seen[key] = 0;
              }
              enter(key, true);
              std::this_thread::sleep_for(std::chrono::microseconds(connected_us));
              ++srv_connected;
              leave(key, true);
            });
          srv.socket_disconnected_event([&](http_connection::weak_pointer weak_ptr)
            {
              void* key(weak_ptr.lock().get());
              enter(key, false);
              ++srv_disconnected;
              leave(key, false);
              std::lock_guard<std::mutex> lock(in_handler_mutex);
              if (key && (++disconnected_seen[key] > 1))
                ++dup_disconnected;           // a second disconnected event for one connection
              connected_done.erase(key);    // the address may be reused
              in_handler.erase(key);
            });
          srv.request_received_event(
            [&](http_connection::weak_pointer weak_ptr,
                http_request const&, std::string const&)
          {
            http_connection::shared_pointer connection(weak_ptr.lock());
            void* key(connection.get());
            enter(key, false);
            std::this_thread::sleep_for(std::chrono::microseconds(50));
            ++handled;
            if (connection)
            {
              via::http::tx_response response(via::http::response_status::code::OK);
              response.add_date_header();
              connection->send(std::move(response), std::string("hello from the pool\n"));
            }
            leave(key, false);
          });
        }, static_cast<int>(nthreads), err))
      return fail("server: " + err);

    std::atomic<long long> sent(0), answered(0), timeouts(0), closed_early(0),
                           connect_fail(0), bad_status(0);
    std::vector<std::unique_ptr<Peer>> peers;
    for (long long i(0); i < conns; ++i)
      peers.emplace_back(new Peer());

    const unsigned short port(box.port());
    std::vector<std::thread> peer_threads;
    for (long long i(0); i < conns; ++i)
    {
      Peer* peer(peers[static_cast<size_t>(i)].get());
      peer_threads.emplace_back([&, peer, port]
      {
        std::string perr;
        const std::string get("GET /hello HTTP/1.1\r\nHost: localhost\r\n\r\n");
        const std::string get_close("GET /hello HTTP/1.1\r\nHost: localhost\r\nConnection: close\r\n\r\n");
        // rounds=<n>: n-1 short-lived connections first (connect, a few requests, close), so that connections come and
        // go while others are being served (the server's collections are inserted into / erased from concurrently)
        for (long long round(1); round < rounds; ++round)
        {
          Peer early;
          if (!early.connect(port, true, 5000, perr))
          { ++connect_fail; continue; }
          std::string ebuf;
          for (long long r(0); r < 2; ++r)
          {
            // every other short-lived connection asks the SERVER to end it (`Connection: close` on its last request)
            const bool server_closes((round % 2 == 0) && (r == 1));
            if (!early.write_all(server_closes ? get_close : get, 2000))
              break;
            ++sent;
            int status(0);
            if (read_response(early, ebuf, 2000, &status) == Resp::Ok)
              ++answered;
            else
              break;
            if (server_closes)
            {
              // wait for the server's close before closing this end
              std::string junk;
              auto t0(clock_type::now());
              while (ms_since(t0) < 1000)
              {
                Peer::Rd rd(early.read_some(junk, 1000 - ms_since(t0)));
                if (rd != Peer::Rd::Data)
                  break;
              }
            }
          }
          early.close();
        }
        if (!peer->connect(port, true, 5000, perr))
        {
          ++connect_fail;
          return;
        }

        std::string buf;
        for (long long r(0); r < reqs; ++r)
        {
          if (!peer->write_all(get, 2000))
          {
            ++closed_early;
            break;
          }
          ++sent;
          int status(0);
          Resp resp(read_response(*peer, buf, 2000, &status));
          if (resp == Resp::Ok)
          {
            ++answered;
            if (status != 200)
              ++bad_status;
          }
          else if (resp == Resp::Timeout)
            ++timeouts;
          else
          {
            ++closed_early;
            break;
          }
        }
      });
    }
    for (auto& t : peer_threads)
      t.join();

    // Shut the server down while the peers' connections are still open.
    box.begin_shutdown();

    // every peer that is still connected should now see the close (and,
    // under TLS, answer the server's close_notify in Peer::close)
    int closed_on_shutdown(0);
    for (auto& peer : peers)
    {
      std::string junk;
      auto t0(clock_type::now());
      while (ms_since(t0) < 300)
      {
        Peer::Rd rd(peer->read_some(junk, 300 - ms_since(t0)));
        if (rd == Peer::Rd::Closed)
        { ++closed_on_shutdown; break; }
        if (rd == Peer::Rd::Timeout)
          break;
      }
      peer->close();
    }
    peers.clear();
    box.finish(1500);

    std::ostringstream os;
    os << "RESULT scenario=pool threads=" << nthreads << " conns=" << conns
       << " sent=" << sent.load() << " answered=" << answered.load()
       << " overlaps=" << overlaps.load()
       << " order_violations=" << order_violations.load()
       << " timeouts=" << timeouts.load()
       << " reqs=" << reqs << " handled=" << handled.load()
       << " srv_sent=" << srv_sent.load()
       << " srv_connected=" << srv_connected.load()
       << " srv_disconnected=" << srv_disconnected.load()
       << " dup_disconnected=" << dup_disconnected.load()
       << " closed_early=" << closed_early.load()
       << " connect_fail=" << connect_fail.load()
       << " bad_status=" << bad_status.load()
       << " closed_on_shutdown=" << closed_on_shutdown
       << tail_keys(box);
    printf("%s\n", os.str().c_str());
    fflush(stdout);
    return 0;
  }

  ////////////////////////////////////////////////////////////////////////////
  // Scenario 4: shutrace  (single threaded, deterministic)
  //   clients=<n> TCP connects complete in the kernel backlog BEFORE the
  //   server's loop runs; the k-th connected event (at=<k>, 0 = before the
  //   loop starts) posts action=<shutdown|close> to the loop.  The loop is then
  //   run for at most 3 s.
  //   RESULT scenario=shutrace clients=<n> at=<k> action=<a> connected=<n>
  //          disconnected=<n> connected_after=<n> loop_returned=<0|1> loop_ms=<n>
  //          released=<n> (clients that saw eof/reset) exceptions=<n>
  int scenario_shutrace(arg_map const& args)
  {
#ifdef NET_TLS
    (void) args;
    return fail("shutrace is a plain-TCP scenario");
#else
    long long clients(0), at(0);
    std::string action, err;
    if (!get_int(args, "clients", clients, err) ||
        !get_int(args, "at", at, err) ||
        !get_str(args, "action", action, err))
      return fail(err);
    if (action != "shutdown" && action != "close")
      return fail("bad value for action");

    asio::io_context io;
    std::unique_ptr<http_server_type> srv;
    int connected(0), disconnected(0), connected_after(0), exceptions(0);
    bool acted(false);
    unsigned short port(0);
    bool ok(false);
    for (int attempt(0); attempt < 25 && !ok; ++attempt)
    {
      port = pick_free_port();
      if (!port)
        continue;
      try
      {
        srv.reset(new http_server_type(io));
        srv->request_received_event(
          [](http_connection::weak_pointer, http_request const&, std::string const&) {});
        asio::error_code aec(srv->accept_connections(port));
        ok = !aec;
      }
      catch (std::exception const&)
      { ok = false; }
      if (!ok)
        srv.reset();
    }
    if (!ok)
      return fail("server: could not listen");

    auto act([&]()
    {
      acted = true;
      if (action == "shutdown")
        srv->shutdown();
      else
        srv->close();
    });

    srv->socket_connected_event([&](http_connection::weak_pointer)
    {
      ++connected;
      if (acted)
        ++connected_after;
      else if (connected == at)
        asio::post(io, act);
    });
    srv->socket_disconnected_event([&](http_connection::weak_pointer)
    { ++disconnected; });

    asio::io_context cio;
    std::vector<std::unique_ptr<tcp::socket>> peers;
    tcp::endpoint endpoint(asio::ip::address_v4::loopback(), port);
    for (long long i(0); i < clients; ++i)
    {
      peers.emplace_back(new tcp::socket(cio));
      asio::error_code ec;
      peers.back()->connect(endpoint, ec);
      if (ec)
        return fail("peer: connect: " + ec.message());
    }
    if (at == 0)
      asio::post(io, act);

    auto t0(clock_type::now());
    for (;;)
    {
      try
      {
        io.run_for(std::chrono::milliseconds(3000 - std::min<long long>(2999, ms_since(t0))));
        break;
      }
      catch (std::exception const&)
      { ++exceptions; }
    }
    long long loop_ms(ms_since(t0));
    int loop_returned((io.stopped() && loop_ms < 2500) ? 1 : 0);

    int released(0);
    for (auto& p : peers)
    {
      char byte(0);
      asio::error_code ec;
      p->non_blocking(true, ec);
      p->read_some(asio::buffer(&byte, 1), ec);
      if (ec && ec != asio::error::would_block)
        ++released;
    }
    std::ostringstream os;
    os << "RESULT scenario=shutrace clients=" << clients << " at=" << at
       << " action=" << action << " acted=" << (acted ? 1 : 0)
       << " connected=" << connected << " disconnected=" << disconnected
       << " connected_after=" << connected_after
       << " loop_returned=" << loop_returned << " loop_ms=" << loop_ms
       << " released=" << released << " exceptions=" << exceptions
       << " variant=" << VARIANT << " thread_safe=" << THREAD_SAFE;
    printf("%s\n", os.str().c_str());
    fflush(stdout);
    peers.clear();
    srv.reset();
    return 0;
#endif
  }

  ////////////////////////////////////////////////////////////////////////////
  // Scenario 8: lateafter
  //   n peers, one after the other: the peer sends `GET /a` with `Connection: close`; the server answers and ENDS the
  //   connection (TLS: close_notify).  The peer reads up to that end and then — instead of closing — sends a second
  //   request `GET /late` on the connection the server has ended, waits a little, and closes.  A request that arrives
  //   after the library has ended the connection must not reach the application; every connection is signalled as
  //   disconnected exactly once.
  //   RESULT scenario=lateafter n=<n> connected=<n> disconnected=<n> handled=<n> late_handled=<0>
  int scenario_lateafter(arg_map const& args)
  {
    long long n(0);
    std::string err;
    if (!get_int(args, "n", n, err))
      return fail(err);
    std::atomic<int> connected(0), disconnected(0), handled(0), late_handled(0);
    ServerBox box;
    if (!box.start([&](http_server_type& srv)
        {
          srv.request_received_event(
            [&](http_connection::weak_pointer weak_ptr, http_request const& request, std::string const&)
          {
            if (request.uri() == "/late")
              ++late_handled;
            else
              ++handled;
            http_connection::shared_pointer connection(weak_ptr.lock());
            if (connection)
            {
              via::http::tx_response response(via::http::response_status::code::OK);
              connection->send(std::move(response), std::string(20000, 'x'));
            }
          });
          srv.socket_connected_event([&connected](http_connection::weak_pointer) { ++connected; });
          srv.socket_disconnected_event([&disconnected](http_connection::weak_pointer) { ++disconnected; });
        }, 1, err))
      return fail("server: " + err);

    int peer_errors(0), ended(0);
    for (long long i(0); i < n; ++i)
    {
      Peer peer;
      if (!peer.connect(box.port(), true, 5000, err) ||
          !peer.write_all("GET /a HTTP/1.1\r\nHost: localhost\r\nConnection: close\r\n\r\n", 2000))
      { ++peer_errors; continue; }
      // read until the server ends the connection
      std::string got;
      auto t0(clock_type::now());
      bool closed(false);
      while (ms_since(t0) < 3000)
      {
        Peer::Rd rd(peer.read_some(got, 3000 - ms_since(t0)));
        if (rd == Peer::Rd::Closed) { closed = true; break; }
        if (rd == Peer::Rd::Timeout) break;
      }
      if (closed)
        ++ended;
      // the peer's side is still open for writing: a late request
      peer.write_all("GET /late HTTP/1.1\r\nHost: localhost\r\n\r\n", 500);
      sleep_ms(200);
      peer.close();
    }
    auto t0(clock_type::now());
    while (ms_since(t0) < 2000 && disconnected.load() < connected.load())
      sleep_ms(10);
    int c(connected.load()), d(disconnected.load());
    box.begin_shutdown();
    box.finish(1500);

    std::ostringstream os;
    os << "RESULT scenario=lateafter n=" << n << " connected=" << c << " disconnected=" << d
       << " handled=" << handled.load() << " late_handled=" << late_handled.load() << " ended=" << ended
       << " errors=" << peer_errors << tail_keys(box);
    printf("%s\n", os.str().c_str());
    fflush(stdout);
    return 0;
  }

  ////////////////////////////////////////////////////////////////////////////
  // Scenario 7: rstdisc
  //   n peers, one after the other: the peer sends a request; while the request handler is running (it blocks the
  //   server's only thread) the peer RESETS its connection (SO_LINGER 0), so the reset is in the server's socket but
  //   has not been read; the handler then turns the peer away with disconnect() and no response.  Every connection must
  //   still be signalled as disconnected and released.
  //   RESULT scenario=rstdisc n=<n> connected=<n> disconnected=<n> handled=<n>
  int scenario_rstdisc(arg_map const& args)
  {
    long long n(0);
    std::string err;
    if (!get_int(args, "n", n, err))
      return fail(err);
    std::atomic<int> connected(0), disconnected(0), handled(0);
    std::atomic<bool> entered(false), reset_done(false);
    ServerBox box;
    if (!box.start([&](http_server_type& srv)
        {
          srv.request_received_event(
            [&](http_connection::weak_pointer weak_ptr, http_request const&, std::string const&)
          {
            entered = true;
            auto t0(clock_type::now());
            while (!reset_done.load() && ms_since(t0) < 2000)
              sleep_ms(2);
            sleep_ms(60);       // the RST has reached the server's socket by now; nothing has read it
            reset_done = false;
            ++handled;
            http_connection::shared_pointer connection(weak_ptr.lock());
            if (connection)
              connection->disconnect();
          });
          srv.socket_connected_event([&connected](http_connection::weak_pointer) { ++connected; });
          srv.socket_disconnected_event([&disconnected](http_connection::weak_pointer) { ++disconnected; });
        }, 1, err))
      return fail("server: " + err);

    int peer_errors(0);
    for (long long i(0); i < n; ++i)
    {
      Peer peer;
      entered = false;
      if (!peer.connect(box.port(), true, 5000, err) ||
          !peer.write_all("GET /bye HTTP/1.1\r\nHost: localhost\r\n\r\n", 2000))
      { ++peer_errors; continue; }
      auto t0(clock_type::now());
      while (!entered.load() && ms_since(t0) < 3000)
        sleep_ms(2);
      peer.reset_socket();
      reset_done = true;
      t0 = clock_type::now();
      while (handled.load() <= i - peer_errors && ms_since(t0) < 3000)
        sleep_ms(2);
    }
    auto t0(clock_type::now());
    while (ms_since(t0) < 2000 && disconnected.load() < connected.load())
      sleep_ms(10);
    int c(connected.load()), d(disconnected.load());
    box.begin_shutdown();
    box.finish(1500);

    std::ostringstream os;
    os << "RESULT scenario=rstdisc n=" << n << " connected=" << c << " disconnected=" << d
       << " handled=" << handled.load() << " errors=" << peer_errors << tail_keys(box);
    printf("%s\n", os.str().c_str());
    fflush(stdout);
    return 0;
  }

  ////////////////////////////////////////////////////////////////////////////
  // Scenario 6: twoshut
  //   n=<count> peers connect and send `GET /bye`; the request handler answers by calling disconnect() on the (idle)
  //   connection, so the library starts ending it (TLS: close_notify).  BEFORE the peers react, http_server::shutdown()
  //   is called, which reaches the same connections a second time.  Only then do the peers close (TLS: answer the
  //   close_notify).  Every connection must be signalled as disconnected and released, and the event loop must end.
  //   RESULT scenario=twoshut n=<n> connected=<n> disconnected=<n> clean=<0|1>
  int scenario_twoshut(arg_map const& args)
  {
    long long n(0);
    std::string err;
    if (!get_int(args, "n", n, err))
      return fail(err);
    std::atomic<int> connected(0), disconnected(0), handled(0);
    ServerBox box;
    if (!box.start([&](http_server_type& srv)
        {
          srv.request_received_event(
            [&handled](http_connection::weak_pointer weak_ptr, http_request const&, std::string const&)
          {
            ++handled;
            http_connection::shared_pointer connection(weak_ptr.lock());
            if (connection)
              connection->disconnect();
          });
          srv.socket_connected_event([&connected](http_connection::weak_pointer) { ++connected; });
          srv.socket_disconnected_event([&disconnected](http_connection::weak_pointer) { ++disconnected; });
        }, 1, err))
      return fail("server: " + err);

    std::vector<std::unique_ptr<Peer>> peers;
    int peer_errors(0);
    for (long long i(0); i < n; ++i)
    {
      std::unique_ptr<Peer> peer(new Peer());
      if (!peer->connect(box.port(), true, 5000, err) ||
          !peer->write_all("GET /bye HTTP/1.1\r\nHost: localhost\r\n\r\n", 2000))
      { ++peer_errors; continue; }
      peers.push_back(std::move(peer));
    }
    // let the server handle the requests (its first shutdown of each connection)
    auto t0(clock_type::now());
    while (handled.load() < static_cast<int>(peers.size()) && ms_since(t0) < 2000)
      sleep_ms(5);
    sleep_ms(50);
    // the second time: http_server::shutdown() disconnects every connection it still holds
    box.begin_shutdown();
    sleep_ms(100);
    // now the peers react: read what the server sent (TLS: its close_notify) and close (TLS: answer it)
    for (auto& peer : peers)
    {
      std::string junk;
      auto t1(clock_type::now());
      while (ms_since(t1) < 300)
      {
        Peer::Rd rd(peer->read_some(junk, 300 - ms_since(t1)));
        if (rd != Peer::Rd::Data)
          break;
      }
      peer->close();
    }
    t0 = clock_type::now();
    while (ms_since(t0) < 2000 && disconnected.load() < connected.load())
      sleep_ms(10);
    int c(connected.load()), d(disconnected.load());
    peers.clear();
    box.finish(1500);

    std::ostringstream os;
    os << "RESULT scenario=twoshut n=" << n << " connected=" << c << " disconnected=" << d
       << " handled=" << handled.load() << " errors=" << peer_errors << tail_keys(box);
    printf("%s\n", os.str().c_str());
    fflush(stdout);
    return 0;
  }

  ////////////////////////////////////////////////////////////////////////////
  // Scenario 5: abrupt
  //   n=<count> peers connect (TLS: handshake), mode=idle|afterresp (send a
  //   keep-alive GET and read the whole response first), then close the TCP
  //   socket without any goodbye (TLS: no close_notify).  The server must signal
  //   disconnected for every connection it signalled as connected.
  //   RESULT scenario=abrupt n=<n> mode=<m> connected=<n> disconnected=<n> errors=<n> waited_ms=<n>
  int scenario_abrupt(arg_map const& args)
  {
    long long n(0);
    std::string mode, err;
    if (!get_int(args, "n", n, err) || !get_str(args, "mode", mode, err))
      return fail(err);
    if (mode != "idle" && mode != "afterresp" && mode != "midresp")
      return fail("bad value for mode");
    // midresp: the response is `size` bytes long; the peer reads the head and a little of the body and then closes
    // its socket with the rest unread (the kernel answers the server's further segments with RST): the write in
    // flight fails while the connection's read is still pending
    long long size(5);
    if (mode == "midresp")
    {
      size = 8388608;
      auto it(args.find("size"));
      if (it != args.end())
        size = std::atoll(it->second.c_str());
    }
    long long read_before_close(65536);
    {
      auto it(args.find("read"));
      if (it != args.end())
        read_before_close = std::atoll(it->second.c_str());
    }
    std::string const body_text((mode == "midresp") ? std::string(static_cast<size_t>(size), 'x') : std::string("hello"));

    std::atomic<int> connected(0), disconnected(0), handled(0);
    ServerBox box;
    if (!box.start([&](http_server_type& srv)
        {
          srv.request_received_event(
            [&handled, &body_text](http_connection::weak_pointer weak_ptr,
                       http_request const&, std::string const&)
          {
            ++handled;
            http_connection::shared_pointer connection(weak_ptr.lock());
            if (connection)
            {
              via::http::tx_response response(via::http::response_status::code::OK);
              connection->send(std::move(response), std::string(body_text));
            }
          });
          srv.socket_connected_event([&connected](http_connection::weak_pointer)
          { ++connected; });
          srv.socket_disconnected_event([&disconnected](http_connection::weak_pointer)
          { ++disconnected; });
        }, 1, err))
      return fail("server: " + err);

    int peer_errors(0);
    for (long long i(0); i < n; ++i)
    {
      Peer peer;
      if (!peer.connect(box.port(), true, 5000, err))
      { ++peer_errors; continue; }
      if (mode == "midresp")
      {
        if (!peer.write_all("GET / HTTP/1.1\r\nHost: localhost\r\n\r\n", 2000))
        { ++peer_errors; peer.abort_socket(); continue; }
        std::string got, chunk;
        auto t0(clock_type::now());
        while (static_cast<long long>(got.size()) < read_before_close && ms_since(t0) < 3000)
        {
          chunk.clear();
          if (peer.read_some(chunk, 3000 - ms_since(t0)) != Peer::Rd::Data)
            break;
          got += chunk;
        }
        if (got.size() < 16)
          ++peer_errors;
      }
      else if (mode == "afterresp")
      {
        if (!peer.write_all("GET / HTTP/1.1\r\nHost: localhost\r\n\r\n", 2000))
        { ++peer_errors; peer.abort_socket(); continue; }
        std::string head, chunk;
        size_t head_len(0);
        long long content_length(-1);
        int status(0);
        auto t0(clock_type::now());
        bool done(false);
        while (!done && ms_since(t0) < 3000)
        {
          chunk.clear();
          Peer::Rd rd(peer.read_some(chunk, 3000 - ms_since(t0)));
          if (rd != Peer::Rd::Data)
            break;
          head += chunk;
          if (parse_head(head, head_len, content_length, status) &&
              content_length >= 0 &&
              head.size() >= head_len + static_cast<size_t>(content_length))
            done = true;
        }
        if (!done)
          ++peer_errors;
      }
      else
        sleep_ms(20);
      peer.abort_socket();
    }

    auto t0(clock_type::now());
    while (ms_since(t0) < 2000 && disconnected.load() < connected.load())
      sleep_ms(10);
    long long waited(ms_since(t0));
    int c(connected.load()), d(disconnected.load());
    box.stop(500);

    std::ostringstream os;
    os << "RESULT scenario=abrupt n=" << n << " mode=" << mode
       << " connected=" << c << " disconnected=" << d
       << " handled=" << handled.load()
       << " errors=" << peer_errors << " waited_ms=" << waited
       << tail_keys(box);
    printf("%s\n", os.str().c_str());
    fflush(stdout);
    return 0;
  }
}

//////////////////////////////////////////////////////////////////////////////
int main(int argc, char* argv[])
{
  if (argc < 2)
    return fail("usage: net_driver <timeout|bigbody|pool> key=value ...");

  std::string scenario(argv[1]);
  arg_map args;
  for (int i(2); i < argc; ++i)
  {
    std::string a(argv[i]);
    size_t eq(a.find('='));
    if (eq == std::string::npos || eq == 0)
      return fail("bad argument " + a);
    args[a.substr(0, eq)] = a.substr(eq + 1);
  }

  if (args.count("certdir"))
    g_certdir = args["certdir"];
  if (args.count("tlsver"))
  {
    g_tlsver = atoi(args["tlsver"].c_str());
    if (g_tlsver != 12 && g_tlsver != 13)
      return fail("bad value for tlsver");
  }

  try
  {
    if (scenario == "timeout")
      return scenario_timeout(args);
    if (scenario == "bigbody")
      return scenario_bigbody(args);
    if (scenario == "pool")
      return scenario_pool(args);
    if (scenario == "shutrace")
      return scenario_shutrace(args);
    if (scenario == "abrupt")
      return scenario_abrupt(args);
    if (scenario == "twoshut")
      return scenario_twoshut(args);
    if (scenario == "rstdisc")
      return scenario_rstdisc(args);
    if (scenario == "lateafter")
      return scenario_lateafter(args);
  }
  catch (std::exception const& e)
  {
    return fail(std::string("exception: ") + e.what());
  }

  return fail("unknown scenario " + scenario);
}
