// FakeAdaptor: a SocketAdaptor for via::comms::connection that never performs socket I/O.
// It stores the completion handlers (and the buffer descriptors) it is given; the sim_driver
// script decides when, and with which error code, each of them completes.
// See SIM_PROTOCOL.md. Single threaded, deterministic.
#pragma once
#include "common.hpp"
#include "via/comms/socket_adaptor.hpp"
#include <deque>
#include <memory>
#include <string>
#include <vector>

namespace sim
{
  class FakeAdaptor;

  /// Process wide state: the cN registry, the flavour and the options of the next accept.
  struct Globals
  {
    std::vector<FakeAdaptor*> registry; ///< index = N of cN, nullptr once destroyed
    int live = 0;                       ///< live FakeAdaptor objects
    bool ssl = false;                   ///< flavour of the adaptors constructed from now on
    bool next_hs_fail = false;          ///< accept hs=fail
    bool next_ep_throw = false;         ///< accept ep=throw
    bool quiet = false;                 ///< suppress output (teardown at the end of a case)

    void reset()
    {
      registry.clear();
      live = 0;
      ssl = false;
      next_hs_fail = false;
      next_ep_throw = false;
      quiet = false;
    }
  };

  inline Globals& g()
  {
    static Globals instance;
    return instance;
  }

  inline void line(const std::string& s)
  {
    if (!g().quiet)
      std::cout << s << std::endl;
  }

  /// The private "ssl" error category of the scripted ssl error codes.
  /// The values are chosen so that they do not collide with any errno / asio misc value:
  /// comms::connection::is_error_a_disconnect only compares error.value().
  enum ssl_errc { SSL_SHORT = 0x1001, SSL_SHUTDOWN = 0x1002 };

  class ssl_category_type : public ASIO::error_category
  {
  public:
    const char* name() const noexcept override { return "sim.ssl"; }
    std::string message(int v) const override
    { return (v == SSL_SHORT) ? "short read" : (v == SSL_SHUTDOWN) ? "protocol is shutdown" : "sim.ssl error"; }
  };

  inline const ASIO::error_category& ssl_category()
  {
    static ssl_category_type instance;
    return instance;
  }

  /// The socket_type of FakeAdaptor: it keeps the real accepted socket (never used for I/O)
  /// and offers what the library calls on SocketAdaptor::socket().
  struct FakeSocket
  {
    std::unique_ptr<ASIO::ip::tcp::socket> real;
    bool open;             ///< the fake "is_open" state
    bool ep_throw = false; ///< remote_endpoint() fails with not_connected

    /// From a socket accepted by comms::server (implicit on purpose).
    FakeSocket(ASIO::ip::tcp::socket&& s) :
      real(new ASIO::ip::tcp::socket(std::move(s))), open(true) {}

    /// As constructed by http_client: not open until connect().
    FakeSocket(ASIO::io_context& io) :
      real(new ASIO::ip::tcp::socket(io)), open(false) {}

    FakeSocket(FakeSocket&&) = default;
    FakeSocket& operator=(FakeSocket&&) = default;

    ASIO::ip::tcp::endpoint remote_endpoint(ASIO_ERROR_CODE& ec) const
    {
      if (ep_throw)
      {
        ec = ASIO::error::not_connected;
        return ASIO::ip::tcp::endpoint();
      }
      if (real && real->is_open())
        return real->remote_endpoint(ec);
      ec = ASIO::error::bad_descriptor;
      return ASIO::ip::tcp::endpoint();
    }

    ASIO::ip::tcp::endpoint remote_endpoint() const
    {
      ASIO_ERROR_CODE ec;
      ASIO::ip::tcp::endpoint ep(remote_endpoint(ec));
      if (ec)
        throw ASIO::system_error(ec, "remote_endpoint");
      return ep;
    }

    /// as a real socket: setting an option on a closed socket fails with bad_descriptor
    template <typename Option> void set_option(Option const&)
    {
      if (!open)
        throw ASIO::system_error(ASIO_ERROR_CODE(ASIO::error::bad_descriptor), "set_option");
    }
    template <typename Option> void set_option(Option const&, ASIO_ERROR_CODE& ec)
    { ec = open ? ASIO_ERROR_CODE() : ASIO_ERROR_CODE(ASIO::error::bad_descriptor); }
    template <typename Option> void get_option(Option&) const {}
    template <typename Option> void get_option(Option&, ASIO_ERROR_CODE& ec) const { ec = ASIO_ERROR_CODE(); }

    int native_handle() { return real ? static_cast<int>(real->native_handle()) : -1; }
    bool is_open() const noexcept { return open; }

    void close_real()
    {
      ASIO_ERROR_CODE ignored;
      if (real && real->is_open())
        real->close(ignored);
    }
  };

  class FakeAdaptor
  {
  public:
    typedef FakeSocket socket_type;

    typedef via::comms::ErrorHandler ErrorHandler;
    typedef via::comms::CommsHandler CommsHandler;
    typedef via::comms::ConnectHandler ConnectHandler;
    typedef via::comms::ConstBuffers ConstBuffers;

    struct PendingRead
    {
      ASIO::mutable_buffer buffer;
      CommsHandler handler;
    };

    struct PendingWrite
    {
      ConstBuffers buffers; ///< a copy of the descriptors, as asio::async_write takes
      CommsHandler handler;
    };

    // Everything the driver inspects / completes. (The driver is built with
    // -fno-access-control, but nothing here needs to be hidden from it.)
    FakeSocket socket_;
    int id_;
    bool ssl_;
    bool hs_fail_;
    ErrorHandler hs_handler_{};
    ConnectHandler connect_handler_{};
    std::deque<PendingRead> reads_{};
    std::deque<PendingWrite> writes_{};
    CommsHandler shutdown_handler_{};
    CommsHandler dropped_read_{};
    CommsHandler dropped_write_{};

    std::string name() const { return "c" + std::to_string(id_); }

  private:

    /// Cancel the pending reads and writes WITHOUT calling them; the last one of each kind
    /// stays available to the `late` operation.
    void drop_pending_io()
    {
      if (!reads_.empty())
      {
        dropped_read_ = reads_.back().handler;
        reads_.clear();
      }
      if (!writes_.empty())
      {
        dropped_write_ = writes_.back().handler;
        writes_.clear();
      }
    }

  protected:

    void handshake(ErrorHandler handshake_handler, bool /*is_server*/ = false)
    {
      if (ssl_)
      {
        hs_handler_ = handshake_handler;
        return;
      }

      ASIO_ERROR_CODE ec; // success
      if (hs_fail_)
      {
        hs_fail_ = false;
        ec = ASIO::error::connection_reset;
      }
      handshake_handler(ec); // `this` may be gone now
    }

    explicit FakeAdaptor(socket_type socket) :
      socket_(std::move(socket)),
      id_(static_cast<int>(g().registry.size())),
      ssl_(g().ssl),
      hs_fail_(g().next_hs_fail)
    {
      socket_.ep_throw = g().next_ep_throw;
      g().next_hs_fail = false;
      g().next_ep_throw = false;
      g().registry.push_back(this);
      ++g().live;
    }

  public:

    FakeAdaptor(FakeAdaptor const&) = delete;
    FakeAdaptor& operator=(FakeAdaptor const&) = delete;

    virtual ~FakeAdaptor()
    {
      if (static_cast<size_t>(id_) < g().registry.size() && g().registry[id_] == this)
      {
        g().registry[id_] = nullptr;
        --g().live;
      }
    }

    static constexpr unsigned short DEFAULT_HTTP_PORT = 80;
    static constexpr size_t DEFAULT_RX_BUFFER_SIZE = 8192;

    bool connect(ASIO::io_context&, const char*, const char*, ConnectHandler connectHandler)
    {
      connect_handler_ = connectHandler;
      socket_.open = true; // async_connect opens the socket
      return true;
    }

    void read(ASIO::mutable_buffer const& buffer, CommsHandler read_handler)
    {
      reads_.push_back(PendingRead{buffer, read_handler});
      line("io read " + name());
    }

    void write(ConstBuffers const& buffers, CommsHandler write_handler)
    {
      writes_.push_back(PendingWrite{buffers, write_handler});
      line("io write " + name() + " n=" + std::to_string(ASIO::buffer_size(buffers)));
    }

    void shutdown(CommsHandler write_handler)
    {
      line("io shutdown " + name());
      if (ssl_)
      {
        drop_pending_io();
        shutdown_handler_ = write_handler;
        return;
      }
      ASIO_ERROR_CODE ec(ASIO::error::eof);
      write_handler(ec, 0); // `this` may be gone now
    }

    void close()
    {
      if (!socket_.open)
        return;
      socket_.open = false;
      line("io close " + name());
      socket_.close_real();
      drop_pending_io();
      hs_handler_ = nullptr;
      connect_handler_ = nullptr;
      shutdown_handler_ = nullptr;
    }

    void start(ErrorHandler handshake_handler)
    { handshake(handshake_handler, true); }

    bool is_disconnect(ASIO_ERROR_CODE const& error) noexcept
    { return ssl_ && (error.category() == ssl_category()); }

    bool is_shutdown(ASIO_ERROR_CODE const& error) noexcept
    { return ssl_ && (error.category() == ssl_category()) && (error.value() == SSL_SHUTDOWN); }

    socket_type& socket() noexcept
    { return socket_; }

    //////////////////////////////////////////////////////////////////////////////////////////
    // Scripted completions. Each returns false when the operation is not pending.
    // The handler is copied out of the member before it is called and `this` is not touched
    // afterwards: the call may destroy the connection this adaptor is the base of.

    bool complete_connect(ASIO_ERROR_CODE const& ec)
    {
      if (!connect_handler_)
        return false;
      ConnectHandler h(connect_handler_);
      connect_handler_ = nullptr;
      h(ec, ASIO::ip::tcp::endpoint(ASIO::ip::address_v4::loopback(), DEFAULT_HTTP_PORT));
      return true;
    }

    bool complete_handshake(ASIO_ERROR_CODE const& ec)
    {
      if (!hs_handler_)
        return false;
      ErrorHandler h(hs_handler_);
      hs_handler_ = nullptr;
      h(ec);
      return true;
    }

    /// @return 0 not pending, 1 done, 2 data does not fit the buffer given to read().
    int complete_read(std::string const& data)
    {
      if (reads_.empty())
        return 0;
      if (data.size() > reads_.front().buffer.size())
        return 2;
      PendingRead r(reads_.front());
      reads_.pop_front();
      if (!data.empty())
        std::memcpy(r.buffer.data(), data.data(), data.size());
      r.handler(ASIO_ERROR_CODE(), data.size());
      return 1;
    }

    bool fail_read(ASIO_ERROR_CODE const& ec)
    {
      if (reads_.empty())
        return false;
      CommsHandler h(reads_.front().handler);
      reads_.pop_front();
      h(ec, 0);
      return true;
    }

    bool complete_write()
    {
      if (writes_.empty())
        return false;
      PendingWrite w(writes_.front());
      writes_.pop_front();
      // the bytes the buffers hold NOW
      std::string wire;
      for (auto const& b : w.buffers)
        wire.append(static_cast<const char*>(b.data()), b.size());
      line("io wire " + name() + " " + vh::hex(wire));
      w.handler(ASIO_ERROR_CODE(), wire.size());
      return true;
    }

    bool fail_write(ASIO_ERROR_CODE const& ec)
    {
      if (writes_.empty())
        return false;
      CommsHandler h(writes_.front().handler);
      writes_.pop_front();
      h(ec, 0);
      return true;
    }

    bool complete_shutdown(ASIO_ERROR_CODE const& ec)
    {
      if (!shutdown_handler_)
        return false;
      CommsHandler h(shutdown_handler_);
      shutdown_handler_ = nullptr;
      h(ec, 0);
      return true;
    }

    bool late(bool is_read)
    {
      CommsHandler& slot(is_read ? dropped_read_ : dropped_write_);
      if (!slot)
        return false;
      CommsHandler h(slot);
      slot = nullptr;
      h(ASIO_ERROR_CODE(ASIO::error::operation_aborted), 0);
      return true;
    }
  };
}
