// rx_driver: correspondence harness for the pure / parser / encoder core of via-httplib.
// Reads an operation script (see tools/README in DESIGN.md §3.1), executes every operation on
// the REAL library code from /repo/include and prints one canonical result line per operation.
// Built with -fno-access-control so that retained-size dumps can read private members.
#include "common.hpp"
#include "via/http/request.hpp"
#include "via/http/response.hpp"
#include "via/http/request_router.hpp"
#include "via/http/authentication/basic.hpp"
#include "via/thread/threadsafe_hash_map.hpp"
#include <climits>
#include <memory>

using namespace via::http;
using vh::hex;
using vh::hexc;
using vh::unhex;

static void out(const std::string& s) { std::cout << s << std::endl; }

static const char* rx_name(Rx r)
{
  switch (r)
  {
  case Rx::INVALID: return "INVALID";
  case Rx::EXPECT_CONTINUE: return "EXPECT_CONTINUE";
  case Rx::INCOMPLETE: return "INCOMPLETE";
  case Rx::VALID: return "VALID";
  case Rx::CHUNK: return "CHUNK";
  }
  return "?";
}

static std::string hdrs(const StringMap& m)
{
  std::vector<std::pair<std::string, std::string>> v(m.begin(), m.end());
  std::sort(v.begin(), v.end());
  if (v.empty()) return "-";
  std::string o;
  for (size_t i = 0; i < v.size(); ++i)
  {
    if (i) o += ",";
    o += hex(v[i].first) + ":" + hex(v[i].second);
  }
  return o;
}

static size_t map_bytes(const StringMap& m)
{
  size_t n = 0;
  for (auto& e : m) n += e.first.size() + e.second.size();
  return n;
}

////////////////////////////////////////////////////////////////////////////////////////////////
// receivers, type erased over the template configurations

struct IRx
{
  virtual ~IRx() {}
  // one network read handled like http_server::receive_handler / http_client::receive_handler
  virtual void feed(const std::string& data, bool loop) = 0;
  virtual void sizes() = 0;
};

template <typename Container, size_t URI, unsigned char METH, unsigned short HN, size_t HL,
          unsigned short LL, unsigned char WS, bool STRICT>
struct ReqRx : IRx
{
  typedef request_receiver<Container, URI, METH, HN, HL, LL, WS, STRICT> rx_type;
  rx_type rx;
  size_t calls_total = 0;

  ReqRx(size_t maxc, size_t maxk, bool th, bool cc) : rx(maxc, maxk)
  {
    rx.set_translate_head(th);
    rx.set_concatenate_chunks(cc);
  }

  std::string req_detail()
  {
    auto const& r = rx.request();
    std::string v;
    v.push_back(r.major_version());
    v.push_back(r.minor_version());
    return std::string(" m=") + hex(r.method()) + " u=" + hex(r.uri()) + " v=" + hex(v) +
           " h=" + hdrs(r.headers().fields()) + " b=" + hexc(rx.body()) +
           " head=" + (rx.is_head() ? "1" : "0") + " chunked=" + (r.is_chunked() ? "1" : "0") +
           " ka=" + (r.keep_alive() ? "1" : "0");
  }

  void feed(const std::string& data_in, bool loop) override
  {
    // an exact-size heap copy: reading at or beyond `end` is a heap-buffer-overflow under ASan
    std::unique_ptr<char[]> copy(new char[data_in.size() ? data_in.size() : 1]);
    std::memcpy(copy.get(), data_in.data(), data_in.size());
    struct { const char* p; size_t n; const char* data() const { return p; } size_t size() const { return n; } }
      data{copy.get(), data_in.size()};
    const char* iter = data.data();
    const char* end = data.data() + data.size();
    Rx st = Rx::VALID;
    size_t calls = 0;
    // http_server::receive_handler: while ((iter != end) && (rx_state != INVALID))
    while ((iter != end) && (st != Rx::INVALID))
    {
      const char* before = iter;
      st = rx.receive(iter, end);
      ++calls;
      std::string line = std::string("rx=") + rx_name(st) + " used=" + std::to_string(iter - before) +
                         " code=" + std::to_string(static_cast<int>(rx.response_code()));
      switch (st)
      {
      case Rx::VALID:
        line += req_detail();
        out(line);
        // the application answers inside the handler: http_connection::send clears the receiver,
        // except for the head of a chunked request delivered ahead of its chunks
        if (!rx.request().is_chunked() || rx.concatenate_chunks_)
          rx.clear();
        break;
      case Rx::EXPECT_CONTINUE:
        line += req_detail();
        out(line);
        rx.set_continue_sent(); // http_connection::send_response() for 100 Continue
        break;
      case Rx::CHUNK:
      {
        auto const& c = rx.chunk();
        line += " sz=" + std::to_string(c.size()) + " ext=" + hex(c.extension()) + " d=" + hexc(c.data()) +
                " t=" + hdrs(c.trailers().fields()) + " last=" + (c.is_last() ? "1" : "0");
        out(line);
        if (c.is_last())
          rx.clear();
        break;
      }
      case Rx::INVALID:
        out(line);
        rx.clear();
        break;
      default:
        out(line);
        break;
      }
      if (!loop)
        break;
      if (calls > data.size() + 2)
      {
        out("abort:livelock");
        break;
      }
    }
    calls_total += calls;
    out("read-done calls=" + std::to_string(calls) + " left=" + std::to_string(end - iter));
  }

  void sizes() override
  {
    auto const& r = rx.request_;
    size_t retained = r.method_.size() + r.uri_.size() + map_bytes(r.headers_.fields_) +
                      r.headers_.field_.name_.size() + r.headers_.field_.value_.size() +
                      rx.body_.size() + rx.chunk_.data_.size() + rx.chunk_.hex_size_.size() +
                      rx.chunk_.extension_.size() + map_bytes(rx.chunk_.trailers_.fields_) +
                      rx.chunk_.trailers_.field_.name_.size() + rx.chunk_.trailers_.field_.value_.size();
    out("sizes retained=" + std::to_string(retained));
  }
};

template <typename Container, unsigned short ST, unsigned short RL, unsigned short HN, size_t HL,
          unsigned short LL, unsigned char WS, bool STRICT>
struct RespRx : IRx
{
  typedef response_receiver<Container, ST, RL, HN, HL, LL, WS, STRICT> rx_type;
  rx_type rx;

  RespRx(size_t maxb, size_t maxk) : rx(maxb, maxk) {}

  void feed(const std::string& data_in, bool loop) override
  {
    std::unique_ptr<char[]> copy(new char[data_in.size() ? data_in.size() : 1]);
    std::memcpy(copy.get(), data_in.data(), data_in.size());
    struct { const char* p; size_t n; const char* data() const { return p; } size_t size() const { return n; } }
      data{copy.get(), data_in.size()};
    const char* iter = data.data();
    const char* end = data.data() + data.size();
    Rx st = Rx::VALID;
    size_t calls = 0;
    // http_client::receive_handler
    while ((iter != end) && (st != Rx::INVALID))
    {
      const char* before = iter;
      st = rx.receive(iter, end);
      ++calls;
      std::string line = std::string("rx=") + rx_name(st) + " used=" + std::to_string(iter - before);
      switch (st)
      {
      case Rx::VALID:
      {
        auto const& r = rx.response();
        std::string v;
        v.push_back(r.major_version());
        v.push_back(r.minor_version());
        line += " st=" + std::to_string(r.status()) + " r=" + hex(r.reason_phrase()) + " v=" + hex(v) +
                " h=" + hdrs(r.headers().fields()) + " b=" + hexc(rx.body()) +
                " chunked=" + (r.is_chunked() ? "1" : "0") + " ka=" + (r.keep_alive() ? "1" : "0");
        out(line);
        if (!rx.response().is_chunked())
          rx.clear();
        break;
      }
      case Rx::CHUNK:
      {
        auto const& c = rx.chunk();
        line += " sz=" + std::to_string(c.size()) + " ext=" + hex(c.extension()) + " d=" + hexc(c.data()) +
                " t=" + hdrs(c.trailers().fields()) + " last=" + (c.is_last() ? "1" : "0");
        out(line);
        if (c.is_last())
          rx.clear();
        break;
      }
      case Rx::INVALID:
        out(line);
        rx.clear();
        break;
      default:
        out(line);
        break;
      }
      if (!loop)
        break;
      if (calls > data.size() + 2)
      {
        out("abort:livelock");
        break;
      }
    }
    out("read-done calls=" + std::to_string(calls) + " left=" + std::to_string(end - iter));
  }

  void sizes() override
  {
    auto const& r = rx.response_;
    size_t retained = r.reason_phrase_.size() + map_bytes(r.headers_.fields_) +
                      r.headers_.field_.name_.size() + r.headers_.field_.value_.size() +
                      rx.body_.size() + rx.chunk_.data_.size() + rx.chunk_.hex_size_.size() +
                      rx.chunk_.extension_.size() + map_bytes(rx.chunk_.trailers_.fields_) +
                      rx.chunk_.trailers_.field_.name_.size() + rx.chunk_.trailers_.field_.value_.size();
    out("sizes retained=" + std::to_string(retained));
  }
};

struct Limits
{
  size_t a, b, hn, hl, ll, ws;
  bool strict;
  bool operator==(Limits const& o) const
  { return a == o.a && b == o.b && hn == o.hn && hl == o.hl && ll == o.ll && ws == o.ws && strict == o.strict; }
};

// the instantiated request-receiver configurations: uri, method, header number, header length,
// line length, whitespace, strict
#define REQ_CONFIGS(X) \
  X(8190, 8, 100, 65534, 1024, 8, false) \
  X(8190, 8, 100, 65534, 1024, 8, true) \
  X(8, 4, 3, 40, 24, 2, false) \
  X(8, 4, 3, 40, 24, 2, true) \
  X(64, 8, 8, 200, 64, 4, false) \
  X(64, 8, 8, 200, 64, 4, true) \
  X(64, 8, 60, 100, 64, 4, false)

// response-receiver configurations: status, reason, header number, header length, line, ws, strict
#define RESP_CONFIGS(X) \
  X(65534, 65534, 65534, LONG_MAX, 65534, 254, false) \
  X(65534, 65534, 65534, LONG_MAX, 65534, 254, true) \
  X(999, 16, 3, 40, 24, 2, false) \
  X(999, 16, 3, 40, 24, 2, true)

static std::unique_ptr<IRx> make_req(Limits l, bool vec, size_t maxc, size_t maxk, bool th, bool cc)
{
#define X(U, M, HN, HL, LL, WS, S) \
  if (l == Limits{U, M, HN, HL, LL, WS, S}) { \
    if (vec) return std::unique_ptr<IRx>(new ReqRx<std::vector<char>, U, M, HN, HL, LL, WS, S>(maxc, maxk, th, cc)); \
    else return std::unique_ptr<IRx>(new ReqRx<std::string, U, M, HN, HL, LL, WS, S>(maxc, maxk, th, cc)); }
  REQ_CONFIGS(X)
#undef X
  return nullptr;
}

static std::unique_ptr<IRx> make_resp(Limits l, bool vec, size_t maxb, size_t maxk)
{
#define X(ST, RL, HN, HL, LL, WS, S) \
  if (l == Limits{ST, RL, HN, static_cast<size_t>(HL), LL, WS, S}) { \
    if (vec) return std::unique_ptr<IRx>(new RespRx<std::vector<char>, ST, RL, HN, HL, LL, WS, S>(maxb, maxk)); \
    else return std::unique_ptr<IRx>(new RespRx<std::string, ST, RL, HN, HL, LL, WS, S>(maxb, maxk)); }
  RESP_CONFIGS(X)
#undef X
  return nullptr;
}

////////////////////////////////////////////////////////////////////////////////////////////////
// router / authentication helpers

struct FakeRequest
{
  std::string method_, uri_;
  message_headers<100, 65534, 1024, 8, false> headers_;
  std::string const& method() const { return method_; }
  std::string const& uri() const { return uri_; }
  message_headers<100, 65534, 1024, 8, false> const& headers() const { return headers_; }
};

// an authenticator whose verdict is scripted
struct ScriptAuth : authentication::authentication
{
  int id;
  bool ok = false;
  explicit ScriptAuth(int i) : authentication::authentication("r"), id(i) {}
  bool is_valid(StringMap const&) const override { return ok; }
  std::string authenticate_value() const override { return "T" + std::to_string(id); }
};

typedef request_router<std::string, FakeRequest> Router;

struct HashFn
{
  int mode = 0;
  size_t operator()(size_t k) const
  {
    switch (mode)
    {
    case 1: return 0;
    case 2: return k % 3;
    default: return k;
    }
  }
};

struct IMap
{
  virtual ~IMap() {}
  virtual void ins(size_t k, int v) = 0;
  virtual void erase(size_t k) = 0;
  virtual std::string find(size_t k) = 0;
  virtual bool empty() = 0;
  virtual std::string data() = 0;
  virtual void clear() = 0;
};

template <unsigned N> struct MapN : IMap
{
  via::thread::threadsafe_hash_map<size_t, int, HashFn, N> m;
  explicit MapN(int mode) : m(HashFn{mode}) {}
  void ins(size_t k, int v) override { m.insert(std::make_pair(k, v)); }
  void erase(size_t k) override { m.erase(k); }
  std::string find(size_t k) override
  {
    auto r = m.find(k, std::make_pair(static_cast<size_t>(-1), -1));
    if (r.first == static_cast<size_t>(-1)) return "none";
    return std::to_string(r.first) + "=" + std::to_string(r.second);
  }
  bool empty() override { return m.empty(); }
  std::string data() override
  {
    auto d = m.data();
    if (d.empty()) return "-";
    std::string o;
    for (size_t i = 0; i < d.size(); ++i)
    {
      if (i) o += ",";
      o += std::to_string(d[i].first) + "=" + std::to_string(d[i].second);
    }
    return o;
  }
  void clear() override { m.clear(); }
};

////////////////////////////////////////////////////////////////////////////////////////////////

static std::string pairs_out(const Parameters& p)
{
  if (p.empty()) return "-";
  std::string o;
  bool first = true;
  for (auto& e : p)
  {
    if (!first) o += ",";
    first = false;
    o += hex(e.first) + ":" + hex(e.second);
  }
  return o;
}

static void run_case(const vh::Case& c)
{
  std::unique_ptr<IRx> rx;
  std::unique_ptr<Router> router;
  std::vector<std::unique_ptr<ScriptAuth>> auths;
  std::unique_ptr<IMap> hm;

  for (auto const& line : c.lines)
  {
    auto w = vh::words(line);
    if (w.empty()) continue;
    const std::string& op = w[0];

    if (op == "rqnew" || op == "rsnew")
    {
      Limits l{std::stoull(vh::arg(w, "a")), std::stoull(vh::arg(w, "b")), std::stoull(vh::arg(w, "hn")),
               std::stoull(vh::arg(w, "hl")), std::stoull(vh::arg(w, "ll")), std::stoull(vh::arg(w, "ws")),
               vh::arg(w, "strict") == "1"};
      bool vec = vh::arg(w, "cont", "s") == "v";
      size_t maxc = std::stoull(vh::arg(w, "maxc", "1048576"));
      size_t maxk = std::stoull(vh::arg(w, "maxk", "1048576"));
      if (op == "rqnew")
        rx = make_req(l, vec, maxc, maxk, vh::arg(w, "th", "1") == "1", vh::arg(w, "cc", "1") == "1");
      else
        rx = make_resp(l, vec, maxc, maxk);
      out(rx ? "ok" : "bad-config");
    }
    else if (op == "feed" || op == "feed1")
    {
      if (!rx) { out("bad-op"); continue; }
      rx->feed(unhex(w.at(1)), op == "feed");
    }
    else if (op == "sizes")
    {
      if (!rx) { out("bad-op"); continue; }
      rx->sizes();
    }
    else if (op == "cls")
    {
      int n = std::stoi(w.at(1));
      char ch = static_cast<char>(n);
      std::string o = "cls " + std::to_string(n);
      o += std::string(" blank=") + (std::isblank(ch) ? "1" : "0");
      o += std::string(" eol=") + (is_end_of_line(ch) ? "1" : "0");
      o += std::string(" upper=") + (std::isupper(ch) ? "1" : "0");
      o += std::string(" alpha=") + (std::isalpha(ch) ? "1" : "0");
      o += std::string(" digit=") + (std::isdigit(ch) ? "1" : "0");
      o += std::string(" alnum=") + (std::isalnum(ch) ? "1" : "0");
      o += std::string(" xdigit=") + (std::isxdigit(ch) ? "1" : "0");
      o += std::string(" cntrl=") + (std::iscntrl(ch) ? "1" : "0");
      o += std::string(" space=") + (std::isspace(ch) ? "1" : "0");
      o += " lower=" + std::to_string(static_cast<unsigned char>(std::tolower(ch)));
      o += std::string(" sep=") + (is_separator(ch) ? "1" : "0");
      o += std::string(" token=") + (is_token(ch) ? "1" : "0");
      out(o);
    }
    else if (op == "fromhex")
      out(std::to_string(from_hex_string(unhex(w.at(1)))));
    else if (op == "fromdec")
      out(std::to_string(from_dec_string(unhex(w.at(1)))));
    else if (op == "tohex")
      out(hex(to_hex_string(std::stoull(w.at(1)))));
    else if (op == "todec")
      out(hex(std::to_string(static_cast<size_t>(std::stoull(w.at(1))))));
    else if (op == "split")
    {
      auto parts = split(unhex(w.at(1)), static_cast<char>(std::stoi(w.at(2))));
      std::string o;
      for (size_t i = 0; i < parts.size(); ++i)
      {
        if (i) o += "|";
        o += hex(parts[i]);
      }
      out(o);
    }
    else if (op == "txseq")
    {
      // txseq st=<n> ops=<op>,<op>,...   one tx_response object through a history of operations:
      //   H:<hex>  set_header_string  -> "h=<0|1>"      A:<hexname>:<hexvalue>  add_header (free form)
      //   V        is_valid           -> "v=<0|1>"      M  message(0) -> "m=<hex>"     C  copy the object and go on with the copy
      int st = std::stoi(vh::arg(w, "st", "200"));
      std::unique_ptr<tx_response> rp(new tx_response(static_cast<response_status::code>(st)));
      std::string o;
      for (auto& e : vh::splitc(vh::arg(w, "ops", "-"), ','))
      {
        auto kv = vh::splitc(e, ':');
        if (kv.empty()) continue;
        if (!o.empty()) o += " ";
        if (kv[0] == "H")
          o += std::string("h=") + (rp->set_header_string(unhex(kv.at(1))) ? "1" : "0");
        else if (kv[0] == "A")
        { rp->add_header(std::string_view(unhex(kv.at(1))), unhex(kv.at(2))); o += "a"; }
        else if (kv[0] == "V")
          o += std::string("v=") + (rp->is_valid() ? "1" : "0");
        else if (kv[0] == "M")
          o += "m=" + hex(rp->message(0));
        else if (kv[0] == "C")
        { std::unique_ptr<tx_response> cp(new tx_response(*rp)); rp.swap(cp); o += "c"; }
      }
      out(o);
    }
    else if (op == "splitdet")
    {
      std::string h(unhex(w.at(1)));
      tx_response r(response_status::code::OK, h);
      out(std::string("split=") + (are_headers_split(h) ? "1" : "0") + " valid=" + (r.is_valid() ? "1" : "0"));
    }
    else if (op == "uri")
    {
      std::string u(unhex(w.at(1)));
      request_uri ru(u);
      out("path=" + hex(ru.path()) + " query=" + hex(ru.query()) + " frag=" + hex(ru.fragment()));
    }
    else if (op == "params")
    {
      try
      {
        out(pairs_out(get_route_parameters(unhex(w.at(1)), unhex(w.at(2)))));
      }
      catch (std::out_of_range const&)
      { out("throw"); }
    }
    else if (op == "rt-new")
    {
      router.reset(new Router());
      auths.clear();
      out("ok");
    }
    else if (op == "rt-add")
    {
      // rt-add <method> <path> <handler id> <auth id | -1>
      if (!router) { out("bad-op"); continue; }
      int hid = std::stoi(w.at(3));
      int aid = std::stoi(w.at(4));
      ScriptAuth* ap = nullptr;
      if (aid >= 0)
      {
        while (static_cast<int>(auths.size()) <= aid)
          auths.emplace_back(new ScriptAuth(static_cast<int>(auths.size())));
        ap = auths[aid].get();
      }
      std::string method(unhex(w.at(1))), path(unhex(w.at(2)));
      bool is_new = router->add_method(std::string_view(method), std::string_view(path),
        [hid](FakeRequest const&, Parameters const& params, std::string const&, std::string& body)
        {
          body = "H" + std::to_string(hid) + " " + pairs_out(params);
          return tx_response(response_status::code::OK);
        }, ap);
      out(is_new ? "new" : "old");
    }
    else if (op == "rt-req")
    {
      // rt-req <method> <target> <authok bitmask>
      if (!router) { out("bad-op"); continue; }
      FakeRequest rq;
      rq.method_ = unhex(w.at(1));
      rq.uri_ = unhex(w.at(2));
      unsigned mask = static_cast<unsigned>(std::stoul(w.at(3)));
      for (size_t i = 0; i < auths.size(); ++i)
        auths[i]->ok = (mask >> i) & 1u;
      std::string body;
      tx_response resp(router->handle_request(rq, std::string(), body));
      std::string msg(resp.message(body.size()));
      if (resp.status() == 200)
        out("handler " + body);
      else if (resp.status() == 404)
        out("404");
      else if (resp.status() == 405)
      {
        size_t p = msg.find("Allow: ");
        size_t e = msg.find("\r\n", p);
        out("405 allow=" + hex(msg.substr(p + 7, e - p - 7)));
      }
      else if (resp.status() == 401)
      {
        size_t p = msg.find("WWW-Authenticate: ");
        size_t e = msg.find("\r\n", p);
        out("401 chal=" + hex(msg.substr(p + 18, e - p - 18)));
      }
      else
        out("status " + std::to_string(resp.status()));
    }
    else if (op == "b64e")
      out(hex(authentication::base64::encode(unhex(w.at(1)))));
    else if (op == "b64d")
      out(hex(authentication::base64::decode(unhex(w.at(1)))));
    else if (op == "b64rt")
    {
      std::string e(authentication::base64::encode(unhex(w.at(1))));
      out("enc=" + hex(e) + " dec=" + hex(authentication::base64::decode(e)));
    }
    else if (op == "auth")
    {
      // auth <realm> <n> {<user> <password>}*n <header value | none>
      authentication::basic b(unhex(w.at(1)));
      size_t n = std::stoul(w.at(2));
      for (size_t i = 0; i < n; ++i)
        b.add_user(unhex(w.at(3 + 2 * i)), unhex(w.at(4 + 2 * i)));
      FakeRequest rq;
      if (w.at(3 + 2 * n) != "none")
        rq.headers_.add("authorization", unhex(w.at(3 + 2 * n)));
      std::string chal(b.authenticate(rq));
      out("chal=" + hex(chal));
    }
    else if (op == "hm-new")
    {
      int n = std::stoi(w.at(1));
      int mode = std::stoi(w.at(2));
      if (n == 1) hm.reset(new MapN<1>(mode));
      else if (n == 3) hm.reset(new MapN<3>(mode));
      else hm.reset(new MapN<19>(mode));
      out("ok");
    }
    else if (op == "hm-ins") { hm->ins(std::stoull(w.at(1)), std::stoi(w.at(2))); out("ok"); }
    else if (op == "hm-erase") { hm->erase(std::stoull(w.at(1))); out("ok"); }
    else if (op == "hm-find") out(hm->find(std::stoull(w.at(1))));
    else if (op == "hm-empty") out(hm->empty() ? "1" : "0");
    else if (op == "hm-data") out(hm->data());
    else if (op == "hm-clear") { hm->clear(); out("ok"); }
    else if (op == "encreq")
    {
      // encreq m=<hex>|mid=<n> u=<hex> v=<hex2> hs=<hex> add=<n:v,..> addid=<id:v,..> cl=<n>
      std::string v(unhex(vh::arg(w, "v", "3131")));
      std::string u(unhex(vh::arg(w, "u", "-")));
      std::string hs(unhex(vh::arg(w, "hs", "-")));
      std::unique_ptr<tx_request> rq;
      std::string mid(vh::arg(w, "mid"));
      if (!mid.empty())
        rq.reset(new tx_request(static_cast<request_method::id>(std::stoi(mid)), u, hs, v[0], v[1]));
      else
        rq.reset(new tx_request(std::string_view(unhex(vh::arg(w, "m", "-"))), u, hs, v[0], v[1]));
      for (auto& e : vh::splitc(vh::arg(w, "addid", "-"), ','))
      {
        auto kv = vh::splitc(e, ':');
        rq->add_header(static_cast<header_field::id>(std::stoi(kv.at(0))), unhex(kv.at(1)));
      }
      for (auto& e : vh::splitc(vh::arg(w, "add", "-"), ','))
      {
        auto kv = vh::splitc(e, ':');
        rq->add_header(std::string_view(unhex(kv.at(0))), unhex(kv.at(1)));
      }
      out(hex(rq->message(std::stoull(vh::arg(w, "cl", "0")))));
    }
    else if (op == "encresp")
    {
      // encresp st=<n> rs=<hex|default> v=<hex2> hs=<hex> addid=.. add=.. cl=<n>
      std::string v(unhex(vh::arg(w, "v", "3131")));
      std::string hs(unhex(vh::arg(w, "hs", "-")));
      int st = std::stoi(vh::arg(w, "st", "200"));
      std::string rs(vh::arg(w, "rs", "default"));
      std::unique_ptr<tx_response> rp;
      if (rs == "default")
        rp.reset(new tx_response(static_cast<response_status::code>(st), hs));
      else
        rp.reset(new tx_response(std::string_view(unhex(rs)), st, hs));
      rp->set_major_version(v[0]);
      rp->set_minor_version(v[1]);
      for (auto& e : vh::splitc(vh::arg(w, "addid", "-"), ','))
      {
        auto kv = vh::splitc(e, ':');
        rp->add_header(static_cast<header_field::id>(std::stoi(kv.at(0))), unhex(kv.at(1)));
      }
      for (auto& e : vh::splitc(vh::arg(w, "add", "-"), ','))
      {
        auto kv = vh::splitc(e, ':');
        rp->add_header(std::string_view(unhex(kv.at(0))), unhex(kv.at(1)));
      }
      out(std::string("valid=") + (rp->is_valid() ? "1" : "0") + " msg=" +
          hex(rp->message(std::stoull(vh::arg(w, "cl", "0")))));
    }
    else if (op == "encfeed-req" || op == "encfeed-resp")
    {
      if (!rx) { out("bad-op"); continue; }
      std::string v(unhex(vh::arg(w, "v", "3131")));
      std::string hs(unhex(vh::arg(w, "hs", "-")));
      std::string body(unhex(vh::arg(w, "b", "-")));
      std::string msg;
      if (op == "encfeed-req")
      {
        std::string u(unhex(vh::arg(w, "u", "-")));
        std::unique_ptr<tx_request> rq;
        std::string mid(vh::arg(w, "mid"));
        if (!mid.empty())
          rq.reset(new tx_request(static_cast<request_method::id>(std::stoi(mid)), u, hs, v[0], v[1]));
        else
          rq.reset(new tx_request(std::string_view(unhex(vh::arg(w, "m", "-"))), u, hs, v[0], v[1]));
        for (auto& e : vh::splitc(vh::arg(w, "addid", "-"), ','))
        {
          auto kv = vh::splitc(e, ':');
          rq->add_header(static_cast<header_field::id>(std::stoi(kv.at(0))), unhex(kv.at(1)));
        }
        for (auto& e : vh::splitc(vh::arg(w, "add", "-"), ','))
        {
          auto kv = vh::splitc(e, ':');
          rq->add_header(std::string_view(unhex(kv.at(0))), unhex(kv.at(1)));
        }
        msg = rq->message(body.size());
      }
      else
      {
        int st = std::stoi(vh::arg(w, "st", "200"));
        std::string rs(vh::arg(w, "rs", "default"));
        std::unique_ptr<tx_response> rp;
        if (rs == "default")
          rp.reset(new tx_response(static_cast<response_status::code>(st), hs));
        else
          rp.reset(new tx_response(std::string_view(unhex(rs)), st, hs));
        rp->set_major_version(v[0]);
        rp->set_minor_version(v[1]);
        for (auto& e : vh::splitc(vh::arg(w, "addid", "-"), ','))
        {
          auto kv = vh::splitc(e, ':');
          rp->add_header(static_cast<header_field::id>(std::stoi(kv.at(0))), unhex(kv.at(1)));
        }
        for (auto& e : vh::splitc(vh::arg(w, "add", "-"), ','))
        {
          auto kv = vh::splitc(e, ':');
          rp->add_header(std::string_view(unhex(kv.at(0))), unhex(kv.at(1)));
        }
        msg = rp->message(body.size());
      }
      if (vh::arg(w, "chunked", "0") != "1")
        msg += body;
      rx->feed(msg, true);
    }
    else if (op == "encfeed-chunk")
    {
      // encfeed-chunk d=<hex> ext=<hex>
      if (!rx) { out("bad-op"); continue; }
      std::string d(unhex(vh::arg(w, "d", "-")));
      chunk_header<1024, 8, false> h(d.size(), unhex(vh::arg(w, "ext", "-")));
      rx->feed(h.to_string() + d + "\r\n", true);
    }
    else if (op == "encfeed-last")
    {
      if (!rx) { out("bad-op"); continue; }
      last_chunk lc(unhex(vh::arg(w, "ext", "-")), unhex(vh::arg(w, "tr", "-")));
      for (auto& e : vh::splitc(vh::arg(w, "add", "-"), ','))
      {
        auto kv = vh::splitc(e, ':');
        lc.add_trailer(std::string_view(unhex(kv.at(0))), unhex(kv.at(1)));
      }
      rx->feed(lc.to_string(), true);
    }
    else if (op == "chunkhdr")
    {
      chunk_header<1024, 8, false> h(std::stoull(w.at(1)), unhex(w.at(2)));
      out(hex(h.to_string()));
    }
    else if (op == "chunkhdr-set")
    {
      // chunkhdr-set <size> <ext> [<size0> <ext0>]: a default-constructed header (or one built for size0/ext0 and then
      // clear()ed) brought to (size, ext) with the setters — same output as the constructor form `chunkhdr`
      chunk_header<1024, 8, false> h;
      if (w.size() > 4)
      {
        h = chunk_header<1024, 8, false>(std::stoull(w.at(3)), unhex(w.at(4)));
        h.clear();
      }
      h.set_size(std::stoull(w.at(1)));
      h.set_extension(unhex(w.at(2)));
      out(hex(h.to_string()));
    }
    else if (op == "lastchunk")
    {
      last_chunk lc(unhex(w.at(1)), unhex(w.at(2)));
      out(hex(lc.to_string()));
    }
    else if (op == "hdrname")
    {
      auto id = static_cast<header_field::id>(std::stoi(w.at(1)));
      out("std=" + hex(std::string(header_field::standard_name(id))) +
          " lc=" + hex(std::string(header_field::lowercase_name(id))));
    }
    else if (op == "reason")
    {
      int n = std::stoi(w.at(1));
      out("reason=" + hex(std::string(response_status::reason_phrase(n))) +
          " content=" + (response_status::content_permitted(n) ? "1" : "0"));
    }
    else if (op == "method")
      out(hex(std::string(request_method::name(static_cast<request_method::id>(std::stoi(w.at(1)))))));
    else
      out("bad-op");
  }
}

int main(int argc, char** argv)
{
  std::ios::sync_with_stdio(false);
  std::vector<vh::Case> cases;
  if (argc > 1)
  {
    std::ifstream in(argv[1]);
    cases = vh::read_cases(in);
  }
  else
    cases = vh::read_cases(std::cin);
  return vh::run_cases(cases, run_case);
}
