// sim_driver: the REAL via::http_server / http_connection / comms::server / comms::connection /
// http_client templates from /repo/include instantiated with FakeAdaptor and driven by a script.
// The line protocol is specified in SIM_PROTOCOL.md.
// Built with -fno-access-control: the driver reads the acceptors, http_connections_,
// connections_ and the io_context's outstanding work count.
#ifdef HTTP_SSL
#error "sim_driver must be built without HTTP_SSL"
#endif
#include "common.hpp"
#include "fake_adaptor.hpp"
#include "via/http_server.hpp"
#include "via/http_client.hpp"
#include "via/http/authentication/basic.hpp"
#include <chrono>
#include <deque>
#include <map>
#include <memory>
#include <thread>

using namespace via::http;
using sim::FakeAdaptor;
using sim::line;
using vh::hex;
using vh::hexc;
using vh::unhex;

typedef std::vector<std::string> Words;

static bool has(const Words& w, const std::string& key)
{ return vh::arg(w, key, "\x01") != "\x01"; }

static const char* b01(bool b) { return b ? "1" : "0"; }

// the header map format of rx_driver.cpp
template <typename Map> static std::string hdrs(const Map& m)
{
  std::vector<std::pair<std::string, std::string>> v(m.begin(), m.end());
  std::sort(v.begin(), v.end());
  if (v.empty()) return "-";
  std::string o;
  for (size_t i = 0; i < v.size(); ++i)
  {
    if (i) o += ",";
    o += hex(v[i].first) + ":" + hex(v[i].second);
  }
  return o;
}

template <typename C> static C mk(const std::string& s) { return C(s.begin(), s.end()); }

template <typename Chunk, typename C> static std::string chunk_fields(Chunk const& c, C const& data)
{
  return "sz=" + std::to_string(c.size()) + " ext=" + hex(c.extension()) + " d=" + hexc(data) +
         " t=" + hdrs(c.trailers().fields()) + " last=" + b01(c.is_last());
}

// "cN" -> the live adaptor, nullptr when it never existed or has been destroyed
static FakeAdaptor* adaptor(const std::string& name)
{
  if (name.size() < 2 || name[0] != 'c')
    return nullptr;
  for (size_t i = 1; i < name.size(); ++i)
    if (name[i] < '0' || name[i] > '9')
      return nullptr;
  size_t n = std::stoul(name.substr(1));
  if (n >= sim::g().registry.size())
    return nullptr;
  return sim::g().registry[n];
}

static int conn_number(const std::string& name)
{
  if (name.size() < 2 || name[0] != 'c')
    return -1;
  for (size_t i = 1; i < name.size(); ++i)
    if (name[i] < '0' || name[i] > '9')
      return -1;
  return std::stoi(name.substr(1));
}

static bool parse_error(const std::string& s, ASIO_ERROR_CODE& ec)
{
  if (s == "ok") ec = ASIO_ERROR_CODE();
  else if (s == "eof") ec = ASIO::error::eof;
  else if (s == "reset") ec = ASIO::error::connection_reset;
  else if (s == "aborted") ec = ASIO::error::connection_aborted;
  else if (s == "refused") ec = ASIO::error::connection_refused;
  else if (s == "badfd") ec = ASIO::error::bad_descriptor;
  else if (s == "other") ec = ASIO::error::no_buffer_space;
  else if (s == "ssl_short") ec = ASIO_ERROR_CODE(sim::SSL_SHORT, sim::ssl_category());
  else if (s == "ssl_shutdown") ec = ASIO_ERROR_CODE(sim::SSL_SHUTDOWN, sim::ssl_category());
  else if (s == "opabort") ec = ASIO::error::operation_aborted;
  else return false;
  return true;
}

// buffers handed to the ConstBuffers overloads, owned by the driver until the end of the case
struct Owned
{
  std::deque<std::string> strings;

  via::comms::ConstBuffers buffers(const std::string& data)
  {
    via::comms::ConstBuffers b;
    if (!data.empty())
    {
      strings.push_back(data);
      b.push_back(ASIO::buffer(strings.back()));
    }
    return b;
  }
};

////////////////////////////////////////////////////////////////////////////////////////////////
// the server, type erased over <Container, STRICT_CRLF>

struct ISrv
{
  virtual ~ISrv() {}
  virtual void start() = 0;                                    // accept_connections(0), prints ok port=
  virtual bool endpoint(ASIO::ip::tcp::endpoint& ep) = 0;      // where the open acceptor listens
  virtual long open_acceptors() = 0;
  virtual size_t filter_calls() = 0;
  virtual size_t http_count() = 0;
  virtual size_t comms_count() = 0;
  virtual void app(const Words& w) = 0;                        // app-* operations
  virtual void shutdown() = 0;
  virtual void close() = 0;
};

template <typename C, bool STRICT>
struct Srv : ISrv
{
  typedef via::http_server<FakeAdaptor, C, false, 8190, 8, 100, 65534, 1024, 8, STRICT> server_type;
  typedef typename server_type::http_connection_type conn_type;
  typedef typename server_type::http_request req_type;
  typedef typename server_type::chunk_type chunk_type;
  typedef std::weak_ptr<conn_type> weak_conn;

  struct QItem { bool last; std::string data; };

  Owned& owned;
  std::string policy;
  bool chunkh, chunked_resp;
  std::string filter;
  std::string ans_hs, ans_ovl;
  bool onconn_disc;
  size_t filter_calls_ = 0;
  int k = 0; // requests delivered so far
  std::map<int, weak_conn> conns;           // what the application remembers of each connection
  std::map<int, std::deque<QItem>> queue;   // resp=chunked: what is still to be sent per connection
  authentication::basic auth;
  server_type srv;

  static int cid(weak_conn w)
  {
    std::shared_ptr<conn_type> p(w.lock());
    if (!p) return -1;
    auto c(p->connection().lock());
    if (!c) return -1;
    return c->id_;
  }

  static std::string cname(weak_conn w)
  {
    int id = cid(w);
    return (id < 0) ? std::string("c?") : "c" + std::to_string(id);
  }

  static std::string req_fields(weak_conn w, req_type const& r, C const& body)
  {
    std::shared_ptr<conn_type> p(w.lock());
    std::string v;
    v.push_back(r.major_version());
    v.push_back(r.minor_version());
    return "m=" + hex(r.method()) + " u=" + hex(r.uri()) + " v=" + hex(v) +
           " h=" + hdrs(r.headers().fields()) + " b=" + hexc(body) +
           " head=" + b01(p && p->rx().is_head()) + " chunked=" + b01(r.is_chunked());
  }

  // policy=sync: the application's answer to a complete request
  void answer(weak_conn w)
  {
    std::shared_ptr<conn_type> p(w.lock());
    if (!p)
      return;
    std::string n(std::to_string(k));
    if (!chunked_resp)
    {
      // anshs=<hex>: the header string of the answer; ansovl=nobody|body|bufs: the send overload
      tx_response r(response_status::code::OK, ans_hs);
      if (ans_ovl == "nobody")
        p->send(std::move(r));
      else if (ans_ovl == "bufs")
      {
        p->send(std::move(r), owned.buffers("r" + n));
      }
      else
        p->send(std::move(r), mk<C>("r" + n));
    }
    else
    {
      std::deque<QItem>& q(queue[cid(w)]);
      q.push_back(QItem{false, "a" + n});
      q.push_back(QItem{false, "b" + n});
      q.push_back(QItem{true, ""});
      tx_response r(response_status::code::OK);
      r.add_header(header_field::id::TRANSFER_ENCODING, "Chunked");
      p->send(std::move(r));
    }
  }

  Srv(ASIO::io_context& io, const Words& w, Owned& o) :
    owned(o),
    policy(vh::arg(w, "policy", "sync")),
    chunkh(vh::arg(w, "chunkh", "0") == "1"),
    chunked_resp(vh::arg(w, "resp", "fixed") == "chunked"),
    filter(vh::arg(w, "filter", "")),
    ans_hs(vh::unhex(vh::arg(w, "anshs", "-"))),
    ans_ovl(vh::arg(w, "ansovl", "body")),
    onconn_disc(vh::arg(w, "onconn", "") == "disc"),
    auth("realm"),
    srv(io)
  {
    auth.add_user("user", "pass");

    srv.socket_connected_event([this](weak_conn c)
    {
      conns[cid(c)] = c;
      line("ev connected " + cname(c));
      // onconn=disc: the application turns the connection away from inside its connected handler
      if (onconn_disc)
      {
        std::shared_ptr<conn_type> p(c.lock());
        if (p)
          p->disconnect();
      }
    });
    srv.socket_disconnected_event([](weak_conn c)
    { line("ev disconnected " + cname(c)); });

    if (policy == "router")
    {
      srv.request_router().add_method("GET", "/hello",
        [](req_type const&, Parameters const&, C const&, C& body)
        {
          body = mk<C>("hello");
          return tx_response(response_status::code::OK);
        });
      srv.request_router().add_method("GET", "/hello/:name",
        [](req_type const&, Parameters const& params, C const&, C& body)
        {
          body = mk<C>(get_parameter(params, "name"));
          return tx_response(response_status::code::OK);
        });
      srv.request_router().add_method("POST", "/echo",
        [](req_type const&, Parameters const&, C const& data, C& body)
        {
          body = data;
          return tx_response(response_status::code::OK);
        });
      srv.request_router().add_method("GET", "/secret",
        [](req_type const&, Parameters const&, C const&, C& body)
        {
          body = mk<C>("secret");
          return tx_response(response_status::code::OK);
        }, &auth);
    }
    else
      srv.request_received_event([this](weak_conn c, req_type const& r, C const& body)
      {
        line("ev request " + cname(c) + " " + req_fields(c, r, body));
        ++k;
        if (policy == "sync")
        {
          // the head of a chunked request delivered ahead of its chunks: answered at the last chunk
          if (r.is_chunked() && chunkh)
            return;
          answer(c);
        }
        else if (policy == "disc")
        {
          // the application ends the connection from inside its request handler, without answering
          std::shared_ptr<conn_type> p(c.lock());
          if (p)
            p->disconnect();
        }
      });

    if (chunkh)
      srv.chunk_received_event([this](weak_conn c, chunk_type const& chunk, C const& data)
      {
        line("ev chunk " + cname(c) + " " + chunk_fields(chunk, data));
        if (policy == "sync" && chunk.is_last())
          answer(c);
      });

    std::string const conth(vh::arg(w, "conth", "0"));
    if (conth == "1" || conth == "2")
      srv.request_expect_continue_event([this, conth](weak_conn c, req_type const& r, C const& body)
      {
        line("ev continue " + cname(c) + " " + req_fields(c, r, body));
        if (policy != "deferred")
        {
          std::shared_ptr<conn_type> p(c.lock());
          // conth=2: the application rejects the expectation with a final response
          if (p)
            p->send(tx_response((conth == "2") ? response_status::code::EXPECTATION_FAILED
                                               : response_status::code::CONTINUE));
        }
      });

    if (vh::arg(w, "invh", "0") == "1")
      srv.invalid_request_event([](weak_conn c, req_type const&, C const&)
      {
        std::shared_ptr<conn_type> p(c.lock());
        int code = p ? static_cast<int>(p->rx().response_code()) : -1;
        line("ev invalid " + cname(c) + " code=" + std::to_string(code));
      });

    if (vh::arg(w, "senth", "0") == "1" || chunked_resp)
      srv.message_sent_event([this](weak_conn c)
      {
        line("ev sent " + cname(c));
        auto it(queue.find(cid(c)));
        if (it == queue.end() || it->second.empty())
          return;
        QItem item(it->second.front());
        it->second.pop_front();
        std::shared_ptr<conn_type> p(c.lock());
        if (!p)
          return;
        if (item.last)
          p->last_chunk();
        else
          p->send_chunk(mk<C>(item.data));
      });

    // the options, through the public setters
    if (has(w, "trace")) srv.set_trace_enabled(vh::arg(w, "trace") == "1");
    if (has(w, "autodisc")) srv.set_auto_disconnect(vh::arg(w, "autodisc") == "1");
    if (has(w, "translate")) srv.set_translate_head(vh::arg(w, "translate") == "1");
    if (has(w, "maxc")) srv.set_max_content_length(std::stoull(vh::arg(w, "maxc")));
    if (has(w, "maxk")) srv.set_max_chunk_size(std::stoull(vh::arg(w, "maxk")));
    if (!filter.empty())
      srv.set_connection_filter([this](ASIO::ip::tcp::socket const&)
      {
        size_t n = filter_calls_++;
        if (filter == "none") return false;
        if (filter == "even") return (n % 2) == 0;
        return true;
      });
  }

  void start() override
  {
    // binding an ephemeral port can fail transiently when the machine is busy with thousands of loopback sockets
    // (an environment limit, not a property of the library): retry for a while
    ASIO_ERROR_CODE ec;
    for (int attempt = 0; ; ++attempt)
    {
      try
      {
        ec = srv.accept_connections(0);
        if (ec != ASIO::error::address_in_use || attempt >= 1200)
          break;
      }
      catch (std::system_error const& e)
      {
        if (e.code() != ASIO::error::address_in_use || attempt >= 1200)
          throw;
      }
      srv.close();
      std::this_thread::sleep_for(std::chrono::milliseconds(50));
    }
    ASIO::ip::tcp::endpoint ep;
    unsigned short port = endpoint(ep) ? ep.port() : 0;
    line("ok port=" + std::to_string(port) + (ec ? " error=" + std::to_string(ec.value()) : ""));
  }

  bool endpoint(ASIO::ip::tcp::endpoint& ep) override
  {
    ASIO_ERROR_CODE ec;
    if (srv.server_->acceptor_v6_.is_open())
    {
      unsigned short port = srv.server_->acceptor_v6_.local_endpoint(ec).port();
      ep = ASIO::ip::tcp::endpoint(ASIO::ip::address_v6::loopback(), port);
      return !ec;
    }
    if (srv.server_->acceptor_v4_.is_open())
    {
      unsigned short port = srv.server_->acceptor_v4_.local_endpoint(ec).port();
      ep = ASIO::ip::tcp::endpoint(ASIO::ip::address_v4::loopback(), port);
      return !ec;
    }
    return false;
  }

  long open_acceptors() override
  {
    return (srv.server_->acceptor_v6_.is_open() ? 1 : 0) + (srv.server_->acceptor_v4_.is_open() ? 1 : 0);
  }

  size_t filter_calls() override { return filter_calls_; }
  size_t http_count() override { return srv.http_connections_.size(); }
  size_t comms_count() override { return srv.server_->connections_.size(); }
  void shutdown() override { srv.shutdown(); }
  void close() override { srv.close(); }

  void app(const Words& w) override
  {
    const std::string& op = w[0];
    int id = (w.size() > 1) ? conn_number(w[1]) : -1;
    if (id < 0) { line("bad-op"); return; }
    auto it(conns.find(id));
    std::shared_ptr<conn_type> p;
    if (it != conns.end())
      p = it->second.lock();
    if (!p) { line("no-connection"); return; }

    if (op == "app-send")
    {
      int st = std::stoi(vh::arg(w, "st", "200"));
      std::string hs(unhex(vh::arg(w, "hs", "-")));
      std::string b(unhex(vh::arg(w, "b", "-")));
      std::string ovl(vh::arg(w, "ovl", has(w, "b") ? "body" : "nobody"));
      tx_response r(static_cast<response_status::code>(st), hs);
      bool ret;
      if (ovl == "nobody") ret = p->send(std::move(r));
      else if (ovl == "body") ret = p->send(std::move(r), mk<C>(b));
      else if (ovl == "bufs") ret = p->send(std::move(r), owned.buffers(b));
      else { line("bad-op"); return; }
      line(std::string("ret ") + b01(ret));
    }
    else if (op == "app-chunk")
    {
      std::string d(unhex(vh::arg(w, "d", "-")));
      std::string ext(unhex(vh::arg(w, "ext", "-")));
      std::string ovl(vh::arg(w, "ovl", "body"));
      bool ret;
      if (ovl == "body") ret = p->send_chunk(mk<C>(d), ext);
      else if (ovl == "bufs") ret = p->send_chunk(owned.buffers(d), ext);
      else { line("bad-op"); return; }
      line(std::string("ret ") + b01(ret));
    }
    else if (op == "app-last")
    {
      std::string ext(unhex(vh::arg(w, "ext", "-")));
      std::string tr(unhex(vh::arg(w, "tr", "-")));
      bool ret = p->last_chunk(ext, tr);
      line(std::string("ret ") + b01(ret));
    }
    else if (op == "app-respond")
    {
      bool ret = p->send_response();
      line(std::string("ret ") + b01(ret));
    }
    else if (op == "app-disconnect")
      p->disconnect();
    else
      line("bad-op");
  }
};

////////////////////////////////////////////////////////////////////////////////////////////////
// the client, type erased over <Container>

struct ICli
{
  virtual ~ICli() {}
  virtual FakeAdaptor* adaptor() = 0;
  virtual void op(const Words& w) = 0; // cl-send, cl-chunk, cl-last, cl-disconnect, cl-close
};

template <typename C>
struct Cli : ICli
{
  typedef via::http_client<FakeAdaptor, C> client_type;
  typedef typename client_type::http_response resp_type;
  typedef typename client_type::chunk_type chunk_type;

  Owned& owned;
  std::shared_ptr<client_type> cl;
  unsigned long period = 0;   // period=<ms>: reconnection period given to connect()
  bool ondisc_close = false;  // ondisc=close: the disconnected handler calls close()

  Cli(ASIO::io_context& io, Owned& o, const Words& w) : owned(o)
  {
    period = std::stoul(vh::arg(w, "period", "0"));
    ondisc_close = vh::arg(w, "ondisc", "") == "close";
    cl = client_type::create(io,
      [](resp_type const& r, C const& body)
      {
        std::string v;
        v.push_back(r.major_version());
        v.push_back(r.minor_version());
        line("cl response st=" + std::to_string(r.status()) + " r=" + hex(r.reason_phrase()) +
             " v=" + hex(v) + " h=" + hdrs(r.headers().fields()) + " b=" + hexc(body) +
             " chunked=" + b01(r.is_chunked()));
      },
      [](chunk_type const& chunk, C const& data)
      { line("cl chunk " + chunk_fields(chunk, data)); });
    cl->invalid_response_event([](resp_type const&, C const&) { line("cl invalid"); });
    cl->connected_event([]() { line("cl connected"); });
    cl->disconnected_event([this]()
    {
      line("cl disconnected");
      if (ondisc_close && cl)
        cl->close();
    });
    cl->message_sent_event([]() { line("cl sent"); });
  }

  bool connect() { return cl->connect("localhost", "http", period); }

  FakeAdaptor* adaptor() override
  { return cl ? static_cast<FakeAdaptor*>(cl->connection().get()) : nullptr; }

  void op(const Words& w) override
  {
    const std::string& op = w[0];
    if (!cl) { line("no-connection"); return; }

    if (op == "cl-send")
    {
      std::string m(unhex(vh::arg(w, "m", "-")));
      std::string u(unhex(vh::arg(w, "u", "-")));
      std::string hs(unhex(vh::arg(w, "hs", "-")));
      std::string b(unhex(vh::arg(w, "b", "-")));
      std::string ovl(vh::arg(w, "ovl", has(w, "b") ? "body" : "nobody"));
      tx_request r(std::string_view(m), u, hs);
      bool ret;
      if (ovl == "nobody") ret = cl->send(std::move(r));
      else if (ovl == "body") ret = cl->send(std::move(r), mk<C>(b));
      else if (ovl == "bufs") ret = cl->send(std::move(r), owned.buffers(b));
      else { line("bad-op"); return; }
      line(std::string("ret ") + b01(ret));
    }
    else if (op == "cl-chunk")
    {
      std::string d(unhex(vh::arg(w, "d", "-")));
      std::string ext(unhex(vh::arg(w, "ext", "-")));
      bool ret = cl->send_chunk(mk<C>(d), ext);
      line(std::string("ret ") + b01(ret));
    }
    else if (op == "cl-last")
    {
      std::string ext(unhex(vh::arg(w, "ext", "-")));
      std::string tr(unhex(vh::arg(w, "tr", "-")));
      bool ret = cl->last_chunk(ext, tr);
      line(std::string("ret ") + b01(ret));
    }
    else if (op == "cl-disconnect")
      cl->disconnect();
    else if (op == "cl-close")
      cl->close();
    else if (op == "cl-destroy")
      cl.reset();
    else
      line("bad-op");
  }
};

////////////////////////////////////////////////////////////////////////////////////////////////

// everything a case owns; members are destroyed in reverse order
struct Ctx
{
  ASIO::io_context io;
  Owned owned;
  std::vector<std::unique_ptr<ASIO::ip::tcp::socket>> peers; // the driver's ends of the accepted sockets
  std::unique_ptr<ISrv> srv;
  std::unique_ptr<ICli> cli;
};

// @return false when the case has to stop (an exception escaped from the library)
static bool run_op(Ctx& x, const Words& w)
{
  const std::string& op = w[0];
  try
  {
    if (op == "server")
    {
      if (x.srv || x.cli) { line("bad-op"); return true; }
      sim::g().ssl = vh::arg(w, "flavour", "tcp") == "ssl";
      bool vec = vh::arg(w, "cont", "s") == "v";
      bool strict = vh::arg(w, "strict", "0") == "1";
      if (vec && strict) x.srv.reset(new Srv<std::vector<char>, true>(x.io, w, x.owned));
      else if (vec) x.srv.reset(new Srv<std::vector<char>, false>(x.io, w, x.owned));
      else if (strict) x.srv.reset(new Srv<std::string, true>(x.io, w, x.owned));
      else x.srv.reset(new Srv<std::string, false>(x.io, w, x.owned));
      x.srv->start();
    }
    else if (op == "client")
    {
      if (x.srv || x.cli) { line("bad-op"); return true; }
      sim::g().ssl = vh::arg(w, "flavour", "tcp") == "ssl";
      bool ok;
      if (vh::arg(w, "cont", "s") == "v")
      {
        auto* c = new Cli<std::vector<char>>(x.io, x.owned, w);
        x.cli.reset(c);
        ok = c->connect();
      }
      else
      {
        auto* c = new Cli<std::string>(x.io, x.owned, w);
        x.cli.reset(c);
        ok = c->connect();
      }
      line(ok ? std::string("ok ") + x.cli->adaptor()->name() : "bad-op");
    }
    else if (op == "accept")
    {
      if (!x.srv) { line("bad-op"); return true; }
      ASIO::ip::tcp::endpoint ep;
      if (!x.srv->endpoint(ep)) { line("refused"); return true; }
      std::unique_ptr<ASIO::ip::tcp::socket> peer(new ASIO::ip::tcp::socket(x.io));
      ASIO_ERROR_CODE ec;
      peer->connect(ep, ec);
      // the listener is open: a failed connect is the machine running out of loopback ports under many parallel harness
      // processes, not the library refusing — retry (the same provision as for `bind` at start-up)
      for (int attempt = 0; ec && attempt < 100 && x.srv->open_acceptors() > 0; ++attempt)
      {
        std::this_thread::sleep_for(std::chrono::milliseconds(20));
        peer.reset(new ASIO::ip::tcp::socket(x.io));
        peer->connect(ep, ec);
      }
      if (ec) { line("refused"); return true; }
      {
        // close with RST at the end of the case: thousands of cases must not leave sockets in TIME_WAIT
        ASIO_ERROR_CODE ignored;
        peer->set_option(ASIO::socket_base::linger(true, 0), ignored);
      }
      x.peers.push_back(std::move(peer));

      sim::g().next_hs_fail = vh::arg(w, "hs", "ok") == "fail";
      sim::g().next_ep_throw = vh::arg(w, "ep", "ok") == "throw";
      size_t adaptors_before = sim::g().registry.size();
      size_t filtered_before = x.srv->filter_calls();
      bool accepted = false, filtered = false;
      try
      {
        for (int i = 0; i < 2000 && !accepted && !filtered; ++i)
        {
          if (i)
            std::this_thread::sleep_for(std::chrono::milliseconds(1));
          x.io.restart();
          x.io.poll();
          accepted = sim::g().registry.size() > adaptors_before;
          filtered = x.srv->filter_calls() > filtered_before;
        }
      }
      catch (...)
      {
        sim::g().next_hs_fail = false;
        sim::g().next_ep_throw = false;
        throw;
      }
      sim::g().next_hs_fail = false;
      sim::g().next_ep_throw = false;
      if (accepted) line("accepted c" + std::to_string(adaptors_before));
      else if (filtered) line("rejected");
      else line("refused");
    }
    else if (op == "cl-connected")
    {
      FakeAdaptor* a = x.cli ? x.cli->adaptor() : nullptr;
      if (!a || !a->complete_connect(ASIO_ERROR_CODE()))
        line("not-pending");
    }
    else if (op == "hs" || op == "read" || op == "rderr" || op == "wdone" || op == "werr" ||
             op == "shutdone" || op == "late")
    {
      if (w.size() < 2 || conn_number(w[1]) < 0) { line("bad-op"); return true; }
      FakeAdaptor* a = adaptor(w[1]);
      bool pending = false;
      if (op == "wdone")
        pending = a && a->complete_write();
      else
      {
        if (w.size() < 3) { line("bad-op"); return true; }
        if (op == "hs")
        {
          if (w[2] != "ok" && w[2] != "fail") { line("bad-op"); return true; }
          ASIO_ERROR_CODE ec;
          if (w[2] == "fail")
            ec = ASIO::error::connection_reset;
          pending = a && a->complete_handshake(ec);
        }
        else if (op == "read")
        {
          int r = a ? a->complete_read(unhex(w[2])) : 0;
          if (r == 2) { line("bad-op"); return true; }
          pending = (r == 1);
        }
        else if (op == "late")
        {
          if (w[2] != "read" && w[2] != "write") { line("bad-op"); return true; }
          pending = a && a->late(w[2] == "read");
        }
        else
        {
          ASIO_ERROR_CODE ec;
          if (!parse_error(w[2], ec) || (!ec && op != "shutdone")) { line("bad-op"); return true; }
          if (op == "rderr") pending = a && a->fail_read(ec);
          else if (op == "werr") pending = a && a->fail_write(ec);
          else pending = a && a->complete_shutdown(ec);
        }
      }
      if (!pending)
        line("not-pending");
    }
    else if (op.compare(0, 4, "app-") == 0)
    {
      if (!x.srv) { line("no-connection"); return true; }
      x.srv->app(w);
    }
    else if (op == "srv-shutdown")
    {
      if (!x.srv) { line("bad-op"); return true; }
      x.srv->shutdown();
    }
    else if (op == "srv-close")
    {
      if (!x.srv) { line("bad-op"); return true; }
      x.srv->close();
    }
    else if (op == "srv-destroy")
    {
      if (!x.srv) { line("bad-op"); return true; }
      x.srv.reset();
    }
    else if (op == "cl-kill-timer")
    {
      // cl-kill-timer <ms>: a timer of the APPLICATION whose handler destroys the client (drops the last reference).  Armed
      // shortly before a `sleep` it expires together with the client's own reconnection timer and — expiring earlier — is
      // run first by the next poll: the client's timer completion is then already queued, with success, for a dead client
      if (!x.cli) { line("bad-op"); return true; }
      auto t = std::make_shared<ASIO::steady_timer>(x.io);
      t->expires_after(std::chrono::milliseconds(std::stoul(w.at(1))));
      ICli* c = x.cli.get();
      t->async_wait([t, c](ASIO_ERROR_CODE const&) { Words d; d.push_back("cl-destroy"); c->op(d); });
    }
    else if (op.compare(0, 3, "cl-") == 0)
    {
      if (!x.cli) { line("bad-op"); return true; }
      x.cli->op(w);
    }
    else if (op == "poll")
    {
      x.io.restart();
      x.io.poll();
    }
    else if (op == "sleep")
    {
      // sleep <ms>: let real time pass WITHOUT running the event loop (timers expire, their handlers stay queued)
      std::this_thread::sleep_for(std::chrono::milliseconds(std::stoul(w.at(1))));
    }
    else if (op == "wait")
    {
      // wait <ms>: let real time pass (timers), then run what became ready
      std::this_thread::sleep_for(std::chrono::milliseconds(std::stoul(w.at(1))));
      x.io.restart();
      x.io.poll();
    }
    else if (op == "state")
    {
      long work = static_cast<long>(x.io.impl_.outstanding_work_);
      long acceptors = x.srv ? x.srv->open_acceptors() : 0;
      line("state adaptors=" + std::to_string(sim::g().live) +
           " http=" + std::to_string(x.srv ? x.srv->http_count() : 0) +
           " comms=" + std::to_string(x.srv ? x.srv->comms_count() : 0) +
           " pending=" + b01(work - acceptors > 0));
    }
    else
      line("bad-op");
  }
  catch (std::exception const& e)
  {
    line(std::string("abort:exception ") + e.what());
    return false;
  }
  catch (...)
  {
    line("abort:exception unknown");
    return false;
  }
  return true;
}

static void run_case(const vh::Case& c)
{
  sim::g().reset();
  {
    Ctx x;
    for (auto const& l : c.lines)
    {
      Words w = vh::words(l);
      if (w.empty())
        continue;
      bool cont = run_op(x, w);
      line(";"); // end of the output of this operation
      if (!cont)
        break;
    }
    // whatever is still alive is destroyed silently; a crash in there shows up after `end`
    line("end");
    sim::g().quiet = true;
  }
  sim::g().reset();
}

int main(int argc, char** argv)
{
  std::ios::sync_with_stdio(false);
  std::vector<vh::Case> cases;
  if (argc > 1)
  {
    std::ifstream in(argv[1]);
    cases = vh::read_cases(in);
  }
  else
    cases = vh::read_cases(std::cin);
  return vh::run_cases(cases, run_case);
}
