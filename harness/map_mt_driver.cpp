// map_mt_driver — concurrent histories of via::thread::threadsafe_hash_map checked for linearizability
// (Wing & Gong search against an ordinary std::map), property C18.
//
//   map_mt_driver rounds=<n> threads=<t> ops=<k> keys=<m> buckets=<1|3|19> seed=<s>
//
// Every round: <t> threads are released together by a spin barrier and each performs <k> randomly drawn operations
// (insert/emplace, erase, find, empty, data, clear) on keys 1..<m> (all keys collide into few buckets when buckets=1/3).
// Each operation records a global invocation stamp, a global response stamp and its result.  After the round the
// history (initial contents + operations) is searched for a linearization; the first history without one is printed
// and the run stops.
//
//   RESULT scenario=maplin rounds=<done> threads=<t> ops=<k> keys=<m> buckets=<b> linearizable=<0|1> histories=<n>
//          concurrent_pairs=<n> max_states=<n> [tsan_reports=<n>]
//   on failure additionally:  HISTORY <text>   (one line per operation, replayable by eye)
//
// The search is exact for the recorded history: an operation may be linearized only after every operation that
// returned before it was invoked.
#include "via/thread/threadsafe_hash_map.hpp"

#include <algorithm>
#include <atomic>
#include <cstdint>
#include <cstdio>
#include <cstdlib>
#include <cstring>
#include <map>
#include <memory>
#include <set>
#include <sstream>
#include <string>
#include <thread>
#include <unordered_set>
#include <vector>

#ifdef NET_TSAN
static volatile int g_tsan_reports = 0;
extern "C" void __tsan_on_report(void*) { ++g_tsan_reports; }
#endif

namespace
{
  struct IdHash
  { size_t operator()(uint64_t k) const noexcept { return static_cast<size_t>(k); } };

  enum Kind { INS, ERASE, FIND, EMPTY, DATA, CLEAR };
  const char* const KIND_NAME[] = { "insert", "erase", "find", "empty", "data", "clear" };

  struct Op
  {
    int thread;
    Kind kind;
    uint64_t key;
    int value;                      // inserted value
    uint64_t inv, res;              // stamps
    // results
    bool found; int found_value;    // FIND
    bool empty;                     // EMPTY
    std::vector<std::pair<uint64_t, int>> snapshot;  // DATA (sorted)
  };

  struct Rng
  {
    uint64_t s;
    uint64_t next()
    {
      uint64_t z = (s += 0x9e3779b97f4a7c15ull);
      z = (z ^ (z >> 30)) * 0xbf58476d1ce4e5b9ull;
      z = (z ^ (z >> 27)) * 0x94d049bb133111ebull;
      return z ^ (z >> 31);
    }
    uint64_t below(uint64_t n) { return next() % n; }
  };

  struct MapBase
  {
    virtual ~MapBase() {}
    virtual void ins(uint64_t k, int v, bool emplace) = 0;
    virtual void erase(uint64_t k) = 0;
    virtual bool find(uint64_t k, int& v) = 0;
    virtual bool empty() = 0;
    virtual std::vector<std::pair<uint64_t, int>> data() = 0;
    virtual void clear() = 0;
  };

  template <size_t N>
  struct MapN : MapBase
  {
    via::thread::threadsafe_hash_map<uint64_t, int, IdHash, N> m;
    void ins(uint64_t k, int v, bool emplace) override
    { if (emplace) m.emplace(k, v); else m.insert(std::make_pair(k, v)); }
    void erase(uint64_t k) override { m.erase(k); }
    bool find(uint64_t k, int& v) override
    {
      auto r(m.find(k, std::make_pair(uint64_t(0), -1)));
      if (r.second == -1 && r.first == 0)
        return false;
      v = r.second;
      return true;
    }
    bool empty() override { return m.empty(); }
    std::vector<std::pair<uint64_t, int>> data() override
    {
      auto d(m.data());
      std::vector<std::pair<uint64_t, int>> r(d.begin(), d.end());
      std::sort(r.begin(), r.end());
      return r;
    }
    void clear() override { m.clear(); }
  };

  typedef std::map<uint64_t, int> Spec;

  std::string encode(Spec const& s)
  {
    std::string r;
    for (auto const& kv : s)
    {
      r.append(reinterpret_cast<const char*>(&kv.first), sizeof(kv.first));
      r.append(reinterpret_cast<const char*>(&kv.second), sizeof(kv.second));
    }
    return r;
  }

  /// apply op to the sequential map; @return whether the recorded result is the sequential one
  bool apply(Spec& s, Op const& op)
  {
    switch (op.kind)
    {
    case INS:   s[op.key] = op.value; return true;
    case ERASE: s.erase(op.key); return true;
    case FIND:
    {
      auto it(s.find(op.key));
      if (it == s.end())
        return !op.found;
      return op.found && op.found_value == it->second;
    }
    case EMPTY: return op.empty == s.empty();
    case DATA:
    {
      if (op.snapshot.size() != s.size())
        return false;
      size_t i(0);
      for (auto const& kv : s)
      {
        if (op.snapshot[i].first != kv.first || op.snapshot[i].second != kv.second)
          return false;
        ++i;
      }
      return true;
    }
    case CLEAR: s.clear(); return true;
    }
    return false;
  }

  struct Search
  {
    std::vector<Op> const& ops;
    std::unordered_set<std::string> seen;
    size_t states{0};
    explicit Search(std::vector<Op> const& o) : ops(o) {}

    bool run(uint32_t done, Spec const& spec)
    {
      const uint32_t all((ops.size() >= 32) ? 0xffffffffu : ((1u << ops.size()) - 1));
      if (done == all)
        return true;
      std::string key(reinterpret_cast<const char*>(&done), sizeof(done));
      key += encode(spec);
      if (!seen.insert(key).second)
        return false;
      ++states;
      // the earliest response among the pending operations bounds which may come next
      uint64_t min_res(UINT64_MAX);
      for (size_t i(0); i < ops.size(); ++i)
        if (!(done & (1u << i)))
          min_res = std::min(min_res, ops[i].res);
      for (size_t i(0); i < ops.size(); ++i)
      {
        if (done & (1u << i))
          continue;
        if (ops[i].inv > min_res)
          continue;                 // some pending operation returned before this one was invoked
        Spec next(spec);
        if (!apply(next, ops[i]))
          continue;
        if (run(done | (1u << i), next))
          return true;
      }
      return false;
    }
  };

  std::string describe(Spec const& init, std::vector<Op> const& ops)
  {
    std::ostringstream os;
    os << "initial {";
    for (auto const& kv : init)
      os << " " << kv.first << "=" << kv.second;
    os << " }\n";
    std::vector<size_t> order(ops.size());
    for (size_t i(0); i < order.size(); ++i) order[i] = i;
    std::sort(order.begin(), order.end(), [&](size_t a, size_t b){ return ops[a].inv < ops[b].inv; });
    for (size_t i : order)
    {
      Op const& o(ops[i]);
      os << "HISTORY t" << o.thread << " [" << o.inv << "," << o.res << "] " << KIND_NAME[o.kind];
      if (o.kind == INS) os << "(" << o.key << "," << o.value << ")";
      else if (o.kind == ERASE) os << "(" << o.key << ")";
      else if (o.kind == FIND)
      { os << "(" << o.key << ") -> "; if (o.found) os << o.found_value; else os << "default"; }
      else if (o.kind == EMPTY) os << "() -> " << (o.empty ? "true" : "false");
      else if (o.kind == DATA)
      {
        os << "() -> {";
        for (auto const& kv : o.snapshot) os << " " << kv.first << "=" << kv.second;
        os << " }";
      }
      else os << "()";
      os << "\n";
    }
    return os.str();
  }

  long long arg(int argc, char* argv[], const char* name, long long dflt)
  {
    size_t n(strlen(name));
    for (int i(1); i < argc; ++i)
      if (strncmp(argv[i], name, n) == 0 && argv[i][n] == '=')
        return atoll(argv[i] + n + 1);
    return dflt;
  }
}

int main(int argc, char* argv[])
{
  const long long rounds(arg(argc, argv, "rounds", 2000));
  const int threads(static_cast<int>(arg(argc, argv, "threads", 3)));
  const int nops(static_cast<int>(arg(argc, argv, "ops", 4)));
  const int keys(static_cast<int>(arg(argc, argv, "keys", 3)));
  const int buckets(static_cast<int>(arg(argc, argv, "buckets", 1)));
  const uint64_t seed(static_cast<uint64_t>(arg(argc, argv, "seed", 1)));
  if (threads < 1 || threads > 8 || nops < 1 || threads * nops > 30 || keys < 1)
  {
    printf("ERROR bad arguments\n");
    return 2;
  }

  Rng rng{seed * 0x9e3779b97f4a7c15ull + 12345};
  long long done_rounds(0), concurrent_pairs(0);
  size_t max_states(0);
  bool ok(true);
  std::string failure;

  for (long long r(0); r < rounds && ok; ++r)
  {
    std::unique_ptr<MapBase> map;
    if (buckets == 1) map.reset(new MapN<1>());
    else if (buckets == 3) map.reset(new MapN<3>());
    else map.reset(new MapN<19>());

    // initial contents
    Spec init;
    for (int k(1); k <= keys; ++k)
      if (rng.below(2))
      {
        int v(static_cast<int>(rng.below(90)) + 10);
        init[static_cast<uint64_t>(k)] = v;
        map->ins(static_cast<uint64_t>(k), v, false);
      }

    // plans
    std::vector<std::vector<Op>> plan(static_cast<size_t>(threads));
    int next_value(100);
    for (int t(0); t < threads; ++t)
      for (int i(0); i < nops; ++i)
      {
        Op o{};
        o.thread = t;
        uint64_t pick(rng.below(20));
        o.kind = pick < 6 ? INS : pick < 12 ? ERASE : pick < 16 ? FIND : pick < 17 ? EMPTY : pick < 19 ? DATA : CLEAR;
        o.key = rng.below(static_cast<uint64_t>(keys) + 1) + 1;      // incl. one key that is never the smallest
        o.value = next_value++;
        plan[static_cast<size_t>(t)].push_back(o);
      }

    std::atomic<uint64_t> clock(1);
    std::atomic<int> ready(0);
    std::atomic<bool> go(false);
    std::vector<std::thread> ts;
    for (int t(0); t < threads; ++t)
      ts.emplace_back([&, t]
      {
        bool emplace((t & 1) != 0);
        ++ready;
        while (!go.load(std::memory_order_acquire)) {}
        for (Op& o : plan[static_cast<size_t>(t)])
        {
          o.inv = clock.fetch_add(1);
          switch (o.kind)
          {
          case INS:   map->ins(o.key, o.value, emplace); break;
          case ERASE: map->erase(o.key); break;
          case FIND:  o.found = map->find(o.key, o.found_value); break;
          case EMPTY: o.empty = map->empty(); break;
          case DATA:  o.snapshot = map->data(); break;
          case CLEAR: map->clear(); break;
          }
          o.res = clock.fetch_add(1);
        }
      });
    while (ready.load() < threads) {}
    go.store(true, std::memory_order_release);
    for (auto& t : ts)
      t.join();

    std::vector<Op> ops;
    for (auto& p : plan)
      for (auto& o : p)
        ops.push_back(o);
    for (size_t i(0); i < ops.size(); ++i)
      for (size_t j(i + 1); j < ops.size(); ++j)
        if (ops[i].thread != ops[j].thread && ops[i].inv < ops[j].res && ops[j].inv < ops[i].res)
          ++concurrent_pairs;

    Search search(ops);
    bool lin(search.run(0, init));
    max_states = std::max(max_states, search.states);
    ++done_rounds;
    if (!lin)
    {
      ok = false;
      failure = describe(init, ops);
    }
    else
    {
      // the final contents must also be those of some linearization: re-check with a trailing data() observation
      Op tail{};
      tail.thread = -1;
      tail.kind = DATA;
      tail.inv = clock.fetch_add(1);
      tail.snapshot = map->data();
      tail.res = clock.fetch_add(1);
      ops.push_back(tail);
      Search search2(ops);
      if (!search2.run(0, init))
      {
        ok = false;
        failure = describe(init, ops);
      }
      max_states = std::max(max_states, search2.states);
    }
  }

  printf("RESULT scenario=maplin rounds=%lld threads=%d ops=%d keys=%d buckets=%d linearizable=%d histories=%lld "
         "concurrent_pairs=%lld max_states=%zu seed=%llu", done_rounds, threads, nops, keys, buckets, ok ? 1 : 0,
         done_rounds, concurrent_pairs, max_states, static_cast<unsigned long long>(seed));
#ifdef NET_TSAN
  printf(" tsan_reports=%d", g_tsan_reports);
#endif
  printf("\n");
  if (!ok)
    printf("%s", failure.c_str());
  fflush(stdout);
  return 0;
}
