import Cal.Basic
namespace Via

abbrev Fields := List (List Byte × List Byte)

def Fields.add (fs : Fields) (n v : List Byte) : Fields :=
  match fs with
  | [] => [(n, v)]
  | (n', v') :: rest => if n' = n then (n', v' ++ [44] ++ v) :: rest else (n', v') :: Fields.add rest n v

structure MH where
  fields : Fields := []
  field : FL := {}
  valid : Bool := false
  blankCr : Bool := false
  fail : Bool := false
  number : Nat := 0
  length : Nat := 0
deriving DecidableEq, Repr

def FL.started (f : FL) : Bool := f.length > 0

/-- commit a completed field line; returns false when a limit is exceeded -/
def MH.commit (cfg : Cfg) (h : MH) (f : FL) : MH × Bool :=
  let h1 := { h with length := h.length + (f.name.length + f.value.length),
                     number := h.number + 1,
                     fields := h.fields.add f.name f.value,
                     field := {} }
  if h1.length > cfg.maxHdrLen || h1.number > cfg.maxHdrNum then ({ h1 with fail := true }, false)
  else (h1, true)

/-- the blank line at the end of the headers -/
def MH.blank (h : MH) : List Byte → MH × List Byte × Bool
  | [] => (h, [], false)
  | c :: cs =>
    if !h.blankCr && !isEol c then (h, c :: cs, false)
    else
      let hr : MH × List Byte := if !h.blankCr && c == 13 then ({ h with blankCr := true }, cs) else (h, c :: cs)
      match hr.2 with
      | [] => (hr.1, [], false)
      | d :: ds => if d != 10 then ({ hr.1 with fail := true }, d :: ds, false)
                   else ({ hr.1 with valid := true }, ds, true)

/-- header loop entered with a fresh field -/
def MH.fresh (cfg : Cfg) (h : MH) (buf : List Byte) : MH × List Byte × Bool :=
  match buf with
  | [] => (h, [], false)
  | c :: cs =>
    if isEol c then MH.blank h (c :: cs)
    else
      let r := FL.loop cfg {} (c :: cs)
      if !r.2.2 then ({ h with field := r.1 }, r.2.1, false)
      else if r.2.1 = [] then ({ h with field := r.1 }, [], false)
      else
        let hc := MH.commit cfg h r.1
        if !hc.2 then (hc.1, r.2.1, false)
        else MH.fresh cfg hc.1 r.2.1
termination_by buf.length
decreasing_by
  have := FL.loop_progress cfg {} c cs (by decide)
  simp only [List.length_cons]
  omega

/-- `message_headers::parse` (repaired) -/
def MH.parse (cfg : Cfg) (h : MH) (buf : List Byte) : MH × List Byte × Bool :=
  if h.blankCr then MH.blank h buf
  else if h.field.started then
    match buf with
    | [] => (h, [], false)
    | c :: cs =>
      let r := FL.parse cfg h.field (c :: cs)
      if !r.2.2 then ({ h with field := r.1 }, r.2.1, false)
      else if r.2.1 = [] then ({ h with field := r.1 }, [], false)
      else
        let hc := MH.commit cfg h r.1
        if !hc.2 then (hc.1, r.2.1, false)
        else MH.fresh cfg hc.1 r.2.1
  else MH.fresh cfg h buf

end Via
