import Cal.Headers
namespace Via

def MH.isDone (h : MH) : Bool := h.fail || h.valid || h.field.fail

theorem FL.loop_fail_ok (cfg : Cfg) (s : FL) (a : List Byte) (hf : s.fail = false) :
    (FL.loop cfg s a).1.fail = true → (FL.loop cfg s a).2.2 = false := by
  induction a generalizing s with
  | nil => simp [FL.loop, hf]
  | cons c cs ih =>
    simp only [FL.loop]
    split
    · simp [hf]
    · by_cases hok : (s.parseChar cfg c).2 = true
      · simp only [hok]
        exact ih _ (by rw [FL.peek_fail, FL.parseChar_fail, hf])
      · simp [hok]

/-- if the loop stops with bytes left and has not failed, the line is complete -/
theorem FL.loop_rest_valid (cfg : Cfg) (s : FL) (a : List Byte) (hf : s.fail = false) :
    (FL.loop cfg s a).2.1 ≠ [] → (FL.loop cfg s a).1.fail = false → (FL.loop cfg s a).2.2 = true := by
  induction a generalizing s with
  | nil => simp [FL.loop]
  | cons c cs ih =>
    simp only [FL.loop]
    split
    · simp
    · by_cases hok : (s.parseChar cfg c).2 = true
      · simp only [hok]
        exact ih _ (by rw [FL.peek_fail, FL.parseChar_fail, hf])
      · simp [hok]

theorem MH.blank_append (h : MH) (a b : List Byte) (hd : h.isDone = false) :
    MH.blank h (a ++ b) =
      let r := MH.blank h a
      if r.1.isDone then (r.1, r.2.1 ++ b, r.2.2)
      else if r.2.1 ≠ [] then (r.1, r.2.1 ++ b, r.2.2)
      else MH.blank r.1 b := by
  simp only [MH.isDone, Bool.or_eq_false_iff] at hd
  obtain ⟨⟨hf, hv⟩, hff⟩ := hd
  cases a with
  | nil => simp [MH.blank, MH.isDone, hf, hv, hff]
  | cons c cs =>
    simp only [List.cons_append, MH.blank]
    by_cases h1 : (!h.blankCr && !isEol c) = true
    · simp [h1, MH.isDone, hf, hv, hff]
    · simp only [h1]
      by_cases h2 : (!h.blankCr && c == 13) = true
      · simp only [h2]
        cases cs with
        | nil =>
          simp [MH.isDone, hf, hv, hff]
        | cons d ds =>
          by_cases h3 : (d != 10) = true <;> simp [h3, MH.isDone, hf, hv, hff]
      · simp only [h2]
        by_cases h3 : (c != 10) = true <;> simp [h3, MH.isDone, hf, hv, hff]


theorem FL.valueStep_length (cfg : Cfg) (s : FL) (c : Byte) : (FL.valueStep cfg s c).1.length = s.length := by
  unfold FL.valueStep; repeat' split
  all_goals rfl

theorem FL.parseChar_length (cfg : Cfg) (s : FL) (c : Byte) : (s.parseChar cfg c).1.length = s.length + 1 := by
  unfold FL.parseChar
  simp only
  repeat' split
  all_goals simp [FL.valueStep_length]

theorem FL.peek_length (s : FL) (b : List Byte) : (s.peek b).length = s.length := by
  unfold FL.peek; repeat' split
  all_goals rfl

theorem FL.loop_length_ge (cfg : Cfg) (s : FL) (a : List Byte) : s.length ≤ (FL.loop cfg s a).1.length := by
  induction a generalizing s with
  | nil => simp [FL.loop]
  | cons c cs ih =>
    simp only [FL.loop]
    split
    · simp
    · by_cases hok : (s.parseChar cfg c).2 = true
      · simp only [hok]
        have := ih ((s.parseChar cfg c).1.peek cs)
        rw [FL.peek_length, FL.parseChar_length] at this
        simp only [Bool.not_true, Bool.false_eq_true, if_false]
        omega
      · simp [hok, FL.parseChar_length]

theorem FL.loop_length_pos (cfg : Cfg) (s : FL) (c : Byte) (cs : List Byte) (hs : s.st ≠ .valid) :
    (FL.loop cfg s (c :: cs)).1.started = true := by
  have hv : (s.st == HS.valid) = false := by simp [hs]
  simp only [FL.loop, hv, FL.started]
  by_cases hok : (s.parseChar cfg c).2 = true
  · simp only [hok]
    have := FL.loop_length_ge cfg ((s.parseChar cfg c).1.peek cs) cs
    rw [FL.peek_length, FL.parseChar_length] at this
    simp only [Bool.not_true, Bool.false_eq_true, if_false, gt_iff_lt, decide_eq_true_eq]
    omega
  · simp [hok, FL.parseChar_length]

theorem MH.commit_ok (cfg : Cfg) (h : MH) (f : FL) (hd : h.isDone = false) (hok : (MH.commit cfg h f).2 = true) :
    (MH.commit cfg h f).1.isDone = false ∧ (MH.commit cfg h f).1.blankCr = h.blankCr := by
  simp only [MH.isDone, Bool.or_eq_false_iff] at hd
  unfold MH.commit at *
  simp only at *
  split at hok
  · simp at hok
  · split
    · simp_all
    · simp [MH.isDone, hd]

theorem MH.commit_fail (cfg : Cfg) (h : MH) (f : FL) (hok : (MH.commit cfg h f).2 = false) :
    (MH.commit cfg h f).1.isDone = true := by
  unfold MH.commit at *
  simp only at *
  split at hok
  · split
    · simp [MH.isDone]
    · simp_all
  · simp at hok

theorem MH.commit_field_irrel (cfg : Cfg) (h : MH) (f g : FL) :
    MH.commit cfg { h with field := g } f = MH.commit cfg h f := by
  simp [MH.commit]

theorem MH.commit_started (cfg : Cfg) (h : MH) (f : FL) (hok : (MH.commit cfg h f).2 = true) :
    (MH.commit cfg h f).1.field.started = false := by
  unfold MH.commit at *
  simp only at *
  split at hok
  · simp at hok
  · split
    · simp_all
    · simp [FL.started]

theorem MH.fresh_cons (cfg : Cfg) (h : MH) (c : Byte) (cs : List Byte) :
    MH.fresh cfg h (c :: cs) =
      if isEol c then MH.blank h (c :: cs)
      else
        let r := FL.loop cfg {} (c :: cs)
        if !r.2.2 then ({ h with field := r.1 }, r.2.1, false)
        else if r.2.1 = [] then ({ h with field := r.1 }, [], false)
        else
          let hc := MH.commit cfg h r.1
          if !hc.2 then (hc.1, r.2.1, false)
          else MH.fresh cfg hc.1 r.2.1 := by
  rw [MH.fresh]

/-- an incomplete blank line (nothing left, not failed, not valid) has seen its CR -/
theorem MH.blank_incomplete (h : MH) (c : Byte) (cs : List Byte) (he : isEol c = true)
    (hbc : h.blankCr = false) (hd : h.isDone = false) :
    (MH.blank h (c :: cs)).1.isDone = false → (MH.blank h (c :: cs)).2.1 = [] →
      (MH.blank h (c :: cs)).1.blankCr = true := by
  simp only [MH.isDone, Bool.or_eq_false_iff] at hd
  obtain ⟨⟨hf, hv⟩, hff⟩ := hd
  simp only [MH.blank, hbc, he]
  by_cases h13 : c = 13
  · subst h13
    cases cs with
    | nil => simp
    | cons d ds => by_cases h3 : (d != 10) = true <;> simp [h3, MH.isDone]
  · have h10 : c = 10 := by
      simp only [isEol, Bool.or_eq_true, beq_iff_eq] at he
      rcases he with he | he
      · exact absurd he h13
      · exact he
    subst h10
    simp [MH.isDone]

theorem MH.fresh_append (cfg : Cfg) (h : MH) (a b : List Byte)
    (hd : h.isDone = false) (hbc : h.blankCr = false) (hns : h.field.started = false) :
    MH.fresh cfg h (a ++ b) =
      let r := MH.fresh cfg h a
      if r.1.isDone then (r.1, r.2.1 ++ b, r.2.2)
      else if r.2.1 ≠ [] then (r.1, r.2.1 ++ b, r.2.2)
      else MH.parse cfg r.1 b := by
  generalize hn : a.length = n
  induction n using Nat.strongRecOn generalizing a h with
  | _ n ih =>
    cases a with
    | nil =>
      simp only [List.nil_append]
      rw [MH.fresh]
      simp [hd, MH.parse, hbc, hns]
    | cons c cs =>
      simp only [List.cons_append, MH.fresh_cons]
      by_cases he : isEol c = true
      · simp only [he, if_true]
        have hba := MH.blank_append h (c :: cs) b hd
        simp only [List.cons_append] at hba
        rw [hba]
        by_cases hdone : (MH.blank h (c :: cs)).1.isDone = true
        · simp [hdone]
        · simp only [hdone]
          by_cases hrest : (MH.blank h (c :: cs)).2.1 = []
          · have hcr := MH.blank_incomplete h c cs he hbc hd (by simpa using hdone) hrest
            simp [hrest, MH.parse, hcr]
          · simp [hrest]
      · simp only [he]
        have hla := FL.loop_append cfg {} (c :: cs) b (by simp) (by decide) rfl
        simp only [List.cons_append] at hla
        rw [hla]
        have hprog := FL.loop_progress cfg {} c cs (by decide)
        generalize hra : FL.loop cfg {} (c :: cs) = ra at *
        by_cases hfail : ra.1.fail = true
        · have hok : ra.2.2 = false := by
            have := FL.loop_fail_ok cfg {} (c :: cs) rfl
            rw [hra] at this; exact this hfail
          simp [hfail, hok, MH.isDone]
        · have hfail' : ra.1.fail = false := by simpa using hfail
          simp only [hfail', Bool.false_eq_true, if_false]
          by_cases hrest : ra.2.1 = []
          · -- everything consumed: the second read continues this field
            have hst : ({ h with field := ra.1 } : MH).field.started = true := by
              have := FL.loop_length_pos cfg {} c cs (by decide)
              rw [hra] at this; exact this
            have hnd : ({ h with field := ra.1 } : MH).isDone = false := by
              simp only [MH.isDone, Bool.or_eq_false_iff] at hd ⊢
              simp [hd, hfail']
            simp only [hrest, ne_eq, not_true_eq_false, if_false]
            cases b with
            | nil =>
              simp [FL.loop, FL.peek, MH.parse, hbc, hst]
            | cons d ds =>
              have hd' := hd
              simp only [MH.isDone, Bool.or_eq_false_iff] at hd'
              obtain ⟨⟨hf, hv⟩, _⟩ := hd'
              have hst' : ra.1.started = true := hst
              by_cases hok : ra.2.2 = true <;>
                simp [hok, MH.parse, hbc, hst', FL.parse, MH.commit, MH.isDone, hf, hv, hfail']
          · have hok : ra.2.2 = true := by
              have := FL.loop_rest_valid cfg {} (c :: cs) rfl
              rw [hra] at this; exact this hrest hfail'
            simp only [hrest, ne_eq, not_false_eq_true, if_true, hok, Bool.not_true, Bool.false_eq_true, if_false,
              List.append_eq_nil_iff, false_and]
            by_cases hc : (MH.commit cfg h ra.1).2 = true
            · have ⟨hcd, hcb⟩ := MH.commit_ok cfg h ra.1 hd hc
              have hcs := MH.commit_started cfg h ra.1 hc
              simp only [hc, Bool.not_true, Bool.false_eq_true, if_false]
              exact ih ra.2.1.length (by simp only [List.length_cons] at hn; omega) (MH.commit cfg h ra.1).1 ra.2.1 hcd (by rw [hcb, hbc]) hcs rfl
            · have hc' : (MH.commit cfg h ra.1).2 = false := by simpa using hc
              have := MH.commit_fail cfg h ra.1 hc'
              simp [hc', this]

end Via
