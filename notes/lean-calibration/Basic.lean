namespace Via
abbrev Byte := UInt8

def isBlank (c : Byte) : Bool := c == 32 || c == 9
def isEol (c : Byte) : Bool := c == 13 || c == 10
def isAlpha (c : Byte) : Bool := (65 ≤ c && c ≤ 90) || (97 ≤ c && c ≤ 122)
def toLower (c : Byte) : Byte := if 65 ≤ c && c ≤ 90 then c + 32 else c

structure Cfg where
  maxLine : Nat
  maxWs : Nat
  maxHdrNum : Nat
  maxHdrLen : Nat
  strict : Bool

inductive HS where
  | name | valueLs | value | lf | valid | errLength | errCrlf | errWs
deriving DecidableEq, Repr

structure FL where
  name : List Byte := []
  value : List Byte := []
  length : Nat := 0
  ws : Nat := 0
  st : HS := .name
  fail : Bool := false
deriving DecidableEq, Repr

def FL.valueStep (cfg : Cfg) (s : FL) (c : Byte) : FL × Bool :=
  if !isEol c then ({ s with value := s.value ++ [c] }, true)
  else if c == 13 then ({ s with st := .lf }, true)
  else if cfg.strict then ({ s with st := .errCrlf }, false)
  else ({ s with st := .valid }, true)

/-- `field_line::parse_char` -/
def FL.parseChar (cfg : Cfg) (s0 : FL) (c : Byte) : FL × Bool :=
  let s1 := { s0 with length := s0.length + 1 }
  let s := if s1.length > cfg.maxLine then { s1 with st := .errLength } else s1
  match s.st with
  | .name =>
    if isAlpha c || c == 45 then ({ s with name := s.name ++ [toLower c] }, true)
    else if c == 58 then ({ s with st := .valueLs }, true)
    else (s, false)
  | .valueLs =>
    if isBlank c then
      let s := { s with ws := s.ws + 1 }
      if s.ws > cfg.maxWs then ({ s with st := .errWs }, false) else (s, true)
    else FL.valueStep cfg { s with st := .value } c
  | .value => FL.valueStep cfg s c
  | .lf => if c == 10 then ({ s with st := .valid }, true) else (s, false)
  | _ => (s, false)

/-- the fold look-ahead: a completed line followed by a blank is continued -/
def FL.peek (s : FL) : List Byte → FL
  | [] => s
  | d :: _ => if s.st == .valid && isBlank d then { s with value := s.value ++ [32], st := .valueLs } else s

/-- the `while` loop of `field_line::parse` -/
def FL.loop (cfg : Cfg) (s : FL) : List Byte → FL × List Byte × Bool
  | [] => (s, [], s.st == .valid)
  | c :: cs =>
    if s.st == .valid then (s, c :: cs, true)
    else
      let r := s.parseChar cfg c
      if !r.2 then ({ r.1 with fail := true }, cs, false)
      else FL.loop cfg (r.1.peek cs) cs

/-- `field_line::parse` (repaired: look-ahead repeated on re-entry) -/
def FL.parse (cfg : Cfg) (s : FL) (buf : List Byte) : FL × List Byte × Bool :=
  FL.loop cfg (s.peek buf) buf

theorem FL.loop_rest_suffix (cfg : Cfg) (s : FL) (buf : List Byte) :
    (FL.loop cfg s buf).2.1.length ≤ buf.length := by
  induction buf generalizing s with
  | nil => simp [FL.loop]
  | cons c cs ih =>
    simp only [FL.loop]
    split
    · simp
    · split
      · simp
      · exact Nat.le_succ_of_le (ih _)

/-- if the loop starts in a non-valid state on a non-empty buffer it consumes at least a byte -/
theorem FL.loop_progress (cfg : Cfg) (s : FL) (c : Byte) (cs : List Byte) (h : s.st ≠ .valid) :
    (FL.loop cfg s (c :: cs)).2.1.length ≤ cs.length := by
  have hv : (s.st == HS.valid) = false := by simp [h]
  simp only [FL.loop, hv]
  by_cases hok : (s.parseChar cfg c).2 = true
  · simp only [hok]
    exact FL.loop_rest_suffix cfg _ cs
  · simp [hok]

theorem FL.valueStep_fail (cfg : Cfg) (s : FL) (c : Byte) : (FL.valueStep cfg s c).1.fail = s.fail := by
  unfold FL.valueStep; repeat' split
  all_goals rfl

theorem FL.parseChar_fail (cfg : Cfg) (s : FL) (c : Byte) : (s.parseChar cfg c).1.fail = s.fail := by
  unfold FL.parseChar
  simp only
  split <;> (try split) <;> (try split) <;> (try split) <;> simp [FL.valueStep_fail] <;> (try split) <;> simp

theorem FL.peek_fail (s : FL) (b : List Byte) : (s.peek b).fail = s.fail := by
  unfold FL.peek; repeat' split
  all_goals rfl

theorem FL.peek_of_not_valid (s : FL) (b : List Byte) (h : s.st ≠ .valid) : s.peek b = s := by
  unfold FL.peek; split
  · rfl
  · simp [h]

theorem FL.peek_append (s : FL) (d : Byte) (ds b : List Byte) : s.peek ((d :: ds) ++ b) = s.peek (d :: ds) := by
  simp [FL.peek]

/-- Fragmentation lemma for the field-line loop: `a ++ b` in one read equals `a` then `b`,
    where the second read starts with the re-entry look-ahead. -/
theorem FL.loop_append (cfg : Cfg) (s : FL) (a b : List Byte) (hne : a ≠ []) (hs : s.st ≠ .valid) (hf : s.fail = false):
    FL.loop cfg s (a ++ b) =
      let r := FL.loop cfg s a
      if r.1.fail then (r.1, r.2.1 ++ b, false)
      else if r.2.1 ≠ [] then (r.1, r.2.1 ++ b, r.2.2)
      else FL.loop cfg (r.1.peek b) b := by
  induction a generalizing s with
  | nil => exact absurd rfl hne
  | cons c cs ih =>
    have hv : (s.st == HS.valid) = false := by simp [hs]
    simp only [List.cons_append, FL.loop, hv]
    by_cases hok : (s.parseChar cfg c).2 = true
    · simp only [hok]
      have hf0 : (s.parseChar cfg c).1.fail = false := by rw [FL.parseChar_fail, hf]
      cases cs with
      | nil =>
        simp [FL.loop, FL.peek, hf0]
      | cons d ds =>
        rw [FL.peek_append]
        by_cases hv' : ((s.parseChar cfg c).1.peek (d :: ds)).st = .valid
        · have hf1 : ((s.parseChar cfg c).1.peek (d :: ds)).fail = false := by rw [FL.peek_fail, hf0]
          simp [FL.loop, hv', hf1]
        · have hf1 : ((s.parseChar cfg c).1.peek (d :: ds)).fail = false := by rw [FL.peek_fail, hf0]
          exact ih _ (by simp) hv' hf1
    · simp [hok]

end Via
