import ViaModel.Cfg
import ViaModel.Num
/-
  `field_line` and `message_headers` (headers.hpp): char-at-a-time line parser with the one-byte
  obs-fold look-ahead, and the header-block loop with its pending field, blank-line CR flag and limits.
-/
namespace Via

inductive HS where
  | name | valueLs | value | lf | valid | errLength | errCrlf | errWs
deriving Repr, DecidableEq

structure FL where
  name : Bytes := []
  value : Bytes := []
  length : Nat := 0
  ws : Nat := 0
  st : HS := .name
  fail : Bool := false
deriving Repr, DecidableEq

/-- `std::isgraph` -/
def isGraph (c : Byte) : Bool := 33 ≤ c && c ≤ 126

/-- the `VALUE` case of `field_line::parse_char` (also reached by fall-through from `VALUE_LS`) -/
def FL.valueStep (cfg : Cfg) (s : FL) (c : Byte) : FL × Bool :=
  if !isEol c then ({ s with value := s.value ++ [c] }, true)
  else if c == 13 then ({ s with st := .lf }, true)
  else if cfg.strict then ({ s with st := .errCrlf }, false)
  else ({ s with st := .valid }, true)

/-- `field_line::parse_char` -/
def FL.parseChar (cfg : Cfg) (s0 : FL) (c : Byte) : FL × Bool :=
  let s1 := { s0 with length := s0.length + 1 }
  let s := if s1.length > cfg.maxLine then { s1 with st := .errLength } else s1
  match s.st with
  | .name =>
    if isGraph c && !isSeparator c then ({ s with name := s.name ++ [toLower c] }, true)
    else if c == 58 then ({ s with st := .valueLs }, true)
    else (s, false)
  | .valueLs =>
    if isBlank c then
      let s := { s with ws := s.ws + 1 }
      if s.ws > cfg.maxWs then ({ s with st := .errWs }, false) else (s, true)
    else FL.valueStep cfg { s with st := .value } c
  | .value => FL.valueStep cfg s c
  | .lf => if c == 10 then ({ s with st := .valid }, true) else (s, false)
  | _ => (s, false)

/-- the fold look-ahead: a completed line followed by a blank is continued -/
def FL.peek (s : FL) : Bytes → FL
  | [] => s
  | d :: _ =>
    if s.st == .valid && isBlank d then { s with value := s.value ++ [32], st := .valueLs } else s

/-- the `while` loop of `field_line::parse`: state, unconsumed rest, returned bool -/
def FL.loop (cfg : Cfg) (s : FL) : Bytes → FL × Bytes × Bool
  | [] => (s, [], s.st == .valid)
  | c :: cs =>
    if s.st == .valid then (s, c :: cs, true)
    else
      let r := s.parseChar cfg c
      if !r.2 then ({ r.1 with fail := true }, cs, false)
      else FL.loop cfg (r.1.peek cs) cs

/-- `field_line::parse` (the look-ahead is repeated on entry for a line completed at the end of the
    previous buffer) -/
def FL.parse (cfg : Cfg) (s : FL) (buf : Bytes) : FL × Bytes × Bool :=
  FL.loop cfg (s.peek buf) buf

/-- `field_line::started` -/
def FL.started (f : FL) : Bool := decide (f.length > 0)

abbrev Fields := List (Bytes × Bytes)

def Fields.find (fs : Fields) (n : Bytes) : Bytes :=
  match fs with
  | [] => []
  | (n', v) :: rest => if n' == n then v else Fields.find rest n

/-- `message_headers::add`: a repeated name is joined with ',' (';' when the name contains "cookie") -/
def Fields.add (fs : Fields) (n v : Bytes) : Fields :=
  match fs with
  | [] => [(n, v)]
  | (n', v') :: rest =>
    if n' == n then (n', v' ++ [if containsSub (b!"cookie") n then 59 else 44] ++ v) :: rest
    else (n', v') :: Fields.add rest n v

structure MH where
  fields : Fields := []
  field : FL := {}
  valid : Bool := false
  blankCr : Bool := false
  number : Nat := 0
  length : Nat := 0
deriving Repr, DecidableEq

/-- commit a completed field line; false when a limit is exceeded -/
def MH.commit (cfg : Cfg) (h : MH) (f : FL) : MH × Bool :=
  let h1 := { h with length := h.length + (f.name.length + f.value.length),
                     number := h.number + 1,
                     fields := h.fields.add f.name f.value,
                     field := {} }
  if h1.length > cfg.maxHdrLen || h1.number > cfg.maxHdrNum then (h1, false) else (h1, true)

/-- the blank line at the end of the headers (the code after the loop) -/
def MH.blank (cfg : Cfg) (h : MH) : Bytes → MH × Bytes × Bool
  | [] => (h, [], false)
  | c :: cs =>
    if !h.blankCr && !isEol c then (h, c :: cs, false)
    else if !(!h.blankCr && c == 13) && cfg.strict && !h.blankCr then (h, c :: cs, false)
    else
      let hr : MH × Bytes := if !h.blankCr && c == 13 then ({ h with blankCr := true }, cs) else (h, c :: cs)
      match hr.2 with
      | [] => (hr.1, [], false)
      | d :: ds => if d != 10 then (hr.1, d :: ds, false) else ({ hr.1 with valid := true }, ds, true)

theorem FL.loop_rest_le (cfg : Cfg) (s : FL) (buf : Bytes) : (FL.loop cfg s buf).2.1.length ≤ buf.length := by
  induction buf generalizing s with
  | nil => simp [FL.loop]
  | cons c cs ih =>
    simp only [FL.loop]
    split
    · simp
    · split
      · simp
      · exact Nat.le_succ_of_le (ih _)

theorem FL.loop_progress (cfg : Cfg) (s : FL) (c : Byte) (cs : Bytes) (h : s.st ≠ .valid) :
    (FL.loop cfg s (c :: cs)).2.1.length ≤ cs.length := by
  have hv : (s.st == HS.valid) = false := by simp [h]
  simp only [FL.loop, hv]
  by_cases hok : (s.parseChar cfg c).2 = true
  · simp only [hok]
    exact FL.loop_rest_le cfg _ cs
  · simp [hok]

/-- the header loop entered with a fresh field -/
def MH.fresh (cfg : Cfg) (h : MH) (buf : Bytes) : MH × Bytes × Bool :=
  match buf with
  | [] => (h, [], false)
  | c :: cs =>
    if isEol c then MH.blank cfg h (c :: cs)
    else
      let r := FL.loop cfg {} (c :: cs)
      if !r.2.2 then ({ h with field := r.1 }, r.2.1, false)
      else if r.2.1.isEmpty then ({ h with field := r.1 }, [], false)
      else
        let hc := MH.commit cfg h r.1
        if !hc.2 then (hc.1, r.2.1, false)
        else MH.fresh cfg hc.1 r.2.1
termination_by buf.length
decreasing_by
  have := FL.loop_progress cfg {} c cs (by decide)
  simp only [List.length_cons]
  omega

/-- `message_headers::parse` -/
def MH.parse (cfg : Cfg) (h : MH) (buf : Bytes) : MH × Bytes × Bool :=
  if h.blankCr then MH.blank cfg h buf
  else if h.field.started then
    match buf with
    | [] => (h, [], false)
    | c :: cs =>
      let r := FL.parse cfg h.field (c :: cs)
      if !r.2.2 then ({ h with field := r.1 }, r.2.1, false)
      else if r.2.1.isEmpty then ({ h with field := r.1 }, [], false)
      else
        let hc := MH.commit cfg h r.1
        if !hc.2 then (hc.1, r.2.1, false)
        else MH.fresh cfg hc.1 r.2.1
  else MH.fresh cfg h buf

/-- `message_headers::fail` -/
def MH.fail (h : MH) : Bool := h.field.fail

def lowerBytes (s : Bytes) : Bytes := s.map toLower

/-- `content_length()`: 0 when absent (or empty), -1 when not a decimal number -/
def MH.contentLength (h : MH) : Int :=
  let v := h.fields.find (b!"content-length")
  if v.isEmpty then 0 else fromDecString v

def MH.isChunked (h : MH) : Bool :=
  let v := h.fields.find (b!"transfer-encoding")
  if v.isEmpty then false else !containsSub (b!"identity") (lowerBytes v)

def MH.closeConnection (h : MH) : Bool :=
  let v := h.fields.find (b!"connection")
  if v.isEmpty then false else containsSub (b!"close") (lowerBytes v)

def MH.expectContinue (h : MH) : Bool :=
  let v := h.fields.find (b!"expect")
  if v.isEmpty then false else containsSub (b!"100-continue") (lowerBytes v)

end Via
