import ViaModel.HashMap
/-
  `via::thread::threadsafe_hash_map` under concurrency: any number of threads, each operation broken into the
  micro-steps the C++ performs — take the bucket mutex (`lock_guard` = exclusive for `add_or_update_mapping` /
  `remove_mapping` / `clear`, `shared_lock` for `value_for` / `empty` / `data`), read the bucket, write the bucket,
  release — with the whole-map operations taking the mutexes of ALL buckets in index order before they touch any bucket
  and releasing them afterwards.  A step of the system is one micro-step of one thread; a mutex can be taken only when
  no other thread holds it in a conflicting mode.  Nothing else is assumed about the schedule.

  Ghost components (not read by any step): `abs`, the sequential map; `log`, the operations in the order of their
  linearization points with the results they return; `hist`, the history of invocation / linearization / return events.
-/
namespace Via.HM.Conc

/-- exclusive (`lock_guard` / `unique_lock`) or shared (`shared_lock`) -/
def writes {V} : Op V → Bool
  | .insert _ _ => true
  | .erase _ => true
  | .clear => true
  | _ => false

/-- the key of a single-bucket operation -/
def key? {V} : Op V → Option Nat
  | .insert k _ => some k
  | .erase k => some k
  | .find k => some k
  | _ => none

/-- what the operation stores into a bucket it visits, given what it read there -/
def bucketFn {V} : Op V → Bucket V → Bucket V
  | .insert k v, b => addOrUpdate b k v
  | .erase k, b => removeMapping b k
  | .clear, _ => []
  | _, b => b

/-- the value returned, from the bucket(s) read (in visiting order) -/
def resOf {V} : Op V → List (Bucket V) → Res V
  | .find k, bs => .found (valueFor (bs.headD []) k)
  | .isEmpty, bs => .bool (bs.all (·.isEmpty))
  | .data, bs => .list bs.flatten
  | _, _ => .unit

/-- where a thread is in its current operation -/
inductive TS (V : Type) where
  | idle
  | sWait (op : Op V) (k : Nat)                        -- single-bucket operation invoked, mutex not yet taken
  | sHeld (op : Op V) (k : Nat)                        -- mutex of bucket `hash k % n` held
  | sRead (op : Op V) (k : Nat) (l : Bucket V)         -- bucket read into `l`
  | sDone (op : Op V) (k : Nat) (r : Res V)            -- bucket written, mutex still held
  | mAcq (op : Op V) (i : Nat)                         -- whole-map operation: mutexes of buckets < i held
  | mAcc (op : Op V) (i : Nat) (acc : List (Bucket V)) -- all mutexes held, buckets < i visited (`acc` = what was read)
  | mRel (op : Op V) (i : Nat) (r : Res V)             -- mutexes of buckets < i released again

/-- does a thread in this state hold the mutex of bucket `b` (in the mode of its operation) -/
def TS.holds {V} (n : Nat) (hash : Nat → Nat) : TS V → Nat → Bool
  | .sHeld _ k, b => b == hash k % n
  | .sRead _ k _, b => b == hash k % n
  | .sDone _ k _, b => b == hash k % n
  | .mAcq _ i, b => decide (b < i)
  | .mAcc _ _ _, b => decide (b < n)
  | .mRel _ i _, b => decide (i ≤ b) && decide (b < n)
  | _, _ => false

def TS.op? {V} : TS V → Option (Op V)
  | .idle => none
  | .sWait op _ => some op
  | .sHeld op _ => some op
  | .sRead op _ _ => some op
  | .sDone op _ _ => some op
  | .mAcq op _ => some op
  | .mAcc op _ _ => some op
  | .mRel op _ _ => some op

/-- holds it exclusively -/
def TS.holdsX {V} (n : Nat) (hash : Nat → Nat) (ts : TS V) (b : Nat) : Bool :=
  ts.holds n hash b && (match ts.op? with | some op => writes op | none => false)

/-- may a thread take the mutex of `b` in the mode of `op`, as far as the thread in state `other` is concerned -/
def free {V} (n : Nat) (hash : Nat → Nat) (other : TS V) (op : Op V) (b : Nat) : Prop :=
  if writes op then other.holds n hash b = false else other.holdsX n hash b = false

inductive Ev (V : Type) where
  | inv (t : Nat) (op : Op V)
  | lin (t : Nat) (op : Op V) (r : Res V)
  | ret (t : Nat) (op : Op V) (r : Res V)

structure St (V : Type) where
  mem : List (Bucket V)
  thr : Nat → TS V
  abs : Map V
  log : List (Nat × Op V × Res V)
  hist : List (Ev V)

def upd {α} (f : Nat → α) (t : Nat) (x : α) : Nat → α := fun u => if u = t then x else f u

def St.init {V} (n : Nat) (hash : Nat → Nat) : St V :=
  { mem := List.replicate n [], thr := fun _ => .idle, abs := Map.empty n hash, log := [], hist := [] }

/-- one micro-step of thread `t` -/
inductive Step {V} (n : Nat) (hash : Nat → Nat) : St V → St V → Prop where
  | invokeS (s : St V) (t : Nat) (op : Op V) (k : Nat) :
      s.thr t = .idle → key? op = some k →
      Step n hash s { s with thr := upd s.thr t (.sWait op k), hist := s.hist ++ [.inv t op] }
  | invokeM (s : St V) (t : Nat) (op : Op V) :
      s.thr t = .idle → key? op = none →
      Step n hash s { s with thr := upd s.thr t (.mAcq op 0), hist := s.hist ++ [.inv t op] }
  | acqS (s : St V) (t : Nat) (op : Op V) (k : Nat) :
      s.thr t = .sWait op k → (∀ u, u ≠ t → free n hash (s.thr u) op (hash k % n)) →
      Step n hash s { s with thr := upd s.thr t (.sHeld op k) }
  | readS (s : St V) (t : Nat) (op : Op V) (k : Nat) :
      s.thr t = .sHeld op k →
      Step n hash s { s with thr := upd s.thr t (.sRead op k (s.mem.getD (hash k % n) [])) }
  | writeS (s : St V) (t : Nat) (op : Op V) (k : Nat) (l : Bucket V) :
      s.thr t = .sRead op k l →
      Step n hash s { s with mem := s.mem.set (hash k % n) (bucketFn op l),
                             thr := upd s.thr t (.sDone op k (resOf op [l])),
                             abs := (s.abs.step op).1,
                             log := s.log ++ [(t, op, resOf op [l])],
                             hist := s.hist ++ [.lin t op (resOf op [l])] }
  | retS (s : St V) (t : Nat) (op : Op V) (k : Nat) (r : Res V) :
      s.thr t = .sDone op k r →
      Step n hash s { s with thr := upd s.thr t .idle, hist := s.hist ++ [.ret t op r] }
  | acqM (s : St V) (t : Nat) (op : Op V) (i : Nat) :
      s.thr t = .mAcq op i → i < n → (∀ u, u ≠ t → free n hash (s.thr u) op i) →
      Step n hash s { s with thr := upd s.thr t (.mAcq op (i + 1)) }
  | startM (s : St V) (t : Nat) (op : Op V) :
      s.thr t = .mAcq op n →
      Step n hash s { s with thr := upd s.thr t (.mAcc op 0 []) }
  | accM (s : St V) (t : Nat) (op : Op V) (i : Nat) (acc : List (Bucket V)) :
      s.thr t = .mAcc op i acc → i < n →
      Step n hash s { s with mem := s.mem.set i (bucketFn op (s.mem.getD i [])),
                             thr := upd s.thr t (.mAcc op (i + 1) (acc ++ [s.mem.getD i []])) }
  | linM (s : St V) (t : Nat) (op : Op V) (acc : List (Bucket V)) :
      s.thr t = .mAcc op n acc →
      Step n hash s { s with thr := upd s.thr t (.mRel op 0 (resOf op acc)),
                             abs := (s.abs.step op).1,
                             log := s.log ++ [(t, op, resOf op acc)],
                             hist := s.hist ++ [.lin t op (resOf op acc)] }
  | relM (s : St V) (t : Nat) (op : Op V) (i : Nat) (r : Res V) :
      s.thr t = .mRel op i r → i < n →
      Step n hash s { s with thr := upd s.thr t (.mRel op (i + 1) r) }
  | retM (s : St V) (t : Nat) (op : Op V) (r : Res V) :
      s.thr t = .mRel op n r →
      Step n hash s { s with thr := upd s.thr t .idle, hist := s.hist ++ [.ret t op r] }

/-- reachable from the initial state by any schedule -/
inductive Reach {V} (n : Nat) (hash : Nat → Nat) : St V → Prop where
  | init : Reach n hash (St.init n hash)
  | step (s s' : St V) : Reach n hash s → Step n hash s s' → Reach n hash s'

end Via.HM.Conc
