import ViaModel.Bytes
/-
  Parser configuration: the template parameters of the receivers as a runtime record, so that
  theorems quantify over every configuration.
-/
namespace Via

structure Cfg where
  maxUri : Nat := 8190        -- MAX_URI_LENGTH (requests) / MAX_STATUS_NUMBER (responses)
  maxMethod : Nat := 8        -- MAX_METHOD_LENGTH (requests) / MAX_REASON_LENGTH (responses)
  maxHdrNum : Nat := 100      -- MAX_HEADER_NUMBER
  maxHdrLen : Nat := 65534    -- MAX_HEADER_LENGTH
  maxLine : Nat := 1024       -- MAX_LINE_LENGTH
  maxWs : Nat := 8            -- MAX_WHITESPACE_CHARS
  strict : Bool := false      -- STRICT_CRLF
  maxContent : Nat := 1048576 -- max_content_length_ / max_body_size_
  maxChunk : Nat := 1048576   -- max_chunk_size_
  translateHead : Bool := true
  concatChunks : Bool := true
deriving Repr, DecidableEq

/-- `Rx`: the receiver result -/
inductive Rx where
  | invalid | expectContinue | incomplete | valid | chunk
deriving Repr, DecidableEq

def Rx.name : Rx → String
  | .invalid => "INVALID"
  | .expectContinue => "EXPECT_CONTINUE"
  | .incomplete => "INCOMPLETE"
  | .valid => "VALID"
  | .chunk => "CHUNK"

end Via
