import ViaModel.Cfg
/-
  `response_line<MAX_STATUS_NUMBER, MAX_REASON_LENGTH, MAX_WHITESPACE_CHARS, STRICT_CRLF>`.
  `cfg.maxUri` plays MAX_STATUS_NUMBER and `cfg.maxMethod` MAX_REASON_LENGTH.
-/
namespace Via

inductive SLS where
  | httpH | httpT1 | httpT2 | httpP | httpSlash | httpMajor | httpDot | httpMinor | httpWs
  | status | reason | cr | lf | valid | errCrlf | errWs | errStatusValue | errReasonLength
deriving Repr, DecidableEq

structure SL where
  status : Nat := 0
  reason : Bytes := []
  major : Byte := 0
  minor : Byte := 0
  st : SLS := .httpH
  ws : Nat := 0
  statusRead : Bool := false
  valid : Bool := false
  fail : Bool := false
deriving Repr, DecidableEq

/-- the shared `CR` case (also reached by fall-through from `REASON`) -/
def SL.crStep (cfg : Cfg) (s : SL) (c : Byte) : SL × Bool :=
  if c == 13 then ({ s with st := .lf }, true)
  else if cfg.strict then ({ s with st := .errCrlf }, false)
  else if c == 10 then ({ s with st := .valid }, true)
  else ({ s with st := .errCrlf }, false)

/-- `response_line::parse_char` -/
def SL.parseChar (cfg : Cfg) (s : SL) (c : Byte) : SL × Bool :=
  match s.st with
  | .httpH =>
    if isBlank c then
      let s := { s with ws := s.ws + 1 }
      if s.ws > cfg.maxWs then ({ s with st := .errWs }, false) else (s, true)
    else if c == 72 then ({ s with st := .httpT1 }, true) else (s, false)
  | .httpT1 => if c == 84 then ({ s with st := .httpT2 }, true) else (s, false)
  | .httpT2 => if c == 84 then ({ s with st := .httpP }, true) else (s, false)
  | .httpP => if c == 80 then ({ s with st := .httpSlash }, true) else (s, false)
  | .httpSlash => if c == 47 then ({ s with st := .httpMajor }, true) else (s, false)
  | .httpMajor => if isDigit c then ({ s with major := c, st := .httpDot }, true) else (s, false)
  | .httpDot => if c == 46 then ({ s with st := .httpMinor }, true) else (s, false)
  | .httpMinor => if isDigit c then ({ s with minor := c, st := .httpWs }, true) else (s, false)
  | .httpWs => if isBlank c then ({ s with ws := 1, st := .status }, true) else (s, false)
  | .status =>
    if isDigit c then
      let s := { s with statusRead := true, status := s.status * 10 + (c.toNat - 48) }
      if s.status > cfg.maxUri then ({ s with st := .errStatusValue }, false) else (s, true)
    else if isBlank c then
      if s.statusRead then ({ s with ws := 1, st := .reason }, true)
      else
        let s := { s with ws := s.ws + 1 }
        if s.ws > cfg.maxWs then ({ s with st := .errWs }, false) else (s, true)
    else (s, false)
  | .reason =>
    if !isEol c then
      if s.reason.isEmpty && isBlank c then
        let s := { s with ws := s.ws + 1 }
        if s.ws > cfg.maxWs then ({ s with st := .errWs }, false) else (s, true)
      else
        let s := { s with reason := s.reason ++ [c] }
        if s.reason.length > cfg.maxMethod then ({ s with st := .errReasonLength }, false) else (s, true)
    else SL.crStep cfg s c
  | .cr => SL.crStep cfg s c
  | .lf => if c == 10 then ({ s with st := .valid }, true) else (s, false)
  | _ => (s, false)

def SL.loop (cfg : Cfg) (s : SL) : Bytes → SL × Bytes × Bool
  | [] => (s, [], false)
  | c :: cs =>
    if s.st == .valid then (s, c :: cs, false)
    else
      let r := s.parseChar cfg c
      if !r.2 then ({ r.1 with fail := true }, cs, true)
      else SL.loop cfg { r.1 with fail := false } cs

/-- `response_line::parse` -/
def SL.parse (cfg : Cfg) (s : SL) (buf : Bytes) : SL × Bytes × Bool :=
  let r := SL.loop cfg s buf
  if r.2.2 then (r.1, r.2.1, false)
  else
    let v := r.1.st == .valid
    ({ r.1 with valid := v }, r.2.1, v)

/-- `response_line::is_http_1_0_or_earlier` (`<=` on the major version character, which is a digit
    or the initial NUL) -/
def SL.isHttp10OrEarlier (s : SL) : Bool :=
  s.major.toNat ≤ 48 || (s.major == 49 && s.minor == 48)

end Via
