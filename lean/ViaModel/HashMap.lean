/-
  `via::thread::threadsafe_hash_map` (sequential semantics).
  A bucket is a vector kept sorted by key; the map is an array of `n` buckets indexed by
  `hash k % n`.  Keys are `Nat` (the code uses `void*`), `hash` is a parameter.
-/
namespace Via.HM

abbrev Bucket (V : Type) := List (Nat × V)

/-- `std::lower_bound` position: index of the first element whose key is not `< k` -/
def lowerBound {V} (k : Nat) : Bucket V → Nat
  | [] => 0
  | (k', _) :: rest => if k' < k then lowerBound k rest + 1 else 0

/-- `bucket_type::value_for` -/
def valueFor {V} (b : Bucket V) (k : Nat) : Option (Nat × V) :=
  match b[lowerBound k b]? with
  | some (k', v) => if k' == k then some (k', v) else none
  | none => none

/-- `bucket_type::add_or_update_mapping` -/
def addOrUpdate {V} (b : Bucket V) (k : Nat) (v : V) : Bucket V :=
  let i := lowerBound k b
  match b[i]? with
  | some (k', _) => if k' == k then b.set i (k, v) else b.take i ++ (k, v) :: b.drop i
  | none => b.take i ++ (k, v) :: b.drop i

/-- `bucket_type::remove_mapping` (erases only when the key at the position is `k`) -/
def removeMapping {V} (b : Bucket V) (k : Nat) : Bucket V :=
  let i := lowerBound k b
  match b[i]? with
  | some (k', _) => if k' == k then b.eraseIdx i else b
  | none => b

structure Map (V : Type) where
  n : Nat
  hash : Nat → Nat
  buckets : List (Bucket V)   -- length n

def Map.empty {V} (n : Nat) (hash : Nat → Nat) : Map V :=
  { n := n, hash := hash, buckets := List.replicate n [] }

def Map.idx {V} (m : Map V) (k : Nat) : Nat := m.hash k % m.n

def Map.find {V} (m : Map V) (k : Nat) : Option (Nat × V) :=
  valueFor (m.buckets.getD (m.idx k) []) k

def Map.insert {V} (m : Map V) (k : Nat) (v : V) : Map V :=
  { m with buckets := m.buckets.modify (m.idx k) (fun b => addOrUpdate b k v) }

def Map.erase {V} (m : Map V) (k : Nat) : Map V :=
  { m with buckets := m.buckets.modify (m.idx k) (fun b => removeMapping b k) }

def Map.isEmpty {V} (m : Map V) : Bool := m.buckets.all (·.isEmpty)

def Map.data {V} (m : Map V) : List (Nat × V) := m.buckets.flatten

def Map.clear {V} (m : Map V) : Map V :=
  { m with buckets := m.buckets.map (fun _ => []) }

/-- operations of the public interface -/
inductive Op (V : Type) where
  | insert (k : Nat) (v : V)
  | erase (k : Nat)
  | find (k : Nat)
  | isEmpty
  | data
  | clear
deriving Repr

inductive Res (V : Type) where
  | unit
  | found (r : Option (Nat × V))
  | bool (b : Bool)
  | list (l : List (Nat × V))
deriving Repr, DecidableEq

def Map.step {V} (m : Map V) : Op V → Map V × Res V
  | .insert k v => (m.insert k v, .unit)
  | .erase k => (m.erase k, .unit)
  | .find k => (m, .found (m.find k))
  | .isEmpty => (m, .bool m.isEmpty)
  | .data => (m, .list m.data)
  | .clear => (m.clear, .unit)

def Map.run {V} (m : Map V) : List (Op V) → Map V × List (Res V)
  | [] => (m, [])
  | op :: ops =>
    let (m', r) := m.step op
    let (m'', rs) := m'.run ops
    (m'', r :: rs)

end Via.HM
