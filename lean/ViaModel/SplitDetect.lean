import ViaModel.Bytes
/-
  `are_headers_split` (headers.hpp) and `tx_response::is_valid` (response.hpp).
  The sliding window holds the two bytes before the current one; it starts as if the
  header block followed the LF of the start line.
-/
namespace Via

/-- the `for` loop of `are_headers_split`: `prev`, `pprev` are the two previous bytes -/
def splitLoop : Byte → Byte → Bytes → Bool
  | _, _, [] => false
  | prev, pprev, c :: cs =>
    if c == 10 && (prev == 10 || (prev == 13 && pprev == 10)) then true
    else splitLoop c prev cs

/-- `are_headers_split(headers)`: `prev('\n')`, `pprev('0')` -/
def areHeadersSplit (h : Bytes) : Bool := splitLoop 10 48 h

/-- `tx_response::is_valid()`: not split and the header block is empty or ends with a line break -/
def headersValid (h : Bytes) : Bool :=
  !areHeadersSplit h && (h.isEmpty || h.getLast? == some 10)

end Via
