import ViaModel.Bytes
/-
  Number conversion: `from_hex_string`, `from_dec_string`, `to_hex_string`, `std::to_string(size_t)`.
  `strtol` is modelled as exact conversion, with overflow above `LONG_MAX` (2^63-1) reported as -1
  (the code tests `errno`).  The result type is `Int` (`std::ptrdiff_t`).
-/
namespace Via

def LONG_MAX : Nat := 9223372036854775807

def hexDigitVal (c : Byte) : Nat :=
  if isDigit c then c.toNat - 48
  else if 65 ≤ c && c ≤ 70 then c.toNat - 55
  else c.toNat - 87

def digitsVal (base : Nat) (s : Bytes) : Nat :=
  s.foldl (fun acc c => acc * base + hexDigitVal c) 0

/-- `from_hex_string` -/
def fromHexString (s : Bytes) : Int :=
  if !s.isEmpty && s.all isXDigit then
    let v := digitsVal 16 s
    if v > LONG_MAX then -1 else (v : Int)
  else -1

/-- `from_dec_string` -/
def fromDecString (s : Bytes) : Int :=
  if !s.isEmpty && s.all isDigit then
    let v := digitsVal 10 s
    if v > LONG_MAX then -1 else (v : Int)
  else -1

def lowHex (n : Nat) : Byte := if n < 10 then UInt8.ofNat (48 + n) else UInt8.ofNat (87 + n)

def toDigitsAux (base : Nat) (hb : 2 ≤ base) : Nat → Nat → Bytes → Bytes
  | 0, _, acc => acc
  | fuel + 1, n, acc =>
    if n < base then lowHex n :: acc
    else toDigitsAux base hb fuel (n / base) (lowHex (n % base) :: acc)

/-- `to_hex_string` (lower case, no prefix, "0" for zero) -/
def toHexString (n : Nat) : Bytes := toDigitsAux 16 (by decide) (n + 1) n []

/-- `std::to_string` for an unsigned / non-negative number -/
def toDecString (n : Nat) : Bytes := toDigitsAux 10 (by decide) (n + 1) n []

/-- `std::to_string(int)` -/
def intToDecString (i : Int) : Bytes :=
  if i < 0 then 45 :: toDecString i.natAbs else toDecString i.toNat

end Via
