import ViaModel.RespLine
import ViaModel.Chunk
/-
  `rx_response` and `response_receiver::receive` / `clear` (response.hpp), and the per-read loop of
  `http_client::receive_handler`.
-/
namespace Via

structure RP where
  line : SL := {}
  headers : MH := {}
  valid : Bool := false
deriving Repr, DecidableEq

/-- `rx_response::parse` -/
def RP.parse (cfg : Cfg) (q : RP) (buf : Bytes) : RP × Bytes × Bool :=
  let lr : RP × Bytes × Bool :=
    if q.line.valid then (q, buf, true)
    else
      let r := SL.parse cfg q.line buf
      ({ q with line := r.1 }, r.2.1, r.2.2)
  if !lr.2.2 then (lr.1, lr.2.1, false)
  else
    let q := lr.1
    let buf := lr.2.1
    if q.headers.valid then ({ q with valid := true }, buf, true)
    else
      let r := MH.parse cfg q.headers buf
      if !r.2.2 then ({ q with headers := r.1 }, r.2.1, false)
      else ({ q with headers := r.1, valid := true }, r.2.1, true)

def RP.fail (q : RP) : Bool := q.line.fail || q.headers.fail
def RP.keepAlive (q : RP) : Bool := !q.line.isHttp10OrEarlier && !q.headers.closeConnection

structure RS where
  response : RP := {}
  chunk : CK := {}
  body : Bytes := []
deriving Repr, DecidableEq

def RS.clear (_ : RS) : RS := {}

/-- `response_receiver::receive` (`cfg.maxContent` = `max_body_size_`) -/
def RS.receive (cfg : Cfg) (r : RS) (buf : Bytes) : RS × Bytes × Rx :=
  let responseParsed := !r.response.valid
  let step : RS × Bytes × Option Rx :=
    if responseParsed then
      let p := RP.parse cfg r.response buf
      let r := { r with response := p.1 }
      if !p.2.2 then
        if !p.2.1.isEmpty || r.response.fail then (r.clear, p.2.1, some .invalid)
        else (r, p.2.1, some .incomplete)
      else (r, p.2.1, none)
    else (r, buf, none)
  match step.2.2 with
  | some x => (step.1, step.2.1, x)
  | none =>
    let r := step.1
    let buf := step.2.1
    if !r.response.headers.isChunked then
      let cl0 : Int := r.response.headers.contentLength
      if cl0 < 0 then (r.clear, buf, .invalid)
      else
        let rxSize : Int := buf.length
        let noCl : Bool :=
          rxSize > 0 && cl0 == 0 && (r.response.headers.fields.find (b!"content-length")).isEmpty
        let cl : Int := if noCl then (cfg.maxContent : Int) else cl0
        let required : Int := cl - r.body.length
        if rxSize > required && noCl then (r.clear, buf, .invalid)
        else
          let take : Nat := if rxSize > required then required.toNat else buf.length
          let r := { r with body := r.body ++ buf.take take }
          let rest := buf.drop take
          if (r.body.length : Int) == cl0 then (r, rest, .valid) else (r, rest, .incomplete)
    else
      let r := if r.chunk.valid then { r with chunk := {} } else r
      if responseParsed then (r, buf, .valid)
      else
        let p := CK.parse cfg r.chunk buf
        let r := { r with chunk := p.1 }
        if !p.2.2 && (!p.2.1.isEmpty || r.chunk.fail) then (r.clear, p.2.1, .invalid)
        else if r.chunk.valid then (r, p.2.1, .chunk)
        else (r, p.2.1, .incomplete)

/-- what `http_client::receive_handler` does with the receiver after each result -/
def RS.afterResult (r : RS) : Rx → RS
  | .valid => if !r.response.headers.isChunked then r.clear else r
  | .chunk => if r.chunk.isLast then r.clear else r
  | .invalid => r.clear
  | _ => r

structure RDelivery where
  rx : Rx
  used : Nat
  snapshot : RS
deriving Repr

def RS.readLoop (cfg : Cfg) : Nat → RS → Bytes → List RDelivery → RS × Bytes × List RDelivery
  | 0, r, buf, acc => (r, buf, acc.reverse)
  | fuel + 1, r, buf, acc =>
    if buf.isEmpty then (r, buf, acc.reverse)
    else
      let p := RS.receive cfg r buf
      let d : RDelivery := { rx := p.2.2, used := buf.length - p.2.1.length, snapshot := p.1 }
      let r' := RS.afterResult p.1 p.2.2
      if p.2.2 == .invalid then (r', p.2.1, (d :: acc).reverse)
      else RS.readLoop cfg fuel r' p.2.1 (d :: acc)

end Via
