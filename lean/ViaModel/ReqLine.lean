import ViaModel.Cfg
/-
  `request_line<MAX_URI_LENGTH, MAX_METHOD_LENGTH, MAX_WHITESPACE_CHARS, STRICT_CRLF>`:
  `parse_char` and the `parse` loop with its sticky `fail_`.
-/
namespace Via

inductive RLS where
  | method | uri | httpH | httpT1 | httpT2 | httpP | httpSlash | httpMajor | httpDot | httpMinor
  | cr | lf | valid | errCrlf | errWs | errMethodLength | errUriLength
deriving Repr, DecidableEq

structure RL where
  method : Bytes := []
  uri : Bytes := []
  major : Byte := 0
  minor : Byte := 0
  st : RLS := .method
  ws : Nat := 0
  valid : Bool := false
  fail : Bool := false
deriving Repr, DecidableEq

/-- `request_line::parse_char` : new state and the returned bool -/
def RL.parseChar (cfg : Cfg) (s : RL) (c : Byte) : RL × Bool :=
  match s.st with
  | .method =>
    if isUpper c then
      let s := { s with method := s.method ++ [c] }
      if s.method.length > cfg.maxMethod then ({ s with st := .errMethodLength }, false) else (s, true)
    else if isBlank c && !s.method.isEmpty then ({ s with ws := 1, st := .uri }, true)
    else (s, false)
  | .uri =>
    if isEol c then (s, false)
    else if isBlank c then
      if !s.uri.isEmpty then ({ s with ws := 1, st := .httpH }, true)
      else
        let s := { s with ws := s.ws + 1 }
        if s.ws > cfg.maxWs then ({ s with st := .errWs }, false) else (s, true)
    else
      let s := { s with uri := s.uri ++ [c] }
      if s.uri.length > cfg.maxUri then ({ s with st := .errUriLength }, false) else (s, true)
  | .httpH =>
    if isBlank c then
      let s := { s with ws := s.ws + 1 }
      if s.ws > cfg.maxWs then ({ s with st := .errWs }, false) else (s, true)
    else if c == 72 then ({ s with st := .httpT1 }, true) else (s, false)
  | .httpT1 => if c == 84 then ({ s with st := .httpT2 }, true) else (s, false)
  | .httpT2 => if c == 84 then ({ s with st := .httpP }, true) else (s, false)
  | .httpP => if c == 80 then ({ s with st := .httpSlash }, true) else (s, false)
  | .httpSlash => if c == 47 then ({ s with st := .httpMajor }, true) else (s, false)
  | .httpMajor => if isDigit c then ({ s with major := c, st := .httpDot }, true) else (s, false)
  | .httpDot => if c == 46 then ({ s with st := .httpMinor }, true) else (s, false)
  | .httpMinor => if isDigit c then ({ s with minor := c, st := .cr }, true) else (s, false)
  | .cr =>
    if c == 13 then ({ s with st := .lf }, true)
    else if cfg.strict then ({ s with st := .errCrlf }, false)
    else if c == 10 then ({ s with st := .valid }, true)
    else ({ s with st := .errCrlf }, false)
  | .lf => if c == 10 then ({ s with st := .valid }, true) else (s, false)
  | _ => (s, false)

/-- the `while` loop of `request_line::parse`: returns the state, the unconsumed rest and whether a
    character was rejected -/
def RL.loop (cfg : Cfg) (s : RL) : Bytes → RL × Bytes × Bool
  | [] => (s, [], false)
  | c :: cs =>
    if s.st == .valid then (s, c :: cs, false)
    else
      let r := s.parseChar cfg c
      if !r.2 then ({ r.1 with fail := true }, cs, true)
      else RL.loop cfg { r.1 with fail := false } cs

/-- `request_line::parse` -/
def RL.parse (cfg : Cfg) (s : RL) (buf : Bytes) : RL × Bytes × Bool :=
  let r := RL.loop cfg s buf
  if r.2.2 then (r.1, r.2.1, false)
  else
    let v := r.1.st == .valid
    ({ r.1 with valid := v }, r.2.1, v)

def RL.isHttp10OrEarlier (s : RL) : Bool := s.major == 48 || (s.major == 49 && s.minor == 48)

end Via
