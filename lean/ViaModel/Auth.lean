import ViaModel.Bytes
/-
  `authentication::base64::{encode,decode}` (Boost archive iterator semantics) and
  `authentication::basic::{is_valid, authenticate_value}`.
-/
namespace Via.Auth

def b64Char (n : Nat) : Byte :=
  if n < 26 then UInt8.ofNat (65 + n)
  else if n < 52 then UInt8.ofNat (97 + (n - 26))
  else if n < 62 then UInt8.ofNat (48 + (n - 52))
  else if n == 62 then 43 else 47

def b64Val (c : Byte) : Option Nat :=
  if 65 ≤ c && c ≤ 90 then some (c.toNat - 65)
  else if 97 ≤ c && c ≤ 122 then some (c.toNat - 97 + 26)
  else if 48 ≤ c && c ≤ 57 then some (c.toNat - 48 + 52)
  else if c == 43 then some 62
  else if c == 47 then some 63
  else none

/-- `transform_width<6,8>` + `base64_from_binary` over the unpadded input: groups of three bytes give
    four characters; a final group of one (two) bytes gives two (three) characters. -/
def encGroups : Bytes → Bytes
  | [] => []
  | [a] => [b64Char (a.toNat / 4), b64Char (a.toNat % 4 * 16)]
  | [a, b] => [b64Char (a.toNat / 4), b64Char (a.toNat % 4 * 16 + b.toNat / 16), b64Char (b.toNat % 16 * 4)]
  | a :: b :: c :: rest =>
    b64Char (a.toNat / 4) :: b64Char (a.toNat % 4 * 16 + b.toNat / 16) ::
    b64Char (b.toNat % 16 * 4 + c.toNat / 64) :: b64Char (c.toNat % 64) :: encGroups rest

/-- `insert_linebreaks<…, 76>`: a '\n' before every 77th, 153rd, … character -/
def insertBreaks : Nat → Bytes → Bytes
  | _, [] => []
  | n, c :: cs => if n == 76 then 10 :: c :: insertBreaks 1 cs else c :: insertBreaks (n + 1) cs

/-- `base64::encode` -/
def encode (x : Bytes) : Bytes :=
  let pad := (3 - x.length % 3) % 3
  insertBreaks 0 (encGroups x) ++ List.replicate pad 61

/-- `transform_width<8,6>` over a character string whose length is a multiple of four -/
def decGroups : List Nat → Bytes
  | a :: b :: c :: d :: rest =>
    UInt8.ofNat (a * 4 + b / 16) :: UInt8.ofNat (b % 16 * 16 + c / 4) :: UInt8.ofNat (c % 4 * 64 + d) ::
    decGroups rest
  | _ => []

def mapOpt {α β} (f : α → Option β) : List α → Option (List β)
  | [] => some []
  | a :: as =>
    match f a, mapOpt f as with
    | some b, some bs => some (b :: bs)
    | _, _ => none

/-- `base64::decode`: whitespace removed, padded with '=' to a multiple of four, every '=' counted
    and replaced by 'A', an invalid character makes Boost throw (caught → empty string), the
    counted number of bytes is erased from the end (more than there are → empty string). -/
def decode (x : Bytes) : Bytes :=
  let s := x.filter (fun c => !isSpace c)
  let s := s ++ List.replicate ((4 - s.length % 4) % 4) 61
  let pads := s.count 61
  let s := s.map (fun c => if c == 61 then 65 else c)
  match mapOpt b64Val s with
  | none => []
  | some vals =>
    let out := decGroups vals
    if pads > out.length then [] else out.take (out.length - pads)

abbrev Table := List (Bytes × Bytes)   -- registered (user, password); first registration wins

def tableFind (u : Bytes) : Table → Option Bytes
  | [] => none
  | (u', p) :: rest => if u == u' then some p else tableFind u rest

/-- `basic::is_valid` given the value of the `authorization` header (`none` = no such header) -/
def basicIsValid (table : Table) (hdr : Option Bytes) : Bool :=
  match hdr with
  | none => false
  | some a =>
    match findSub (b!"Basic") a 0 with
    | none => false
    | some p =>
      let p := p + 6
      if p > a.length then false
      else
        let dec := decode (a.drop p)
        match findByte 58 dec with
        | none => false
        | some ue =>
          match tableFind (dec.take ue) table with
          | none => false
          | some pw => dec.drop (ue + 1) == pw

/-- `basic::authenticate_value` -/
def authenticateValue (realm : Bytes) : Bytes :=
  if realm.isEmpty then (b!"Basic") else (b!"Basic realm=\"") ++ realm ++ (b!"\"")

/-- `authentication::authenticate`: empty = accepted, otherwise the challenge -/
def authenticate (table : Table) (realm : Bytes) (hdr : Option Bytes) : Bytes :=
  if basicIsValid table hdr then [] else authenticateValue realm

end Via.Auth
