import ViaModel.Conn
/-
  The script operations of `harness/sim_driver.cpp` on the model (`Conn.lean`): parsing of the operation
  lines and the top-level transitions (accept, completions, application actions, server teardown).
-/
namespace Via.Sim
open Via

def argOf (ws : List String) (key : String) (dflt : String := "") : String :=
  match ws.find? (fun w => w.startsWith (key ++ "=")) with
  | some w => (w.drop (key.length + 1)).toString
  | none => dflt

def hasArg (ws : List String) (key : String) : Bool := ws.any (fun w => w.startsWith (key ++ "="))

def natOf (s : String) : Nat := s.toNat?.getD 0

def connIndex (s : String) : Option Nat :=
  if s.startsWith "c" then (s.drop 1).toString.toNat? else none

def parseErr : String → Option Err
  | "eof" => some .eof | "reset" => some .reset | "aborted" => some .aborted | "refused" => some .refused
  | "badfd" => some .badfd | "other" => some .other | "ssl_short" => some .sslShort
  | "ssl_shutdown" => some .sslShutdown | "opabort" => some .opabort | _ => none

def mkServer (ws : List String) : World :=
  let cfg : Cfg := {
    maxUri := Gen.srvMaxUri, maxMethod := Gen.srvMaxMethod, maxHdrNum := Gen.srvMaxHeaderNumber,
    maxHdrLen := Gen.srvMaxHeaderLength, maxLine := Gen.srvMaxLine, maxWs := Gen.srvMaxWs,
    strict := argOf ws "strict" "0" == "1",
    maxContent := if hasArg ws "maxc" then natOf (argOf ws "maxc") else Gen.defaultMaxContentLength,
    maxChunk := if hasArg ws "maxk" then natOf (argOf ws "maxk") else 1048576,
    translateHead := argOf ws "translate" "1" == "1" }
  let policy := match argOf ws "policy" "sync" with
    | "deferred" => Policy.deferred | "router" => .router | "none" => .none | "disc" => .disc | _ => .sync
  let filter := match argOf ws "filter" "" with
    | "none" => 1 | "even" => 2 | _ => 0
  { opts := { flavour := if argOf ws "flavour" "tcp" == "ssl" then .ssl else .tcp, policy := policy,
              chunkh := argOf ws "chunkh" "0" == "1", conth := argOf ws "conth" "0" == "1" || argOf ws "conth" "0" == "2",
              contReject := argOf ws "conth" "0" == "2",
              invh := argOf ws "invh" "0" == "1", senth := argOf ws "senth" "0" == "1",
              trace := argOf ws "trace" "0" == "1", autodisc := argOf ws "autodisc" "0" == "1",
              filter := filter, chunkedResp := argOf ws "resp" "fixed" == "chunked",
              onConnDisc := argOf ws "onconn" "" == "disc",
              ansHs := (unhex (argOf ws "anshs" "-")).getD [],
              ansOvl := (match argOf ws "ansovl" "body" with | "nobody" => 0 | "bufs" => 2 | _ => 1),
              cfg := cfg },
    haveServer := true, acceptorOpen := true, out := ["ok port=*"] }

def opAccept (w : World) (ws : List String) : World :=
  if !w.haveServer then w.emit "bad-op"
  else if !w.acceptorOpen then w.emit "refused"
  else
    let n := w.filterCalls
    let w := if w.opts.filter != 0 then { w with filterCalls := n + 1 } else w
    let accepted := w.opts.filter == 0 || (w.opts.filter == 2 && n % 2 == 0)
    if !accepted then w.emit "rejected"
    else
      let i := w.conns.length
      let hsFail := argOf ws "hs" "ok" == "fail"
      let nc : Conn := { hsFail := hsFail && w.opts.flavour == .tcp }
      let w := { w with conns := w.conns ++ [nc] }
      let w := match w.opts.flavour with
        | .tcp => handshakeCallback w i (!hsFail)
        | .ssl => w.upd i fun c => { c with hsStored := true }
      (gc w).emit s!"accepted {cn i}"

def notPending (w : World) : World := w.emit "not-pending"

def opCompletion (w : World) (op : String) (i : Nat) (arg : String) : World :=
  let c := w.get i
  let live := i < w.conns.length && c.alive
  match op with
  | "hs" =>
    if arg != "ok" && arg != "fail" then w.emit "bad-op"
    else if !(live && c.hsStored) then notPending w
    else gc (handshakeCallback (w.upd i fun c => { c with hsStored := false }) i (arg == "ok"))
  | "read" =>
    match unhex arg with
    | none => w.emit "bad-op"
    | some data =>
      if !(live && c.reads > 0) then notPending w
      else if data.length > 8192 then w.emit "bad-op"
      else gc (readCallback (w.upd i fun c => { c with reads := c.reads - 1 }) i none data)
  | "rderr" =>
    match parseErr arg with
    | none => w.emit "bad-op"
    | some e =>
      if !(live && c.reads > 0) then notPending w
      else gc (readCallback (w.upd i fun c => { c with reads := c.reads - 1 }) i (some e) [])
  | "wdone" =>
    match (if live then c.writes else []) with
    | [] => notPending w
    | bufs :: rest =>
      let w := (w.upd i fun c => { c with writes := rest }).emit s!"io wire {cn i} {hexOf (bufsBytes c bufs)}"
      gc (writeCallback FUEL w i none)
  | "werr" =>
    match parseErr arg with
    | none => w.emit "bad-op"
    | some e =>
      match (if live then c.writes else []) with
      | [] => notPending w
      | _ :: rest => gc (writeCallback FUEL (w.upd i fun c => { c with writes := rest }) i (some e))
  | "shutdone" =>
    let e : Option (Option Err) := if arg == "ok" then some none else (parseErr arg).map some
    match e with
    | none => w.emit "bad-op"
    | some e =>
      if !(live && c.shutStored) then notPending w
      else gc (writeCallback FUEL (w.upd i fun c => { c with shutStored := false }) i e)
  | "late" =>
    if arg != "read" && arg != "write" then w.emit "bad-op"
    else if arg == "read" then
      if live && c.droppedRead then w.upd i fun c => { c with droppedRead := false } else notPending w
    else
      if live && c.droppedWrite then w.upd i fun c => { c with droppedWrite := false } else notPending w
  | _ => w.emit "bad-op"

def opApp (w : World) (op : String) (i : Nat) (ws : List String) : World :=
  let c := w.get i
  if !(i < w.conns.length && c.appKnows && c.httpAlive) then w.emit "no-connection"
  else
    let ret (r : World × Bool) : World := gc (r.1.emit s!"ret {b2s r.2}")
    match op with
    | "app-send" =>
      let st : Int := (argOf ws "st" "200").toInt?.getD 200
      match unhex (argOf ws "hs" "-"), unhex (argOf ws "b" "-") with
      | some hs, some b =>
        let ovl := argOf ws "ovl" (if hasArg ws "b" then "body" else "nobody")
        let o := if ovl == "nobody" then some 0 else if ovl == "body" then some 1 else if ovl == "bufs" then some 2 else none
        match o with
        | none => w.emit "bad-op"
        | some o => ret (httpSend FUEL w i st (Enc.reasonPhrase st) hs b o)
      | _, _ => w.emit "bad-op"
    | "app-chunk" =>
      match unhex (argOf ws "d" "-"), unhex (argOf ws "ext" "-") with
      | some d, some e =>
        let ovl := argOf ws "ovl" "body"
        if ovl != "body" && ovl != "bufs" then w.emit "bad-op"
        else ret (httpSendChunk FUEL w i d e (ovl == "bufs"))
      | _, _ => w.emit "bad-op"
    | "app-last" =>
      match unhex (argOf ws "ext" "-"), unhex (argOf ws "tr" "-") with
      | some e, some t => ret (httpLastChunk FUEL w i e t)
      | _, _ => w.emit "bad-op"
    | "app-respond" => ret (httpSendResponse FUEL w i)
    | "app-disconnect" => gc (if c.alive then disconnectConn FUEL w i else w)
    | _ => w.emit "bad-op"

/-- `http_server::shutdown` -/
def opSrvShutdown (w : World) : World :=
  if w.conns.any (·.inHttp) then
    let w := { w with shuttingDown := true }
    let snapshot := (List.range w.conns.length).filter fun i => (w.get i).inHttp
    snapshot.foldl (fun w i => gc (if (w.get i).alive then disconnectConn FUEL w i else w)) w
  else gc (serverClose FUEL w true)

def opState (w : World) : World :=
  let a := (w.conns.filter (·.alive)).length
  let h := (w.conns.filter (·.inHttp)).length
  let c := (w.conns.filter (·.inComms)).length
  w.emit s!"state adaptors={a} http={if w.haveServer then h else 0} comms={if w.haveServer then c else 0} pending={b2s w.acceptCancelled}"

/-- executable form of the history invariant of `ViaProofs/ConnLemmas.lean` (debug operation `inv`) -/
def invB (w : World) : Bool :=
  w.conns.all fun c =>
    c.connectedSeen ≤ 1 && c.disconnectedSeen ≤ c.connectedSeen && c.otherAfterDisc == 0 &&
    (!c.inHttp || (c.connectedSeen == 1 && c.disconnectedSeen == 0 && c.inComms && c.httpAlive)) &&
    (!c.inComms || c.alive) && (!c.httpAlive || c.alive) && (c.connectedSeen != 0 || !c.inHttp) &&
    (!c.alive || c.inComms)

/-- one script line -/
def simOp (w : World) (ws : List String) : World :=
  match ws with
  | "accept" :: rest => opAccept w rest
  | [op, c, arg] =>
    if op == "hs" || op == "read" || op == "rderr" || op == "werr" || op == "shutdone" || op == "late" then
      match connIndex c with
      | some i => opCompletion w op i arg
      | none => w.emit "bad-op"
    else if op.startsWith "app-" then
      match connIndex c with
      | some i => if w.haveServer then opApp w op i [arg] else w.emit "no-connection"
      | none => w.emit "bad-op"
    else w.emit "bad-op"
  | ["wdone", c] =>
    match connIndex c with
    | some i => opCompletion w "wdone" i ""
    | none => w.emit "bad-op"
  | ["srv-shutdown"] => if w.haveServer then opSrvShutdown w else w.emit "bad-op"
  | ["srv-close"] => if w.haveServer then gc (serverClose FUEL w true) else w.emit "bad-op"
  | ["srv-destroy"] => if w.haveServer then { gc (serverClose FUEL w true) with haveServer := false } else w.emit "bad-op"
  | ["poll"] => { w with acceptCancelled := false }
  | ["state"] => opState w
  | ["inv"] => w.emit s!"inv {b2s (invB w)}"
  | op :: c :: rest =>
    if op.startsWith "app-" then
      match connIndex c with
      | some i => if w.haveServer then opApp w op i rest else w.emit "no-connection"
      | none => w.emit "bad-op"
    else if op == "hs" || op == "read" || op == "rderr" || op == "werr" || op == "shutdone" || op == "late" || op == "wdone" then
      w.emit "bad-op"
    else w.emit "bad-op"
  | _ => w.emit "bad-op"

end Via.Sim
