import ViaModel.Headers
import ViaModel.Generated
/-
  `chunk_header` and `rx_chunk` (chunk.hpp).
-/
namespace Via

inductive CS where
  | sizeLs | size | extensionLs | extension | lf | valid | errLength | errCrlf | errWs | errSize
deriving Repr, DecidableEq

structure CH where
  size : Nat := 0
  length : Nat := 0
  ws : Nat := 0
  hexSize : Bytes := []
  ext : Bytes := []
  st : CS := .sizeLs
  sizeRead : Bool := false
  valid : Bool := false
  fail : Bool := false
deriving Repr, DecidableEq

def SIZE_MAX : Nat := 18446744073709551615

/-- `size_ = from_hex_string(hex_size_)`: -1 stored in a `size_t` is greater than every limit -/
def chunkSizeOf (hex : Bytes) : Nat :=
  let v := fromHexString hex
  if v < 0 then SIZE_MAX else v.toNat

/-- the `SIZE` case (also reached by fall-through from `SIZE_LS`) -/
def CH.sizeStep (cfg : Cfg) (s : CH) (c : Byte) : CH × Bool :=
  if isXDigit c then
    let s := { s with hexSize := s.hexSize ++ [c] }
    if s.hexSize.length > Gen.maxSizeDigits then ({ s with st := .errSize }, false) else (s, true)
  else if isEol c || c == 59 then
    let s := { s with size := chunkSizeOf s.hexSize, sizeRead := true }
    if s.size > cfg.maxChunk then ({ s with st := .errSize }, false)
    else if c == 59 then ({ s with ws := 0, st := .extensionLs }, true)
    else if c == 13 then ({ s with st := .lf }, true)
    else if cfg.strict then (s, false)
    else ({ s with st := .valid }, true)
  else (s, false)

/-- the `EXTENSION` case (also reached by fall-through from `EXTENSION_LS`) -/
def CH.extStep (cfg : Cfg) (s : CH) (c : Byte) : CH × Bool :=
  if !isEol c then ({ s with ext := s.ext ++ [c] }, true)
  else if c == 13 then ({ s with st := .lf }, true)
  else if cfg.strict then ({ s with st := .errCrlf }, false)
  else ({ s with st := .valid }, true)

/-- `chunk_header::parse_char` -/
def CH.parseChar (cfg : Cfg) (s0 : CH) (c : Byte) : CH × Bool :=
  let s1 := { s0 with length := s0.length + 1 }
  let s := if s1.length > cfg.maxLine then { s1 with st := .errLength } else s1
  match s.st with
  | .sizeLs =>
    if isBlank c then
      let s := { s with ws := s.ws + 1 }
      if s.ws > cfg.maxWs then ({ s with st := .errWs }, false) else (s, true)
    else CH.sizeStep cfg { s with st := .size } c
  | .size => CH.sizeStep cfg s c
  | .extensionLs =>
    if isBlank c then
      let s := { s with ws := s.ws + 1 }
      if s.ws > cfg.maxWs then (s, false) else (s, true)
    else CH.extStep cfg { s with st := .extension } c
  | .extension => CH.extStep cfg s c
  | .lf => if c == 10 then ({ s with st := .valid }, true) else (s, false)
  | _ => (s, false)

/-- the `while` loop of `chunk_header::parse`: state, rest, "a character was rejected" -/
def CH.loop (cfg : Cfg) (s : CH) : Bytes → CH × Bytes × Bool
  | [] => (s, [], false)
  | c :: cs =>
    if s.st == .valid then (s, c :: cs, false)
    else
      let r := s.parseChar cfg c
      if !r.2 then ({ r.1 with fail := true }, cs, true)
      else CH.loop cfg r.1 cs

/-- `chunk_header::parse` -/
def CH.parse (cfg : Cfg) (s : CH) (buf : Bytes) : CH × Bytes × Bool :=
  let r := CH.loop cfg s buf
  if r.2.2 then (r.1, r.2.1, false)
  else
    let v := r.1.st == .valid
    ({ r.1 with valid := v }, r.2.1, v)

structure CK where
  hdr : CH := {}
  data : Bytes := []
  trailers : MH := {}
  valid : Bool := false
  dataCr : Bool := false
deriving Repr, DecidableEq

def CK.isLast (k : CK) : Bool := k.hdr.size == 0

/-- `rx_chunk::fail` -/
def CK.fail (k : CK) : Bool := k.hdr.fail || k.trailers.fail

/-- the data part of `rx_chunk::parse` (chunk header already valid, not the last chunk) -/
def CK.parseData (cfg : Cfg) (k : CK) (buf : Bytes) : CK × Bytes × Bool :=
  let required := k.hdr.size - k.data.length
  if buf.length > required then
    let k1 := { k with data := k.data ++ buf.take required }
    let rest := buf.drop required
    match rest with
    | [] => (k1, [], false)       -- unreachable: rest has at least one byte
    | c :: cs =>
      -- the CR (remembered across reads)
      let step : Option (CK × Bytes) :=
        if !k1.dataCr && c == 13 then some ({ k1 with dataCr := true }, cs)
        else if cfg.strict && !k1.dataCr then none
        else some (k1, c :: cs)
      match step with
      | none => (k1, c :: cs, false)
      | some (k2, rest2) =>
        match rest2 with
        | [] => (k2, [], false)
        | d :: ds => if d != 10 then (k2, d :: ds, false) else ({ k2 with valid := true }, ds, true)
  else ({ k with data := k.data ++ buf }, [], false)

/-- `rx_chunk::parse` -/
def CK.parse (cfg : Cfg) (k : CK) (buf : Bytes) : CK × Bytes × Bool :=
  let hr : CK × Bytes × Bool :=
    if k.hdr.valid then (k, buf, true)
    else
      let r := CH.parse cfg k.hdr buf
      ({ k with hdr := r.1 }, r.2.1, r.2.2)
  if !hr.2.2 then (hr.1, hr.2.1, false)
  else
    let k := hr.1
    let buf := hr.2.1
    if k.isLast then
      let r := MH.parse cfg k.trailers buf
      if !r.2.2 then ({ k with trailers := r.1 }, r.2.1, false)
      else ({ k with trailers := r.1, valid := true }, r.2.1, true)
    else CK.parseData cfg k buf

end Via
