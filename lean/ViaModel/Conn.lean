import ViaModel.ReqRx
import ViaModel.Encode
import ViaModel.Router
import ViaModel.Auth
/-
  The connection layer as a labelled transition system:
    `comms::connection`  (send_data, write_data, write_callback, read_callback, handshake_callback,
                          disconnect, shutdown, signal_error_or_disconnect, close)
    `comms::server`      (accept_handler, event_handler, close, the set `connections_`)
    `http_connection`    (the send overloads, send_chunk, last_chunk, send_response, disconnect, close;
                          the slots `tx_header_` / `tx_body_` are REFERENCES resolved when a write completes)
    `http_server`        (connected_handler, receive_handler loop and dispatch, event_handler,
                          disconnected_handler, shutdown, close, the map `http_connections_`)
  over the socket-adaptor contract of `harness/fake_adaptor.hpp` in its two flavours
  (tcp: synchronous handshake and shutdown; ssl: asynchronous handshake, shutdown = cancel + async close_notify).
  The application is the scripted one of `harness/sim_driver.cpp` (policies sync / deferred / router / none).
  Every transition appends the lines the harness prints, so a run of the model is comparable line by line
  with a run of the real templates.
-/
namespace Via.Sim
open Via

inductive Flavour where | tcp | ssl
deriving Repr, DecidableEq

inductive Policy where | sync | deferred | router | none | disc
deriving Repr, DecidableEq

inductive Err where
  | eof | reset | aborted | refused | badfd | other | sslShort | sslShutdown | opabort
deriving Repr, DecidableEq

/-- a buffer handed to the adaptor: a slot of the http_connection or bytes owned elsewhere -/
inductive Buf where
  | hdr | body | lit (b : Bytes)
deriving Repr, DecidableEq

structure Opts where
  flavour : Flavour := .tcp
  policy : Policy := .sync
  chunkh : Bool := false
  conth : Bool := false
  contReject : Bool := false   -- conth=2: the expect-continue handler answers 417 instead of 100
  invh : Bool := false
  senth : Bool := false
  trace : Bool := false
  autodisc : Bool := false
  filter : Nat := 0            -- 0 = none installed / accept all, 1 = reject all, 2 = reject every second
  chunkedResp : Bool := false
  onConnDisc : Bool := false     -- onconn=disc: the connected handler calls disconnect()
  ansHs : Bytes := []            -- anshs=: header string of the scripted answer
  ansOvl : Nat := 1              -- ansovl=: send overload of the scripted answer (0 no body, 1 container, 2 buffers)
  cfg : Cfg := {}
deriving Repr

/-- one step of the scripted chunked answer (policy sync, resp=chunked) -/
inductive PlanItem where
  | chunk (d : Bytes) | last
deriving Repr, DecidableEq

structure Conn where
  -- the adaptor
  sockOpen : Bool := true
  reads : Nat := 0
  writes : List (List Buf) := []
  hsStored : Bool := false
  shutStored : Bool := false
  droppedRead : Bool := false
  droppedWrite : Bool := false
  hsFail : Bool := false
  -- comms::connection
  alive : Bool := true
  connected : Bool := false
  transmitting : Bool := false
  disconnectPending : Bool := false
  shutdownSent : Bool := false
  inComms : Bool := true
  -- http_connection
  httpAlive : Bool := false
  inHttp : Bool := false
  rx : RR := {}
  txHeader : Bytes := []
  txBody : Bytes := []
  -- what the scripted application remembers
  appKnows : Bool := false
  plan : List PlanItem := []
  -- ghost: lifecycle events seen by the application
  connectedSeen : Nat := 0
  disconnectedSeen : Nat := 0
  otherAfterDisc : Nat := 0
deriving Repr

structure World where
  opts : Opts := {}
  conns : List Conn := []
  haveServer : Bool := false
  acceptorOpen : Bool := false
  acceptCancelled : Bool := false
  shuttingDown : Bool := false
  k : Nat := 0
  filterCalls : Nat := 0
  out : List String := []      -- newest first
  /-- ghost: a send was issued while a write was in flight (the response is dropped and the slots of the
      write in flight are overwritten) -/
  sendWhileTransmitting : Bool := false
deriving Repr

def World.emit (w : World) (s : String) : World := { w with out := s :: w.out }

def World.get (w : World) (i : Nat) : Conn := w.conns.getD i {}

def World.upd (w : World) (i : Nat) (f : Conn → Conn) : World :=
  { w with conns := w.conns.modify i f }

/-- ghost: an application callback is being invoked for connection `i`; counts the callbacks that follow the
    connection's disconnected event (C10: there must be none) -/
def World.noteEvent (w : World) (i : Nat) : World :=
  w.upd i fun c => { c with otherAfterDisc := c.otherAfterDisc + (if c.disconnectedSeen > 0 then 1 else 0) }

def cn (i : Nat) : String := s!"c{i}"

/-! ### comms::connection over the adaptor -/

def isErrorADisconnect : Err → Bool
  | .eof | .refused | .reset | .aborted | .badfd => true
  | _ => false

def adaptorIsDisconnect (f : Flavour) (e : Err) : Bool :=
  f == .ssl && (e == .sslShort || e == .sslShutdown)

def adaptorIsShutdown (f : Flavour) (e : Err) : Bool :=
  f == .ssl && e == .sslShutdown

def bufBytes (c : Conn) : Buf → Bytes
  | .hdr => c.txHeader
  | .body => c.txBody
  | .lit b => b

def bufsBytes (c : Conn) (bs : List Buf) : Bytes := (bs.map (bufBytes c)).flatten

/-- FakeAdaptor::drop_pending_io -/
def dropPendingIo (c : Conn) : Conn :=
  { c with droppedRead := c.droppedRead || c.reads > 0, reads := 0,
           droppedWrite := c.droppedWrite || !c.writes.isEmpty, writes := [] }

/-- `connection::close` → `FakeAdaptor::close` -/
def closeConn (w : World) (i : Nat) : World :=
  let c := w.get i
  if !c.sockOpen then w
  else
    let w := w.emit s!"io close {cn i}"
    w.upd i fun c => { dropPendingIo c with sockOpen := false, hsStored := false, shutStored := false }

/-- `connection::enable_reception` → `FakeAdaptor::read` -/
def enableReception (w : World) (i : Nat) : World :=
  (w.upd i fun c => { c with reads := c.reads + 1 }).emit s!"io read {cn i}"

/-- `connection::send_data` / `write_data`; returns whether the buffers are being sent -/
def sendData (w : World) (i : Nat) (bufs : List Buf) : World × Bool :=
  let c := w.get i
  if c.transmitting then ({ w with sendWhileTransmitting := true }.emit "kf send-while-transmitting", false)
  else if c.connected then
    let w := w.upd i fun c => { c with transmitting := true, writes := c.writes ++ [bufs] }
    (w.emit s!"io write {cn i} n={(bufsBytes c bufs).length}", true)
  else (w, false)

/-! ### the application of sim_driver and http_server's reaction to events -/

def hdrsStr (fs : Fields) : String :=
  let sorted := fs.foldl (fun acc p =>
    let rec ins : List (Bytes × Bytes) → List (Bytes × Bytes)
      | [] => [p]
      | q :: rest => if Router.bytesLt p.1 q.1 then p :: q :: rest else q :: ins rest
    ins acc) []
  if sorted.isEmpty then "-" else String.intercalate "," (sorted.map fun (k, v) => hexOf k ++ ":" ++ hexOf v)

def b2s (b : Bool) : String := if b then "1" else "0"

def reqFields (r : RR) : String :=
  let q := r.request
  s!"m={hexOf q.line.method} u={hexOf q.line.uri} v={hexOf [q.line.major, q.line.minor]} h={hdrsStr q.headers.fields} b={hexOf r.body} head={b2s r.isHead} chunked={b2s q.headers.isChunked}"

def chunkFields (k : CK) : String :=
  s!"sz={k.hdr.size} ext={hexOf k.hdr.ext} d={hexOf k.data} t={hdrsStr k.trailers.fields} last={b2s k.isLast}"

mutual

/-- `connection::shutdown` -/
def shutdownConn (fuel : Nat) (w : World) (i : Nat) : World :=
  match fuel with
  | 0 => w
  | fuel + 1 =>
    let w := (w.upd i fun c => { c with shutdownSent := true }).emit s!"io shutdown {cn i}"
    match w.opts.flavour with
    | .tcp => writeCallback fuel w i (some .eof)
    | .ssl => w.upd i fun c => { dropPendingIo c with shutStored := true }

/-- `connection::disconnect` -/
def disconnectConn (fuel : Nat) (w : World) (i : Nat) : World :=
  match fuel with
  | 0 => w
  | fuel + 1 =>
    if !(w.get i).transmitting then shutdownConn fuel w i
    else w.upd i fun c => { c with disconnectPending := true }

/-- `connection::write_callback` (the completion of a write or of a shutdown) -/
def writeCallback (fuel : Nat) (w : World) (i : Nat) (err : Option Err) : World :=
  match fuel with
  | 0 => w
  | fuel + 1 =>
    let c := w.get i
    if !c.alive || err == some .opabort then w
    else if c.shutdownSent then commsEvent fuel w i 2
    else match err with
      | some e => signalErrorOrDisconnect fuel w i e
      | none =>
        if c.disconnectPending then shutdownConn fuel w i
        else commsEvent fuel (w.upd i fun c => { c with transmitting := false }) i 1

/-- `connection::signal_error_or_disconnect` -/
def signalErrorOrDisconnect (fuel : Nat) (w : World) (i : Nat) (e : Err) : World :=
  match fuel with
  | 0 => w
  | fuel + 1 =>
    let c := w.get i
    let sslDisc := adaptorIsDisconnect w.opts.flavour e
    let sslShut := sslDisc && adaptorIsShutdown w.opts.flavour e
    if !c.shutdownSent && sslShut then shutdownConn fuel w i
    else if sslDisc || isErrorADisconnect e then commsEvent fuel w i 2
    else w   -- error callback: http_server only logs it

/-- `comms::server::event_handler`: forward the event (0 CONNECTED, 1 SENT, 2 DISCONNECTED), then erase a
    disconnected connection from `connections_` -/
def commsEvent (fuel : Nat) (w : World) (i : Nat) (ev : Nat) : World :=
  match fuel with
  | 0 => w
  | fuel + 1 =>
    let w := httpEvent fuel w i ev
    if ev == 2 then w.upd i fun c => { c with inComms := false } else w

/-- `http_server::event_handler` -/
def httpEvent (fuel : Nat) (w : World) (i : Nat) (ev : Nat) : World :=
  match fuel with
  | 0 => w
  | fuel + 1 =>
    let c := w.get i
    if !c.alive then w
    else if ev == 0 then
      -- connected_handler
      if c.inHttp then w
      else
        let rx : RR := {}
        let w := w.upd i fun c => { c with httpAlive := true, inHttp := true, rx := rx, appKnows := true,
                                           connectedSeen := c.connectedSeen + 1 }
        let w := w.emit s!"ev connected {cn i}"
        if w.opts.onConnDisc then disconnectConn fuel w i else w
    else if !c.inHttp then w
    else if ev == 1 then
      if w.opts.senth || w.opts.chunkedResp then
        let w := w.noteEvent i
        let w := w.emit s!"ev sent {cn i}"
        match (w.get i).plan with
        | [] => w
        | item :: rest =>
          let w := w.upd i fun c => { c with plan := rest }
          match item with
          | .last => (httpLastChunk fuel w i [] []).1
          | .chunk d => (httpSendChunk fuel w i d [] false).1
      else w
    else
      -- disconnected_handler
      let w := (w.upd i fun c => { c with disconnectedSeen := c.disconnectedSeen + 1 }).emit s!"ev disconnected {cn i}"
      let w := w.upd i fun c => { c with inHttp := false }
      if w.shuttingDown && w.conns.all (fun c => !c.inHttp) then serverClose fuel w false else w

/-- `comms::server::close`: close the acceptors and clear `connections_` (`alsoHttp`: `http_server::close`
    first clears `http_connections_`) -/
def serverClose (fuel : Nat) (w : World) (alsoHttp : Bool) : World :=
  match fuel with
  | 0 => w
  | _ + 1 =>
    let w := if alsoHttp then { w with conns := w.conns.map fun c => { c with inHttp := false } } else w
    let w := if w.acceptorOpen then { w with acceptorOpen := false, acceptCancelled := true } else w
    { w with conns := w.conns.map fun c => { c with inComms := false } }

/-- `http_connection::send(buffers, is_continue)`: the common tail of the response send functions -/
def httpSendTail (fuel : Nat) (w : World) (i : Nat) (bufs : List Buf) (isContinue : Bool) : World × Bool :=
  match fuel with
  | 0 => (w, false)
  | fuel + 1 =>
    let c := w.get i
    let keepAlive := c.rx.request.keepAlive
    let w := w.upd i fun c => { c with rx := if isContinue then { c.rx with continueSent := true } else c.rx.clear }
    if !(w.get i).alive then (w, false)
    else
      let (w, _) := sendData w i bufs
      if keepAlive || (Gen.continueKeepsOpen && isContinue) then (w, true) else (disconnectConn fuel w i, false)

/-- the HTTP version a response is sent with (`set_version`) -/
def respVersion (c : Conn) : Byte × Byte :=
  if c.rx.request.line.major != 0 then (c.rx.request.line.major, c.rx.request.line.minor) else (49, 49)

/-- `http_connection::send(response)` / `send(response, body)` / `send(response, buffers)`;
    `ovl`: 0 no body, 1 body container, 2 caller-owned buffers -/
def httpSend (fuel : Nat) (w : World) (i : Nat) (status : Int) (reason hs body : Bytes) (ovl : Nat) : World × Bool :=
  match fuel with
  | 0 => (w, false)
  | fuel + 1 =>
    if !headersValid hs then (w, false)
    else
      let c := w.get i
      let (maj, min) := respVersion c
      let isHead := c.rx.isHead
      let msg := Enc.txResponseMessage maj min status reason hs (if ovl == 0 then 0 else body.length)
      let w := w.upd i fun c => { c with txHeader := msg }
      let bufs : List Buf :=
        if ovl == 0 then [.hdr]
        else if isHead then [.hdr]
        else if ovl == 1 then [.hdr, .body]
        else if body.isEmpty then [.hdr] else [.hdr, .lit body]
      let w := if ovl == 1 && !isHead then w.upd i fun c => { c with txBody := body } else w
      httpSendTail fuel w i bufs (status == (Gen.statusContinue : Int))

/-- `http_connection::send_response` -/
def httpSendResponse (fuel : Nat) (w : World) (i : Nat) : World × Bool :=
  match fuel with
  | 0 => (w, false)
  | fuel + 1 =>
    let c := w.get i
    let (maj, min) := respVersion c
    let code : Int := c.rx.code
    let msg := Enc.txResponseMessage maj min code (Enc.reasonPhrase code) [] 0
    let w := w.upd i fun c => { c with txHeader := msg }
    httpSendTail fuel w i [.hdr] (code == (Gen.statusContinue : Int))

/-- `http_connection::send(buffers)`: the tail of the chunk functions -/
def httpSendPlain (fuel : Nat) (w : World) (i : Nat) (bufs : List Buf) : World × Bool :=
  match fuel with
  | 0 => (w, false)
  | _ + 1 =>
    if !(w.get i).alive then (w, false)
    else ((sendData w i bufs).1, true)

/-- `http_connection::send_chunk` (`bufsOvl`: the ConstBuffers overload) -/
def httpSendChunk (fuel : Nat) (w : World) (i : Nat) (d ext : Bytes) (bufsOvl : Bool) : World × Bool :=
  match fuel with
  | 0 => (w, false)
  | fuel + 1 =>
    let w := w.upd i fun c => { c with txHeader := Enc.chunkHeader d.length ext }
    if bufsOvl then
      httpSendPlain fuel w i ([.hdr] ++ (if d.isEmpty then [] else [.lit d]) ++ [.lit [13, 10]])
    else
      let w := w.upd i fun c => { c with txBody := d }
      httpSendPlain fuel w i [.hdr, .body, .lit [13, 10]]

/-- `http_connection::last_chunk` -/
def httpLastChunk (fuel : Nat) (w : World) (i : Nat) (ext trailers : Bytes) : World × Bool :=
  match fuel with
  | 0 => (w, false)
  | fuel + 1 =>
    let w := w.upd i fun c => { c with txHeader := Enc.lastChunk ext trailers }
    httpSendPlain fuel w i [.hdr]

end

/-- the scripted application's answer to a complete request (policy sync) -/
def appAnswer (fuel : Nat) (w : World) (i : Nat) : World :=
  let n := toString w.k
  if !w.opts.chunkedResp then
    (httpSend fuel w i 200 (Enc.reasonPhrase 200) w.opts.ansHs (str ("r" ++ n)) w.opts.ansOvl).1
  else
    let w := w.upd i fun c => { c with plan := c.plan ++ [.chunk (str ("a" ++ n)), .chunk (str ("b" ++ n)), .last] }
    (httpSend fuel w i 200 (Enc.reasonPhrase 200) (Enc.toHeaderId 5 (b!"Chunked")) [] 0).1

/-- the routes of sim_driver's `policy=router` -/
def simRoutes : List Router.Route :=
  [ { path := (b!"/hello"), methods := [((b!"GET"), { handler := 1, auth := none })] },
    { path := (b!"/hello/:name"), methods := [((b!"GET"), { handler := 2, auth := none })] },
    { path := (b!"/echo"), methods := [((b!"POST"), { handler := 3, auth := none })] },
    { path := (b!"/secret"), methods := [((b!"GET"), { handler := 4, auth := some 0 })] } ]

def epochDate : Bytes := b!"Thu, 01 Jan 1970 00:00:00 GMT"

/-- `http_server::route_request`: the built-in router answers -/
def routeRequest (fuel : Nat) (w : World) (i : Nat) : World :=
  let c := w.get i
  let q := c.rx.request
  let authHdr : Option Bytes :=
    if (q.headers.fields.any fun p => p.1 == (b!"authorization")) then some (q.headers.fields.find (b!"authorization")) else none
  let authOk := fun (_ : Nat) => Auth.basicIsValid [((b!"user"), (b!"pass"))] authHdr
  let extra := Enc.toHeader (b!"Date") epochDate ++ Enc.toHeader (b!"Server") Gen.cSERVER_NAME
  match Router.handleRequest simRoutes authOk q.line.method q.line.uri with
  | .notFound => (httpSend fuel w i 404 (Enc.reasonPhrase 404) extra [] 1).1
  | .methodNotAllowed allow =>
    (httpSend fuel w i 405 (Enc.reasonPhrase 405) (Enc.toHeader (b!"Allow") allow ++ extra) [] 1).1
  | .unauthorised _ =>
    (httpSend fuel w i 401 (Enc.reasonPhrase 401)
      (Enc.toHeader (b!"WWW-Authenticate") (Auth.authenticateValue (b!"realm")) ++ extra) [] 1).1
  | .handler id ps =>
    let body : Bytes := match id with
      | 1 => (b!"hello")
      | 2 => (Router.mapFind (b!"name") ps).getD []
      | 3 => c.rx.body
      | _ => (b!"secret")
    (httpSend fuel w i 200 (Enc.reasonPhrase 200) extra body 1).1

/-- the request handler registered with http_server -/
def requestHandler (fuel : Nat) (w : World) (i : Nat) : World :=
  match w.opts.policy with
  | .router => routeRequest fuel w i
  | p =>
    let c := w.get i
    let w := (w.noteEvent i).emit s!"ev request {cn i} {reqFields c.rx}"
    let w := { w with k := w.k + 1 }
    if p == .sync then
      if c.rx.request.headers.isChunked && w.opts.chunkh then w else appAnswer fuel w i
    else if p == .disc then disconnectConn fuel w i
    else w

/-- `http_server::receive_handler`: the loop over one network read -/
def receiveLoop (fuel : Nat) (w : World) (i : Nat) : Nat → Bytes → World
  | 0, _ => w
  | n + 1, buf =>
    -- a handler may have disconnected the connection: nothing more is delivered for it (`is_held`)
    if buf.isEmpty || !(w.get i).inHttp then w
    else
      let cfg := { w.opts.cfg with concatChunks := !w.opts.chunkh }
      let c := w.get i
      let p := RR.receive cfg c.rx buf
      let w := w.upd i fun c => { c with rx := p.1 }
      let rest := p.2.1
      let invalidCase (w : World) : World :=
        let w := if w.opts.invh then (w.noteEvent i).emit s!"ev invalid {cn i} code={(w.get i).rx.code}"
          else
            let w := (httpSendResponse fuel w i).1
            if w.opts.autodisc then disconnectConn fuel w i else w
        w.upd i fun c => { c with rx := c.rx.clear }
      match p.2.2 with
      | .valid =>
        if !(w.get i).rx.request.isTrace then
          let w := requestHandler fuel w i
          let w := if !(w.get i).rx.request.headers.isChunked then w.upd i fun c => { c with rx := c.rx.clear } else w
          receiveLoop fuel w i n rest
        else if w.opts.trace then
          let c := w.get i
          let q := c.rx.request
          let traceBody := Enc.requestLine q.line.method q.line.uri q.line.major q.line.minor ++
            (q.headers.fields.map fun p => Enc.toHeader p.1 p.2).flatten
          let w := (httpSend fuel w i 200 (Enc.reasonPhrase 200) (Enc.toHeader Gen.cHEADER_CONTENT_TYPE Gen.cMESSAGE_HTTP) traceBody 1).1
          let w := w.upd i fun c => { c with rx := c.rx.clear }
          receiveLoop fuel w i n rest
        else receiveLoop fuel (invalidCase w) i n rest
      | .invalid => invalidCase w
      | .expectContinue =>
        let w :=
          if w.opts.conth then
            let w := (w.noteEvent i).emit s!"ev continue {cn i} {reqFields (w.get i).rx}"
            if w.opts.policy != .deferred then
              let st : Int := if w.opts.contReject then 417 else 100
              (httpSend fuel w i st (Enc.reasonPhrase st) [] [] 0).1
            else w
          else
            let w := (httpSendResponse fuel w i).1
            if w.opts.chunkh && (w.get i).rx.request.headers.isChunked then requestHandler fuel w i else w
        receiveLoop fuel w i n rest
      | .chunk =>
        let w := if w.opts.chunkh then
            let k := (w.get i).rx.chunk
            let w := (w.noteEvent i).emit s!"ev chunk {cn i} {chunkFields k}"
            if w.opts.policy == .sync && k.isLast then appAnswer fuel w i else w
          else w
        let w := if (w.get i).rx.chunk.isLast then w.upd i fun c => { c with rx := c.rx.clear } else w
        receiveLoop fuel w i n rest
      | .incomplete => receiveLoop fuel w i n rest

def FUEL : Nat := 12

/-- `connection::read_callback` -/
def readCallback (w : World) (i : Nat) (err : Option Err) (data : Bytes) : World :=
  let c := w.get i
  if !c.alive || err == some .opabort then w
  else match err with
    | some e => signalErrorOrDisconnect FUEL w i e
    | none =>
      let w := if (w.get i).inHttp then receiveLoop FUEL w i (data.length + 2) data else w
      if !(w.get i).shutdownSent then enableReception w i else w

/-- `connection::handshake_callback` -/
def handshakeCallback (w : World) (i : Nat) (ok : Bool) : World :=
  let c := w.get i
  if !c.alive then w
  else if ok then
    let w := w.upd i fun c => { c with connected := true }
    let w := commsEvent FUEL w i 0
    -- the connected handler may have disconnected the connection
    if !(w.get i).shutdownSent then enableReception w i else w
  else
    let w := closeConn w i
    commsEvent FUEL w i 2

/-- destroy the objects nobody owns any more: a comms connection outside `connections_` (its destructor
    closes the socket), an http_connection outside `http_connections_` -/
def gcOne (w : World) (i : Nat) : World :=
  let c := w.get i
  let w := if c.alive && !c.inHttp && c.httpAlive then
      -- ~http_connection: close() on the comms connection if it still exists
      closeConn (w.upd i fun c => { c with httpAlive := false }) i
    else w
  let c := w.get i
  if c.alive && !c.inComms then
    let w := closeConn w i
    w.upd i fun c => { c with alive := false, httpAlive := false }
  else w

def gc (w : World) : World := (List.range w.conns.length).foldl gcOne w

end Via.Sim
