import ViaModel.Bytes
/-
  `split` (character.hpp), `request_uri` (request_uri.hpp), `get_route_parameters`,
  `request_router::Route`, `find_route`, `add_method`, `handle_request` (request_router.hpp).
  Handlers are opaque ids; the authentication decision is a parameter of `handleRequest`.
-/
namespace Via.Router

/-- `split(input, delimiter)`: the pieces between the delimiters -/
def splitAux (d : Byte) : Bytes → Bytes → List Bytes
  | [], cur => [cur.reverse]
  | c :: cs, cur => if c == d then cur.reverse :: splitAux d cs [] else splitAux d cs (c :: cur)

def split (s : Bytes) (d : Byte) : List Bytes := splitAux d s []

/-- a `std::string` built from a `char const*`: stops at the first NUL -/
def cstr (s : Bytes) : Bytes := s.takeWhile (· != 0)

structure Uri where
  path : Bytes
  query : Bytes
  fragment : Bytes
deriving Repr, DecidableEq

/-- `request_uri::request_uri(uri)` -/
def parseUri (uri : Bytes) : Uri :=
  let p0 := uri        -- (fix 26c1891: the path is built from the whole string_view, not as a C string)
  let qs := findByte 63 p0
  let fs := findByte 35 p0
  let hasFragment := fs.isSome
  let hasQuery := match qs, fs with
    | some q, some f => q < f
    | some _, none => true
    | none, _ => false
  if hasQuery || hasFragment then
    let path := if hasQuery then p0.take (qs.getD 0) else p0.take (fs.getD 0)
    let query := if hasQuery then
        let q1 := qs.getD 0 + 1
        match fs with
        | some f => (uri.drop q1).take (f - q1)
        | none => uri.drop q1
      else []
    let fragment := match fs with
      | some f => uri.drop (f + 1)
      | none => []
    { path := path, query := query, fragment := fragment }
  else { path := p0, query := [], fragment := [] }

abbrev Params := List (Bytes × Bytes)   -- `std::map`: sorted by key, unique keys

/-- byte-wise lexicographic `<` (`std::string::operator<`) -/
def bytesLt : Bytes → Bytes → Bool
  | [], [] => false
  | [], _ :: _ => true
  | _ :: _, [] => false
  | a :: as, b :: bs => if a < b then true else if b < a then false else bytesLt as bs

/-- `std::map::insert`: keeps the map sorted, does not overwrite an existing key -/
def mapInsert {V} (k : Bytes) (v : V) : List (Bytes × V) → List (Bytes × V)
  | [] => [(k, v)]
  | (k', v') :: rest =>
    if k == k' then (k', v') :: rest
    else if bytesLt k k' then (k, v) :: (k', v') :: rest
    else (k', v') :: mapInsert k v rest

def mapFind {V} (k : Bytes) : List (Bytes × V) → Option V
  | [] => none
  | (k', v) :: rest => if k == k' then some v else mapFind k rest

/-- the `for` loop of `get_route_parameters` over the zipped names / values; `none` = the
    early `return Parameters()` -/
def bindLoop : List Bytes → List Bytes → Params → Option Params
  | [], _, acc => some acc
  | _ :: _, [], acc => some acc
  | name :: ns, value :: vs, acc =>
    if name.head? != some 58 then
      if name != value then none else bindLoop ns vs acc
    else bindLoop ns vs (mapInsert (name.drop 1) value acc)

/-- `get_route_parameters(uri_path, route_path)` -/
def getRouteParameters (uriPath routePath : Bytes) : Params :=
  match findByte 58 routePath with
  | none => []
  | some p =>
    let names := split (routePath.drop p) 47
    let values := split (uriPath.drop p) 47
    if names.length == values.length then
      (bindLoop names values []).getD []
    else []

structure MethodEntry where
  handler : Nat          -- opaque handler id
  auth : Option Nat      -- opaque authenticator id
deriving Repr, DecidableEq

structure Route where
  path : Bytes
  methods : List (Bytes × MethodEntry)   -- `std::map<std::string, AuthenticatedHandler>`
deriving Repr, DecidableEq

/-- `Route::search_path`: the path up to (not including) the first ':' -/
def Route.searchPath (r : Route) : Bytes :=
  match findByte 58 r.path with
  | some p => r.path.take p
  | none => r.path

def Route.hasParameters (r : Route) : Bool := r.path.length != r.searchPath.length

def joinWith (sep : Bytes) : List Bytes → Bytes
  | [] => []
  | [x] => x
  | x :: y :: rest => x ++ sep ++ joinWith sep (y :: rest)

/-- `Route::allowed_methods()` -/
def Route.allowedMethods (r : Route) : Bytes := joinWith (b!", ") (r.methods.map (·.1))

/-- `request_router::add_method` -/
def addMethod (routes : List Route) (method path : Bytes) (e : MethodEntry) : List Route :=
  let key := cstr path
  if routes.any (fun r => r.path == key) then
    routes.map fun r => if r.path == key then { r with methods := mapInsert method e r.methods } else r
  else routes ++ [{ path := path, methods := [(method, e)] }]

/-- `request_router::find_route`: first route (registration order) that matches -/
def findRoute (uriPath : Bytes) : List Route → Option (Route × Params)
  | [] => none
  | r :: rest =>
    if r.searchPath.isPrefixOf uriPath then
      if r.hasParameters then
        let ps := getRouteParameters uriPath r.path
        if !ps.isEmpty then some (r, ps) else findRoute uriPath rest
      else if uriPath.length == r.searchPath.length then some (r, [])
      else findRoute uriPath rest
    else findRoute uriPath rest

inductive Outcome where
  | notFound
  | methodNotAllowed (allow : Bytes)
  | unauthorised (authId : Nat)
  | handler (id : Nat) (params : Params)
deriving Repr, DecidableEq

/-- `request_router::handle_request`; `authOk a` = "authenticator `a` accepts this request" -/
def handleRequest (routes : List Route) (authOk : Nat → Bool) (method target : Bytes) : Outcome :=
  match findRoute (parseUri target).path routes with
  | none => .notFound
  | some (r, ps) =>
    match mapFind method r.methods with
    | none => .methodNotAllowed r.allowedMethods
    | some e =>
      match e.auth with
      | some a => if authOk a then .handler e.handler ps else .unauthorised a
      | none => .handler e.handler ps

end Via.Router
