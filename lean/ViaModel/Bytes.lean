/-
  Byte classification: model of `via/http/character.hpp` and of the `<cctype>`
  functions the library calls, in the "C" locale (glibc: every byte >= 0x80 is in no class).
  The correspondence check compares all of these exhaustively on the 256 byte values.
-/
namespace Via

abbrev Byte := UInt8
abbrev Bytes := List UInt8

def CR : Byte := 13
def LF : Byte := 10
def SP : Byte := 32
def HT : Byte := 9

/-- `std::isblank` -/
def isBlank (c : Byte) : Bool := c == 32 || c == 9
/-- `is_end_of_line` -/
def isEol (c : Byte) : Bool := c == 13 || c == 10
/-- `std::isupper` -/
def isUpper (c : Byte) : Bool := 65 ≤ c && c ≤ 90
/-- `std::islower` -/
def isLower (c : Byte) : Bool := 97 ≤ c && c ≤ 122
/-- `std::isalpha` -/
def isAlpha (c : Byte) : Bool := isUpper c || isLower c
/-- `std::isdigit` -/
def isDigit (c : Byte) : Bool := 48 ≤ c && c ≤ 57
/-- `std::isalnum` -/
def isAlnum (c : Byte) : Bool := isAlpha c || isDigit c
/-- `std::isxdigit` -/
def isXDigit (c : Byte) : Bool := isDigit c || (65 ≤ c && c ≤ 70) || (97 ≤ c && c ≤ 102)
/-- `std::iscntrl` -/
def isCntrl (c : Byte) : Bool := c < 32 || c == 127
/-- `std::isspace` -/
def isSpace (c : Byte) : Bool := c == 32 || (9 ≤ c && c ≤ 13)
/-- `std::tolower` -/
def toLower (c : Byte) : Byte := if isUpper c then c + 32 else c

/-- `is_separator` -/
def isSeparator (c : Byte) : Bool :=
  c == 40 || c == 41 || c == 60 || c == 62 || c == 64 ||
  c == 44 || c == 59 || c == 58 || c == 92 || c == 34 ||
  c == 47 || c == 91 || c == 93 || c == 63 || c == 61 ||
  c == 123 || c == 125 || c == 32 || c == 9

/-- `is_token`: `!iscntrl(c) && !is_separator(c)`.  Note: bytes >= 0x80 are tokens for the library. -/
def isToken (c : Byte) : Bool := !isCntrl c && !isSeparator c

/-- bytes of a string (runtime only: not reducible in the kernel; model code uses `b!"…"`) -/
def str (s : String) : Bytes := s.toUTF8.toList

open Lean in
/-- `b!"GET"` elaborates to the literal byte list `[71, 69, 84]`, so proofs can compute with it -/
macro "b!" s:str : term => do
  let elems ← s.getString.toUTF8.toList.toArray.mapM fun b => `(($(quote b.toNat) : UInt8))
  `(([$elems,*] : List UInt8))

/-- lower-case hex rendering of a byte string, `-` for the empty string (driver output format) -/
def hexDigit (n : Nat) : Char := if n < 10 then Char.ofNat (48 + n) else Char.ofNat (87 + n)
def hexOf (bs : Bytes) : String :=
  if bs.isEmpty then "-" else
    String.ofList (bs.flatMap fun b => [hexDigit (b.toNat / 16), hexDigit (b.toNat % 16)])

def hexVal (c : Char) : Option Nat :=
  if '0' ≤ c && c ≤ '9' then some (c.toNat - 48)
  else if 'a' ≤ c && c ≤ 'f' then some (c.toNat - 87)
  else if 'A' ≤ c && c ≤ 'F' then some (c.toNat - 55)
  else none

def unhexAux : List Char → Bytes → Option Bytes
  | [], acc => some acc.reverse
  | [_], _ => none
  | a :: b :: rest, acc =>
    match hexVal a, hexVal b with
    | some x, some y => unhexAux rest (UInt8.ofNat (x * 16 + y) :: acc)
    | _, _ => none

/-- parse the driver's hex format (`-` = empty) -/
def unhex (s : String) : Option Bytes :=
  if s == "-" then some [] else unhexAux s.toList []

/-- substring search: index of the first occurrence of `pat` in `s` at or after `from`
    (`std::string::find`); `none` = `npos`. -/
def findSub (pat : Bytes) : Bytes → Nat → Option Nat
  | [], i => if pat.isEmpty then some i else none
  | c :: cs, i => if pat.isPrefixOf (c :: cs) then some i else findSub pat cs (i + 1)

def containsSub (pat s : Bytes) : Bool := (findSub pat s 0).isSome

/-- `std::string::find(char)` -/
def findByte (b : Byte) (s : Bytes) : Option Nat :=
  let i := s.findIdx (· == b)
  if i < s.length then some i else none

end Via
