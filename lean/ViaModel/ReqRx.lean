import ViaModel.ReqLine
import ViaModel.Chunk
/-
  `rx_request` and `request_receiver::receive` / `clear` (request.hpp), and the per-read loop of
  `http_server::receive_handler` as far as the receiver is concerned.
-/
namespace Via

structure RQ where
  line : RL := {}
  headers : MH := {}
  valid : Bool := false
deriving Repr, DecidableEq

/-- `rx_request::parse` -/
def RQ.parse (cfg : Cfg) (q : RQ) (buf : Bytes) : RQ × Bytes × Bool :=
  let lr : RQ × Bytes × Bool :=
    if q.line.valid then (q, buf, true)
    else
      let r := RL.parse cfg q.line buf
      ({ q with line := r.1 }, r.2.1, r.2.2)
  if !lr.2.2 then (lr.1, lr.2.1, false)
  else
    let q := lr.1
    let buf := lr.2.1
    if q.headers.valid then ({ q with valid := true }, buf, true)
    else
      let r := MH.parse cfg q.headers buf
      if !r.2.2 then ({ q with headers := r.1 }, r.2.1, false)
      else ({ q with headers := r.1, valid := true }, r.2.1, true)

def RQ.fail (q : RQ) : Bool := q.line.fail || q.headers.fail
def RQ.keepAlive (q : RQ) : Bool := !q.line.isHttp10OrEarlier && !q.headers.closeConnection
def RQ.missingHost (q : RQ) : Bool :=
  q.line.major == 49 && q.line.minor == 49 && (q.headers.fields.find (b!"host")).isEmpty
def RQ.expectContinue (q : RQ) : Bool := !q.line.isHttp10OrEarlier && q.headers.expectContinue
def RQ.isHead (q : RQ) : Bool := q.line.method == (b!"HEAD")
def RQ.isTrace (q : RQ) : Bool := q.line.method == (b!"TRACE")

structure RR where
  request : RQ := {}
  chunk : CK := {}
  body : Bytes := []
  code : Nat := 204           -- response_code_, initially NO_CONTENT
  continueSent : Bool := false
  isHead : Bool := false
deriving Repr, DecidableEq

/-- `request_receiver::clear` (the response code is kept) -/
def RR.clear (r : RR) : RR := { code := r.code }

/-- the non-chunked branch of `receive` (request valid, host present) -/
def RR.receiveBody (cfg : Cfg) (r : RR) (requestParsed : Bool) (buf : Bytes) : RR × Bytes × Rx :=
  let rxSize : Int := buf.length
  let cl : Int := r.request.headers.contentLength
  -- TRACE
  let tr : Option RR :=
    if r.request.isTrace then
      if cl == 0 then some { r with code := 405 } else none
    else some r
  match tr with
  | none => ({ r with code := 400 }.clear, buf, .invalid)
  | some r =>
    if cl < 0 then ({ r with code := 400 }.clear, buf, .invalid)
    else if cl > 0 && cl > (cfg.maxContent : Int) then ({ r with code := 413 }.clear, buf, .invalid)
    else if !(cl > 0) && rxSize > 0 && (r.request.headers.fields.find (b!"content-length")).isEmpty then
      ({ r with code := 411 }.clear, buf, .invalid)
    else if requestParsed && rxSize < cl && r.request.expectContinue && !r.continueSent then
      ({ r with code := 100 }, buf, .expectContinue)
    else
      let required : Int := cl - r.body.length
      let take : Nat := if rxSize > required then required.toNat else buf.length
      let r := { r with body := r.body ++ buf.take take }
      let rest := buf.drop take
      if (r.body.length : Int) == cl then
        let isHead := r.request.isHead
        let r := { r with isHead := isHead }
        let r := if isHead && cfg.translateHead
          then { r with request := { r.request with line := { r.request.line with method := (b!"GET") } } } else r
        (r, rest, .valid)
      else (r, rest, .incomplete)

/-- the chunked branch of `receive` -/
def RR.receiveChunk (cfg : Cfg) (r : RR) (requestParsed : Bool) (buf : Bytes) : RR × Bytes × Rx :=
  let r := if r.chunk.valid then { r with chunk := {} } else r
  let early : Option Rx :=
    if requestParsed then
      if r.request.expectContinue && !r.continueSent then some .expectContinue
      else if !cfg.concatChunks then some .valid else none
    else none
  match early with
  | some .expectContinue => ({ r with code := 100 }, buf, .expectContinue)
  | some x => (r, buf, x)
  | none =>
    let p := CK.parse cfg r.chunk buf
    let r := { r with chunk := p.1 }
    if !p.2.2 && (!p.2.1.isEmpty || r.chunk.fail) then ({ r with code := 400 }.clear, p.2.1, .invalid)
    else if r.chunk.valid then
      if cfg.concatChunks then
        if r.chunk.isLast then (r, p.2.1, .valid)
        else if r.body.length + r.chunk.data.length > cfg.maxContent then
          ({ r with code := 413 }.clear, p.2.1, .invalid)
        else ({ r with body := r.body ++ r.chunk.data }, p.2.1, .incomplete)
      else (r, p.2.1, .chunk)
    else (r, p.2.1, .incomplete)

/-- `request_receiver::receive` -/
def RR.receive (cfg : Cfg) (r : RR) (buf : Bytes) : RR × Bytes × Rx :=
  let requestParsed := !r.request.valid
  let step : RR × Bytes × Option Rx :=
    if requestParsed then
      let p := RQ.parse cfg r.request buf
      let r := { r with request := p.1 }
      if !p.2.2 then
        if !p.2.1.isEmpty || r.request.fail then
          let code := match r.request.line.st with
            | .errMethodLength => 501
            | .errUriLength => 414
            | _ => 400
          ({ r with code := code }.clear, p.2.1, some .invalid)
        else (r, p.2.1, some .incomplete)
      else (r, p.2.1, none)
    else (r, buf, none)
  match step.2.2 with
  | some x => (step.1, step.2.1, x)
  | none =>
    let r := step.1
    let buf := step.2.1
    if r.request.missingHost then ({ r with code := 400 }, buf, .invalid)
    else if !r.request.headers.isChunked then RR.receiveBody cfg r requestParsed buf
    else RR.receiveChunk cfg r requestParsed buf

/-- what the server does with the receiver after each `receive` result when the application answers
    inside its handler (`http_connection::send` clears the receiver) -/
def RR.afterResult (cfg : Cfg) (r : RR) : Rx → RR
  | .valid => if !r.request.headers.isChunked || cfg.concatChunks then r.clear else r
  | .expectContinue => { r with continueSent := true }
  | .chunk => if r.chunk.isLast then r.clear else r
  | .invalid => r.clear
  | .incomplete => r

structure Delivery where
  rx : Rx
  used : Nat
  snapshot : RR        -- the receiver as the handler sees it
deriving Repr

/-- the loop of `http_server::receive_handler` over one network read; `fuel` bounds the number of
    `receive` calls (the C05 theorem shows `buf.length + 1` is never exhausted) -/
def RR.readLoop (cfg : Cfg) : Nat → RR → Bytes → List Delivery → RR × Bytes × List Delivery
  | 0, r, buf, acc => (r, buf, acc.reverse)
  | fuel + 1, r, buf, acc =>
    if buf.isEmpty then (r, buf, acc.reverse)
    else
      let p := RR.receive cfg r buf
      let d : Delivery := { rx := p.2.2, used := buf.length - p.2.1.length, snapshot := p.1 }
      let r' := RR.afterResult cfg p.1 p.2.2
      if p.2.2 == .invalid then (r', p.2.1, (d :: acc).reverse)
      else RR.readLoop cfg fuel r' p.2.1 (d :: acc)

end Via
