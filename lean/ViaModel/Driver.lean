import ViaModel.Bytes
import ViaModel.Num
import ViaModel.SplitDetect
import ViaModel.HashMap
import ViaModel.Router
import ViaModel.Auth
import ViaModel.Encode
import ViaModel.ReqRx
import ViaModel.RespRx
import ViaModel.SimDriver
/-
  Line-protocol driver: executes the same operation scripts as `harness/rx_driver.cpp` on the
  model and prints the same canonical result lines.
-/
namespace Via.Driver
open Via

def b2s (b : Bool) : String := if b then "1" else "0"

def argOf (ws : List String) (key : String) (dflt : String := "") : String :=
  match ws.find? (fun w => w.startsWith (key ++ "=")) with
  | some w => (w.drop (key.length + 1)).toString
  | none => dflt

def natOf (s : String) : Nat := s.toNat?.getD 0

def pairsOut (ps : List (Bytes × Bytes)) : String :=
  if ps.isEmpty then "-" else
    String.intercalate "," (ps.map fun (k, v) => hexOf k ++ ":" ++ hexOf v)

inductive RxSt where
  | none
  | req (cfg : Cfg) (r : RR)
  | resp (cfg : Cfg) (r : RS)

structure St where
  router : Option (List Router.Route) := none
  hm : Option (HM.Map Int) := none
  rx : RxSt := .none
  sim : Option Sim.World := none

def insertSorted (p : Bytes × Bytes) : List (Bytes × Bytes) → List (Bytes × Bytes)
  | [] => [p]
  | q :: rest => if Router.bytesLt p.1 q.1 then p :: q :: rest else q :: insertSorted p rest

def hdrsOut (fs : Fields) : String :=
  pairsOut (fs.foldl (fun acc p => insertSorted p acc) [])

def fieldsBytes (fs : Fields) : Nat := fs.foldl (fun n p => n + p.1.length + p.2.length) 0

def chunkDetail (k : CK) : String :=
  s!" sz={k.hdr.size} ext={hexOf k.hdr.ext} d={hexOf k.data} t={hdrsOut k.trailers.fields} last={b2s k.isLast}"

def reqLine (d : Delivery) : String :=
  let r := d.snapshot
  let base := s!"rx={d.rx.name} used={d.used} code={r.code}"
  match d.rx with
  | .valid | .expectContinue =>
    let q := r.request
    base ++ s!" m={hexOf q.line.method} u={hexOf q.line.uri} v={hexOf [q.line.major, q.line.minor]} h={hdrsOut q.headers.fields} b={hexOf r.body} head={b2s r.isHead} chunked={b2s q.headers.isChunked} ka={b2s q.keepAlive}"
  | .chunk => base ++ chunkDetail r.chunk
  | _ => base

def respLine (d : RDelivery) : String :=
  let r := d.snapshot
  let base := s!"rx={d.rx.name} used={d.used}"
  match d.rx with
  | .valid =>
    let q := r.response
    base ++ s!" st={q.line.status} r={hexOf q.line.reason} v={hexOf [q.line.major, q.line.minor]} h={hdrsOut q.headers.fields} b={hexOf r.body} chunked={b2s q.headers.isChunked} ka={b2s q.keepAlive}"
  | .chunk => base ++ chunkDetail r.chunk
  | _ => base

def ckBytes (k : CK) : Nat :=
  k.data.length + k.hdr.hexSize.length + k.hdr.ext.length + fieldsBytes k.trailers.fields +
  k.trailers.field.name.length + k.trailers.field.value.length

def cfgOf (ws : List String) : Cfg :=
  { maxUri := natOf (argOf ws "a"), maxMethod := natOf (argOf ws "b"), maxHdrNum := natOf (argOf ws "hn"),
    maxHdrLen := natOf (argOf ws "hl"), maxLine := natOf (argOf ws "ll"), maxWs := natOf (argOf ws "ws"),
    strict := argOf ws "strict" == "1", maxContent := natOf (argOf ws "maxc" "1048576"),
    maxChunk := natOf (argOf ws "maxk" "1048576"), translateHead := argOf ws "th" "1" == "1",
    concatChunks := argOf ws "cc" "1" == "1" }

def splitNonEmpty (s : String) (sep : String) : List String :=
  if s == "-" || s == "" then [] else s.splitOn sep

/-- `addid=<id>:<hex>,...` -/
def addIds (hs : Bytes) (spec : String) : Option Bytes :=
  (splitNonEmpty spec ",").foldlM (fun acc e =>
    match e.splitOn ":" with
    | [i, v] => (unhex v).map fun v => acc ++ Enc.toHeaderId (natOf i) v
    | _ => none) hs

/-- `add=<hexname>:<hexvalue>,...` -/
def addNamed (hs : Bytes) (spec : String) : Option Bytes :=
  (splitNonEmpty spec ",").foldlM (fun acc e =>
    match e.splitOn ":" with
    | [n, v] => do
      let n ← unhex n
      let v ← unhex v
      pure (acc ++ Enc.toHeader n v)
    | _ => none) hs


def feedRx (st : St) (data : Bytes) : St × List String :=
  match st.rx with
  | .req cfg r =>
    let (r', rest, ds) := RR.readLoop cfg (data.length + 3) r data []
    ({ st with rx := .req cfg r' }, ds.map reqLine ++ [s!"read-done calls={ds.length} left={rest.length}"])
  | .resp cfg r =>
    let (r', rest, ds) := RS.readLoop cfg (data.length + 3) r data []
    ({ st with rx := .resp cfg r' }, ds.map respLine ++ [s!"read-done calls={ds.length} left={rest.length}"])
  | .none => (st, ["bad-op"])

/-- receiver operations -/
def rxOp (st : St) (ws : List String) : Option (St × List String) :=
  match ws with
  | "encfeed-req" :: rest => do
      let v ← unhex (argOf rest "v" "3131")
      let u ← unhex (argOf rest "u" "-")
      let hs ← unhex (argOf rest "hs" "-")
      let body ← unhex (argOf rest "b" "-")
      let mid := argOf rest "mid"
      let m ← if mid != "" then some (Enc.methodName (natOf mid)) else unhex (argOf rest "m" "-")
      let hs1 ← addIds hs (argOf rest "addid" "-")
      let hs2 ← addNamed hs1 (argOf rest "add" "-")
      let msg := Enc.txRequestMessage m u (v.getD 0 0) (v.getD 1 0) hs2 body.length
      pure (feedRx st (if argOf rest "chunked" "0" == "1" then msg else msg ++ body))
  | "encfeed-resp" :: rest => do
      let v ← unhex (argOf rest "v" "3131")
      let hs ← unhex (argOf rest "hs" "-")
      let body ← unhex (argOf rest "b" "-")
      let stt : Int := (argOf rest "st" "200").toInt?.getD 200
      let rs := argOf rest "rs" "default"
      let reason ← if rs == "default" then some (Enc.reasonPhrase stt) else
        (unhex rs).map fun r => if r.isEmpty then Enc.reasonPhrase stt else r
      let hs1 ← addIds hs (argOf rest "addid" "-")
      let hs2 ← addNamed hs1 (argOf rest "add" "-")
      let msg := Enc.txResponseMessage (v.getD 0 0) (v.getD 1 0) stt reason hs2 body.length
      pure (feedRx st (if argOf rest "chunked" "0" == "1" then msg else msg ++ body))
  | "encfeed-chunk" :: rest => do
      let d ← unhex (argOf rest "d" "-")
      let e ← unhex (argOf rest "ext" "-")
      pure (feedRx st (Enc.chunkHeader d.length e ++ d ++ [13, 10]))
  | "encfeed-last" :: rest => do
      let e ← unhex (argOf rest "ext" "-")
      let t ← unhex (argOf rest "tr" "-")
      let t2 ← addNamed t (argOf rest "add" "-")
      pure (feedRx st (Enc.lastChunk e t2))
  | "rqnew" :: rest => some ({ st with rx := .req (cfgOf rest) {} }, ["ok"])
  | "rsnew" :: rest => some ({ st with rx := .resp (cfgOf rest) {} }, ["ok"])
  | [op, h] =>
    if op == "feed" || op == "feed1" then
      match unhex h, st.rx with
      | some data, .req cfg r =>
        let fuel := if op == "feed" then data.length + 3 else 1
        let (r', rest, ds) := RR.readLoop cfg fuel r data []
        let live := if op == "feed" && ds.length > data.length + 2 then ["abort:livelock"] else []
        some ({ st with rx := .req cfg r' }, ds.map reqLine ++ live ++ [s!"read-done calls={ds.length} left={rest.length}"])
      | some data, .resp cfg r =>
        let fuel := if op == "feed" then data.length + 3 else 1
        let (r', rest, ds) := RS.readLoop cfg fuel r data []
        let live := if op == "feed" && ds.length > data.length + 2 then ["abort:livelock"] else []
        some ({ st with rx := .resp cfg r' }, ds.map respLine ++ live ++ [s!"read-done calls={ds.length} left={rest.length}"])
      | _, _ => some (st, ["bad-op"])
    else none
  | ["sizes"] =>
    match st.rx with
    | .req _ r =>
      let q := r.request
      let n := q.line.method.length + q.line.uri.length + fieldsBytes q.headers.fields +
        q.headers.field.name.length + q.headers.field.value.length + r.body.length + ckBytes r.chunk
      some (st, [s!"sizes retained={n}"])
    | .resp _ r =>
      let q := r.response
      let n := q.line.reason.length + fieldsBytes q.headers.fields +
        q.headers.field.name.length + q.headers.field.value.length + r.body.length + ckBytes r.chunk
      some (st, [s!"sizes retained={n}"])
    | .none => some (st, ["bad-op"])
  | _ => none

def hashFn (mode : Nat) (k : Nat) : Nat :=
  match mode with
  | 1 => 0
  | 2 => k % 3
  | _ => k

def kvOut (l : List (Nat × Int)) : String :=
  if l.isEmpty then "-" else String.intercalate "," (l.map fun (k, v) => s!"{k}={v}")

/-- pure operations (no receiver state); `none` = not a pure op -/
def pureOp (st : St) (ws : List String) : Option (St × List String) :=
  match ws with
  | ["cls", n] =>
    let c : Byte := UInt8.ofNat (natOf n)
    some (st, [s!"cls {natOf n} blank={b2s (isBlank c)} eol={b2s (isEol c)} upper={b2s (isUpper c)} alpha={b2s (isAlpha c)} digit={b2s (isDigit c)} alnum={b2s (isAlnum c)} xdigit={b2s (isXDigit c)} cntrl={b2s (isCntrl c)} space={b2s (isSpace c)} lower={(toLower c).toNat} sep={b2s (isSeparator c)} token={b2s (isToken c)}"])
  | ["fromhex", h] => (unhex h).map fun b => (st, [toString (fromHexString b)])
  | ["fromdec", h] => (unhex h).map fun b => (st, [toString (fromDecString b)])
  | ["tohex", n] => some (st, [hexOf (toHexString (natOf n))])
  | ["todec", n] => some (st, [hexOf (toDecString (natOf n))])
  | ["split", h, d] => (unhex h).map fun b =>
      (st, [String.intercalate "|" ((Router.split b (UInt8.ofNat (natOf d))).map hexOf)])
  | ["splitdet", h] => (unhex h).map fun b =>
      (st, [s!"split={b2s (areHeadersSplit b)} valid={b2s (headersValid b)}"])
  | ["uri", h] => (unhex h).map fun b =>
      let u := Router.parseUri b
      (st, [s!"path={hexOf u.path} query={hexOf u.query} frag={hexOf u.fragment}"])
  | ["params", u, r] => do
      let u ← unhex u
      let r ← unhex r
      match findByte 58 r with
      | some p => if p > u.length then pure (st, ["throw"]) else pure (st, [pairsOut (Router.getRouteParameters u r)])
      | none => pure (st, [pairsOut (Router.getRouteParameters u r)])
  | ["rt-new"] => some ({ st with router := some [] }, ["ok"])
  | ["rt-add", m, p, hid, aid] => do
      let m ← unhex m
      let p ← unhex p
      let routes ← st.router
      let auth := if aid.startsWith "-" then none else some (natOf aid)
      let isNew := !(routes.any fun r => r.path == Router.cstr p)
      pure ({ st with router := some (Router.addMethod routes m p { handler := natOf hid, auth := auth }) },
            [if isNew then "new" else "old"])
  | ["rt-req", m, t, mask] => do
      let m ← unhex m
      let t ← unhex t
      let routes ← st.router
      let mk := natOf mask
      let line := match Router.handleRequest routes (fun a => (mk >>> a) % 2 == 1) m t with
        | .notFound => "404"
        | .methodNotAllowed allow => s!"405 allow={hexOf allow}"
        | .unauthorised a => s!"401 chal={hexOf (str ("T" ++ toString a))}"
        | .handler id ps => s!"handler H{id} {pairsOut ps}"
      pure (st, [line])
  | ["b64e", h] => (unhex h).map fun b => (st, [hexOf (Auth.encode b)])
  | ["b64d", h] => (unhex h).map fun b => (st, [hexOf (Auth.decode b)])
  | ["b64rt", h] => (unhex h).map fun b =>
      (st, [s!"enc={hexOf (Auth.encode b)} dec={hexOf (Auth.decode (Auth.encode b))}"])
  | "auth" :: realm :: n :: rest => do
      let realm ← unhex realm
      let n := natOf n
      let rec tbl : Nat → List String → Option (Auth.Table × List String)
        | 0, r => some ([], r)
        | k + 1, u :: p :: r => do
          let u ← unhex u
          let p ← unhex p
          let (t, r') ← tbl k r
          pure ((u, p) :: t, r')
        | _, _ => none
      let (table, rest') ← tbl n rest
      let hdr ← match rest' with
        | ["none"] => some none
        | [h] => (unhex h).map some
        | _ => none
      pure (st, [s!"chal={hexOf (Auth.authenticate table realm hdr)}"])
  | ["hm-new", n, mode] =>
      let n := natOf n
      let n := if n == 1 then 1 else if n == 3 then 3 else 19
      some ({ st with hm := some (HM.Map.empty n (hashFn (natOf mode))) }, ["ok"])
  | ["hm-ins", k, v] => st.hm.map fun m => ({ st with hm := some (m.insert (natOf k) (v.toInt?.getD 0)) }, ["ok"])
  | ["hm-erase", k] => st.hm.map fun m => ({ st with hm := some (m.erase (natOf k)) }, ["ok"])
  | ["hm-find", k] => st.hm.map fun m =>
      (st, [match m.find (natOf k) with | some (k, v) => s!"{k}={v}" | none => "none"])
  | ["hm-empty"] => st.hm.map fun m => (st, [b2s m.isEmpty])
  | ["hm-data"] => st.hm.map fun m => (st, [kvOut m.data])
  | ["hm-clear"] => st.hm.map fun m => ({ st with hm := some m.clear }, ["ok"])
  | "encreq" :: rest => do
      let v ← unhex (argOf rest "v" "3131")
      let u ← unhex (argOf rest "u" "-")
      let hs ← unhex (argOf rest "hs" "-")
      let mid := argOf rest "mid"
      let m ← if mid != "" then some (Enc.methodName (natOf mid)) else unhex (argOf rest "m" "-")
      let hs1 ← addIds hs (argOf rest "addid" "-")
      let hs2 ← addNamed hs1 (argOf rest "add" "-")
      pure (st, [hexOf (Enc.txRequestMessage m u (v.getD 0 0) (v.getD 1 0) hs2 (natOf (argOf rest "cl" "0")))])
  | "encresp" :: rest => do
      let v ← unhex (argOf rest "v" "3131")
      let hs ← unhex (argOf rest "hs" "-")
      let stt : Int := (argOf rest "st" "200").toInt?.getD 200
      let rs := argOf rest "rs" "default"
      let reason ← if rs == "default" then some (Enc.reasonPhrase stt) else
        (unhex rs).map fun r => if r.isEmpty then Enc.reasonPhrase stt else r
      let hs1 ← addIds hs (argOf rest "addid" "-")
      let hs2 ← addNamed hs1 (argOf rest "add" "-")
      pure (st, [s!"valid={b2s (headersValid hs2)} msg={hexOf (Enc.txResponseMessage (v.getD 0 0) (v.getD 1 0) stt reason hs2 (natOf (argOf rest "cl" "0")))}"])
  | ["chunkhdr", n, e] => (unhex e).map fun e => (st, [hexOf (Enc.chunkHeader (natOf n) e)])
  | ["chunkhdr-set", n, e] => (unhex e).map fun e => (st, [hexOf (Enc.chunkHeader (natOf n) e)])
  | ["chunkhdr-set", n, e, _, _] => (unhex e).map fun e => (st, [hexOf (Enc.chunkHeader (natOf n) e)])
  | ["lastchunk", e, t] => do
      let e ← unhex e
      let t ← unhex t
      pure (st, [hexOf (Enc.lastChunk e t)])
  | ["hdrname", n] => some (st, [s!"std={hexOf (Enc.standardName (natOf n))} lc={hexOf (Enc.lowercaseName (natOf n))}"])
  | ["reason", n] =>
      let i : Int := n.toInt?.getD 0
      some (st, [s!"reason={hexOf (Enc.reasonPhrase i)} content={b2s (Enc.contentPermitted i)}"])
  | ["method", n] => some (st, [hexOf (Enc.methodName (natOf n))])
  | _ => none

def stepLine (st : St) (line : String) : St × List String :=
  let ws := (line.splitOn " ").filter (· != "")
  match ws with
  | [] => (st, [])
  | ["case", id] =>
    -- the harness prints `end` after the last operation of a simulation case
    let fin := match st.sim with
      | some w => ["end"] ++ (if w.sendWhileTransmitting then ["kf send-while-transmitting"] else [])
      | none => []
    ({}, fin ++ [s!"case {id}"])
  | "server" :: rest =>
    match st.sim with
    | some w => ({ st with sim := some w }, ["bad-op", ";"])
    | none =>
      let w := Sim.mkServer rest
      ({ st with sim := some { w with out := [] } }, w.out.reverse ++ [";"])
  | _ =>
    match st.sim with
    | some w =>
      let w' := Sim.simOp { w with out := [] } ws
      ({ st with sim := some { w' with out := [] } }, w'.out.reverse ++ [";"])
    | none =>
      match rxOp st ws with
      | some r => r
      | none =>
        match pureOp st ws with
        | some r => r
        | none => (st, ["bad-op"])

partial def loop (h : IO.FS.Stream) (out : IO.FS.Stream) (st : St) : IO Unit := do
  let line ← h.getLine
  if line.isEmpty then
    match st.sim with
    | some w =>
      out.putStrLn "end"
      if w.sendWhileTransmitting then out.putStrLn "kf send-while-transmitting"
    | none => pure ()
    return ()
  let line := line.trimAscii.toString
  if line.isEmpty || line.startsWith "#" then
    loop h out st
  else
    let (st', outs) := stepLine st line
    for o in outs do out.putStrLn o
    loop h out st'

end Via.Driver
