import ViaModel.Bytes
import ViaModel.Num
import ViaModel.SplitDetect
import ViaModel.Generated
/-
  The encoders: `http_version`, `header_field::to_header / content_length / chunked_encoding`,
  `request_line::to_string`, `tx_request::message`, `response_line::to_string`,
  `tx_response::message`, `chunk_header::to_string`, `last_chunk::to_string`.
  String tables come from `Generated.lean` (re-extracted from the headers on every run).
-/
namespace Via.Enc

def crlf : Bytes := Gen.cCRLF

/-- `http_version(major, minor)` -/
def httpVersion (maj min : Byte) : Bytes := (b!"HTTP/") ++ [maj] ++ (b!".") ++ [min]

/-- `header_field::to_header(name, value)` -/
def toHeader (name value : Bytes) : Bytes := name ++ Gen.cSEPARATOR ++ value ++ crlf

def standardName (id : Nat) : Bytes := match Gen.headerNames[id]? with | some (s, _) => s | none => []
def lowercaseName (id : Nat) : Bytes := match Gen.headerNames[id]? with | some (_, l) => l | none => []

/-- `header_field::to_header(id, value)` -/
def toHeaderId (id : Nat) (value : Bytes) : Bytes := toHeader (standardName id) value

/-- `header_field::content_length(size)` -/
def contentLengthHeader (n : Nat) : Bytes :=
  Gen.cHEADER_CONTENT_LENGTH ++ Gen.cSEPARATOR ++ toDecString n ++ crlf

/-- `header_field::chunked_encoding()` -/
def chunkedEncodingHeader : Bytes :=
  Gen.cHEADER_TRANSFER_ENCODING ++ Gen.cSEPARATOR ++ Gen.cCHUNKED ++ crlf

def reasonPhrase (status : Int) : Bytes :=
  match Gen.reasonPhrases.find? (fun p => (p.1 : Int) == status) with
  | some (_, r) => r
  | none => []

/-- `response_status::content_permitted` -/
def contentPermitted (status : Int) : Bool :=
  status ≥ (Gen.contentPermittedFrom : Int) && Gen.contentNotPermitted.all (fun n => status != (n : Int))

def methodName (id : Nat) : Bytes := match Gen.methodNames[id]? with | some s => s | none => []

/-- `request_line::to_string` -/
def requestLine (method uri : Bytes) (maj min : Byte) : Bytes :=
  method ++ [32] ++ uri ++ [32] ++ httpVersion maj min ++ crlf

/-- does the message still need a Content-Length header (substring search on the header string) -/
def needsContentLength (hs : Bytes) : Bool :=
  !containsSub Gen.cHEADER_CONTENT_LENGTH hs && !containsSub Gen.cHEADER_TRANSFER_ENCODING hs

/-- `tx_request::message(content_length)` -/
def txRequestMessage (method uri : Bytes) (maj min : Byte) (hs : Bytes) (cl : Nat) : Bytes :=
  requestLine method uri maj min ++ hs ++
    (if needsContentLength hs then contentLengthHeader cl else []) ++ crlf

/-- `response_line::to_string` -/
def responseLine (maj min : Byte) (status : Int) (reason : Bytes) : Bytes :=
  httpVersion maj min ++ [32] ++ intToDecString status ++ [32] ++ reason ++ crlf

/-- `tx_response::message(content_length)` -/
def txResponseMessage (maj min : Byte) (status : Int) (reason hs : Bytes) (cl : Nat) : Bytes :=
  responseLine maj min status reason ++ hs ++
    (if needsContentLength hs && contentPermitted status then contentLengthHeader cl else []) ++ crlf

/-- `chunk_header::to_string` (encoding constructor: hex size, optional "; extension") -/
def chunkHeader (size : Nat) (ext : Bytes) : Bytes :=
  toHexString size ++ (if ext.isEmpty then [] else (b!"; ") ++ ext) ++ crlf

/-- `last_chunk::to_string` -/
def lastChunk (ext trailers : Bytes) : Bytes :=
  (b!"0") ++ (if ext.isEmpty then [] else (b!"; ") ++ ext) ++ crlf ++ trailers ++ crlf

end Via.Enc
