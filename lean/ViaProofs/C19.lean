import ViaProofs.ConnLemmas
import ViaProofs.C09
import ViaProofs.ConnWrites
/-
  C19 — over TLS: same guarantees, orderly close_notify, server survives every close.

  The adaptor flavour is a parameter of the model (`Opts.flavour`), not a second model: every theorem about the
  connection layer (C03, C09, C10, C11, C14) is stated for all worlds and therefore holds for the ssl flavour
  (asynchronous handshake; `shutdown` = cancel pending operations + asynchronous close_notify).  Specific to it:
  * `C19_invariant`            the lifecycle / retention invariant after every history with `flavour=ssl`;
  * `C19_close_notify_after_write`  the library issues the TLS shutdown (close_notify) for a finished response only
                               from the completion of that response's write (C09) — never while it is in flight;
  * `C19_shutdown_keeps_socket_open` in the ssl flavour `shutdown` does not close the socket: close follows only
                               after the shutdown completion has been handled (close_notify precedes close).
  OpenSSL / asio behaviour is modelled by the adaptor contract, not verified; the thorough tier validates it on
  real TLS loopback connections (clean close_notify vs truncation).
-/
namespace Via
open Sim

theorem C19_invariant (rest : List String) (history : List (List String)) :
    Inv (history.foldl simOp (mkServer ("flavour=ssl" :: rest))) ∧
    Settled (history.foldl simOp (mkServer ("flavour=ssl" :: rest))) :=
  history_inv _ history

theorem C19_close_notify_after_write (fuel : Nat) (w : World) (i : Nat) (h : (w.get i).transmitting = true) :
    disconnectConn (fuel + 1) w i = w.upd i fun c => { c with disconnectPending := true } :=
  disconnect_defers fuel w i h

/-- TRACE LEVEL, TLS flavour: after every history a stored (asynchronous) shutdown completion belongs to a connection
    whose `shutdown_sent_` is set — so its completion only signals DISCONNECTED, it can never be mistaken for the
    completion of a response write — and a connection that is not transmitting has no write in flight, so the
    close_notify requested by `disconnect()` is never issued over a response still being written. -/
theorem C19_close_notify_ordering (rest : List String) (history : List (List String)) (i : Nat) :
    let w := history.foldl simOp (mkServer ("flavour=ssl" :: rest))
    ((w.get i).shutStored = true → (w.get i).shutdownSent = true) ∧
    ((w.get i).transmitting = false → (w.get i).writes = []) := by
  intro w
  exact ⟨(winv_get (history_winv _ history) i).2.2, (C09_no_truncation _ history i).2⟩

/-- ssl flavour: `shutdown` emits the close_notify request, cancels the pending operations and leaves the socket
    open; nothing else changes -/
theorem C19_shutdown_keeps_socket_open (fuel : Nat) (w : World) (i : Nat) (hf : w.opts.flavour = .ssl)
    (hi : i < w.conns.length) :
    ((shutdownConn (fuel + 1) w i).get i).sockOpen = (w.get i).sockOpen ∧
    ((shutdownConn (fuel + 1) w i).get i).shutStored = true ∧
    ((shutdownConn (fuel + 1) w i).get i).shutdownSent = true := by
  unfold shutdownConn
  have hopts : ((w.upd i fun c => { c with shutdownSent := true }).emit s!"io shutdown {cn i}").opts = w.opts := rfl
  simp only [hopts, hf]
  simp [World.get, World.upd, World.emit, dropPendingIo, List.getD_eq_getElem?_getD, List.getElem?_modify, hi]

end Via
