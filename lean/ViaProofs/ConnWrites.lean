import ViaProofs.ConnLemmas
/-
  A second history invariant of the connection-layer model, about the WRITE side (C09 / C19 / C03):

    `WConn c` :  at most one write is in flight per connection,
                 a write in flight implies `transmitting_`,
                 a stored (asynchronous, TLS) shutdown completion implies `shutdown_sent_`.

  It is preserved by every function of the mutual block of `Conn.lean` for EVERY amount of fuel (simultaneous
  induction on the fuel), by every script operation, and therefore holds after every history (`history_winv`).
  Consequences used by C09 / C19: `disconnect()` — which shuts the connection down only when `transmitting_` is
  false — never finds a write in flight, and when the completion of a write performs the pending shutdown, that
  write was the only one in flight.
-/
namespace Via.Sim
open Via

def WConn (c : Conn) : Prop :=
  c.writes.length ≤ 1 ∧ (c.writes ≠ [] → c.transmitting = true) ∧ (c.shutStored = true → c.shutdownSent = true)

def WInv (w : World) : Prop := ∀ c ∈ w.conns, WConn c

theorem wconn_default : WConn ({} : Conn) := by simp [WConn]

theorem winv_get {w : World} (h : WInv w) (i : Nat) : WConn (w.get i) := by
  rcases aux_get_mem_or w i with h1 | h1
  · exact h _ h1
  · rw [h1]; exact wconn_default

theorem winv_upd {w : World} {i : Nat} {f : Conn → Conn} (h : WInv w)
    (hf : i < w.conns.length → WConn (f (w.get i))) : WInv (w.upd i f) := by
  intro c hc
  rcases aux_mem_upd _ _ _ _ hc with h1 | ⟨h1, rfl⟩
  · exact h c h1
  · exact hf h1

theorem winv_upd_frame {w : World} {i : Nat} {f : Conn → Conn} (hf : ∀ c, WConn c → WConn (f c))
    (h : WInv w) : WInv (w.upd i f) :=
  winv_upd h (fun _ => hf _ (winv_get h i))

theorem winv_emit {w : World} {s : String} (h : WInv w) : WInv (w.emit s) := h

theorem winv_conns {w w' : World} (hc : w'.conns = w.conns) (h : WInv w) : WInv w' := by
  unfold WInv; rw [hc]; exact h

theorem winv_map {w : World} {g : Conn → Conn} (hg : ∀ c, WConn c → WConn (g c)) (h : WInv w) :
    WInv { w with conns := w.conns.map g } := by
  intro c hc
  simp only [List.mem_map] at hc
  obtain ⟨d, hd, rfl⟩ := hc
  exact hg d (h d hd)

/-- propagation tactic: peel updates that do not touch the write-side fields, emits and conditionals -/
syntax "winv_step" : tactic
macro_rules | `(tactic| winv_step) => `(tactic| ((with_reducible refine winv_upd_frame ?hframe ?_); case hframe => exact fun _ h => h))
macro_rules | `(tactic| winv_step) => `(tactic| with_reducible refine winv_emit ?_)
macro_rules | `(tactic| winv_step) => `(tactic| with_reducible assumption)
macro "winv_auto" : tactic => `(tactic| repeat' (first | winv_step | split))

theorem winv_noteEvent {w : World} (i : Nat) (h : WInv w) : WInv (w.noteEvent i) := by
  unfold World.noteEvent
  exact winv_upd_frame (fun _ hc => hc) h
macro_rules | `(tactic| winv_step) => `(tactic| with_reducible refine winv_noteEvent _ ?_)

theorem wconn_drop {c : Conn} (h : WConn c) : WConn (dropPendingIo c) := by
  obtain ⟨_, _, h3⟩ := h
  exact ⟨by simp [dropPendingIo], by simp [dropPendingIo], h3⟩

theorem winv_sendData {w : World} (i : Nat) (bufs : List Buf) (h : WInv w) : WInv (sendData w i bufs).1 := by
  unfold sendData
  simp only []
  split
  · exact h
  · next ht =>
    split
    · refine winv_emit (winv_upd h fun _ => ?_)
      obtain ⟨h1, h2, h3⟩ := winv_get h i
      have hw : (w.get i).writes = [] := by
        cases hw : (w.get i).writes with
        | nil => rfl
        | cons a l => exact absurd (h2 (by simp [hw])) ht
      exact ⟨by simp [hw], by simp, h3⟩
    · exact h
macro_rules | `(tactic| winv_step) => `(tactic| with_reducible refine winv_sendData _ _ ?_)

theorem winv_closeConn {w : World} (i : Nat) (h : WInv w) : WInv (closeConn w i) := by
  unfold closeConn
  simp only []
  split
  · exact h
  · refine winv_upd_frame (fun c hc => ?_) (winv_emit h)
    obtain ⟨h1, h2, _⟩ := wconn_drop hc
    exact ⟨h1, h2, by simp⟩
macro_rules | `(tactic| winv_step) => `(tactic| with_reducible refine winv_closeConn _ ?_)

theorem winv_enableReception {w : World} (i : Nat) (h : WInv w) : WInv (enableReception w i) := by
  unfold enableReception
  winv_auto
macro_rules | `(tactic| winv_step) => `(tactic| with_reducible refine winv_enableReception _ ?_)

theorem winv_serverClose (fuel : Nat) (w : World) (b : Bool) (h : WInv w) : WInv (serverClose fuel w b) := by
  cases fuel with
  | zero => simpa [serverClose] using h
  | succ n =>
    simp only [serverClose]
    intro c hc
    have key : ∀ c, c ∈ (w.conns.map fun c => { c with inHttp := false }) → WConn c := by
      intro c hc; obtain ⟨d, hd, rfl⟩ := List.mem_map.1 hc; exact h d hd
    cases b <;> simp only [Bool.false_eq_true, if_true, if_false] at hc <;> split at hc <;>
      (obtain ⟨d, hd, rfl⟩ := List.mem_map.1 hc; first | exact h d hd | exact key d hd)
macro_rules | `(tactic| winv_step) => `(tactic| with_reducible refine winv_serverClose _ _ _ ?_)

/-! ### the mutual block, by simultaneous induction on the fuel -/

/-- when `write_callback` may clear `transmitting_`: nothing else is in flight, or it is not a successful completion,
    or the shutdown has been sent (then it only signals DISCONNECTED) -/
def WcbPre (w : World) (i : Nat) (err : Option Err) : Prop :=
  (w.get i).writes = [] ∨ err.isSome = true ∨ (w.get i).shutdownSent = true

structure Pres (fuel : Nat) : Prop where
  shutdown : ∀ w i, WInv w → WInv (shutdownConn fuel w i)
  disconnect : ∀ w i, WInv w → WInv (disconnectConn fuel w i)
  writeCb : ∀ w i err, WInv w → WcbPre w i err → WInv (writeCallback fuel w i err)
  seod : ∀ w i e, WInv w → WInv (signalErrorOrDisconnect fuel w i e)
  commsEv : ∀ w i ev, WInv w → WInv (commsEvent fuel w i ev)
  httpEv : ∀ w i ev, WInv w → WInv (httpEvent fuel w i ev)
  sendTail : ∀ w i bufs b, WInv w → WInv (httpSendTail fuel w i bufs b).1
  send : ∀ w i st r hs body ovl, WInv w → WInv (httpSend fuel w i st r hs body ovl).1
  sendResp : ∀ w i, WInv w → WInv (httpSendResponse fuel w i).1
  sendPlain : ∀ w i bufs, WInv w → WInv (httpSendPlain fuel w i bufs).1
  sendChunk : ∀ w i d ext b, WInv w → WInv (httpSendChunk fuel w i d ext b).1
  lastChunk : ∀ w i ext tr, WInv w → WInv (httpLastChunk fuel w i ext tr).1

theorem pres_zero : Pres 0 := by
  constructor <;> intros <;> simp only [shutdownConn, disconnectConn, writeCallback, signalErrorOrDisconnect, commsEvent,
    httpEvent, httpSendTail, httpSend, httpSendResponse, httpSendPlain, httpSendChunk, httpLastChunk] <;> assumption

/-- steps through calls into the mutual block at the smaller fuel, using the induction hypothesis in the context -/
syntax "winv_ih" : tactic
macro_rules | `(tactic| winv_ih) => `(tactic| first
  | with_reducible refine Pres.shutdown ‹Pres _› _ _ ?_
  | with_reducible refine Pres.disconnect ‹Pres _› _ _ ?_
  | with_reducible refine Pres.seod ‹Pres _› _ _ _ ?_
  | with_reducible refine Pres.commsEv ‹Pres _› _ _ _ ?_
  | with_reducible refine Pres.httpEv ‹Pres _› _ _ _ ?_
  | with_reducible refine Pres.sendTail ‹Pres _› _ _ _ _ ?_
  | with_reducible refine Pres.send ‹Pres _› _ _ _ _ _ _ _ ?_
  | with_reducible refine Pres.sendResp ‹Pres _› _ _ ?_
  | with_reducible refine Pres.sendPlain ‹Pres _› _ _ _ ?_
  | with_reducible refine Pres.sendChunk ‹Pres _› _ _ _ _ _ ?_
  | with_reducible refine Pres.lastChunk ‹Pres _› _ _ _ _ ?_)
macro "winv_auto'" : tactic => `(tactic| repeat' (first | winv_step | winv_ih | split))

theorem pres_succ (n : Nat) (ih : Pres n) : Pres (n + 1) := by
  refine ⟨?_, ?_, ?_, ?_, ?_, ?_, ?_, ?_, ?_, ?_, ?_, ?_⟩
  · -- shutdownConn
    intro w i h
    simp only [shutdownConn]
    have h1 : WInv ((w.upd i fun c => { c with shutdownSent := true }).emit s!"io shutdown {cn i}") := by
      refine winv_emit (winv_upd_frame (fun c hc => ?_) h)
      exact ⟨hc.1, hc.2.1, fun _ => rfl⟩
    split
    · exact ih.writeCb _ _ _ h1 (Or.inr (Or.inl rfl))
    · refine winv_upd h1 fun hi => ?_
      have hg := winv_get h1 i
      have hs : (((w.upd i fun c => { c with shutdownSent := true }).emit s!"io shutdown {cn i}").get i).shutdownSent = true := by
        rw [aux_get_emit]
        have hi' : i < w.conns.length := by simpa using hi
        rw [aux_get_upd_self _ _ _ hi']
      obtain ⟨a, b, _⟩ := wconn_drop hg
      exact ⟨a, b, fun _ => by simpa [dropPendingIo] using hs⟩
  · -- disconnectConn
    intro w i h
    simp only [disconnectConn]
    winv_auto'
  · -- writeCallback
    intro w i err h hpre
    simp only [writeCallback]
    split
    · exact h
    · split
      · exact ih.commsEv _ _ _ h
      · next hss =>
        split
        · exact ih.seod _ _ _ h
        · split
          · exact ih.shutdown _ _ h
          · refine ih.commsEv _ _ _ (winv_upd h fun _ => ?_)
            obtain ⟨h1, h2, h3⟩ := winv_get h i
            have hw : (w.get i).writes = [] := by
              rcases hpre with hp | hp | hp
              · exact hp
              · simp at hp
              · simp [hp] at hss
            exact ⟨by simp [hw], by simp [hw], h3⟩
  · -- signalErrorOrDisconnect
    intro w i e h
    simp only [signalErrorOrDisconnect]
    winv_auto'
  · -- commsEvent
    intro w i ev h
    simp only [commsEvent]
    winv_auto'
  · -- httpEvent
    intro w i ev h
    simp only [httpEvent]
    winv_auto'
  · -- httpSendTail
    intro w i bufs b h
    simp only [httpSendTail]
    winv_auto'
  · -- httpSend
    intro w i st r hs body ovl h
    simp only [httpSend]
    winv_auto'
  · -- httpSendResponse
    intro w i h
    simp only [httpSendResponse]
    winv_auto'
  · -- httpSendPlain
    intro w i bufs h
    simp only [httpSendPlain]
    winv_auto'
  · -- httpSendChunk
    intro w i d ext b h
    simp only [httpSendChunk]
    winv_auto'
  · -- httpLastChunk
    intro w i ext tr h
    simp only [httpLastChunk]
    winv_auto'

theorem pres_all : ∀ fuel, Pres fuel
  | 0 => pres_zero
  | n + 1 => pres_succ n (pres_all n)

/-! ### the functions outside the mutual block -/

theorem winv_shutdown (fuel : Nat) {w : World} (i : Nat) (h : WInv w) : WInv (shutdownConn fuel w i) := (pres_all fuel).shutdown w i h
theorem winv_disconnect (fuel : Nat) {w : World} (i : Nat) (h : WInv w) : WInv (disconnectConn fuel w i) := (pres_all fuel).disconnect w i h
theorem winv_writeCallback (fuel : Nat) {w : World} (i : Nat) (err : Option Err) (h : WInv w) (hp : WcbPre w i err) :
    WInv (writeCallback fuel w i err) := (pres_all fuel).writeCb w i err h hp
theorem winv_seod (fuel : Nat) {w : World} (i : Nat) (e : Err) (h : WInv w) : WInv (signalErrorOrDisconnect fuel w i e) := (pres_all fuel).seod w i e h
theorem winv_commsEvent (fuel : Nat) {w : World} (i ev : Nat) (h : WInv w) : WInv (commsEvent fuel w i ev) := (pres_all fuel).commsEv w i ev h
theorem winv_httpSend (fuel : Nat) {w : World} (i : Nat) (st : Int) (r hs body : Bytes) (ovl : Nat) (h : WInv w) :
    WInv (httpSend fuel w i st r hs body ovl).1 := (pres_all fuel).send w i st r hs body ovl h
theorem winv_sendResponse (fuel : Nat) {w : World} (i : Nat) (h : WInv w) : WInv (httpSendResponse fuel w i).1 := (pres_all fuel).sendResp w i h
theorem winv_sendChunk (fuel : Nat) {w : World} (i : Nat) (d ext : Bytes) (b : Bool) (h : WInv w) :
    WInv (httpSendChunk fuel w i d ext b).1 := (pres_all fuel).sendChunk w i d ext b h
theorem winv_lastChunk (fuel : Nat) {w : World} (i : Nat) (ext tr : Bytes) (h : WInv w) :
    WInv (httpLastChunk fuel w i ext tr).1 := (pres_all fuel).lastChunk w i ext tr h

macro_rules | `(tactic| winv_step) => `(tactic| with_reducible refine winv_shutdown _ _ ?_)
macro_rules | `(tactic| winv_step) => `(tactic| with_reducible refine winv_disconnect _ _ ?_)
macro_rules | `(tactic| winv_step) => `(tactic| with_reducible refine winv_seod _ _ _ ?_)
macro_rules | `(tactic| winv_step) => `(tactic| with_reducible refine winv_commsEvent _ _ _ ?_)
macro_rules | `(tactic| winv_step) => `(tactic| with_reducible refine winv_httpSend _ _ _ _ _ _ _ ?_)
macro_rules | `(tactic| winv_step) => `(tactic| with_reducible refine winv_sendResponse _ _ ?_)
macro_rules | `(tactic| winv_step) => `(tactic| with_reducible refine winv_sendChunk _ _ _ _ _ ?_)
macro_rules | `(tactic| winv_step) => `(tactic| with_reducible refine winv_lastChunk _ _ _ _ ?_)

theorem winv_appAnswer (fuel : Nat) {w : World} (i : Nat) (h : WInv w) : WInv (appAnswer fuel w i) := by
  unfold appAnswer
  simp only []
  winv_auto
macro_rules | `(tactic| winv_step) => `(tactic| with_reducible refine winv_appAnswer _ _ ?_)

theorem winv_routeRequest (fuel : Nat) {w : World} (i : Nat) (h : WInv w) : WInv (routeRequest fuel w i) := by
  unfold routeRequest
  simp only []
  winv_auto
macro_rules | `(tactic| winv_step) => `(tactic| with_reducible refine winv_routeRequest _ _ ?_)

theorem winv_requestHandler (fuel : Nat) {w : World} (i : Nat) (h : WInv w) : WInv (requestHandler fuel w i) := by
  unfold requestHandler
  simp only []
  split
  · winv_auto
  · have h1 : WInv { ((w.noteEvent i).emit s!"ev request {cn i} {reqFields (w.get i).rx}") with
        k := ((w.noteEvent i).emit s!"ev request {cn i} {reqFields (w.get i).rx}").k + 1 } := winv_noteEvent i h
    winv_auto
macro_rules | `(tactic| winv_step) => `(tactic| with_reducible refine winv_requestHandler _ _ ?_)

theorem winv_receiveLoop (fuel i : Nat) (n : Nat) : ∀ (w : World) (buf : Bytes), WInv w → WInv (receiveLoop fuel w i n buf) := by
  induction n with
  | zero => intro w buf h; simpa [receiveLoop] using h
  | succ n ih =>
    intro w buf h
    simp only [receiveLoop]
    split
    · exact h
    · repeat' (first | winv_step | (with_reducible refine ih _ _ ?_) | split)
macro_rules | `(tactic| winv_step) => `(tactic| with_reducible refine winv_receiveLoop _ _ _ _ _ ?_)

theorem winv_readCallback {w : World} (i : Nat) (err : Option Err) (data : Bytes) (h : WInv w) :
    WInv (readCallback w i err data) := by
  unfold readCallback
  simp only []
  winv_auto
macro_rules | `(tactic| winv_step) => `(tactic| with_reducible refine winv_readCallback _ _ _ ?_)

theorem winv_handshake {w : World} (i : Nat) (ok : Bool) (h : WInv w) : WInv (handshakeCallback w i ok) := by
  unfold handshakeCallback
  simp only []
  winv_auto
macro_rules | `(tactic| winv_step) => `(tactic| with_reducible refine winv_handshake _ _ ?_)

theorem winv_gcOne {w : World} (i : Nat) (h : WInv w) : WInv (gcOne w i) := by
  unfold gcOne
  simp only []
  winv_auto

theorem winv_gc {w : World} (h : WInv w) : WInv (gc w) := by
  unfold gc
  exact aux_foldl_pres WInv gcOne (fun b a hb => winv_gcOne a hb) _ w h
macro_rules | `(tactic| winv_step) => `(tactic| with_reducible refine winv_gc ?_)

/-! ### script operations -/

/-- popping the write in flight leaves nothing in flight (at most one write is ever in flight) -/
theorem wconn_pop {c : Conn} {bufs : List Buf} {rest : List (List Buf)} (h : WConn c) (hw : c.writes = bufs :: rest) :
    rest = [] ∧ WConn { c with writes := rest } := by
  obtain ⟨h1, h2, h3⟩ := h
  have hr : rest = [] := by
    rw [hw] at h1
    simp only [List.length_cons] at h1
    exact List.eq_nil_of_length_eq_zero (by omega)
  exact ⟨hr, by simp [hr], by simp [hr], h3⟩

theorem winv_opCompletion {w : World} (op : String) (i : Nat) (arg : String) (h : WInv w) :
    WInv (opCompletion w op i arg) := by
  unfold opCompletion notPending
  simp only []
  split
  · -- hs
    winv_auto
  · -- read
    winv_auto
  · -- rderr
    winv_auto
  · -- wdone
    split
    · winv_auto
    · next bufs rest hw =>
      have hlive : (w.get i).writes = bufs :: rest := by
        split at hw
        · exact hw
        · cases hw
      obtain ⟨hr, hc⟩ := wconn_pop (winv_get h i) hlive
      refine winv_gc (winv_writeCallback _ _ _ (winv_emit (winv_upd h fun _ => hc)) ?_)
      left
      rw [aux_get_emit]
      by_cases hi : i < w.conns.length
      · rw [aux_get_upd_self _ _ _ hi]; exact hr
      · rw [aux_upd_oob _ _ _ (Nat.le_of_not_lt hi), aux_get_oob _ _ (Nat.le_of_not_lt hi)]
  · -- werr
    split
    · winv_auto
    · split
      · winv_auto
      · next e _ _ rest hw =>
        have hlive : ∃ b, (w.get i).writes = b :: rest := by
          split at hw
          · exact ⟨_, hw⟩
          · cases hw
        obtain ⟨b, hb⟩ := hlive
        obtain ⟨hr, hc⟩ := wconn_pop (winv_get h i) hb
        exact winv_gc (winv_writeCallback _ _ _ (winv_upd h fun _ => hc) (Or.inr (Or.inl rfl)))
  · -- shutdone
    split
    · winv_auto
    · split
      · winv_auto
      · next hlive =>
        refine winv_gc (winv_writeCallback _ _ _ (winv_upd_frame (fun c hc => ⟨hc.1, hc.2.1, fun hh => by simp at hh⟩) h) ?_)
        right; right
        simp only [Bool.not_eq_true', Bool.not_eq_false, Bool.and_eq_true, decide_eq_true_eq] at hlive
        have hi : i < w.conns.length := hlive.1.1
        rw [aux_get_upd_self _ _ _ hi]
        exact (winv_get h i).2.2 hlive.2
  · -- late
    winv_auto
  · winv_auto

theorem winv_opApp {w : World} (op : String) (i : Nat) (ws : List String) (h : WInv w) : WInv (opApp w op i ws) := by
  unfold opApp
  simp only []
  winv_auto

theorem winv_opSrvShutdown {w : World} (h : WInv w) : WInv (opSrvShutdown w) := by
  unfold opSrvShutdown
  simp only []
  split
  · apply aux_foldl_pres WInv
    · intro b a hb
      winv_auto
    · exact h
  · winv_auto

theorem winv_opAccept {w : World} (ws : List String) (h : WInv w) : WInv (opAccept w ws) := by
  unfold opAccept
  simp only []
  split
  · exact h
  split
  · exact h
  have h1 : WInv (if (w.opts.filter != 0) = true then { w with filterCalls := w.filterCalls + 1 } else w) := by
    split <;> exact h
  generalize (if (w.opts.filter != 0) = true then { w with filterCalls := w.filterCalls + 1 } else w) = w1 at h1 ⊢
  split
  · exact h1
  refine winv_emit (winv_gc ?_)
  generalize hnc : ({ hsFail := (argOf ws "hs" "ok" == "fail") && w1.opts.flavour == .tcp } : Conn) = nc
  have hcis : WConn nc := by subst hnc; simp [WConn]
  have h2 : WInv { w1 with conns := w1.conns ++ [nc] } := by
    intro c hc
    rcases List.mem_append.1 hc with hc | hc
    · exact h1 c hc
    · rw [List.mem_singleton.1 hc]; exact hcis
  split
  · exact winv_handshake _ _ h2
  · winv_auto

theorem winv_mkServer (ws : List String) : WInv (mkServer ws) := by
  have : (mkServer ws).conns = [] := rfl
  intro c hc; rw [this] at hc; cases hc

theorem winv_simOp {w : World} (ws : List String) (h : WInv w) : WInv (simOp w ws) := by
  unfold simOp opState
  split
  case h_6 =>
    split
    · exact winv_conns rfl (winv_gc (winv_serverClose _ _ _ h))
    · exact h
  all_goals
    repeat' (first
      | exact h
      | exact winv_opAccept _ h
      | exact winv_opCompletion _ _ _ h
      | exact winv_opApp _ _ _ h
      | exact winv_opSrvShutdown h
      | exact winv_gc (winv_serverClose _ _ _ h)
      | split)

/-- after EVERY history of script operations on a fresh server: on every connection at most one write is in flight, a
    write in flight implies `transmitting_`, a stored TLS shutdown completion implies `shutdown_sent_` -/
theorem history_winv (serverOptions : List String) (history : List (List String)) :
    WInv (history.foldl simOp (mkServer serverOptions)) :=
  aux_foldl_pres WInv simOp (fun _ ws h => winv_simOp ws h) history _ (winv_mkServer serverOptions)

end Via.Sim
