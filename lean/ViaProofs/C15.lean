import ViaProofs.Statements
import ViaModel.Conn
/-
  C15 — Expect: 100-continue is answered before the server waits for the body.

  Decision logic of `request_receiver::receive` after the head has been parsed (∀ configuration, state, buffer):
  * `C15_body_expect`    Content-Length framing: when the head was completed by this call, the announced body has
                         not fully arrived, the request is HTTP/1.1+ with a 100-continue expectation and no interim
                         response has been sent yet, the result is EXPECT_CONTINUE with the proposed status 100
                         (this is the repaired behaviour: before, only chunked requests were answered);
  * `C15_chunk_expect`   chunked framing: the same, whatever has arrived;
  * `C15_at_most_once`   once `continue_sent_` is set no further EXPECT_CONTINUE is reported for the request;
  * `C15_not_for_http10` never for HTTP/1.0 or earlier;
  * `C15_reset`          `clear()` resets the flag between requests;
  * `C15_continue_keeps_connection`  sending the interim 100 Continue never starts a disconnect, whatever the
                         request said about keep-alive (`http_connection::send(buffers, is_continue = true)`; the
                         condition is extracted from the source as `Gen.continueKeepsOpen`).
-/
namespace Via

theorem C15_body_expect (cfg : Cfg) (r : RR) (buf : Bytes)
    (ht : r.request.isTrace = false)
    (hcl0 : 0 < r.request.headers.contentLength) (hcl1 : r.request.headers.contentLength ≤ (cfg.maxContent : Int))
    (hshort : (buf.length : Int) < r.request.headers.contentLength)
    (hexp : r.request.expectContinue = true) (hcs : r.continueSent = false) :
    RR.receiveBody cfg r true buf = ({ r with code := 100 }, buf, .expectContinue) := by
  have h0 : ¬ r.request.headers.contentLength < 0 := by omega
  have h2 : ¬ r.request.headers.contentLength > (cfg.maxContent : Int) := by omega
  unfold RR.receiveBody
  simp [ht, h0, hcl0, h2, hshort, hexp, hcs]

theorem C15_chunk_expect (cfg : Cfg) (r : RR) (buf : Bytes)
    (hexp : r.request.expectContinue = true) (hcs : r.continueSent = false) :
    (RR.receiveChunk cfg r true buf).2.2 = .expectContinue ∧ (RR.receiveChunk cfg r true buf).2.1 = buf ∧
    (RR.receiveChunk cfg r true buf).1.code = 100 := by
  unfold RR.receiveChunk
  by_cases hv : r.chunk.valid = true <;> simp [hv, hexp, hcs]

theorem C15_at_most_once (cfg : Cfg) (r : RR) (p : Bool) (buf : Bytes) (hcs : r.continueSent = true) :
    (RR.receiveBody cfg r p buf).2.2 ≠ .expectContinue ∧ (RR.receiveChunk cfg r p buf).2.2 ≠ .expectContinue := by
  constructor
  · unfold RR.receiveBody
    by_cases ht : r.request.isTrace = true <;> by_cases h0 : (r.request.headers.contentLength == 0) = true <;>
      simp only [ht, h0, hcs, Bool.not_true, Bool.and_false, Bool.false_eq_true, ↓reduceIte] <;>
      (repeat' split) <;> simp
  · unfold RR.receiveChunk
    simp only [hcs, Bool.not_true, Bool.and_false, Bool.false_eq_true, ↓reduceIte]
    repeat' split
    all_goals simp_all

theorem C15_not_for_http10 (cfg : Cfg) (r : RR) (p : Bool) (buf : Bytes)
    (h10 : r.request.line.isHttp10OrEarlier = true) :
    (RR.receiveBody cfg r p buf).2.2 ≠ .expectContinue ∧ (RR.receiveChunk cfg r p buf).2.2 ≠ .expectContinue := by
  have he : r.request.expectContinue = false := by simp [RQ.expectContinue, h10]
  constructor
  · unfold RR.receiveBody
    by_cases ht : r.request.isTrace = true <;> by_cases h0 : (r.request.headers.contentLength == 0) = true <;>
      simp only [ht, h0, he, Bool.and_false, Bool.false_and, Bool.false_eq_true, ↓reduceIte] <;>
      (repeat' split) <;> simp
  · unfold RR.receiveChunk
    have he' : (if r.chunk.valid = true then { r with chunk := {} } else r).request.expectContinue = false := by
      split <;> simpa using he
    simp only [he', Bool.false_and, Bool.false_eq_true, ↓reduceIte]
    repeat' split
    all_goals simp_all

theorem C15_reset (r : RR) : r.clear.continueSent = false := rfl

/-- non-vacuity: a parsed request head with the expectation satisfies the hypotheses of `C15_body_expect` -/
example :
    let r : RR := { request := { line := { method := (b!"POST"), major := 49, minor := 49 },
                                 headers := { fields := [((b!"content-length"), (b!"3")), ((b!"expect"), (b!"100-continue"))] } } }
    r.request.isTrace = false ∧ 0 < r.request.headers.contentLength ∧
    r.request.headers.contentLength ≤ ((1048576 : Nat) : Int) ∧ r.request.expectContinue = true ∧
    r.continueSent = false := by decide

open Sim in
theorem C15_continue_keeps_connection (fuel : Nat) (w : World) (i : Nat) (bufs : List Buf) :
    httpSendTail (fuel + 1) w i bufs true =
      (let w' := w.upd i fun c => { c with rx := { c.rx with continueSent := true } }
       if !(w'.get i).alive then (w', false) else ((sendData w' i bufs).1, true)) := by
  simp [httpSendTail, Gen.continueKeepsOpen]

end Via
