import ViaProofs.C08
/-
  Message-level round trips (C08, and the "what the library emits its own parser accepts" half of C04):

  * `RT.requestLine_roundtrip`   `request_line::to_string` → `request_line::parse`
  * `RT.headerLine_roundtrip`    `header_field::to_header` → `field_line::parse` (inside the header loop)
  * `RT.headers_roundtrip`       any list of header lines + blank line → `message_headers::parse`
  * `RT.request_roundtrip`       `tx_request::message(n)` followed by `n` body bytes → `request_receiver::receive`
  * the response-side analogues (`statusLine_roundtrip`, `response_roundtrip`)

  All for EVERY method / target / version / header list / body that meets the stated validity conditions and every
  receiver configuration whose limits admit them, with anything at all following the message in the same read.
-/
namespace Via
namespace RT

/-! ### request line -/

theorem rl_valid_stop (cfg : Cfg) (s : RL) (rest : Bytes) (h : s.st = .valid) :
    RL.loop cfg s rest = (s, rest, false) := by
  cases rest with
  | nil => simp [RL.loop]
  | cons c cs => simp [RL.loop, h]

theorem rl_method (cfg : Cfg) (rest : Bytes) :
    ∀ (ms acc : Bytes), (∀ c ∈ ms, isUpper c = true) → acc.length + ms.length ≤ cfg.maxMethod →
      RL.loop cfg { method := acc } (ms ++ rest) = RL.loop cfg { method := acc ++ ms } rest := by
  intro ms
  induction ms with
  | nil => intro acc _ _; simp
  | cons m ms ih =>
    intro acc hu hl
    have hm : isUpper m = true := hu m (by simp)
    have h1 : ¬ (cfg.maxMethod < acc.length + 1) := by simp at hl; omega
    have := ih (acc ++ [m]) (fun c hc => hu c (by simp [hc])) (by simp at hl ⊢; omega)
    simp only [List.cons_append, RL.loop, RL.parseChar]
    simp [hm, h1]
    rw [this]
    simp

theorem rl_uri (cfg : Cfg) (m rest : Bytes) :
    ∀ (us acc : Bytes), (∀ c ∈ us, isEol c = false ∧ isBlank c = false) → acc.length + us.length ≤ cfg.maxUri →
      RL.loop cfg { method := m, uri := acc, ws := 1, st := .uri } (us ++ rest) =
      RL.loop cfg { method := m, uri := acc ++ us, ws := 1, st := .uri } rest := by
  intro us
  induction us with
  | nil => intro acc _ _; simp
  | cons u us ih =>
    intro acc hu hl
    obtain ⟨he, hb⟩ := hu u (by simp)
    have h1 : ¬ (cfg.maxUri < acc.length + 1) := by simp at hl; omega
    have := ih (acc ++ [u]) (fun c hc => hu c (by simp [hc])) (by simp at hl ⊢; omega)
    simp only [List.cons_append, RL.loop, RL.parseChar]
    simp [he, hb, h1]
    rw [this]
    simp

theorem upper_not_blank (c : Byte) : isUpper c = true → isBlank c = false := by
  revert c
  apply C08.byte_cases
  set_option maxRecDepth 100000 in decide

/-- `request_line::to_string` is parsed back by `request_line::parse`, whatever follows it -/
theorem requestLine_roundtrip (cfg : Cfg) (m u : Bytes) (maj min : Byte) (rest : Bytes)
    (hm0 : m ≠ []) (hm : ∀ c ∈ m, isUpper c = true) (hml : m.length ≤ cfg.maxMethod)
    (hu0 : u ≠ []) (hu : ∀ c ∈ u, isEol c = false ∧ isBlank c = false) (hul : u.length ≤ cfg.maxUri)
    (hmaj : isDigit maj = true) (hmin : isDigit min = true) :
    RL.parse cfg {} (Enc.requestLine m u maj min ++ rest) =
      ({ method := m, uri := u, major := maj, minor := min, st := .valid, ws := 1, valid := true }, rest, true) := by
  have hE : Enc.requestLine m u maj min ++ rest =
      m ++ (32 :: (u ++ (32 :: 72 :: 84 :: 84 :: 80 :: 47 :: maj :: 46 :: min :: 13 :: 10 :: rest))) := by
    simp [Enc.requestLine, Enc.httpVersion, Enc.crlf, Gen.cCRLF]
  rw [hE]
  unfold RL.parse
  have h0 : RL.loop cfg {} (m ++ (32 :: (u ++ (32 :: 72 :: 84 :: 84 :: 80 :: 47 :: maj :: 46 :: min :: 13 :: 10 :: rest)))) =
      RL.loop cfg { method := [] } (m ++ (32 :: (u ++ (32 :: 72 :: 84 :: 84 :: 80 :: 47 :: maj :: 46 :: min :: 13 :: 10 :: rest)))) := rfl
  rw [h0, rl_method cfg _ m [] hm (by simpa using hml)]
  have hmne : (m.isEmpty) = false := by cases m <;> simp_all
  have hune : (u.isEmpty) = false := by cases u <;> simp_all
  have step1 : ∀ tail, RL.loop cfg { method := [] ++ m } (32 :: tail) =
      RL.loop cfg { method := m, uri := [], ws := 1, st := .uri } tail := by
    intro tail
    simp [RL.loop, RL.parseChar, hmne, isUpper, isBlank]
  rw [step1, rl_uri cfg m _ u [] hu (by simpa using hul)]
  have step2 : RL.loop cfg { method := m, uri := [] ++ u, ws := 1, st := .uri }
        (32 :: 72 :: 84 :: 84 :: 80 :: 47 :: maj :: 46 :: min :: 13 :: 10 :: rest) =
      RL.loop cfg { method := m, uri := u, major := maj, minor := min, st := .valid, ws := 1 } rest := by
    simp [RL.loop, RL.parseChar, hune, isEol, isBlank, hmaj, hmin]
  rw [step2, rl_valid_stop cfg _ rest rfl]
  simp

/-! ### one header line -/

theorem peek_not_valid (s : FL) (buf : Bytes) (h : s.st ≠ .valid) : s.peek buf = s := by
  cases buf with
  | nil => rfl
  | cons d ds => simp [FL.peek, h]

theorem name_byte_facts (c : Byte) :
    nameByteOk c = true → isEol c = false ∧ isBlank c = false ∧ (isGraph c && !isSeparator c) = true := by
  revert c
  apply C08.byte_cases
  set_option maxRecDepth 100000 in decide

theorem fl_name (cfg : Cfg) (rest : Bytes) :
    ∀ (ns acc : Bytes) (L : Nat), (∀ c ∈ ns, nameByteOk c = true) → L + ns.length ≤ cfg.maxLine →
      FL.loop cfg { name := acc, length := L } (ns ++ rest) =
      FL.loop cfg { name := acc ++ lowerBytes ns, length := L + ns.length } rest := by
  intro ns
  induction ns with
  | nil => intro acc L _ _; simp [lowerBytes]
  | cons n ns ih =>
    intro acc L hn hl
    obtain ⟨_, _, hg⟩ := name_byte_facts n (hn n (by simp))
    have h1 : ¬ (cfg.maxLine < L + 1) := by simp at hl; omega
    have := ih (acc ++ [toLower n]) (L + 1) (fun c hc => hn c (by simp [hc])) (by simp at hl ⊢; omega)
    simp only [List.cons_append, FL.loop, FL.parseChar]
    simp only [Bool.and_eq_true, Bool.not_eq_true'] at hg
    simp [h1, hg.1, hg.2]
    rw [peek_not_valid _ _ (by simp), this]
    simp [lowerBytes, Nat.add_assoc, Nat.add_comm 1]

theorem fl_value (cfg : Cfg) (nm rest : Bytes) (w : Nat) :
    ∀ (vs acc : Bytes) (L : Nat), (∀ c ∈ vs, isEol c = false) → L + vs.length ≤ cfg.maxLine →
      FL.loop cfg { name := nm, value := acc, length := L, ws := w, st := .value } (vs ++ rest) =
      FL.loop cfg { name := nm, value := acc ++ vs, length := L + vs.length, ws := w, st := .value } rest := by
  intro vs
  induction vs with
  | nil => intro acc L _ _; simp
  | cons v vs ih =>
    intro acc L hv hl
    have he : isEol v = false := hv v (by simp)
    have h1 : ¬ (cfg.maxLine < L + 1) := by simp at hl; omega
    have := ih (acc ++ [v]) (L + 1) (fun c hc => hv c (by simp [hc])) (by simp at hl ⊢; omega)
    simp only [List.cons_append, FL.loop, FL.parseChar, FL.valueStep]
    simp [h1, he]
    rw [peek_not_valid _ _ (by simp), this]
    simp [Nat.add_assoc, Nat.add_comm 1]

/-- the conditions under which one `name: value` line is a valid component for a receiver with limits `cfg` -/
structure LineOk (cfg : Cfg) (n v : Bytes) : Prop where
  name_ne : n ≠ []
  name_ok : ∀ c ∈ n, nameByteOk c = true
  value_ok : ∀ c ∈ v, isEol c = false
  value_lead : ∀ c, v.head? = some c → isBlank c = false
  fits : n.length + v.length + 4 ≤ cfg.maxLine

/-- `header_field::to_header(name, value)` is read back by the `field_line` loop as (lower-case name, value); the
    loop stops in front of the byte that follows the line when that byte is not a blank (no obs-fold) -/
theorem headerLine_roundtrip (cfg : Cfg) (n v : Bytes) (d : Byte) (rest : Bytes) (ok : LineOk cfg n v)
    (hws : 1 ≤ cfg.maxWs) (hd : isBlank d = false) :
    FL.loop cfg {} (Enc.toHeader n v ++ d :: rest) =
      ({ name := lowerBytes n, value := v, length := n.length + v.length + 4, ws := 1, st := .valid },
        d :: rest, true) := by
  have hE : Enc.toHeader n v ++ d :: rest = n ++ (58 :: 32 :: (v ++ (13 :: 10 :: d :: rest))) := by
    simp [Enc.toHeader, Enc.crlf, Gen.cCRLF, Gen.cSEPARATOR]
  have hfit := ok.fits
  have h0 : FL.loop cfg {} (n ++ (58 :: 32 :: (v ++ (13 :: 10 :: d :: rest)))) =
      FL.loop cfg { name := [], length := 0 } (n ++ (58 :: 32 :: (v ++ (13 :: 10 :: d :: rest)))) := rfl
  rw [hE, h0, fl_name cfg _ n [] 0 ok.name_ok (by omega)]
  have hw : ¬ (cfg.maxWs < 1) := by omega
  have l1 : ¬ (cfg.maxLine < n.length + 1) := by omega
  have l2 : ¬ (cfg.maxLine < n.length + 1 + 1) := by omega
  have l3 : ¬ (cfg.maxLine < n.length + 1 + 1 + 1) := by omega
  simp only [List.nil_append, Nat.zero_add]
  cases v with
  | nil =>
    have l4 : ¬ (cfg.maxLine < n.length + 1 + 1 + 1 + 1) := by simp at hfit; omega
    have b32 : isBlank 32 = true := by decide
    have b13 : isBlank 13 = false := by decide
    simp [FL.loop, FL.parseChar, FL.valueStep, FL.peek, l1, l2, l3, l4, hw, isGraph, isSeparator, b32, b13, isEol, hd]
  | cons v0 vs =>
    have hb : isBlank v0 = false := ok.value_lead v0 rfl
    have he : isEol v0 = false := ok.value_ok v0 (by simp)
    have hvs : ∀ c ∈ vs, isEol c = false := fun c hc => ok.value_ok c (by simp [hc])
    simp at hfit
    have step : FL.loop cfg { name := lowerBytes n, length := n.length }
          (58 :: 32 :: (v0 :: vs ++ 13 :: 10 :: d :: rest)) =
        FL.loop cfg { name := lowerBytes n, value := [v0], length := n.length + 3, ws := 1, st := .value }
          (vs ++ 13 :: 10 :: d :: rest) := by
      have b32 : isBlank 32 = true := by decide
      simp [FL.loop, FL.parseChar, FL.valueStep, peek_not_valid, l1, l2, l3, hw, isGraph, isSeparator, hb, he, b32]
    rw [step, fl_value cfg _ _ 1 vs [v0] _ hvs (by omega)]
    have l5 : ¬ (cfg.maxLine < n.length + 3 + vs.length + 1) := by omega
    have l6 : ¬ (cfg.maxLine < n.length + 3 + vs.length + 1 + 1) := by omega
    simp [FL.loop, FL.parseChar, FL.valueStep, FL.peek, l5, l6, isEol, hd]
    omega

/-! ### the header block -/

abbrev HdrList := List (Bytes × Bytes)

/-- the header string an application gets from repeated `add_header(name, value)` -/
def encHeaders (hs : HdrList) : Bytes := hs.flatMap (fun p => Enc.toHeader p.1 p.2)

/-- what `message_headers` holds after the lines of `hs`: lower-case names, repeated names joined -/
def fieldsOf (fs : Fields) (hs : HdrList) : Fields := hs.foldl (fun fs p => fs.add (lowerBytes p.1) p.2) fs

def totalLen (hs : HdrList) : Nat := (hs.map (fun p => p.1.length + p.2.length)).sum

@[simp] theorem encHeaders_nil : encHeaders [] = [] := rfl
@[simp] theorem encHeaders_cons (p : Bytes × Bytes) (hs : HdrList) :
    encHeaders (p :: hs) = Enc.toHeader p.1 p.2 ++ encHeaders hs := by simp [encHeaders]
theorem encHeaders_append (a b : HdrList) : encHeaders (a ++ b) = encHeaders a ++ encHeaders b := by
  simp [encHeaders]

theorem toHeader_head (n v : Bytes) (hn : n ≠ []) (hok : ∀ c ∈ n, nameByteOk c = true) (tail : Bytes) :
    ∃ c cs, Enc.toHeader n v ++ tail = c :: cs ∧ isEol c = false ∧ isBlank c = false := by
  cases n with
  | nil => exact absurd rfl hn
  | cons c cs =>
    obtain ⟨h1, h2, _⟩ := name_byte_facts c (hok c (by simp))
    exact ⟨c, cs ++ (Gen.cSEPARATOR ++ (v ++ (Enc.crlf ++ tail))), by simp [Enc.toHeader], h1, h2⟩

/-- the byte after a header line (the start of the next line, or the CR of the blank line) is not a blank -/
theorem next_head (cfg : Cfg) (hs : HdrList) (rest : Bytes) (hok : ∀ p ∈ hs, LineOk cfg p.1 p.2) :
    ∃ d ds, encHeaders hs ++ 13 :: 10 :: rest = d :: ds ∧ isBlank d = false := by
  cases hs with
  | nil => exact ⟨13, 10 :: rest, by simp, by decide⟩
  | cons p hs =>
    have ok := hok p (by simp)
    obtain ⟨c, cs, h, _, hb⟩ := toHeader_head p.1 p.2 ok.name_ne ok.name_ok (encHeaders hs ++ 13 :: 10 :: rest)
    exact ⟨c, cs, by simpa using h, hb⟩

theorem blank_crlf (cfg : Cfg) (h : MH) (rest : Bytes) (hb : h.blankCr = false) :
    MH.blank cfg h (13 :: 10 :: rest) = ({ h with blankCr := true, valid := true }, rest, true) := by
  simp [MH.blank, hb, isEol]

theorem commit_ok (cfg : Cfg) (h : MH) (n v : Bytes) (L w : Nat)
    (c1 : ¬ (cfg.maxHdrLen < h.length + (n.length + v.length))) (c2 : ¬ (cfg.maxHdrNum < h.number + 1)) :
    MH.commit cfg h ⟨n, v, L, w, .valid, false⟩ =
      ({ h with length := h.length + (n.length + v.length), number := h.number + 1,
                fields := h.fields.add n v, field := {} }, true) := by
  simp [MH.commit, c1, c2]

/-- any list of valid header lines followed by the blank line is accepted by `message_headers::parse` (entered with
    no line in progress) when the counts stay within the limits; the map holds exactly the added fields -/
theorem headers_fresh (cfg : Cfg) (rest : Bytes) (hws : 1 ≤ cfg.maxWs) :
    ∀ (hs : HdrList) (h : MH), h.blankCr = false → h.field = {} → (∀ p ∈ hs, LineOk cfg p.1 p.2) →
      h.length + totalLen hs ≤ cfg.maxHdrLen → h.number + hs.length ≤ cfg.maxHdrNum →
      MH.fresh cfg h (encHeaders hs ++ 13 :: 10 :: rest) =
        ({ h with fields := fieldsOf h.fields hs, field := {}, valid := true, blankCr := true,
                  number := h.number + hs.length, length := h.length + totalLen hs }, rest, true) := by
  intro hs
  induction hs with
  | nil =>
    intro h hb hf _ _ _
    have e : isEol 13 = true := by decide
    rw [encHeaders_nil, List.nil_append, MH.fresh]
    simp only [e, if_true]
    rw [blank_crlf cfg h rest hb]
    simp [fieldsOf, totalLen, hf]
  | cons p hs ih =>
    intro h hb hf hok hl hn
    have ok := hok p (by simp)
    have hok' : ∀ q ∈ hs, LineOk cfg q.1 q.2 := fun q hq => hok q (by simp [hq])
    obtain ⟨d, ds, hd, hdb⟩ := next_head cfg hs rest hok'
    obtain ⟨c, cs, hc, hce, _⟩ := toHeader_head p.1 p.2 ok.name_ne ok.name_ok (d :: ds)
    have hline := headerLine_roundtrip cfg p.1 p.2 d ds ok hws hdb
    rw [encHeaders_cons, List.append_assoc, hd, hc, MH.fresh]
    simp only [hce, Bool.false_eq_true, if_false]
    rw [← hc, hline]
    have hT : totalLen (p :: hs) = (p.1.length + p.2.length) + totalLen hs := by simp [totalLen]
    rw [hT] at hl
    simp only [List.length_cons] at hn
    have c1 : ¬ (cfg.maxHdrLen < h.length + (p.1.length + p.2.length)) := by omega
    have c2 : ¬ (cfg.maxHdrNum < h.number + 1) := by omega
    have hcm := commit_ok cfg h (lowerBytes p.1) p.2 (p.1.length + p.2.length + 4) 1
      (by simpa [lowerBytes] using c1) c2
    simp only [Bool.not_true, Bool.false_eq_true, if_false, List.isEmpty_cons, hcm]
    rw [← hd, ih _ (by exact hb) (by rfl) hok' (by simp only [lowerBytes, List.length_map]; omega) (by simp only; omega)]
    simp [fieldsOf, hT, Nat.add_assoc, Nat.add_comm 1, lowerBytes]

/-- `message_headers::parse` on a fresh object -/
theorem headers_roundtrip (cfg : Cfg) (hs : HdrList) (rest : Bytes) (hws : 1 ≤ cfg.maxWs)
    (hok : ∀ p ∈ hs, LineOk cfg p.1 p.2) (hl : totalLen hs ≤ cfg.maxHdrLen) (hn : hs.length ≤ cfg.maxHdrNum) :
    MH.parse cfg {} (encHeaders hs ++ 13 :: 10 :: rest) =
      ({ fields := fieldsOf [] hs, valid := true, blankCr := true, number := hs.length, length := totalLen hs },
        rest, true) := by
  have := headers_fresh cfg rest hws hs {} rfl rfl hok (by simpa using hl) (by simpa using hn)
  simp only [MH.parse, FL.started]
  simpa using this

/-! ### `rx_request::parse` -/

/-- valid components of a request head for a receiver with limits `cfg` -/
structure HeadOk (cfg : Cfg) (m u : Bytes) (maj min : Byte) (hs : HdrList) : Prop where
  method_ne : m ≠ []
  method_upper : ∀ c ∈ m, isUpper c = true
  method_fits : m.length ≤ cfg.maxMethod
  uri_ne : u ≠ []
  uri_ok : ∀ c ∈ u, isEol c = false ∧ isBlank c = false
  uri_fits : u.length ≤ cfg.maxUri
  major_digit : isDigit maj = true
  minor_digit : isDigit min = true
  ws : 1 ≤ cfg.maxWs
  lines : ∀ p ∈ hs, LineOk cfg p.1 p.2
  hdr_len : totalLen hs ≤ cfg.maxHdrLen
  hdr_num : hs.length ≤ cfg.maxHdrNum

/-- the parsed request the receiver must arrive at -/
def parsedRequest (m u : Bytes) (maj min : Byte) (hs : HdrList) : RQ :=
  { line := { method := m, uri := u, major := maj, minor := min, st := .valid, ws := 1, valid := true },
    headers := { fields := fieldsOf [] hs, valid := true, blankCr := true, number := hs.length, length := totalLen hs },
    valid := true }

/-- request line + header lines + blank line → `rx_request::parse`, whatever follows -/
theorem head_roundtrip (cfg : Cfg) (m u : Bytes) (maj min : Byte) (hs : HdrList) (rest : Bytes)
    (ok : HeadOk cfg m u maj min hs) :
    RQ.parse cfg {} (Enc.requestLine m u maj min ++ (encHeaders hs ++ 13 :: 10 :: rest)) =
      (parsedRequest m u maj min hs, rest, true) := by
  have h1 := requestLine_roundtrip cfg m u maj min (encHeaders hs ++ 13 :: 10 :: rest) ok.method_ne ok.method_upper
    ok.method_fits ok.uri_ne ok.uri_ok ok.uri_fits ok.major_digit ok.minor_digit
  have h2 := headers_roundtrip cfg hs rest ok.ws ok.lines ok.hdr_len ok.hdr_num
  simp [RQ.parse, h1, h2, parsedRequest]

/-! ### `request_receiver::receive` -/

/-- the receiver after a complete request with a Content-Length body -/
def receivedRequest (cfg : Cfg) (m u : Bytes) (maj min : Byte) (hs : HdrList) (body : Bytes) : RR :=
  let q := parsedRequest m u maj min hs
  let isHead := m == (b!"HEAD")
  { request := if isHead && cfg.translateHead then { q with line := { q.line with method := (b!"GET") } } else q,
    body := body, isHead := isHead }

/-- the bytes of a request head with the header lines `hs`, followed by a body of the length that the
    Content-Length among `hs` announces, are received as ONE VALID request with exactly these components;
    whatever follows in the same read is left untouched -/
theorem receive_wire (cfg : Cfg) (m u : Bytes) (maj min : Byte) (hs : HdrList) (body rest : Bytes)
    (ok : HeadOk cfg m u maj min hs)
    (hhost : ¬ (maj = 49 ∧ min = 49) ∨ (fieldsOf [] hs).find (b!"host") ≠ [])
    (hte : (fieldsOf [] hs).find (b!"transfer-encoding") = [])
    (hcl : (fieldsOf [] hs).find (b!"content-length") ≠ [])
    (hclv : fromDecString ((fieldsOf [] hs).find (b!"content-length")) = (body.length : Int))
    (hfit : body.length ≤ cfg.maxContent) (htrace : m ≠ (b!"TRACE")) :
    RR.receive cfg {} (Enc.requestLine m u maj min ++ (encHeaders hs ++ 13 :: 10 :: (body ++ rest))) =
      (receivedRequest cfg m u maj min hs body, rest, .valid) := by
  have hp := head_roundtrip cfg m u maj min hs (body ++ rest) ok
  have hmh : RQ.missingHost (parsedRequest m u maj min hs) = false := by
    simp only [RQ.missingHost, parsedRequest]
    rcases hhost with h | h
    · by_cases h1 : maj = 49 <;> by_cases h2 : min = 49 <;> simp_all
    · cases hf : (Fields.find (fieldsOf [] hs) (b!"host")) <;> simp_all
  have hch : (parsedRequest m u maj min hs).headers.isChunked = false := by
    simp [MH.isChunked, parsedRequest, hte]
  have hclen : (parsedRequest m u maj min hs).headers.contentLength = (body.length : Int) := by
    have : (Fields.find (fieldsOf [] hs) (b!"content-length")).isEmpty = false := by
      cases hf : (Fields.find (fieldsOf [] hs) (b!"content-length")) <;> simp_all
    simp [MH.contentLength, parsedRequest, this, hclv]
  have htr : (parsedRequest m u maj min hs).isTrace = false := by
    simp [RQ.isTrace, parsedRequest, htrace]
  have hfail : RQ.fail (parsedRequest m u maj min hs) = false := by
    simp [RQ.fail, parsedRequest, MH.fail]
  unfold RR.receive
  simp only [hp, Bool.not_false, if_true, Bool.not_true, Bool.false_eq_true, if_false, hmh, hch]
  unfold RR.receiveBody
  simp only [hclen, htr, Bool.false_eq_true, if_false]
  have htk : (if ((body ++ rest).length : Int) > (body.length : Int) - (([] : Bytes).length : Int)
      then ((body.length : Int) - (([] : Bytes).length : Int)).toNat else (body ++ rest).length) = body.length := by
    simp only [List.length_nil, List.length_append]
    split <;> omega
  have hne : (Fields.find (parsedRequest m u maj min hs).headers.fields (b!"content-length")).isEmpty = false := by
    cases hf : (Fields.find (fieldsOf [] hs) (b!"content-length")) <;> simp_all [parsedRequest]
  have c1 : ¬ ((body.length : Int) < 0) := by omega
  have c2 : ¬ ((body.length : Int) > (cfg.maxContent : Int)) := by omega
  have c3 : ¬ (((body ++ rest).length : Int) < (body.length : Int)) := by simp only [List.length_append]; omega
  rw [htk]
  simp only [c1, c2, c3, hne, if_false, decide_false, Bool.and_false, Bool.false_and, Bool.false_eq_true,
    List.nil_append, List.take_left', List.drop_left', beq_self_eq_true, if_true]
  simp only [receivedRequest, RQ.isHead, parsedRequest]
  by_cases hh : (m == (b!"HEAD") && cfg.translateHead) = true
  · simp only [hh, if_true]
  · simp [hh]

/-! ### the header map: looking a name up after `add` -/

def names (fs : Fields) : List Bytes := fs.map Prod.fst

theorem mem_names_add (fs : Fields) (n v x : Bytes) :
    x ∈ names (fs.add n v) ↔ x ∈ names fs ∨ x = n := by
  induction fs with
  | nil => simp [Fields.add, names]
  | cons p fs ih =>
    obtain ⟨n', v'⟩ := p
    simp only [Fields.add]
    split
    · rename_i h
      have : n' = n := by simpa using h
      subst this
      simp only [names, List.map_cons, List.mem_cons]
      constructor
      · rintro (h | h) <;> simp [h]
      · rintro ((h | h) | h) <;> simp [h]
    · simp only [names, List.map_cons, List.mem_cons] at ih ⊢
      rw [ih]
      constructor
      · rintro (h | h | h) <;> simp [h]
      · rintro ((h | h) | h) <;> simp [h]

theorem find_add_self (fs : Fields) (n v : Bytes) (h : n ∉ names fs) : (fs.add n v).find n = v := by
  induction fs with
  | nil => simp [Fields.add, Fields.find]
  | cons p fs ih =>
    obtain ⟨n', v'⟩ := p
    simp only [names, List.map_cons, List.mem_cons, not_or] at h
    have hne : (n' == n) = false := by simpa using fun e => h.1 e.symm
    simp only [Fields.add, hne, Bool.false_eq_true, if_false, Fields.find]
    exact ih h.2

theorem find_add_ne (fs : Fields) (n v x : Bytes) (h : x ≠ n) : (fs.add n v).find x = fs.find x := by
  induction fs with
  | nil =>
    have : (n == x) = false := by simpa using fun e => h e.symm
    simp [Fields.add, Fields.find, this]
  | cons p fs ih =>
    obtain ⟨n', v'⟩ := p
    simp only [Fields.add]
    split
    · rename_i he
      have : n' = n := by simpa using he
      subst this
      have : (n' == x) = false := by simpa using fun e => h e.symm
      simp [Fields.find, this]
    · simp only [Fields.find, ih]

theorem fieldsOf_append (fs : Fields) (a b : HdrList) : fieldsOf fs (a ++ b) = fieldsOf (fieldsOf fs a) b := by
  simp [fieldsOf, List.foldl_append]

theorem names_fieldsOf (hs : HdrList) : ∀ (fs : Fields) (x : Bytes), x ∈ names (fieldsOf fs hs) →
    x ∈ names fs ∨ ∃ p ∈ hs, lowerBytes p.1 = x := by
  induction hs with
  | nil => intro fs x h; exact Or.inl h
  | cons p hs ih =>
    intro fs x h
    have := ih (fs.add (lowerBytes p.1) p.2) x (by simpa [fieldsOf] using h)
    rcases this with h1 | ⟨q, hq, hx⟩
    · rcases (mem_names_add fs _ _ x).1 h1 with h2 | h2
      · exact Or.inl h2
      · exact Or.inr ⟨p, by simp, h2.symm⟩
    · exact Or.inr ⟨q, by simp [hq], hx⟩

/-! ### `tx_request::message` → `request_receiver::receive` -/

/-- the line `header_field::content_length(n)` -/
def clLine (n : Nat) : Bytes × Bytes := (Gen.cHEADER_CONTENT_LENGTH, toDecString n)

theorem digit_facts (c : Byte) : isDigit c = true → isEol c = false ∧ isBlank c = false := by
  revert c
  apply C08.byte_cases
  set_option maxRecDepth 100000 in decide

theorem clLine_ok (cfg : Cfg) (n : Nat) (hfit : 18 + (toDecString n).length ≤ cfg.maxLine) :
    LineOk cfg (clLine n).1 (clLine n).2 := by
  obtain ⟨h1, h2, _⟩ := C08.dec_digits n
  rw [List.all_eq_true] at h2
  have n1 : Gen.cHEADER_CONTENT_LENGTH ≠ [] := by decide
  have n2 : ∀ c ∈ Gen.cHEADER_CONTENT_LENGTH, nameByteOk c = true := by decide
  refine ⟨n1, n2, fun c hc => (digit_facts c (h2 c hc)).1, ?_, ?_⟩
  · intro c hc
    have : c ∈ toDecString n := by
      simp only [clLine] at hc
      cases hd : toDecString n with
      | nil => simp [hd] at hc
      | cons d ds => simp [hd] at hc; simp [hc]
    exact (digit_facts c (h2 c this)).2
  · simp only [clLine, Gen.cHEADER_CONTENT_LENGTH, List.length_cons, List.length_nil]
    omega

theorem contentLengthHeader_eq (n : Nat) : Enc.contentLengthHeader n = encHeaders [clLine n] := by
  simp [Enc.contentLengthHeader, encHeaders, clLine, Enc.toHeader]

/-- **C08, requests.**  `tx_request::message(body.size())` followed by the body is received by
    `request_receiver::receive` as one VALID request with the same method, target, version, header fields (plus the
    Content-Length the encoder added) and body, for every valid component tuple within the receiver's limits; bytes
    after the message stay unread.  Preconditions that are not mere validity: no header line of the application is a
    Content-Length / Transfer-Encoding in ANOTHER spelling (`needs` is the encoder's case-sensitive substring test;
    the next two are the receiver's case-insensitive view) — exactly the gap of known finding C04-KF3 — and a
    HTTP/1.1 request names a Host. -/
theorem request_roundtrip (cfg : Cfg) (m u : Bytes) (maj min : Byte) (hs : HdrList) (body rest : Bytes)
    (ok : HeadOk cfg m u maj min (hs ++ [clLine body.length]))
    (needs : Enc.needsContentLength (encHeaders hs) = true)
    (hnocl : ∀ p ∈ hs, lowerBytes p.1 ≠ (b!"content-length"))
    (hte : (fieldsOf [] hs).find (b!"transfer-encoding") = [])
    (hhost : ¬ (maj = 49 ∧ min = 49) ∨ (fieldsOf [] hs).find (b!"host") ≠ [])
    (hfit : body.length ≤ cfg.maxContent) (hmax : body.length ≤ LONG_MAX) (htrace : m ≠ (b!"TRACE")) :
    RR.receive cfg {} (Enc.txRequestMessage m u maj min (encHeaders hs) body.length ++ (body ++ rest)) =
      (receivedRequest cfg m u maj min (hs ++ [clLine body.length]) body, rest, .valid) := by
  have hmsg : Enc.txRequestMessage m u maj min (encHeaders hs) body.length ++ (body ++ rest) =
      Enc.requestLine m u maj min ++ (encHeaders (hs ++ [clLine body.length]) ++ 13 :: 10 :: (body ++ rest)) := by
    simp [Enc.txRequestMessage, needs, contentLengthHeader_eq, encHeaders_append, Enc.crlf, Gen.cCRLF]
  have hlow : lowerBytes Gen.cHEADER_CONTENT_LENGTH = (b!"content-length") := by decide
  have hnot : (b!"content-length") ∉ names (fieldsOf [] hs) := by
    intro hmem
    rcases names_fieldsOf hs [] _ hmem with h | ⟨p, hp, hx⟩
    · simp [names] at h
    · exact hnocl p hp hx
  have hF : fieldsOf [] (hs ++ [clLine body.length]) =
      (fieldsOf [] hs).add (b!"content-length") (toDecString body.length) := by
    rw [fieldsOf_append]
    simp [fieldsOf, hlow, clLine]
  have hd := C08.dec_digits body.length
  rw [hmsg]
  apply receive_wire cfg m u maj min _ body rest ok
  · rw [hF, find_add_ne _ _ _ _ (by decide)]
    exact hhost
  · rw [hF, find_add_ne _ _ _ _ (by decide)]
    exact hte
  · rw [hF, find_add_self _ _ _ hnot]
    exact hd.1
  · rw [hF, find_add_self _ _ _ hnot]
    exact dec_roundtrip _ hmax
  · exact hfit
  · exact htrace

/-- the premises of `request_roundtrip` are satisfiable: `POST /a HTTP/1.1`, `Host: h`, a 3-byte body, default limits -/
example : HeadOk {} (b!"POST") (b!"/a") 49 49 ([((b!"Host"), (b!"h"))] ++ [clLine 3]) ∧
    Enc.needsContentLength (encHeaders [((b!"Host"), (b!"h"))]) = true := by
  refine ⟨⟨by decide, by decide, by decide, by decide, by decide, by decide, by decide, by decide, by decide, ?_,
    by decide, by decide⟩, by decide⟩
  intro p hp
  simp only [List.cons_append, List.nil_append, List.mem_cons, List.not_mem_nil, or_false] at hp
  rcases hp with rfl | rfl
  · exact ⟨by decide, by decide, by decide, by decide, by decide⟩
  · exact clLine_ok {} 3 (by decide)

/-! ### status line -/

theorem sl_valid_stop (cfg : Cfg) (s : SL) (rest : Bytes) (h : s.st = .valid) :
    SL.loop cfg s rest = (s, rest, false) := by
  cases rest with
  | nil => simp [SL.loop]
  | cons c cs => simp [SL.loop, h]

def decStep (a : Nat) (c : Byte) : Nat := a * 10 + (c.toNat - 48)

theorem foldl_decStep_ge (ds : Bytes) : ∀ a, a ≤ ds.foldl decStep a := by
  induction ds with
  | nil => intro a; simp
  | cons d ds ih =>
    intro a
    have := ih (decStep a d)
    simp only [List.foldl_cons]
    unfold decStep at this ⊢
    omega

theorem sl_status (cfg : Cfg) (maj min : Byte) (rest : Bytes) :
    ∀ (ds : Bytes) (acc : Nat) (sr : Bool), (∀ c ∈ ds, isDigit c = true) → ds.foldl decStep acc ≤ cfg.maxUri →
      SL.loop cfg { major := maj, minor := min, st := .status, ws := 1, status := acc, statusRead := sr } (ds ++ rest) =
      SL.loop cfg { major := maj, minor := min, st := .status, ws := 1, status := ds.foldl decStep acc,
                    statusRead := sr || !ds.isEmpty } rest := by
  intro ds
  induction ds with
  | nil => intro acc sr _ _; simp
  | cons d ds ih =>
    intro acc sr hd hl
    have hdd : isDigit d = true := hd d (by simp)
    have hge := foldl_decStep_ge ds (decStep acc d)
    simp only [List.foldl_cons] at hl
    have e : decStep acc d = acc * 10 + (d.toNat - 48) := rfl
    have h1 : ¬ (cfg.maxUri < acc * 10 + (d.toNat - 48)) := by omega
    have := ih (decStep acc d) true (fun c hc => hd c (by simp [hc])) hl
    simp only [List.cons_append, SL.loop, SL.parseChar]
    simp [hdd, h1]
    rw [← e, this]
    simp

theorem sl_reason (cfg : Cfg) (maj min : Byte) (st : Nat) (rest : Bytes) :
    ∀ (rs acc : Bytes), acc ≠ [] → (∀ c ∈ rs, isEol c = false) → acc.length + rs.length ≤ cfg.maxMethod →
      SL.loop cfg { major := maj, minor := min, st := .reason, ws := 1, status := st, statusRead := true,
                    reason := acc } (rs ++ rest) =
      SL.loop cfg { major := maj, minor := min, st := .reason, ws := 1, status := st, statusRead := true,
                    reason := acc ++ rs } rest := by
  intro rs
  induction rs with
  | nil => intro acc _ _ _; simp
  | cons r rs ih =>
    intro acc hne he hl
    have her : isEol r = false := he r (by simp)
    have hae : acc.isEmpty = false := by cases acc <;> simp_all
    have h1 : ¬ (cfg.maxMethod < acc.length + 1) := by simp at hl; omega
    have := ih (acc ++ [r]) (by simp) (fun c hc => he c (by simp [hc])) (by simp at hl ⊢; omega)
    simp only [List.cons_append, SL.loop, SL.parseChar]
    simp [her, hae, h1]
    rw [this]
    simp

theorem decStep_digitsVal (ds : Bytes) (h : ∀ c ∈ ds, isDigit c = true) :
    ∀ a, ds.foldl decStep a = ds.foldl (fun acc c => acc * 10 + hexDigitVal c) a := by
  induction ds with
  | nil => intro a; rfl
  | cons d ds ih =>
    intro a
    have hd : isDigit d = true := h d (by simp)
    simp only [List.foldl_cons]
    rw [ih (fun c hc => h c (by simp [hc]))]
    simp [decStep, hexDigitVal, hd]

theorem foldl_decStep_toDec (n : Nat) : (toDecString n).foldl decStep 0 = n := by
  obtain ⟨_, h2, h3⟩ := C08.dec_digits n
  rw [List.all_eq_true] at h2
  rw [decStep_digitsVal _ h2 0]
  exact h3

/-- valid components of a status line -/
structure StatusOk (cfg : Cfg) (maj min : Byte) (status : Nat) (reason : Bytes) : Prop where
  major_digit : isDigit maj = true
  minor_digit : isDigit min = true
  status_fits : status ≤ cfg.maxUri
  reason_ok : ∀ c ∈ reason, isEol c = false
  reason_lead : ∀ c, reason.head? = some c → isBlank c = false
  reason_fits : reason.length ≤ cfg.maxMethod

theorem intToDec_nat (n : Nat) : intToDecString (n : Int) = toDecString n := by
  simp [intToDecString]

/-- `response_line::to_string` is parsed back by `response_line::parse`, whatever follows it -/
theorem statusLine_roundtrip (cfg : Cfg) (maj min : Byte) (status : Nat) (reason rest : Bytes)
    (ok : StatusOk cfg maj min status reason) :
    SL.parse cfg {} (Enc.responseLine maj min (status : Int) reason ++ rest) =
      ({ status := status, reason := reason, major := maj, minor := min, st := .valid, ws := 1, statusRead := true,
         valid := true }, rest, true) := by
  obtain ⟨d1, d2, _⟩ := C08.dec_digits status
  rw [List.all_eq_true] at d2
  have hE : Enc.responseLine maj min (status : Int) reason ++ rest =
      72 :: 84 :: 84 :: 80 :: 47 :: maj :: 46 :: min :: 32 :: (toDecString status ++ (32 :: (reason ++ 13 :: 10 :: rest))) := by
    simp [Enc.responseLine, Enc.httpVersion, Enc.crlf, Gen.cCRLF, intToDec_nat]
  rw [hE]
  unfold SL.parse
  have b32 : isBlank 32 = true := by decide
  have step1 : ∀ tail, SL.loop cfg {} (72 :: 84 :: 84 :: 80 :: 47 :: maj :: 46 :: min :: 32 :: tail) =
      SL.loop cfg { major := maj, minor := min, st := .status, ws := 1, status := 0, statusRead := false } tail := by
    intro tail
    simp [SL.loop, SL.parseChar, ok.major_digit, ok.minor_digit, isBlank]
  rw [step1, sl_status cfg maj min _ (toDecString status) 0 false d2 (by rw [foldl_decStep_toDec]; exact ok.status_fits),
    foldl_decStep_toDec]
  have hne : (toDecString status).isEmpty = false := by cases h : toDecString status <;> simp_all
  simp only [hne, Bool.not_false, Bool.or_true]
  cases reason with
  | nil =>
    have e13 : isEol 13 = true := by decide
    have d32 : isDigit 32 = false := by decide
    simp [SL.loop, SL.parseChar, SL.crStep, b32, d32, e13]
    rw [sl_valid_stop _ _ _ rfl]
    simp
  | cons r0 rs =>
    have hb : isBlank r0 = false := ok.reason_lead r0 rfl
    have he : isEol r0 = false := ok.reason_ok r0 (by simp)
    have hrs : ∀ c ∈ rs, isEol c = false := fun c hc => ok.reason_ok c (by simp [hc])
    have hfit := ok.reason_fits
    simp at hfit
    have d32 : isDigit 32 = false := by decide
    have h1 : ¬ (cfg.maxMethod < 1) := by omega
    have step2 : SL.loop cfg { major := maj, minor := min, st := .status, ws := 1, status := status, statusRead := true }
          (32 :: (r0 :: rs ++ 13 :: 10 :: rest)) =
        SL.loop cfg { major := maj, minor := min, st := .reason, ws := 1, status := status, statusRead := true,
                      reason := [r0] } (rs ++ 13 :: 10 :: rest) := by
      simp [SL.loop, SL.parseChar, b32, d32, he, hb, h1]
    rw [step2, sl_reason cfg maj min status _ rs [r0] (by simp) hrs (by simp; omega)]
    have e13 : isEol 13 = true := by decide
    simp [SL.loop, SL.parseChar, SL.crStep, e13]
    rw [sl_valid_stop _ _ _ rfl]
    simp

/-! ### `rx_response::parse` and `response_receiver::receive` -/

structure RespHeadOk (cfg : Cfg) (maj min : Byte) (status : Nat) (reason : Bytes) (hs : HdrList) : Prop where
  line : StatusOk cfg maj min status reason
  ws : 1 ≤ cfg.maxWs
  lines : ∀ p ∈ hs, LineOk cfg p.1 p.2
  hdr_len : totalLen hs ≤ cfg.maxHdrLen
  hdr_num : hs.length ≤ cfg.maxHdrNum

def parsedResponse (maj min : Byte) (status : Nat) (reason : Bytes) (hs : HdrList) : RP :=
  { line := { status := status, reason := reason, major := maj, minor := min, st := .valid, ws := 1,
              statusRead := true, valid := true },
    headers := { fields := fieldsOf [] hs, valid := true, blankCr := true, number := hs.length, length := totalLen hs },
    valid := true }

theorem resp_head_roundtrip (cfg : Cfg) (maj min : Byte) (status : Nat) (reason : Bytes) (hs : HdrList) (rest : Bytes)
    (ok : RespHeadOk cfg maj min status reason hs) :
    RP.parse cfg {} (Enc.responseLine maj min (status : Int) reason ++ (encHeaders hs ++ 13 :: 10 :: rest)) =
      (parsedResponse maj min status reason hs, rest, true) := by
  have h1 := statusLine_roundtrip cfg maj min status reason (encHeaders hs ++ 13 :: 10 :: rest) ok.line
  have h2 := headers_roundtrip cfg hs rest ok.ws ok.lines ok.hdr_len ok.hdr_num
  simp [RP.parse, h1, h2, parsedResponse]

/-- a response head whose header lines include the Content-Length of the body that follows is received as one VALID
    response with exactly these components; later bytes stay unread -/
theorem resp_receive_wire (cfg : Cfg) (maj min : Byte) (status : Nat) (reason : Bytes) (hs : HdrList)
    (body rest : Bytes) (ok : RespHeadOk cfg maj min status reason hs)
    (hte : (fieldsOf [] hs).find (b!"transfer-encoding") = [])
    (hcl : (fieldsOf [] hs).find (b!"content-length") ≠ [])
    (hclv : fromDecString ((fieldsOf [] hs).find (b!"content-length")) = (body.length : Int)) :
    RS.receive cfg {} (Enc.responseLine maj min (status : Int) reason ++ (encHeaders hs ++ 13 :: 10 :: (body ++ rest))) =
      ({ response := parsedResponse maj min status reason hs, body := body }, rest, .valid) := by
  have hp := resp_head_roundtrip cfg maj min status reason hs (body ++ rest) ok
  have hch : (parsedResponse maj min status reason hs).headers.isChunked = false := by
    simp [MH.isChunked, parsedResponse, hte]
  have hne : (Fields.find (parsedResponse maj min status reason hs).headers.fields (b!"content-length")).isEmpty = false := by
    cases hf : (Fields.find (fieldsOf [] hs) (b!"content-length")) <;> simp_all [parsedResponse]
  have hclen : (parsedResponse maj min status reason hs).headers.contentLength = (body.length : Int) := by
    have := hne
    simp only [parsedResponse] at this
    simp [MH.contentLength, parsedResponse, this, hclv]
  have hfail : RP.fail (parsedResponse maj min status reason hs) = false := by
    simp [RP.fail, parsedResponse, MH.fail]
  unfold RS.receive
  simp only [hp, Bool.not_false, if_true, Bool.not_true, Bool.false_eq_true, if_false, hch, hclen, hne]
  have htk : (if ((body ++ rest).length : Int) > (body.length : Int) - (([] : Bytes).length : Int)
      then ((body.length : Int) - (([] : Bytes).length : Int)).toNat else (body ++ rest).length) = body.length := by
    simp only [List.length_nil, List.length_append]
    split <;> omega
  have c1 : ¬ ((body.length : Int) < 0) := by omega
  simp only [Bool.and_false, Bool.false_eq_true, if_false, c1]
  rw [htk]
  simp

/-- a response without any Content-Length (what the encoder emits for 1xx / 204 / 304) that ends the read is
    received as one VALID response with an empty body -/
theorem resp_receive_wire_nobody (cfg : Cfg) (maj min : Byte) (status : Nat) (reason : Bytes) (hs : HdrList)
    (ok : RespHeadOk cfg maj min status reason hs)
    (hte : (fieldsOf [] hs).find (b!"transfer-encoding") = [])
    (hcl : (fieldsOf [] hs).find (b!"content-length") = []) :
    RS.receive cfg {} (Enc.responseLine maj min (status : Int) reason ++ (encHeaders hs ++ 13 :: 10 :: [])) =
      ({ response := parsedResponse maj min status reason hs, body := [] }, [], .valid) := by
  have hp := resp_head_roundtrip cfg maj min status reason hs [] ok
  have hch : (parsedResponse maj min status reason hs).headers.isChunked = false := by
    simp [MH.isChunked, parsedResponse, hte]
  have hclen : (parsedResponse maj min status reason hs).headers.contentLength = 0 := by
    simp [MH.contentLength, parsedResponse, hcl]
  unfold RS.receive
  simp only [hp, Bool.not_false, if_true, Bool.not_true, Bool.false_eq_true, if_false, hch, hclen]
  simp

theorem find_not_mem (fs : Fields) (x : Bytes) (h : x ∉ names fs) : fs.find x = [] := by
  induction fs with
  | nil => rfl
  | cons p fs ih =>
    obtain ⟨n', v'⟩ := p
    simp only [names, List.map_cons, List.mem_cons, not_or] at h
    have : (n' == x) = false := by simpa using fun e => h.1 e.symm
    simp only [Fields.find, this, Bool.false_eq_true, if_false]
    exact ih h.2

/-- **C08, responses with a body.**  `tx_response::message(body.size())` for a status that permits content, followed
    by the body, is received by `response_receiver::receive` as one VALID response with the same version, status,
    reason, header fields (plus the Content-Length the encoder added) and body. -/
theorem response_roundtrip (cfg : Cfg) (maj min : Byte) (status : Nat) (reason : Bytes) (hs : HdrList)
    (body rest : Bytes) (ok : RespHeadOk cfg maj min status reason (hs ++ [clLine body.length]))
    (permitted : Enc.contentPermitted (status : Int) = true)
    (needs : Enc.needsContentLength (encHeaders hs) = true)
    (hnocl : ∀ p ∈ hs, lowerBytes p.1 ≠ (b!"content-length"))
    (hte : (fieldsOf [] hs).find (b!"transfer-encoding") = [])
    (hmax : body.length ≤ LONG_MAX) :
    RS.receive cfg {} (Enc.txResponseMessage maj min (status : Int) reason (encHeaders hs) body.length ++ (body ++ rest)) =
      ({ response := parsedResponse maj min status reason (hs ++ [clLine body.length]), body := body }, rest, .valid) := by
  have hmsg : Enc.txResponseMessage maj min (status : Int) reason (encHeaders hs) body.length ++ (body ++ rest) =
      Enc.responseLine maj min (status : Int) reason ++
        (encHeaders (hs ++ [clLine body.length]) ++ 13 :: 10 :: (body ++ rest)) := by
    simp [Enc.txResponseMessage, needs, permitted, contentLengthHeader_eq, encHeaders_append, Enc.crlf, Gen.cCRLF]
  have hlow : lowerBytes Gen.cHEADER_CONTENT_LENGTH = (b!"content-length") := by decide
  have hnot : (b!"content-length") ∉ names (fieldsOf [] hs) := by
    intro hmem
    rcases names_fieldsOf hs [] _ hmem with h | ⟨p, hp, hx⟩
    · simp [names] at h
    · exact hnocl p hp hx
  have hF : fieldsOf [] (hs ++ [clLine body.length]) =
      (fieldsOf [] hs).add (b!"content-length") (toDecString body.length) := by
    rw [fieldsOf_append]
    simp [fieldsOf, hlow, clLine]
  have hd := C08.dec_digits body.length
  rw [hmsg]
  apply resp_receive_wire cfg maj min status reason _ body rest ok
  · rw [hF, find_add_ne _ _ _ _ (by decide)]
    exact hte
  · rw [hF, find_add_self _ _ _ hnot]
    exact hd.1
  · rw [hF, find_add_self _ _ _ hnot]
    exact dec_roundtrip _ hmax

/-- **C08, responses that may not carry content** (1xx, 204, 304: the encoder adds no Content-Length): the head alone
    is received as one VALID response with an empty body. -/
theorem response_roundtrip_nocontent (cfg : Cfg) (maj min : Byte) (status : Nat) (reason : Bytes) (hs : HdrList)
    (n : Nat) (ok : RespHeadOk cfg maj min status reason hs)
    (permitted : Enc.contentPermitted (status : Int) = false)
    (hnocl : ∀ p ∈ hs, lowerBytes p.1 ≠ (b!"content-length"))
    (hte : (fieldsOf [] hs).find (b!"transfer-encoding") = []) :
    RS.receive cfg {} (Enc.txResponseMessage maj min (status : Int) reason (encHeaders hs) n) =
      ({ response := parsedResponse maj min status reason hs, body := [] }, [], .valid) := by
  have hmsg : Enc.txResponseMessage maj min (status : Int) reason (encHeaders hs) n =
      Enc.responseLine maj min (status : Int) reason ++ (encHeaders hs ++ 13 :: 10 :: []) := by
    simp [Enc.txResponseMessage, permitted, Enc.crlf, Gen.cCRLF]
  have hnot : (b!"content-length") ∉ names (fieldsOf [] hs) := by
    intro hmem
    rcases names_fieldsOf hs [] _ hmem with h | ⟨p, hp, hx⟩
    · simp [names] at h
    · exact hnocl p hp hx
  rw [hmsg]
  exact resp_receive_wire_nobody cfg maj min status reason hs ok hte (find_not_mem _ _ hnot)

/-! ### chunks -/

theorem ch_valid_stop (cfg : Cfg) (s : CH) (rest : Bytes) (h : s.st = .valid) :
    CH.loop cfg s rest = (s, rest, false) := by
  cases rest with
  | nil => simp [CH.loop]
  | cons c cs => simp [CH.loop, h]

theorem ch_size_crlf (cfg : Cfg) (h rest : Bytes) (L n : Nat) (hn : chunkSizeOf h = n) (hc : n ≤ cfg.maxChunk)
    (hl : L + 2 ≤ cfg.maxLine) :
    CH.loop cfg ⟨0, L, 0, h, [], .size, false, false, false⟩ (13 :: 10 :: rest) =
      (⟨n, L + 2, 0, h, [], .valid, true, false, false⟩, rest, false) := by
  have h1 : ¬ (cfg.maxLine < L + 1) := by omega
  have h2 : ¬ (cfg.maxLine < L + 1 + 1) := by omega
  have h3 : ¬ (cfg.maxChunk < n) := by omega
  have e1 : isXDigit 13 = false := by decide
  have e2 : isEol 13 = true := by decide
  simp only [CH.loop, CH.parseChar, CH.sizeStep]
  simp [h1, h2, h3, e1, e2, hn]
  rw [ch_valid_stop _ _ _ rfl]

theorem ch_ext_crlf (cfg : Cfg) (h x rest : Bytes) (L n w : Nat) (hl : L + 2 ≤ cfg.maxLine) :
    CH.loop cfg ⟨n, L, w, h, x, .extension, true, false, false⟩ (13 :: 10 :: rest) =
      (⟨n, L + 2, w, h, x, .valid, true, false, false⟩, rest, false) := by
  have h1 : ¬ (cfg.maxLine < L + 1) := by omega
  have h2 : ¬ (cfg.maxLine < L + 1 + 1) := by omega
  have e2 : isEol 13 = true := by decide
  simp only [CH.loop, CH.parseChar, CH.extStep]
  simp [h1, h2, e2]
  rw [ch_valid_stop _ _ _ rfl]

/-- valid components of a chunk header -/
structure ChunkHdrOk (cfg : Cfg) (n : Nat) (ext : Bytes) : Prop where
  size_fits : n ≤ cfg.maxChunk
  size_max : n ≤ LONG_MAX
  digits : Gen.maxSizeDigits = 16
  ext_ok : ∀ c ∈ ext, isEol c = false
  ext_lead : ∀ c, ext.head? = some c → isBlank c = false
  ws : 1 ≤ cfg.maxWs
  fits : (Enc.chunkHeader n ext).length ≤ cfg.maxLine

/-- `chunk_header::to_string` → `chunk_header::parse`, whatever follows: the exact parser state -/
theorem chunkHeader_roundtrip (cfg : Cfg) (n : Nat) (ext rest : Bytes) (ok : ChunkHdrOk cfg n ext) :
    CH.parse cfg {} (Enc.chunkHeader n ext ++ rest) =
      ({ size := n, length := (Enc.chunkHeader n ext).length, ws := if ext.isEmpty then 0 else 1,
         hexSize := toHexString n, ext := ext, st := .valid, sizeRead := true, valid := true }, rest, true) := by
  obtain ⟨h1, h2, _⟩ := C08.hex_digits n
  have hlen := C08.hex_length n ok.size_max
  have hcs := C08.chunkSizeOf_hex n ok.size_max
  have hline := ok.fits
  have hsz := ok.digits
  rw [List.all_eq_true] at h2
  generalize hds : toHexString n = ds at h1 h2 hlen hcs
  cases ds with
  | nil => exact absurd rfl h1
  | cons d ds =>
    have hdx : isXDigit d = true := h2 d (by simp)
    have hdsx : ∀ c ∈ ds, isXDigit c = true := fun c hc => h2 c (by simp [hc])
    cases ext with
    | nil =>
      have hE : Enc.chunkHeader n [] = d :: (ds ++ [13, 10]) := by
        simp [Enc.chunkHeader, hds, Enc.crlf, Gen.cCRLF]
      rw [hE] at hline ⊢
      simp at hline hlen
      have hE2 : d :: (ds ++ [13, 10]) ++ rest = d :: (ds ++ 13 :: 10 :: rest) := by simp
      rw [hE2]
      unfold CH.parse
      rw [C08.loop_first cfg d _ hdx (by omega) (by omega),
        C08.loop_size cfg _ ds [d] 1 hdsx (by simp; omega) (by omega),
        ch_size_crlf cfg ([d] ++ ds) _ _ n hcs ok.size_fits (by omega)]
      simp
      omega
    | cons e es =>
      have hE : Enc.chunkHeader n (e :: es) = d :: (ds ++ 59 :: 32 :: e :: (es ++ [13, 10])) := by
        simp [Enc.chunkHeader, hds, Enc.crlf, Gen.cCRLF]
      rw [hE] at hline ⊢
      simp at hline hlen
      have heb : isBlank e = false := ok.ext_lead e rfl
      have hee : isEol e = false := ok.ext_ok e (by simp)
      have hes : ∀ c ∈ es, isEol c = false := fun c hc => ok.ext_ok c (by simp [hc])
      have hE2 : d :: (ds ++ 59 :: 32 :: e :: (es ++ [13, 10])) ++ rest =
          d :: (ds ++ 59 :: 32 :: e :: (es ++ 13 :: 10 :: rest)) := by simp
      rw [hE2]
      unfold CH.parse
      rw [C08.loop_first cfg d _ hdx (by omega) (by omega),
        C08.loop_size cfg _ ds [d] 1 hdsx (by simp; omega) (by omega),
        C08.loop_size_semi cfg ([d] ++ ds) _ e _ n hcs ok.size_fits ok.ws hee heb (by omega),
        C08.loop_ext cfg _ _ _ _ es [e] _ hes (by omega),
        ch_ext_crlf cfg _ _ _ _ _ _ (by omega)]
      simp
      omega

/-- the header state `chunkHeader_roundtrip` arrives at -/
def parsedChunkHdr (n : Nat) (ext : Bytes) : CH :=
  { size := n, length := (Enc.chunkHeader n ext).length, ws := if ext.isEmpty then 0 else 1,
    hexSize := toHexString n, ext := ext, st := .valid, sizeRead := true, valid := true }

/-- **C08, chunks.**  What `http_connection::send_chunk` writes for a non-empty chunk — `chunk_header::to_string`,
    the data, CRLF — is received by `rx_chunk::parse` as one valid chunk with the same size, extension and data;
    later bytes stay unread. -/
theorem chunk_roundtrip (cfg : Cfg) (ext data rest : Bytes) (hne : data ≠ [])
    (ok : ChunkHdrOk cfg data.length ext) :
    CK.parse cfg {} (Enc.chunkHeader data.length ext ++ (data ++ 13 :: 10 :: rest)) =
      ({ hdr := parsedChunkHdr data.length ext, data := data, valid := true, dataCr := true }, rest, true) := by
  have hh := chunkHeader_roundtrip cfg data.length ext (data ++ 13 :: 10 :: rest) ok
  have hpos : 0 < data.length := by cases data <;> simp_all
  have hlast : (data.length == 0) = false := by simp; omega
  have hgt : data.length < (data ++ 13 :: 10 :: rest).length := by simp
  unfold CK.parse
  simp only [hh]
  simp only [Bool.not_true, Bool.false_eq_true, if_false, CK.isLast, hlast]
  unfold CK.parseData
  simp only [List.length_nil, Nat.sub_zero, hgt, if_true, List.take_left', List.drop_left', List.nil_append]
  simp [parsedChunkHdr]

theorem lastChunk_eq (ext tr : Bytes) : Enc.lastChunk ext tr = Enc.chunkHeader 0 ext ++ (tr ++ Enc.crlf) := by
  have : toHexString 0 = [48] := by decide
  simp [Enc.lastChunk, Enc.chunkHeader, this]

/-- **C08, last chunk.**  `last_chunk::to_string` with any extension and any list of valid trailer lines is received by
    `rx_chunk::parse` as the valid last chunk with the same extension and trailer fields. -/
theorem lastChunk_roundtrip (cfg : Cfg) (ext : Bytes) (ts : HdrList) (rest : Bytes)
    (ok : ChunkHdrOk cfg 0 ext) (hlines : ∀ p ∈ ts, LineOk cfg p.1 p.2)
    (hl : totalLen ts ≤ cfg.maxHdrLen) (hn : ts.length ≤ cfg.maxHdrNum) :
    CK.parse cfg {} (Enc.lastChunk ext (encHeaders ts) ++ rest) =
      ({ hdr := parsedChunkHdr 0 ext,
         trailers := { fields := fieldsOf [] ts, valid := true, blankCr := true, number := ts.length,
                       length := totalLen ts },
         valid := true }, rest, true) := by
  have hE : Enc.lastChunk ext (encHeaders ts) ++ rest =
      Enc.chunkHeader 0 ext ++ (encHeaders ts ++ 13 :: 10 :: rest) := by
    simp [lastChunk_eq, Enc.crlf, Gen.cCRLF]
  have hh := chunkHeader_roundtrip cfg 0 ext (encHeaders ts ++ 13 :: 10 :: rest) ok
  have ht := headers_roundtrip cfg ts rest ok.ws hlines hl hn
  rw [hE]
  unfold CK.parse
  simp only [hh]
  simp [CK.isLast, ht, parsedChunkHdr]

/-! ### chunked messages through the receivers -/

/-- the head of a chunked response (any header list that the receiver regards as chunked) is received as VALID, with
    the chunks left unread -/
theorem resp_chunked_head (cfg : Cfg) (maj min : Byte) (status : Nat) (reason : Bytes) (hs : HdrList) (rest : Bytes)
    (ok : RespHeadOk cfg maj min status reason hs)
    (hch : MH.isChunked (parsedResponse maj min status reason hs).headers = true) :
    RS.receive cfg {} (Enc.responseLine maj min (status : Int) reason ++ (encHeaders hs ++ 13 :: 10 :: rest)) =
      ({ response := parsedResponse maj min status reason hs }, rest, .valid) := by
  have hp := resp_head_roundtrip cfg maj min status reason hs rest ok
  unfold RS.receive
  simp only [hp, Bool.not_false, if_true, Bool.not_true, Bool.false_eq_true, if_false, hch]

/-- … and every chunk the encoder writes afterwards is delivered as CHUNK with the same data and extension
    (`k0` is whatever the previous delivery left: a fresh chunk object or a completed one) -/
theorem resp_chunk_received (cfg : Cfg) (q : RP) (k0 : CK) (b0 : Bytes) (ext data rest : Bytes)
    (hq : q.valid = true) (hch : MH.isChunked q.headers = true) (hk : k0 = {} ∨ k0.valid = true)
    (hne : data ≠ []) (ok : ChunkHdrOk cfg data.length ext) :
    RS.receive cfg { response := q, chunk := k0, body := b0 }
        (Enc.chunkHeader data.length ext ++ (data ++ 13 :: 10 :: rest)) =
      ({ response := q, body := b0,
         chunk := { hdr := parsedChunkHdr data.length ext, data := data, valid := true, dataCr := true } },
        rest, .chunk) := by
  have hc := chunk_roundtrip cfg ext data rest hne ok
  have hk' : (if k0.valid = true then ({ response := q, chunk := {}, body := b0 } : RS)
      else { response := q, chunk := k0, body := b0 }) = { response := q, chunk := {}, body := b0 } := by
    rcases hk with h | h
    · subst h; simp
    · simp [h]
  unfold RS.receive
  simp only [hq, Bool.not_true, Bool.false_eq_true, if_false, hch, hk', hc]
  simp

/-- … and the last chunk with its trailers likewise -/
theorem resp_last_chunk_received (cfg : Cfg) (q : RP) (k0 : CK) (b0 : Bytes) (ext : Bytes) (ts : HdrList) (rest : Bytes)
    (hq : q.valid = true) (hch : MH.isChunked q.headers = true) (hk : k0 = {} ∨ k0.valid = true)
    (ok : ChunkHdrOk cfg 0 ext) (hlines : ∀ p ∈ ts, LineOk cfg p.1 p.2)
    (hl : totalLen ts ≤ cfg.maxHdrLen) (hn : ts.length ≤ cfg.maxHdrNum) :
    let r := RS.receive cfg { response := q, chunk := k0, body := b0 } (Enc.lastChunk ext (encHeaders ts) ++ rest)
    r.2.2 = .chunk ∧ r.2.1 = rest ∧ r.1.chunk.isLast = true ∧ r.1.chunk.hdr.ext = ext ∧
      r.1.chunk.trailers.fields = fieldsOf [] ts := by
  have hc := lastChunk_roundtrip cfg ext ts rest ok hlines hl hn
  have hk' : (if k0.valid = true then ({ response := q, chunk := {}, body := b0 } : RS)
      else { response := q, chunk := k0, body := b0 }) = { response := q, chunk := {}, body := b0 } := by
    rcases hk with h | h
    · subst h; simp
    · simp [h]
  intro r
  have hr : r = RS.receive cfg { response := q, chunk := k0, body := b0 } (Enc.lastChunk ext (encHeaders ts) ++ rest) := rfl
  rw [hr]
  unfold RS.receive
  simp only [hq, Bool.not_true, Bool.false_eq_true, if_false, hch, hk', hc]
  simp [CK.isLast, parsedChunkHdr]

/-! ### chunked requests through `request_receiver` -/

/-- the head of a chunked request, application receives chunks one by one (`concatenate_chunks` off): VALID, chunks
    left unread -/
theorem req_chunked_head (cfg : Cfg) (m u : Bytes) (maj min : Byte) (hs : HdrList) (rest : Bytes)
    (ok : HeadOk cfg m u maj min hs) (hcc : cfg.concatChunks = false)
    (hhost : RQ.missingHost (parsedRequest m u maj min hs) = false)
    (hch : MH.isChunked (parsedRequest m u maj min hs).headers = true)
    (hexp : RQ.expectContinue (parsedRequest m u maj min hs) = false) :
    RR.receive cfg {} (Enc.requestLine m u maj min ++ (encHeaders hs ++ 13 :: 10 :: rest)) =
      ({ request := parsedRequest m u maj min hs }, rest, .valid) := by
  have hp := head_roundtrip cfg m u maj min hs rest ok
  unfold RR.receive
  simp only [hp, Bool.not_false, if_true, Bool.not_true, Bool.false_eq_true, if_false, hhost, hch]
  unfold RR.receiveChunk
  simp [hexp, hcc]

/-- … then every chunk the encoder writes is delivered as CHUNK … -/
theorem req_chunk_received (cfg : Cfg) (r : RR) (ext data rest : Bytes)
    (hq : r.request.valid = true) (hhost : r.request.missingHost = false)
    (hch : MH.isChunked r.request.headers = true) (hcc : cfg.concatChunks = false)
    (hk : r.chunk = {} ∨ r.chunk.valid = true) (hne : data ≠ []) (ok : ChunkHdrOk cfg data.length ext) :
    RR.receive cfg r (Enc.chunkHeader data.length ext ++ (data ++ 13 :: 10 :: rest)) =
      ({ r with chunk := { hdr := parsedChunkHdr data.length ext, data := data, valid := true, dataCr := true } },
        rest, .chunk) := by
  have hc := chunk_roundtrip cfg ext data rest hne ok
  have hk' : (if r.chunk.valid = true then ({ r with chunk := {} } : RR) else r) = { r with chunk := {} } := by
    rcases hk with h | h
    · cases r; simp_all
    · simp [h]
  unfold RR.receive
  simp only [hq, Bool.not_true, Bool.false_eq_true, if_false, hhost, hch]
  unfold RR.receiveChunk
  simp only [hk', Bool.false_eq_true, if_false, hc]
  simp [hcc]

/-- … and with `concatenate_chunks` on, a chunk is appended to the body (INCOMPLETE) as long as the body stays within
    the content limit -/
theorem req_chunk_concatenated (cfg : Cfg) (r : RR) (ext data rest : Bytes)
    (hq : r.request.valid = true) (hhost : r.request.missingHost = false)
    (hch : MH.isChunked r.request.headers = true) (hcc : cfg.concatChunks = true)
    (hk : r.chunk = {} ∨ r.chunk.valid = true) (hne : data ≠ []) (ok : ChunkHdrOk cfg data.length ext)
    (hfit : r.body.length + data.length ≤ cfg.maxContent) :
    RR.receive cfg r (Enc.chunkHeader data.length ext ++ (data ++ 13 :: 10 :: rest)) =
      ({ r with chunk := { hdr := parsedChunkHdr data.length ext, data := data, valid := true, dataCr := true },
                body := r.body ++ data }, rest, .incomplete) := by
  have hc := chunk_roundtrip cfg ext data rest hne ok
  have hk' : (if r.chunk.valid = true then ({ r with chunk := {} } : RR) else r) = { r with chunk := {} } := by
    rcases hk with h | h
    · cases r; simp_all
    · simp [h]
  have hpos : 0 < data.length := by cases data <;> simp_all
  have hnl : (data.length == 0) = false := by simp; omega
  have hle : ¬ (cfg.maxContent < r.body.length + data.length) := by omega
  unfold RR.receive
  simp only [hq, Bool.not_true, Bool.false_eq_true, if_false, hhost, hch]
  unfold RR.receiveChunk
  simp only [hk', Bool.false_eq_true, if_false, hc]
  simp [hcc, CK.isLast, parsedChunkHdr, hnl, hle]

/-- … and the last chunk completes the request: VALID with the concatenated body and the trailers -/
theorem req_last_chunk_concatenated (cfg : Cfg) (r : RR) (ext : Bytes) (ts : HdrList) (rest : Bytes)
    (hq : r.request.valid = true) (hhost : r.request.missingHost = false)
    (hch : MH.isChunked r.request.headers = true) (hcc : cfg.concatChunks = true)
    (hk : r.chunk = {} ∨ r.chunk.valid = true)
    (ok : ChunkHdrOk cfg 0 ext) (hlines : ∀ p ∈ ts, LineOk cfg p.1 p.2)
    (hl : totalLen ts ≤ cfg.maxHdrLen) (hn : ts.length ≤ cfg.maxHdrNum) :
    let x := RR.receive cfg r (Enc.lastChunk ext (encHeaders ts) ++ rest)
    x.2.2 = .valid ∧ x.2.1 = rest ∧ x.1.body = r.body ∧ x.1.chunk.trailers.fields = fieldsOf [] ts := by
  have hc := lastChunk_roundtrip cfg ext ts rest ok hlines hl hn
  have hk' : (if r.chunk.valid = true then ({ r with chunk := {} } : RR) else r) = { r with chunk := {} } := by
    rcases hk with h | h
    · cases r; simp_all
    · simp [h]
  intro x
  have hx : x = RR.receive cfg r (Enc.lastChunk ext (encHeaders ts) ++ rest) := rfl
  rw [hx]
  unfold RR.receive
  simp only [hq, Bool.not_true, Bool.false_eq_true, if_false, hhost, hch]
  unfold RR.receiveChunk
  simp only [hk', Bool.false_eq_true, if_false, hc]
  simp [hcc, CK.isLast, parsedChunkHdr]

/-! ### non-vacuity: concrete instances of the premises -/

/-- `HTTP/1.1 200 OK`, `Server: via`, a 2-byte body; a 5-byte chunk with an extension; default limits -/
example : RespHeadOk {} 49 49 200 (b!"OK") ([((b!"Server"), (b!"via"))] ++ [clLine 2]) ∧
    Enc.contentPermitted 200 = true ∧ ChunkHdrOk {} 5 (b!"a=b") ∧ ChunkHdrOk {} 0 [] := by
  refine ⟨⟨⟨by decide, by decide, by decide, by decide, by decide, by decide⟩, by decide, ?_, by decide, by decide⟩,
    by decide, ⟨by decide, by decide, by decide, by decide, by decide, by decide, by decide⟩,
    ⟨by decide, by decide, by decide, by decide, by decide, by decide, by decide⟩⟩
  intro p hp
  simp only [List.cons_append, List.nil_append, List.mem_cons, List.not_mem_nil, or_false] at hp
  rcases hp with rfl | rfl
  · exact ⟨by decide, by decide, by decide, by decide, by decide⟩
  · exact clLine_ok {} 2 (by decide)

theorem instance_resp_ok : RespHeadOk {} 49 49 200 (b!"OK") ([((b!"Server"), (b!"via"))] ++ [clLine (b!"hi").length]) := by
  refine ⟨⟨by decide, by decide, by decide, by decide, by decide, by decide⟩, by decide, ?_, by decide, by decide⟩
  intro p hp
  simp only [List.cons_append, List.nil_append, List.mem_cons, List.not_mem_nil, or_false] at hp
  rcases hp with rfl | rfl
  · exact ⟨by decide, by decide, by decide, by decide, by decide⟩
  · exact clLine_ok {} 2 (by decide)

/-- `response_roundtrip` instantiated: all its premises hold together for `HTTP/1.1 200 OK / Server: via / "hi"` -/
example (rest : Bytes) :
    RS.receive {} {} (Enc.txResponseMessage 49 49 (200 : Nat) (b!"OK") (encHeaders [((b!"Server"), (b!"via"))])
        (b!"hi").length ++ ((b!"hi") ++ rest)) =
      ({ response := parsedResponse 49 49 200 (b!"OK") ([((b!"Server"), (b!"via"))] ++ [clLine (b!"hi").length]),
         body := (b!"hi") }, rest, .valid) :=
  response_roundtrip {} 49 49 200 (b!"OK") [((b!"Server"), (b!"via"))] (b!"hi") rest instance_resp_ok
    (by decide) (by decide) (by decide) (by decide) (by decide)

end RT
end Via
