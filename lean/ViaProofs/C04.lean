import ViaProofs.ConnLemmas
import ViaProofs.C13
import ViaProofs.C08
/-
  C04 — every message written to the wire is well-formed, correctly framed HTTP/1.1.

  Theorems about the encoders and the send paths of the model (the grammar oracle of the check judges the bytes the
  REAL code wrote):
  * `C04_head_shape`     (= C13) a response head the library agrees to send is a sequence of non-empty CRLF/LF
                         terminated lines followed by exactly one empty line;
  * `C04_refused`        a response whose header block is not valid is refused and nothing is written;
  * `C04_framing_added`  unless the application's header string already mentions a framing header, a response whose
                         status permits a body carries `Content-Length: <size>` immediately before the empty line;
  * `C04_chunk_wire`     `send_chunk` hands the adaptor exactly: chunk header (hex size, optional extension, CRLF),
                         the data, CRLF — two bytes, not the three of the unrepaired `buffer(CRLF)`;
  * `C04_chunk_header_parses` (= C08) that chunk header is accepted by the library's own chunk parser with the same size.
  Known finding C04-KF1: the framing headers are detected by case-sensitive substring search.
-/
namespace Via
open Sim

theorem C04_head_shape : C13_statement := C13

theorem C04_refused (fuel : Nat) (w : World) (i : Nat) (status : Int) (reason hs body : Bytes) (ovl : Nat)
    (h : headersValid hs = false) : httpSend fuel w i status reason hs body ovl = (w, false) :=
  httpSend_refused fuel w i status reason hs body ovl h

theorem C04_framing_added (maj min : Byte) (status : Int) (reason hs : Bytes) (n : Nat)
    (hneed : Enc.needsContentLength hs = true) (hperm : Enc.contentPermitted status = true) :
    Enc.txResponseMessage maj min status reason hs n =
      Enc.responseLine maj min status reason ++ hs ++ Enc.contentLengthHeader n ++ [13, 10] := by
  have hcr : Enc.crlf = [13, 10] := by decide
  unfold Enc.txResponseMessage
  simp [hneed, hperm, hcr]

/-- no Content-Length is invented for 1xx / 204 / 304 -/
theorem C04_no_framing_when_no_content (maj min : Byte) (status : Int) (reason hs : Bytes) (n : Nat)
    (hperm : Enc.contentPermitted status = false) :
    Enc.txResponseMessage maj min status reason hs n = Enc.responseLine maj min status reason ++ hs ++ [13, 10] := by
  have hcr : Enc.crlf = [13, 10] := by decide
  unfold Enc.txResponseMessage
  simp [hperm, hcr]

/-- what `send_chunk` hands to the adaptor, resolved when the write completes -/
theorem C04_chunk_wire (c : Conn) (d ext : Bytes) :
    bufsBytes { c with txHeader := Enc.chunkHeader d.length ext, txBody := d } [.hdr, .body, .lit [13, 10]] =
      Enc.chunkHeader d.length ext ++ d ++ [13, 10] := by
  simp [bufsBytes, bufBytes]

theorem C04_chunk_header_parses (cfg : Cfg) (n : Nat) (ext : Bytes)
    (hn : n ≤ cfg.maxChunk) (hmax : n ≤ LONG_MAX) (hsz : Gen.maxSizeDigits = 16)
    (hext : ∀ c ∈ ext, isEol c = false) (hlead : ∀ c, ext.head? = some c → isBlank c = false)
    (hws : 1 ≤ cfg.maxWs) (hline : (Enc.chunkHeader n ext).length ≤ cfg.maxLine) :
    let r := CH.parse cfg {} (Enc.chunkHeader n ext)
    r.2.2 = true ∧ r.2.1 = [] ∧ r.1.size = n ∧ r.1.ext = ext :=
  chunk_header_roundtrip cfg n ext hn hmax hsz hext hlead hws hline

end Via
