import ViaProofs.Statements
namespace Via
end Via
