import ViaProofs.ConnLemmas
import ViaProofs.ConnWrites
/-
  C03 — each request gets exactly one complete response, in order, in every schedule.

  The full statement is FALSE of the code (known finding C03-KF1: a response issued while a write is in flight is
  refused by `send_data` and the slots of the write in flight are overwritten).  What is proved is the step
  property that gives the partial result for histories in which no send overlaps a write in flight
  (`C03_partial_*`), and the refusal itself as a theorem about the model (`C03_overlap_is_refused`):
  * `C03_partial_write_started`  a send on an idle connected connection starts exactly ONE write, of exactly the
                                 buffers of that response, appended after the writes already queued (order);
  * `C03_partial_bytes_stable`   the bytes the adaptor reads at completion are the bytes of the response as long as
                                 the slots are not reassigned in between (no stale buffer);
  * `C03_overlap_is_refused`     with a write in flight `send_data` starts nothing and marks the history.
-/
namespace Via
open Sim

theorem C03_partial_write_started (w : World) (i : Nat) (bufs : List Buf) (hi : i < w.conns.length)
    (hc : (w.get i).connected = true) (ht : (w.get i).transmitting = false) :
    (sendData w i bufs).2 = true ∧
    ((sendData w i bufs).1.get i).transmitting = true ∧
    ((sendData w i bufs).1.get i).writes = (w.get i).writes ++ [bufs] ∧
    ((sendData w i bufs).1.get i).shutdownSent = (w.get i).shutdownSent :=
  sendData_starts w i bufs hi hc ht

/-- resolution of the buffers depends only on the two slots -/
theorem C03_partial_bytes_stable (c c' : Conn) (bufs : List Buf)
    (hh : c'.txHeader = c.txHeader) (hb : c'.txBody = c.txBody) : bufsBytes c' bufs = bufsBytes c bufs := by
  unfold bufsBytes
  congr 1
  apply List.map_congr_left
  intro b _
  cases b <;> simp [bufBytes, hh, hb]

theorem C03_overlap_is_refused (w : World) (i : Nat) (bufs : List Buf) (ht : (w.get i).transmitting = true) :
    (sendData w i bufs).2 = false ∧ (sendData w i bufs).1.sendWhileTransmitting = true ∧
    ((sendData w i bufs).1.get i).writes = (w.get i).writes := by
  unfold sendData
  simp only [ht, ↓reduceIte]
  refine ⟨trivial, ?_, ?_⟩ <;> rfl

/-- TRACE LEVEL: after every history at most ONE write is in flight per connection (responses can therefore not be
    interleaved on the wire: the adaptor is never given a second buffer sequence before the first has completed), and a
    write in flight implies `transmitting_` (so any further send in that window is the refused one of
    `C03_overlap_is_refused`, the known finding, and nothing else). -/
theorem C03_partial_one_write_in_flight (serverOptions : List String) (history : List (List String)) (i : Nat) :
    let w := history.foldl simOp (mkServer serverOptions)
    (w.get i).writes.length ≤ 1 ∧ ((w.get i).writes ≠ [] → (w.get i).transmitting = true) := by
  intro w
  obtain ⟨h1, h2, _⟩ := winv_get (history_winv serverOptions history) i
  exact ⟨h1, h2⟩

end Via
