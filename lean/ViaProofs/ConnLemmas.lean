import ViaModel
/-
  Theorems about the connection-layer model (`ViaModel/Conn.lean`, `SimDriver.lean`).

  One-step lemmas (decision logic of the send / close / HEAD / refusal paths, for every world, connection and
  payload) and one history invariant (`Inv`, preserved by every script operation, hence true after every history
  of accepts, completions, errors, application actions and teardowns — C10 / C11).

  `Inv ∧ Settled` alone is NOT inductive over arbitrary worlds (`simOp_inv_original_false`: a stored handshake
  completion on a connection whose session is already over produces a second CONNECTED event), so the history
  theorems go through the strengthened invariant `InvS` (= `Inv ∧ Settled ∧ HsFresh`), which holds for
  `mkServer`, is preserved by every `simOp`, and therefore holds after every history (`history_inv`).
-/
namespace Via.Sim
open Via

/-! ### accessors -/

theorem aux_get_upd_self (w : World) (i : Nat) (f : Conn → Conn) (hi : i < w.conns.length) :
    (w.upd i f).get i = f (w.get i) := by
  simp [World.get, World.upd, List.getD_eq_getElem?_getD, hi]

theorem aux_get_upd_ne (w : World) (i j : Nat) (f : Conn → Conn) (h : j ≠ i) :
    (w.upd i f).get j = w.get j := by
  simp [World.get, World.upd, List.getD_eq_getElem?_getD, Ne.symm h]

theorem aux_upd_oob (w : World) (i : Nat) (f : Conn → Conn) (h : w.conns.length ≤ i) :
    w.upd i f = w := by
  simp [World.upd, List.modify_eq_self h]

@[simp] theorem aux_get_emit (w : World) (s : String) (i : Nat) : (w.emit s).get i = w.get i := rfl
@[simp] theorem aux_conns_emit (w : World) (s : String) : (w.emit s).conns = w.conns := rfl
@[simp] theorem aux_opts_emit (w : World) (s : String) : (w.emit s).opts = w.opts := rfl
@[simp] theorem aux_opts_upd (w : World) (i : Nat) (f : Conn → Conn) : (w.upd i f).opts = w.opts := rfl
@[simp] theorem aux_len_upd (w : World) (i : Nat) (f : Conn → Conn) :
    (w.upd i f).conns.length = w.conns.length := by simp [World.upd]

/-! ### C13 / C04: a response with an invalid header block is refused and nothing is written -/

theorem httpSend_refused (fuel : Nat) (w : World) (i : Nat) (status : Int) (reason hs body : Bytes) (ovl : Nat)
    (h : headersValid hs = false) :
    httpSend fuel w i status reason hs body ovl = (w, false) := by
  cases fuel with
  | zero => simp [httpSend]
  | succ n => simp [httpSend, h]

/-! ### C09: close only after the response is out -/

/-- `disconnect()` while a write is in flight only records the request: no shutdown, no output -/
theorem disconnect_defers (fuel : Nat) (w : World) (i : Nat) (h : (w.get i).transmitting = true) :
    disconnectConn (fuel + 1) w i = w.upd i fun c => { c with disconnectPending := true } := by
  simp [disconnectConn, h]

/-- `send_data` on an idle, connected connection starts exactly one write -/
theorem sendData_starts (w : World) (i : Nat) (bufs : List Buf) (hi : i < w.conns.length)
    (hc : (w.get i).connected = true) (ht : (w.get i).transmitting = false) :
    (sendData w i bufs).2 = true ∧
    ((sendData w i bufs).1.get i).transmitting = true ∧
    ((sendData w i bufs).1.get i).writes = (w.get i).writes ++ [bufs] ∧
    ((sendData w i bufs).1.get i).shutdownSent = (w.get i).shutdownSent := by
  simp [sendData, hc, ht, aux_get_upd_self, hi]

/-- the tail of every response send for a NON keep-alive request on an idle connection: the write is started,
    the function reports `false`, and the shutdown is deferred (`disconnectPending`), not performed -/
theorem sendTail_close_deferred (fuel : Nat) (w : World) (i : Nat) (bufs : List Buf) (hi : i < w.conns.length)
    (halive : (w.get i).alive = true) (hc : (w.get i).connected = true) (ht : (w.get i).transmitting = false)
    (hss : (w.get i).shutdownSent = false) (hka : (w.get i).rx.request.keepAlive = false) :
    let r := httpSendTail (fuel + 2) w i bufs false
    r.2 = false ∧ (r.1.get i).disconnectPending = true ∧ (r.1.get i).shutdownSent = false ∧
    (r.1.get i).writes = (w.get i).writes ++ [bufs] := by
  simp [httpSendTail, sendData, disconnectConn, aux_get_upd_self, hi, halive, hc, ht, hss, hka]

/-- … and for a keep-alive request nothing is scheduled -/
theorem sendTail_keepalive (fuel : Nat) (w : World) (i : Nat) (bufs : List Buf) (hi : i < w.conns.length)
    (halive : (w.get i).alive = true) (hc : (w.get i).connected = true) (ht : (w.get i).transmitting = false)
    (hka : (w.get i).rx.request.keepAlive = true) :
    let r := httpSendTail (fuel + 2) w i bufs false
    r.2 = true ∧ (r.1.get i).disconnectPending = (w.get i).disconnectPending ∧
    (r.1.get i).shutdownSent = (w.get i).shutdownSent := by
  simp [httpSendTail, sendData, aux_get_upd_self, hi, halive, hc, ht, hka]

/-- completion of a write: the deferred shutdown happens now, and only now -/
theorem writeDone_then_shutdown (fuel : Nat) (w : World) (i : Nat)
    (halive : (w.get i).alive = true) (hss : (w.get i).shutdownSent = false)
    (hdp : (w.get i).disconnectPending = true) :
    writeCallback (fuel + 1) w i none = shutdownConn fuel w i := by
  simp [writeCallback, halive, hss, hdp]

theorem writeDone_keepalive (fuel : Nat) (w : World) (i : Nat)
    (halive : (w.get i).alive = true) (hss : (w.get i).shutdownSent = false)
    (hdp : (w.get i).disconnectPending = false) :
    writeCallback (fuel + 1) w i none =
      commsEvent fuel (w.upd i fun c => { c with transmitting := false }) i 1 := by
  simp [writeCallback, halive, hss, hdp]

/-! ### C14: HEAD -/

/-- the head written for a HEAD request is the head written for the same response to GET (same status line, same
    header fields, Content-Length of the body), and only the head is handed to the adaptor -/
theorem httpSend_head (fuel : Nat) (w : World) (i : Nat) (status : Int) (reason hs body : Bytes) (ovl : Nat)
    (hi : i < w.conns.length) (hovl : ovl = 1 ∨ ovl = 2) (hv : headersValid hs = true)
    (halive : (w.get i).alive = true) (hc : (w.get i).connected = true) (ht : (w.get i).transmitting = false) :
    let wHead := w.upd i fun c => { c with rx := { c.rx with isHead := true } }
    let wGet := w.upd i fun c => { c with rx := { c.rx with isHead := false } }
    ((httpSend (fuel + 3) wHead i status reason hs body ovl).1.get i).txHeader =
      ((httpSend (fuel + 3) wGet i status reason hs body ovl).1.get i).txHeader ∧
    ((httpSend (fuel + 3) wHead i status reason hs body ovl).1.get i).writes = (w.get i).writes ++ [[Buf.hdr]] := by
  intro wHead wGet
  cases hk : (w.get i).rx.request.keepAlive <;> cases hcont : (status == (Gen.statusContinue : Int)) <;>
    rcases hovl with h | h <;> subst h <;> cases hb : body.isEmpty <;>
    simp [wHead, wGet, httpSend, httpSendTail, sendData, disconnectConn, respVersion, aux_get_upd_self, hi,
      halive, hc, ht, hv, hk, hcont, hb, Gen.continueKeepsOpen]

/-! ### C10 / C11: the history invariant -/

/-- per connection: lifecycle events are paired and ordered, and the server's two collections agree with what is
    alive -/
def ConnInv (c : Conn) : Prop :=
  c.connectedSeen ≤ 1 ∧ c.disconnectedSeen ≤ c.connectedSeen ∧ c.otherAfterDisc = 0 ∧
  (c.inHttp = true → c.connectedSeen = 1 ∧ c.disconnectedSeen = 0 ∧ c.inComms = true ∧ c.httpAlive = true) ∧
  (c.inComms = true → c.alive = true) ∧
  (c.httpAlive = true → c.alive = true) ∧
  (c.connectedSeen = 0 → c.inHttp = false)

def Inv (w : World) : Prop := ∀ c ∈ w.conns, ConnInv c

/-- after an operation has finished (objects nobody owns are destroyed): retained = open -/
def Settled (w : World) : Prop := ∀ c ∈ w.conns, (c.alive = true → c.inComms = true)

/-! ### strengthened invariant -/

/-- per connection: `ConnInv` plus "a stored handshake completion belongs to a connection the application has
    not seen yet" (without it a second CONNECTED event could be produced from an arbitrary world) -/
def aux_CIS (c : Conn) : Prop :=
  ConnInv c ∧ ((c.hsStored = true → c.connectedSeen = 0) ∧ (c.inHttp = true → c.connected = true))

def aux_InvC (w : World) : Prop := ∀ c ∈ w.conns, aux_CIS c

def InvS (w : World) : Prop := aux_InvC w ∧ Settled w

theorem aux_cis_default : aux_CIS ({} : Conn) := by
  simp [aux_CIS, ConnInv]

theorem aux_get_mem_or (w : World) (i : Nat) : w.get i ∈ w.conns ∨ w.get i = {} := by
  unfold World.get
  rw [List.getD_eq_getElem?_getD]
  cases h : w.conns[i]? with
  | none => right; rfl
  | some c => left; exact List.mem_of_getElem? h

theorem aux_cis_get {w : World} (h : aux_InvC w) (i : Nat) : aux_CIS (w.get i) := by
  rcases aux_get_mem_or w i with h1 | h1
  · exact h _ h1
  · rw [h1]; exact aux_cis_default

theorem aux_mem_modify {α} (l : List α) (i : Nat) (f : α → α) (c : α) (hc : c ∈ l.modify i f) :
    c ∈ l ∨ ∃ h : i < l.length, c = f l[i] := by
  rcases List.mem_iff_getElem.1 hc with ⟨j, hj, rfl⟩
  rw [List.getElem_modify]
  have hj' : j < l.length := by simpa using hj
  split
  · next h => subst h; right; exact ⟨hj', rfl⟩
  · left; exact List.getElem_mem hj'

theorem aux_get_eq_getElem (w : World) (i : Nat) (h : i < w.conns.length) : w.get i = w.conns[i] := by
  simp [World.get, List.getD_eq_getElem?_getD, h]

theorem aux_mem_upd (w : World) (i : Nat) (f : Conn → Conn) (c : Conn) (hc : c ∈ (w.upd i f).conns) :
    c ∈ w.conns ∨ (i < w.conns.length ∧ c = f (w.get i)) := by
  rcases aux_mem_modify _ _ _ _ hc with h | ⟨h, rfl⟩
  · left; exact h
  · right; exact ⟨h, by rw [aux_get_eq_getElem w i h]⟩

theorem aux_invc_upd {w : World} {i : Nat} {f : Conn → Conn} (h : aux_InvC w)
    (hf : i < w.conns.length → aux_CIS (f (w.get i))) : aux_InvC (w.upd i f) := by
  intro c hc
  rcases aux_mem_upd _ _ _ _ hc with h1 | ⟨h1, rfl⟩
  · exact h c h1
  · exact hf h1

theorem aux_invc_upd_frame {w : World} {i : Nat} {f : Conn → Conn} (hf : ∀ c, aux_CIS c → aux_CIS (f c))
    (h : aux_InvC w) : aux_InvC (w.upd i f) :=
  aux_invc_upd h (fun _ => hf _ (aux_cis_get h i))

theorem aux_invc_emit {w : World} {s : String} (h : aux_InvC w) : aux_InvC (w.emit s) := h

theorem aux_invc_conns {w w' : World} (hc : w'.conns = w.conns) (h : aux_InvC w) : aux_InvC w' := by
  unfold aux_InvC; rw [hc]; exact h

/-- predicates on one connection are preserved by updates that preserve them -/
theorem aux_get_upd_pres (P : Conn → Prop) {w : World} {i : Nat} {f : Conn → Conn} (k : Nat)
    (hf : ∀ c, P c → P (f c)) (h : P (w.get k)) : P ((w.upd i f).get k) := by
  by_cases hk : k = i
  · subst hk
    by_cases hi : k < w.conns.length
    · rw [aux_get_upd_self _ _ _ hi]; exact hf _ h
    · rw [aux_upd_oob _ _ _ (Nat.le_of_not_lt hi)]; exact h
  · rw [aux_get_upd_ne _ _ _ _ hk]; exact h

/-- one step of invariant propagation through a term; extended by `macro_rules` below as lemmas become available -/
syntax "aux_inv_step" : tactic
macro_rules | `(tactic| aux_inv_step) => `(tactic| ((with_reducible refine aux_invc_upd_frame ?hframe ?_); case hframe => exact fun _ h => h))
macro_rules | `(tactic| aux_inv_step) => `(tactic| with_reducible refine aux_invc_emit ?_)
macro_rules | `(tactic| aux_inv_step) => `(tactic| with_reducible assumption)
/-- propagate through frames, known functions and case splits -/
macro "aux_inv_auto" : tactic => `(tactic| repeat' (first | aux_inv_step | split))

theorem aux_invc_sendData {w : World} (i : Nat) (bufs : List Buf) (h : aux_InvC w) : aux_InvC (sendData w i bufs).1 := by
  unfold sendData
  simp only []
  split
  · exact h
  · aux_inv_auto
macro_rules | `(tactic| aux_inv_step) => `(tactic| with_reducible refine aux_invc_sendData _ _ ?_)

theorem aux_invc_closeConn {w : World} (i : Nat) (h : aux_InvC w) : aux_InvC (closeConn w i) := by
  unfold closeConn
  simp only []
  split
  · exact h
  · refine aux_invc_upd_frame (fun c hc => ⟨hc.1, by simp, hc.2.2⟩) ?_
    exact h
macro_rules | `(tactic| aux_inv_step) => `(tactic| with_reducible refine aux_invc_closeConn _ ?_)

/-! ### the mutual block, stratified by the real call depth -/

theorem aux_invc_sendPlain {w : World} (fuel i : Nat) (bufs : List Buf) (h : aux_InvC w) :
    aux_InvC (httpSendPlain fuel w i bufs).1 := by
  cases fuel with
  | zero => simpa [httpSendPlain] using h
  | succ n =>
    simp only [httpSendPlain]
    aux_inv_auto
macro_rules | `(tactic| aux_inv_step) => `(tactic| with_reducible refine aux_invc_sendPlain _ _ _ ?_)

theorem aux_invc_sendChunk {w : World} (fuel i : Nat) (d ext : Bytes) (b : Bool) (h : aux_InvC w) :
    aux_InvC (httpSendChunk fuel w i d ext b).1 := by
  cases fuel with
  | zero => simpa [httpSendChunk] using h
  | succ n =>
    simp only [httpSendChunk]
    aux_inv_auto
macro_rules | `(tactic| aux_inv_step) => `(tactic| with_reducible refine aux_invc_sendChunk _ _ _ _ _ ?_)

theorem aux_invc_lastChunk {w : World} (fuel i : Nat) (ext tr : Bytes) (h : aux_InvC w) :
    aux_InvC (httpLastChunk fuel w i ext tr).1 := by
  cases fuel with
  | zero => simpa [httpLastChunk] using h
  | succ n =>
    simp only [httpLastChunk]
    aux_inv_auto
macro_rules | `(tactic| aux_inv_step) => `(tactic| with_reducible refine aux_invc_lastChunk _ _ _ _ ?_)

theorem aux_invc_map {l : List Conn} (g : Conn → Conn) (hl : ∀ c ∈ l, aux_CIS c → aux_CIS (g c))
    (h : ∀ c ∈ l, aux_CIS c) : ∀ c ∈ l.map g, aux_CIS c := by
  intro c hc
  rcases List.mem_map.1 hc with ⟨c0, h0, rfl⟩
  exact hl _ h0 (h _ h0)

theorem aux_cis_clearBoth {c : Conn} (h : aux_CIS c) : aux_CIS { c with inHttp := false, inComms := false } := by
  obtain ⟨⟨h1, h2, h3, h4, h5, h6, h7⟩, h8⟩ := h
  exact ⟨⟨h1, h2, h3, by simp, by simp, h6, by simp⟩, h8.1, by simp⟩

theorem aux_cis_clearComms {c : Conn} (h : aux_CIS c) (hh : c.inHttp = false) : aux_CIS { c with inComms := false } := by
  obtain ⟨⟨h1, h2, h3, h4, h5, h6, h7⟩, h8⟩ := h
  exact ⟨⟨h1, h2, h3, by simp [hh], by simp, h6, by simp [hh]⟩, h8⟩

theorem aux_invc_serverClose {w : World} (fuel : Nat) (b : Bool) (h : aux_InvC w)
    (hg : b = false → ∀ c ∈ w.conns, c.inHttp = false) : aux_InvC (serverClose fuel w b) := by
  cases fuel with
  | zero => simpa [serverClose] using h
  | succ n =>
    simp only [serverClose]
    cases b with
    | true =>
      simp only [if_true]
      intro c hc
      have hc' : c ∈ (w.conns.map fun c => { c with inHttp := false }).map fun c => { c with inComms := false } := by
        split at hc <;> exact hc
      rw [List.map_map] at hc'
      rcases List.mem_map.1 hc' with ⟨c0, h0, rfl⟩
      exact aux_cis_clearBoth (c := c0) (h _ h0)
    | false =>
      simp only [Bool.false_eq_true, if_false]
      intro c hc
      have hc' : c ∈ w.conns.map fun c => { c with inComms := false } := by
        split at hc <;> exact hc
      rcases List.mem_map.1 hc' with ⟨c0, h0, rfl⟩
      exact aux_cis_clearComms (c := c0) (h _ h0) (hg rfl _ h0)

theorem aux_serverClose_inHttp {w : World} (fuel : Nat) (b : Bool) (i : Nat)
    (h : (w.get i).inHttp = false) : ((serverClose fuel w b).get i).inHttp = false := by
  cases fuel with
  | zero => simpa [serverClose] using h
  | succ n =>
    simp only [serverClose]
    simp only [World.get, List.getD_eq_getElem?_getD] at h ⊢
    cases b <;> simp only [Bool.false_eq_true, if_true, if_false] <;> split <;>
      simp only [List.getElem?_map] <;> cases hi : w.conns[i]? <;> simp_all

theorem aux_cis_sent {c : Conn} (h : aux_CIS c) (hh : c.inHttp = true) :
    aux_CIS { c with otherAfterDisc := c.otherAfterDisc + (if c.disconnectedSeen > 0 then 1 else 0) } := by
  obtain ⟨⟨h1, h2, h3, h4, h5, h6, h7⟩, h8⟩ := h
  have hd := (h4 hh).2.1
  exact ⟨⟨h1, h2, by simp [h3, hd], h4, h5, h6, h7⟩, h8⟩

theorem aux_cis_disc {c : Conn} (h : aux_CIS c) (hh : c.inHttp = true) :
    aux_CIS { c with disconnectedSeen := c.disconnectedSeen + 1, inHttp := false } := by
  obtain ⟨⟨h1, h2, h3, h4, h5, h6, h7⟩, h8⟩ := h
  obtain ⟨a, b, c', d⟩ := h4 hh
  exact ⟨⟨h1, by simp [a, b], h3, by simp, h5, h6, by simp⟩, h8.1, by simp⟩

theorem aux_invc_upd2 {w : World} {i : Nat} {f g : Conn → Conn} {s : String} (h : aux_InvC w)
    (hf : i < w.conns.length → aux_CIS (g (f (w.get i)))) : aux_InvC (((w.upd i f).emit s).upd i g) := by
  have : (((w.upd i f).emit s).upd i g).conns = (w.upd i (g ∘ f)).conns := by
    simp [World.upd, World.emit, List.modify_modify_eq]
  exact aux_invc_conns this (aux_invc_upd h hf)

theorem aux_cis_inHttp_alive {c : Conn} (h : aux_CIS c) (hh : c.inHttp = true) : c.alive = true :=
  h.1.2.2.2.2.1 (h.1.2.2.2.1 hh).2.2.1

/-- an application callback on a connection the server holds: it is not after the disconnected event -/
theorem aux_invc_noteEvent {w : World} {i : Nat} (h : aux_InvC w) (hin : (w.get i).inHttp = true) :
    aux_InvC (w.noteEvent i) :=
  aux_invc_upd h (fun _ => aux_cis_sent (aux_cis_get h i) hin)

@[simp] theorem aux_get_noteEvent_inHttp (w : World) (i k : Nat) : ((w.noteEvent i).get k).inHttp = (w.get k).inHttp := by
  unfold World.noteEvent
  exact aux_get_upd_pres (fun c => c.inHttp = (w.get k).inHttp) k (fun _ hc => hc) rfl

@[simp] theorem aux_opts_noteEvent (w : World) (i : Nat) : (w.noteEvent i).opts = w.opts := rfl

macro_rules | `(tactic| aux_inv_step) => `(tactic| ((with_reducible refine aux_invc_noteEvent ?_ ?hin); case hin => assumption))

theorem aux_invc_httpEvent {w : World} (fuel i ev : Nat) (hev : ev ≠ 0) (h : aux_InvC w) :
    aux_InvC (httpEvent fuel w i ev) := by
  cases fuel with
  | zero => simpa [httpEvent] using h
  | succ n =>
    simp only [httpEvent]
    have hev' : (ev == 0) = false := by simp [hev]
    simp only [hev', Bool.false_eq_true, if_false]
    split
    · exact h
    split
    · exact h
    next hal hin =>
    have hin' : (w.get i).inHttp = true := by simpa using hin
    have h1 : aux_InvC (w.noteEvent i) := aux_invc_noteEvent h hin'
    split
    · split
      · split
        · exact h1
        · split
          · aux_inv_auto
          · aux_inv_auto
      · exact h
    · have h2 := aux_invc_upd2 (i := i) (s := s!"ev disconnected {cn i}")
        (f := fun c => { c with disconnectedSeen := c.disconnectedSeen + 1 })
        (g := fun c => { c with inHttp := false }) h
        (fun _ => aux_cis_disc (aux_cis_get h i) hin')
      split
      · next hc =>
        apply aux_invc_serverClose _ _ h2
        intro _ c hc'
        simp only [Bool.and_eq_true, List.all_eq_true] at hc
        simpa using hc.2 c hc'
      · exact h2

theorem aux_get_oob (w : World) (i : Nat) (h : w.conns.length ≤ i) : w.get i = {} := by
  simp [World.get, List.getD_eq_getElem?_getD, List.getElem?_eq_none h]

/-- a property established by the update function holds at the updated index -/
theorem aux_get_upd_est (P : Conn → Prop) {w : World} {i : Nat} {f : Conn → Conn}
    (hf : ∀ c, P (f c)) (hd : P {}) : P ((w.upd i f).get i) := by
  by_cases hi : i < w.conns.length
  · rw [aux_get_upd_self _ _ _ hi]; exact hf _
  · rw [aux_upd_oob _ _ _ (Nat.le_of_not_lt hi), aux_get_oob _ _ (Nat.le_of_not_lt hi)]; exact hd

theorem aux_cis_dead_inHttp {c : Conn} (h : aux_CIS c) (ha : c.alive = false) : c.inHttp = false := by
  obtain ⟨⟨h1, h2, h3, h4, h5, h6, h7⟩, h8⟩ := h
  cases hh : c.inHttp with
  | false => rfl
  | true => have := h5 (h4 hh).2.2.1; simp [ha] at this

theorem aux_httpEvent_post {w : World} (n i : Nat) (h : aux_InvC w) :
    ((httpEvent (n + 1) w i 2).get i).inHttp = false := by
  simp only [httpEvent]
  have e0 : ((2 : Nat) == 0) = false := rfl
  have e1 : ((2 : Nat) == 1) = false := rfl
  simp only [e0, e1, Bool.false_eq_true, if_false]
  split
  · next ha => exact aux_cis_dead_inHttp (aux_cis_get h i) (by simpa using ha)
  split
  · next hin => simpa using hin
  have hb : ((((w.upd i fun c => { c with disconnectedSeen := c.disconnectedSeen + 1 }).emit
      s!"ev disconnected {cn i}").upd i fun c => { c with inHttp := false }).get i).inHttp = false :=
    aux_get_upd_est (fun c => c.inHttp = false) (fun _ => rfl) rfl
  split
  · exact aux_serverClose_inHttp _ _ _ hb
  · exact hb

theorem aux_invc_commsEvent1 {w : World} (fuel i : Nat) (h : aux_InvC w) : aux_InvC (commsEvent fuel w i 1) := by
  cases fuel with
  | zero => simpa [commsEvent] using h
  | succ n =>
    simp only [commsEvent]
    have e : ((1 : Nat) == 2) = false := rfl
    simp only [e, Bool.false_eq_true, if_false]
    exact aux_invc_httpEvent _ _ _ (by decide) h
macro_rules | `(tactic| aux_inv_step) => `(tactic| with_reducible refine aux_invc_commsEvent1 _ _ ?_)

theorem aux_invc_commsEvent2 {w : World} (fuel i : Nat) (hf : 2 ≤ fuel) (h : aux_InvC w) :
    aux_InvC (commsEvent fuel w i 2) := by
  obtain ⟨n, rfl⟩ : ∃ n, fuel = n + 2 := ⟨fuel - 2, by omega⟩
  simp only [commsEvent]
  simp only [BEq.rfl, if_true]
  have h1 : aux_InvC (httpEvent (n + 1) w i 2) := aux_invc_httpEvent _ _ _ (by decide) h
  exact aux_invc_upd h1 (fun _ => aux_cis_clearComms (aux_cis_get h1 i) (aux_httpEvent_post n i h))
macro_rules | `(tactic| aux_inv_step) => `(tactic| ((with_reducible refine aux_invc_commsEvent2 _ _ ?hfuel ?_); case hfuel => first | decide | omega))

theorem aux_invc_shutdown_ssl {w : World} (fuel i : Nat) (hs : w.opts.flavour = .ssl) (h : aux_InvC w) :
    aux_InvC (shutdownConn fuel w i) := by
  cases fuel with
  | zero => simpa [shutdownConn] using h
  | succ n =>
    simp only [shutdownConn, aux_opts_emit, aux_opts_upd, hs]
    aux_inv_auto

theorem aux_invc_seod {w : World} (fuel i : Nat) (e : Err) (hf : 3 ≤ fuel) (h : aux_InvC w) :
    aux_InvC (signalErrorOrDisconnect fuel w i e) := by
  obtain ⟨n, rfl⟩ : ∃ n, fuel = n + 3 := ⟨fuel - 3, by omega⟩
  simp only [signalErrorOrDisconnect]
  split
  · next hc =>
    apply aux_invc_shutdown_ssl _ _ _ h
    simp only [Bool.and_eq_true, adaptorIsDisconnect, beq_iff_eq] at hc
    exact hc.2.1.1
  aux_inv_auto
macro_rules | `(tactic| aux_inv_step) => `(tactic| ((with_reducible refine aux_invc_seod _ _ _ ?hfuel ?_); case hfuel => first | decide | omega))

/-- the completion the tcp flavour delivers synchronously from `shutdown` -/
theorem aux_invc_writeCallback_eof {w : World} (fuel i : Nat) (hf : 4 ≤ fuel) (h : aux_InvC w) :
    aux_InvC (writeCallback fuel w i (some .eof)) := by
  obtain ⟨n, rfl⟩ : ∃ n, fuel = n + 4 := ⟨fuel - 4, by omega⟩
  simp only [writeCallback]
  aux_inv_auto

theorem aux_invc_shutdown {w : World} (fuel i : Nat) (hf : 5 ≤ fuel) (h : aux_InvC w) :
    aux_InvC (shutdownConn fuel w i) := by
  obtain ⟨n, rfl⟩ : ∃ n, fuel = n + 5 := ⟨fuel - 5, by omega⟩
  simp only [shutdownConn]
  split
  · apply aux_invc_writeCallback_eof _ _ (by omega); aux_inv_auto
  · aux_inv_auto
macro_rules | `(tactic| aux_inv_step) => `(tactic| ((with_reducible refine aux_invc_shutdown _ _ ?hfuel ?_); case hfuel => first | decide | omega))

theorem aux_invc_writeCallback {w : World} (fuel i : Nat) (err : Option Err) (hf : 6 ≤ fuel) (h : aux_InvC w) :
    aux_InvC (writeCallback fuel w i err) := by
  obtain ⟨n, rfl⟩ : ∃ n, fuel = n + 6 := ⟨fuel - 6, by omega⟩
  simp only [writeCallback]
  aux_inv_auto
macro_rules | `(tactic| aux_inv_step) => `(tactic| ((with_reducible refine aux_invc_writeCallback _ _ _ ?hfuel ?_); case hfuel => first | decide | omega))

theorem aux_invc_disconnect {w : World} (fuel i : Nat) (hf : 6 ≤ fuel) (h : aux_InvC w) :
    aux_InvC (disconnectConn fuel w i) := by
  obtain ⟨n, rfl⟩ : ∃ n, fuel = n + 6 := ⟨fuel - 6, by omega⟩
  simp only [disconnectConn]
  aux_inv_auto
macro_rules | `(tactic| aux_inv_step) => `(tactic| ((with_reducible refine aux_invc_disconnect _ _ ?hfuel ?_); case hfuel => first | decide | omega))

theorem aux_invc_sendTail {w : World} (fuel i : Nat) (bufs : List Buf) (b : Bool) (hf : 7 ≤ fuel) (h : aux_InvC w) :
    aux_InvC (httpSendTail fuel w i bufs b).1 := by
  obtain ⟨n, rfl⟩ : ∃ n, fuel = n + 7 := ⟨fuel - 7, by omega⟩
  simp only [httpSendTail]
  aux_inv_auto
macro_rules | `(tactic| aux_inv_step) => `(tactic| ((with_reducible refine aux_invc_sendTail _ _ _ _ ?hfuel ?_); case hfuel => first | decide | omega))

theorem aux_invc_httpSend {w : World} (fuel i : Nat) (status : Int) (reason hs body : Bytes) (ovl : Nat)
    (hf : 8 ≤ fuel) (h : aux_InvC w) : aux_InvC (httpSend fuel w i status reason hs body ovl).1 := by
  obtain ⟨n, rfl⟩ : ∃ n, fuel = n + 8 := ⟨fuel - 8, by omega⟩
  simp only [httpSend]
  aux_inv_auto
macro_rules | `(tactic| aux_inv_step) => `(tactic| ((with_reducible refine aux_invc_httpSend _ _ _ _ _ _ _ ?hfuel ?_); case hfuel => first | decide | omega))

theorem aux_invc_sendResponse {w : World} (fuel i : Nat) (hf : 8 ≤ fuel) (h : aux_InvC w) :
    aux_InvC (httpSendResponse fuel w i).1 := by
  obtain ⟨n, rfl⟩ : ∃ n, fuel = n + 8 := ⟨fuel - 8, by omega⟩
  simp only [httpSendResponse]
  aux_inv_auto
macro_rules | `(tactic| aux_inv_step) => `(tactic| ((with_reducible refine aux_invc_sendResponse _ _ ?hfuel ?_); case hfuel => first | decide | omega))

/-! ### the request path: application answers, router, receive loop, read / handshake completions -/

theorem aux_invc_enableReception {w : World} (i : Nat) (h : aux_InvC w) : aux_InvC (enableReception w i) := by
  unfold enableReception
  aux_inv_auto
macro_rules | `(tactic| aux_inv_step) => `(tactic| with_reducible refine aux_invc_enableReception _ ?_)

theorem aux_invc_appAnswer {w : World} (fuel i : Nat) (hf : 8 ≤ fuel) (h : aux_InvC w) : aux_InvC (appAnswer fuel w i) := by
  unfold appAnswer
  simp only []
  aux_inv_auto
macro_rules | `(tactic| aux_inv_step) => `(tactic| ((with_reducible refine aux_invc_appAnswer _ _ ?hfuel ?_); case hfuel => first | decide | omega))

theorem aux_invc_routeRequest {w : World} (fuel i : Nat) (hf : 8 ≤ fuel) (h : aux_InvC w) :
    aux_InvC (routeRequest fuel w i) := by
  unfold routeRequest
  simp only []
  aux_inv_auto
macro_rules | `(tactic| aux_inv_step) => `(tactic| ((with_reducible refine aux_invc_routeRequest _ _ ?hfuel ?_); case hfuel => first | decide | omega))

theorem aux_invc_requestHandler {w : World} (fuel i : Nat) (hf : 8 ≤ fuel) (hin : (w.get i).inHttp = true)
    (h : aux_InvC w) : aux_InvC (requestHandler fuel w i) := by
  unfold requestHandler
  simp only []
  split
  · aux_inv_auto
  · have h' : aux_InvC { ((w.noteEvent i).emit s!"ev request {cn i} {reqFields (w.get i).rx}") with
        k := ((w.noteEvent i).emit s!"ev request {cn i} {reqFields (w.get i).rx}").k + 1 } :=
      aux_invc_noteEvent h hin
    aux_inv_auto
macro_rules | `(tactic| aux_inv_step) => `(tactic| ((with_reducible refine aux_invc_requestHandler _ _ ?hfuel ?hin ?_); (case hfuel => first | decide | omega); (case hin => assumption)))

/-! a response sent on a held (hence connected) connection never ends the session synchronously: the write is started
    (or one is already in flight), so a `disconnect()` that follows is deferred -/

theorem aux_sendData_held (w : World) (i : Nat) (bufs : List Buf) (hcon : (w.get i).connected = true) :
    ((sendData w i bufs).1.get i).transmitting = true ∧ ((sendData w i bufs).1.get i).inHttp = (w.get i).inHttp ∧
    ((sendData w i bufs).1.get i).connected = true := by
  have hi : i < w.conns.length := by
    by_cases hi : i < w.conns.length
    · exact hi
    · rw [aux_get_oob _ _ (Nat.le_of_not_lt hi)] at hcon; cases hcon
  unfold sendData
  simp only []
  split
  · next ht => exact ⟨ht, rfl, hcon⟩
  · simp only [hcon, if_true]
    rw [aux_get_emit, aux_get_upd_self _ _ _ hi]
    exact ⟨rfl, rfl, hcon⟩

theorem aux_sendTail_held (fuel : Nat) (w : World) (i : Nat) (bufs : List Buf) (b : Bool)
    (hin : (w.get i).inHttp = true) (hcon : (w.get i).connected = true) :
    ((httpSendTail fuel w i bufs b).1.get i).inHttp = true := by
  cases fuel with
  | zero => simpa [httpSendTail] using hin
  | succ n =>
    simp only [httpSendTail]
    have hin1 : ((w.upd i fun c => { c with rx := if b then { c.rx with continueSent := true } else c.rx.clear }).get i).inHttp = true :=
      aux_get_upd_pres (fun c => c.inHttp = true) i (fun _ hc => hc) hin
    have hcon1 : ((w.upd i fun c => { c with rx := if b then { c.rx with continueSent := true } else c.rx.clear }).get i).connected = true :=
      aux_get_upd_pres (fun c => c.connected = true) i (fun _ hc => hc) hcon
    generalize (w.upd i fun c => { c with rx := if b then { c.rx with continueSent := true } else c.rx.clear }) = w1 at hin1 hcon1 ⊢
    split
    · exact hin1
    · obtain ⟨ht, hi2, _⟩ := aux_sendData_held w1 i bufs hcon1
      split
      · simp only []; rw [hi2]; exact hin1
      · cases n with
        | zero => simp only [disconnectConn]; rw [hi2]; exact hin1
        | succ m =>
          simp only [disconnectConn, ht, Bool.not_true, Bool.false_eq_true, if_false]
          refine aux_get_upd_pres (fun c => c.inHttp = true) i (fun _ hc => hc) ?_
          rw [hi2]; exact hin1

theorem aux_sendResponse_held (fuel : Nat) (w : World) (i : Nat)
    (hin : (w.get i).inHttp = true) (hcon : (w.get i).connected = true) :
    ((httpSendResponse fuel w i).1.get i).inHttp = true := by
  cases fuel with
  | zero => simpa [httpSendResponse] using hin
  | succ n =>
    simp only [httpSendResponse]
    exact aux_sendTail_held _ _ _ _ _ (aux_get_upd_pres (fun c => c.inHttp = true) i (fun _ hc => hc) hin)
      (aux_get_upd_pres (fun c => c.connected = true) i (fun _ hc => hc) hcon)

theorem aux_invc_receiveLoop (fuel i : Nat) (hf : 8 ≤ fuel) (n : Nat) :
    ∀ (w : World) (buf : Bytes), aux_InvC w → aux_InvC (receiveLoop fuel w i n buf) := by
  induction n with
  | zero => intro w buf h; simpa [receiveLoop] using h
  | succ n ih =>
    intro w buf h
    simp only [receiveLoop]
    split
    · exact h
    next hne =>
    have hin : (w.get i).inHttp = true := by
      simp only [Bool.or_eq_true, Bool.not_eq_true', not_or, Bool.not_eq_false] at hne
      exact hne.2
    have hcon : (w.get i).connected = true := (aux_cis_get h i).2.2 hin
    generalize hp : RR.receive { w.opts.cfg with concatChunks := !w.opts.chunkh } (w.get i).rx buf = p
    have h1 : aux_InvC (w.upd i fun c => { c with rx := p.1 }) := by aux_inv_auto
    have hin1 : ((w.upd i fun c => { c with rx := p.1 }).get i).inHttp = true :=
      aux_get_upd_pres (fun c => c.inHttp = true) i (fun _ hc => hc) hin
    have hcon1 : ((w.upd i fun c => { c with rx := p.1 }).get i).connected = true :=
      aux_get_upd_pres (fun c => c.connected = true) i (fun _ hc => hc) hcon
    have hin2 := aux_sendResponse_held fuel _ i hin1 hcon1
    generalize (w.upd i fun c => { c with rx := p.1 }) = w1 at h1 hin1 hcon1 hin2 ⊢
    repeat' (first | aux_inv_step | refine ih _ _ ?_ | split)

theorem aux_invc_readCallback {w : World} (i : Nat) (err : Option Err) (data : Bytes) (h : aux_InvC w) :
    aux_InvC (readCallback w i err data) := by
  unfold readCallback
  simp only []
  repeat' (first | aux_inv_step | (refine aux_invc_receiveLoop _ _ (by decide) _ _ _ ?_) | split)

macro_rules | `(tactic| aux_inv_step) => `(tactic| with_reducible refine aux_invc_readCallback _ _ _ ?_)

theorem aux_cis_connect {c : Conn} {rx : RR} (h : aux_CIS c) (ha : c.alive = true) (h0 : c.connectedSeen = 0)
    (hs : c.hsStored = false) (hset : c.alive = true → c.inComms = true) (hcon : c.connected = true) :
    aux_CIS { c with httpAlive := true, inHttp := true, rx := rx, appKnows := true,
                     connectedSeen := c.connectedSeen + 1 } := by
  obtain ⟨⟨h1, h2, h3, h4, h5, h6, h7⟩, h8⟩ := h
  have hd : c.disconnectedSeen = 0 := by omega
  refine ⟨⟨?_, ?_, h3, ?_, h5, ?_, ?_⟩, ?_, ?_⟩ <;> simp [h0, hd, ha, hs, hset ha, hcon]

theorem aux_invc_httpEvent0 {w : World} (fuel i : Nat) (hf : 7 ≤ fuel) (h : aux_InvC w) (h0 : (w.get i).connectedSeen = 0)
    (hs : (w.get i).hsStored = false) (hset : (w.get i).alive = true → (w.get i).inComms = true)
    (hcon : (w.get i).connected = true) :
    aux_InvC (httpEvent fuel w i 0) := by
  obtain ⟨n, rfl⟩ : ∃ n, fuel = n + 7 := ⟨fuel - 7, by omega⟩
  simp only [httpEvent, BEq.rfl, if_true]
  split
  · exact h
  next ha =>
  split
  · exact h
  · have h1 : aux_InvC ((w.upd i fun c => { c with httpAlive := true, inHttp := true, rx := {}, appKnows := true,
                                                   connectedSeen := c.connectedSeen + 1 }).emit s!"ev connected {cn i}") := by
      refine aux_invc_emit ?_
      exact aux_invc_upd h (fun _ => aux_cis_connect (aux_cis_get h i) (by simpa using ha) h0 hs hset hcon)
    split
    · exact aux_invc_disconnect _ _ (by omega) h1
    · exact h1

theorem aux_invc_commsEvent0 {w : World} (fuel i : Nat) (hf : 8 ≤ fuel) (h : aux_InvC w) (h0 : (w.get i).connectedSeen = 0)
    (hs : (w.get i).hsStored = false) (hset : (w.get i).alive = true → (w.get i).inComms = true)
    (hcon : (w.get i).connected = true) :
    aux_InvC (commsEvent fuel w i 0) := by
  obtain ⟨n, rfl⟩ : ∃ n, fuel = n + 8 := ⟨fuel - 8, by omega⟩
  simp only [commsEvent]
  have e : ((0 : Nat) == 2) = false := rfl
  simp only [e, Bool.false_eq_true, if_false]
  exact aux_invc_httpEvent0 _ _ (by omega) h h0 hs hset hcon

theorem aux_invc_handshake {w : World} (i : Nat) (ok : Bool) (h : aux_InvC w) (hi : i < w.conns.length)
    (h0 : (w.get i).connectedSeen = 0)
    (hs : (w.get i).hsStored = false) (hset : (w.get i).alive = true → (w.get i).inComms = true) :
    aux_InvC (handshakeCallback w i ok) := by
  unfold handshakeCallback
  simp only []
  split
  · exact h
  split
  · have h1 : aux_InvC (commsEvent FUEL (w.upd i fun c => { c with connected := true }) i 0) := by
      refine aux_invc_commsEvent0 _ _ (by decide) ?_ ?_ ?_ ?_ ?_
      · exact aux_invc_upd_frame (fun c hc => ⟨hc.1, hc.2.1, fun _ => rfl⟩) h
      · exact aux_get_upd_pres (fun c => c.connectedSeen = 0) i (fun _ hc => hc) h0
      · exact aux_get_upd_pres (fun c => c.hsStored = false) i (fun _ hc => hc) hs
      · exact aux_get_upd_pres (fun c => c.alive = true → c.inComms = true) i (fun _ hc => hc) hset
      · rw [aux_get_upd_self _ _ _ hi]
    split
    · exact aux_invc_enableReception _ h1
    · exact h1
  · aux_inv_auto

/-! ### collection of unowned objects -/

theorem aux_cis_httpDead {c : Conn} (h : aux_CIS c) (hh : c.inHttp = false) : aux_CIS { c with httpAlive := false } := by
  obtain ⟨⟨h1, h2, h3, h4, h5, h6, h7⟩, h8⟩ := h
  exact ⟨⟨h1, h2, h3, by simp [hh], h5, by simp, h7⟩, h8⟩

theorem aux_cis_dead {c : Conn} (h : aux_CIS c) (hc : c.inComms = false) :
    aux_CIS { c with alive := false, httpAlive := false } := by
  obtain ⟨⟨h1, h2, h3, h4, h5, h6, h7⟩, h8⟩ := h
  have hh : c.inHttp = false := by
    cases hh : c.inHttp with
    | false => rfl
    | true => have := (h4 hh).2.2.1; simp [hc] at this
  exact ⟨⟨h1, h2, h3, by simp [hh], by simp [hc], by simp, h7⟩, h8⟩

theorem aux_get_closeConn_pres (P : Conn → Prop) {w : World} {i : Nat} (k : Nat)
    (hf : ∀ c, P c → P { dropPendingIo c with sockOpen := false, hsStored := false, shutStored := false })
    (h : P (w.get k)) : P ((closeConn w i).get k) := by
  unfold closeConn
  simp only []
  split
  · exact h
  · exact aux_get_upd_pres P k hf h

theorem aux_invc_gcOne {w : World} (i : Nat) (h : aux_InvC w) : aux_InvC (gcOne w i) := by
  unfold gcOne
  simp only []
  have h1 : aux_InvC (if ((w.get i).alive && !(w.get i).inHttp && (w.get i).httpAlive) = true then
      closeConn (w.upd i fun c => { c with httpAlive := false }) i else w) := by
    split
    · next hc =>
      simp only [Bool.and_eq_true, Bool.not_eq_true'] at hc
      refine aux_invc_closeConn _ ?_
      exact aux_invc_upd h (fun _ => aux_cis_httpDead (aux_cis_get h i) hc.1.2)
    · exact h
  generalize (if ((w.get i).alive && !(w.get i).inHttp && (w.get i).httpAlive) = true then
      closeConn (w.upd i fun c => { c with httpAlive := false }) i else w) = w1 at h1 ⊢
  split
  · next hc =>
    simp only [Bool.and_eq_true, Bool.not_eq_true'] at hc
    have h2 := aux_invc_closeConn i h1
    refine aux_invc_upd h2 (fun _ => aux_cis_dead (aux_cis_get h2 i) ?_)
    exact aux_get_closeConn_pres (fun c => c.inComms = false) i (fun _ hc => hc) hc.2
  · exact h1

/-- `Settled`, per connection -/
def aux_Sc (c : Conn) : Prop := c.alive = true → c.inComms = true

theorem aux_sc_gcOne_pres {w : World} (i k : Nat) (h : aux_Sc (w.get k)) : aux_Sc ((gcOne w i).get k) := by
  unfold gcOne
  simp only []
  have h1 : aux_Sc ((if ((w.get i).alive && !(w.get i).inHttp && (w.get i).httpAlive) = true then
      closeConn (w.upd i fun c => { c with httpAlive := false }) i else w).get k) := by
    split
    · refine aux_get_closeConn_pres aux_Sc k (fun _ hc => hc) ?_
      exact aux_get_upd_pres aux_Sc k (fun _ hc => hc) h
    · exact h
  generalize (if ((w.get i).alive && !(w.get i).inHttp && (w.get i).httpAlive) = true then
      closeConn (w.upd i fun c => { c with httpAlive := false }) i else w) = w1 at h1 ⊢
  split
  · refine aux_get_upd_pres aux_Sc k (fun _ _ => ?_) ?_
    · intro hc; simp at hc
    · exact aux_get_closeConn_pres aux_Sc k (fun _ hc => hc) h1
  · exact h1

theorem aux_sc_gcOne_est (w : World) (i : Nat) : aux_Sc ((gcOne w i).get i) := by
  unfold gcOne
  simp only []
  generalize (if ((w.get i).alive && !(w.get i).inHttp && (w.get i).httpAlive) = true then
      closeConn (w.upd i fun c => { c with httpAlive := false }) i else w) = w1
  split
  · refine aux_get_upd_est aux_Sc (fun _ hc => ?_) (fun _ => rfl)
    simp at hc
  · next hc =>
    intro ha
    simp only [Bool.and_eq_true, Bool.not_eq_true', not_and, Bool.not_eq_false] at hc
    exact hc ha

theorem aux_len_closeConn (w : World) (i : Nat) : (closeConn w i).conns.length = w.conns.length := by
  unfold closeConn
  simp only []
  split <;> simp

theorem aux_len_gcOne (w : World) (i : Nat) : (gcOne w i).conns.length = w.conns.length := by
  unfold gcOne
  simp only []
  split <;> split <;> simp [aux_len_closeConn]

theorem aux_gc_fold (l : List Nat) : ∀ w : World,
    (aux_InvC w → aux_InvC (l.foldl gcOne w)) ∧
    (l.foldl gcOne w).conns.length = w.conns.length ∧
    (∀ k, aux_Sc (w.get k) → aux_Sc ((l.foldl gcOne w).get k)) ∧
    (∀ k ∈ l, aux_Sc ((l.foldl gcOne w).get k)) := by
  induction l with
  | nil => intro w; simp
  | cons j l ih =>
    intro w
    obtain ⟨i1, i2, i3, i4⟩ := ih (gcOne w j)
    simp only [List.foldl_cons]
    refine ⟨fun h => i1 (aux_invc_gcOne j h), by rw [i2, aux_len_gcOne], fun k hk => i3 k (aux_sc_gcOne_pres j k hk), ?_⟩
    intro k hk
    rcases List.mem_cons.1 hk with rfl | hk
    · exact i3 _ (aux_sc_gcOne_est w k)
    · exact i4 k hk

theorem aux_invc_gc {w : World} (h : aux_InvC w) : aux_InvC (gc w) := (aux_gc_fold _ w).1 h

macro_rules | `(tactic| aux_inv_step) => `(tactic| with_reducible refine aux_invc_gc ?_)

theorem aux_settled_gc (w : World) : Settled (gc w) := by
  intro c hc
  obtain ⟨_, i2, _, i4⟩ := aux_gc_fold (List.range w.conns.length) w
  rcases List.mem_iff_getElem.1 hc with ⟨k, hk, rfl⟩
  have hk' : k < w.conns.length := by
    have : (gc w).conns.length = w.conns.length := i2
    omega
  have := i4 k (List.mem_range.2 hk')
  rw [show (List.range w.conns.length).foldl gcOne w = gc w from rfl, aux_get_eq_getElem _ _ hk] at this
  exact this

/-- `gc` re-establishes `Settled` from `aux_InvC` alone -/
theorem aux_invs_gc {w : World} (h : aux_InvC w) : InvS (gc w) := ⟨aux_invc_gc h, aux_settled_gc w⟩

/-! ### the script operations -/

theorem aux_settled_get {w : World} (h : Settled w) (i : Nat) : aux_Sc (w.get i) := by
  rcases aux_get_mem_or w i with h1 | h1
  · exact h _ h1
  · rw [h1]; intro _; rfl

theorem aux_invs_emit {w : World} {s : String} (h : InvS w) : InvS (w.emit s) := h

theorem aux_settled_upd_frame {w : World} {i : Nat} {f : Conn → Conn} (hf : ∀ c, aux_Sc c → aux_Sc (f c))
    (h : Settled w) : Settled (w.upd i f) := by
  intro c hc
  rcases aux_mem_upd _ _ _ _ hc with h1 | ⟨_, rfl⟩
  · exact h c h1
  · exact hf _ (aux_settled_get h i)

theorem aux_invs_upd_frame {w : World} {i : Nat} {f : Conn → Conn} (hf : ∀ c, aux_CIS c → aux_CIS (f c))
    (hg : ∀ c, aux_Sc c → aux_Sc (f c)) (h : InvS w) : InvS (w.upd i f) :=
  ⟨aux_invc_upd_frame hf h.1, aux_settled_upd_frame hg h.2⟩

syntax "aux_invs_step" : tactic
macro_rules | `(tactic| aux_invs_step) => `(tactic| ((with_reducible refine aux_invs_upd_frame ?hf1 ?hf2 ?_); (case hf1 => exact fun _ h => h); (case hf2 => exact fun _ h => h)))
macro_rules | `(tactic| aux_invs_step) => `(tactic| with_reducible refine aux_invs_gc ?_)
macro_rules | `(tactic| aux_invs_step) => `(tactic| with_reducible refine aux_invs_emit ?_)
macro_rules | `(tactic| aux_invs_step) => `(tactic| with_reducible assumption)
macro "aux_invs_auto" : tactic => `(tactic| repeat' (first | aux_invs_step | aux_inv_step | split))

theorem aux_invc_hs_step {w : World} {i : Nat} (ok : Bool) (h : InvS w) (hi : i < w.conns.length)
    (hst : (w.get i).hsStored = true) :
    aux_InvC (handshakeCallback (w.upd i fun c => { c with hsStored := false }) i ok) := by
  have hc := aux_cis_get h.1 i
  apply aux_invc_handshake
  · exact aux_invc_upd_frame (fun c hc => ⟨hc.1, by simp, hc.2.2⟩) h.1
  · simpa using hi
  · rw [aux_get_upd_self _ _ _ hi]; exact hc.2.1 hst
  · rw [aux_get_upd_self _ _ _ hi]
  · rw [aux_get_upd_self _ _ _ hi]; exact aux_settled_get h.2 i

theorem aux_invs_opCompletion {w : World} (op : String) (i : Nat) (arg : String) (h : InvS w) :
    InvS (opCompletion w op i arg) := by
  have hc : aux_InvC w := h.1
  unfold opCompletion notPending
  simp only []
  aux_invs_auto
  next h1 h2 =>
  simp only [Bool.not_eq_true', Bool.not_eq_false, Bool.and_eq_true, decide_eq_true_eq] at h2
  exact aux_invc_hs_step _ h h2.1.1 h2.2

theorem aux_invs_opApp {w : World} (op : String) (i : Nat) (ws : List String) (h : InvS w) :
    InvS (opApp w op i ws) := by
  have hc : aux_InvC w := h.1
  unfold opApp
  simp only []
  aux_invs_auto

theorem aux_invs_serverClose_gc {w : World} (h : aux_InvC w) : InvS (gc (serverClose FUEL w true)) :=
  aux_invs_gc (aux_invc_serverClose _ _ h (fun hb => by cases hb))

theorem aux_foldl_pres {α β} (P : β → Prop) (f : β → α → β) (hf : ∀ b a, P b → P (f b a)) (l : List α) :
    ∀ b, P b → P (l.foldl f b) := by
  induction l with
  | nil => intro b hb; exact hb
  | cons a l ih => intro b hb; exact ih _ (hf _ _ hb)

theorem aux_invs_opSrvShutdown {w : World} (h : InvS w) : InvS (opSrvShutdown w) := by
  unfold opSrvShutdown
  simp only []
  split
  · apply aux_foldl_pres InvS
    · intro b a hb
      have hc : aux_InvC b := hb.1
      aux_invs_auto
    · exact h
  · exact aux_invs_serverClose_gc h.1

theorem aux_get_append_new (w : World) (nc : Conn) :
    ({ w with conns := w.conns ++ [nc] } : World).get w.conns.length = nc := by
  simp [World.get, List.getD_eq_getElem?_getD]

theorem aux_invs_opAccept {w : World} (ws : List String) (h : InvS w) : InvS (opAccept w ws) := by
  unfold opAccept
  simp only []
  split
  · exact h
  split
  · exact h
  have h1 : InvS (if (w.opts.filter != 0) = true then { w with filterCalls := w.filterCalls + 1 } else w) := by
    split <;> exact h
  generalize (if (w.opts.filter != 0) = true then { w with filterCalls := w.filterCalls + 1 } else w) = w1 at h1 ⊢
  split
  · exact h1
  refine aux_invs_emit (aux_invs_gc ?_)
  generalize hnc : ({ hsFail := (argOf ws "hs" "ok" == "fail") && w1.opts.flavour == .tcp } : Conn) = nc
  have hcis : aux_CIS nc := by subst hnc; simp [aux_CIS, ConnInv]
  have h2 : aux_InvC { w1 with conns := w1.conns ++ [nc] } := by
    intro c hc
    rcases List.mem_append.1 hc with hc | hc
    · exact h1.1 c hc
    · rw [List.mem_singleton.1 hc]; exact hcis
  have hget := aux_get_append_new w1 nc
  split
  · apply aux_invc_handshake _ _ h2
    · simp
    · rw [hget, ← hnc]
    · rw [hget, ← hnc]
    · rw [hget, ← hnc]; intro _; rfl
  · refine aux_invc_upd h2 (fun _ => ?_)
    rw [hget, ← hnc]; simp [aux_CIS, ConnInv]

theorem aux_invs_mkServer (ws : List String) : InvS (mkServer ws) := by
  have : (mkServer ws).conns = [] := rfl
  constructor <;> intro c hc <;> rw [this] at hc <;> cases hc

theorem aux_invs_simOp {w : World} (ws : List String) (h : InvS w) : InvS (simOp w ws) := by
  have hc : aux_InvC w := h.1
  unfold simOp opState
  split
  case h_6 =>
    split
    · exact aux_invs_serverClose_gc hc
    · exact h
  all_goals
    repeat' (first
      | exact h
      | exact aux_invs_opAccept _ h
      | exact aux_invs_opCompletion _ _ _ h
      | exact aux_invs_opApp _ _ _ h
      | exact aux_invs_opSrvShutdown h
      | exact aux_invs_serverClose_gc hc
      | split)

/-- the strengthened invariant implies the stated one -/
theorem InvS_implies {w : World} (h : InvS w) : Inv w ∧ Settled w :=
  ⟨fun c hc => (h.1 c hc).1, h.2⟩

/-! ### the stated theorems -/

/-- the extra clause of `InvS`: a stored (not yet delivered) handshake completion belongs to a connection the
    application has not been told about -/
def HsFresh (w : World) : Prop := ∀ c ∈ w.conns, c.hsStored = true → c.connectedSeen = 0

/-- the second extra clause: the server holds an http_connection only for a connection whose handshake completed -/
def HeldConnected (w : World) : Prop := ∀ c ∈ w.conns, c.inHttp = true → c.connected = true

theorem InvS_iff (w : World) : InvS w ↔ Inv w ∧ Settled w ∧ HsFresh w ∧ HeldConnected w :=
  ⟨fun h => ⟨fun c hc => (h.1 c hc).1, h.2, fun c hc => (h.1 c hc).2.1, fun c hc => (h.1 c hc).2.2⟩,
   fun h => ⟨fun c hc => ⟨h.1 c hc, h.2.2.1 c hc, h.2.2.2 c hc⟩, h.2.1⟩⟩

theorem mkServer_invS (ws : List String) : InvS (mkServer ws) := aux_invs_mkServer ws

theorem simOp_invS (w : World) (ws : List String) (h : InvS w) : InvS (simOp w ws) := aux_invs_simOp ws h

theorem mkServer_inv (ws : List String) : Inv (mkServer ws) ∧ Settled (mkServer ws) :=
  InvS_implies (mkServer_invS ws)

/-- every script operation preserves the invariant, and leaves the world settled.
    The hypothesis `hh` is ADDED with respect to the first statement of this theorem: without it the claim is false
    (`simOp_inv_original_false`).  It holds initially and is itself preserved (`simOp_invS`), so it is available
    after every history (`history_invS`). -/
theorem simOp_inv (w : World) (ws : List String) (h : Inv w) (hs : Settled w) (hh : HsFresh w) (hk : HeldConnected w) :
    Inv (simOp w ws) ∧ Settled (simOp w ws) :=
  InvS_implies (simOp_invS w ws ((InvS_iff w).2 ⟨h, hs, hh, hk⟩))

/-- after every history of script operations on a fresh server -/
theorem history_invS (ws : List String) (hist : List (List String)) :
    InvS (hist.foldl simOp (mkServer ws)) :=
  aux_foldl_pres InvS simOp (fun w l hw => simOp_invS w l hw) hist _ (mkServer_invS ws)

theorem history_inv (ws : List String) (hist : List (List String)) :
    Inv (hist.foldl simOp (mkServer ws)) ∧ Settled (hist.foldl simOp (mkServer ws)) :=
  InvS_implies (history_invS ws hist)

/-- the mutual block preserves the (strengthened) invariant at the fuel the operations use -/
theorem mutual_inv (w : World) (i : Nat) (h : aux_InvC w) :
    aux_InvC (shutdownConn FUEL w i) ∧ aux_InvC (disconnectConn FUEL w i) ∧
    (∀ err, aux_InvC (writeCallback FUEL w i err)) ∧ (∀ e, aux_InvC (signalErrorOrDisconnect FUEL w i e)) ∧
    aux_InvC (commsEvent FUEL w i 1) ∧ aux_InvC (commsEvent FUEL w i 2) ∧
    (∀ ev, ev ≠ 0 → aux_InvC (httpEvent FUEL w i ev)) ∧ aux_InvC (serverClose FUEL w true) ∧
    (∀ bufs b, aux_InvC (httpSendTail FUEL w i bufs b).1) ∧
    (∀ st rs hs body ovl, aux_InvC (httpSend FUEL w i st rs hs body ovl).1) ∧
    aux_InvC (httpSendResponse FUEL w i).1 ∧ (∀ bufs, aux_InvC (httpSendPlain FUEL w i bufs).1) ∧
    (∀ d ext b, aux_InvC (httpSendChunk FUEL w i d ext b).1) ∧ (∀ ext tr, aux_InvC (httpLastChunk FUEL w i ext tr).1) :=
  ⟨aux_invc_shutdown _ _ (by decide) h, aux_invc_disconnect _ _ (by decide) h,
   fun _ => aux_invc_writeCallback _ _ _ (by decide) h, fun _ => aux_invc_seod _ _ _ (by decide) h,
   aux_invc_commsEvent1 _ _ h, aux_invc_commsEvent2 _ _ (by decide) h,
   fun _ hev => aux_invc_httpEvent _ _ _ hev h, aux_invc_serverClose _ _ h (fun hb => by cases hb),
   fun _ _ => aux_invc_sendTail _ _ _ _ (by decide) h, fun _ _ _ _ _ => aux_invc_httpSend _ _ _ _ _ _ _ (by decide) h,
   aux_invc_sendResponse _ _ (by decide) h, fun _ => aux_invc_sendPlain _ _ _ h,
   fun _ _ _ => aux_invc_sendChunk _ _ _ _ _ h, fun _ _ => aux_invc_lastChunk _ _ _ _ h⟩

theorem gc_settled (w : World) : Settled (gc w) := aux_settled_gc w

/-! ### `Inv ∧ Settled` alone is not inductive -/

/-- a world that satisfies `Inv` and `Settled` but is not reachable: a stored handshake completion on a
    connection whose session is already over -/
def aux_cexWorld : World :=
  { opts := { flavour := .ssl }, haveServer := true, acceptorOpen := true,
    conns := [{ hsStored := true, connectedSeen := 1, disconnectedSeen := 1 }] }

theorem aux_cex_hs : ((opCompletion aux_cexWorld "hs" 0 "ok").get 0).connectedSeen = 2 := by
  simp [opCompletion, handshakeCallback, aux_cexWorld, World.upd, World.get, commsEvent, httpEvent, FUEL,
    enableReception, World.emit, gc, gcOne, List.range, List.range.loop]

/-- the first statement of `simOp_inv` (without `HsFresh`) fails: the line `hs c0 ok` on `aux_cexWorld`
    (for any spelling `c` of the connection with `connIndex c = some 0`, e.g. `"c0"`) -/
theorem simOp_inv_original_false (c : String) (hc : connIndex c = some 0) :
    Inv aux_cexWorld ∧ Settled aux_cexWorld ∧ ¬ Inv (simOp aux_cexWorld ["hs", c, "ok"]) := by
  refine ⟨?_, ?_, ?_⟩
  · intro c hc; simp [aux_cexWorld] at hc; subst hc; simp [ConnInv]
  · intro c hc; simp [aux_cexWorld] at hc; subst hc; simp
  · intro hinv
    have e : simOp aux_cexWorld ["hs", c, "ok"] = opCompletion aux_cexWorld "hs" 0 "ok" := by
      simp [simOp, hc]
    rw [e] at hinv
    rcases aux_get_mem_or (opCompletion aux_cexWorld "hs" 0 "ok") 0 with hm | hm
    · have := (hinv _ hm).1
      rw [aux_cex_hs] at this
      omega
    · have := aux_cex_hs
      rw [hm] at this
      simp at this

end Via.Sim
