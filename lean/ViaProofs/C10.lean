import ViaProofs.ConnLemmas
/-
  C10 — lifecycle events are paired and the server forgets closed connections.

  `C10`: after EVERY history of script operations (accepts with any filter / handshake / endpoint outcome, read and
  write completions with any error, application actions, late aborted completions, server teardown) on a fresh
  server, for every connection: connected is signalled at most once, disconnected at most once and only after
  connected, nothing is signalled after disconnected, and the server's collections hold exactly the connections
  whose adaptor object is alive (retained = open).  No transition of the model raises: every function is total.
  "Nothing afterwards" covers EVERY application callback of the model — request, chunk, expect-continue, invalid-request
  and message-sent handlers: each of them goes through `World.noteEvent`, which counts a callback that follows the
  connection's disconnected event in `otherAfterDisc`, and the invariant keeps that counter at 0.  (This is where the
  receive loop's `is_held` test, added by the repair of "events are delivered for a connection after its disconnected
  event", is needed: without it the invariant is not preserved by `receiveLoop`.)  The proof also shows that the server
  holds an http_connection only for a connection whose handshake completed (`HeldConnected`), which is why a response
  sent from the receive loop can never end the session synchronously (`aux_sendResponse_held`).
  Known finding C11-KF1 limits the "exactly once" direction: `close()` / the destructor drop connections without
  the disconnected event (the invariant therefore states `disconnectedSeen ≤ connectedSeen`).
-/
namespace Via
open Sim

def C10_statement : Prop :=
  ∀ (serverOptions : List String) (history : List (List String)),
    let w := history.foldl simOp (mkServer serverOptions)
    ∀ c ∈ w.conns,
      c.connectedSeen ≤ 1 ∧ c.disconnectedSeen ≤ c.connectedSeen ∧ c.otherAfterDisc = 0 ∧
      (c.connectedSeen = 0 → c.inHttp = false) ∧
      (c.inHttp = true → c.disconnectedSeen = 0 ∧ c.inComms = true) ∧
      (c.alive = true ↔ c.inComms = true)

theorem C10 : C10_statement := by
  intro ws hist w c hc
  obtain ⟨hinv, hset⟩ := history_inv ws hist
  obtain ⟨h1, h2, h3, h4, h5, h6, h7⟩ := hinv c hc
  refine ⟨h1, h2, h3, h7, fun h => ⟨(h4 h).2.1, (h4 h).2.2.1⟩, ⟨hset c hc, h5⟩⟩

/-- a connection refused by the connection filter is never created: the world is unchanged but for the log line -/
theorem C10_filter_reject (w : World) (ws : List String) (hs : w.haveServer = true) (ha : w.acceptorOpen = true)
    (hf : w.opts.filter = 1) : (opAccept w ws).conns = w.conns := by
  unfold opAccept
  simp [hs, ha, hf, World.emit]

end Via
