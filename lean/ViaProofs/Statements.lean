import ViaModel
/-
  The properties, stated at full strength, one definition each, readable without the proofs.
  `ViaProofs/Cxx.lean` proves `theorem Cxx : Cxx_statement` (or its counter-example + `_partial`).
-/
namespace Via

/-! ### C13 — application-supplied headers can never split a response -/

/-- number of LF-terminated lines of `s` that are empty or a lone CR; `cur` = the (reversed) content
    of the line in progress.  This is the independent notion of "empty line". -/
def blankLines : Bytes → Bytes → Nat
  | _, [] => 0
  | cur, c :: cs =>
    if c == 10 then (if cur == [] || cur == [13] then 1 else 0) + blankLines [] cs
    else blankLines (c :: cur) cs

/-- A response the library agrees to send (`is_valid()`), whatever the header string, status, reason
    and announced length, is `pre ++ CRLF` where `pre` is a sequence of LF-terminated non-empty lines:
    exactly one empty line, at the end of the head. -/
def C13_statement : Prop :=
  ∀ (maj min : Byte) (status : Int) (reason h : Bytes) (cl : Nat),
    maj ≠ 10 → min ≠ 10 → 10 ∉ reason →
    headersValid h = true →
    ∃ pre, Enc.txResponseMessage maj min status reason h cl = pre ++ [13, 10] ∧
           blankLines [] pre = 0 ∧ pre.getLast? = some 10

/-- Conversely: a header string that would put an empty line anywhere in the head (it follows the LF of
    the status line), or that is not a sequence of terminated lines, is refused. -/
def C13_refuse_statement : Prop :=
  ∀ h : Bytes, (blankLines [] h > 0 ∨ (h ≠ [] ∧ h.getLast? ≠ some 10)) → headersValid h = false

end Via
