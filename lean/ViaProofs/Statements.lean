import ViaModel
/-
  The properties, stated at full strength, one definition each, readable without the proofs.
  `ViaProofs/Cxx.lean` proves `theorem Cxx : Cxx_statement` (or its counter-example + `_partial`).
-/
namespace Via

/-! ### C13 — application-supplied headers can never split a response -/

/-- number of LF-terminated lines of `s` that are empty or a lone CR; `cur` = the (reversed) content
    of the line in progress.  This is the independent notion of "empty line". -/
def blankLines : Bytes → Bytes → Nat
  | _, [] => 0
  | cur, c :: cs =>
    if c == 10 then (if cur == [] || cur == [13] then 1 else 0) + blankLines [] cs
    else blankLines (c :: cur) cs

/-- A response the library agrees to send (`is_valid()`), whatever the header string, status, reason
    and announced length, is `pre ++ CRLF` where `pre` is a sequence of LF-terminated non-empty lines:
    exactly one empty line, at the end of the head. -/
def C13_statement : Prop :=
  ∀ (maj min : Byte) (status : Int) (reason h : Bytes) (cl : Nat),
    maj ≠ 10 → min ≠ 10 → 10 ∉ reason →
    headersValid h = true →
    ∃ pre, Enc.txResponseMessage maj min status reason h cl = pre ++ [13, 10] ∧
           blankLines [] pre = 0 ∧ pre.getLast? = some 10

/-- Conversely: a header string that would put an empty line anywhere in the head (it follows the LF of
    the status line), or that is not a sequence of terminated lines, is refused. -/
def C13_refuse_statement : Prop :=
  ∀ h : Bytes, (blankLines [] h > 0 ∨ (h ≠ [] ∧ h.getLast? ≠ some 10)) → headersValid h = false

end Via

namespace Via
open HM

/-! ### C18 — the concurrent map behaves as an ordinary map (sequential refinement) -/

/-- the ordinary map: an association list without duplicate keys, newest first -/
abbrev SpecMap (V : Type) := List (Nat × V)

def SpecMap.step {V} (l : SpecMap V) : Op V → SpecMap V × Res V
  | .insert k v => ((k, v) :: l.filter (fun p => p.1 != k), .unit)
  | .erase k => (l.filter (fun p => p.1 != k), .unit)
  | .find k => (l, .found (l.find? (fun p => p.1 == k)))
  | .isEmpty => (l, .bool l.isEmpty)
  | .data => (l, .list l)
  | .clear => ([], .unit)

def SpecMap.run {V} (l : SpecMap V) : List (Op V) → SpecMap V × List (Res V)
  | [] => (l, [])
  | op :: ops =>
    let (l', r) := l.step op
    let (l'', rs) := SpecMap.run l' ops
    (l'', r :: rs)

/-- results agree; the order in which `data()` lists the entries is not specified -/
def ResRel {V} : Res V → Res V → Prop
  | .list a, .list b => a.Perm b
  | a, b => a = b

def ResListRel {V} : List (Res V) → List (Res V) → Prop
  | [], [] => True
  | a :: as, b :: bs => ResRel a b ∧ ResListRel as bs
  | _, _ => False

/-- every operation sequence on the hash map (any bucket count, any hash function) returns what the
    ordinary map returns; in particular `erase` of an absent key changes nothing and `find` returns the
    latest value stored. -/
def C18_seq_statement : Prop :=
  ∀ (V : Type) (n : Nat) (hash : Nat → Nat) (ops : List (Op V)), 0 < n →
    ResListRel ((Map.empty n hash).run ops).2 ((SpecMap.run ([] : SpecMap V) ops).2)

end Via

namespace Via
open Auth

/-! ### C17 — protected routes need valid credentials; base64 round trip -/

/-- a request is accepted only if its Authorization value carries, after the scheme name, the base64 of
    `user:password` for a registered pair -/
def C17_guard_statement : Prop :=
  ∀ (table : Table) (hdr : Option Bytes), basicIsValid table hdr = true →
    ∃ a p u pw, hdr = some a ∧ findSub (b!"Basic") a 0 = some p ∧ p + 6 ≤ a.length ∧
      decode (a.drop (p + 6)) = u ++ [58] ++ pw ∧ 58 ∉ u ∧ tableFind u table = some pw

/-- every other request gets the challenge (naming the realm when configured), and never an empty one -/
def C17_challenge_statement : Prop :=
  ∀ (table : Table) (realm : Bytes) (hdr : Option Bytes), basicIsValid table hdr = false →
    authenticate table realm hdr = authenticateValue realm ∧ authenticateValue realm ≠ [] ∧
    (realm ≠ [] → authenticateValue realm = (b!"Basic realm=\"") ++ realm ++ (b!"\""))

/-- registered credentials, encoded by the library's own encoder, are accepted -/
def C17_accepts_statement : Prop :=
  ∀ (table : Table) (u pw : Bytes), 58 ∉ u → tableFind u table = some pw →
    basicIsValid table (some ((b!"Basic ") ++ encode (u ++ [58] ++ pw))) = true

/-- base64 decode ∘ encode = id on all byte strings -/
def b64_roundtrip_statement : Prop := ∀ x : Bytes, decode (encode x) = x

end Via

namespace Via
open Router

/-! ### C16 — the built-in router dispatches by method and path pattern as documented -/

/-- segment-wise matching of a pattern against a path: equal number of segments, a `:name` segment
    matches any one segment and binds it, any other segment must be equal -/
def specSegs : List Bytes → List Bytes → Params → Option Params
  | [], [], acc => some acc
  | r :: rs, p :: ps, acc =>
    if r.head? = some 58 then specSegs rs ps (mapInsert (r.drop 1) p acc)
    else if r = p then specSegs rs ps acc else none
  | _, _, _ => none

def specRoute (r : Route) (path : Bytes) : Option Params :=
  specSegs (split r.path 47) (split path 47) []

/-- first registered route whose pattern matches -/
def specFind (path : Bytes) : List Route → Option (Route × Params)
  | [] => none
  | r :: rest => match specRoute r path with
    | some ps => some (r, ps)
    | none => specFind path rest

/-- documented outcome: 404 / 405 + Allow / 401 / exactly one handler with exactly the bindings -/
def specHandle (routes : List Route) (authOk : Nat → Bool) (method path : Bytes) : Outcome :=
  match specFind path routes with
  | none => .notFound
  | some (r, ps) =>
    match mapFind method r.methods with
    | none => .methodNotAllowed (joinWith [44, 32] (r.methods.map (·.1)))
    | some e =>
      match e.auth with
      | some a => if authOk a then .handler e.handler ps else .unauthorised a
      | none => .handler e.handler ps

/-- the request path: the target up to the first '?' or '#' -/
def stripQueryFragment (t : Bytes) : Bytes := t.takeWhile (fun c => c != 63 && c != 35)

/-- documented pattern shape: every ':' directly follows a '/' (so it starts a segment) -/
def WfPattern (p : Bytes) : Prop := ∀ i : Nat, p[i]? = some (58 : Byte) → 0 < i ∧ p[i - 1]? = some (47 : Byte)

def C16_statement : Prop :=
  ∀ (routes : List Route) (authOk : Nat → Bool) (method target : Bytes),
    (∀ r ∈ routes, WfPattern r.path) →
    handleRequest routes authOk method target =
      specHandle routes authOk method (stripQueryFragment target)

end Via
