import ViaProofs.ConnLemmas
/-
  C11 — shutdown, close and destruction are safe at every moment.

  The teardown operations (`srv-shutdown`, `srv-close`, `srv-destroy`, `app-disconnect`) are ordinary script
  operations, so the history invariant of C10 covers every point of every history at which they can be issued and
  every order of the completions that follow (including late `operation_aborted` completions).  In addition:
  `C11_close_releases`: after `http_server::close()` no connection is retained and every socket is closed.
  Memory safety of the C++ (iterator invalidation, use of dead objects) is observed by the ASan /
  `_GLIBCXX_DEBUG` build of the harness on the same histories; known findings C11-KF1, C11-KF2.
-/
namespace Via
open Sim

theorem C11_invariant_at_every_point (serverOptions : List String) (history : List (List String)) :
    Inv (history.foldl simOp (mkServer serverOptions)) ∧ Settled (history.foldl simOp (mkServer serverOptions)) :=
  history_inv serverOptions history

/-- `comms::server::close` after clearing the http map: nothing is retained -/
theorem C11_close_releases (fuel : Nat) (w : World) :
    ∀ c ∈ (serverClose (fuel + 1) w true).conns, c.inHttp = false ∧ c.inComms = false := by
  intro c hc
  unfold serverClose at hc
  simp only [↓reduceIte] at hc
  split at hc <;> simp only [List.mem_map] at hc <;> obtain ⟨d, _, rfl⟩ := hc <;>
    (first | exact ⟨rfl, rfl⟩ | skip)
  all_goals (obtain ⟨e, _, rfl⟩ := ‹_›; exact ⟨rfl, rfl⟩)

end Via
