import ViaProofs.Statements
/-
  C08 — what the encoders produce, the library's own receivers accept unchanged.

  Proved here: number round trips (`to_hex_string` / `from_hex_string`, `std::to_string` / `from_dec_string`),
  that EVERY header name of the `header_field::id` enumeration (table regenerated from the header on every run) is
  accepted by the header-name acceptor and lower-cases to its `lowercase_name`, and that a chunk header built by
  the encoder is parsed back with the same size and extension.
-/
namespace Via
namespace C08

theorem hexDigitVal_lowHex : ∀ d : Fin 16, hexDigitVal (lowHex d.val) = d.val := by decide
theorem isXDigit_lowHex : ∀ d : Fin 16, isXDigit (lowHex d.val) = true := by decide
theorem isDigit_lowHex : ∀ d : Fin 10, isDigit (lowHex d.val) = true := by decide

theorem digitsVal_snoc (base : Nat) (ds : Bytes) (c : Byte) :
    digitsVal base (ds ++ [c]) = digitsVal base ds * base + hexDigitVal c := by
  simp [digitsVal, List.foldl_append]

/-- what `toDigitsAux` produces when the fuel is sufficient -/
theorem toDigitsAux_spec (base : Nat) (hb : 2 ≤ base) (hb16 : base ≤ 16) :
    ∀ (fuel n : Nat) (acc : Bytes), n < fuel →
      ∃ ds, toDigitsAux base hb fuel n acc = ds ++ acc ∧ ds ≠ [] ∧
        (∀ c ∈ ds, ∃ d, d < base ∧ c = lowHex d) ∧ digitsVal base ds = n := by
  intro fuel
  induction fuel with
  | zero => intro n acc h; omega
  | succ fuel ih =>
    intro n acc hf
    unfold toDigitsAux
    by_cases hn : n < base
    · refine ⟨[lowHex n], by simp [hn], by simp, ?_, ?_⟩
      · intro c hc
        exact ⟨n, hn, by simpa using hc⟩
      · have := hexDigitVal_lowHex ⟨n, by omega⟩
        simpa [digitsVal] using this
    · have hpos : 0 < base := by omega
      have hdiv : n / base < n := Nat.div_lt_self (by omega) (by omega)
      obtain ⟨ds, h1, _, h3, h4⟩ := ih (n / base) (lowHex (n % base) :: acc) (by omega)
      have hmod : n % base < base := Nat.mod_lt _ hpos
      refine ⟨ds ++ [lowHex (n % base)], by simp [hn, h1], by simp, ?_, ?_⟩
      · intro c hc
        rcases List.mem_append.mp hc with hc | hc
        · exact h3 c hc
        · exact ⟨n % base, hmod, by simpa using hc⟩
      · rw [digitsVal_snoc, h4]
        have := hexDigitVal_lowHex ⟨n % base, by omega⟩
        simp only at this
        rw [this]
        exact Nat.div_add_mod' n base

/-- length bound -/
theorem toDigitsAux_length (base : Nat) (hb : 2 ≤ base) :
    ∀ (fuel n : Nat) (acc : Bytes) (k : Nat), n < base ^ (k + 1) →
      (toDigitsAux base hb fuel n acc).length ≤ k + 1 + acc.length := by
  intro fuel
  induction fuel with
  | zero => intro n acc k _; simp [toDigitsAux]
  | succ fuel ih =>
    intro n acc k hk
    unfold toDigitsAux
    by_cases hn : n < base
    · simp [hn]; omega
    · simp only [hn, if_false]
      cases k with
      | zero => simp at hk; omega
      | succ k =>
        have : n / base < base ^ (k + 1) := by
          apply Nat.div_lt_of_lt_mul
          rw [Nat.pow_succ, Nat.mul_comm] at hk
          exact hk
        have := ih (n / base) (lowHex (n % base) :: acc) k this
        simp at this ⊢
        omega

theorem hex_digits (n : Nat) :
    toHexString n ≠ [] ∧ (toHexString n).all isXDigit = true ∧ digitsVal 16 (toHexString n) = n := by
  obtain ⟨ds, h1, h2, h3, h4⟩ := toDigitsAux_spec 16 (by decide) (by decide) (n + 1) n [] (by omega)
  have : toHexString n = ds := by simpa [toHexString] using h1
  rw [this]
  refine ⟨h2, ?_, h4⟩
  rw [List.all_eq_true]
  intro c hc
  obtain ⟨d, hd, rfl⟩ := h3 c hc
  exact isXDigit_lowHex ⟨d, hd⟩

theorem dec_digits (n : Nat) :
    toDecString n ≠ [] ∧ (toDecString n).all isDigit = true ∧ digitsVal 10 (toDecString n) = n := by
  obtain ⟨ds, h1, h2, h3, h4⟩ := toDigitsAux_spec 10 (by decide) (by decide) (n + 1) n [] (by omega)
  have : toDecString n = ds := by simpa [toDecString] using h1
  rw [this]
  refine ⟨h2, ?_, h4⟩
  rw [List.all_eq_true]
  intro c hc
  obtain ⟨d, hd, rfl⟩ := h3 c hc
  exact isDigit_lowHex ⟨d, hd⟩

theorem hex_length (n : Nat) (h : n ≤ LONG_MAX) : (toHexString n).length ≤ 16 := by
  have := toDigitsAux_length 16 (by decide) (n + 1) n [] 15 (by simp [LONG_MAX] at h ⊢; omega)
  simpa [toHexString] using this

theorem fromHex_of_digits (ds : Bytes) (n : Nat) (h : n ≤ LONG_MAX) (h1 : ds ≠ [])
    (h2 : ds.all isXDigit = true) (h3 : digitsVal 16 ds = n) : fromHexString ds = (n : Int) := by
  unfold fromHexString
  have : ds.isEmpty = false := by simpa using h1
  simp only [this, h2, h3]
  simp [Nat.not_lt.mpr h]

end C08

theorem hex_roundtrip (n : Nat) (h : n ≤ LONG_MAX) : fromHexString (toHexString n) = (n : Int) := by
  obtain ⟨h1, h2, h3⟩ := C08.hex_digits n
  exact C08.fromHex_of_digits _ n h h1 h2 h3

theorem dec_roundtrip (n : Nat) (h : n ≤ LONG_MAX) : fromDecString (toDecString n) = (n : Int) := by
  obtain ⟨h1, h2, h3⟩ := C08.dec_digits n
  unfold fromDecString
  have : (toDecString n).isEmpty = false := by simpa using h1
  simp only [this, h2, h3]
  simp [Nat.not_lt.mpr h]

/-- a byte the `field_line` parser accepts in a header name -/
def nameByteOk (c : Byte) : Bool := isGraph c && !isSeparator c

/-- every standard header name is a valid field name for the library's own parser, and parses to the lower-case
    name the library looks it up by (this re-opens whenever a header constant is edited) -/
theorem std_names_parse :
    ∀ p ∈ Gen.headerNames, p.1.all nameByteOk = true ∧ p.1.map toLower = p.2 ∧ p.1 ≠ [] := by
  decide

/-- the names the library adds by itself -/
theorem own_headers_parse :
    Gen.cHEADER_CONTENT_LENGTH.all nameByteOk = true ∧ Gen.cHEADER_TRANSFER_ENCODING.all nameByteOk = true ∧
    Gen.cHEADER_CONTENT_LENGTH.map toLower = Gen.cLC_CONTENT_LENGTH ∧
    Gen.cHEADER_TRANSFER_ENCODING.map toLower = Gen.cLC_TRANSFER_ENCODING ∧
    Gen.cHEADER_DATE.all nameByteOk = true ∧ Gen.cHEADER_SERVER.all nameByteOk = true ∧
    Gen.cHEADER_CONTENT_TYPE.all nameByteOk = true ∧ Gen.cHEADER_ALLOW.all nameByteOk = true ∧
    Gen.cHEADER_WWW_AUTHENTICATE.all nameByteOk = true ∧ Gen.cHEADER_HOST.all nameByteOk = true := by
  decide


namespace C08

theorem byte_cases (P : Byte → Prop) (h : ∀ i : Fin 256, P (UInt8.ofNat i.val)) (c : Byte) : P c := by
  have := h ⟨c.toNat, c.toNat_lt⟩
  simpa using this

theorem xdigit_facts (c : Byte) :
    isXDigit c = true → isBlank c = false ∧ isEol c = false ∧ (c == 59) = false := by
  revert c
  apply byte_cases
  set_option maxRecDepth 100000 in decide

/-- the size phase: hex digits are accumulated -/
theorem loop_size (cfg : Cfg) (rest : Bytes) :
    ∀ (ds h : Bytes) (L : Nat), (∀ c ∈ ds, isXDigit c = true) →
      h.length + ds.length ≤ Gen.maxSizeDigits → L + ds.length ≤ cfg.maxLine →
      CH.loop cfg ⟨0, L, 0, h, [], .size, false, false, false⟩ (ds ++ rest) =
      CH.loop cfg ⟨0, L + ds.length, 0, h ++ ds, [], .size, false, false, false⟩ rest := by
  intro ds
  induction ds with
  | nil => intro h L _ _ _; simp
  | cons d ds ih =>
    intro h L hx hsz hl
    have hd : isXDigit d = true := hx d (by simp)
    have h1 : ¬ (cfg.maxLine < L + 1) := by simp at hl; omega
    have h2 : ¬ (Gen.maxSizeDigits < h.length + 1) := by simp at hsz ⊢; omega
    have := ih (h ++ [d]) (L + 1) (fun c hc => hx c (by simp [hc])) (by simp at hsz ⊢; omega)
      (by simp at hl ⊢; omega)
    simp only [List.cons_append, CH.loop, CH.parseChar, CH.sizeStep]
    simp [h1, hd, h2]
    rw [this]
    simp [Nat.add_assoc, Nat.add_comm 1]

/-- the first digit, from the initial state -/
theorem loop_first (cfg : Cfg) (d : Byte) (rest : Bytes) (hd : isXDigit d = true)
    (hsz : 1 ≤ Gen.maxSizeDigits) (hl : 1 ≤ cfg.maxLine) :
    CH.loop cfg {} (d :: rest) = CH.loop cfg ⟨0, 1, 0, [d], [], .size, false, false, false⟩ rest := by
  obtain ⟨hb, _, _⟩ := xdigit_facts d hd
  have h1 : ¬ (cfg.maxLine < 1) := by omega
  have h2 : ¬ (Gen.maxSizeDigits < 1) := by omega
  simp only [CH.loop, CH.parseChar, CH.sizeStep]
  simp [h1, hd, h2, hb]

/-- CR LF after the size -/
theorem loop_size_crlf (cfg : Cfg) (h : Bytes) (L n : Nat) (hn : chunkSizeOf h = n) (hc : n ≤ cfg.maxChunk)
    (hl : L + 2 ≤ cfg.maxLine) :
    CH.loop cfg ⟨0, L, 0, h, [], .size, false, false, false⟩ [13, 10] =
      (⟨n, L + 2, 0, h, [], .valid, true, false, false⟩, [], false) := by
  have h1 : ¬ (cfg.maxLine < L + 1) := by omega
  have h2 : ¬ (cfg.maxLine < L + 1 + 1) := by omega
  have h3 : ¬ (cfg.maxChunk < n) := by omega
  have e1 : isXDigit 13 = false := by decide
  have e2 : isEol 13 = true := by decide
  simp only [CH.loop, CH.parseChar, CH.sizeStep]
  simp [h1, h2, h3, e1, e2, hn]


/-- the extension phase: bytes that are not line ends are accumulated -/
theorem loop_ext (cfg : Cfg) (rest h : Bytes) (n w : Nat) :
    ∀ (es x : Bytes) (L : Nat), (∀ c ∈ es, isEol c = false) → L + es.length ≤ cfg.maxLine →
      CH.loop cfg ⟨n, L, w, h, x, .extension, true, false, false⟩ (es ++ rest) =
      CH.loop cfg ⟨n, L + es.length, w, h, x ++ es, .extension, true, false, false⟩ rest := by
  intro es
  induction es with
  | nil => intro x L _ _; simp
  | cons e es ih =>
    intro x L hx hl
    have he : isEol e = false := hx e (by simp)
    have h1 : ¬ (cfg.maxLine < L + 1) := by simp at hl; omega
    have := ih (x ++ [e]) (L + 1) (fun c hc => hx c (by simp [hc])) (by simp at hl ⊢; omega)
    simp only [List.cons_append, CH.loop, CH.parseChar, CH.extStep]
    simp [h1, he]
    rw [this]
    simp [Nat.add_assoc, Nat.add_comm 1]

/-- `"; "` and the first extension byte after the size -/
theorem loop_size_semi (cfg : Cfg) (h rest : Bytes) (e : Byte) (L n : Nat) (hn : chunkSizeOf h = n)
    (hc : n ≤ cfg.maxChunk) (hws : 1 ≤ cfg.maxWs) (he : isEol e = false) (hb : isBlank e = false)
    (hl : L + 3 ≤ cfg.maxLine) :
    CH.loop cfg ⟨0, L, 0, h, [], .size, false, false, false⟩ (59 :: 32 :: e :: rest) =
      CH.loop cfg ⟨n, L + 3, 1, h, [e], .extension, true, false, false⟩ rest := by
  have h1 : ¬ (cfg.maxLine < L + 1) := by omega
  have h2 : ¬ (cfg.maxLine < L + 1 + 1) := by omega
  have h2' : ¬ (cfg.maxLine < L + 1 + 1 + 1) := by omega
  have h3 : ¬ (cfg.maxChunk < n) := by omega
  have h4 : ¬ (cfg.maxWs < 1) := by omega
  have e1 : isXDigit 59 = false := by decide
  have e2 : isBlank 32 = true := by decide
  simp only [CH.loop, CH.parseChar, CH.sizeStep, CH.extStep]
  simp [h1, h2, h2', h3, h4, e1, e2, hn, he, hb]

/-- CR LF after the extension -/
theorem loop_ext_crlf (cfg : Cfg) (h x : Bytes) (L n w : Nat) (hl : L + 2 ≤ cfg.maxLine) :
    CH.loop cfg ⟨n, L, w, h, x, .extension, true, false, false⟩ [13, 10] =
      (⟨n, L + 2, w, h, x, .valid, true, false, false⟩, [], false) := by
  have h1 : ¬ (cfg.maxLine < L + 1) := by omega
  have h2 : ¬ (cfg.maxLine < L + 1 + 1) := by omega
  have e2 : isEol 13 = true := by decide
  simp only [CH.loop, CH.parseChar, CH.extStep]
  simp [h1, h2, e2]

theorem chunkSizeOf_hex (n : Nat) (h : n ≤ LONG_MAX) : chunkSizeOf (toHexString n) = n := by
  obtain ⟨h1, h2, h3⟩ := hex_digits n
  simp [chunkSizeOf, fromHex_of_digits _ n h h1 h2 h3]
  omega

end C08

/-- a chunk header produced by `chunk_header::to_string` is accepted by `chunk_header::parse` with the same size
    and extension, for every size within the receiver's limit and every extension without line breaks that does
    not start with a blank, provided the line fits the line-length limit -/
theorem chunk_header_roundtrip (cfg : Cfg) (n : Nat) (ext : Bytes)
    (hn : n ≤ cfg.maxChunk) (hmax : n ≤ LONG_MAX) (hsz : Gen.maxSizeDigits = 16)
    (hext : ∀ c ∈ ext, isEol c = false) (hlead : ∀ c, ext.head? = some c → isBlank c = false)
    (hws : 1 ≤ cfg.maxWs) (hline : (Enc.chunkHeader n ext).length ≤ cfg.maxLine) :
    let r := CH.parse cfg {} (Enc.chunkHeader n ext)
    r.2.2 = true ∧ r.2.1 = [] ∧ r.1.size = n ∧ r.1.ext = ext := by
  obtain ⟨h1, h2, _⟩ := C08.hex_digits n
  have hlen := C08.hex_length n hmax
  have hcs := C08.chunkSizeOf_hex n hmax
  rw [List.all_eq_true] at h2
  generalize hds : toHexString n = ds at h1 h2 hlen hcs
  cases ds with
  | nil => exact absurd rfl h1
  | cons d ds =>
    have hdx : isXDigit d = true := h2 d (by simp)
    have hdsx : ∀ c ∈ ds, isXDigit c = true := fun c hc => h2 c (by simp [hc])
    cases ext with
    | nil =>
      have hE : Enc.chunkHeader n [] = d :: (ds ++ [13, 10]) := by
        simp [Enc.chunkHeader, hds, Enc.crlf, Gen.cCRLF]
      rw [hE] at hline
      simp at hline hlen
      intro r
      have hr : r = CH.parse cfg {} (d :: (ds ++ [13, 10])) := by rw [← hE]
      rw [hr]
      unfold CH.parse
      rw [C08.loop_first cfg d _ hdx (by omega) (by omega),
        C08.loop_size cfg [13, 10] ds [d] 1 hdsx (by simp; omega) (by omega),
        C08.loop_size_crlf cfg ([d] ++ ds) _ n hcs hn (by omega)]
      simp
    | cons e es =>
      have hE : Enc.chunkHeader n (e :: es) = d :: (ds ++ 59 :: 32 :: e :: (es ++ [13, 10])) := by
        simp [Enc.chunkHeader, hds, Enc.crlf, Gen.cCRLF]
      rw [hE] at hline
      simp at hline hlen
      have heb : isBlank e = false := hlead e rfl
      have hee : isEol e = false := hext e (by simp)
      have hes : ∀ c ∈ es, isEol c = false := fun c hc => hext c (by simp [hc])
      intro r
      have hr : r = CH.parse cfg {} (d :: (ds ++ 59 :: 32 :: e :: (es ++ [13, 10]))) := by rw [← hE]
      rw [hr]
      unfold CH.parse
      rw [C08.loop_first cfg d _ hdx (by omega) (by omega),
        C08.loop_size cfg _ ds [d] 1 hdsx (by simp; omega) (by omega),
        C08.loop_size_semi cfg ([d] ++ ds) _ e _ n hcs hn hws hee heb (by omega),
        C08.loop_ext cfg _ _ _ _ es [e] _ hes (by omega),
        C08.loop_ext_crlf cfg _ _ _ _ _ (by omega)]
      simp

end Via
