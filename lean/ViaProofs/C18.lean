import ViaProofs.Statements
namespace Via
open HM

/-! structural versions of the bucket operations -/

def lookupS {V} (k : Nat) : Bucket V → Option (Nat × V)
  | [] => none
  | (k', v) :: r => if k' < k then lookupS k r else if k' == k then some (k', v) else none

def insertS {V} (k : Nat) (v : V) : Bucket V → Bucket V
  | [] => [(k, v)]
  | (k', v') :: r =>
    if k' < k then (k', v') :: insertS k v r
    else if k' == k then (k, v) :: r else (k, v) :: (k', v') :: r

def eraseS {V} (k : Nat) : Bucket V → Bucket V
  | [] => []
  | (k', v') :: r =>
    if k' < k then (k', v') :: eraseS k r
    else if k' == k then r else (k', v') :: r

theorem valueFor_eq {V} (k : Nat) (b : Bucket V) : valueFor b k = lookupS k b := by
  induction b with
  | nil => simp [valueFor, lowerBound, lookupS]
  | cons p r ih =>
    obtain ⟨k', v⟩ := p
    unfold valueFor lowerBound lookupS
    by_cases h : k' < k
    · simp only [h, ↓reduceIte, List.getElem?_cons_succ]
      exact ih
    · simp [h]

theorem addOrUpdate_cons_lt {V} (k k' : Nat) (v v' : V) (r : Bucket V) (h : k' < k) :
    addOrUpdate ((k', v') :: r) k v = (k', v') :: addOrUpdate r k v := by
  simp only [addOrUpdate, lowerBound, h, ↓reduceIte, List.getElem?_cons_succ]
  cases hr : r[lowerBound k r]? with
  | none => simp
  | some q => obtain ⟨k'', v''⟩ := q; by_cases h2 : k'' == k <;> simp [h2]

theorem addOrUpdate_eq {V} (k : Nat) (v : V) (b : Bucket V) : addOrUpdate b k v = insertS k v b := by
  induction b with
  | nil => simp [addOrUpdate, lowerBound, insertS]
  | cons p r ih =>
    obtain ⟨k', v'⟩ := p
    by_cases h : k' < k
    · rw [addOrUpdate_cons_lt k k' v v' r h, ih]; simp [insertS, h]
    · by_cases h2 : k' == k <;> simp [addOrUpdate, lowerBound, insertS, h, h2]

theorem removeMapping_cons_lt {V} (k k' : Nat) (v' : V) (r : Bucket V) (h : k' < k) :
    removeMapping ((k', v') :: r) k = (k', v') :: removeMapping r k := by
  simp only [removeMapping, lowerBound, h, ↓reduceIte, List.getElem?_cons_succ]
  cases hr : r[lowerBound k r]? with
  | none => simp
  | some q => obtain ⟨k'', v''⟩ := q; by_cases h2 : k'' == k <;> simp [h2]

theorem removeMapping_eq {V} (k : Nat) (b : Bucket V) : removeMapping b k = eraseS k b := by
  induction b with
  | nil => simp [removeMapping, lowerBound, eraseS]
  | cons p r ih =>
    obtain ⟨k', v'⟩ := p
    by_cases h : k' < k
    · rw [removeMapping_cons_lt k k' v' r h, ih]; simp [eraseS, h]
    · by_cases h2 : k' == k <;> simp [removeMapping, lowerBound, eraseS, h, h2]

/-- strictly sorted by key -/
def SortedB {V} (b : Bucket V) : Prop := b.Pairwise (fun p q => p.1 < q.1)

theorem lookupS_mem {V} (k : Nat) (b : Bucket V) (hs : SortedB b) (p : Nat × V) :
    lookupS k b = some p ↔ (p ∈ b ∧ p.1 = k) := by
  induction b with
  | nil => simp [lookupS]
  | cons q r ih =>
    obtain ⟨k', v'⟩ := q
    have hs' : SortedB r := (List.pairwise_cons.1 hs).2
    have hlt : ∀ x ∈ r, k' < x.1 := (List.pairwise_cons.1 hs).1
    unfold lookupS
    by_cases h : k' < k
    · simp only [h, ↓reduceIte, List.mem_cons]
      rw [ih hs']
      constructor
      · rintro ⟨a, b⟩; exact ⟨Or.inr a, b⟩
      · rintro ⟨a | a, b⟩
        · subst a; simp at b; omega
        · exact ⟨a, b⟩
    · by_cases h2 : k' = k
      · subst h2
        simp only [Nat.lt_irrefl, ↓reduceIte, beq_self_eq_true, Option.some.injEq, List.mem_cons]
        constructor
        · intro e; subst e; simp
        · rintro ⟨a | a, b⟩
          · exact a.symm
          · have := hlt p a; omega
      · have : (k' == k) = false := by simp [h2]
        simp only [h, ↓reduceIte, this, Bool.false_eq_true, List.mem_cons, false_iff, reduceCtorEq]
        rintro ⟨a | a, b⟩
        · subst a; simp at b; exact h2 b
        · have := hlt p a; omega

theorem sorted_tail_gt {V} {k' : Nat} {v' : V} {r : Bucket V} (hs : SortedB ((k', v') :: r)) :
    SortedB r ∧ ∀ x ∈ r, k' < x.1 := by
  have := List.pairwise_cons.1 hs
  exact ⟨this.2, this.1⟩

theorem insertS_mem {V} (k : Nat) (v : V) (b : Bucket V) (hs : SortedB b) (p : Nat × V) :
    p ∈ insertS k v b ↔ (p = (k, v) ∨ (p ∈ b ∧ p.1 ≠ k)) := by
  induction b with
  | nil => simp [insertS]
  | cons q r ih =>
    obtain ⟨k', v'⟩ := q
    obtain ⟨hs', hlt⟩ := sorted_tail_gt hs
    unfold insertS
    by_cases h : k' < k
    · simp only [h, ↓reduceIte, List.mem_cons]
      rw [ih hs']
      constructor
      · rintro (a | a | ⟨a, b⟩)
        · subst a; exact Or.inr ⟨Or.inl rfl, by simp; omega⟩
        · exact Or.inl a
        · exact Or.inr ⟨Or.inr a, b⟩
      · rintro (a | ⟨a | a, b⟩)
        · exact Or.inr (Or.inl a)
        · exact Or.inl a
        · exact Or.inr (Or.inr ⟨a, b⟩)
    · by_cases h2 : k' = k
      · subst h2
        simp only [Nat.lt_irrefl, ↓reduceIte, beq_self_eq_true, List.mem_cons]
        constructor
        · rintro (a | a)
          · exact Or.inl a
          · have := hlt p a; exact Or.inr ⟨Or.inr a, by omega⟩
        · rintro (a | ⟨a | a, b⟩)
          · exact Or.inl a
          · subst a; simp at b
          · exact Or.inr a
      · have hb : (k' == k) = false := by simp [h2]
        simp only [h, ↓reduceIte, hb, Bool.false_eq_true, List.mem_cons]
        constructor
        · rintro (a | a | a)
          · exact Or.inl a
          · subst a; exact Or.inr ⟨Or.inl rfl, h2⟩
          · have := hlt p a; exact Or.inr ⟨Or.inr a, by omega⟩
        · rintro (a | ⟨a | a, b⟩)
          · exact Or.inl a
          · exact Or.inr (Or.inl a)
          · exact Or.inr (Or.inr a)
        done

theorem eraseS_mem {V} (k : Nat) (b : Bucket V) (hs : SortedB b) (p : Nat × V) :
    p ∈ eraseS k b ↔ (p ∈ b ∧ p.1 ≠ k) := by
  induction b with
  | nil => simp [eraseS]
  | cons q r ih =>
    obtain ⟨k', v'⟩ := q
    obtain ⟨hs', hlt⟩ := sorted_tail_gt hs
    unfold eraseS
    by_cases h : k' < k
    · simp only [h, ↓reduceIte, List.mem_cons]
      rw [ih hs']
      constructor
      · rintro (a | ⟨a, b⟩)
        · subst a; exact ⟨Or.inl rfl, by simp; omega⟩
        · exact ⟨Or.inr a, b⟩
      · rintro ⟨a | a, b⟩
        · exact Or.inl a
        · exact Or.inr ⟨a, b⟩
    · by_cases h2 : k' = k
      · subst h2
        simp only [Nat.lt_irrefl, ↓reduceIte, beq_self_eq_true, List.mem_cons]
        constructor
        · intro a; have := hlt p a; exact ⟨Or.inr a, by omega⟩
        · rintro ⟨a | a, b⟩
          · subst a; simp at b
          · exact a
      · have hb : (k' == k) = false := by simp [h2]
        simp only [h, ↓reduceIte, hb, Bool.false_eq_true, List.mem_cons]
        constructor
        · rintro (a | a)
          · subst a; exact ⟨Or.inl rfl, h2⟩
          · have := hlt p a; exact ⟨Or.inr a, by omega⟩
        · rintro ⟨a | a, _⟩
          · exact Or.inl a
          · exact Or.inr a

theorem insertS_sorted {V} (k : Nat) (v : V) (b : Bucket V) (hs : SortedB b) : SortedB (insertS k v b) := by
  induction b with
  | nil => simp [insertS, SortedB]
  | cons q r ih =>
    obtain ⟨k', v'⟩ := q
    obtain ⟨hs', hlt⟩ := sorted_tail_gt hs
    unfold insertS
    by_cases h : k' < k
    · simp only [h, ↓reduceIte]
      refine List.pairwise_cons.2 ⟨?_, ih hs'⟩
      intro x hx
      rcases (insertS_mem k v r hs' x).1 hx with a | ⟨a, _⟩
      · subst a; exact h
      · exact hlt x a
    · by_cases h2 : k' = k
      · subst h2
        simp only [Nat.lt_irrefl, ↓reduceIte, beq_self_eq_true]
        exact List.pairwise_cons.2 ⟨hlt, hs'⟩
      · have hb : (k' == k) = false := by simp [h2]
        simp only [h, ↓reduceIte, hb, Bool.false_eq_true]
        refine List.pairwise_cons.2 ⟨?_, hs⟩
        intro x hx
        rcases List.mem_cons.1 hx with a | a
        · subst a; show k < k'; omega
        · have := hlt x a; show k < x.1; omega

theorem eraseS_sorted {V} (k : Nat) (b : Bucket V) (hs : SortedB b) : SortedB (eraseS k b) := by
  induction b with
  | nil => simp [eraseS, SortedB]
  | cons q r ih =>
    obtain ⟨k', v'⟩ := q
    obtain ⟨hs', hlt⟩ := sorted_tail_gt hs
    unfold eraseS
    by_cases h : k' < k
    · simp only [h, ↓reduceIte]
      refine List.pairwise_cons.2 ⟨?_, ih hs'⟩
      intro x hx
      exact hlt x ((eraseS_mem k r hs' x).1 hx).1
    · by_cases h2 : k' = k
      · subst h2; simpa using hs'
      · have hb : (k' == k) = false := by simp [h2]
        simpa [h, hb] using hs

theorem sorted_nodup {V} (b : Bucket V) (hs : SortedB b) : b.Nodup := by
  refine List.nodup_iff_pairwise_ne.2 (List.Pairwise.imp ?_ hs)
  intro a c hlt heq; subst heq; omega

/-! map level -/

def MInv {V} (m : Map V) : Prop :=
  m.buckets.length = m.n ∧ 0 < m.n ∧
  ∀ i b, m.buckets[i]? = some b → SortedB b ∧ ∀ p ∈ b, m.hash p.1 % m.n = i

def KeysNodup {V} (l : SpecMap V) : Prop := l.Pairwise (fun p q => p.1 ≠ q.1)

theorem idx_lt {V} (m : Map V) (h : MInv m) (k : Nat) : m.idx k < m.buckets.length := by
  unfold Map.idx; rw [h.1]; exact Nat.mod_lt _ h.2.1

theorem getD_bucket {V} (m : Map V) (h : MInv m) (k : Nat) :
    m.buckets[m.idx k]? = some (m.buckets.getD (m.idx k) []) := by
  have := idx_lt m h k
  simp [List.getD_eq_getElem?_getD, List.getElem?_eq_getElem this]

theorem mem_data_iff {V} (m : Map V) (h : MInv m) (p : Nat × V) :
    p ∈ m.data ↔ p ∈ m.buckets.getD (m.idx p.1) [] := by
  unfold Map.data
  rw [List.mem_flatten]
  constructor
  · rintro ⟨b, hb, hp⟩
    obtain ⟨i, hi⟩ := List.mem_iff_getElem?.1 hb
    have := (h.2.2 i b hi).2 p hp
    have e : m.idx p.1 = i := this
    rw [List.getD_eq_getElem?_getD, e, hi]; exact hp
  · intro hp
    have := getD_bucket m h p.1
    exact ⟨_, List.mem_iff_getElem?.2 ⟨_, this⟩, hp⟩

theorem find_iff {V} (m : Map V) (h : MInv m) (k : Nat) (p : Nat × V) :
    m.find k = some p ↔ (p ∈ m.data ∧ p.1 = k) := by
  unfold Map.find
  rw [valueFor_eq, lookupS_mem k _ (h.2.2 _ _ (getD_bucket m h k)).1 p, mem_data_iff m h p]
  constructor
  · rintro ⟨a, b⟩; subst b; exact ⟨a, rfl⟩
  · rintro ⟨a, b⟩; subst b; exact ⟨a, rfl⟩

theorem nodup_flatten_buckets {V} (key : Nat → Nat) : ∀ (L : List (Bucket V)) (off : Nat),
    (∀ j b, L[j]? = some b → SortedB b ∧ ∀ p ∈ b, key p.1 = off + j) → L.flatten.Nodup := by
  intro L
  induction L with
  | nil => intro _ _; simp
  | cons b L ih =>
    intro off hL
    rw [List.flatten_cons, List.nodup_append]
    refine ⟨sorted_nodup b (hL 0 b (by simp)).1, ih (off + 1) ?_, ?_⟩
    · intro j c hj
      have := hL (j + 1) c (by simpa using hj)
      refine ⟨this.1, fun p hp => ?_⟩
      have := this.2 p hp; omega
    · intro a ha c hc heq
      subst heq
      obtain ⟨b', hb', hc'⟩ := List.mem_flatten.1 hc
      obtain ⟨j, hj⟩ := List.mem_iff_getElem?.1 hb'
      have h1 := (hL 0 b (by simp)).2 a ha
      have h2 := (hL (j + 1) b' (by simpa using hj)).2 a hc'
      omega

theorem data_nodup {V} (m : Map V) (h : MInv m) : m.data.Nodup := by
  refine nodup_flatten_buckets (fun k => m.hash k % m.n) m.buckets 0 ?_
  intro j b hj
  have := h.2.2 j b hj
  exact ⟨this.1, fun p hp => by simpa using this.2 p hp⟩

theorem empty_inv {V} (n : Nat) (hash : Nat → Nat) (hn : 0 < n) : MInv (Map.empty (V := V) n hash) := by
  refine ⟨by simp [Map.empty], hn, ?_⟩
  intro i b hi
  simp only [Map.empty, List.getElem?_replicate] at hi
  split at hi
  · cases hi; exact ⟨by simp [SortedB], by simp⟩
  · cases hi

theorem modify_inv {V} (m : Map V) (h : MInv m) (k : Nat) (f : Bucket V → Bucket V)
    (hf : ∀ b, SortedB b → SortedB (f b) ∧ ∀ p ∈ f b, p.1 = k ∨ p ∈ b) :
    MInv { m with buckets := m.buckets.modify (m.idx k) f } := by
  refine ⟨by simp [h.1], h.2.1, ?_⟩
  intro i b hi
  simp only [List.getElem?_modify] at hi
  cases hb : m.buckets[i]? with
  | none => simp [hb] at hi
  | some b0 =>
    simp only [hb, Option.map_eq_map, Option.map_some, Option.some.injEq] at hi
    have h0 := h.2.2 i b0 hb
    by_cases he : m.idx k = i
    · simp only [he, ↓reduceIte] at hi
      subst hi
      refine ⟨(hf b0 h0.1).1, fun p hp => ?_⟩
      rcases (hf b0 h0.1).2 p hp with a | a
      · rw [a]; exact he
      · exact h0.2 p a
    · simp only [he, ↓reduceIte] at hi
      subst hi; exact h0

theorem modify_mem {V} (m : Map V) (h : MInv m) (k : Nat) (f : Bucket V → Bucket V)
    (h' : MInv { m with buckets := m.buckets.modify (m.idx k) f }) (p : Nat × V) :
    p ∈ ({ m with buckets := m.buckets.modify (m.idx k) f } : Map V).data ↔
      if m.idx p.1 = m.idx k then p ∈ f (m.buckets.getD (m.idx k) []) else p ∈ m.data := by
  rw [mem_data_iff _ h', mem_data_iff m h]
  show p ∈ (m.buckets.modify (m.idx k) f).getD (m.idx p.1) [] ↔ _
  rw [List.getD_eq_getElem?_getD, List.getElem?_modify, getD_bucket m h p.1]
  by_cases he : m.idx p.1 = m.idx k
  · simp [he]
  · have : ¬ m.idx k = m.idx p.1 := fun x => he x.symm
    simp [he, this]

theorem insert_inv {V} (m : Map V) (h : MInv m) (k : Nat) (v : V) : MInv (m.insert k v) := by
  refine modify_inv m h k _ ?_
  intro b hb
  rw [addOrUpdate_eq]
  refine ⟨insertS_sorted k v b hb, fun p hp => ?_⟩
  rcases (insertS_mem k v b hb p).1 hp with a | a
  · left; rw [a]
  · right; exact a.1

theorem erase_inv {V} (m : Map V) (h : MInv m) (k : Nat) : MInv (m.erase k) := by
  refine modify_inv m h k _ ?_
  intro b hb
  rw [removeMapping_eq]
  exact ⟨eraseS_sorted k b hb, fun p hp => Or.inr ((eraseS_mem k b hb p).1 hp).1⟩

theorem insert_mem {V} (m : Map V) (h : MInv m) (k : Nat) (v : V) (p : Nat × V) :
    p ∈ (m.insert k v).data ↔ (p = (k, v) ∨ (p ∈ m.data ∧ p.1 ≠ k)) := by
  have hs := (h.2.2 _ _ (getD_bucket m h k)).1
  unfold Map.insert
  rw [modify_mem m h k _ (insert_inv m h k v) p, addOrUpdate_eq]
  by_cases he : m.idx p.1 = m.idx k
  · simp only [he, ↓reduceIte]
    rw [insertS_mem k v _ hs p, mem_data_iff m h p, he]
  · simp only [he, ↓reduceIte]
    constructor
    · intro a; exact Or.inr ⟨a, fun x => he (by rw [x])⟩
    · rintro (a | a)
      · rw [a] at he; exact absurd rfl he
      · exact a.1

theorem erase_mem {V} (m : Map V) (h : MInv m) (k : Nat) (p : Nat × V) :
    p ∈ (m.erase k).data ↔ (p ∈ m.data ∧ p.1 ≠ k) := by
  have hs := (h.2.2 _ _ (getD_bucket m h k)).1
  unfold Map.erase
  rw [modify_mem m h k _ (erase_inv m h k) p, removeMapping_eq]
  by_cases he : m.idx p.1 = m.idx k
  · simp only [he, ↓reduceIte]
    rw [eraseS_mem k _ hs p, mem_data_iff m h p, he]
  · simp only [he, ↓reduceIte]
    constructor
    · intro a; exact ⟨a, fun x => he (by rw [x])⟩
    · exact fun a => a.1

theorem clear_inv {V} (m : Map V) (h : MInv m) : MInv m.clear := by
  refine ⟨by simp [Map.clear, h.1], h.2.1, ?_⟩
  intro i b hi
  simp only [Map.clear, List.getElem?_map] at hi
  cases hb : m.buckets[i]? with
  | none => simp [hb] at hi
  | some b0 => simp [hb] at hi; subst hi; exact ⟨by simp [SortedB], by simp⟩

theorem clear_data {V} (m : Map V) : m.clear.data = [] := by
  simp only [Map.clear, Map.data, List.flatten_eq_nil_iff, List.mem_map]
  rintro l ⟨_, _, rfl⟩; rfl

/-- the simulation relation -/
def Sim {V} (m : Map V) (l : SpecMap V) : Prop :=
  MInv m ∧ KeysNodup l ∧ ∀ p, p ∈ m.data ↔ p ∈ l

theorem spec_find_iff {V} (l : SpecMap V) (hl : KeysNodup l) (k : Nat) (p : Nat × V) :
    l.find? (fun q => q.1 == k) = some p ↔ (p ∈ l ∧ p.1 = k) := by
  induction l with
  | nil => simp
  | cons q r ih =>
    have hq := List.pairwise_cons.1 hl
    rw [List.find?_cons]
    by_cases h : q.1 = k
    · simp only [h, beq_self_eq_true, Option.some.injEq, List.mem_cons]
      constructor
      · intro e; subst e; exact ⟨Or.inl rfl, h⟩
      · rintro ⟨a | a, b⟩
        · exact a.symm
        · have := hq.1 p a; rw [h, b] at this; exact absurd rfl this
    · have hb : (q.1 == k) = false := by simp [h]
      simp only [hb, List.mem_cons]
      rw [ih hq.2]
      constructor
      · rintro ⟨a, b⟩; exact ⟨Or.inr a, b⟩
      · rintro ⟨a | a, b⟩
        · subst a; exact absurd b h
        · exact ⟨a, b⟩

theorem keysNodup_filter {V} (l : SpecMap V) (hl : KeysNodup l) (f : Nat × V → Bool) :
    KeysNodup (l.filter f) := List.Pairwise.sublist List.filter_sublist hl

theorem keysNodup_nodup {V} (l : SpecMap V) (hl : KeysNodup l) : l.Nodup := by
  refine List.nodup_iff_pairwise_ne.2 (List.Pairwise.imp ?_ hl)
  intro a b h e; subst e; exact h rfl

theorem step_sim {V} (m : Map V) (l : SpecMap V) (h : Sim m l) (op : Op V) :
    Sim (m.step op).1 (l.step op).1 ∧ ResRel (m.step op).2 (l.step op).2 := by
  obtain ⟨hi, hk, hm⟩ := h
  cases op with
  | insert k v =>
    refine ⟨⟨insert_inv m hi k v, ?_, ?_⟩, rfl⟩
    · refine List.pairwise_cons.2 ⟨?_, keysNodup_filter l hk _⟩
      intro q hq
      have := (List.mem_filter.1 hq).2
      simp at this; exact fun e => this e.symm
    · intro p
      show p ∈ (m.insert k v).data ↔ p ∈ (k, v) :: l.filter _
      rw [insert_mem m hi k v p, List.mem_cons, List.mem_filter, hm p]
      simp
  | erase k =>
    refine ⟨⟨erase_inv m hi k, keysNodup_filter l hk _, ?_⟩, rfl⟩
    intro p
    show p ∈ (m.erase k).data ↔ p ∈ l.filter _
    rw [erase_mem m hi k p, List.mem_filter, hm p]
    simp
  | find k =>
    refine ⟨⟨hi, hk, hm⟩, ?_⟩
    show Res.found (m.find k) = Res.found (l.find? _)
    congr 1
    apply Option.ext
    intro p
    rw [find_iff m hi k p, spec_find_iff l hk k p, hm p]
  | isEmpty =>
    refine ⟨⟨hi, hk, hm⟩, ?_⟩
    show Res.bool m.isEmpty = Res.bool l.isEmpty
    congr 1
    have h1 : m.isEmpty = true ↔ m.data = [] := by
      unfold Map.isEmpty Map.data
      rw [List.all_eq_true, List.flatten_eq_nil_iff]
      simp
    have h2 : m.data = [] ↔ l = [] := by
      rw [List.eq_nil_iff_forall_not_mem, List.eq_nil_iff_forall_not_mem]
      exact ⟨fun a p hp => a p ((hm p).2 hp), fun a p hp => a p ((hm p).1 hp)⟩
    have h3 : l.isEmpty = true ↔ l = [] := List.isEmpty_iff
    cases hme : m.isEmpty <;> cases hle : l.isEmpty <;> simp_all
  | data =>
    refine ⟨⟨hi, hk, hm⟩, ?_⟩
    show (m.data).Perm l
    exact (List.perm_ext_iff_of_nodup (data_nodup m hi) (keysNodup_nodup l hk)).2 hm
  | clear =>
    refine ⟨⟨clear_inv m hi, by simp [KeysNodup, SpecMap.step], ?_⟩, rfl⟩
    intro p
    show p ∈ m.clear.data ↔ p ∈ ([] : SpecMap V)
    rw [clear_data]

theorem run_sim {V} (ops : List (Op V)) : ∀ (m : Map V) (l : SpecMap V), Sim m l →
    ResListRel (m.run ops).2 (SpecMap.run l ops).2 := by
  induction ops with
  | nil => intro m l _; simp [Map.run, SpecMap.run, ResListRel]
  | cons op ops ih =>
    intro m l h
    obtain ⟨h1, h2⟩ := step_sim m l h op
    simp only [Map.run, SpecMap.run, ResListRel]
    exact ⟨h2, ih _ _ h1⟩

theorem C18_seq : C18_seq_statement := by
  intro V n hash ops hn
  apply run_sim
  exact ⟨empty_inv n hash hn, by simp [KeysNodup], by simp [Map.empty, Map.data]⟩

/-- erase of an absent key leaves every lookup unchanged (the defect repaired in `remove_mapping`) -/
theorem erase_absent_noop {V} (m : Map V) (h : MInv m) (k : Nat) (habs : m.find k = none) (k' : Nat) :
    (m.erase k).find k' = m.find k' := by
  apply Option.ext
  intro p
  rw [find_iff _ (erase_inv m h k), find_iff m h, erase_mem m h k]
  constructor
  · rintro ⟨⟨a, _⟩, c⟩; exact ⟨a, c⟩
  · rintro ⟨a, c⟩
    refine ⟨⟨a, fun e => ?_⟩, c⟩
    have : m.find k = some p := (find_iff m h k p).2 ⟨a, e⟩
    rw [habs] at this; cases this

/-- non-vacuity: a three-operation history on a one-bucket map (maximal collision) -/
example : ((Map.empty (V := Nat) 1 (fun k => k)).run [.insert 1 10, .insert 3 30, .erase 2, .find 3]).2
    = [.unit, .unit, .unit, .found (some (3, 30))] := by decide

end Via

namespace Via

/-- structural facts about the C++ the sequential refinement is lifted with (re-extracted from
    threadsafe_hash_map.hpp on every run): `remove_mapping` compares the key at the `lower_bound` position while it
    holds the bucket's exclusive lock, and every bucket operation takes the lock before it touches the data -/
theorem C18_erase_compares_key_under_lock : Gen.eraseComparesKey = true := by decide

theorem C18_lock_discipline : Gen.bucketOpsTakeLockFirst = true := by decide

/-! ### towards linearizability: operations on different buckets commute

  The sequential refinement (`C18_seq`) says what each operation does when it runs alone.  Under the lock discipline
  re-extracted from the source (`C18_lock_discipline`: every single-bucket operation runs its whole body under that
  bucket's lock; the whole-map operations hold every bucket's lock) two operations can overlap in time only when they
  work on DIFFERENT buckets; the theorem below shows that such operations commute, state and results, so any
  interleaving permitted by the locks is equivalent to running the operations one after the other in the order in
  which they acquired their locks.  The reduction argument itself (Lipton movers over the lock acquisitions) is not
  formalised: it is the stated residue of C18, searched for counter-examples by the threaded Wing–Gong check. -/

open HM

/-- the single-bucket operations -/
inductive KeyOp (V : Type) where
  | insert (k : Nat) (v : V) | erase (k : Nat) | find (k : Nat)

def KeyOp.key {V} : KeyOp V → Nat
  | .insert k _ => k | .erase k => k | .find k => k

def KeyOp.op {V} : KeyOp V → Op V
  | .insert k v => .insert k v | .erase k => .erase k | .find k => .find k

theorem modify_comm {α} (l : List α) (i j : Nat) (f g : α → α) (h : i ≠ j) :
    (l.modify i f).modify j g = (l.modify j g).modify i f := by
  apply List.ext_getElem?
  intro n
  simp only [List.getElem?_modify]
  by_cases h1 : i = n <;> by_cases h2 : j = n <;> simp_all

theorem getD_modify_ne {α} (l : List α) (i j : Nat) (f : α → α) (d : α) (h : i ≠ j) :
    (l.modify i f).getD j d = l.getD j d := by
  simp [List.getD_eq_getElem?_getD, h]

/-- what a single-bucket operation does to its bucket -/
def KeyOp.upd {V} : KeyOp V → Bucket V → Bucket V
  | .insert k v => fun b => addOrUpdate b k v
  | .erase k => fun b => removeMapping b k
  | .find _ => id

/-- the bucket an operation works on is determined by its key alone; the other fields never change -/
theorem step_keyop_shape {V} (m : Map V) (o : KeyOp V) :
    (m.step o.op).1 = { m with buckets := m.buckets.modify (m.idx o.key) o.upd } := by
  cases o with
  | insert k v => rfl
  | erase k => rfl
  | find k => simp [Map.step, KeyOp.op, KeyOp.upd, List.modify_id]

/-- the result of a single-bucket operation depends only on its own bucket -/
theorem step_keyop_result {V} (m m' : Map V) (o : KeyOp V) (hn : m'.n = m.n) (hh : m'.hash = m.hash)
    (hb : m'.buckets.getD (m.idx o.key) [] = m.buckets.getD (m.idx o.key) []) :
    (m'.step o.op).2 = (m.step o.op).2 := by
  have hidx : m'.idx o.key = m.idx o.key := by simp [Map.idx, hn, hh]
  cases o with
  | insert k v => rfl
  | erase k => rfl
  | find k =>
    simp only [Map.step, KeyOp.op, Map.find]
    simp only [KeyOp.key] at hidx hb
    rw [hidx, hb]

/-- COMMUTATION: two single-bucket operations whose keys fall into different buckets commute — both orders end in
    the same map, and each operation returns the same result in either order.  (With the lock discipline — the body
    of a single-bucket operation runs entirely under that bucket's lock, `C18_lock_discipline` — this is what makes
    every interleaving of such operations equivalent to a sequential order.) -/
theorem C18_commute_distinct_buckets {V} (m : Map V) (o1 o2 : KeyOp V) (hb : m.idx o1.key ≠ m.idx o2.key) :
    ((m.step o1.op).1.step o2.op).1 = ((m.step o2.op).1.step o1.op).1 ∧
    ((m.step o1.op).1.step o2.op).2 = (m.step o2.op).2 ∧
    ((m.step o2.op).1.step o1.op).2 = (m.step o1.op).2 := by
  have e1 := step_keyop_shape m o1
  have e2 := step_keyop_shape m o2
  refine ⟨?_, ?_, ?_⟩
  · rw [step_keyop_shape (m.step o1.op).1 o2, step_keyop_shape (m.step o2.op).1 o1, e1, e2]
    simp only [Map.idx] at hb ⊢
    rw [modify_comm _ _ _ _ _ hb]
  · apply step_keyop_result
    · rw [e1]
    · rw [e1]
    · rw [e1]; exact getD_modify_ne _ _ _ _ _ hb
  · apply step_keyop_result
    · rw [e2]
    · rw [e2]
    · rw [e2]; exact getD_modify_ne _ _ _ _ _ (Ne.symm hb)
end Via
