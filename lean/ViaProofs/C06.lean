import ViaProofs.Statements
/-
  C06 — per-connection buffering is bounded by the configured limits.

  `retained r` is everything the request receiver stores for a connection; `bound cfg` is a formula in the
  configured limits.  `C06`: for EVERY byte stream, however long and however fragmented, and whether or not the
  application's handler clears the receiver, the receiver never retains more than `bound cfg` bytes between two
  `receive` calls.  (With the unrepaired `message_headers` this was false: `":\r\n"` repeated grows one header
  value without limit.)
-/
namespace Via

def fieldsBytes (fs : Fields) : Nat := (fs.map fun p => p.1.length + p.2.length).sum

/-- bytes retained by the receiver: method, target, header map, header line in progress, body, and of the chunk:
    data, size digits, extension, trailers, trailer line in progress -/
def retained (r : RR) : Nat :=
  r.request.line.method.length + r.request.line.uri.length +
  fieldsBytes r.request.headers.fields +
  (r.request.headers.field.name.length + r.request.headers.field.value.length) +
  r.body.length +
  r.chunk.data.length + r.chunk.hdr.hexSize.length + r.chunk.hdr.ext.length +
  fieldsBytes r.chunk.trailers.fields +
  (r.chunk.trailers.field.name.length + r.chunk.trailers.field.value.length)

/-- the bound computed from the limits (the `+ maxHdrNum` terms are the separators that join repeated fields) -/
def bound (cfg : Cfg) : Nat :=
  cfg.maxMethod + cfg.maxUri + 2 * (cfg.maxHdrLen + cfg.maxHdrNum + cfg.maxLine) +
  cfg.maxContent + cfg.maxChunk + Gen.maxSizeDigits + cfg.maxLine

/-- the states a receiver can be in between two `receive` calls of a connection: the initial state, the state
    returned by `receive` (what a handler sees), and that state after the server's reaction -/
inductive Reach (cfg : Cfg) : RR → Prop
  | init : Reach cfg {}
  | recv (r : RR) (buf : Bytes) : Reach cfg r → Reach cfg (RR.receive cfg r buf).1
  | react (r : RR) (buf : Bytes) : Reach cfg r →
      Reach cfg (RR.afterResult cfg (RR.receive cfg r buf).1 (RR.receive cfg r buf).2.2)
  | cleared (r : RR) : Reach cfg r → Reach cfg r.clear
  | continued (r : RR) : Reach cfg r → Reach cfg { r with continueSent := true }

def C06_statement : Prop :=
  ∀ (cfg : Cfg) (r : RR), 3 ≤ cfg.maxMethod → Reach cfg r → retained r ≤ bound cfg

namespace C06

/-! ### request line -/
def GoodRL (cfg : Cfg) (s : RL) : Prop := s.method.length ≤ cfg.maxMethod ∧ s.uri.length ≤ cfg.maxUri

theorem RL_parseChar_good (cfg : Cfg) (s : RL) (c : Byte) (h : GoodRL cfg s) :
    (RL.parseChar cfg s c).2 = true → GoodRL cfg (RL.parseChar cfg s c).1 := by
  unfold RL.parseChar
  unfold GoodRL at h ⊢
  obtain ⟨h1, h2⟩ := h
  simp only
  repeat' split
  all_goals simp_all
  all_goals omega

theorem RL_loop_good (cfg : Cfg) (s : RL) (buf : Bytes) (h : GoodRL cfg s) :
    GoodRL cfg (RL.loop cfg s buf).1 ∨
      ((RL.loop cfg s buf).2.2 = true ∧ (RL.loop cfg s buf).1.fail = true) := by
  induction buf generalizing s with
  | nil => exact Or.inl h
  | cons c cs ih =>
    simp only [RL.loop]
    split
    · exact Or.inl h
    · by_cases hok : (s.parseChar cfg c).2 = true
      · simp only [hok, Bool.not_true, Bool.false_eq_true, if_false]
        exact ih _ (RL_parseChar_good cfg s c h hok)
      · simp [hok]

theorem RL_parse_good (cfg : Cfg) (s : RL) (buf : Bytes) (h : GoodRL cfg s) :
    GoodRL cfg (RL.parse cfg s buf).1 ∨
      ((RL.parse cfg s buf).2.2 = false ∧ (RL.parse cfg s buf).1.fail = true) := by
  unfold RL.parse
  simp only
  rcases RL_loop_good cfg s buf h with hg | ⟨h1, h2⟩
  · split
    · exact Or.inl hg
    · exact Or.inl hg
  · simp [h1, h2]

/-! ### field line -/
def slack (st : HS) : Nat := if st = .valid then 1 else 0

def GoodFL (cfg : Cfg) (f : FL) : Prop :=
  f.name.length + f.value.length + slack f.st ≤ f.length ∧ f.length ≤ cfg.maxLine

theorem GoodFL_init (cfg : Cfg) : GoodFL cfg {} := by
  simp [GoodFL, slack]

theorem FL_parseChar_good (cfg : Cfg) (s : FL) (c : Byte) (h : GoodFL cfg s) :
    (FL.parseChar cfg s c).2 = true → GoodFL cfg (FL.parseChar cfg s c).1 := by
  unfold FL.parseChar FL.valueStep
  unfold GoodFL at h ⊢
  obtain ⟨h1, h2⟩ := h
  simp only
  repeat' split
  all_goals simp_all [slack]
  all_goals omega

theorem FL_peek_good (cfg : Cfg) (s : FL) (b : Bytes) (h : GoodFL cfg s) : GoodFL cfg (s.peek b) := by
  unfold FL.peek
  split
  · exact h
  · split
    · rename_i hc
      simp only [Bool.and_eq_true, beq_iff_eq] at hc
      unfold GoodFL at h ⊢
      simp only [hc.1, slack, if_true] at h
      simp only [List.length_append, List.length_singleton, slack]
      simp
      omega
    · exact h

theorem FL_loop_good (cfg : Cfg) (s : FL) (buf : Bytes) (h : GoodFL cfg s) :
    GoodFL cfg (FL.loop cfg s buf).1 ∨
      ((FL.loop cfg s buf).2.2 = false ∧ (FL.loop cfg s buf).1.fail = true) := by
  induction buf generalizing s with
  | nil => exact Or.inl h
  | cons c cs ih =>
    simp only [FL.loop]
    split
    · exact Or.inl h
    · by_cases hok : (s.parseChar cfg c).2 = true
      · simp only [hok, Bool.not_true, Bool.false_eq_true, if_false]
        exact ih _ (FL_peek_good cfg _ _ (FL_parseChar_good cfg s c h hok))
      · simp [hok]

/-! ### header map -/

theorem fieldsBytes_add (fs : Fields) (n v : Bytes) :
    fieldsBytes (fs.add n v) ≤ fieldsBytes fs + (n.length + v.length) + 1 := by
  induction fs with
  | nil => simp [Fields.add, fieldsBytes]
  | cons p rest ih =>
    obtain ⟨n', v'⟩ := p
    simp only [Fields.add]
    split
    · rename_i hn
      have : n' = n := by simpa using hn
      subst this
      simp only [fieldsBytes, List.map_cons, List.sum_cons, List.length_append, List.length_singleton]
      omega
    · simp only [fieldsBytes, List.map_cons, List.sum_cons] at ih ⊢
      omega

def GoodMH (cfg : Cfg) (h : MH) : Prop :=
  fieldsBytes h.fields ≤ h.length + h.number ∧ h.length ≤ cfg.maxHdrLen ∧ h.number ≤ cfg.maxHdrNum ∧
    GoodFL cfg h.field

theorem GoodMH_init (cfg : Cfg) : GoodMH cfg {} := by
  refine ⟨?_, ?_, ?_, GoodFL_init cfg⟩ <;> simp [fieldsBytes]

/-- the outcomes after which the receiver clears everything -/
def BadMH (res : MH × Bytes × Bool) : Prop :=
  res.2.2 = false ∧ (res.1.field.fail = true ∨ res.2.1 ≠ [])

def OkMH (cfg : Cfg) (res : MH × Bytes × Bool) : Prop := GoodMH cfg res.1 ∨ BadMH res

theorem MH_commit_good (cfg : Cfg) (h : MH) (f : FL) (hg : GoodMH cfg h) :
    (MH.commit cfg h f).2 = true → GoodMH cfg (MH.commit cfg h f).1 := by
  unfold MH.commit
  simp only
  have ha := fieldsBytes_add h.fields f.name f.value
  obtain ⟨h1, h2, h3, h4⟩ := hg
  split
  · simp
  · rename_i hc
    intro _
    simp only [Bool.or_eq_true, decide_eq_true_eq, not_or, Nat.not_lt] at hc
    refine ⟨?_, hc.1, hc.2, GoodFL_init cfg⟩
    simp only
    omega

theorem MH_blank_same (cfg : Cfg) (h : MH) (buf : Bytes) :
    (MH.blank cfg h buf).1.fields = h.fields ∧ (MH.blank cfg h buf).1.length = h.length ∧
    (MH.blank cfg h buf).1.number = h.number ∧ (MH.blank cfg h buf).1.field = h.field := by
  cases buf with
  | nil => simp [MH.blank]
  | cons c cs =>
    simp only [MH.blank]
    by_cases h1 : (!h.blankCr && !isEol c) = true
    · simp only [h1, if_true, and_self]
    · simp only [h1, Bool.false_eq_true, if_false]
      by_cases h2 : (!(!h.blankCr && c == 13) && cfg.strict && !h.blankCr) = true
      · simp only [h2, if_true, and_self]
      · simp only [h2, Bool.false_eq_true, if_false]
        by_cases h3 : (!h.blankCr && c == 13) = true
        · simp only [h3, if_true]
          cases cs with
          | nil => simp
          | cons d ds => by_cases h4 : (d != 10) = true <;> simp [h4]
        · simp only [h3, Bool.false_eq_true, if_false]
          by_cases h4 : (c != 10) = true <;> simp [h4]

theorem MH_blank_good (cfg : Cfg) (h : MH) (buf : Bytes) (hg : GoodMH cfg h) :
    GoodMH cfg (MH.blank cfg h buf).1 := by
  obtain ⟨e1, e2, e3, e4⟩ := MH_blank_same cfg h buf
  unfold GoodMH
  rw [e1, e2, e3, e4]
  exact hg

/-- what `message_headers::parse` does with the result of `field_line::parse` -/
def finish (cfg : Cfg) (h : MH) (r : FL × Bytes × Bool) : MH × Bytes × Bool :=
  if !r.2.2 then ({ h with field := r.1 }, r.2.1, false)
  else if r.2.1.isEmpty then ({ h with field := r.1 }, [], false)
  else
    let hc := MH.commit cfg h r.1
    if !hc.2 then (hc.1, r.2.1, false)
    else MH.fresh cfg hc.1 r.2.1

theorem fresh_nil (cfg : Cfg) (h : MH) : MH.fresh cfg h [] = (h, [], false) := by
  rw [MH.fresh]

theorem fresh_cons (cfg : Cfg) (h : MH) (c : Byte) (cs : Bytes) :
    MH.fresh cfg h (c :: cs) =
      if isEol c then MH.blank cfg h (c :: cs) else finish cfg h (FL.loop cfg {} (c :: cs)) := by
  rw [MH.fresh]; rfl

theorem GoodMH_field (cfg : Cfg) (h : MH) (f : FL) (hg : GoodMH cfg h) (hf : GoodFL cfg f) :
    GoodMH cfg { h with field := f } := ⟨hg.1, hg.2.1, hg.2.2.1, hf⟩

theorem finish_ok (cfg : Cfg) (h : MH) (r : FL × Bytes × Bool) (hg : GoodMH cfg h)
    (hr : GoodFL cfg r.1 ∨ (r.2.2 = false ∧ r.1.fail = true))
    (hrec : ∀ h', GoodMH cfg h' → OkMH cfg (MH.fresh cfg h' r.2.1)) :
    OkMH cfg (finish cfg h r) := by
  unfold finish
  by_cases hok : r.2.2 = true
  · simp only [hok, Bool.not_true, Bool.false_eq_true, if_false]
    have hgf : GoodFL cfg r.1 := by
      rcases hr with hr | ⟨hr, _⟩
      · exact hr
      · rw [hok] at hr; exact absurd hr (by simp)
    by_cases hrest : r.2.1.isEmpty = true
    · simp only [hrest, if_true]
      exact Or.inl (GoodMH_field cfg h r.1 hg hgf)
    · simp only [hrest]
      by_cases hc : (MH.commit cfg h r.1).2 = true
      · simp only [hc, Bool.not_true, Bool.false_eq_true, if_false]
        exact hrec _ (MH_commit_good cfg h r.1 hg hc)
      · simp only [hc]
        refine Or.inr ⟨rfl, Or.inr ?_⟩
        simpa using hrest
  · simp only [hok]
    have hok' : r.2.2 = false := by simpa using hok
    rcases hr with hr | ⟨_, hr⟩
    · exact Or.inl (GoodMH_field cfg h r.1 hg hr)
    · exact Or.inr ⟨rfl, Or.inl hr⟩

theorem MH_fresh_ok (cfg : Cfg) (h : MH) (buf : Bytes) (hg : GoodMH cfg h) :
    OkMH cfg (MH.fresh cfg h buf) := by
  generalize hn : buf.length = n
  induction n using Nat.strongRecOn generalizing buf h with
  | _ n ih =>
    cases buf with
    | nil => rw [fresh_nil]; exact Or.inl hg
    | cons c cs =>
      rw [fresh_cons]
      split
      · exact Or.inl (MH_blank_good cfg h _ hg)
      · have hprog := FL.loop_progress cfg {} c cs (by decide)
        refine finish_ok cfg h _ hg (FL_loop_good cfg {} _ (GoodFL_init cfg)) ?_
        intro h' hg'
        exact ih _ (by simp only [List.length_cons] at hn; omega) h' _ hg' rfl

theorem MH_parse_ok (cfg : Cfg) (h : MH) (buf : Bytes) (hg : GoodMH cfg h) :
    OkMH cfg (MH.parse cfg h buf) := by
  unfold MH.parse
  split
  · exact Or.inl (MH_blank_good cfg h _ hg)
  · split
    · split
      · exact Or.inl hg
      · rename_i c cs
        refine finish_ok cfg h (FL.parse cfg h.field (c :: cs)) hg ?_ ?_
        · exact FL_loop_good cfg _ _ (FL_peek_good cfg _ _ hg.2.2.2)
        · intro h' hg'
          exact MH_fresh_ok cfg h' _ hg'
    · exact MH_fresh_ok cfg h buf hg

/-! ### request = request line + headers -/

def GoodRQ (cfg : Cfg) (q : RQ) : Prop := GoodRL cfg q.line ∧ GoodMH cfg q.headers

def BadRQ (res : RQ × Bytes × Bool) : Prop :=
  res.2.2 = false ∧ (res.1.fail = true ∨ res.2.1 ≠ [])

theorem RQ_parse_ok (cfg : Cfg) (q : RQ) (buf : Bytes) (hg : GoodRQ cfg q) :
    GoodRQ cfg (RQ.parse cfg q buf).1 ∨ BadRQ (RQ.parse cfg q buf) := by
  obtain ⟨hl, hh⟩ := hg
  unfold RQ.parse
  simp only
  by_cases hlv : q.line.valid = true
  · simp only [hlv, if_true, Bool.not_true, Bool.false_eq_true, if_false]
    split
    · exact Or.inl ⟨hl, hh⟩
    · have hm := MH_parse_ok cfg q.headers buf hh
      split
      · rcases hm with hm | ⟨hm1, hm2⟩
        · exact Or.inl ⟨hl, hm⟩
        · refine Or.inr ⟨rfl, ?_⟩
          rcases hm2 with hm2 | hm2
          · left; simp [RQ.fail, MH.fail, hm2]
          · right; exact hm2
      · rename_i hp
        rcases hm with hm | ⟨hm1, _⟩
        · exact Or.inl ⟨hl, hm⟩
        · rw [hm1] at hp; exact absurd rfl hp
  · simp only [hlv, Bool.false_eq_true, if_false]
    have hr := RL_parse_good cfg q.line buf hl
    by_cases hp : (RL.parse cfg q.line buf).2.2 = true
    · simp only [hp, Bool.not_true, Bool.false_eq_true, if_false]
      have hl' : GoodRL cfg (RL.parse cfg q.line buf).1 := by
        rcases hr with hr | ⟨hr, _⟩
        · exact hr
        · rw [hp] at hr; exact absurd hr (by simp)
      split
      · exact Or.inl ⟨hl', hh⟩
      · have hm := MH_parse_ok cfg q.headers (RL.parse cfg q.line buf).2.1 hh
        split
        · rcases hm with hm | ⟨hm1, hm2⟩
          · exact Or.inl ⟨hl', hm⟩
          · refine Or.inr ⟨rfl, ?_⟩
            rcases hm2 with hm2 | hm2
            · left; simp [RQ.fail, MH.fail, hm2]
            · right; exact hm2
        · rename_i hp2
          rcases hm with hm | ⟨hm1, _⟩
          · exact Or.inl ⟨hl', hm⟩
          · rw [hm1] at hp2; exact absurd rfl hp2
    · simp only [hp]
      rcases hr with hr | ⟨_, hr⟩
      · exact Or.inl ⟨hr, hh⟩
      · refine Or.inr ⟨rfl, Or.inl ?_⟩
        simp [RQ.fail, hr]

/-! ### chunk header -/

def GoodCH (cfg : Cfg) (s : CH) : Prop :=
  s.hexSize.length ≤ Gen.maxSizeDigits ∧ s.ext.length ≤ s.length ∧ s.length ≤ cfg.maxLine ∧
    s.size ≤ cfg.maxChunk

theorem GoodCH_init (cfg : Cfg) : GoodCH cfg {} := by
  simp [GoodCH]

theorem CH_parseChar_good (cfg : Cfg) (s : CH) (c : Byte) (h : GoodCH cfg s) :
    (CH.parseChar cfg s c).2 = true → GoodCH cfg (CH.parseChar cfg s c).1 := by
  unfold CH.parseChar CH.sizeStep CH.extStep
  unfold GoodCH at h ⊢
  obtain ⟨h1, h2, h3, h4⟩ := h
  simp only
  repeat' split
  all_goals simp_all
  all_goals omega

theorem CH_loop_good (cfg : Cfg) (s : CH) (buf : Bytes) (h : GoodCH cfg s) :
    GoodCH cfg (CH.loop cfg s buf).1 ∨
      ((CH.loop cfg s buf).2.2 = true ∧ (CH.loop cfg s buf).1.fail = true) := by
  induction buf generalizing s with
  | nil => exact Or.inl h
  | cons c cs ih =>
    simp only [CH.loop]
    split
    · exact Or.inl h
    · by_cases hok : (s.parseChar cfg c).2 = true
      · simp only [hok, Bool.not_true, Bool.false_eq_true, if_false]
        exact ih _ (CH_parseChar_good cfg s c h hok)
      · simp [hok]

theorem CH_parse_good (cfg : Cfg) (s : CH) (buf : Bytes) (h : GoodCH cfg s) :
    GoodCH cfg (CH.parse cfg s buf).1 ∨
      ((CH.parse cfg s buf).2.2 = false ∧ (CH.parse cfg s buf).1.fail = true) := by
  unfold CH.parse
  simp only
  rcases CH_loop_good cfg s buf h with hg | ⟨h1, h2⟩
  · split
    · exact Or.inl hg
    · exact Or.inl hg
  · simp [h1, h2]

/-! ### chunk -/

def GoodCK (cfg : Cfg) (k : CK) : Prop :=
  GoodCH cfg k.hdr ∧ k.data.length ≤ cfg.maxChunk ∧ GoodMH cfg k.trailers

theorem GoodCK_init (cfg : Cfg) : GoodCK cfg {} :=
  ⟨GoodCH_init cfg, Nat.zero_le _, GoodMH_init cfg⟩

def BadCK (res : CK × Bytes × Bool) : Prop :=
  res.2.2 = false ∧ (res.2.1 ≠ [] ∨ res.1.fail = true)

theorem CK_parseData_good (cfg : Cfg) (k : CK) (buf : Bytes) (hg : GoodCK cfg k) :
    GoodCK cfg (CK.parseData cfg k buf).1 := by
  obtain ⟨hh, hd, ht⟩ := hg
  have hs : k.hdr.size ≤ cfg.maxChunk := hh.2.2.2
  unfold CK.parseData
  simp only
  split
  · rename_i hlen
    have hd' : (k.data ++ List.take (k.hdr.size - k.data.length) buf).length ≤ cfg.maxChunk := by
      simp only [List.length_append, List.length_take]
      omega
    split
    · exact ⟨hh, hd', ht⟩
    · split
      · exact ⟨hh, hd', ht⟩
      · rename_i k2 rest2 heq
        have hk2 : GoodCK cfg k2 := by
          split at heq
          · cases heq; exact ⟨hh, hd', ht⟩
          · split at heq
            · cases heq
            · cases heq; exact ⟨hh, hd', ht⟩
        split
        · exact hk2
        · split
          · exact hk2
          · exact hk2
  · rename_i hlen
    refine ⟨hh, ?_, ht⟩
    simp only [List.length_append]
    omega

theorem CK_parse_ok (cfg : Cfg) (k : CK) (buf : Bytes) (hg : GoodCK cfg k) :
    GoodCK cfg (CK.parse cfg k buf).1 ∨ BadCK (CK.parse cfg k buf) := by
  -- the part after the chunk header
  have tail : ∀ (k : CK) (buf : Bytes), GoodCK cfg k →
      (GoodCK cfg (if k.isLast then
          (if !(MH.parse cfg k.trailers buf).2.2 then
            ({ k with trailers := (MH.parse cfg k.trailers buf).1 }, (MH.parse cfg k.trailers buf).2.1, false)
          else ({ k with trailers := (MH.parse cfg k.trailers buf).1, valid := true },
            (MH.parse cfg k.trailers buf).2.1, true))
        else CK.parseData cfg k buf).1 ∨
       BadCK (if k.isLast then
          (if !(MH.parse cfg k.trailers buf).2.2 then
            ({ k with trailers := (MH.parse cfg k.trailers buf).1 }, (MH.parse cfg k.trailers buf).2.1, false)
          else ({ k with trailers := (MH.parse cfg k.trailers buf).1, valid := true },
            (MH.parse cfg k.trailers buf).2.1, true))
        else CK.parseData cfg k buf)) := by
    intro k buf hg
    obtain ⟨hh, hd, ht⟩ := hg
    split
    · have hm := MH_parse_ok cfg k.trailers buf ht
      by_cases hp : (MH.parse cfg k.trailers buf).2.2 = true
      · simp only [hp, Bool.not_true, Bool.false_eq_true, if_false]
        rcases hm with hm | ⟨hm1, _⟩
        · exact Or.inl ⟨hh, hd, hm⟩
        · rw [hp] at hm1; exact absurd hm1 (by simp)
      · simp only [hp]
        rcases hm with hm | ⟨_, hm2⟩
        · exact Or.inl ⟨hh, hd, hm⟩
        · refine Or.inr ⟨rfl, ?_⟩
          rcases hm2 with hm2 | hm2
          · right; simp [CK.fail, MH.fail, hm2]
          · left; exact hm2
    · exact Or.inl (CK_parseData_good cfg k buf ⟨hh, hd, ht⟩)
  unfold CK.parse
  simp only
  by_cases hv : k.hdr.valid = true
  · simp only [hv, if_true, Bool.not_true, Bool.false_eq_true, if_false]
    exact tail k buf hg
  · simp only [hv, Bool.false_eq_true, if_false]
    obtain ⟨hh, hd, ht⟩ := hg
    have hc := CH_parse_good cfg k.hdr buf hh
    by_cases hp : (CH.parse cfg k.hdr buf).2.2 = true
    · simp only [hp, Bool.not_true, Bool.false_eq_true, if_false]
      have hh' : GoodCH cfg (CH.parse cfg k.hdr buf).1 := by
        rcases hc with hc | ⟨hc, _⟩
        · exact hc
        · rw [hp] at hc; exact absurd hc (by simp)
      exact tail { k with hdr := (CH.parse cfg k.hdr buf).1 } _ ⟨hh', hd, ht⟩
    · simp only [hp]
      rcases hc with hc | ⟨_, hc⟩
      · exact Or.inl ⟨hc, hd, ht⟩
      · refine Or.inr ⟨rfl, Or.inr ?_⟩
        simp [CK.fail, hc]

/-! ### the receiver -/

structure Good (cfg : Cfg) (r : RR) : Prop where
  rq : GoodRQ cfg r.request
  body : r.body.length ≤ cfg.maxContent
  ck : GoodCK cfg r.chunk

theorem Good_init (cfg : Cfg) : Good cfg {} :=
  ⟨⟨by simp [GoodRL], GoodMH_init cfg⟩, Nat.zero_le _, GoodCK_init cfg⟩

theorem Good_clear (cfg : Cfg) (r : RR) : Good cfg r.clear :=
  ⟨(Good_init cfg).rq, (Good_init cfg).body, (Good_init cfg).ck⟩

theorem Good_code (cfg : Cfg) (r : RR) (n : Nat) (h : Good cfg r) : Good cfg { r with code := n } :=
  ⟨h.rq, h.body, h.ck⟩

theorem Good_continued (cfg : Cfg) (r : RR) (h : Good cfg r) : Good cfg { r with continueSent := true } :=
  ⟨h.rq, h.body, h.ck⟩

theorem receiveBody_good (cfg : Cfg) (r : RR) (rp : Bool) (buf : Bytes) (hm : 3 ≤ cfg.maxMethod)
    (hg : Good cfg r) : Good cfg (RR.receiveBody cfg r rp buf).1 := by
  unfold RR.receiveBody
  simp only
  split
  · exact Good_clear cfg _
  · rename_i r' heq
    have hg' : Good cfg r' := by
      split at heq
      · split at heq
        · cases heq; exact Good_code cfg r 405 hg
        · cases heq
      · cases heq; exact hg
    split
    · exact Good_clear cfg _
    · split
      · exact Good_clear cfg _
      · split
        · exact Good_clear cfg _
        · split
          · exact Good_code cfg r' 100 hg'
          · rename_i h1 h2 _ _
            generalize r.request.headers.contentLength = cl at h1 h2 ⊢
            have hb : (r'.body ++ List.take (if (buf.length : Int) > cl - (r'.body.length : Int)
                then (cl - (r'.body.length : Int)).toNat else buf.length) buf).length ≤ cfg.maxContent := by
              have hb0 := hg'.body
              simp only [Bool.and_eq_true, decide_eq_true_eq, not_and, Int.not_lt] at h1 h2
              simp only [List.length_append, List.length_take]
              split <;> omega
            generalize (if (buf.length : Int) > cl - (r'.body.length : Int)
                then (cl - (r'.body.length : Int)).toNat else buf.length) = tk at hb ⊢
            split
            · split
              · exact ⟨⟨⟨hm, hg'.rq.1.2⟩, hg'.rq.2⟩, hb, hg'.ck⟩
              · exact ⟨hg'.rq, hb, hg'.ck⟩
            · exact ⟨hg'.rq, hb, hg'.ck⟩

theorem receiveChunk_good (cfg : Cfg) (r : RR) (rp : Bool) (buf : Bytes)
    (hg : Good cfg r) : Good cfg (RR.receiveChunk cfg r rp buf).1 := by
  unfold RR.receiveChunk
  simp only
  have hg0 : Good cfg (if r.chunk.valid = true then { r with chunk := {} } else r) := by
    split
    · exact ⟨hg.rq, hg.body, GoodCK_init cfg⟩
    · exact hg
  generalize (if r.chunk.valid = true then { r with chunk := {} } else r) = r0 at hg0 ⊢
  split
  · exact Good_code cfg r0 100 hg0
  · exact hg0
  · have hp := CK_parse_ok cfg r0.chunk buf hg0.ck
    generalize CK.parse cfg r0.chunk buf = p at hp ⊢
    split
    · exact Good_clear cfg _
    · rename_i hnb
      have hck : GoodCK cfg p.1 := by
        rcases hp with hp | ⟨hp1, hp2⟩
        · exact hp
        · exfalso
          apply hnb
          rcases hp2 with hp2 | hp2
          · have : p.2.1.isEmpty = false := by simpa using hp2
            simp [hp1, this]
          · simp [hp1, hp2]
      repeat' split
      all_goals first
        | exact Good_clear cfg _
        | exact ⟨hg0.rq, hg0.body, hck⟩
        | (rename_i hlen
           refine ⟨hg0.rq, ?_, hck⟩
           simp only [List.length_append]
           simp only [gt_iff_lt, Nat.not_lt] at hlen
           exact hlen)

theorem receive_good (cfg : Cfg) (r : RR) (buf : Bytes) (hm : 3 ≤ cfg.maxMethod)
    (hg : Good cfg r) : Good cfg (RR.receive cfg r buf).1 := by
  -- what follows the request head
  have tail : ∀ (r : RR) (rp : Bool) (buf : Bytes), Good cfg r →
      Good cfg (if r.request.missingHost then ({ r with code := 400 }, buf, Rx.invalid)
        else if !r.request.headers.isChunked then RR.receiveBody cfg r rp buf
        else RR.receiveChunk cfg r rp buf).1 := by
    intro r rp buf hg
    split
    · exact Good_code cfg r 400 hg
    · split
      · exact receiveBody_good cfg r rp buf hm hg
      · exact receiveChunk_good cfg r rp buf hg
  unfold RR.receive
  simp only
  by_cases hv : r.request.valid = true
  · simp only [hv, Bool.not_true, Bool.false_eq_true, if_false]
    exact tail r false buf hg
  · simp only [hv, Bool.not_false, if_true]
    have hp := RQ_parse_ok cfg r.request buf hg.rq
    generalize RQ.parse cfg r.request buf = p at hp ⊢
    by_cases hok : p.2.2 = true
    · simp only [hok, Bool.not_true, Bool.false_eq_true, if_false]
      have hq : GoodRQ cfg p.1 := by
        rcases hp with hp | ⟨hp, _⟩
        · exact hp
        · rw [hok] at hp; exact absurd hp (by simp)
      exact tail { r with request := p.1 } true p.2.1 ⟨hq, hg.body, hg.ck⟩
    · simp only [hok]
      simp only [Bool.not_false, if_true]
      by_cases hnb : (!p.2.1.isEmpty || p.1.fail) = true
      · simp only [hnb, if_true]
        exact Good_clear cfg _
      · simp only [hnb]
        have hq : GoodRQ cfg p.1 := by
          rcases hp with hp | ⟨hp1, hp2⟩
          · exact hp
          · exfalso
            apply hnb
            rcases hp2 with hp2 | hp2
            · simp [hp2]
            · have : p.2.1.isEmpty = false := by simpa using hp2
              simp [this]
        exact ⟨hq, hg.body, hg.ck⟩

theorem afterResult_good (cfg : Cfg) (r : RR) (x : Rx) (hg : Good cfg r) :
    Good cfg (RR.afterResult cfg r x) := by
  cases x <;> simp only [RR.afterResult]
  · exact Good_clear cfg _
  · exact Good_continued cfg r hg
  · exact hg
  · split
    · exact Good_clear cfg _
    · exact hg
  · split
    · exact Good_clear cfg _
    · exact hg

theorem Good_bound (cfg : Cfg) (r : RR) (hg : Good cfg r) : retained r ≤ bound cfg := by
  obtain ⟨⟨⟨l1, l2⟩, ⟨m1, m2, m3, f1, f2⟩⟩, hb, ⟨⟨c1, c2, c3, c4⟩, hd, ⟨t1, t2, t3, g1, g2⟩⟩⟩ := hg
  unfold retained bound
  omega

theorem Reach_good (cfg : Cfg) (r : RR) (hm : 3 ≤ cfg.maxMethod) (hr : Reach cfg r) : Good cfg r := by
  induction hr with
  | init => exact Good_init cfg
  | recv r buf _ ih => exact receive_good cfg r buf hm ih
  | react r buf _ ih => exact afterResult_good cfg _ _ (receive_good cfg r buf hm ih)
  | cleared r _ _ => exact Good_clear cfg r
  | continued r _ ih => exact Good_continued cfg r ih

end C06

theorem C06 : C06_statement := by
  intro cfg r hm hr
  exact C06.Good_bound cfg r (C06.Reach_good cfg r hm hr)

/-- non-vacuity: a state reached by an endless-header attack is covered -/
example : Reach {} (RR.receive {} (RR.receive {} {} (b!"GET / HTTP/1.0\r\n:\r\n")).1 (b!":\r\n:\r\n")).1 :=
  Reach.recv _ _ (Reach.recv _ _ Reach.init)

end Via
