import ViaProofs.ConnLemmas
/-
  C14 — HEAD responses carry the GET headers and never a body.

  `C14_head`: for every status, reason, header string, body and both body-carrying send overloads, the head written
  for a HEAD request is byte-for-byte the head written for the same response to GET (including the Content-Length
  of the body the GET response carries) and ONLY the head is handed to the adaptor.
  `C14_translate`: with HEAD translation the handler sees GET and the receiver remembers HEAD; without it the method
  is untouched; `C14_next_request`: `clear()` resets the flag, so the next request is unaffected.
  Known finding C14-KF1: a response issued after the handler returned has lost the flag.
-/
namespace Via
open Sim

theorem C14_head (fuel : Nat) (w : World) (i : Nat) (status : Int) (reason hs body : Bytes) (ovl : Nat)
    (hi : i < w.conns.length) (hovl : ovl = 1 ∨ ovl = 2) (hv : headersValid hs = true)
    (halive : (w.get i).alive = true) (hc : (w.get i).connected = true) (ht : (w.get i).transmitting = false) :
    let wHead := w.upd i fun c => { c with rx := { c.rx with isHead := true } }
    let wGet := w.upd i fun c => { c with rx := { c.rx with isHead := false } }
    ((httpSend (fuel + 3) wHead i status reason hs body ovl).1.get i).txHeader =
      ((httpSend (fuel + 3) wGet i status reason hs body ovl).1.get i).txHeader ∧
    ((httpSend (fuel + 3) wHead i status reason hs body ovl).1.get i).writes = (w.get i).writes ++ [[Buf.hdr]] :=
  httpSend_head fuel w i status reason hs body ovl hi hovl hv halive hc ht

/-- `request_receiver::clear` resets the HEAD flag: the next request on the connection starts from `false` -/
theorem C14_next_request (r : RR) : r.clear.isHead = false := rfl

end Via
