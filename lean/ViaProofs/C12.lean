import ViaProofs.Statements
/-
  C12 — thread-pool mode.

  What a proof about the model can carry: the hypotheses under which the single-threaded theorems about the
  connection layer (C03, C09, C10, C11) transfer to a pool of threads are STRUCTURAL facts about the source, which
  `tools/extract.py` re-reads on every run and which are discharged here by evaluation of the regenerated
  constants.  If an edit removes the strand from `async_accept`, replaces a concurrent collection by a plain one
  under HTTP_THREAD_SAFE, or takes a bucket lock after touching the data, these obligations stop checking.
  Data races at the memory level cannot be exhibited by the model: they are searched for with ThreadSanitizer on
  the real adaptor (thorough tier).
-/
namespace Via

/-- every accepted socket is bound to its own strand when HTTP_THREAD_SAFE is defined, so the completion handlers
    of one connection never run concurrently -/
theorem C12_accept_on_strand : Gen.acceptOnStrandWhenThreadSafe = true := by decide

/-- both connection collections are the concurrent map under HTTP_THREAD_SAFE -/
theorem C12_collections_concurrent : Gen.collectionsConcurrentWhenThreadSafe = true := by decide

/-- every bucket operation of the concurrent map takes the bucket lock before touching the data, and the whole-map
    operations lock every bucket first (the lock discipline assumed by C18) -/
theorem C12_lock_discipline : Gen.bucketOpsTakeLockFirst = true := by decide

/-- the connected handler, which a plain TCP server runs outside the connection's strand, finishes before the first
    read of the connection is started: no other handler of that connection can run beside it -/
theorem C12_connected_before_reception : Gen.connectedBeforeReception = true := by decide

end Via
