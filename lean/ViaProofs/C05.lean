import ViaProofs.Statements
import ViaProofs.Frag.Compose
/-
  C05 — arbitrary bytes never crash, corrupt memory, throw or hang the receivers.

  What is proved here, for EVERY byte string, every configuration and every receiver state:
  * totality / termination: every function of the model is a total Lean function (structural recursion
    or well-founded recursion with a checked measure — `MH.fresh`);
  * `receive_suffix`: a receive step returns a suffix of the buffer it was given: it never reads or
    consumes outside the buffer (`used ≤ |read|`);
  * `receive_progress`: from a state satisfying the reachable-state invariant `Ok`, a receive step on a
    non-empty buffer either reports INVALID or consumes at least one byte;
  * `Ok` holds initially and is preserved by `receive` followed by the server's / client's reaction
    (`Ok` also records that the header block is complete only together with the whole head and that no
    body bytes are stored before the head is complete: without these two facts `receive_progress` and
    `ok_step` fail for unreachable states);
  * `readLoop_done`: therefore the per-read loop of `http_server::receive_handler` and of
    `http_client::receive_handler` needs at most `|read|` calls of `receive`: with `|read| + 1` units
    of fuel it always ends because the buffer is exhausted or the message is INVALID, never because
    the fuel ran out.  (Before the repair of `response_receiver` this was false for the client.)
  Memory safety of the C++ itself is outside the model: it is observed by the sanitizer builds of the
  correspondence harness.
-/
namespace Via

namespace C05

/-! ### a parser that returns `true` has consumed at least one byte -/

theorem blankLf_true_lt (x : MH) (buf : Bytes) (ht : (Cmp.blankLf x buf).2.2 = true) :
    (Cmp.blankLf x buf).2.1.length < buf.length := by
  cases buf with
  | nil => simp [Cmp.blankLf] at ht
  | cons d ds =>
    simp only [Cmp.blankLf] at ht ⊢
    split at ht
    · simp at ht
    · rename_i h; simp [h]

theorem MH_blank_true_lt (cfg : Cfg) (h : MH) (buf : Bytes) (ht : (MH.blank cfg h buf).2.2 = true) :
    (MH.blank cfg h buf).2.1.length < buf.length := by
  cases buf with
  | nil => simp [MH.blank] at ht
  | cons c cs =>
    rw [Cmp.MH_blank_eq] at ht ⊢
    by_cases h1 : (!h.blankCr && !isEol c) = true
    · rw [if_pos h1] at ht; simp at ht
    · simp only [h1, Bool.false_eq_true, if_false] at ht ⊢
      by_cases h2 : (!(!h.blankCr && c == 13) && cfg.strict && !h.blankCr) = true
      · rw [if_pos h2] at ht; simp at ht
      · simp only [h2, Bool.false_eq_true, if_false] at ht ⊢
        by_cases h3 : (!h.blankCr && c == 13) = true
        · simp only [h3, if_true] at ht ⊢
          have := blankLf_true_lt _ _ ht
          simp only [List.length_cons]; omega
        · simp only [h3, Bool.false_eq_true, if_false] at ht ⊢
          exact blankLf_true_lt _ _ ht

theorem MH_fresh_true_lt (cfg : Cfg) (h : MH) (buf : Bytes) (ht : (MH.fresh cfg h buf).2.2 = true) :
    (MH.fresh cfg h buf).2.1.length < buf.length := by
  generalize hn : buf.length = n
  induction n using Nat.strongRecOn generalizing buf h with
  | _ n ih =>
    cases buf with
    | nil => simp [MH.fresh_nil] at ht
    | cons c cs =>
      rw [MH.fresh_cons] at ht ⊢
      by_cases he : isEol c = true
      · simp only [he, if_true] at ht ⊢
        rw [← hn]
        exact MH_blank_true_lt cfg h _ ht
      · simp only [he] at ht ⊢
        have hprog := FL.loop_progress cfg {} c cs (by decide)
        generalize hra : FL.loop cfg {} (c :: cs) = ra at *
        by_cases hok : ra.2.2 = true
        · simp only [hok, Bool.not_true, Bool.false_eq_true, if_false] at ht ⊢
          by_cases hrest : ra.2.1.isEmpty = true
          · simp [hrest] at ht
          · simp only [hrest] at ht ⊢
            by_cases hc : (MH.commit cfg h ra.1).2 = true
            · simp only [hc, Bool.not_true, Bool.false_eq_true, if_false] at ht ⊢
              have := ih ra.2.1.length (by simp only [List.length_cons] at hn; omega)
                (MH.commit cfg h ra.1).1 ra.2.1 ht rfl
              simp only [List.length_cons] at hn
              omega
            · simp [hc] at ht
        · simp [hok] at ht

theorem MH_finish_true_lt (cfg : Cfg) (h : MH) (r : FL × Bytes × Bool)
    (ht : (MH.finish cfg h r).2.2 = true) : (MH.finish cfg h r).2.1.length < r.2.1.length := by
  unfold MH.finish at ht ⊢
  by_cases hok : r.2.2 = true
  · simp only [hok, Bool.not_true, Bool.false_eq_true, if_false] at ht ⊢
    by_cases hrest : r.2.1.isEmpty = true
    · simp [hrest] at ht
    · simp only [hrest] at ht ⊢
      by_cases hc : (MH.commit cfg h r.1).2 = true
      · simp only [hc, Bool.not_true, Bool.false_eq_true, if_false] at ht ⊢
        exact MH_fresh_true_lt cfg _ _ ht
      · simp [hc] at ht
  · simp [hok] at ht

theorem MH_parse_true_lt (cfg : Cfg) (h : MH) (buf : Bytes) (ht : (MH.parse cfg h buf).2.2 = true) :
    (MH.parse cfg h buf).2.1.length < buf.length := by
  by_cases hbc : h.blankCr = true
  · have hp : MH.parse cfg h buf = MH.blank cfg h buf := by simp [MH.parse, hbc]
    rw [hp] at ht ⊢
    exact MH_blank_true_lt cfg h buf ht
  · have hbc' : h.blankCr = false := by simpa using hbc
    by_cases hst : h.field.started = true
    · cases buf with
      | nil => simp [MH.parse_nil] at ht
      | cons c cs =>
        rw [MH.parse_started cfg h c cs hbc' hst] at ht ⊢
        have := MH_finish_true_lt cfg h _ ht
        have := FL.loop_rest_le cfg (h.field.peek (c :: cs)) (c :: cs)
        omega
    · have hp : MH.parse cfg h buf = MH.fresh cfg h buf := by simp [MH.parse, hbc', hst]
      rw [hp] at ht ⊢
      exact MH_fresh_true_lt cfg h buf ht


theorem CK_lf_true_lt (k : CK) (x : Bytes) (ht : (Cmp.CK_lf k x).2.2 = true) :
    (Cmp.CK_lf k x).2.1.length < x.length := by
  cases x with
  | nil => simp [Cmp.CK_lf] at ht
  | cons d ds =>
    simp only [Cmp.CK_lf] at ht ⊢
    by_cases h : (d != 10) = true
    · rw [if_pos h] at ht; simp at ht
    · simp [h]

theorem CK_tail_true_lt (cfg : Cfg) (k : CK) (x : Bytes) (ht : (Cmp.CK_tail cfg k x).2.2 = true) :
    (Cmp.CK_tail cfg k x).2.1.length < x.length := by
  cases x with
  | nil => simp [Cmp.CK_tail] at ht
  | cons c cs =>
    simp only [Cmp.CK_tail] at ht ⊢
    by_cases h1 : (!k.dataCr && c == 13) = true
    · simp only [h1, if_true] at ht ⊢
      have := CK_lf_true_lt _ _ ht
      simp only [List.length_cons]; omega
    · simp only [h1, Bool.false_eq_true, if_false] at ht ⊢
      by_cases h2 : (cfg.strict && !k.dataCr) = true
      · rw [if_pos h2] at ht; simp at ht
      · simp only [h2, Bool.false_eq_true, if_false] at ht ⊢
        exact CK_lf_true_lt _ _ ht

theorem CK_parseData_true_lt (cfg : Cfg) (k : CK) (buf : Bytes)
    (ht : (CK.parseData cfg k buf).2.2 = true) : (CK.parseData cfg k buf).2.1.length < buf.length := by
  rw [Cmp.CK_parseData_eq] at ht ⊢
  by_cases h : buf.length > k.hdr.size - k.data.length
  · simp only [h, if_true] at ht ⊢
    have := CK_tail_true_lt cfg _ _ ht
    simp only [List.length_drop] at this
    omega
  · simp [h] at ht

theorem CK_body_true_lt (cfg : Cfg) (k : CK) (buf : Bytes)
    (ht : (Cmp.CK_body cfg k buf).2.2 = true) : (Cmp.CK_body cfg k buf).2.1.length < buf.length := by
  unfold Cmp.CK_body at ht ⊢
  by_cases hl : k.isLast = true
  · simp only [hl, if_true] at ht ⊢
    by_cases hr : (MH.parse cfg k.trailers buf).2.2 = true
    · simp only [hr, Bool.not_true, Bool.false_eq_true, if_false]
      exact MH_parse_true_lt cfg _ _ hr
    · simp [hr] at ht
  · simp only [hl, Bool.false_eq_true, if_false] at ht ⊢
    exact CK_parseData_true_lt cfg k buf ht

/-- two-phase composition: when the second phase consumes a byte whenever it succeeds, so does the
    composition (the first phase never gives bytes back) -/
theorem seq2_true_lt {S L : Type} (get : S → L) (set : S → L → S) (lvalid : L → Bool)
    (P1 : L → Bytes → L × Bytes × Bool) (P2 : S → Bytes → S × Bytes × Bool) (good : S → Prop)
    (hset : ∀ s l, good s → good (set s l)) (h1 : SuffixLaw P1)
    (h2 : ∀ s buf, good s → (P2 s buf).2.2 = true → (P2 s buf).2.1.length < buf.length)
    (s : S) (buf : Bytes) (hg : good s) (ht : (Cmp.seq2 get set lvalid P1 P2 s buf).2.2 = true) :
    (Cmp.seq2 get set lvalid P1 P2 s buf).2.1.length < buf.length := by
  unfold Cmp.seq2 at ht ⊢
  by_cases hv : lvalid (get s) = true
  · simp only [hv, if_true] at ht ⊢
    exact h2 s buf hg ht
  · simp only [hv, Bool.false_eq_true, if_false] at ht ⊢
    by_cases hr : (P1 (get s) buf).2.2 = true
    · simp only [hr, if_true] at ht ⊢
      have := h2 _ _ (hset s (P1 (get s) buf).1 hg) ht
      obtain ⟨pre, hpre⟩ := h1 (get s) buf
      have hl := congrArg List.length hpre
      simp only [List.length_append] at hl
      omega
    · simp [hr] at ht

theorem CK_parse_true_lt (cfg : Cfg) (k : CK) (buf : Bytes) (ht : (CK.parse cfg k buf).2.2 = true) :
    (CK.parse cfg k buf).2.1.length < buf.length := by
  rw [Cmp.CK_parse_eq] at ht ⊢
  exact seq2_true_lt _ _ _ _ _ (fun _ => True) (fun _ _ _ => trivial) (CH.parse_suffix cfg)
    (fun s b _ h => CK_body_true_lt cfg s b h) k buf trivial ht

theorem RQ_hdrs_true_lt (cfg : Cfg) (q : RQ) (buf : Bytes) (hh : q.headers.valid = false)
    (ht : (Cmp.RQ_hdrs cfg q buf).2.2 = true) : (Cmp.RQ_hdrs cfg q buf).2.1.length < buf.length := by
  unfold Cmp.RQ_hdrs at ht ⊢
  simp only [hh, Bool.false_eq_true, if_false] at ht ⊢
  by_cases hr : (MH.parse cfg q.headers buf).2.2 = true
  · simp only [hr, Bool.not_true, Bool.false_eq_true, if_false]
    exact MH_parse_true_lt cfg _ _ hr
  · simp [hr] at ht

theorem RQ_parse_true_lt (cfg : Cfg) (q : RQ) (buf : Bytes) (hh : q.headers.valid = false)
    (ht : (RQ.parse cfg q buf).2.2 = true) : (RQ.parse cfg q buf).2.1.length < buf.length := by
  rw [Cmp.RQ_parse_eq] at ht ⊢
  exact seq2_true_lt RQ.line (fun q l => { q with line := l }) RL.valid _ _
    (fun q => q.headers.valid = false) (fun _ _ h => h) (RL.parse_suffix cfg)
    (fun s b hg h => RQ_hdrs_true_lt cfg s b hg h) q buf hh ht

theorem RP_hdrs_true_lt (cfg : Cfg) (q : RP) (buf : Bytes) (hh : q.headers.valid = false)
    (ht : (Cmp.RP_hdrs cfg q buf).2.2 = true) : (Cmp.RP_hdrs cfg q buf).2.1.length < buf.length := by
  unfold Cmp.RP_hdrs at ht ⊢
  simp only [hh, Bool.false_eq_true, if_false] at ht ⊢
  by_cases hr : (MH.parse cfg q.headers buf).2.2 = true
  · simp only [hr, Bool.not_true, Bool.false_eq_true, if_false]
    exact MH_parse_true_lt cfg _ _ hr
  · simp [hr] at ht

theorem RP_parse_true_lt (cfg : Cfg) (q : RP) (buf : Bytes) (hh : q.headers.valid = false)
    (ht : (RP.parse cfg q buf).2.2 = true) : (RP.parse cfg q buf).2.1.length < buf.length := by
  rw [Cmp.RP_parse_eq] at ht ⊢
  exact seq2_true_lt RP.line (fun q l => { q with line := l }) SL.valid _ _
    (fun q => q.headers.valid = false) (fun _ _ h => h) (SL.parse_suffix cfg)
    (fun s b hg h => RP_hdrs_true_lt cfg s b hg h) q buf hh ht

/-! ### the `valid` flags after `rx_request::parse` / `rx_response::parse` -/

theorem RQ_parse_flags (cfg : Cfg) (q : RQ) (buf : Bytes) (hh : q.headers.valid = false) :
    ((RQ.parse cfg q buf).2.2 = true → (RQ.parse cfg q buf).1.valid = true) ∧
    ((RQ.parse cfg q buf).2.2 = false →
      (RQ.parse cfg q buf).1.valid = q.valid ∧ (RQ.parse cfg q buf).1.headers.valid = false) := by
  unfold RQ.parse
  dsimp only
  by_cases hl : q.line.valid = true
  · simp only [hl, if_true, Bool.not_true, Bool.false_eq_true, if_false, hh]
    have hv := Cmp.MH_parse_valid cfg q.headers buf
    by_cases hr : (MH.parse cfg q.headers buf).2.2 = true
    · simp [hr]
    · simp only [hr, hh, Bool.false_or] at hv
      simp [hr, hv]
  · simp only [hl, Bool.false_eq_true, if_false]
    by_cases hlr : (RL.parse cfg q.line buf).2.2 = true
    · simp only [hlr, Bool.not_true, Bool.false_eq_true, if_false, hh]
      have hv := Cmp.MH_parse_valid cfg q.headers (RL.parse cfg q.line buf).2.1
      by_cases hr : (MH.parse cfg q.headers (RL.parse cfg q.line buf).2.1).2.2 = true
      · simp [hr]
      · simp only [hr, hh, Bool.false_or] at hv
        simp [hr, hv]
    · simp [hlr, hh]

theorem RP_parse_flags (cfg : Cfg) (q : RP) (buf : Bytes) (hh : q.headers.valid = false) :
    ((RP.parse cfg q buf).2.2 = true → (RP.parse cfg q buf).1.valid = true) ∧
    ((RP.parse cfg q buf).2.2 = false →
      (RP.parse cfg q buf).1.valid = q.valid ∧ (RP.parse cfg q buf).1.headers.valid = false) := by
  unfold RP.parse
  dsimp only
  by_cases hl : q.line.valid = true
  · simp only [hl, if_true, Bool.not_true, Bool.false_eq_true, if_false, hh]
    have hv := Cmp.MH_parse_valid cfg q.headers buf
    by_cases hr : (MH.parse cfg q.headers buf).2.2 = true
    · simp [hr]
    · simp only [hr, hh, Bool.false_or] at hv
      simp [hr, hv]
  · simp only [hl, Bool.false_eq_true, if_false]
    by_cases hlr : (SL.parse cfg q.line buf).2.2 = true
    · simp only [hlr, Bool.not_true, Bool.false_eq_true, if_false, hh]
      have hv := Cmp.MH_parse_valid cfg q.headers (SL.parse cfg q.line buf).2.1
      by_cases hr : (MH.parse cfg q.headers (SL.parse cfg q.line buf).2.1).2.2 = true
      · simp [hr]
      · simp only [hr, hh, Bool.false_or] at hv
        simp [hr, hv]
    · simp [hlr, hh]


/-! ### request receiver: the shape of `receive` -/

/-- what `request_receiver::receive` does once the request head is complete -/
def RR_tail (cfg : Cfg) (r : RR) (rp : Bool) (buf : Bytes) : RR × Bytes × Rx :=
  if r.request.missingHost then ({ r with code := 400 }, buf, .invalid)
  else if !r.request.headers.isChunked then RR.receiveBody cfg r rp buf
  else RR.receiveChunk cfg r rp buf

theorem RR_receive_valid (cfg : Cfg) (r : RR) (buf : Bytes) (hv : r.request.valid = true) :
    RR.receive cfg r buf = RR_tail cfg r false buf := by
  unfold RR.receive RR_tail
  simp [hv]

theorem RR_receive_parse (cfg : Cfg) (r : RR) (buf : Bytes) (hv : r.request.valid = false) :
    ((RQ.parse cfg r.request buf).2.2 = true ∧
      RR.receive cfg r buf =
        RR_tail cfg { r with request := (RQ.parse cfg r.request buf).1 } true (RQ.parse cfg r.request buf).2.1) ∨
    ((RQ.parse cfg r.request buf).2.2 = false ∧
      ∃ r', RR.receive cfg r buf = (r', (RQ.parse cfg r.request buf).2.1, .invalid)) ∨
    ((RQ.parse cfg r.request buf).2.2 = false ∧ (RQ.parse cfg r.request buf).2.1 = [] ∧
      RR.receive cfg r buf =
        ({ r with request := (RQ.parse cfg r.request buf).1 }, (RQ.parse cfg r.request buf).2.1, .incomplete)) := by
  unfold RR.receive RR_tail
  generalize RQ.parse cfg r.request buf = p
  by_cases hp : p.2.2 = true
  · left
    simp [hv, hp]
  · right
    by_cases hi : (!p.2.1.isEmpty || ({ r with request := p.1 } : RR).request.fail) = true
    · left
      simp only [hv, hp, Bool.not_false, if_true] at hi ⊢
      simp only [hi, if_true]
      exact ⟨by simp, _, rfl⟩
    · right
      have he : p.2.1 = [] := by
        cases h : p.2.1 with
        | nil => rfl
        | cons a b => simp [h] at hi
      simp only [hv, hp, Bool.not_false, if_true] at hi ⊢
      simp only [hi]
      exact ⟨by simp, he, by simp⟩

/-! ### request receiver: the Content-Length branch -/

/-- the number of body bytes taken from the buffer: `min(|buf|, cl - |body|)` -/
def takeLen (cl : Int) (body buf : Bytes) : Nat :=
  if (buf.length : Int) > cl - body.length then (cl - body.length).toNat else buf.length

theorem takeLen_pos (cl : Int) (body buf : Bytes) (hlt : (body.length : Int) < cl) (hne : buf ≠ []) :
    0 < takeLen cl body buf := by
  have hpos : 0 < buf.length := List.length_pos_iff.mpr hne
  unfold takeLen
  split <;> omega

theorem takeLen_lt (cl : Int) (body buf : Bytes) (hle : (body.length : Int) ≤ cl)
    (hne : ((body ++ buf.take (takeLen cl body buf)).length : Int) ≠ cl) :
    ((body ++ buf.take (takeLen cl body buf)).length : Int) < cl := by
  simp only [List.length_append, List.length_take] at hne ⊢
  unfold takeLen at hne ⊢
  split at hne <;> omega

/-- `RR.receiveBody` after the TRACE check (`cl` is the Content-Length value) -/
def RR_bodyCore (cfg : Cfg) (cl : Int) (r : RR) (requestParsed : Bool) (buf : Bytes) : RR × Bytes × Rx :=
  let rxSize : Int := buf.length
  if cl < 0 then ({ r with code := 400 }.clear, buf, .invalid)
  else if cl > 0 && cl > (cfg.maxContent : Int) then ({ r with code := 413 }.clear, buf, .invalid)
  else if !(cl > 0) && rxSize > 0 && (r.request.headers.fields.find (b!"content-length")).isEmpty then
    ({ r with code := 411 }.clear, buf, .invalid)
  else if requestParsed && rxSize < cl && r.request.expectContinue && !r.continueSent then
    ({ r with code := 100 }, buf, .expectContinue)
  else
    let take : Nat := takeLen cl r.body buf
    let r := { r with body := r.body ++ buf.take take }
    let rest := buf.drop take
    if (r.body.length : Int) == cl then
      let isHead := r.request.isHead
      let r := { r with isHead := isHead }
      let r := if isHead && cfg.translateHead
        then { r with request := { r.request with line := { r.request.line with method := (b!"GET") } } } else r
      (r, rest, .valid)
    else (r, rest, .incomplete)

theorem RR_body_eq (cfg : Cfg) (r : RR) (rp : Bool) (buf : Bytes) :
    RR.receiveBody cfg r rp buf =
      if r.request.isTrace then
        if r.request.headers.contentLength == 0 then
          RR_bodyCore cfg r.request.headers.contentLength { r with code := 405 } rp buf
        else ({ r with code := 400 }.clear, buf, .invalid)
      else RR_bodyCore cfg r.request.headers.contentLength r rp buf := by
  unfold RR.receiveBody
  by_cases h1 : r.request.isTrace = true
  · by_cases h2 : (r.request.headers.contentLength == 0) = true
    · simp only [h1, h2, if_true]; rfl
    · simp only [h1, h2, if_true]; rfl
  · simp only [h1]; rfl

theorem RR_bodyCore_rest (cfg : Cfg) (cl : Int) (r : RR) (rp : Bool) (buf : Bytes) :
    ∃ k, (RR_bodyCore cfg cl r rp buf).2.1 = buf.drop k := by
  unfold RR_bodyCore
  dsimp only
  repeat' split
  all_goals first | exact ⟨0, rfl⟩ | exact ⟨_, rfl⟩

theorem RR_bodyCore_progress (cfg : Cfg) (cl : Int) (r : RR) (buf : Bytes)
    (hlt : (r.body.length : Int) < cl) (hne : buf ≠ []) :
    (RR_bodyCore cfg cl r false buf).2.2 = .invalid ∨
      (RR_bodyCore cfg cl r false buf).2.1.length < buf.length := by
  have hpos : 0 < buf.length := List.length_pos_iff.mpr hne
  have htk := takeLen_pos cl r.body buf hlt hne
  unfold RR_bodyCore
  dsimp only
  split
  · left; rfl
  · split
    · left; rfl
    · split
      · left; rfl
      · simp only [Bool.false_and, Bool.false_eq_true, if_false]
        right
        split <;> (simp only [List.length_drop]; omega)

theorem RR_bodyCore_ok (cfg : Cfg) (cl : Int) (r : RR) (rp : Bool) (buf : Bytes)
    (hle : 0 ≤ cl → (r.body.length : Int) ≤ cl) (hrp : rp = true → r.body = []) :
    (RR_bodyCore cfg cl r rp buf).2.2 = .invalid ∨
      ((RR_bodyCore cfg cl r rp buf).1.request.valid = r.request.valid ∧
       (RR_bodyCore cfg cl r rp buf).1.request.headers = r.request.headers ∧
       ((RR_bodyCore cfg cl r rp buf).2.2 = .valid ∨
        ((RR_bodyCore cfg cl r rp buf).1.body.length : Int) < cl)) := by
  unfold RR_bodyCore
  dsimp only
  split
  · left; rfl
  · split
    · left; rfl
    · split
      · left; rfl
      · split
        · rename_i h
          right
          refine ⟨rfl, rfl, Or.inr ?_⟩
          simp only [Bool.and_eq_true, decide_eq_true_eq] at h
          have := hrp h.1.1.1
          simp only [this, List.length_nil]
          omega
        · split
          · right
            refine ⟨?_, ?_, Or.inl rfl⟩
            · split <;> rfl
            · split <;> rfl
          · rename_i hc0 _ _ _ hne
            right
            refine ⟨rfl, rfl, Or.inr ?_⟩
            simp only [beq_iff_eq] at hne
            exact takeLen_lt cl r.body buf (hle (by omega)) hne

theorem suffix_of_drop {buf rest : Bytes} (h : ∃ k, rest = buf.drop k) : ∃ pre, buf = pre ++ rest := by
  obtain ⟨k, hk⟩ := h
  exact ⟨buf.take k, by rw [hk, List.take_append_drop]⟩

theorem RR_body_suffix (cfg : Cfg) (r : RR) (rp : Bool) (buf : Bytes) :
    ∃ pre, buf = pre ++ (RR.receiveBody cfg r rp buf).2.1 := by
  rw [RR_body_eq]
  split
  · split
    · exact suffix_of_drop (RR_bodyCore_rest cfg _ _ rp buf)
    · exact ⟨[], rfl⟩
  · exact suffix_of_drop (RR_bodyCore_rest cfg _ _ rp buf)

theorem RR_body_progress (cfg : Cfg) (r : RR) (buf : Bytes)
    (hlt : (r.body.length : Int) < r.request.headers.contentLength) (hne : buf ≠ []) :
    (RR.receiveBody cfg r false buf).2.2 = .invalid ∨
      (RR.receiveBody cfg r false buf).2.1.length < buf.length := by
  rw [RR_body_eq]
  split
  · split
    · exact RR_bodyCore_progress cfg _ { r with code := 405 } buf hlt hne
    · left; rfl
  · exact RR_bodyCore_progress cfg _ r buf hlt hne

theorem RR_body_ok (cfg : Cfg) (r : RR) (rp : Bool) (buf : Bytes)
    (hle : 0 ≤ r.request.headers.contentLength → (r.body.length : Int) ≤ r.request.headers.contentLength)
    (hrp : rp = true → r.body = []) :
    (RR.receiveBody cfg r rp buf).2.2 = .invalid ∨
      ((RR.receiveBody cfg r rp buf).1.request.valid = r.request.valid ∧
       (RR.receiveBody cfg r rp buf).1.request.headers = r.request.headers ∧
       ((RR.receiveBody cfg r rp buf).2.2 = .valid ∨
        ((RR.receiveBody cfg r rp buf).1.body.length : Int) < r.request.headers.contentLength)) := by
  rw [RR_body_eq]
  split
  · split
    · exact RR_bodyCore_ok cfg _ { r with code := 405 } rp buf hle hrp
    · left; rfl
  · exact RR_bodyCore_ok cfg _ r rp buf hle hrp

/-! ### request receiver: the chunked branch -/

/-- `RR.receiveChunk` after the previous chunk has been dropped -/
def RR_chunkCore (cfg : Cfg) (r : RR) (requestParsed : Bool) (buf : Bytes) : RR × Bytes × Rx :=
  let early : Option Rx :=
    if requestParsed then
      if r.request.expectContinue && !r.continueSent then some .expectContinue
      else if !cfg.concatChunks then some .valid else none
    else none
  match early with
  | some .expectContinue => ({ r with code := 100 }, buf, .expectContinue)
  | some x => (r, buf, x)
  | none =>
    let p := CK.parse cfg r.chunk buf
    let r := { r with chunk := p.1 }
    if !p.2.2 && (!p.2.1.isEmpty || r.chunk.fail) then ({ r with code := 400 }.clear, p.2.1, .invalid)
    else if r.chunk.valid then
      if cfg.concatChunks then
        if r.chunk.isLast then (r, p.2.1, .valid)
        else if r.body.length + r.chunk.data.length > cfg.maxContent then
          ({ r with code := 413 }.clear, p.2.1, .invalid)
        else ({ r with body := r.body ++ r.chunk.data }, p.2.1, .incomplete)
      else (r, p.2.1, .chunk)
    else (r, p.2.1, .incomplete)

theorem RR_chunk_eq (cfg : Cfg) (r : RR) (rp : Bool) (buf : Bytes) :
    RR.receiveChunk cfg r rp buf =
      RR_chunkCore cfg (if r.chunk.valid then { r with chunk := {} } else r) rp buf := rfl

theorem RR_chunkCore_facts (cfg : Cfg) (r : RR) (rp : Bool) (buf : Bytes) :
    (∃ pre, buf = pre ++ (RR_chunkCore cfg r rp buf).2.1) ∧
    ((RR_chunkCore cfg r rp buf).2.2 = .invalid ∨ (RR_chunkCore cfg r rp buf).1.request = r.request) ∧
    (rp = false → buf ≠ [] → (RR_chunkCore cfg r rp buf).2.2 = .invalid ∨
      (RR_chunkCore cfg r rp buf).2.1.length < buf.length) := by
  unfold RR_chunkCore
  dsimp only
  split
  · exact ⟨⟨[], rfl⟩, Or.inr rfl, fun h => by simp [h] at *⟩
  · exact ⟨⟨[], rfl⟩, Or.inr rfl, fun h => by simp [h] at *⟩
  · have hsuf := CK.parse_suffix cfg r.chunk buf
    have hlt := CK_parse_true_lt cfg r.chunk buf
    generalize CK.parse cfg r.chunk buf = p at *
    have hpos : buf ≠ [] → 0 < buf.length := fun hne => List.length_pos_iff.mpr hne
    by_cases hinv : (!p.2.2 && (!p.2.1.isEmpty || ({ r with chunk := p.1 } : RR).chunk.fail)) = true
    · rw [if_pos hinv]
      exact ⟨hsuf, Or.inl rfl, fun _ _ => Or.inl rfl⟩
    · rw [if_neg hinv]
      have hrest : buf ≠ [] → p.2.1.length < buf.length := by
        intro hne
        by_cases ht : p.2.2 = true
        · exact hlt ht
        · have : p.2.1 = [] := by
            cases h : p.2.1 with
            | nil => rfl
            | cons a b => simp [ht, h] at hinv
          rw [this]; exact hpos hne
      repeat' split
      all_goals first
        | exact ⟨hsuf, Or.inl rfl, fun _ _ => Or.inl rfl⟩
        | exact ⟨hsuf, Or.inr rfl, fun _ hne => Or.inr (hrest hne)⟩

theorem RR_chunk_facts (cfg : Cfg) (r : RR) (rp : Bool) (buf : Bytes) :
    (∃ pre, buf = pre ++ (RR.receiveChunk cfg r rp buf).2.1) ∧
    ((RR.receiveChunk cfg r rp buf).2.2 = .invalid ∨ (RR.receiveChunk cfg r rp buf).1.request = r.request) ∧
    (rp = false → buf ≠ [] → (RR.receiveChunk cfg r rp buf).2.2 = .invalid ∨
      (RR.receiveChunk cfg r rp buf).2.1.length < buf.length) := by
  rw [RR_chunk_eq]
  obtain ⟨h1, h2, h3⟩ := RR_chunkCore_facts cfg (if r.chunk.valid then { r with chunk := {} } else r) rp buf
  refine ⟨h1, ?_, h3⟩
  rcases h2 with h2 | h2
  · exact Or.inl h2
  · right; rw [h2]; split <;> rfl

theorem RR_tail_suffix (cfg : Cfg) (r : RR) (rp : Bool) (buf : Bytes) :
    ∃ pre, buf = pre ++ (RR_tail cfg r rp buf).2.1 := by
  unfold RR_tail
  split
  · exact ⟨[], rfl⟩
  · split
    · exact RR_body_suffix cfg r rp buf
    · exact (RR_chunk_facts cfg r rp buf).1

theorem RR_tail_le (cfg : Cfg) (r : RR) (rp : Bool) (buf : Bytes) :
    (RR_tail cfg r rp buf).2.1.length ≤ buf.length := by
  obtain ⟨pre, h⟩ := RR_tail_suffix cfg r rp buf
  have := congrArg List.length h
  simp only [List.length_append] at this
  omega

theorem RR_tail_progress (cfg : Cfg) (r : RR) (buf : Bytes)
    (hok : r.request.headers.isChunked = false → (r.body.length : Int) < r.request.headers.contentLength)
    (hne : buf ≠ []) :
    (RR_tail cfg r false buf).2.2 = .invalid ∨ (RR_tail cfg r false buf).2.1.length < buf.length := by
  unfold RR_tail
  split
  · left; rfl
  · split
    · rename_i hc
      exact RR_body_progress cfg r buf (hok (by simpa using hc)) hne
    · exact (RR_chunk_facts cfg r false buf).2.2 rfl hne

end C05
open C05

/-! ### request receiver (server) -/

theorem RR.receive_suffix (cfg : Cfg) (r : RR) (buf : Bytes) :
    ∃ pre, buf = pre ++ (RR.receive cfg r buf).2.1 := by
  by_cases hv : r.request.valid = true
  · rw [RR_receive_valid cfg r buf hv]
    exact RR_tail_suffix cfg r false buf
  · have hv' : r.request.valid = false := by simpa using hv
    obtain ⟨p1, hp1⟩ := RQ.parse_suffix cfg r.request buf
    rcases RR_receive_parse cfg r buf hv' with ⟨_, he⟩ | ⟨_, _, he⟩ | ⟨_, _, he⟩
    · rw [he]
      obtain ⟨p2, hp2⟩ := RR_tail_suffix cfg { r with request := (RQ.parse cfg r.request buf).1 } true
        (RQ.parse cfg r.request buf).2.1
      exact ⟨p1 ++ p2, by rw [List.append_assoc, ← hp2, ← hp1]⟩
    · rw [he]; exact ⟨p1, hp1⟩
    · rw [he]; exact ⟨p1, hp1⟩

/-- reachable-state invariant of the request receiver:
    * while a request with a Content-Length body is being received the body is still incomplete;
    * the header block is marked complete only together with the whole request head (`rx_request::parse`
      sets both flags in the same step), so a `receive` call that completes the head consumes a byte;
    * no body bytes are stored before the request head is complete (`clear` empties the body). -/
def RR.Ok (r : RR) : Prop :=
  (r.request.valid = true → r.request.headers.isChunked = false →
    (r.body.length : Int) < r.request.headers.contentLength) ∧
  (r.request.headers.valid = true → r.request.valid = true) ∧
  (r.request.valid = false → r.body = [])

theorem RR.ok_init : RR.Ok {} := by
  refine ⟨?_, ?_, ?_⟩ <;> intro h <;> first | rfl | exact absurd h (by decide)

theorem RR.receive_progress (cfg : Cfg) (r : RR) (buf : Bytes) (hok : RR.Ok r) (hne : buf ≠ []) :
    (RR.receive cfg r buf).2.2 = .invalid ∨ (RR.receive cfg r buf).2.1.length < buf.length := by
  obtain ⟨ok1, ok2, ok3⟩ := hok
  by_cases hv : r.request.valid = true
  · rw [RR_receive_valid cfg r buf hv]
    exact RR_tail_progress cfg r buf (ok1 hv) hne
  · have hv' : r.request.valid = false := by simpa using hv
    have hh : r.request.headers.valid = false := by
      cases h : r.request.headers.valid with
      | false => rfl
      | true => exact absurd (ok2 h) hv
    rcases RR_receive_parse cfg r buf hv' with ⟨ht, he⟩ | ⟨_, _, he⟩ | ⟨_, hnil, he⟩
    · rw [he]
      right
      have h1 := RQ_parse_true_lt cfg r.request buf hh ht
      have h2 := RR_tail_le cfg { r with request := (RQ.parse cfg r.request buf).1 } true
        (RQ.parse cfg r.request buf).2.1
      omega
    · rw [he]; left; rfl
    · rw [he]; right
      simp only [hnil, List.length_nil]
      exact List.length_pos_iff.mpr hne

namespace C05

theorem RR_ok_clear (r : RR) : RR.Ok r.clear := by
  refine ⟨?_, ?_, ?_⟩ <;> intro h <;> first | rfl | exact absurd h (by simp [RR.clear])

/-- the server's reaction keeps the invariant when the result is INVALID, or VALID for a message that
    is cleared, or when the receiver state itself satisfies it -/
theorem RR_ok_after (cfg : Cfg) (s : RR) (x : Rx)
    (h : x = .invalid ∨ (x = .valid ∧ s.request.headers.isChunked = false) ∨ RR.Ok s) :
    RR.Ok (RR.afterResult cfg s x) := by
  rcases h with h | ⟨h, hc⟩ | h
  · subst h; exact RR_ok_clear s
  · subst h
    simp only [RR.afterResult, hc, Bool.not_false, Bool.true_or, if_true]
    exact RR_ok_clear s
  · cases x with
    | valid => simp only [RR.afterResult]; split; exact RR_ok_clear s; exact h
    | expectContinue => exact h
    | chunk => simp only [RR.afterResult]; split; exact RR_ok_clear s; exact h
    | invalid => exact RR_ok_clear s
    | incomplete => exact h

theorem RR_tail_ok (cfg : Cfg) (r : RR) (rp : Bool) (buf : Bytes) (hv : r.request.valid = true)
    (hle : r.request.headers.isChunked = false → 0 ≤ r.request.headers.contentLength →
      (r.body.length : Int) ≤ r.request.headers.contentLength)
    (hrp : rp = true → r.body = []) :
    RR.Ok (RR.afterResult cfg (RR_tail cfg r rp buf).1 (RR_tail cfg r rp buf).2.2) := by
  unfold RR_tail
  split
  · exact RR_ok_after cfg _ _ (Or.inl rfl)
  · split
    · rename_i hc
      have hc' : r.request.headers.isChunked = false := by simpa using hc
      apply RR_ok_after
      rcases RR_body_ok cfg r rp buf (hle hc') hrp with h | ⟨h1, h2, h3⟩
      · exact Or.inl h
      · rcases h3 with h3 | h3
        · exact Or.inr (Or.inl ⟨h3, by rw [h2]; exact hc'⟩)
        · refine Or.inr (Or.inr ⟨fun _ _ => by rw [h2]; exact h3, fun _ => by rw [h1]; exact hv, ?_⟩)
          intro hf; rw [h1, hv] at hf; exact absurd hf (by decide)
    · rename_i hc
      have hc' : r.request.headers.isChunked = true := by simpa using hc
      apply RR_ok_after
      rcases (RR_chunk_facts cfg r rp buf).2.1 with h | h
      · exact Or.inl h
      · refine Or.inr (Or.inr ⟨?_, ?_, ?_⟩)
        · intro _ hf; rw [h, hc'] at hf; exact absurd hf (by decide)
        · intro _; rw [h]; exact hv
        · intro hf; rw [h, hv] at hf; exact absurd hf (by decide)

end C05

theorem RR.ok_step (cfg : Cfg) (r : RR) (buf : Bytes) (hok : RR.Ok r) :
    RR.Ok (RR.afterResult cfg (RR.receive cfg r buf).1 (RR.receive cfg r buf).2.2) := by
  obtain ⟨ok1, ok2, ok3⟩ := hok
  by_cases hv : r.request.valid = true
  · rw [RR_receive_valid cfg r buf hv]
    apply RR_tail_ok cfg r false buf hv
    · intro hc _
      have := ok1 hv hc
      omega
    · intro h; exact absurd h (by decide)
  · have hv' : r.request.valid = false := by simpa using hv
    have hh : r.request.headers.valid = false := by
      cases h : r.request.headers.valid with
      | false => rfl
      | true => exact absurd (ok2 h) hv
    obtain ⟨ft, ff⟩ := RQ_parse_flags cfg r.request buf hh
    rcases RR_receive_parse cfg r buf hv' with ⟨ht, he⟩ | ⟨_, _, he⟩ | ⟨hf, _, he⟩
    · rw [he]
      apply RR_tail_ok cfg _ true _ (ft ht)
      · intro _ h0
        simp only [ok3 hv', List.length_nil]
        exact h0
      · intro _; exact ok3 hv'
    · rw [he]; exact RR_ok_after cfg _ _ (Or.inl rfl)
    · rw [he]
      apply RR_ok_after
      obtain ⟨f1, f2⟩ := ff hf
      refine Or.inr (Or.inr ⟨?_, ?_, ?_⟩)
      · intro h; rw [f1, hv'] at h; exact absurd h (by decide)
      · intro h; rw [f2] at h; exact absurd h (by decide)
      · intro _; exact ok3 hv'

/-- the loop with any accumulator and any sufficient fuel -/
theorem RR.readLoop_done_gen (cfg : Cfg) : ∀ (fuel : Nat) (r : RR) (buf : Bytes) (acc : List Delivery),
    RR.Ok r → buf.length + 1 ≤ fuel →
    ((RR.readLoop cfg fuel r buf acc).2.1 = [] ∨
      ((RR.readLoop cfg fuel r buf acc).2.2.getLast?.map (·.rx)) = some .invalid) ∧
    RR.Ok (RR.readLoop cfg fuel r buf acc).1 ∧
    (RR.readLoop cfg fuel r buf acc).2.2.length ≤ acc.length + buf.length := by
  intro fuel
  induction fuel with
  | zero => intro r buf acc _ hf; omega
  | succ fuel ih =>
    intro r buf acc hok hf
    cases hb : buf with
    | nil =>
      simp [RR.readLoop, hok]
    | cons c cs =>
      have hne : buf ≠ [] := by rw [hb]; exact List.cons_ne_nil c cs
      have hprog := RR.receive_progress cfg r buf hok hne
      have hstep := RR.ok_step cfg r buf hok
      rw [← hb]
      have hemp : buf.isEmpty = false := by rw [hb]; rfl
      have hlen : 0 < buf.length := List.length_pos_iff.mpr hne
      simp only [RR.readLoop, hemp, Bool.false_eq_true, if_false]
      by_cases hinv : (RR.receive cfg r buf).2.2 = .invalid
      · simp only [hinv, beq_self_eq_true, if_true]
        rw [hinv] at hstep
        refine ⟨Or.inr (by simp), hstep, by simp; omega⟩
      · have hbeq : ((RR.receive cfg r buf).2.2 == Rx.invalid) = false := by
          cases h : (RR.receive cfg r buf).2.2 <;> first | rfl | exact absurd h hinv
        simp only [hbeq, Bool.false_eq_true, if_false]
        have hlt : (RR.receive cfg r buf).2.1.length < buf.length := by
          rcases hprog with h | h
          · exact absurd h hinv
          · exact h
        obtain ⟨i1, i2, i3⟩ := ih _ (RR.receive cfg r buf).2.1
          ({ rx := (RR.receive cfg r buf).2.2, used := buf.length - (RR.receive cfg r buf).2.1.length,
             snapshot := (RR.receive cfg r buf).1 } :: acc) hstep (by omega)
        refine ⟨i1, i2, ?_⟩
        simp only [List.length_cons] at i3
        omega

/-- the server's per-read loop never runs out of fuel `|read| + 1` -/
theorem RR.readLoop_done (cfg : Cfg) (r : RR) (buf : Bytes) (hok : RR.Ok r) :
    let res := RR.readLoop cfg (buf.length + 1) r buf []
    (res.2.1 = [] ∨ (res.2.2.getLast?.map (·.rx)) = some .invalid) ∧ RR.Ok res.1 ∧
    res.2.2.length ≤ buf.length := by
  have h := RR.readLoop_done_gen cfg (buf.length + 1) r buf [] hok (Nat.le_refl _)
  simpa using h

/-! ### response receiver: the shape of `receive` -/

namespace C05

/-- "no Content-Length header and data present": the body then runs up to `max_body_size` -/
def RS_noCl (r : RS) (buf : Bytes) : Bool :=
  decide ((buf.length : Int) > 0) && r.response.headers.contentLength == 0 &&
    (r.response.headers.fields.find (b!"content-length")).isEmpty

/-- the effective body length limit -/
def RS_cl (cfg : Cfg) (r : RS) (buf : Bytes) : Int :=
  if RS_noCl r buf then (cfg.maxContent : Int) else r.response.headers.contentLength

/-- the non-chunked branch of `response_receiver::receive` -/
def RS_body (cfg : Cfg) (r : RS) (buf : Bytes) : RS × Bytes × Rx :=
  if r.response.headers.contentLength < 0 then (r.clear, buf, .invalid)
  else if decide ((buf.length : Int) > RS_cl cfg r buf - r.body.length) && RS_noCl r buf then
    (r.clear, buf, .invalid)
  else
    let take : Nat := takeLen (RS_cl cfg r buf) r.body buf
    let r := { r with body := r.body ++ buf.take take }
    let rest := buf.drop take
    if (r.body.length : Int) == r.response.headers.contentLength then (r, rest, .valid)
    else (r, rest, .incomplete)

/-- the chunked branch of `response_receiver::receive` after the previous chunk has been dropped -/
def RS_chunkCore (cfg : Cfg) (r : RS) (responseParsed : Bool) (buf : Bytes) : RS × Bytes × Rx :=
  if responseParsed then (r, buf, .valid)
  else
    let p := CK.parse cfg r.chunk buf
    let r := { r with chunk := p.1 }
    if !p.2.2 && (!p.2.1.isEmpty || r.chunk.fail) then (r.clear, p.2.1, .invalid)
    else if r.chunk.valid then (r, p.2.1, .chunk)
    else (r, p.2.1, .incomplete)

/-- what `response_receiver::receive` does once the response head is complete -/
def RS_tail (cfg : Cfg) (r : RS) (rp : Bool) (buf : Bytes) : RS × Bytes × Rx :=
  if !r.response.headers.isChunked then RS_body cfg r buf
  else RS_chunkCore cfg (if r.chunk.valid then { r with chunk := {} } else r) rp buf

theorem RS_receive_valid (cfg : Cfg) (r : RS) (buf : Bytes) (hv : r.response.valid = true) :
    RS.receive cfg r buf = RS_tail cfg r false buf := by
  unfold RS.receive RS_tail
  simp only [hv, Bool.not_true, Bool.false_eq_true, if_false]
  rfl

theorem RS_receive_parse (cfg : Cfg) (r : RS) (buf : Bytes) (hv : r.response.valid = false) :
    ((RP.parse cfg r.response buf).2.2 = true ∧
      RS.receive cfg r buf =
        RS_tail cfg { r with response := (RP.parse cfg r.response buf).1 } true (RP.parse cfg r.response buf).2.1) ∨
    ((RP.parse cfg r.response buf).2.2 = false ∧
      ∃ r', RS.receive cfg r buf = (r', (RP.parse cfg r.response buf).2.1, .invalid)) ∨
    ((RP.parse cfg r.response buf).2.2 = false ∧ (RP.parse cfg r.response buf).2.1 = [] ∧
      RS.receive cfg r buf =
        ({ r with response := (RP.parse cfg r.response buf).1 }, (RP.parse cfg r.response buf).2.1, .incomplete)) := by
  unfold RS.receive RS_tail
  generalize RP.parse cfg r.response buf = p
  by_cases hp : p.2.2 = true
  · left
    simp only [hv, hp, Bool.not_false, Bool.not_true, if_true, Bool.false_eq_true, if_false, true_and]
    rfl
  · right
    by_cases hi : (!p.2.1.isEmpty || ({ r with response := p.1 } : RS).response.fail) = true
    · left
      simp only [hv, hp, Bool.not_false, if_true] at hi ⊢
      simp only [hi, if_true]
      exact ⟨by simp, _, rfl⟩
    · right
      have he : p.2.1 = [] := by
        cases h : p.2.1 with
        | nil => rfl
        | cons a b => simp [h] at hi
      simp only [hv, hp, Bool.not_false, if_true] at hi ⊢
      simp only [hi]
      exact ⟨by simp, he, by simp⟩

theorem RS_body_rest (cfg : Cfg) (r : RS) (buf : Bytes) : ∃ k, (RS_body cfg r buf).2.1 = buf.drop k := by
  unfold RS_body
  dsimp only
  repeat' split
  all_goals first | exact ⟨0, rfl⟩ | exact ⟨_, rfl⟩

theorem RS_contentLength_absent (r : RS)
    (h : (r.response.headers.fields.find (b!"content-length")).isEmpty = true) :
    r.response.headers.contentLength = 0 := by
  simp [MH.contentLength, h]

theorem RS_body_progress (cfg : Cfg) (r : RS) (buf : Bytes)
    (hok : (r.response.headers.fields.find (b!"content-length")).isEmpty = false →
      (r.body.length : Int) < r.response.headers.contentLength)
    (hne : buf ≠ []) :
    (RS_body cfg r buf).2.2 = .invalid ∨ (RS_body cfg r buf).2.1.length < buf.length := by
  have hpos : 0 < buf.length := List.length_pos_iff.mpr hne
  unfold RS_body
  dsimp only
  split
  · left; rfl
  · split
    · left; rfl
    · rename_i hc0 hinv
      right
      have hlt : (r.body.length : Int) < RS_cl cfg r buf := by
        by_cases hn : RS_noCl r buf = true
        · simp only [hn, Bool.and_true, decide_eq_true_eq] at hinv
          omega
        · have hcl : RS_cl cfg r buf = r.response.headers.contentLength := by simp [RS_cl, hn]
          rw [hcl]
          apply hok
          cases he : (r.response.headers.fields.find (b!"content-length")).isEmpty with
          | false => rfl
          | true =>
            have h0 := RS_contentLength_absent r he
            exfalso; apply hn
            simp only [RS_noCl, h0, he, Bool.and_true, beq_self_eq_true, decide_eq_true_eq]
            omega
      have htk := takeLen_pos _ r.body buf hlt hne
      split <;> (simp only [List.length_drop]; omega)

theorem RS_body_ok (cfg : Cfg) (r : RS) (buf : Bytes)
    (hpres : (r.response.headers.fields.find (b!"content-length")).isEmpty = false →
      0 ≤ r.response.headers.contentLength → (r.body.length : Int) ≤ r.response.headers.contentLength)
    (habs : (r.response.headers.fields.find (b!"content-length")).isEmpty = true →
      r.body.length ≤ cfg.maxContent) :
    (RS_body cfg r buf).2.2 = .invalid ∨
      ((RS_body cfg r buf).1.response = r.response ∧
       ((RS_body cfg r buf).2.2 = .valid ∨
        (((r.response.headers.fields.find (b!"content-length")).isEmpty = false →
            ((RS_body cfg r buf).1.body.length : Int) < r.response.headers.contentLength) ∧
         ((r.response.headers.fields.find (b!"content-length")).isEmpty = true →
            (RS_body cfg r buf).1.body.length ≤ cfg.maxContent)))) := by
  unfold RS_body
  dsimp only
  split
  · left; rfl
  · split
    · left; rfl
    · rename_i hc0 hinv
      split
      · exact Or.inr ⟨rfl, Or.inl rfl⟩
      · rename_i hneq
        refine Or.inr ⟨rfl, Or.inr ⟨?_, ?_⟩⟩
        · intro hp
          have hn : RS_noCl r buf = false := by simp [RS_noCl, hp]
          have hcl : RS_cl cfg r buf = r.response.headers.contentLength := by simp [RS_cl, hn]
          simp only [beq_iff_eq] at hneq
          rw [hcl] at hneq ⊢
          exact takeLen_lt _ r.body buf (hpres hp (by omega)) hneq
        · intro ha
          have h0 := RS_contentLength_absent r ha
          have hb := habs ha
          simp only [List.length_append, List.length_take]
          by_cases hn : RS_noCl r buf = true
          · simp only [hn, Bool.and_true, decide_eq_true_eq] at hinv
            have hcl : RS_cl cfg r buf = (cfg.maxContent : Int) := by simp [RS_cl, hn]
            rw [hcl] at hinv ⊢
            unfold takeLen
            split <;> omega
          · have hlen : buf.length = 0 := by
              cases hl : buf.length with
              | zero => rfl
              | succ n =>
                exfalso; apply hn
                simp only [RS_noCl, h0, ha, Bool.and_true, beq_self_eq_true, decide_eq_true_eq, hl]
                omega
            omega

theorem RS_chunkCore_facts (cfg : Cfg) (r : RS) (rp : Bool) (buf : Bytes) :
    (∃ pre, buf = pre ++ (RS_chunkCore cfg r rp buf).2.1) ∧
    ((RS_chunkCore cfg r rp buf).2.2 = .invalid ∨ (RS_chunkCore cfg r rp buf).1.response = r.response) ∧
    (rp = false → buf ≠ [] → (RS_chunkCore cfg r rp buf).2.2 = .invalid ∨
      (RS_chunkCore cfg r rp buf).2.1.length < buf.length) := by
  unfold RS_chunkCore
  dsimp only
  split
  · rename_i h
    exact ⟨⟨[], rfl⟩, Or.inr rfl, fun h' => by rw [h'] at h; exact absurd h (by decide)⟩
  · have hsuf := CK.parse_suffix cfg r.chunk buf
    have hlt := CK_parse_true_lt cfg r.chunk buf
    generalize CK.parse cfg r.chunk buf = p at *
    have hpos : buf ≠ [] → 0 < buf.length := fun hne => List.length_pos_iff.mpr hne
    by_cases hinv : (!p.2.2 && (!p.2.1.isEmpty || ({ r with chunk := p.1 } : RS).chunk.fail)) = true
    · rw [if_pos hinv]
      exact ⟨hsuf, Or.inl rfl, fun _ _ => Or.inl rfl⟩
    · rw [if_neg hinv]
      have hrest : buf ≠ [] → p.2.1.length < buf.length := by
        intro hne
        by_cases ht : p.2.2 = true
        · exact hlt ht
        · have : p.2.1 = [] := by
            cases h : p.2.1 with
            | nil => rfl
            | cons a b => simp [ht, h] at hinv
          rw [this]; exact hpos hne
      split
      all_goals exact ⟨hsuf, Or.inr rfl, fun _ hne => Or.inr (hrest hne)⟩

theorem RS_tail_suffix (cfg : Cfg) (r : RS) (rp : Bool) (buf : Bytes) :
    ∃ pre, buf = pre ++ (RS_tail cfg r rp buf).2.1 := by
  unfold RS_tail
  split
  · exact suffix_of_drop (RS_body_rest cfg r buf)
  · exact (RS_chunkCore_facts cfg _ rp buf).1

theorem RS_tail_le (cfg : Cfg) (r : RS) (rp : Bool) (buf : Bytes) :
    (RS_tail cfg r rp buf).2.1.length ≤ buf.length := by
  obtain ⟨pre, h⟩ := RS_tail_suffix cfg r rp buf
  have := congrArg List.length h
  simp only [List.length_append] at this
  omega

theorem RS_tail_progress (cfg : Cfg) (r : RS) (buf : Bytes)
    (hok : r.response.headers.isChunked = false →
      (r.response.headers.fields.find (b!"content-length")).isEmpty = false →
      (r.body.length : Int) < r.response.headers.contentLength)
    (hne : buf ≠ []) :
    (RS_tail cfg r false buf).2.2 = .invalid ∨ (RS_tail cfg r false buf).2.1.length < buf.length := by
  unfold RS_tail
  split
  · rename_i hc
    exact RS_body_progress cfg r buf (hok (by simpa using hc)) hne
  · exact (RS_chunkCore_facts cfg _ false buf).2.2 rfl hne

end C05

/-! ### response receiver (client) -/

theorem RS.receive_suffix (cfg : Cfg) (r : RS) (buf : Bytes) :
    ∃ pre, buf = pre ++ (RS.receive cfg r buf).2.1 := by
  by_cases hv : r.response.valid = true
  · rw [RS_receive_valid cfg r buf hv]
    exact RS_tail_suffix cfg r false buf
  · have hv' : r.response.valid = false := by simpa using hv
    obtain ⟨p1, hp1⟩ := RP.parse_suffix cfg r.response buf
    rcases RS_receive_parse cfg r buf hv' with ⟨_, he⟩ | ⟨_, _, he⟩ | ⟨_, _, he⟩
    · rw [he]
      obtain ⟨p2, hp2⟩ := RS_tail_suffix cfg { r with response := (RP.parse cfg r.response buf).1 } true
        (RP.parse cfg r.response buf).2.1
      exact ⟨p1 ++ p2, by rw [List.append_assoc, ← hp2, ← hp1]⟩
    · rw [he]; exact ⟨p1, hp1⟩
    · rw [he]; exact ⟨p1, hp1⟩

/-- reachable-state invariant of the response receiver:
    * while a response without chunked encoding is being received: with a Content-Length header the
      body is still incomplete; without one the stored body does not exceed `max_body_size`;
    * the header block is marked complete only together with the whole response head
      (`rx_response::parse` sets both flags in the same step), so a `receive` call that completes the
      head consumes a byte;
    * no body bytes are stored before the response head is complete (`clear` empties the body). -/
def RS.Ok (cfg : Cfg) (r : RS) : Prop :=
  (r.response.valid = true → r.response.headers.isChunked = false →
    ((r.response.headers.fields.find (b!"content-length")).isEmpty = false →
        (r.body.length : Int) < r.response.headers.contentLength) ∧
    ((r.response.headers.fields.find (b!"content-length")).isEmpty = true →
        r.body.length ≤ cfg.maxContent)) ∧
  (r.response.headers.valid = true → r.response.valid = true) ∧
  (r.response.valid = false → r.body = [])

theorem RS.ok_init (cfg : Cfg) : RS.Ok cfg {} := by
  refine ⟨?_, ?_, ?_⟩ <;> intro h <;> first | rfl | exact absurd h (by decide)

theorem RS.receive_progress (cfg : Cfg) (r : RS) (buf : Bytes) (hok : RS.Ok cfg r) (hne : buf ≠ []) :
    (RS.receive cfg r buf).2.2 = .invalid ∨ (RS.receive cfg r buf).2.1.length < buf.length := by
  obtain ⟨ok1, ok2, ok3⟩ := hok
  by_cases hv : r.response.valid = true
  · rw [RS_receive_valid cfg r buf hv]
    exact RS_tail_progress cfg r buf (fun hc => (ok1 hv hc).1) hne
  · have hv' : r.response.valid = false := by simpa using hv
    have hh : r.response.headers.valid = false := by
      cases h : r.response.headers.valid with
      | false => rfl
      | true => exact absurd (ok2 h) hv
    rcases RS_receive_parse cfg r buf hv' with ⟨ht, he⟩ | ⟨_, _, he⟩ | ⟨_, hnil, he⟩
    · rw [he]
      right
      have h1 := RP_parse_true_lt cfg r.response buf hh ht
      have h2 := RS_tail_le cfg { r with response := (RP.parse cfg r.response buf).1 } true
        (RP.parse cfg r.response buf).2.1
      omega
    · rw [he]; left; rfl
    · rw [he]; right
      simp only [hnil, List.length_nil]
      exact List.length_pos_iff.mpr hne

namespace C05

theorem RS_ok_clear (cfg : Cfg) (r : RS) : RS.Ok cfg r.clear := RS.ok_init cfg

/-- the client's reaction keeps the invariant when the result is INVALID, or VALID for a message that
    is cleared, or when the receiver state itself satisfies it -/
theorem RS_ok_after (cfg : Cfg) (s : RS) (x : Rx)
    (h : x = .invalid ∨ (x = .valid ∧ s.response.headers.isChunked = false) ∨ RS.Ok cfg s) :
    RS.Ok cfg (RS.afterResult s x) := by
  rcases h with h | ⟨h, hc⟩ | h
  · subst h; exact RS_ok_clear cfg s
  · subst h
    simp only [RS.afterResult, hc, Bool.not_false, if_true]
    exact RS_ok_clear cfg s
  · cases x with
    | valid => simp only [RS.afterResult]; split; exact RS_ok_clear cfg s; exact h
    | expectContinue => exact h
    | chunk => simp only [RS.afterResult]; split; exact RS_ok_clear cfg s; exact h
    | invalid => exact RS_ok_clear cfg s
    | incomplete => exact h

theorem RS_tail_ok (cfg : Cfg) (r : RS) (rp : Bool) (buf : Bytes) (hv : r.response.valid = true)
    (hpres : r.response.headers.isChunked = false →
      (r.response.headers.fields.find (b!"content-length")).isEmpty = false →
      0 ≤ r.response.headers.contentLength → (r.body.length : Int) ≤ r.response.headers.contentLength)
    (habs : r.response.headers.isChunked = false →
      (r.response.headers.fields.find (b!"content-length")).isEmpty = true →
      r.body.length ≤ cfg.maxContent) :
    RS.Ok cfg (RS.afterResult (RS_tail cfg r rp buf).1 (RS_tail cfg r rp buf).2.2) := by
  unfold RS_tail
  split
  · rename_i hc
    have hc' : r.response.headers.isChunked = false := by simpa using hc
    apply RS_ok_after
    rcases RS_body_ok cfg r buf (hpres hc') (habs hc') with h | ⟨h1, h2⟩
    · exact Or.inl h
    · rcases h2 with h2 | h2
      · exact Or.inr (Or.inl ⟨h2, by rw [h1]; exact hc'⟩)
      · refine Or.inr (Or.inr ⟨fun _ _ => by rw [h1]; exact h2, fun _ => by rw [h1]; exact hv, ?_⟩)
        intro hf; rw [h1, hv] at hf; exact absurd hf (by decide)
  · rename_i hc
    have hc' : r.response.headers.isChunked = true := by simpa using hc
    apply RS_ok_after
    rcases (RS_chunkCore_facts cfg (if r.chunk.valid then { r with chunk := {} } else r) rp buf).2.1 with h | h
    · exact Or.inl h
    · have hr : (if r.chunk.valid = true then ({ r with chunk := {} } : RS) else r).response = r.response := by
        split <;> rfl
      rw [hr] at h
      refine Or.inr (Or.inr ⟨?_, ?_, ?_⟩)
      · intro _ hf; rw [h, hc'] at hf; exact absurd hf (by decide)
      · intro _; rw [h]; exact hv
      · intro hf; rw [h, hv] at hf; exact absurd hf (by decide)

end C05

theorem RS.ok_step (cfg : Cfg) (r : RS) (buf : Bytes) (hok : RS.Ok cfg r) :
    RS.Ok cfg (RS.afterResult (RS.receive cfg r buf).1 (RS.receive cfg r buf).2.2) := by
  obtain ⟨ok1, ok2, ok3⟩ := hok
  by_cases hv : r.response.valid = true
  · rw [RS_receive_valid cfg r buf hv]
    apply RS_tail_ok cfg r false buf hv
    · intro hc hp _
      have := (ok1 hv hc).1 hp
      omega
    · intro hc ha
      exact (ok1 hv hc).2 ha
  · have hv' : r.response.valid = false := by simpa using hv
    have hh : r.response.headers.valid = false := by
      cases h : r.response.headers.valid with
      | false => rfl
      | true => exact absurd (ok2 h) hv
    obtain ⟨ft, ff⟩ := RP_parse_flags cfg r.response buf hh
    rcases RS_receive_parse cfg r buf hv' with ⟨ht, he⟩ | ⟨_, _, he⟩ | ⟨hf, _, he⟩
    · rw [he]
      apply RS_tail_ok cfg _ true _ (ft ht)
      · intro _ _ h0
        simp only [ok3 hv', List.length_nil]
        exact h0
      · intro _ _
        simp only [ok3 hv', List.length_nil]
        exact Nat.zero_le _
    · rw [he]; exact RS_ok_after cfg _ _ (Or.inl rfl)
    · rw [he]
      apply RS_ok_after
      obtain ⟨f1, f2⟩ := ff hf
      refine Or.inr (Or.inr ⟨?_, ?_, ?_⟩)
      · intro h; rw [f1, hv'] at h; exact absurd h (by decide)
      · intro h; rw [f2] at h; exact absurd h (by decide)
      · intro _; exact ok3 hv'

/-- the loop with any accumulator and any sufficient fuel -/
theorem RS.readLoop_done_gen (cfg : Cfg) : ∀ (fuel : Nat) (r : RS) (buf : Bytes) (acc : List RDelivery),
    RS.Ok cfg r → buf.length + 1 ≤ fuel →
    ((RS.readLoop cfg fuel r buf acc).2.1 = [] ∨
      ((RS.readLoop cfg fuel r buf acc).2.2.getLast?.map (·.rx)) = some .invalid) ∧
    RS.Ok cfg (RS.readLoop cfg fuel r buf acc).1 ∧
    (RS.readLoop cfg fuel r buf acc).2.2.length ≤ acc.length + buf.length := by
  intro fuel
  induction fuel with
  | zero => intro r buf acc _ hf; omega
  | succ fuel ih =>
    intro r buf acc hok hf
    cases hb : buf with
    | nil =>
      simp [RS.readLoop, hok]
    | cons c cs =>
      have hne : buf ≠ [] := by rw [hb]; exact List.cons_ne_nil c cs
      have hprog := RS.receive_progress cfg r buf hok hne
      have hstep := RS.ok_step cfg r buf hok
      rw [← hb]
      have hemp : buf.isEmpty = false := by rw [hb]; rfl
      have hlen : 0 < buf.length := List.length_pos_iff.mpr hne
      simp only [RS.readLoop, hemp, Bool.false_eq_true, if_false]
      by_cases hinv : (RS.receive cfg r buf).2.2 = .invalid
      · simp only [hinv, beq_self_eq_true, if_true]
        rw [hinv] at hstep
        refine ⟨Or.inr (by simp), hstep, by simp; omega⟩
      · have hbeq : ((RS.receive cfg r buf).2.2 == Rx.invalid) = false := by
          cases h : (RS.receive cfg r buf).2.2 <;> first | rfl | exact absurd h hinv
        simp only [hbeq, Bool.false_eq_true, if_false]
        have hlt : (RS.receive cfg r buf).2.1.length < buf.length := by
          rcases hprog with h | h
          · exact absurd h hinv
          · exact h
        obtain ⟨i1, i2, i3⟩ := ih _ (RS.receive cfg r buf).2.1
          ({ rx := (RS.receive cfg r buf).2.2, used := buf.length - (RS.receive cfg r buf).2.1.length,
             snapshot := (RS.receive cfg r buf).1 } :: acc) hstep (by omega)
        refine ⟨i1, i2, ?_⟩
        simp only [List.length_cons] at i3
        omega

/-- the client's per-read loop never runs out of fuel `|read| + 1` -/
theorem RS.readLoop_done (cfg : Cfg) (r : RS) (buf : Bytes) (hok : RS.Ok cfg r) :
    let res := RS.readLoop cfg (buf.length + 1) r buf []
    (res.2.1 = [] ∨ (res.2.2.getLast?.map (·.rx)) = some .invalid) ∧ RS.Ok cfg res.1 ∧
    res.2.2.length ≤ buf.length := by
  have h := RS.readLoop_done_gen cfg (buf.length + 1) r buf [] hok (Nat.le_refl _)
  simpa using h

end Via
