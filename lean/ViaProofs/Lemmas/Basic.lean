import ViaModel
/- helper lemmas shared by several property modules -/
namespace Via

theorem findByte_spec (b : Byte) (s : Bytes) (i : Nat) (h : findByte b s = some i) :
    s = s.take i ++ [b] ++ s.drop (i + 1) ∧ b ∉ s.take i := by
  unfold findByte at h
  simp only at h
  split at h
  · rename_i hlt
    cases h
    have hget := List.findIdx_getElem (w := hlt)
    simp only [beq_iff_eq] at hget
    constructor
    · conv => lhs; rw [← List.take_append_drop (List.findIdx (· == b) s) s]
      rw [List.drop_eq_getElem_cons hlt, hget]; simp
    · intro hm
      obtain ⟨j, hj, hjv⟩ := List.mem_take_iff_getElem.1 hm
      have hj' : j < List.findIdx (· == b) s := by omega
      have := List.not_of_lt_findIdx hj'
      simp at this
      exact this hjv
  · cases h

theorem findByte_none (b : Byte) (s : Bytes) (h : findByte b s = none) : b ∉ s := by
  unfold findByte at h
  simp only at h
  split at h
  · cases h
  · rename_i hge
    intro hm
    exact hge (List.findIdx_lt_length.2 ⟨b, hm, by simp⟩)

/-- `findByte` on a string whose prefix does not contain the byte -/
theorem findByte_append (b : Byte) (u rest : Bytes) (hu : b ∉ u) :
    findByte b (u ++ b :: rest) = some u.length := by
  unfold findByte
  have : List.findIdx (· == b) (u ++ b :: rest) = u.length := by
    induction u with
    | nil => simp [List.findIdx_cons]
    | cons c cs ih =>
      have hc : c ≠ b := fun h => hu (by simp [h])
      have hcs : b ∉ cs := fun h => hu (by simp [h])
      have hcb : (c == b) = false := by simp [hc]
      simp [List.findIdx_cons, hcb, ih hcs]
  simp [this]

end Via
