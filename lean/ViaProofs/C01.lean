import ViaProofs.Statements
import ViaProofs.Frag.Compose
import ViaProofs.C05
/-
  C01 / C02 — requests are delivered (or rejected) identically however their bytes are fragmented.

  `Frag/*.lean` proves the sequential-composition law for every incremental parser.  This file lifts it to
  `request_receiver::receive` and to the per-read loop of `http_server::receive_handler`:

  * `RR.receive_head_seq`      a read that ends inside the request head only advances the parser: the next
                               read continues exactly where a single read of both would be;
  * `RR.receive_head_fail_seq` a syntax / limit error in the head is reported with the same verdict and status
                               whatever follows it in the read (so the verdict cannot depend on the cut);
  * `RR.receive_body_seq`      the same for a Content-Length body in progress;
  * `RR.feedHead_flatten_false` the naive per-call statement is FALSE (proved with a concrete witness):
                               when the head is completed strictly inside an earlier part, the checks made right
                               after the head (411, Expect, body length) see a different buffer in the single read.
                               `RR.feedHead_flatten'` / `RR.feedHead_flatten_open` are the corrected statements: for
                               every partition of the bytes into reads in which the head is not completed strictly
                               before the last part, feeding the parts one by one gives the result of the single read;
  * `C01_frag`                 full statement on the server loop: for every byte stream whose single-read run is
                               clean (no INVALID, everything consumed) every partition into reads delivers the same
                               requests and chunks to the application.

  The proof of `C01_frag` uses the reachable-state invariant and the progress theorem of `C05.lean`
  (`RR.Ok`, `RR.receive_progress`, `RR.ok_step`): without progress the per-read fuel could run out.
  Structure: `C01.step_split` (one `receive` call on `a ++ b` versus the call on `a` followed by the rest of the
  loop on what it left and `b`), `C01.run_split` (two reads), `C01.feedE_flatten` (any number of reads).  The two
  runs may differ in the response code and in the interim 100-continue (whether it is sent for a Content-Length
  body depends on the cut): `C01.Sim` / `C01.REq` relate the states and runs up to these, `C01.run_sim` shows
  they are unobservable in `payload`.
-/
namespace Via

namespace C01

/-- `rx_request::parse` returns `true` exactly when it sets `valid` -/
theorem RQ_parse_valid (cfg : Cfg) (q : RQ) (buf : Bytes) (hv : q.valid = false) :
    (RQ.parse cfg q buf).1.valid = (RQ.parse cfg q buf).2.2 := by
  unfold RQ.parse
  dsimp only
  repeat' split
  all_goals simp_all

theorem RQ_not_done (q : RQ) (hd : RQ.done q = false) :
    q.valid = false ∧ RQ.fail q = false := by
  simp only [RQ.done, Bool.or_eq_false_iff] at hd
  simp [RQ.fail, MH.fail, hd]

/-- everything `receive` does once the request head is complete -/
def post (cfg : Cfg) (r : RR) (rp : Bool) (buf : Bytes) : RR × Bytes × Rx :=
  if r.request.missingHost then ({ r with code := 400 }, buf, .invalid)
  else if !r.request.headers.isChunked then RR.receiveBody cfg r rp buf
  else RR.receiveChunk cfg r rp buf

set_option linter.unusedSimpArgs false in
/-- the first part of `receive` while the request head is being parsed -/
theorem receive_head (cfg : Cfg) (r : RR) (buf : Bytes) (hv : r.request.valid = false) :
    RR.receive cfg r buf =
      (let p := RQ.parse cfg r.request buf
       let r1 := { r with request := p.1 }
       if p.2.2 = false then
         if p.2.1 ≠ [] ∨ p.1.fail = true then
           ({ r1 with code := match p.1.line.st with
                | .errMethodLength => 501
                | .errUriLength => 414
                | _ => 400 }.clear, p.2.1, .invalid)
         else (r1, p.2.1, .incomplete)
       else
         post cfg r1 true p.2.1) := by
  unfold RR.receive post
  simp only [hv, Bool.not_false, if_true]
  generalize RQ.parse cfg r.request buf = p
  obtain ⟨q1, rest, bo⟩ := p
  cases bo <;> cases rest <;> cases hf : q1.fail <;> simp [hf] <;> rfl

theorem receive_valid (cfg : Cfg) (r : RR) (buf : Bytes) (hv : r.request.valid = true) :
    RR.receive cfg r buf = post cfg r false buf := by
  unfold RR.receive post
  simp [hv]

/-- completion of a Content-Length body -/
def finish (cfg : Cfg) (r : RR) : RR :=
  let isHead := r.request.isHead
  let r := { r with isHead := isHead }
  if isHead && cfg.translateHead
    then { r with request := { r.request with line := { r.request.line with method := (b!"GET") } } } else r

/-- the number of body bytes taken from a buffer of `m` bytes when `n` are stored: `min m (cl - n)` -/
def takeN (cl : Int) (n m : Nat) : Nat := if (m : Int) > cl - n then (cl - n).toNat else m

/-- the accumulation step of the Content-Length branch -/
def accum (cfg : Cfg) (r : RR) (buf : Bytes) : RR × Bytes × Rx :=
  let cl : Int := r.request.headers.contentLength
  let take : Nat := takeN cl r.body.length buf.length
  let r1 := { r with body := r.body ++ buf.take take }
  if (r1.body.length : Int) == cl then (finish cfg r1, buf.drop take, .valid)
  else (r1, buf.drop take, .incomplete)

/-- the TRACE check only changes the response code -/
def pre (r : RR) : RR := if r.request.isTrace then { r with code := 405 } else r

theorem receiveBody_eq (cfg : Cfg) (r : RR) (rp : Bool) (buf : Bytes) :
    RR.receiveBody cfg r rp buf =
      (let cl : Int := r.request.headers.contentLength
       if (r.request.isTrace && cl != 0) || cl < 0 then (({ code := 400 } : RR), buf, .invalid)
       else if cl > 0 && cl > (cfg.maxContent : Int) then (({ code := 413 } : RR), buf, .invalid)
       else if !(cl > 0) && (buf.length : Int) > 0 &&
           (r.request.headers.fields.find (b!"content-length")).isEmpty then
         (({ code := 411 } : RR), buf, .invalid)
       else if rp && (buf.length : Int) < cl && r.request.expectContinue && !r.continueSent then
         ({ pre r with code := 100 }, buf, .expectContinue)
       else accum cfg (pre r) buf) := by
  unfold RR.receiveBody
  dsimp only
  cases ht : r.request.isTrace
  · simp [pre, ht, accum, takeN, finish, RR.clear, RQ.expectContinue, RQ.isHead]
  · by_cases h0 : r.request.headers.contentLength = 0
    · simp [h0, pre, ht, accum, takeN, finish, RR.clear, RQ.expectContinue, RQ.isHead]
    · simp [h0, RR.clear]


theorem accum_short (cfg : Cfg) (r : RR) (a : Bytes)
    (h : (r.body.length : Int) + a.length < r.request.headers.contentLength) :
    accum cfg r a = ({ r with body := r.body ++ a }, [], .incomplete) := by
  unfold accum takeN
  have h1 : ¬ ((a.length : Int) > r.request.headers.contentLength - r.body.length) := by omega
  simp only [h1, if_false, List.take_length, List.drop_length, List.length_append]
  have h2 : ¬ ((r.body.length : Int) + a.length = r.request.headers.contentLength) := by omega
  simp [h2]

theorem accum_short_append (cfg : Cfg) (r : RR) (a b : Bytes)
    (h : (r.body.length : Int) + a.length < r.request.headers.contentLength) :
    accum cfg r (a ++ b) = accum cfg { r with body := r.body ++ a } b := by
  unfold accum takeN
  dsimp only
  have e1 : (if ((a ++ b).length : Int) > r.request.headers.contentLength - r.body.length
        then (r.request.headers.contentLength - r.body.length).toNat else (a ++ b).length) =
      a.length + (if (b.length : Int) > r.request.headers.contentLength - (r.body ++ a).length
        then (r.request.headers.contentLength - ((r.body ++ a).length : Nat)).toNat else b.length) := by
    simp only [List.length_append]
    split <;> split <;> omega
  rw [e1]
  simp only [List.take_append, List.drop_append, List.take_of_length_le (Nat.le_add_right _ _),
    List.drop_eq_nil_of_le (Nat.le_add_right a.length _), Nat.add_sub_cancel_left, List.nil_append,
    List.append_assoc]

theorem accum_long (cfg : Cfg) (r : RR) (a b : Bytes)
    (hpos : (r.body.length : Int) ≤ r.request.headers.contentLength)
    (h : r.request.headers.contentLength ≤ (r.body.length : Int) + a.length) :
    (accum cfg r a).2.2 = .valid ∧
    accum cfg r (a ++ b) = ((accum cfg r a).1, (accum cfg r a).2.1 ++ b, .valid) := by
  unfold accum takeN
  dsimp only
  have e1 : (if ((a ++ b).length : Int) > r.request.headers.contentLength - r.body.length
        then (r.request.headers.contentLength - r.body.length).toNat else (a ++ b).length) =
      (r.request.headers.contentLength - r.body.length).toNat := by
    simp only [List.length_append]
    split <;> omega
  have e2 : (if (a.length : Int) > r.request.headers.contentLength - r.body.length
        then (r.request.headers.contentLength - r.body.length).toNat else a.length) =
      (r.request.headers.contentLength - r.body.length).toNat := by
    split <;> omega
  have hle : (r.request.headers.contentLength - r.body.length).toNat ≤ a.length := by omega
  rw [e1, e2]
  have e3 : ((r.body ++ a.take (r.request.headers.contentLength - r.body.length).toNat).length : Int)
      = r.request.headers.contentLength := by
    simp only [List.length_append, List.length_take]
    omega
  simp only [List.take_append_of_le_length hle, List.drop_append_of_le_length hle, e3, beq_self_eq_true,
    if_true, and_self]

/-- a Content-Length body in progress: the checks that do not depend on the buffer, then accumulation -/
theorem post_cl (cfg : Cfg) (r : RR) (buf : Bytes) (hc : r.request.headers.isChunked = false)
    (hpos : (r.body.length : Int) < r.request.headers.contentLength) :
    post cfg r false buf =
      if r.request.missingHost = true ∨ (r.request.isTrace = true ∨
          r.request.headers.contentLength > (cfg.maxContent : Int))
      then ((post cfg r false buf).1, buf, .invalid) else accum cfg r buf := by
  have hcl : r.request.headers.contentLength > 0 := by omega
  have hcl' : ¬ r.request.headers.contentLength < 0 := by omega
  unfold post
  rw [receiveBody_eq]
  cases hm : r.request.missingHost
  · cases ht : r.request.isTrace
    · by_cases h413 : r.request.headers.contentLength > (cfg.maxContent : Int)
      · simp [hc, hcl, hcl', h413]
      · simp [hc, hcl, hcl', h413, pre, ht]
    · have : r.request.headers.contentLength ≠ 0 := by omega
      simp [hc, hcl', this]
  · simp

theorem RQ_done_of (q : RQ) (hv : q.valid = false) (hf : RQ.fail q = false) : RQ.done q = false := by
  simp only [RQ.fail, MH.fail, Bool.or_eq_false_iff] at hf
  simp [RQ.done, hv, hf]
end C01

/-! ### one `receive` call versus two -/

theorem RR.receive_head_seq (cfg : Cfg) (r : RR) (a b : Bytes)
    (hv : r.request.valid = false) (hd : RQ.done r.request = false)
    (hinc : RQ.done (RQ.parse cfg r.request a).1 = false ∧ (RQ.parse cfg r.request a).2.1 = []) :
    RR.receive cfg r a = ({ r with request := (RQ.parse cfg r.request a).1 }, [], .incomplete) ∧
    RR.receive cfg r (a ++ b) = RR.receive cfg { r with request := (RQ.parse cfg r.request a).1 } b := by
  obtain ⟨h1, h2⟩ := hinc
  obtain ⟨hv1, hf1⟩ := C01.RQ_not_done _ h1
  have hb := C01.RQ_parse_valid cfg r.request a hv
  rw [hv1] at hb
  have law := RQ.parse_seq cfg r.request a b hd
  simp only [h1, h2, List.isEmpty_nil, Bool.not_true, Bool.or_self, Bool.false_eq_true, if_false] at law
  constructor
  · rw [C01.receive_head cfg r a hv]
    simp [← hb, h2, hf1]
  · rw [C01.receive_head cfg r (a ++ b) hv, C01.receive_head cfg _ b hv1, law]

theorem RR.receive_head_fail_seq (cfg : Cfg) (r : RR) (a b : Bytes)
    (hv : r.request.valid = false) (hd : RQ.done r.request = false)
    (hfail : (RQ.parse cfg r.request a).2.2 = false ∧
             ((RQ.parse cfg r.request a).1.fail = true ∨ (RQ.parse cfg r.request a).2.1 ≠ [])) :
    (RR.receive cfg r a).2.2 = .invalid ∧
    RR.receive cfg r (a ++ b) = ((RR.receive cfg r a).1, (RR.receive cfg r a).2.1 ++ b, .invalid) := by
  obtain ⟨h1, h2⟩ := hfail
  have law := RQ.parse_seq cfg r.request a b hd
  have hc : (RQ.done (RQ.parse cfg r.request a).1 || !(RQ.parse cfg r.request a).2.1.isEmpty) = true := by
    rcases h2 with h2 | h2
    · have : RQ.done (RQ.parse cfg r.request a).1 = true := by
        simp only [RQ.fail, MH.fail, Bool.or_eq_true] at h2
        simp only [RQ.done, Bool.or_eq_true]
        rcases h2 with h2 | h2
        · exact Or.inl (Or.inr h2)
        · exact Or.inr h2
      simp [this]
    · cases h : (RQ.parse cfg r.request a).2.1 with
      | nil => exact absurd h h2
      | cons c cs => simp
  simp only [hc, if_true] at law
  have hcond : ((RQ.parse cfg r.request a).2.1 ≠ [] ∨ (RQ.parse cfg r.request a).1.fail = true) := h2.symm
  have hcond' : ((RQ.parse cfg r.request a).2.1 ++ b ≠ [] ∨ (RQ.parse cfg r.request a).1.fail = true) := by
    rcases hcond with h | h
    · left
      intro e
      exact h (List.append_eq_nil_iff.mp e).1
    · exact Or.inr h
  rw [C01.receive_head cfg r (a ++ b) hv, C01.receive_head cfg r a hv, law]
  simp only [h1, if_true, hcond, hcond']
  exact ⟨trivial, trivial⟩

/-- a Content-Length body in progress: a read that does not complete it is pure accumulation -/
theorem RR.receive_body_seq (cfg : Cfg) (r : RR) (a b : Bytes)
    (hv : r.request.valid = true) (hc : r.request.headers.isChunked = false)
    (hpos : (r.body.length : Int) < r.request.headers.contentLength)
    (hinc : (RR.receive cfg r a).2.2 = .incomplete) :
    (RR.receive cfg r a).2.1 = [] ∧
    RR.receive cfg r (a ++ b) = RR.receive cfg (RR.receive cfg r a).1 b := by
  rw [C01.receive_valid cfg r a hv] at hinc ⊢
  rw [C01.receive_valid cfg r (a ++ b) hv]
  rw [C01.post_cl cfg r a hc hpos] at hinc ⊢
  rw [C01.post_cl cfg r (a ++ b) hc hpos]
  by_cases hbad : r.request.missingHost = true ∨ (r.request.isTrace = true ∨
          r.request.headers.contentLength > (cfg.maxContent : Int))
  · simp [hbad] at hinc
  · simp only [hbad, if_false] at hinc ⊢
    by_cases hshort : (r.body.length : Int) + a.length < r.request.headers.contentLength
    · rw [C01.accum_short cfg _ a hshort, C01.accum_short_append cfg _ a b hshort]
      refine ⟨rfl, ?_⟩
      dsimp only
      rw [C01.receive_valid cfg { r with body := r.body ++ a } b hv,
        C01.post_cl cfg { r with body := r.body ++ a } b hc (by simp only [List.length_append]; omega)]
      simp only [hbad, if_false]
    · have hl := (C01.accum_long cfg r a [] (by omega) (by omega)).1
      rw [hl] at hinc
      cases hinc

/-- feed the parts one at a time while the head is unfinished -/
def RR.feedHead (cfg : Cfg) (r : RR) : List Bytes → RR × Bytes × Rx
  | [] => (r, [], .incomplete)
  | [p] => RR.receive cfg r p
  | p :: q :: rest =>
    let x := RR.receive cfg r p
    if x.2.2 == .incomplete && !x.1.request.valid && x.2.1.isEmpty then RR.feedHead cfg x.1 (q :: rest)
    else (x.1, x.2.1 ++ (q :: rest).flatten, x.2.2)

/-- the naive statement "feeding the parts while the head is unfinished equals the single read of the
    concatenation, for EVERY partition" is false: when the head is completed strictly inside an earlier part, the
    checks made right after the head see a different buffer in the single read.  Here `GET / HTTP/1.1`,
    `Host: a`, blank line arrives in the first read and one more byte in the second: fed separately the request
    is VALID (rest `X`); in a single read the byte that follows a request without Content-Length makes it
    INVALID (411 Length Required).  (A Content-Length body continuing in the second part is another
    counterexample: INCOMPLETE versus VALID.) -/
theorem RR.feedHead_flatten_false :
    ¬ (∀ (cfg : Cfg) (ps : List Bytes), (∀ p ∈ ps, p ≠ []) → ps ≠ [] →
        ∀ (r : RR), r.request.valid = false → RQ.done r.request = false →
          RR.feedHead cfg r ps = RR.receive cfg r ps.flatten) := by
  intro h
  have h1 := h {} [b!"GET / HTTP/1.1\r\nHost: a\r\n\r\n", b!"X"] (by decide) (by decide) {} rfl rfl
  have h2 : (RR.feedHead {} {} [b!"GET / HTTP/1.1\r\nHost: a\r\n\r\n", b!"X"]).2.2 =
      (RR.receive {} {} [b!"GET / HTTP/1.1\r\nHost: a\r\n\r\n", b!"X"].flatten).2.2 := by rw [h1]
  revert h2
  decide +kernel

/-- `feedHead_flatten` with the hypothesis that makes it true: the request head is not completed strictly
    before the last part (`rx_request::parse` returns `false` on every non-empty proper prefix of the parts) -/
theorem RR.feedHead_flatten_open (cfg : Cfg) (ps : List Bytes) (hps : ps ≠ []) :
    ∀ (r : RR), r.request.valid = false → RQ.done r.request = false →
      (∀ qs, qs <+: ps → qs ≠ [] → qs ≠ ps → (RQ.parse cfg r.request qs.flatten).2.2 = false) →
      RR.feedHead cfg r ps = RR.receive cfg r ps.flatten := by
  induction ps with
  | nil => exact absurd rfl hps
  | cons p ps' ih =>
    intro r hv hd H
    cases ps' with
    | nil => simp [RR.feedHead]
    | cons q rest =>
      have hp := H [p] (by simp) (by simp) (by simp)
      simp only [List.flatten_cons, List.flatten_nil, List.append_nil] at hp
      have hval := C01.RQ_parse_valid cfg r.request p hv
      rw [hp] at hval
      have e : (p :: q :: rest).flatten = p ++ (q :: rest).flatten := rfl
      rw [RR.feedHead, e]
      by_cases hfin : (RQ.parse cfg r.request p).1.fail = true ∨ (RQ.parse cfg r.request p).2.1 ≠ []
      · -- rejected inside `p`
        obtain ⟨h1, h2⟩ := RR.receive_head_fail_seq cfg r p (q :: rest).flatten hv hd ⟨hp, hfin⟩
        rw [h2]
        simp [h1]
      · -- `p` ends inside the head
        have hf : (RQ.parse cfg r.request p).1.fail = false := by
          cases h : (RQ.parse cfg r.request p).1.fail
          · rfl
          · exact absurd (Or.inl h) hfin
        have hr : (RQ.parse cfg r.request p).2.1 = [] := by
          cases h : (RQ.parse cfg r.request p).2.1
          · rfl
          · exact absurd (Or.inr (by simp [h])) hfin
        have hd1 := C01.RQ_done_of _ hval hf
        obtain ⟨h1, h2⟩ := RR.receive_head_seq cfg r p (q :: rest).flatten hv hd ⟨hd1, hr⟩
        rw [h2, h1]
        simp only [hval, beq_self_eq_true, Bool.not_false, Bool.and_self, List.isEmpty_nil, if_true]
        apply ih (by simp) _ hval hd1
        intro qs hpre hne hne'
        have := H (p :: qs) (by simpa using hpre) (by simp) (by simpa using hne')
        rw [List.flatten_cons, RQ.parse_seq cfg r.request p qs.flatten hd] at this
        simpa [hd1, hr] using this

/-- the corrected `feedHead_flatten`: for every partition of the bytes into reads such that the request head is
    still unfinished after every non-empty proper prefix of the reads, feeding the parts one by one equals the
    single read of the concatenation -/
theorem RR.feedHead_flatten' (cfg : Cfg) (ps : List Bytes) (hps : ps ≠ []) :
    ∀ (r : RR), r.request.valid = false → RQ.done r.request = false →
      (∀ qs, qs <+: ps → qs ≠ [] → qs ≠ ps →
        RQ.done (RQ.parse cfg r.request qs.flatten).1 = false ∧ (RQ.parse cfg r.request qs.flatten).2.1 = []) →
      RR.feedHead cfg r ps = RR.receive cfg r ps.flatten := by
  intro r hv hd H
  apply RR.feedHead_flatten_open cfg ps hps r hv hd
  intro qs h1 h2 h3
  have hval := C01.RQ_parse_valid cfg r.request qs.flatten hv
  rw [(C01.RQ_not_done _ (H qs h1 h2 h3).1).1] at hval
  exact hval.symm

/-- the hypothesis of `feedHead_flatten'` is satisfiable: a request head cut in the middle of the request line -/
example : RR.feedHead {} {} [b!"GET / HT", b!"TP/1.1\r\nHost: a\r\n\r\n"] =
    RR.receive {} {} (b!"GET / HTTP/1.1\r\nHost: a\r\n\r\n") := by
  apply RR.feedHead_flatten' {} _ (by decide) {} rfl rfl
  intro qs hpre hne hne'
  match qs, hpre, hne, hne' with
  | [], _, hne, _ => exact absurd rfl hne
  | [q], hpre, _, _ =>
    have : q = b!"GET / HT" := (List.cons_prefix_cons.mp hpre).1
    subst this
    decide +kernel
  | [q1, q2], hpre, _, hne' =>
    exfalso
    apply hne'
    have h1 := List.cons_prefix_cons.mp hpre
    have h2 := List.cons_prefix_cons.mp h1.2
    rw [h1.1, h2.1]
  | q1 :: q2 :: q3 :: qs, hpre, _, _ =>
    exfalso
    have h1 := List.cons_prefix_cons.mp hpre
    have h2 := List.cons_prefix_cons.mp h1.2
    have := h2.2
    simp at this

/-! ### the server loop over a list of reads -/

/-- `http_server::receive_handler` applied to successive reads -/
def RR.feed (cfg : Cfg) (r : RR) : List Bytes → RR × List Delivery
  | [] => (r, [])
  | rd :: rest =>
    let x := RR.readLoop cfg (rd.length + 1) r rd []
    let y := RR.feed cfg x.1 rest
    (y.1, x.2.2 ++ y.2)

/-- what a request / chunk handler can observe of the receiver -/
structure View where
  rx : Rx
  method : Bytes
  uri : Bytes
  major : Byte
  minor : Byte
  fields : Fields
  body : Bytes
  isHead : Bool
  chunkSize : Nat
  chunkExt : Bytes
  chunkData : Bytes
  trailers : Fields
deriving DecidableEq, Repr

def viewOf (d : Delivery) : View :=
  let r := d.snapshot
  { rx := d.rx, method := r.request.line.method, uri := r.request.line.uri, major := r.request.line.major,
    minor := r.request.line.minor, fields := r.request.headers.fields, body := r.body, isHead := r.isHead,
    chunkSize := r.chunk.hdr.size, chunkExt := r.chunk.hdr.ext, chunkData := r.chunk.data,
    trailers := r.chunk.trailers.fields }

/-- the deliveries to the request and chunk handlers (INCOMPLETE and the interim EXPECT_CONTINUE are not deliveries
    of a request) -/
def payload (ds : List Delivery) : List View :=
  (ds.filter fun d => d.rx == .valid || d.rx == .chunk).map viewOf

/-- the single-read run is clean: nothing is rejected and every byte is consumed -/
def Clean (cfg : Cfg) (bs : Bytes) : Prop :=
  let x := RR.readLoop cfg (bs.length + 1) {} bs []
  x.2.1 = [] ∧ ∀ d ∈ x.2.2, d.rx ≠ .invalid

/-- C01 (fragmentation part): whatever the stream of requests, if it is accepted when it arrives in a single read
    then every division of its bytes into successive non-empty reads delivers exactly the same requests and chunks,
    in the same order, with the same method, target, version, header fields, body, chunk data, extensions and
    trailers. -/
def C01_frag_statement : Prop :=
  ∀ (cfg : Cfg) (bs : Bytes), Clean cfg bs →
    ∀ (ps : List Bytes), ps.flatten = bs → (∀ p ∈ ps, p ≠ []) →
      payload (RR.feed cfg {} ps).2 = payload (RR.feed cfg {} [bs]).2

end Via

namespace Via

namespace C01

/-! ### `rx_chunk::parse` returns `true` exactly when it sets `valid` -/

theorem CK_lf_valid (k : CK) (x : Bytes) (hv : k.valid = false) :
    (Cmp.CK_lf k x).1.valid = (Cmp.CK_lf k x).2.2 := by
  cases x with
  | nil => exact hv
  | cons d ds =>
    simp only [Cmp.CK_lf]
    split
    · exact hv
    · rfl

theorem CK_tail_valid (cfg : Cfg) (k : CK) (x : Bytes) (hv : k.valid = false) :
    (Cmp.CK_tail cfg k x).1.valid = (Cmp.CK_tail cfg k x).2.2 := by
  cases x with
  | nil => exact hv
  | cons c cs =>
    simp only [Cmp.CK_tail]
    split
    · exact CK_lf_valid _ _ hv
    · split
      · exact hv
      · exact CK_lf_valid _ _ hv

theorem CK_body_valid (cfg : Cfg) (k : CK) (x : Bytes) (hv : k.valid = false) :
    (Cmp.CK_body cfg k x).1.valid = (Cmp.CK_body cfg k x).2.2 := by
  unfold Cmp.CK_body
  split
  · dsimp only
    split
    · exact hv
    · rfl
  · rw [Cmp.CK_parseData_eq]
    split
    · exact CK_tail_valid cfg _ _ hv
    · exact hv

theorem CK_parse_valid (cfg : Cfg) (k : CK) (x : Bytes) (hv : k.valid = false) :
    (CK.parse cfg k x).1.valid = (CK.parse cfg k x).2.2 := by
  rw [Cmp.CK_parse_eq]
  unfold Cmp.seq2
  split
  · exact CK_body_valid cfg k x hv
  · dsimp only
    split
    · exact CK_body_valid cfg _ _ hv
    · exact hv

/-! ### the chunked branch in normal form -/

/-- the previous chunk is dropped when a new one starts -/
def reset (r : RR) : RR := if r.chunk.valid then { r with chunk := {} } else r

/-- parse chunk bytes and classify the result -/
def chunkParse (cfg : Cfg) (r : RR) (buf : Bytes) : RR × Bytes × Rx :=
  let p := CK.parse cfg r.chunk buf
  let r := { r with chunk := p.1 }
  if !p.2.2 && (!p.2.1.isEmpty || r.chunk.fail) then ({ r with code := 400 }.clear, p.2.1, .invalid)
  else if r.chunk.valid then
    if cfg.concatChunks then
      if r.chunk.isLast then (r, p.2.1, .valid)
      else if r.body.length + r.chunk.data.length > cfg.maxContent then
        ({ r with code := 413 }.clear, p.2.1, .invalid)
      else ({ r with body := r.body ++ r.chunk.data }, p.2.1, .incomplete)
    else (r, p.2.1, .chunk)
  else (r, p.2.1, .incomplete)

theorem receiveChunk_eq (cfg : Cfg) (r : RR) (rp : Bool) (buf : Bytes) :
    RR.receiveChunk cfg r rp buf =
      if rp && (r.request.expectContinue && !r.continueSent) then
        ({ reset r with code := 100 }, buf, .expectContinue)
      else if rp && !cfg.concatChunks then (reset r, buf, .valid)
      else chunkParse cfg (reset r) buf := by
  have h1 : (reset r).request = r.request := by unfold reset; split <;> rfl
  have h2 : (reset r).continueSent = r.continueSent := by unfold reset; split <;> rfl
  unfold RR.receiveChunk
  change (match (if rp then
      if (reset r).request.expectContinue && !(reset r).continueSent then some Rx.expectContinue
      else if !cfg.concatChunks then some .valid else none
    else none : Option Rx) with
    | some .expectContinue => ({ reset r with code := 100 }, buf, Rx.expectContinue)
    | some x => (reset r, buf, x)
    | none => chunkParse cfg (reset r) buf) = _
  rw [h1, h2]
  cases rp <;> cases (r.request.expectContinue && !r.continueSent) <;> cases cfg.concatChunks <;> rfl

theorem reset_facts (r : RR) : (reset r).request = r.request ∧ (reset r).body = r.body ∧
    (reset r).continueSent = r.continueSent ∧ (reset r).isHead = r.isHead ∧ (reset r).code = r.code ∧
    (reset r).chunk.valid = false ∧
    ((r.chunk.valid = false → CK.done r.chunk = false) → CK.done (reset r).chunk = false) := by
  unfold reset
  split
  · exact ⟨rfl, rfl, rfl, rfl, rfl, rfl, fun _ => rfl⟩
  · rename_i h
    have : r.chunk.valid = false := by simpa using h
    exact ⟨rfl, rfl, rfl, rfl, rfl, this, fun h => h this⟩


theorem CK_fail_of_done (k : CK) (hv : k.valid = false) (hd : CK.done k = true) : CK.fail k = true := by
  simp only [CK.done, hv, Bool.false_or] at hd
  simpa [CK.fail, MH.fail] using hd

theorem CK_done_of (k : CK) (hv : k.valid = false) (hf : CK.fail k = false) : CK.done k = false := by
  simp only [CK.fail, MH.fail, Bool.or_eq_false_iff] at hf
  simp [CK.done, hv, hf]

theorem chunkParse_fin (cfg : Cfg) (r : RR) (x b : Bytes) (hv : r.chunk.valid = false)
    (hd : CK.done r.chunk = false)
    (hc : (CK.done (CK.parse cfg r.chunk x).1 || !(CK.parse cfg r.chunk x).2.1.isEmpty) = true) :
    chunkParse cfg r (x ++ b) =
      ((chunkParse cfg r x).1, (chunkParse cfg r x).2.1 ++ b, (chunkParse cfg r x).2.2) := by
  have law := CK.parse_seq cfg r.chunk x b hd
  have hval := CK_parse_valid cfg r.chunk x hv
  simp only [hc, if_true] at law
  unfold chunkParse
  rw [law]
  generalize CK.parse cfg r.chunk x = P at hc hval
  obtain ⟨k1, rest, bo⟩ := P
  dsimp only at hc hval ⊢
  have hcond : (!bo && (!(rest ++ b).isEmpty || k1.fail)) = (!bo && (!rest.isEmpty || k1.fail)) := by
    cases bo with
    | true => rfl
    | false =>
      cases rest with
      | cons c cs => simp
      | nil =>
        have : CK.done k1 = true := by simpa using hc
        simp [CK_fail_of_done k1 hval this]
  rw [hcond]
  repeat' split
  all_goals rfl

theorem chunkParse_cont (cfg : Cfg) (r : RR) (x b : Bytes) (hv : r.chunk.valid = false)
    (hd : CK.done r.chunk = false)
    (hc : (CK.done (CK.parse cfg r.chunk x).1 || !(CK.parse cfg r.chunk x).2.1.isEmpty) = false) :
    chunkParse cfg r x = ({ r with chunk := (CK.parse cfg r.chunk x).1 }, [], .incomplete) ∧
    (CK.parse cfg r.chunk x).1.valid = false ∧ CK.done (CK.parse cfg r.chunk x).1 = false ∧
    chunkParse cfg r (x ++ b) = chunkParse cfg { r with chunk := (CK.parse cfg r.chunk x).1 } b := by
  have law := CK.parse_seq cfg r.chunk x b hd
  have hval := CK_parse_valid cfg r.chunk x hv
  simp only [hc, Bool.false_eq_true, if_false] at law
  simp only [Bool.or_eq_false_iff, Bool.not_eq_false', List.isEmpty_iff] at hc
  obtain ⟨hc1, hc2⟩ := hc
  have hv1 : (CK.parse cfg r.chunk x).1.valid = false := by
    simp only [CK.done, Bool.or_eq_false_iff] at hc1
    exact hc1.1.1
  have hf1 : (CK.parse cfg r.chunk x).1.fail = false := by
    simp only [CK.done, Bool.or_eq_false_iff] at hc1
    simp [CK.fail, MH.fail, hc1]
  refine ⟨?_, hv1, hc1, ?_⟩
  · unfold chunkParse
    rw [hv1] at hval
    simp [← hval, hc2, hf1, hv1]
  · unfold chunkParse
    rw [law]

/-! ### facts about the Content-Length branch -/

theorem pre_facts (r : RR) : (pre r).request = r.request ∧ (pre r).chunk = r.chunk ∧ (pre r).body = r.body ∧
    (pre r).continueSent = r.continueSent ∧ (pre r).isHead = r.isHead := by
  unfold pre
  split <;> exact ⟨rfl, rfl, rfl, rfl, rfl⟩

theorem finish_mod (cfg : Cfg) (r : RR) (c : Nat) (s : Bool) :
    finish cfg { r with code := c, continueSent := s } = { finish cfg r with code := c, continueSent := s } := by
  unfold finish
  dsimp only
  split <;> rfl

theorem accum_mod (cfg : Cfg) (r : RR) (buf : Bytes) (c : Nat) (s : Bool) :
    accum cfg { r with code := c, continueSent := s } buf =
      ({ (accum cfg r buf).1 with code := c, continueSent := s }, (accum cfg r buf).2) := by
  unfold accum
  dsimp only
  split
  · have := finish_mod cfg
      { r with body := r.body ++ buf.take (takeN r.request.headers.contentLength r.body.length buf.length) } c s
    exact Prod.ext this rfl
  · rfl

theorem finish_facts (cfg : Cfg) (r : RR) : (finish cfg r).request.valid = r.request.valid ∧
    (finish cfg r).request.headers = r.request.headers ∧
    (finish cfg r).continueSent = r.continueSent ∧ (finish cfg r).chunk = r.chunk ∧
    (finish cfg r).body = r.body := by
  unfold finish
  dsimp only
  split <;> exact ⟨rfl, rfl, rfl, rfl, rfl⟩

theorem accum_facts (cfg : Cfg) (r : RR) (buf : Bytes) : (accum cfg r buf).1.request.valid = r.request.valid ∧
    (accum cfg r buf).1.request.headers = r.request.headers ∧
    (accum cfg r buf).1.continueSent = r.continueSent ∧ (accum cfg r buf).1.chunk = r.chunk ∧
    ((accum cfg r buf).2.2 = .valid ∨ (accum cfg r buf).2.2 = .incomplete) := by
  unfold accum
  dsimp only
  split
  · obtain ⟨h1, h2, h3, h4, _⟩ := finish_facts cfg
      { r with body := r.body ++ List.take (takeN r.request.headers.contentLength r.body.length buf.length) buf }
    exact ⟨h1, h2, h3, h4, Or.inl rfl⟩
  · exact ⟨rfl, rfl, rfl, rfl, Or.inr rfl⟩

/-- a Content-Length body being received (head complete in an earlier call) -/
theorem receive_acc (cfg : Cfg) (r : RR) (buf : Bytes) (hv : r.request.valid = true)
    (hm : r.request.missingHost = false) (hc : r.request.headers.isChunked = false)
    (ht : r.request.isTrace = false) (hcl : r.request.headers.contentLength > 0)
    (h413 : ¬ r.request.headers.contentLength > (cfg.maxContent : Int)) :
    RR.receive cfg r buf = accum cfg r buf := by
  rw [receive_valid cfg r buf hv]
  unfold post
  rw [receiveBody_eq]
  have : ¬ r.request.headers.contentLength < 0 := by omega
  simp [hm, hc, ht, hcl, h413, this, pre]

/-! ### the server loop without the `used` bookkeeping -/

/-- a delivery without the byte count -/
abbrev Ev := Rx × RR

def ev (d : Delivery) : Ev := (d.rx, d.snapshot)

def viewE (e : Ev) : View := viewOf { rx := e.1, used := 0, snapshot := e.2 }

def pay (es : List Ev) : List View :=
  (es.filter fun e => e.1 == .valid || e.1 == .chunk).map viewE

def okE (es : List Ev) : Prop := ∀ e ∈ es, e.1 ≠ .invalid

theorem payload_eq_pay (ds : List Delivery) : payload ds = pay (ds.map ev) := by
  simp only [payload, pay, List.filter_map, List.map_map]
  rfl

theorem pay_append (xs ys : List Ev) : pay (xs ++ ys) = pay xs ++ pay ys := by
  simp [pay]

theorem pay_cons (e : Ev) (xs : List Ev) : pay (e :: xs) = pay [e] ++ pay xs :=
  pay_append [e] xs

theorem okE_cons (e : Ev) (xs : List Ev) : okE (e :: xs) ↔ e.1 ≠ .invalid ∧ okE xs := by
  simp [okE]

theorem okE_append (xs ys : List Ev) : okE (xs ++ ys) ↔ okE xs ∧ okE ys := by
  simp only [okE, List.mem_append]
  constructor
  · intro h; exact ⟨fun e he => h e (Or.inl he), fun e he => h e (Or.inr he)⟩
  · rintro ⟨h1, h2⟩ e (he | he)
    · exact h1 e he
    · exact h2 e he

/-- `RR.readLoop` without accumulator and byte counts -/
def loop (cfg : Cfg) : Nat → RR → Bytes → RR × Bytes × List Ev
  | 0, r, buf => (r, buf, [])
  | fuel + 1, r, buf =>
    if buf.isEmpty then (r, buf, [])
    else
      let p := RR.receive cfg r buf
      let r' := RR.afterResult cfg p.1 p.2.2
      if p.2.2 == .invalid then (r', p.2.1, [(p.2.2, p.1)])
      else
        let y := loop cfg fuel r' p.2.1
        (y.1, y.2.1, (p.2.2, p.1) :: y.2.2)

theorem readLoop_loop (cfg : Cfg) : ∀ (fuel : Nat) (r : RR) (buf : Bytes) (acc : List Delivery),
    (RR.readLoop cfg fuel r buf acc).1 = (loop cfg fuel r buf).1 ∧
    (RR.readLoop cfg fuel r buf acc).2.1 = (loop cfg fuel r buf).2.1 ∧
    (RR.readLoop cfg fuel r buf acc).2.2.map ev = acc.reverse.map ev ++ (loop cfg fuel r buf).2.2 := by
  intro fuel
  induction fuel with
  | zero => intro r buf acc; simp [RR.readLoop, loop]
  | succ fuel ih =>
    intro r buf acc
    simp only [RR.readLoop, loop]
    split
    · simp
    · split
      · simp [ev]
      · obtain ⟨h1, h2, h3⟩ := ih (RR.afterResult cfg (RR.receive cfg r buf).1 (RR.receive cfg r buf).2.2)
          (RR.receive cfg r buf).2.1
          ({ rx := (RR.receive cfg r buf).2.2, used := buf.length - (RR.receive cfg r buf).2.1.length,
             snapshot := (RR.receive cfg r buf).1 } :: acc)
        refine ⟨h1, h2, ?_⟩
        rw [h3]
        simp [ev]

/-- the loop with the fuel the server gives it -/
def run (cfg : Cfg) (r : RR) (buf : Bytes) : RR × Bytes × List Ev := loop cfg (buf.length + 1) r buf

/-- the reads one after the other -/
def feedE (cfg : Cfg) (r : RR) : List Bytes → RR × List Ev
  | [] => (r, [])
  | rd :: rest =>
    let x := run cfg r rd
    let y := feedE cfg x.1 rest
    (y.1, x.2.2 ++ y.2)

theorem feed_feedE (cfg : Cfg) (ps : List Bytes) : ∀ r : RR,
    (RR.feed cfg r ps).1 = (feedE cfg r ps).1 ∧ (RR.feed cfg r ps).2.map ev = (feedE cfg r ps).2 := by
  induction ps with
  | nil => intro r; simp [RR.feed, feedE]
  | cons p ps ih =>
    intro r
    obtain ⟨h1, h2, h3⟩ := readLoop_loop cfg (p.length + 1) r p []
    simp only [RR.feed, feedE, run]
    rw [h1]
    obtain ⟨i1, i2⟩ := ih (loop cfg (p.length + 1) r p).1
    refine ⟨i1, ?_⟩
    rw [List.map_append, h3, i2]
    simp

/-! ### the reachable-state invariant -/

def Inv (r : RR) : Prop :=
  RR.Ok r ∧
  (r.request.valid = false → RQ.done r.request = false ∧ r.continueSent = false) ∧
  (r.chunk.valid = false → CK.done r.chunk = false)

theorem inv_init : Inv {} := by
  refine ⟨RR.ok_init, ?_, ?_⟩
  · intro _; exact ⟨rfl, rfl⟩
  · intro _; rfl

theorem chunkParse_shape (cfg : Cfg) (r : RR) (buf : Bytes) (hv : r.chunk.valid = false) :
    (chunkParse cfg r buf).2.2 = .invalid ∨
    ((chunkParse cfg r buf).1.request = r.request ∧
     ((chunkParse cfg r buf).1.chunk.valid = false → CK.done (chunkParse cfg r buf).1.chunk = false)) := by
  have hval := CK_parse_valid cfg r.chunk buf hv
  unfold chunkParse
  dsimp only
  by_cases h1 : (!(CK.parse cfg r.chunk buf).2.2 &&
      (!(CK.parse cfg r.chunk buf).2.1.isEmpty || (CK.parse cfg r.chunk buf).1.fail)) = true
  · rw [if_pos h1]; exact Or.inl rfl
  · rw [if_neg h1]
    by_cases h2 : (CK.parse cfg r.chunk buf).1.valid = true
    · rw [if_pos h2]
      repeat' split
      all_goals first
        | exact Or.inl rfl
        | exact Or.inr ⟨rfl, fun h => by rw [h2] at h; cases h⟩
    · rw [if_neg h2]
      right
      refine ⟨rfl, fun _ => ?_⟩
      have h2' : (CK.parse cfg r.chunk buf).1.valid = false := by simpa using h2
      rw [h2'] at hval
      have hf : (CK.parse cfg r.chunk buf).1.fail = false := by
        cases hf : (CK.parse cfg r.chunk buf).1.fail
        · rfl
        · exfalso; apply h1; simp [← hval, hf]
      exact CK_done_of _ h2' hf

theorem post_shape (cfg : Cfg) (r : RR) (rp : Bool) (buf : Bytes) (hv : r.request.valid = true)
    (hC : r.chunk.valid = false → CK.done r.chunk = false) :
    (post cfg r rp buf).2.2 = .invalid ∨
    ((post cfg r rp buf).1.request.valid = true ∧
     ((post cfg r rp buf).1.chunk.valid = false → CK.done (post cfg r rp buf).1.chunk = false)) := by
  unfold post
  split
  · exact Or.inl rfl
  · split
    · rw [receiveBody_eq]
      dsimp only
      obtain ⟨p1, p2, _⟩ := pre_facts r
      repeat' split
      all_goals first
        | exact Or.inl rfl
        | exact Or.inr ⟨by rw [p1]; exact hv, by rw [p2]; exact hC⟩
        | skip
      obtain ⟨a1, _, _, a4, _⟩ := accum_facts cfg (pre r) buf
      exact Or.inr ⟨by rw [a1, p1]; exact hv, by rw [a4, p2]; exact hC⟩
    · rw [receiveChunk_eq]
      obtain ⟨f1, _, _, _, _, f6, f7⟩ := reset_facts r
      split
      · exact Or.inr ⟨by rw [f1]; exact hv, fun _ => f7 hC⟩
      · split
        · exact Or.inr ⟨by rw [f1]; exact hv, fun _ => f7 hC⟩
        · rcases chunkParse_shape cfg (reset r) buf f6 with h | ⟨h1, h2⟩
          · exact Or.inl h
          · exact Or.inr ⟨by rw [h1, f1]; exact hv, h2⟩

/-- what the invariant needs from a `receive` result -/
theorem receive_shape (cfg : Cfg) (r : RR) (buf : Bytes) (h : Inv r) :
    (RR.receive cfg r buf).2.2 = .invalid ∨
    (((RR.receive cfg r buf).1.request.valid = false →
        RQ.done (RR.receive cfg r buf).1.request = false ∧ (RR.receive cfg r buf).1.continueSent = false ∧
        (RR.receive cfg r buf).2.2 = .incomplete) ∧
     ((RR.receive cfg r buf).1.chunk.valid = false → CK.done (RR.receive cfg r buf).1.chunk = false)) := by
  obtain ⟨_, hA, hC⟩ := h
  by_cases hv : r.request.valid = true
  · rw [receive_valid cfg r buf hv]
    rcases post_shape cfg r false buf hv hC with h | ⟨h1, h2⟩
    · exact Or.inl h
    · exact Or.inr ⟨fun h => (by rw [h1] at h; cases h), h2⟩
  · have hv' : r.request.valid = false := by simpa using hv
    obtain ⟨hd, hcs⟩ := hA hv'
    have hval := RQ_parse_valid cfg r.request buf hv'
    rw [receive_head cfg r buf hv']
    dsimp only
    split
    · rename_i hbo
      split
      · exact Or.inl rfl
      · rename_i hfin
        right
        rw [hbo] at hval
        have hf : (RQ.parse cfg r.request buf).1.fail = false := by
          cases h : (RQ.parse cfg r.request buf).1.fail
          · rfl
          · exact absurd (Or.inr h) hfin
        exact ⟨fun _ => ⟨RQ_done_of _ hval hf, hcs, rfl⟩, hC⟩
    · rename_i hbo
      have hbo' : (RQ.parse cfg r.request buf).2.2 = true := by simpa using hbo
      rw [hbo'] at hval
      rcases post_shape cfg { r with request := (RQ.parse cfg r.request buf).1 } true
        (RQ.parse cfg r.request buf).2.1 hval hC with h | ⟨h1, h2⟩
      · exact Or.inl h
      · exact Or.inr ⟨fun h => (by rw [h1] at h; cases h), h2⟩

theorem inv_clear (r : RR) : Inv r.clear :=
  ⟨C05.RR_ok_clear r, fun _ => ⟨rfl, rfl⟩, fun _ => rfl⟩

theorem inv_step (cfg : Cfg) (r : RR) (buf : Bytes) (h : Inv r) :
    Inv (RR.afterResult cfg (RR.receive cfg r buf).1 (RR.receive cfg r buf).2.2) := by
  have hok := RR.ok_step cfg r buf h.1
  have hsh := receive_shape cfg r buf h
  generalize RR.receive cfg r buf = p at hok hsh
  obtain ⟨s, rest, x⟩ := p
  dsimp only at hok hsh ⊢
  rcases hsh with hsh | ⟨hA, hC⟩
  · subst hsh; exact inv_clear s
  · cases x with
    | invalid => exact inv_clear s
    | expectContinue =>
      refine ⟨hok, fun hv => ?_, hC⟩
      obtain ⟨_, _, h3⟩ := hA hv
      cases h3
    | incomplete => exact ⟨hok, fun hv => ⟨(hA hv).1, (hA hv).2.1⟩, hC⟩
    | valid =>
      simp only [RR.afterResult] at hok ⊢
      split
      · exact inv_clear s
      · rename_i hc
        simp only [hc] at hok
        exact ⟨hok, fun hv => ⟨(hA hv).1, (hA hv).2.1⟩, hC⟩
    | chunk =>
      simp only [RR.afterResult] at hok ⊢
      split
      · exact inv_clear s
      · rename_i hc
        simp only [hc] at hok
        exact ⟨hok, fun hv => ⟨(hA hv).1, (hA hv).2.1⟩, hC⟩

/-- enough fuel is as good as any -/
theorem loop_fuel (cfg : Cfg) : ∀ (f f' : Nat) (r : RR) (buf : Bytes), Inv r →
    buf.length < f → buf.length < f' → loop cfg f r buf = loop cfg f' r buf := by
  intro f
  induction f with
  | zero => intro f' r buf _ h; omega
  | succ f ih =>
    intro f' r buf hI h1 h2
    cases f' with
    | zero => omega
    | succ f' =>
      simp only [loop]
      split
      · rfl
      · rename_i hne
        split
        · rfl
        · rename_i hinv
          have hne' : buf ≠ [] := by intro e; simp [e] at hne
          have hp := RR.receive_progress cfg r buf hI.1 hne'
          have hlt : (RR.receive cfg r buf).2.1.length < buf.length := by
            rcases hp with hp | hp
            · simp [hp] at hinv
            · exact hp
          rw [ih f' _ _ (inv_step cfg r buf hI) (by omega) (by omega)]

theorem run_nil (cfg : Cfg) (r : RR) : run cfg r [] = (r, [], []) := by
  simp [run, loop]

def consE (e : Ev) (x : RR × Bytes × List Ev) : RR × Bytes × List Ev := (x.1, x.2.1, e :: x.2.2)

/-- a `receive` result followed by the rest of the loop -/
def stepRun (cfg : Cfg) (p : RR × Bytes × Rx) : RR × Bytes × List Ev :=
  consE (p.2.2, p.1) (run cfg (RR.afterResult cfg p.1 p.2.2) p.2.1)

theorem receive_lt (cfg : Cfg) (r : RR) (buf : Bytes) (hI : Inv r) (hne : buf ≠ [])
    (hinv : (RR.receive cfg r buf).2.2 ≠ .invalid) : (RR.receive cfg r buf).2.1.length < buf.length := by
  rcases RR.receive_progress cfg r buf hI.1 hne with hp | hp
  · exact absurd hp hinv
  · exact hp

theorem run_cons (cfg : Cfg) (r : RR) (buf : Bytes) (hI : Inv r) (hne : buf ≠ [])
    (hinv : (RR.receive cfg r buf).2.2 ≠ .invalid) : run cfg r buf = stepRun cfg (RR.receive cfg r buf) := by
  have hlt := receive_lt cfg r buf hI hne hinv
  have he : buf.isEmpty = false := by cases buf <;> simp_all
  have hb : ((RR.receive cfg r buf).2.2 == Rx.invalid) = false := by
    cases h : (RR.receive cfg r buf).2.2 <;> simp_all
  simp only [run, stepRun, consE]
  rw [loop]
  simp only [he, Bool.false_eq_true, if_false, hb]
  rw [loop_fuel cfg buf.length ((RR.receive cfg r buf).2.1.length + 1) _ _ (inv_step cfg r buf hI) hlt
    (Nat.lt_succ_self _)]

theorem run_cons_invalid (cfg : Cfg) (r : RR) (buf : Bytes) (hne : buf ≠ [])
    (hinv : (RR.receive cfg r buf).2.2 = .invalid) : ¬ okE (run cfg r buf).2.2 := by
  have he : buf.isEmpty = false := by cases buf <;> simp_all
  simp only [run, loop, he, Bool.false_eq_true, if_false, hinv, beq_self_eq_true, if_true]
  intro h
  exact h _ (List.mem_singleton.mpr rfl) rfl

theorem run_inv (cfg : Cfg) : ∀ (n : Nat) (r : RR) (buf : Bytes), buf.length ≤ n → Inv r →
    Inv (run cfg r buf).1 := by
  intro n
  induction n with
  | zero =>
    intro r buf hn hI
    have : buf = [] := List.length_eq_zero_iff.mp (by omega)
    subst this
    rw [run_nil]; exact hI
  | succ n ih =>
    intro r buf hn hI
    by_cases hne : buf = []
    · subst hne; rw [run_nil]; exact hI
    · by_cases hinv : (RR.receive cfg r buf).2.2 = .invalid
      · have he : buf.isEmpty = false := by cases buf <;> simp_all
        simp only [run, loop, he, Bool.false_eq_true, if_false, hinv, beq_self_eq_true, if_true]
        have := inv_step cfg r buf hI
        rw [hinv] at this
        exact this
      · rw [run_cons cfg r buf hI hne hinv]
        have hlt := receive_lt cfg r buf hI hne hinv
        exact ih _ _ (by omega) (inv_step cfg r buf hI)


/-! ### receiver states that differ only in the response code and the 100-continue flag -/

def Sim (r r' : RR) : Prop :=
  r.request = r'.request ∧ r.chunk = r'.chunk ∧ r.body = r'.body ∧ r.isHead = r'.isHead ∧
  (r.request.valid = false → r.continueSent = r'.continueSent)

theorem Sim.rfl' (r : RR) : Sim r r := ⟨rfl, rfl, rfl, rfl, fun _ => rfl⟩

theorem Sim.elim {r r' : RR} (h : Sim r r') :
    ∃ c s, r' = { r with code := c, continueSent := s } ∧ (r.request.valid = false → r.continueSent = s) := by
  obtain ⟨h1, h2, h3, h4, h5⟩ := h
  cases r; cases r'
  simp only at h1 h2 h3 h4 h5
  subst h1 h2 h3 h4
  exact ⟨_, _, rfl, h5⟩

theorem sim_pre (r r' : RR) (h : Sim r r') : Sim (pre r) (pre r') := by
  obtain ⟨c, s, rfl, hs⟩ := h.elim
  unfold pre
  dsimp only
  split <;> exact ⟨rfl, rfl, rfl, rfl, hs⟩

theorem accum_sim (cfg : Cfg) (r r' : RR) (buf : Bytes) (h : Sim r r') :
    Sim (accum cfg r buf).1 (accum cfg r' buf).1 ∧ (accum cfg r buf).2 = (accum cfg r' buf).2 := by
  obtain ⟨c, s, rfl, hs⟩ := h.elim
  rw [accum_mod cfg r buf c s]
  obtain ⟨h1, _, h3, _⟩ := accum_facts cfg r buf
  refine ⟨⟨rfl, rfl, rfl, rfl, ?_⟩, rfl⟩
  intro hv
  rw [h1] at hv
  rw [h3]
  exact hs hv

theorem reset_mod (r : RR) (c : Nat) (s : Bool) :
    reset { r with code := c, continueSent := s } = { reset r with code := c, continueSent := s } := by
  unfold reset
  dsimp only
  split <;> rfl

theorem chunkParse_sim (cfg : Cfg) (r : RR) (buf : Bytes) (c : Nat) (s : Bool)
    (hs : r.request.valid = false → r.continueSent = s) :
    Sim (chunkParse cfg r buf).1 (chunkParse cfg { r with code := c, continueSent := s } buf).1 ∧
    (chunkParse cfg r buf).2 = (chunkParse cfg { r with code := c, continueSent := s } buf).2 := by
  unfold chunkParse
  dsimp only
  by_cases h1 : (!(CK.parse cfg r.chunk buf).2.2 &&
      (!(CK.parse cfg r.chunk buf).2.1.isEmpty || (CK.parse cfg r.chunk buf).1.fail)) = true
  · rw [if_pos h1, if_pos h1]
    exact ⟨Sim.rfl' _, rfl⟩
  · rw [if_neg h1, if_neg h1]
    by_cases h2 : (CK.parse cfg r.chunk buf).1.valid = true
    · rw [if_pos h2, if_pos h2]
      by_cases h3 : cfg.concatChunks = true
      · rw [if_pos h3, if_pos h3]
        by_cases h4 : (CK.parse cfg r.chunk buf).1.isLast = true
        · rw [if_pos h4, if_pos h4]
          exact ⟨⟨rfl, rfl, rfl, rfl, hs⟩, rfl⟩
        · rw [if_neg h4, if_neg h4]
          by_cases h5 : r.body.length + (CK.parse cfg r.chunk buf).1.data.length > cfg.maxContent
          · rw [if_pos h5, if_pos h5]
            exact ⟨Sim.rfl' _, rfl⟩
          · rw [if_neg h5, if_neg h5]
            exact ⟨⟨rfl, rfl, rfl, rfl, hs⟩, rfl⟩
      · rw [if_neg h3, if_neg h3]
        exact ⟨⟨rfl, rfl, rfl, rfl, hs⟩, rfl⟩
    · rw [if_neg h2, if_neg h2]
      exact ⟨⟨rfl, rfl, rfl, rfl, hs⟩, rfl⟩

theorem post_sim (cfg : Cfg) (r : RR) (rp : Bool) (buf : Bytes) (c : Nat) (s : Bool)
    (hs : r.request.valid = false → r.continueSent = s) (hrp : rp = true → r.continueSent = s) :
    Sim (post cfg r rp buf).1 (post cfg { r with code := c, continueSent := s } rp buf).1 ∧
    (post cfg r rp buf).2 = (post cfg { r with code := c, continueSent := s } rp buf).2 := by
  have hcond : ∀ (t : Bool), (rp && t && !r.continueSent) = (rp && t && !s) := by
    intro t
    cases rp with
    | false => rfl
    | true => rw [hrp rfl]
  unfold post
  dsimp only
  by_cases hm : r.request.missingHost = true
  · rw [if_pos hm, if_pos hm]
    exact ⟨⟨rfl, rfl, rfl, rfl, hs⟩, rfl⟩
  rw [if_neg hm, if_neg hm]
  by_cases hc : (!r.request.headers.isChunked) = true
  · rw [if_pos hc, if_pos hc, receiveBody_eq, receiveBody_eq]
    dsimp only
    have hsim : Sim r { r with code := c, continueSent := s } := ⟨rfl, rfl, rfl, rfl, hs⟩
    have hp := sim_pre _ _ hsim
    split
    · exact ⟨Sim.rfl' _, rfl⟩
    · split
      · exact ⟨Sim.rfl' _, rfl⟩
      · split
        · exact ⟨Sim.rfl' _, rfl⟩
        · have h4 := hcond (decide ((buf.length : Int) < r.request.headers.contentLength) &&
            r.request.expectContinue)
          simp only [← Bool.and_assoc] at h4
          rw [← h4]
          split
          · obtain ⟨p1, p2, p3, p4, p5⟩ := hp
            exact ⟨⟨p1, p2, p3, p4, p5⟩, rfl⟩
          · exact accum_sim cfg _ _ buf hp
  · rw [if_neg hc, if_neg hc, receiveChunk_eq, receiveChunk_eq]
    dsimp only
    rw [reset_mod r c s]
    obtain ⟨f1, _, f3, _⟩ := reset_facts r
    have hs' : (reset r).request.valid = false → (reset r).continueSent = s := by
      rw [f1, f3]; exact hs
    have h4 : (rp && (r.request.expectContinue && !r.continueSent)) =
        (rp && (r.request.expectContinue && !s)) := by
      cases rp with
      | false => rfl
      | true => rw [hrp rfl]
    rw [← h4]
    split
    · exact ⟨⟨rfl, rfl, rfl, rfl, hs'⟩, rfl⟩
    · split
      · exact ⟨⟨rfl, rfl, rfl, rfl, hs'⟩, rfl⟩
      · exact chunkParse_sim cfg (reset r) buf c s hs'

theorem receive_sim (cfg : Cfg) (r r' : RR) (buf : Bytes) (h : Sim r r') :
    Sim (RR.receive cfg r buf).1 (RR.receive cfg r' buf).1 ∧
    (RR.receive cfg r buf).2 = (RR.receive cfg r' buf).2 := by
  obtain ⟨c, s, rfl, hs⟩ := h.elim
  by_cases hv : r.request.valid = true
  · rw [receive_valid cfg r buf hv, receive_valid cfg { r with code := c, continueSent := s } buf hv]
    exact post_sim cfg r false buf c s hs (fun h => by cases h)
  · have hv' : r.request.valid = false := by simpa using hv
    have hcs := hs hv'
    subst hcs
    rw [receive_head cfg r buf hv', receive_head cfg { r with code := c, continueSent := r.continueSent } buf hv']
    dsimp only
    split
    · split
      · exact ⟨Sim.rfl' _, rfl⟩
      · exact ⟨⟨rfl, rfl, rfl, rfl, fun _ => rfl⟩, rfl⟩
    · exact post_sim cfg { r with request := (RQ.parse cfg r.request buf).1 } true
        (RQ.parse cfg r.request buf).2.1 c r.continueSent (fun _ => rfl) (fun _ => rfl)

theorem after_sim (cfg : Cfg) (s s' : RR) (x : Rx) (h : Sim s s') :
    Sim (RR.afterResult cfg s x) (RR.afterResult cfg s' x) := by
  obtain ⟨h1, h2, h3, h4, h5⟩ := h
  cases x <;> simp only [RR.afterResult]
  · exact Sim.rfl' _
  · exact ⟨h1, h2, h3, h4, fun _ => rfl⟩
  · exact ⟨h1, h2, h3, h4, h5⟩
  · rw [h1]; split
    · exact Sim.rfl' _
    · exact ⟨h1, h2, h3, h4, h5⟩
  · rw [h2]; split
    · exact Sim.rfl' _
    · exact ⟨h1, h2, h3, h4, h5⟩

/-- two runs with the same observable behaviour -/
def REq (x y : RR × Bytes × List Ev) : Prop :=
  Sim x.1 y.1 ∧ x.2.1 = y.2.1 ∧ pay x.2.2 = pay y.2.2 ∧ (okE x.2.2 ↔ okE y.2.2)

theorem REq.rfl' (x : RR × Bytes × List Ev) : REq x x := ⟨Sim.rfl' _, rfl, rfl, Iff.rfl⟩

theorem viewE_sim (x : Rx) (s s' : RR) (h : Sim s s') : viewE (x, s) = viewE (x, s') := by
  obtain ⟨h1, h2, h3, h4, _⟩ := h
  simp only [viewE, viewOf, h1, h2, h3, h4]

theorem pay_single_sim (x : Rx) (s s' : RR) (h : Sim s s') : pay [(x, s)] = pay [(x, s')] := by
  simp only [pay, List.filter_cons, List.filter_nil]
  split
  · simp only [List.map_cons, List.map_nil, viewE_sim x s s' h]
  · rfl

theorem REq_consE (x : Rx) (s s' : RR) (y y' : RR × Bytes × List Ev) (hs : Sim s s') (h : REq y y') :
    REq (consE (x, s) y) (consE (x, s') y') := by
  obtain ⟨h1, h2, h3, h4⟩ := h
  refine ⟨h1, h2, ?_, ?_⟩
  · simp only [consE]
    rw [pay_cons, pay_cons (x, s'), h3, pay_single_sim x s s' hs]
  · simp only [consE, okE_cons, h4]

/-- an INCOMPLETE or EXPECT_CONTINUE result is not a delivery -/
theorem REq_skip (e : Ev) (x y : RR × Bytes × List Ev) (he : e.1 = .incomplete ∨ e.1 = .expectContinue)
    (h : REq x y) : REq x (consE e y) := by
  obtain ⟨h1, h2, h3, h4⟩ := h
  refine ⟨h1, h2, ?_, ?_⟩
  · simp only [consE]
    rw [pay_cons, h3]
    rcases he with he | he <;> simp [pay, he]
  · simp only [consE, okE_cons, h4]
    rcases he with he | he <;> simp [he]

theorem run_sim (cfg : Cfg) : ∀ (n : Nat) (buf : Bytes) (r r' : RR), buf.length ≤ n → Inv r → Inv r' → Sim r r' →
    REq (run cfg r buf) (run cfg r' buf) := by
  intro n
  induction n with
  | zero =>
    intro buf r r' hn _ _ hs
    have : buf = [] := List.length_eq_zero_iff.mp (by omega)
    subst this
    rw [run_nil, run_nil]
    exact ⟨hs, rfl, rfl, Iff.rfl⟩
  | succ n ih =>
    intro buf r r' hn hI hI' hs
    by_cases hne : buf = []
    · subst hne
      rw [run_nil, run_nil]
      exact ⟨hs, rfl, rfl, Iff.rfl⟩
    · obtain ⟨s1, s2⟩ := receive_sim cfg r r' buf hs
      have he : buf.isEmpty = false := by cases buf <;> simp_all
      by_cases hinv : (RR.receive cfg r buf).2.2 = .invalid
      · have hinv' : (RR.receive cfg r' buf).2.2 = .invalid := by rw [← s2]; exact hinv
        simp only [run]
        rw [loop, loop]
        simp only [he, Bool.false_eq_true, if_false, hinv, hinv', beq_self_eq_true, if_true]
        refine ⟨after_sim cfg _ _ _ s1, by rw [s2], ?_, ?_⟩
        · exact pay_single_sim _ _ _ s1
        · simp [okE]
      · have hinv' : (RR.receive cfg r' buf).2.2 ≠ .invalid := by rw [← s2]; exact hinv
        rw [run_cons cfg r buf hI hne hinv, run_cons cfg r' buf hI' hne hinv']
        have hlt := receive_lt cfg r buf hI hne hinv
        simp only [stepRun]
        rw [← s2]
        apply REq_consE _ _ _ _ _ s1
        have hi1 := inv_step cfg r buf hI
        have hi2 := inv_step cfg r' buf hI'
        rw [← s2] at hi2
        exact ih _ _ _ (by omega) hi1 hi2 (after_sim cfg _ _ _ s1)

/-- same result up to `Sim`: same continuation -/
theorem stepRun_sim (cfg : Cfg) (p p' : RR × Bytes × Rx) (hs : Sim p.1 p'.1) (he : p.2 = p'.2)
    (hI : Inv (RR.afterResult cfg p.1 p.2.2)) (hI' : Inv (RR.afterResult cfg p'.1 p'.2.2)) :
    REq (stepRun cfg p) (stepRun cfg p') := by
  simp only [stepRun]
  rw [← he] at hI' ⊢
  exact REq_consE _ _ _ _ _ hs (run_sim cfg _ _ _ _ (Nat.le_refl _) hI hI' (after_sim cfg _ _ _ hs))

/-! ### one `receive` call on `a ++ b` versus the loop over `a` followed by `b` -/

theorem split_fin (cfg : Cfg) (p p' : RR × Bytes × Rx) (b : Bytes) (h : p = (p'.1, p'.2.1 ++ b, p'.2.2))
    (hinv : p.2.2 ≠ .invalid) :
    p'.2.2 ≠ .invalid ∧
    REq (stepRun cfg p) (consE (p'.2.2, p'.1) (run cfg (RR.afterResult cfg p'.1 p'.2.2) (p'.2.1 ++ b))) := by
  subst h
  exact ⟨hinv, REq.rfl' _⟩

theorem split_cont (cfg : Cfg) (p p' : RR × Bytes × Rx) (b : Bytes) (r' : RR) (h' : p' = (r', [], .incomplete))
    (h : p = RR.receive cfg r' b) (hI : Inv r') (hb : b ≠ []) (hinv : p.2.2 ≠ .invalid) :
    p'.2.2 ≠ .invalid ∧
    REq (stepRun cfg p) (consE (p'.2.2, p'.1) (run cfg (RR.afterResult cfg p'.1 p'.2.2) (p'.2.1 ++ b))) := by
  subst h h'
  refine ⟨by simp, ?_⟩
  simp only [RR.afterResult, List.nil_append]
  rw [← run_cons cfg r' b hI hb hinv]
  exact REq_skip _ _ _ (Or.inl rfl) (REq.rfl' _)



theorem body_split (cfg : Cfg) (r : RR) (rp : Bool) (x b : Bytes) (hv : r.request.valid = true)
    (hm : r.request.missingHost = false) (hc : r.request.headers.isChunked = false) (hb : b ≠ [])
    (hrp0 : rp = false → (r.body.length : Int) < r.request.headers.contentLength)
    (hrp1 : rp = true → r.body = [] ∧ r.continueSent = false)
    (hinv : (RR.receiveBody cfg r rp (x ++ b)).2.2 ≠ .invalid)
    (hI1 : Inv (RR.afterResult cfg (RR.receiveBody cfg r rp x).1 (RR.receiveBody cfg r rp x).2.2))
    (hI2 : Inv (RR.afterResult cfg (RR.receiveBody cfg r rp (x ++ b)).1 (RR.receiveBody cfg r rp (x ++ b)).2.2)) :
    (RR.receiveBody cfg r rp x).2.2 ≠ .invalid ∧
    REq (stepRun cfg (RR.receiveBody cfg r rp (x ++ b)))
      (consE ((RR.receiveBody cfg r rp x).2.2, (RR.receiveBody cfg r rp x).1)
        (run cfg (RR.afterResult cfg (RR.receiveBody cfg r rp x).1 (RR.receiveBody cfg r rp x).2.2)
          ((RR.receiveBody cfg r rp x).2.1 ++ b))) := by
  have hblen : 0 < b.length := List.length_pos_iff.mpr hb
  -- the checks that do not depend on the buffer pass
  by_cases hB1 : ((r.request.isTrace && r.request.headers.contentLength != 0) ||
      decide (r.request.headers.contentLength < 0)) = true
  · exfalso; apply hinv; rw [receiveBody_eq]; dsimp only; rw [if_pos hB1]
  by_cases hB2 : (decide (r.request.headers.contentLength > 0) &&
      decide (r.request.headers.contentLength > (cfg.maxContent : Int))) = true
  · exfalso; apply hinv; rw [receiveBody_eq]; dsimp only; rw [if_neg hB1, if_pos hB2]
  have form : ∀ buf, RR.receiveBody cfg r rp buf =
      if (!decide (r.request.headers.contentLength > 0) && decide ((buf.length : Int) > 0) &&
           (r.request.headers.fields.find (b!"content-length")).isEmpty) = true then
         (({ code := 411 } : RR), buf, .invalid)
       else if (rp && decide ((buf.length : Int) < r.request.headers.contentLength) &&
           r.request.expectContinue && !r.continueSent) = true then
         ({ pre r with code := 100 }, buf, .expectContinue)
       else accum cfg (pre r) buf := by
    intro buf
    rw [receiveBody_eq]; dsimp only; rw [if_neg hB1, if_neg hB2]
  have hN : (!decide (r.request.headers.contentLength > 0) && decide (((x ++ b).length : Int) > 0) &&
           (r.request.headers.fields.find (b!"content-length")).isEmpty) = false := by
    cases h : (!decide (r.request.headers.contentLength > 0) && decide (((x ++ b).length : Int) > 0) &&
           (r.request.headers.fields.find (b!"content-length")).isEmpty)
    · rfl
    · exfalso; apply hinv; rw [form, if_pos h]
  have hcl0 : ¬ r.request.headers.contentLength < 0 := by
    intro h; apply hB1; simp [h]
  have hN' : ∀ buf : Bytes, (!decide (r.request.headers.contentLength > 0) && decide ((buf.length : Int) > 0) &&
           (r.request.headers.fields.find (b!"content-length")).isEmpty) = false := by
    intro buf
    have : ((x ++ b).length : Int) > 0 := by simp only [List.length_append]; omega
    simp only [this, decide_true, Bool.and_true] at hN
    simp only [Bool.and_eq_false_iff] at hN ⊢
    rcases hN with h | h
    · exact Or.inl (Or.inl h)
    · exact Or.inr h
  have form2 : ∀ buf, RR.receiveBody cfg r rp buf =
       if (rp && decide ((buf.length : Int) < r.request.headers.contentLength) &&
           r.request.expectContinue && !r.continueSent) = true then
         ({ pre r with code := 100 }, buf, .expectContinue)
       else accum cfg (pre r) buf := by
    intro buf
    rw [form, hN' buf]
    simp only [Bool.false_eq_true, if_false]
  obtain ⟨pr1, _, pr3, pr4, _⟩ := pre_facts r
  by_cases hE : (rp && decide ((x.length : Int) < r.request.headers.contentLength) &&
           r.request.expectContinue && !r.continueSent) = true
  · -- the first read ends before the body is complete and 100-continue is requested
    have hE0 := hE
    simp only [Bool.and_eq_true, decide_eq_true_eq, Bool.not_eq_true'] at hE0
    obtain ⟨⟨⟨hrp, hxl⟩, hexp⟩, hcs⟩ := hE0
    have hcl : r.request.headers.contentLength > 0 := by omega
    have ht : r.request.isTrace = false := by
      cases h : r.request.isTrace
      · rfl
      · exfalso; apply hB1
        have : r.request.headers.contentLength ≠ 0 := by omega
        simp [h, this]
    have hpre : pre r = r := by simp [pre, ht]
    have h413 : ¬ r.request.headers.contentLength > (cfg.maxContent : Int) := by
      intro h; apply hB2; simp [h, hcl]
    have eX : RR.receiveBody cfg r rp x = ({ r with code := 100 }, x, .expectContinue) := by
      rw [form2, if_pos hE, hpre]
    by_cases hE2 : (rp && decide (((x ++ b).length : Int) < r.request.headers.contentLength) &&
           r.request.expectContinue && !r.continueSent) = true
    · have eXB : RR.receiveBody cfg r rp (x ++ b) = ({ r with code := 100 }, x ++ b, .expectContinue) := by
        rw [form2, if_pos hE2, hpre]
      apply split_fin cfg _ _ b _ hinv
      rw [eXB, eX]
    · have eXB : RR.receiveBody cfg r rp (x ++ b) = accum cfg r (x ++ b) := by
        rw [form2, if_neg hE2, hpre]
      rw [eX]
      refine ⟨by simp, ?_⟩
      rw [eX] at hI1
      rw [eXB] at hI2 ⊢
      simp only [RR.afterResult] at hI1 ⊢
      have hxb : x ++ b ≠ [] := by simp [hb]
      have hrec := receive_acc cfg { r with code := 100, continueSent := true } (x ++ b) hv hm hc ht hcl h413
      have hfacts := accum_facts cfg { r with code := 100, continueSent := true } (x ++ b)
      have hni : (RR.receive cfg { r with code := 100, continueSent := true } (x ++ b)).2.2 ≠ .invalid := by
        rw [hrec]
        rcases hfacts.2.2.2.2 with h | h <;> simp [h]
      rw [run_cons cfg _ (x ++ b) hI1 hxb hni, hrec]
      have hI3 := inv_step cfg _ (x ++ b) hI1
      rw [hrec] at hI3
      have hsim : Sim r { r with code := 100, continueSent := true } :=
        ⟨rfl, rfl, rfl, rfl, fun h => by rw [hv] at h; cases h⟩
      obtain ⟨s1, s2⟩ := accum_sim cfg _ _ (x ++ b) hsim
      exact REq_skip _ _ _ (Or.inr rfl) (stepRun_sim cfg _ _ s1 s2 hI2 hI3)
  · -- no interim response on the first read, hence none on the single read
    have hE' : ¬ (rp && decide (((x ++ b).length : Int) < r.request.headers.contentLength) &&
           r.request.expectContinue && !r.continueSent) = true := by
      intro h
      apply hE
      simp only [Bool.and_eq_true, decide_eq_true_eq, List.length_append] at h ⊢
      exact ⟨⟨⟨h.1.1.1, by omega⟩, h.1.2⟩, h.2⟩
    have eX : RR.receiveBody cfg r rp x = accum cfg (pre r) x := by rw [form2, if_neg hE]
    have eXB : RR.receiveBody cfg r rp (x ++ b) = accum cfg (pre r) (x ++ b) := by rw [form2, if_neg hE']
    have hle : (r.body.length : Int) ≤ r.request.headers.contentLength := by
      cases rp with
      | false => have := hrp0 rfl; omega
      | true => rw [(hrp1 rfl).1]; simp only [List.length_nil]; omega
    by_cases hshort : ((pre r).body.length : Int) + x.length < (pre r).request.headers.contentLength
    · -- the body continues in `b`
      have hcl : r.request.headers.contentLength > 0 := by rw [pr1, pr3] at hshort; omega
      have ht : r.request.isTrace = false := by
        cases h : r.request.isTrace
        · rfl
        · exfalso; apply hB1
          have : r.request.headers.contentLength ≠ 0 := by omega
          simp [h, this]
      have hpre : pre r = r := by simp [pre, ht]
      rw [hpre] at eX eXB hshort
      have h413 : ¬ r.request.headers.contentLength > (cfg.maxContent : Int) := by
        intro h; apply hB2; simp [h, hcl]
      rw [accum_short cfg r x hshort] at eX
      rw [accum_short_append cfg r x b hshort] at eXB
      rw [← receive_acc cfg { r with body := r.body ++ x } b hv hm hc ht hcl h413] at eXB
      have hI' : Inv { r with body := r.body ++ x } := by
        have := hI1
        rw [eX] at this
        exact this
      exact split_cont cfg _ _ b _ eX eXB hI' hb hinv
    · -- the body is complete inside `x`
      obtain ⟨_, hl2⟩ := accum_long cfg (pre r) x b (by rw [pr1, pr3]; exact hle) (by omega)
      rw [← eX, ← eXB] at hl2
      have hl1 : (RR.receiveBody cfg r rp x).2.2 = .valid := by
        rw [eX]; exact (accum_long cfg (pre r) x b (by rw [pr1, pr3]; exact hle) (by omega)).1
      rw [← hl1] at hl2
      exact split_fin cfg _ _ b hl2 hinv

theorem reset_of_not_valid (r : RR) (h : r.chunk.valid = false) : reset r = r := by
  unfold reset
  simp [h]

theorem chunk_split (cfg : Cfg) (r : RR) (rp : Bool) (x b : Bytes) (hv : r.request.valid = true)
    (hm : r.request.missingHost = false) (hc : r.request.headers.isChunked = true) (hb : b ≠ [])
    (hck : r.chunk.valid = false → CK.done r.chunk = false)
    (hinv : (RR.receiveChunk cfg r rp (x ++ b)).2.2 ≠ .invalid)
    (hI1 : Inv (RR.afterResult cfg (RR.receiveChunk cfg r rp x).1 (RR.receiveChunk cfg r rp x).2.2)) :
    (RR.receiveChunk cfg r rp x).2.2 ≠ .invalid ∧
    REq (stepRun cfg (RR.receiveChunk cfg r rp (x ++ b)))
      (consE ((RR.receiveChunk cfg r rp x).2.2, (RR.receiveChunk cfg r rp x).1)
        (run cfg (RR.afterResult cfg (RR.receiveChunk cfg r rp x).1 (RR.receiveChunk cfg r rp x).2.2)
          ((RR.receiveChunk cfg r rp x).2.1 ++ b))) := by
  by_cases h1 : (rp && (r.request.expectContinue && !r.continueSent)) = true
  · apply split_fin cfg _ _ b _ hinv
    rw [receiveChunk_eq, receiveChunk_eq, if_pos h1, if_pos h1]
  by_cases h2 : (rp && !cfg.concatChunks) = true
  · apply split_fin cfg _ _ b _ hinv
    rw [receiveChunk_eq, receiveChunk_eq, if_neg h1, if_neg h1, if_pos h2, if_pos h2]
  have e : ∀ buf, RR.receiveChunk cfg r rp buf = chunkParse cfg (reset r) buf := by
    intro buf; rw [receiveChunk_eq, if_neg h1, if_neg h2]
  obtain ⟨f1, _, _, _, _, f6, f7⟩ := reset_facts r
  have hd0 := f7 hck
  by_cases hcnd : (CK.done (CK.parse cfg (reset r).chunk x).1 ||
      !(CK.parse cfg (reset r).chunk x).2.1.isEmpty) = true
  · apply split_fin cfg _ _ b _ hinv
    rw [e, e]
    exact chunkParse_fin cfg (reset r) x b f6 hd0 hcnd
  · have hcnd' : (CK.done (CK.parse cfg (reset r).chunk x).1 ||
        !(CK.parse cfg (reset r).chunk x).2.1.isEmpty) = false := by simpa using hcnd
    obtain ⟨c1, c2, c3, c4⟩ := chunkParse_cont cfg (reset r) x b f6 hd0 hcnd'
    have hv' : ({ reset r with chunk := (CK.parse cfg (reset r).chunk x).1 } : RR).request.valid = true := by
      show (reset r).request.valid = true
      rw [f1]; exact hv
    have hrec : RR.receive cfg { reset r with chunk := (CK.parse cfg (reset r).chunk x).1 } b =
        chunkParse cfg { reset r with chunk := (CK.parse cfg (reset r).chunk x).1 } b := by
      rw [receive_valid cfg _ b hv']
      unfold post
      have hm' : ({ reset r with chunk := (CK.parse cfg (reset r).chunk x).1 } : RR).request.missingHost = false := by
        show (reset r).request.missingHost = false
        rw [f1]; exact hm
      have hc' : ({ reset r with chunk := (CK.parse cfg (reset r).chunk x).1 } : RR).request.headers.isChunked
          = true := by
        show (reset r).request.headers.isChunked = true
        rw [f1]; exact hc
      rw [hm', hc', receiveChunk_eq]
      simp only [Bool.false_eq_true, if_false, Bool.false_and, Bool.not_true]
      rw [reset_of_not_valid { reset r with chunk := (CK.parse cfg (reset r).chunk x).1 } c2]
    have eX := (e x).trans c1
    have eXB := ((e (x ++ b)).trans c4).trans hrec.symm
    have hI' : Inv { reset r with chunk := (CK.parse cfg (reset r).chunk x).1 } := by
      have := hI1
      rw [eX] at this
      exact this
    exact split_cont cfg _ _ b _ eX eXB hI' hb hinv

theorem post_split (cfg : Cfg) (r : RR) (rp : Bool) (x b : Bytes) (hv : r.request.valid = true) (hb : b ≠ [])
    (hrp0 : rp = false → r.request.headers.isChunked = false →
       (r.body.length : Int) < r.request.headers.contentLength)
    (hrp1 : rp = true → r.body = [] ∧ r.continueSent = false)
    (hck : r.chunk.valid = false → CK.done r.chunk = false)
    (hinv : (post cfg r rp (x ++ b)).2.2 ≠ .invalid)
    (hI1 : Inv (RR.afterResult cfg (post cfg r rp x).1 (post cfg r rp x).2.2))
    (hI2 : Inv (RR.afterResult cfg (post cfg r rp (x ++ b)).1 (post cfg r rp (x ++ b)).2.2)) :
    (post cfg r rp x).2.2 ≠ .invalid ∧
    REq (stepRun cfg (post cfg r rp (x ++ b)))
      (consE ((post cfg r rp x).2.2, (post cfg r rp x).1)
        (run cfg (RR.afterResult cfg (post cfg r rp x).1 (post cfg r rp x).2.2) ((post cfg r rp x).2.1 ++ b))) := by
  have hm : r.request.missingHost = false := by
    cases hm : r.request.missingHost
    · rfl
    · exfalso; apply hinv; simp [post, hm]
  cases hc : r.request.headers.isChunked
  · have e : ∀ buf, post cfg r rp buf = RR.receiveBody cfg r rp buf := by intro buf; simp [post, hm, hc]
    rw [e x] at hI1 ⊢
    rw [e (x ++ b)] at hinv hI2 ⊢
    exact body_split cfg r rp x b hv hm hc hb (fun h => hrp0 h hc) hrp1 hinv hI1 hI2
  · have e : ∀ buf, post cfg r rp buf = RR.receiveChunk cfg r rp buf := by intro buf; simp [post, hm, hc]
    rw [e x] at hI1 ⊢
    rw [e (x ++ b)] at hinv ⊢
    exact chunk_split cfg r rp x b hv hm hc hb hck hinv hI1

theorem step_split (cfg : Cfg) (r : RR) (a b : Bytes) (hI : Inv r) (hb : b ≠ [])
    (hinv : (RR.receive cfg r (a ++ b)).2.2 ≠ .invalid) :
    (RR.receive cfg r a).2.2 ≠ .invalid ∧
    REq (stepRun cfg (RR.receive cfg r (a ++ b)))
      (consE ((RR.receive cfg r a).2.2, (RR.receive cfg r a).1)
        (run cfg (RR.afterResult cfg (RR.receive cfg r a).1 (RR.receive cfg r a).2.2)
          ((RR.receive cfg r a).2.1 ++ b))) := by
  have hI1 := inv_step cfg r a hI
  have hI2 := inv_step cfg r (a ++ b) hI
  obtain ⟨⟨ok1, _, ok3⟩, hA, hC⟩ := hI
  by_cases hv : r.request.valid = true
  · rw [receive_valid cfg r a hv] at hI1 ⊢
    rw [receive_valid cfg r (a ++ b) hv] at hI2 hinv ⊢
    exact post_split cfg r false a b hv hb (fun _ hc => ok1 hv hc) (fun h => by cases h) hC hinv hI1 hI2
  · have hv' : r.request.valid = false := by simpa using hv
    obtain ⟨hd, hcs⟩ := hA hv'
    have hval := RQ_parse_valid cfg r.request a hv'
    have law := RQ.parse_seq cfg r.request a b hd
    by_cases hbo : (RQ.parse cfg r.request a).2.2 = true
    · -- the head is completed inside `a`
      rw [hbo] at hval
      have hdone : RQ.done (RQ.parse cfg r.request a).1 = true := by simp [RQ.done, hval]
      simp only [hdone, Bool.true_or, if_true] at law
      have eA : RR.receive cfg r a =
          post cfg { r with request := (RQ.parse cfg r.request a).1 } true (RQ.parse cfg r.request a).2.1 := by
        rw [receive_head cfg r a hv']
        simp [hbo]
      have eAB : RR.receive cfg r (a ++ b) =
          post cfg { r with request := (RQ.parse cfg r.request a).1 } true
            ((RQ.parse cfg r.request a).2.1 ++ b) := by
        rw [receive_head cfg r (a ++ b) hv', law]
        simp [hbo]
      rw [eA] at hI1 ⊢
      rw [eAB] at hI2 hinv ⊢
      exact post_split cfg _ true _ b hval hb (fun h => by cases h) (fun _ => ⟨ok3 hv', hcs⟩) hC hinv hI1 hI2
    · have hbo' : (RQ.parse cfg r.request a).2.2 = false := by simpa using hbo
      rw [hbo'] at hval
      by_cases hfin : (RQ.parse cfg r.request a).1.fail = true ∨ (RQ.parse cfg r.request a).2.1 ≠ []
      · exfalso
        obtain ⟨_, h2⟩ := RR.receive_head_fail_seq cfg r a b hv' hd ⟨hbo', hfin⟩
        apply hinv
        rw [h2]
      · have hf : (RQ.parse cfg r.request a).1.fail = false := by
          cases h : (RQ.parse cfg r.request a).1.fail
          · rfl
          · exact absurd (Or.inl h) hfin
        have hr : (RQ.parse cfg r.request a).2.1 = [] := by
          cases h : (RQ.parse cfg r.request a).2.1
          · rfl
          · exact absurd (Or.inr (by simp [h])) hfin
        have hd1 := RQ_done_of _ hval hf
        obtain ⟨h1, h2⟩ := RR.receive_head_seq cfg r a b hv' hd ⟨hd1, hr⟩
        have hI' : Inv { r with request := (RQ.parse cfg r.request a).1 } := by
          have := hI1
          rw [h1] at this
          exact this
        exact split_cont cfg _ _ b _ h1 h2 hI' hb hinv

/-- two reads: the run over `a ++ b` is the run over `a` followed by the run over `b` -/
theorem run_split (cfg : Cfg) (b : Bytes) (hb : b ≠ []) : ∀ (n : Nat) (a : Bytes) (r : RR), a.length ≤ n → Inv r →
    okE (run cfg r (a ++ b)).2.2 → (run cfg r (a ++ b)).2.1 = [] →
    okE (run cfg r a).2.2 ∧ (run cfg r a).2.1 = [] ∧
    okE (run cfg (run cfg r a).1 b).2.2 ∧ (run cfg (run cfg r a).1 b).2.1 = [] ∧
    pay (run cfg r (a ++ b)).2.2 = pay (run cfg r a).2.2 ++ pay (run cfg (run cfg r a).1 b).2.2 := by
  intro n
  induction n with
  | zero =>
    intro a r hn hI hok hrest
    have : a = [] := List.length_eq_zero_iff.mp (by omega)
    subst this
    rw [run_nil]
    simp only [List.nil_append] at hok hrest
    refine ⟨by simp [okE], rfl, hok, hrest, by simp [pay]⟩
  | succ n ih =>
    intro a r hn hI hok hrest
    by_cases ha : a = []
    · subst ha
      rw [run_nil]
      simp only [List.nil_append] at hok hrest
      exact ⟨by simp [okE], rfl, hok, hrest, by simp [pay]⟩
    · have hab : a ++ b ≠ [] := by simp [ha]
      have hinv : (RR.receive cfg r (a ++ b)).2.2 ≠ .invalid := by
        intro h
        exact run_cons_invalid cfg r (a ++ b) hab h hok
      obtain ⟨hinv', heq⟩ := step_split cfg r a b hI hb hinv
      rw [run_cons cfg r (a ++ b) hI hab hinv] at hok hrest ⊢
      obtain ⟨_, e2, e3, e4⟩ := heq
      have hlt := receive_lt cfg r a hI ha hinv'
      have hI' := inv_step cfg r a hI
      simp only [consE] at e2 e3 e4
      rw [e2] at hrest
      rw [e4, okE_cons] at hok
      obtain ⟨i1, i2, i3, i4, i5⟩ := ih (RR.receive cfg r a).2.1 _ (by omega) hI' hok.2 hrest
      rw [e3, run_cons cfg r a hI ha hinv']
      simp only [stepRun, consE]
      refine ⟨(okE_cons _ _).mpr ⟨hinv', i1⟩, i2, i3, i4, ?_⟩
      rw [pay_cons, i5, pay_cons _ (run cfg _ (RR.receive cfg r a).2.1).2.2, List.append_assoc]

theorem feedE_flatten (cfg : Cfg) (ps : List Bytes) (hne : ∀ p ∈ ps, p ≠ []) : ∀ (r : RR), Inv r →
    okE (run cfg r ps.flatten).2.2 → (run cfg r ps.flatten).2.1 = [] →
    pay (feedE cfg r ps).2 = pay (run cfg r ps.flatten).2.2 := by
  induction ps with
  | nil => intro r _ _ _; simp [feedE, run_nil]
  | cons p ps ih =>
    intro r hI hok hrest
    simp only [feedE, List.flatten_cons] at hok hrest ⊢
    by_cases hps : ps = []
    · subst hps
      simp [feedE]
    · have hfl : ps.flatten ≠ [] := by
        cases ps with
        | nil => exact absurd rfl hps
        | cons q qs =>
          have := hne q (by simp)
          simp [this]
      obtain ⟨_, _, i3, i4, i5⟩ := run_split cfg ps.flatten hfl _ p r (Nat.le_refl _) hI hok hrest
      rw [pay_append, i5]
      rw [ih (fun q hq => hne q (List.mem_cons_of_mem _ hq)) _ (run_inv cfg _ _ _ (Nat.le_refl _) hI) i3 i4]

end C01

theorem C01_frag : C01_frag_statement := by
  intro cfg bs hclean ps hps hne
  obtain ⟨l1, l2, l3⟩ := C01.readLoop_loop cfg (bs.length + 1) {} bs []
  simp only [Clean] at hclean
  obtain ⟨c1, c2⟩ := hclean
  rw [l2] at c1
  have hok : C01.okE (C01.run cfg {} bs).2.2 := by
    intro e he
    simp only [List.reverse_nil, List.map_nil, List.nil_append] at l3
    rw [C01.run, ← l3] at he
    obtain ⟨d, hd, rfl⟩ := List.mem_map.mp he
    exact c2 d hd
  rw [C01.payload_eq_pay, C01.payload_eq_pay, (C01.feed_feedE cfg ps {}).2, (C01.feed_feedE cfg [bs] {}).2]
  subst hps
  rw [C01.feedE_flatten cfg ps hne {} C01.inv_init hok c1]
  simp [C01.feedE]

/-- the hypothesis of `C01_frag` is satisfiable by a non-trivial stream: a POST with a body, pipelined with a
    chunked POST with an Expect header and a trailer, followed by a GET -/
example : Clean {} (b!"POST /a HTTP/1.1\r\nHost: a\r\nContent-Length: 3\r\n\r\nabcPOST /b HTTP/1.1\r\nHost: a\r\nExpect: 100-continue\r\nTransfer-Encoding: chunked\r\n\r\n2;x=1\r\nhi\r\n0\r\nT: v\r\n\r\nGET /c HTTP/1.1\r\nHost: a\r\nContent-Length: 0\r\n\r\n") := by
  unfold Clean
  decide +kernel

example : payload (RR.feed {} {} [b!"POST /a HTTP/1.1\r\nHost: a\r\nContent-Le", b!"ngth: 3\r\n\r\na",
      b!"bcGET /c HTTP/1.1\r", b!"\nHost: a\r\nContent-Length: 0\r\n\r\n"]).2 =
    payload (RR.feed {} {}
      [b!"POST /a HTTP/1.1\r\nHost: a\r\nContent-Length: 3\r\n\r\nabcGET /c HTTP/1.1\r\nHost: a\r\nContent-Length: 0\r\n\r\n"]).2 :=
  C01_frag {} _ (by unfold Clean; decide +kernel) _ rfl (by decide)

end Via
