import ViaProofs.Statements
import ViaProofs.C01
/-
  C02 — malformed or over-limit requests are never accepted; documented status; limit edges.

  Fragmentation-independence of the verdict for everything detected in the request head is
  `RR.receive_head_fail_seq` / `RR.feedHead_flatten` (ViaProofs/C01.lean, from the parser laws in Frag/).
  This file proves the decision logic itself, for EVERY configuration and every value of the limits:
  at the limit accepted, one beyond rejected, and the status code the receiver proposes per violation class.
-/
namespace Via

/-! ### limit edges of the request line (∀ limit values) -/

theorem C02_method_at_limit (cfg : Cfg) (s : RL) (c : Byte) (hs : s.st = .method) (hu : isUpper c = true)
    (hl : s.method.length < cfg.maxMethod) :
    (s.parseChar cfg c).2 = true ∧ (s.parseChar cfg c).1.method = s.method ++ [c] := by
  unfold RL.parseChar
  simp only [hs, hu, ↓reduceIte]
  have : ¬ cfg.maxMethod < s.method.length + 1 := by omega
  simp [this]

theorem C02_method_beyond (cfg : Cfg) (s : RL) (c : Byte) (hs : s.st = .method) (hu : isUpper c = true)
    (hl : s.method.length = cfg.maxMethod) :
    (s.parseChar cfg c).2 = false ∧ (s.parseChar cfg c).1.st = .errMethodLength := by
  unfold RL.parseChar
  simp only [hs, hu, ↓reduceIte]
  have : cfg.maxMethod < s.method.length + 1 := by omega
  simp [this]

theorem C02_uri_at_limit (cfg : Cfg) (s : RL) (c : Byte) (hs : s.st = .uri) (he : isEol c = false)
    (hb : isBlank c = false) (hl : s.uri.length < cfg.maxUri) :
    (s.parseChar cfg c).2 = true ∧ (s.parseChar cfg c).1.uri = s.uri ++ [c] := by
  unfold RL.parseChar
  simp only [hs, he, hb, Bool.false_eq_true, ↓reduceIte]
  have : ¬ cfg.maxUri < s.uri.length + 1 := by omega
  simp [this]

theorem C02_uri_beyond (cfg : Cfg) (s : RL) (c : Byte) (hs : s.st = .uri) (he : isEol c = false)
    (hb : isBlank c = false) (hl : s.uri.length = cfg.maxUri) :
    (s.parseChar cfg c).2 = false ∧ (s.parseChar cfg c).1.st = .errUriLength := by
  unfold RL.parseChar
  simp only [hs, he, hb, Bool.false_eq_true, ↓reduceIte]
  have : cfg.maxUri < s.uri.length + 1 := by omega
  simp [this]

/-- blanks in front of the target: exactly `maxWs` are accepted (the first one is consumed in state METHOD) -/
theorem C02_ws_before_target (cfg : Cfg) (s : RL) (c : Byte) (hs : s.st = .uri) (hb : isBlank c = true)
    (hu : s.uri = []) :
    (s.parseChar cfg c).2 = decide (s.ws + 1 ≤ cfg.maxWs) := by
  have he : isEol c = false := by
    unfold isBlank at hb; unfold isEol
    simp only [Bool.or_eq_true, beq_iff_eq] at hb
    rcases hb with h | h <;> subst h <;> decide
  unfold RL.parseChar
  simp only [hs, he, hb, hu, Bool.false_eq_true, ↓reduceIte, List.isEmpty_nil, Bool.not_true]
  by_cases h : s.ws + 1 > cfg.maxWs
  · simp [h]
  · simp [h]; omega

/-! ### the proposed status per violation class (the non-chunked branch of `receive`) -/

theorem C02_content_length_invalid (cfg : Cfg) (r : RR) (p : Bool) (buf : Bytes)
    (ht : r.request.isTrace = false) (hcl : r.request.headers.contentLength < 0) :
    (RR.receiveBody cfg r p buf).2.2 = .invalid ∧ (RR.receiveBody cfg r p buf).1.code = 400 := by
  unfold RR.receiveBody
  simp [ht, hcl, RR.clear]

theorem C02_content_length_too_large (cfg : Cfg) (r : RR) (p : Bool) (buf : Bytes)
    (ht : r.request.isTrace = false) (hcl : r.request.headers.contentLength > (cfg.maxContent : Int)) :
    (RR.receiveBody cfg r p buf).2.2 = .invalid ∧ (RR.receiveBody cfg r p buf).1.code = 413 := by
  have h0 : ¬ r.request.headers.contentLength < 0 := by omega
  have h1 : r.request.headers.contentLength > 0 := by omega
  unfold RR.receiveBody
  simp [ht, h0, h1, hcl, RR.clear]

/-- a body exactly at the limit is not rejected for its size -/
theorem C02_content_length_at_limit (cfg : Cfg) (r : RR) (p : Bool) (buf : Bytes)
    (ht : r.request.isTrace = false) (hpos : 0 < r.request.headers.contentLength)
    (hcl : r.request.headers.contentLength = (cfg.maxContent : Int)) :
    (RR.receiveBody cfg r p buf).2.2 ≠ .invalid := by
  have h0 : ¬ r.request.headers.contentLength < 0 := by omega
  have h2 : ¬ r.request.headers.contentLength > (cfg.maxContent : Int) := by omega
  unfold RR.receiveBody
  simp only [ht, Bool.false_eq_true, ↓reduceIte, h0, hpos, decide_true, h2, decide_false, Bool.and_false,
    Bool.not_true, Bool.false_and]
  repeat' split
  all_goals simp

theorem C02_trace_with_body (cfg : Cfg) (r : RR) (p : Bool) (buf : Bytes)
    (ht : r.request.isTrace = true) (hcl : r.request.headers.contentLength ≠ 0) :
    (RR.receiveBody cfg r p buf).2.2 = .invalid ∧ (RR.receiveBody cfg r p buf).1.code = 400 := by
  unfold RR.receiveBody
  simp [ht, hcl, RR.clear]

/-- a TRACE request without body is passed on with the proposed status 405 (the server answers 405 unless the
    application enabled the echo) -/
theorem C02_trace_proposes_405 (cfg : Cfg) (r : RR) (p : Bool)
    (ht : r.request.isTrace = true) (hcl : r.request.headers.contentLength = 0) (hb : r.body = [])
    (he : p = false ∨ r.request.expectContinue = false ∨ r.continueSent = true) :
    (RR.receiveBody cfg r p []).2.2 = .valid ∧ (RR.receiveBody cfg r p []).1.code = 405 := by
  unfold RR.receiveBody
  simp only [ht, hcl, beq_self_eq_true, ↓reduceIte]
  simp [hb, RQ.isHead, RQ.isTrace] at *
  rcases he with h | h | h <;> simp_all

/-- a request with HTTP/1.1 and no Host header is rejected with 400 whatever follows -/
theorem C02_missing_host (cfg : Cfg) (r : RR) (buf : Bytes) (hv : r.request.valid = true)
    (hm : r.request.missingHost = true) :
    (RR.receive cfg r buf).2.2 = .invalid ∧ (RR.receive cfg r buf).1.code = 400 := by
  unfold RR.receive
  simp [hv, hm]

/-- non-vacuity of the limit-edge theorems: a state at the method limit exists for every configuration -/
example (cfg : Cfg) : ∃ s : RL, s.st = .method ∧ s.method.length = cfg.maxMethod :=
  ⟨{ method := List.replicate cfg.maxMethod 65 }, rfl, by simp⟩

end Via
