import ViaGen.SL
/-
  The tie between the model and the C++ of `response_line::parse_char`, checked by the kernel on every run:
  `ViaGen/SL.lean` is the translation of the function as it is in /repo NOW (tools/cxx2lean.py); the theorem below
  states that the hand-written model `SL.parseChar` — the function all property theorems are about — computes the
  same new state and the same returned bool for EVERY configuration, state and byte.  A change to the C++ that alters
  the function's behaviour makes this stop checking.
-/
namespace Via

theorem SL_parseChar_translated (cfg : Cfg) (s : SL) (c : Byte) : GenSL.parseChar cfg s c = SL.parseChar cfg s c := by
  obtain ⟨status, reason, major, minor, st, ws, statusRead, valid, fail⟩ := s
  cases st <;> first
    | rfl
    | (simp only [GenSL.parseChar, SL.parseChar]; repeat' split) <;> simp_all

end Via
