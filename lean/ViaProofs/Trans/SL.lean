import ViaGen.SL
/-
  The tie between the model and the C++ of `response_line::parse_char` and `response_line::parse`, checked by the kernel on every run:
  `ViaGen/SL.lean` is the translation of the two functions as they are in /repo NOW (tools/cxx2lean.py); the theorems
  below state that the hand-written model functions `SL.parseChar` and `SL.parse` — the functions all property theorems
  are about — compute the same new state, the same remaining input and the same returned bool for EVERY configuration,
  state and input.  A change to the C++ that alters the behaviour of one of them makes this stop checking.
-/
namespace Via

theorem SL_parseChar_translated (cfg : Cfg) (s : SL) (c : Byte) : GenSL.parseChar cfg s c = SL.parseChar cfg s c := by
  obtain ⟨status, reason, major, minor, st, ws, statusRead, valid, fail⟩ := s
  cases st <;> first
    | rfl
    | (simp only [GenSL.parseChar, SL.parseChar]; repeat' split) <;> simp_all

/-- the translated loop (with the code after the loop inlined at its exits) against the model's loop + epilogue -/
theorem SL_parseLoop_translated (cfg : Cfg) (buf : Bytes) : ∀ s : SL,
    GenSL.parseLoop cfg s buf =
      (let r := SL.loop cfg s buf
       if r.2.2 then (r.1, r.2.1, false)
       else ({ r.1 with valid := r.1.st == .valid }, r.2.1, r.1.st == .valid)) := by
  induction buf with
  | nil => intro s; simp [GenSL.parseLoop, SL.loop]
  | cons c cs ih =>
    intro s
    unfold GenSL.parseLoop SL.loop
    by_cases hv : s.st = .valid
    · simp [hv]
    · simp only [bne_iff_ne, ne_eq, hv, not_false_eq_true, ↓reduceIte, beq_iff_eq, SL_parseChar_translated]
      cases hr : (SL.parseChar cfg s c).2
      · simp
      · simp [ih]

theorem SL_parse_translated (cfg : Cfg) (s : SL) (buf : Bytes) : GenSL.parse cfg s buf = SL.parse cfg s buf := by
  unfold GenSL.parse SL.parse
  rw [SL_parseLoop_translated]

end Via
