import ViaGen.RR
import ViaGen.RS
import ViaProofs.Trans.RQ
import ViaProofs.Trans.CK
/-
  `request_receiver::receive` (and `clear`) as they are in /repo NOW (ViaGen/RR.lean: tools/cxx2lean_rx.py translates
  the function with its early returns, signed length arithmetic, `switch` on the request-line state, accessors resolved
  down to data members, and one definition per join point `GenRR.receive_k<n>`) = the model's `RR.receive`, for every
  configuration, input and receiver state satisfying `RR.Sane` (headers `FieldFresh`, chunk `Sane`).  `RR.Sane` holds
  for a fresh receiver and is preserved by `receive` and by what `http_server` does between two calls
  (`RR.afterResult`), so the equality lifts to the whole per-read loop and to every sequence of reads
  (`RR_readLoop_translated`, `RR_reads_translated`).

  NOT translated (mapped by name to model functions, tied by the differential correspondence): the header look-ups of
  `message_headers` (`find`, `content_length`, `is_chunked`, `expect_continue`, `close_connection`).
-/
namespace Via

theorem GenRR_clear_eq (s : RR) : GenRR.clear s = s.clear := by
  cases s; rfl

theorem GenRS_clear_eq (s : RS) : GenRS.clear s = s.clear := by
  cases s; rfl

/-- the model's `receiveBody` from the 100-continue test onwards (a verbatim copy of that part of the definition) -/
def RR.bodyTail (cfg : Cfg) (r : RR) (requestParsed : Bool) (cl : Int) (buf : Bytes) : RR × Bytes × Rx :=
  let rxSize : Int := buf.length
  if requestParsed && rxSize < cl && r.request.expectContinue && !r.continueSent then
    ({ r with code := 100 }, buf, .expectContinue)
  else
    let required : Int := cl - r.body.length
    let take : Nat := if rxSize > required then required.toNat else buf.length
    let r := { r with body := r.body ++ buf.take take }
    let rest := buf.drop take
    if (r.body.length : Int) == cl then
      let isHead := r.request.isHead
      let r := { r with isHead := isHead }
      let r := if isHead && cfg.translateHead
        then { r with request := { r.request with line := { r.request.line with method := (b!"GET") } } } else r
      (r, rest, .valid)
    else (r, rest, .incomplete)

theorem nat_beq_toNat (n : Nat) (cl : Int) (h : 0 ≤ cl) : (n == cl.toNat) = ((n : Int) == cl) := by
  by_cases e : (n : Int) = cl
  · subst e; simp
  · have : n ≠ cl.toNat := by omega
    have h1 : (n == cl.toNat) = false := by simpa using this
    have h2 : ((n : Int) == cl) = false := by simpa using e
    rw [h1, h2]

/-- the last step of the Content-Length branch: complete -> VALID (HEAD translated), else INCOMPLETE -/
theorem RR_finish (cfg : Cfg) (s : RR) (B rest : Bytes) (cl : Int) (hpos : 0 ≤ cl) :
    (if (B.length == cl.toNat) = true then
        ((if (s.request.line.method == ([72, 69, 65, 68] : Bytes) && cfg.translateHead) = true then
            (({ s with body := B, isHead := s.request.line.method == ([72, 69, 65, 68] : Bytes),
                       request := { s.request with line := { s.request.line with method := ([71, 69, 84] : Bytes) } } } : RR), rest)
          else (({ s with body := B, isHead := s.request.line.method == ([72, 69, 65, 68] : Bytes) } : RR), rest)).fst,
         (if (s.request.line.method == ([72, 69, 65, 68] : Bytes) && cfg.translateHead) = true then
            (({ s with body := B, isHead := s.request.line.method == ([72, 69, 65, 68] : Bytes),
                       request := { s.request with line := { s.request.line with method := ([71, 69, 84] : Bytes) } } } : RR), rest)
          else (({ s with body := B, isHead := s.request.line.method == ([72, 69, 65, 68] : Bytes) } : RR), rest)).snd,
         Rx.valid)
      else (({ s with body := B } : RR), rest, Rx.incomplete)) =
    (if ((B.length : Int) == cl) = true then
        (if (s.request.isHead && cfg.translateHead) = true then
           ({ s with body := B, isHead := s.request.isHead,
                     request := { s.request with line := { s.request.line with method := ([71, 69, 84] : Bytes) } } } : RR)
         else ({ s with body := B, isHead := s.request.isHead } : RR), rest, Rx.valid)
      else (({ s with body := B } : RR), rest, Rx.incomplete)) := by
  rw [nat_beq_toNat _ _ hpos]
  simp only [RQ.isHead]
  cases hd : ((B.length : Int) == cl)
  · simp only [Bool.false_eq_true, if_false]
  · simp only [if_true]
    by_cases hh : (s.request.line.method == ([72, 69, 65, 68] : Bytes) && cfg.translateHead) = true
    · simp only [hh, if_true]
    · simp only [hh, Bool.false_eq_true, if_false]

theorem RR_k4_translated (cfg : Cfg) (s : RR) (rp : Bool) (cl : Int) (it : Bytes)
    (hcl : MH.contentLength s.request.headers = cl) (hpos : 0 ≤ cl) :
    GenRR.receive_k4 cfg (it.length : Int) cl rp s it = RR.bodyTail cfg s rp cl it := by
  unfold GenRR.receive_k4 GenRR.receive_k2 RR.bodyTail
  simp only [RQ.expectContinue, RL.isHttp10OrEarlier]
  by_cases hexp : (rp && decide ((it.length : Int) < cl) &&
      (!(s.request.line.major == 48 || s.request.line.major == 49 && s.request.line.minor == 48) &&
        s.request.headers.expectContinue) && !s.continueSent) = true
  · simp only [hexp, if_true]
  · simp only [hexp]
    by_cases hc : (it.length : Int) > cl - (s.body.length : Int)
    · simp only [hc, if_true, hcl]
      exact RR_finish cfg s _ _ cl hpos
    · simp only [hc, if_false]
      cases it with
      | nil =>
        simp only [List.isEmpty_nil, Bool.not_true, Bool.false_eq_true, if_false, List.take_nil, List.drop_nil,
          List.append_nil, hcl]
        exact RR_finish cfg s s.body [] cl hpos
      | cons c cs =>
        simp only [List.isEmpty_cons, Bool.not_false, if_true, List.take_length, List.drop_length, hcl]
        exact RR_finish cfg s _ _ cl hpos

/-- `receiveBody` with its tail named -/
theorem RR.receiveBody_eq (cfg : Cfg) (r : RR) (rp : Bool) (buf : Bytes) :
    RR.receiveBody cfg r rp buf =
      (match (if r.request.isTrace then
                (if r.request.headers.contentLength == 0 then some { r with code := 405 } else none)
              else some r) with
       | none => ({ r with code := 400 }.clear, buf, .invalid)
       | some r' =>
         if r.request.headers.contentLength < 0 then ({ r' with code := 400 }.clear, buf, .invalid)
         else if r.request.headers.contentLength > 0 && r.request.headers.contentLength > (cfg.maxContent : Int) then
           ({ r' with code := 413 }.clear, buf, .invalid)
         else if !(r.request.headers.contentLength > 0) && (buf.length : Int) > 0 &&
             (r'.request.headers.fields.find (b!"content-length")).isEmpty then
           ({ r' with code := 411 }.clear, buf, .invalid)
         else RR.bodyTail cfg r' rp r.request.headers.contentLength buf) := by
  unfold RR.receiveBody RR.bodyTail
  rfl

/-- the part after the TRACE test -/
theorem RR_k3_translated (cfg : Cfg) (s : RR) (rp : Bool) (it : Bytes) :
    GenRR.receive_k3 cfg (it.length : Int) (MH.contentLength s.request.headers) rp s it =
      (if s.request.headers.contentLength < 0 then ({ s with code := 400 }.clear, it, .invalid)
       else if s.request.headers.contentLength > 0 && s.request.headers.contentLength > (cfg.maxContent : Int) then
         ({ s with code := 413 }.clear, it, .invalid)
       else if !(s.request.headers.contentLength > 0) && (it.length : Int) > 0 &&
           (s.request.headers.fields.find (b!"content-length")).isEmpty then
         ({ s with code := 411 }.clear, it, .invalid)
       else RR.bodyTail cfg s rp s.request.headers.contentLength it) := by
  unfold GenRR.receive_k3
  simp only [GenRR_clear_eq]
  generalize hcl : MH.contentLength s.request.headers = cl
  by_cases hneg : cl < 0
  · simp only [hneg, if_true]
  · have hpos : 0 ≤ cl := by omega
    simp only [hneg, if_false]
    by_cases hgt : cl > 0
    · by_cases hbig : cl > (cfg.maxContent : Int)
      · simp [hgt, hbig]
      · simp only [hgt, hbig, if_true, if_false, decide_true, decide_false, Bool.and_false, Bool.false_eq_true,
          Bool.not_true, Bool.false_and]
        exact RR_k4_translated cfg s rp cl it hcl hpos
    · by_cases h411 : (decide ((it.length : Int) > 0) &&
          (Fields.find s.request.headers.fields ([99, 111, 110, 116, 101, 110, 116, 45, 108, 101, 110, 103, 116, 104] : Bytes)).isEmpty) = true
      · simp only [hgt, if_false, decide_false, Bool.false_and, Bool.false_eq_true, Bool.not_false, Bool.true_and]
        rw [if_pos h411, if_pos h411]
      · simp only [hgt, h411, if_false, decide_false, Bool.false_and, Bool.false_eq_true, Bool.not_false, Bool.true_and]
        exact RR_k4_translated cfg s rp cl it hcl hpos

/-- the Content-Length branch as translated = `RR.receiveBody` -/
theorem RR_body_translated (cfg : Cfg) (s : RR) (rp : Bool) (it : Bytes) :
    (if (s.request.line.method == ([84, 82, 65, 67, 69] : Bytes)) then
       (if (MH.contentLength s.request.headers == (0 : Int)) then
          GenRR.receive_k3 cfg (it.length : Int) (MH.contentLength s.request.headers) rp { s with code := 405 } it
        else (GenRR.clear { s with code := 400 }, it, Rx.invalid))
     else GenRR.receive_k3 cfg (it.length : Int) (MH.contentLength s.request.headers) rp s it) =
    RR.receiveBody cfg s rp it := by
  rw [RR.receiveBody_eq]
  simp only [GenRR_clear_eq, RQ.isTrace]
  by_cases htr : (s.request.line.method == ([84, 82, 65, 67, 69] : Bytes)) = true
  · simp only [htr, if_true]
    by_cases h0 : (MH.contentLength s.request.headers == (0 : Int)) = true
    · simp only [h0, if_true]
      exact RR_k3_translated cfg { s with code := 405 } rp it
    · simp only [h0, Bool.false_eq_true, if_false]
  · simp only [htr, Bool.false_eq_true, if_false]
    exact RR_k3_translated cfg s rp it

/-- the chunked branch after the early answers: parse the chunk, judge the result -/
theorem RR_k5_translated (cfg : Cfg) (s : RR) (rp : Bool) (it : Bytes) (hs : s.chunk.Sane) :
    GenRR.receive_k5 cfg rp s it =
      (let p := CK.parse cfg s.chunk it
       let r := { s with chunk := p.1 }
       if !p.2.2 && (!p.2.1.isEmpty || r.chunk.fail) then ({ r with code := 400 }.clear, p.2.1, .invalid)
       else if r.chunk.valid then
         if cfg.concatChunks then
           if r.chunk.isLast then (r, p.2.1, .valid)
           else if r.body.length + r.chunk.data.length > cfg.maxContent then
             ({ r with code := 413 }.clear, p.2.1, .invalid)
           else ({ r with body := r.body ++ r.chunk.data }, p.2.1, .incomplete)
         else (r, p.2.1, .chunk)
       else (r, p.2.1, .incomplete)) := by
  unfold GenRR.receive_k5 GenRR.receive_k6 GenRR.receive_k2
  simp only [GenRR_clear_eq, CK_parse_translated cfg _ _ hs, CK.fail, MH.fail, CK.isLast]
  generalize CK.parse cfg s.chunk it = p
  obtain ⟨k, rest, ok⟩ := p
  cases ok
  · simp only [Bool.not_false, if_true, Bool.true_and]
  · simp only [Bool.not_true, Bool.false_eq_true, if_false, Bool.false_and]

/-- everything after the request head: Host test, then the Content-Length or the chunked branch -/
theorem RR_k1_translated (cfg : Cfg) (s : RR) (rp : Bool) (it : Bytes) (hs : s.chunk.Sane) :
    GenRR.receive_k1 cfg rp s it =
      (if s.request.missingHost then ({ s with code := 400 }, it, .invalid)
       else if !s.request.headers.isChunked then RR.receiveBody cfg s rp it
       else RR.receiveChunk cfg s rp it) := by
  unfold GenRR.receive_k1
  simp only [RQ.missingHost]
  by_cases hmh : (s.request.line.major == 49 && s.request.line.minor == 49 &&
      (Fields.find s.request.headers.fields ([104, 111, 115, 116] : Bytes)).isEmpty) = true
  · simp only [hmh, if_true]
  · simp only [hmh, Bool.false_eq_true, if_false]
    by_cases hch : (!MH.isChunked s.request.headers) = true
    · simp only [hch, if_true]
      exact RR_body_translated cfg s rp it
    · simp only [hch, Bool.false_eq_true, if_false]
      unfold RR.receiveChunk
      simp only [RQ.expectContinue, RL.isHttp10OrEarlier]
      cases hv : s.chunk.valid
      · simp only [Bool.false_eq_true, if_false]
        rw [RR_k5_translated cfg s rp it hs]
        cases rp
        · simp only [Bool.false_eq_true, if_false]
        · simp only [if_true]
          by_cases hexp : ((!(s.request.line.major == 48 || s.request.line.major == 49 && s.request.line.minor == 48) &&
              s.request.headers.expectContinue) && !s.continueSent) = true
          · simp only [hexp, if_true]
          · simp only [hexp, Bool.false_eq_true, if_false]
            cases cfg.concatChunks <;> simp
      · simp only [if_true]
        rw [RR_k5_translated cfg { s with chunk := {} } rp it CK.sane_init]
        cases rp
        · simp only [Bool.false_eq_true, if_false]
        · simp only [if_true]
          by_cases hexp : ((!(s.request.line.major == 48 || s.request.line.major == 49 && s.request.line.minor == 48) &&
              s.request.headers.expectContinue) && !s.continueSent) = true
          · simp only [hexp, if_true]
          · simp only [hexp, Bool.false_eq_true, if_false]
            cases cfg.concatChunks <;> simp

/-- what follows the head in the model's `receive` -/
def RR.afterHead (cfg : Cfg) (r : RR) (rp : Bool) (buf : Bytes) : RR × Bytes × Rx :=
  if r.request.missingHost then ({ r with code := 400 }, buf, .invalid)
  else if !r.request.headers.isChunked then RR.receiveBody cfg r rp buf
  else RR.receiveChunk cfg r rp buf

def RR.errCode (st : RLS) : Nat :=
  match st with
  | .errMethodLength => 501
  | .errUriLength => 414
  | _ => 400

/-- the model's `receive` without the intermediate `Option` -/
theorem RR.receive_eq (cfg : Cfg) (r : RR) (buf : Bytes) :
    RR.receive cfg r buf =
      (if !r.request.valid then
         let p := RQ.parse cfg r.request buf
         if !p.2.2 then
           if !p.2.1.isEmpty || p.1.fail then
             (({ r with request := p.1, code := RR.errCode p.1.line.st } : RR).clear, p.2.1, .invalid)
           else ({ r with request := p.1 }, p.2.1, .incomplete)
         else RR.afterHead cfg { r with request := p.1 } true p.2.1
       else RR.afterHead cfg r false buf) := by
  unfold RR.receive RR.afterHead RR.errCode
  cases hv : r.request.valid
  · simp only [Bool.not_false, if_true]
    cases hp : (RQ.parse cfg r.request buf).2.2
    · simp only [Bool.not_false, if_true]
      by_cases hbad : (!(RQ.parse cfg r.request buf).2.1.isEmpty || (RQ.parse cfg r.request buf).1.fail) = true
      · simp only [hbad, if_true]
        rfl
      · simp only [hbad, Bool.false_eq_true, if_false]
    · simp only [Bool.not_true, Bool.false_eq_true, if_false]
  · simp only [Bool.not_true, Bool.false_eq_true, if_false]

/-- the state conditions under which the translation and the model agree; they hold initially and are preserved -/
structure RR.Sane (r : RR) : Prop where
  headers : r.request.headers.FieldFresh
  chunk : r.chunk.Sane

theorem RR.sane_init : ({} : RR).Sane := ⟨MH.fieldFresh_init, CK.sane_init⟩

/-- **`request_receiver::receive` as it is in /repo now = the model's `RR.receive`.** -/
theorem RR_receive_translated (cfg : Cfg) (r : RR) (buf : Bytes) (h : r.Sane) :
    GenRR.receive cfg r buf = RR.receive cfg r buf := by
  rw [RR.receive_eq]
  unfold GenRR.receive RR.afterHead
  simp only [GenRR_clear_eq, RQ_parse_translated cfg _ _ h.headers, RQ.fail, MH.fail]
  cases hv : r.request.valid
  · simp only [Bool.not_false, if_true]
    cases hp : (RQ.parse cfg r.request buf).2.2
    · simp only [Bool.not_false, if_true]
      by_cases hbad : (!(RQ.parse cfg r.request buf).2.1.isEmpty ||
          ((RQ.parse cfg r.request buf).1.line.fail || (RQ.parse cfg r.request buf).1.headers.field.fail)) = true
      · simp only [hbad, if_true, RR.errCode]
        generalize (RQ.parse cfg r.request buf).1.line.st = st
        cases st <;> rfl
      · simp only [hbad, Bool.false_eq_true, if_false]
    · simp only [Bool.not_true, Bool.false_eq_true, if_false]
      exact RR_k1_translated cfg _ true _ h.chunk
  · simp only [Bool.not_true, Bool.false_eq_true, if_false]
    exact RR_k1_translated cfg r false buf h.chunk

/-! ### the conditions are preserved -/

theorem RR.clear_sane (r : RR) : r.clear.Sane := ⟨MH.fieldFresh_init, CK.sane_init⟩

theorem RQ.parse_fieldFresh (cfg : Cfg) (q : RQ) (buf : Bytes) (h : q.headers.FieldFresh) :
    (RQ.parse cfg q buf).1.headers.FieldFresh := by
  unfold RQ.parse
  have hm := fun b => MH.parse_fieldFresh cfg q.headers b h
  cases hlv : q.line.valid <;> simp only [Bool.false_eq_true, if_false, if_true]
  · cases hr : (RL.parse cfg q.line buf).2.2 <;> simp only [Bool.not_false, Bool.not_true, Bool.false_eq_true, if_true, if_false]
    · exact h
    · cases hhv : q.headers.valid <;> simp only [Bool.false_eq_true, if_false, if_true]
      · split <;> exact hm _
      · exact h
  · simp only [Bool.not_true, Bool.false_eq_true, if_false]
    cases hhv : q.headers.valid <;> simp only [Bool.false_eq_true, if_false, if_true]
    · split <;> exact hm _
    · exact h

/-- a result state that keeps the headers and the chunk of a sane state, or is a cleared state, is sane -/
theorem RR.sane_of (r r' : RR) (h : r.Sane)
    (hk : r' = r'.clear ∨ (r'.request.headers = r.request.headers ∧ r'.chunk = r.chunk)) : r'.Sane := by
  rcases hk with hc | ⟨h1, h2⟩
  · rw [hc]; exact RR.clear_sane _
  · exact ⟨h1 ▸ h.headers, h2 ▸ h.chunk⟩

theorem RR.clear_clear (r : RR) : r.clear = r.clear.clear := rfl

theorem RR.bodyTail_keeps (cfg : Cfg) (r : RR) (rp : Bool) (cl : Int) (buf : Bytes) :
    (RR.bodyTail cfg r rp cl buf).1.request.headers = r.request.headers ∧ (RR.bodyTail cfg r rp cl buf).1.chunk = r.chunk := by
  unfold RR.bodyTail
  simp only []
  repeat' split
  all_goals simp

theorem RR.afterLimits_keeps (cfg : Cfg) (r r' : RR) (rp : Bool) (buf : Bytes)
    (hh : r'.request.headers = r.request.headers) (hc : r'.chunk = r.chunk) :
    let x := (if r.request.headers.contentLength < 0 then (({ r' with code := 400 } : RR).clear, buf, Rx.invalid)
         else if r.request.headers.contentLength > 0 && r.request.headers.contentLength > (cfg.maxContent : Int) then
           (({ r' with code := 413 } : RR).clear, buf, .invalid)
         else if !(r.request.headers.contentLength > 0) && (buf.length : Int) > 0 &&
             (r'.request.headers.fields.find (b!"content-length")).isEmpty then
           (({ r' with code := 411 } : RR).clear, buf, .invalid)
         else RR.bodyTail cfg r' rp r.request.headers.contentLength buf)
    x.1 = x.1.clear ∨ (x.1.request.headers = r.request.headers ∧ x.1.chunk = r.chunk) := by
  intro x
  have hb := RR.bodyTail_keeps cfg r' rp r.request.headers.contentLength buf
  simp only [x]
  split
  · exact Or.inl (RR.clear_clear _)
  · split
    · exact Or.inl (RR.clear_clear _)
    · split
      · exact Or.inl (RR.clear_clear _)
      · exact Or.inr ⟨hb.1.trans hh, hb.2.trans hc⟩

theorem RR.receiveBody_keeps (cfg : Cfg) (r : RR) (rp : Bool) (buf : Bytes) :
    (RR.receiveBody cfg r rp buf).1 = (RR.receiveBody cfg r rp buf).1.clear ∨
      ((RR.receiveBody cfg r rp buf).1.request.headers = r.request.headers ∧
        (RR.receiveBody cfg r rp buf).1.chunk = r.chunk) := by
  rw [RR.receiveBody_eq]
  by_cases htr : r.request.isTrace = true
  · simp only [htr, if_true]
    by_cases h0 : (r.request.headers.contentLength == 0) = true
    · simp only [h0, if_true]
      exact RR.afterLimits_keeps cfg r { r with code := 405 } rp buf rfl rfl
    · simp only [h0, Bool.false_eq_true, if_false]
      exact Or.inl (RR.clear_clear _)
  · simp only [htr, Bool.false_eq_true, if_false]
    exact RR.afterLimits_keeps cfg r r rp buf rfl rfl

theorem RR.receiveChunk_sane (cfg : Cfg) (r : RR) (rp : Bool) (buf : Bytes) (h : r.Sane) :
    (RR.receiveChunk cfg r rp buf).1.Sane := by
  have hk : ∀ k : CK, k.Sane → (CK.parse cfg k buf).1.Sane := fun k hk => CK.parse_sane cfg k buf hk
  unfold RR.receiveChunk
  have h0 : (if r.chunk.valid then { r with chunk := {} } else r).Sane := by
    split
    · exact ⟨h.headers, CK.sane_init⟩
    · exact h
  generalize (if r.chunk.valid then { r with chunk := {} } else r) = r0 at h0
  simp only []
  have hp := hk r0.chunk h0.chunk
  repeat' split
  all_goals first
    | exact RR.clear_sane _
    | exact h0
    | exact ⟨h0.headers, h0.chunk⟩
    | exact ⟨h0.headers, hp⟩

/-- `receive` preserves the conditions -/
theorem RR.receive_sane (cfg : Cfg) (r : RR) (buf : Bytes) (h : r.Sane) : (RR.receive cfg r buf).1.Sane := by
  have hA : ∀ (r : RR) (rp : Bool) (b : Bytes), r.Sane → (RR.afterHead cfg r rp b).1.Sane := by
    intro r rp b hr
    unfold RR.afterHead
    split
    · exact ⟨hr.headers, hr.chunk⟩
    · split
      · exact RR.sane_of r _ hr (RR.receiveBody_keeps cfg r rp b)
      · exact RR.receiveChunk_sane cfg r rp b hr
  rw [RR.receive_eq]
  have hq := RQ.parse_fieldFresh cfg r.request buf h.headers
  split
  · simp only []
    split
    · split
      · exact RR.clear_sane _
      · exact ⟨hq, h.chunk⟩
    · exact hA _ _ _ ⟨hq, h.chunk⟩
  · exact hA _ _ _ h

/-- what the server does between two `receive` calls preserves them too -/
theorem RR.afterResult_sane (cfg : Cfg) (r : RR) (x : Rx) (h : r.Sane) : (RR.afterResult cfg r x).Sane := by
  cases x <;> simp only [RR.afterResult]
  · exact RR.clear_sane _
  · exact ⟨h.headers, h.chunk⟩
  · exact h
  · split
    · exact RR.clear_sane _
    · exact h
  · split
    · exact RR.clear_sane _
    · exact h

/-- the per-read loop of `http_server::receive_handler` (hand-written model) run with the TRANSLATED `receive` -/
def GenRR.readLoop (cfg : Cfg) : Nat → RR → Bytes → List Delivery → RR × Bytes × List Delivery
  | 0, r, buf, acc => (r, buf, acc.reverse)
  | fuel + 1, r, buf, acc =>
    if buf.isEmpty then (r, buf, acc.reverse)
    else
      let p := GenRR.receive cfg r buf
      let d : Delivery := { rx := p.2.2, used := buf.length - p.2.1.length, snapshot := p.1 }
      let r' := RR.afterResult cfg p.1 p.2.2
      if p.2.2 == .invalid then (r', p.2.1, (d :: acc).reverse)
      else GenRR.readLoop cfg fuel r' p.2.1 (d :: acc)

/-- over a whole read — any number of `receive` calls, with what the server does in between — the translated code
    and the model deliver the same, and leave a state in which they keep agreeing -/
theorem RR_readLoop_translated (cfg : Cfg) : ∀ (fuel : Nat) (r : RR) (buf : Bytes) (acc : List Delivery), r.Sane →
    GenRR.readLoop cfg fuel r buf acc = RR.readLoop cfg fuel r buf acc ∧ (RR.readLoop cfg fuel r buf acc).1.Sane := by
  intro fuel
  induction fuel with
  | zero => intro r buf acc h; exact ⟨rfl, h⟩
  | succ n ih =>
    intro r buf acc h
    unfold GenRR.readLoop RR.readLoop
    rw [RR_receive_translated cfg r buf h]
    have hs := RR.afterResult_sane cfg _ (RR.receive cfg r buf).2.2 (RR.receive_sane cfg r buf h)
    split
    · exact ⟨rfl, h⟩
    · simp only []
      split
      · exact ⟨rfl, hs⟩
      · exact ih _ _ _ hs

/-- … hence over any sequence of reads on a connection, starting from a fresh receiver -/
theorem RR_reads_translated (cfg : Cfg) (reads : List Bytes) :
    (reads.foldl (fun (st : RR × List (List Delivery)) rd =>
        let x := GenRR.readLoop cfg (rd.length + 1) st.1 rd []
        (x.1, st.2 ++ [x.2.2])) ({}, [])) =
    (reads.foldl (fun (st : RR × List (List Delivery)) rd =>
        let x := RR.readLoop cfg (rd.length + 1) st.1 rd []
        (x.1, st.2 ++ [x.2.2])) ({}, [])) := by
  suffices hgen : ∀ (st : RR × List (List Delivery)), st.1.Sane →
      (reads.foldl (fun (st : RR × List (List Delivery)) rd =>
        let x := GenRR.readLoop cfg (rd.length + 1) st.1 rd []
        (x.1, st.2 ++ [x.2.2])) st) =
      (reads.foldl (fun (st : RR × List (List Delivery)) rd =>
        let x := RR.readLoop cfg (rd.length + 1) st.1 rd []
        (x.1, st.2 ++ [x.2.2])) st) from hgen _ RR.sane_init
  induction reads with
  | nil => intro st _; rfl
  | cons rd rest ih =>
    intro st hst
    obtain ⟨e, hs⟩ := RR_readLoop_translated cfg (rd.length + 1) st.1 rd [] hst
    simp only [List.foldl_cons, e]
    exact ih _ hs

end Via
