import ViaGen.MH
import ViaProofs.Trans.FL
/-
  The tie between the model and the C++ of `message_headers::parse`, checked by the kernel on every run:
  `ViaGen/MH.lean` is the translation of the function as it is in /repo NOW (tools/cxx2lean.py, with the one-line
  accessors `field_line::started` / `length` / `name` / `value` it calls, and `field_line::parse` through its own
  translation); the theorems below state that the hand-written model `MH.parse` — a well-founded recursion in two
  phases (finish the field in progress, then the fresh-field loop), about which the fragmentation and bound theorems are
  proved — returns the same state, the same remaining input and the same bool as the translated `while` loop, for every
  configuration, every input and every state in which a field that has not been started is the default field (which
  holds initially and is preserved).  The translated loop carries a fuel argument; the proof shows it never runs out.
-/
namespace Via

/-- the code after the loop is the model's blank-line function -/
theorem MH_parseTail_translated (cfg : Cfg) (s : MH) (it : Bytes) : GenMH.parseTail cfg s it = MH.blank cfg s it := by
  unfold GenMH.parseTail
  cases it with
  | nil => simp [MH.blank]
  | cons c cs =>
    simp only [MH.blank, List.isEmpty_cons, List.headD_cons, Bool.false_or, List.drop_succ_cons, List.drop_zero]
    cases hb : s.blankCr <;> cases he : isEol c <;> cases h13 : c == 13 <;> cases hs : cfg.strict <;>
      simp_all <;> (cases cs <;> simp_all)

/-- one iteration of the translated loop on a field that completes: the model's `commit` -/
theorem MH_commit_fst (cfg : Cfg) (s : MH) (f : FL) :
    (MH.commit cfg s f).1 = { s with length := s.length + (f.name.length + f.value.length), number := s.number + 1,
                                     fields := s.fields.add f.name f.value, field := {} } := by
  unfold MH.commit
  simp only []
  split <;> rfl

theorem MH_commit_snd (cfg : Cfg) (s : MH) (f : FL) :
    (MH.commit cfg s f).2 =
      !(decide (s.length + (f.name.length + f.value.length) > cfg.maxHdrLen) || decide (s.number + 1 > cfg.maxHdrNum)) := by
  unfold MH.commit
  simp only []
  split
  · next h => simp only [h, Bool.not_true]
  · next h => simp only [h, Bool.not_false]

/-- (A) the fresh-field loop: with a default field in progress and enough fuel the translated loop is `MH.fresh` -/
theorem MH_parseLoop_fresh (cfg : Cfg) : ∀ (n : Nat) (it : Bytes) (s : MH) (fuel : Nat), it.length ≤ n →
    s.field = {} → s.blankCr = false → it.length + 1 ≤ fuel → GenMH.parseLoop cfg fuel s it = MH.fresh cfg s it := by
  intro n
  induction n with
  | zero =>
    intro it s fuel hn hf hb hfuel
    have : it = [] := List.eq_nil_of_length_eq_zero (by omega)
    subst this
    obtain ⟨k, rfl⟩ : ∃ k, fuel = k + 1 := ⟨fuel - 1, by simp at hfuel; omega⟩
    unfold GenMH.parseLoop MH.fresh
    simp [hb, MH_parseTail_translated, MH.blank]
  | succ n ih =>
    intro it s fuel hn hf hb hfuel
    obtain ⟨k, rfl⟩ : ∃ k, fuel = k + 1 := ⟨fuel - 1, by omega⟩
    cases it with
    | nil =>
      unfold GenMH.parseLoop MH.fresh
      simp [hb, MH_parseTail_translated, MH.blank]
    | cons c cs =>
      unfold GenMH.parseLoop MH.fresh
      have hstart : (decide (s.field.length > 0)) = false := by rw [hf]; decide
      simp only [hb, Bool.not_false, List.isEmpty_cons, Bool.true_and, hstart, Bool.false_or, List.headD_cons]
      cases he : isEol c
      · -- a header line starts here
        simp only [Bool.not_false, if_true, Bool.false_eq_true, if_false]
        rw [FL_parse_translated, hf]
        have hpk : FL.parse cfg {} (c :: cs) = FL.loop cfg {} (c :: cs) := by
          simp [FL.parse, FL.peek]
        rw [hpk]
        have hprog := FL.loop_progress cfg {} c cs (by decide)
        generalize FL.loop cfg {} (c :: cs) = r at hprog ⊢
        rw [MH_commit_snd, MH_commit_fst]
        cases hr : r.2.2
        · simp
        · simp only [Bool.not_true, Bool.false_eq_true, if_false]
          cases hemp : r.2.1.isEmpty
          · simp only [Bool.false_eq_true, if_false, Bool.not_not]
            simp only [hb]
            split
            · rfl
            · refine ih _ _ _ ?_ rfl rfl ?_
              · simp only [List.length_cons] at hn; omega
              · simp only [List.length_cons] at hfuel; omega
          · have : r.2.1 = [] := List.isEmpty_iff.mp hemp
            simp [this]
      · -- the blank line
        simp [MH_parseTail_translated]

/-- the state condition under which the two coincide: a field that has not been started is the default field
    (true initially, after `clear`, and preserved by `MH.parse`: a field is only ever left in progress after at least
    one of its characters has been consumed) -/
def MH.FieldFresh (s : MH) : Prop := s.field.started = false → s.field = {}

/-- (B) `message_headers::parse` as translated = the model's `MH.parse` -/
theorem MH_parse_translated (cfg : Cfg) (s : MH) (buf : Bytes) (hI : s.FieldFresh) :
    GenMH.parse cfg s buf = MH.parse cfg s buf := by
  unfold GenMH.parse MH.parse
  cases hb : s.blankCr
  · simp only [Bool.false_eq_true, if_false]
    cases hst : s.field.started
    · -- no field in progress
      simp only [Bool.false_eq_true, if_false]
      exact MH_parseLoop_fresh cfg buf.length buf s _ (Nat.le_refl _) (hI hst) hb (by omega)
    · -- a field line is in progress from the previous read
      simp only [if_true]
      have hdec : decide (s.field.length > 0) = true := by simpa [FL.started] using hst
      cases buf with
      | nil =>
        unfold GenMH.parseLoop
        simp [hb, MH_parseTail_translated, MH.blank]
      | cons c cs =>
        unfold GenMH.parseLoop
        simp only [hb, Bool.not_false, List.isEmpty_cons, Bool.true_and, hdec, Bool.true_or, if_true]
        rw [FL_parse_translated]
        have hle : (FL.parse cfg s.field (c :: cs)).2.1.length ≤ (c :: cs).length := by
          unfold FL.parse; exact FL.loop_rest_le cfg _ _
        generalize FL.parse cfg s.field (c :: cs) = r at hle ⊢
        rw [MH_commit_snd, MH_commit_fst]
        cases hr : r.2.2
        · simp
        · simp only [Bool.not_true, Bool.false_eq_true, if_false]
          cases hemp : r.2.1.isEmpty
          · simp only [Bool.false_eq_true, if_false, Bool.not_not]
            simp only [hb]
            split
            · rfl
            · exact MH_parseLoop_fresh cfg _ _ _ _ (Nat.le_refl _) rfl rfl (by simp only [List.length_cons] at hle ⊢; omega)
          · have : r.2.1 = [] := List.isEmpty_iff.mp hemp
            simp [this]
  · -- the CR of the blank line was the last byte of the previous read
    simp only [if_true]
    unfold GenMH.parseLoop
    simp [hb, MH_parseTail_translated]

/-! ### `FieldFresh` holds initially and is preserved, so the equivalence applies to every reachable receiver state -/

theorem FL.tr_parseChar_length (cfg : Cfg) (s : FL) (c : Byte) : (s.parseChar cfg c).1.length = s.length + 1 := by
  unfold FL.parseChar
  simp only []
  split <;> (try split) <;> (try split) <;> (try split) <;> (try unfold FL.valueStep) <;> (try split) <;> (try split) <;>
    (try split) <;> (try split) <;> simp_all

theorem FL.tr_peek_length (s : FL) (buf : Bytes) : (s.peek buf).length = s.length := by
  unfold FL.peek
  split
  · rfl
  · split <;> rfl

theorem FL.tr_loop_length_ge (cfg : Cfg) (buf : Bytes) : ∀ s : FL, s.length ≤ (FL.loop cfg s buf).1.length := by
  induction buf with
  | nil => intro s; simp [FL.loop]
  | cons c cs ih =>
    intro s
    simp only [FL.loop]
    split
    · exact Nat.le_refl _
    · split
      · simp only [FL.tr_parseChar_length]; omega
      · have := ih ((s.parseChar cfg c).1.peek cs)
        rw [FL.tr_peek_length, FL.tr_parseChar_length] at this
        omega

theorem FL.tr_loop_started (cfg : Cfg) (s : FL) (c : Byte) (cs : Bytes) (h : s.st ≠ .valid) :
    (FL.loop cfg s (c :: cs)).1.started = true := by
  have hv : (s.st == HS.valid) = false := by simp [h]
  simp only [FL.loop, hv, Bool.false_eq_true, if_false, FL.started, decide_eq_true_eq]
  split
  · simp only [FL.tr_parseChar_length]; omega
  · have := FL.tr_loop_length_ge cfg cs ((s.parseChar cfg c).1.peek cs)
    rw [FL.tr_peek_length, FL.tr_parseChar_length] at this
    omega

theorem MH.fieldFresh_init : ({} : MH).FieldFresh := fun _ => rfl

theorem MH.tr_blank_field (cfg : Cfg) (h : MH) (buf : Bytes) : (MH.blank cfg h buf).1.field = h.field := by
  unfold MH.blank
  split
  · rfl
  · split
    · rfl
    · split
      · rfl
      · simp only []
        split <;> split <;> (try split) <;> simp_all

theorem MH.fresh_fieldFresh (cfg : Cfg) : ∀ (n : Nat) (buf : Bytes) (h : MH), buf.length ≤ n → h.field = {} →
    (MH.fresh cfg h buf).1.FieldFresh := by
  intro n
  induction n with
  | zero =>
    intro buf h hn hf
    have : buf = [] := List.eq_nil_of_length_eq_zero (by omega)
    subst this
    unfold MH.fresh
    intro _; exact hf
  | succ n ih =>
    intro buf h hn hf
    cases buf with
    | nil => unfold MH.fresh; intro _; exact hf
    | cons c cs =>
      unfold MH.fresh
      split
      · intro _; rw [MH.tr_blank_field]; exact hf
      · simp only []
        have hst := FL.tr_loop_started cfg {} c cs (by decide)
        have hprog := FL.loop_progress cfg {} c cs (by decide)
        split
        · intro hns; simp only [] at hns; rw [hst] at hns; cases hns
        · split
          · intro hns; simp only [] at hns; rw [hst] at hns; cases hns
          · split
            · intro _; rw [MH_commit_fst]
            · refine ih _ _ ?_ ?_
              · simp only [List.length_cons] at hn; omega
              · rw [MH_commit_fst]

theorem MH.parse_fieldFresh (cfg : Cfg) (h : MH) (buf : Bytes) (hI : h.FieldFresh) : (MH.parse cfg h buf).1.FieldFresh := by
  unfold MH.parse
  split
  · intro hns; rw [MH.tr_blank_field] at hns ⊢; exact hI hns
  · split
    · next hst =>
      cases buf with
      | nil => exact hI
      | cons c cs =>
        simp only []
        have hlen : h.field.length ≤ (FL.parse cfg h.field (c :: cs)).1.length := by
          unfold FL.parse
          have := FL.tr_loop_length_ge cfg (c :: cs) (h.field.peek (c :: cs))
          rw [FL.tr_peek_length] at this
          exact this
        have hstarted : (FL.parse cfg h.field (c :: cs)).1.started = true := by
          simp only [FL.started, decide_eq_true_eq] at hst ⊢
          omega
        split
        · intro hns; simp only [] at hns; rw [hstarted] at hns; cases hns
        · split
          · intro hns; simp only [] at hns; rw [hstarted] at hns; cases hns
          · split
            · intro _; rw [MH_commit_fst]
            · exact MH.fresh_fieldFresh cfg _ _ _ (Nat.le_refl _) (by rw [MH_commit_fst])
    · next hst =>
      have hf : h.field = {} := hI (by simpa using hst)
      exact MH.fresh_fieldFresh cfg _ _ _ (Nat.le_refl _) hf

end Via
