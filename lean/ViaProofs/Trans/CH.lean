import ViaGen.CH
/-
  The tie between the model and the C++ of `chunk_header::parse_char`, checked by the kernel on every run:
  `ViaGen/CH.lean` is the translation of the function as it is in /repo NOW (tools/cxx2lean.py); the theorem below
  states that the hand-written model `CH.parseChar` — the function all property theorems are about — computes the
  same new state and the same returned bool for EVERY configuration, state and byte.  A change to the C++ that alters
  the function's behaviour makes this stop checking.
-/
namespace Via

theorem CH_parseChar_translated (cfg : Cfg) (s : CH) (c : Byte) : GenCH.parseChar cfg s c = CH.parseChar cfg s c := by
  obtain ⟨size, length, ws, hexSize, ext, st, sizeRead, valid, fail⟩ := s
  cases st <;> first
    | rfl
    | (simp only [GenCH.parseChar, CH.parseChar]; repeat' split) <;> simp_all

end Via
