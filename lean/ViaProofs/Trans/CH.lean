import ViaGen.CH
/-
  The tie between the model and the C++ of `chunk_header::parse_char` and `chunk_header::parse`, checked by the kernel on every run:
  `ViaGen/CH.lean` is the translation of the two functions as they are in /repo NOW (tools/cxx2lean.py); the theorems
  below state that the hand-written model functions `CH.parseChar` and `CH.parse` — the functions all property theorems
  are about — compute the same new state, the same remaining input and the same returned bool for EVERY configuration,
  state and input.  A change to the C++ that alters the behaviour of one of them makes this stop checking.
-/
namespace Via

theorem CH_parseChar_translated (cfg : Cfg) (s : CH) (c : Byte) : GenCH.parseChar cfg s c = CH.parseChar cfg s c := by
  obtain ⟨size, length, ws, hexSize, ext, st, sizeRead, valid, fail⟩ := s
  cases st <;> first
    | rfl
    | (simp only [GenCH.parseChar, CH.parseChar]; repeat' split) <;> simp_all

/-- the translated loop (with the code after the loop inlined at its exits) against the model's loop + epilogue -/
theorem CH_parseLoop_translated (cfg : Cfg) (buf : Bytes) : ∀ s : CH,
    GenCH.parseLoop cfg s buf =
      (let r := CH.loop cfg s buf
       if r.2.2 then (r.1, r.2.1, false)
       else ({ r.1 with valid := r.1.st == .valid }, r.2.1, r.1.st == .valid)) := by
  induction buf with
  | nil => intro s; simp [GenCH.parseLoop, CH.loop]
  | cons c cs ih =>
    intro s
    unfold GenCH.parseLoop CH.loop
    by_cases hv : s.st = .valid
    · simp [hv]
    · simp only [bne_iff_ne, ne_eq, hv, not_false_eq_true, ↓reduceIte, beq_iff_eq, CH_parseChar_translated]
      cases hr : (CH.parseChar cfg s c).2
      · simp
      · simp [ih]

theorem CH_parse_translated (cfg : Cfg) (s : CH) (buf : Bytes) : GenCH.parse cfg s buf = CH.parse cfg s buf := by
  unfold GenCH.parse CH.parse
  rw [CH_parseLoop_translated]

end Via
