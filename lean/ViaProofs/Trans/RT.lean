import ViaGen.RT
import ViaModel.Router
/-
  The decision chain of `request_router::handle_request` as it is in /repo NOW (ViaGen/RT.lean, tools/cxx2lean_router.py)
  = the hand-written `Router.handleRequest` about which C16 and the router part of C17 are stated.  `find_route`,
  `request_uri` and `get_route_parameters` are not translated (hand model + C16 correspondence).
-/
namespace Via

/-- the response the library builds for each outcome of the model; `chal a` = the challenge of authenticator `a` -/
def RT_abs (chal : Nat → Bytes) : Router.Outcome → GenRouter.Out
  | .notFound => .status "NOT_FOUND" []
  | .methodNotAllowed allow => .status "METHOD_NOT_ALLOWED" [("HEADER_ALLOW", allow)]
  | .unauthorised a => .status "UNAUTHORISED" [("HEADER_WWW_AUTHENTICATE", chal a)]
  | .handler id ps => .handler id ps

/-- for every route table, method, target and authenticator behaviour: the translated chain returns exactly the
    response of the model's outcome (404 / 405 + Allow / 401 + the challenge / the registered handler with the bound
    parameters); "accepted" = the authenticator returned the empty string -/
theorem RT_handleRequest (routes : List Router.Route) (chal : Nat → Bytes) (method target : Bytes) :
    GenRouter.handleRequest (Router.findRoute (Router.parseUri target).path routes) method chal =
      RT_abs chal (Router.handleRequest routes (fun a => (chal a).isEmpty) method target) := by
  unfold GenRouter.handleRequest Router.handleRequest
  cases Router.findRoute (Router.parseUri target).path routes with
  | none => rfl
  | some rp =>
    obtain ⟨r, ps⟩ := rp
    simp only []
    cases Router.mapFind method r.methods with
    | none => rfl
    | some e =>
      simp only []
      cases e.auth with
      | none => rfl
      | some a =>
        simp only []
        by_cases h : (chal a).isEmpty = true
        · simp [RT_abs, h]
        · simp [RT_abs, h]

/-- a handler of a protected route runs only when its authenticator returned the empty string (on the translated chain) -/
theorem RT_guard (found : Option (Router.Route × Router.Params)) (method : Bytes) (chal : Nat → Bytes) (id : Nat) (ps : Router.Params)
    (h : GenRouter.handleRequest found method chal = .handler id ps) :
    ∃ r e, found = some (r, ps) ∧ Router.mapFind method r.methods = some e ∧ e.handler = id ∧
      ∀ a, e.auth = some a → (chal a).isEmpty = true := by
  unfold GenRouter.handleRequest at h
  cases found with
  | none => simp at h
  | some rp =>
    obtain ⟨r, ps'⟩ := rp
    simp only [] at h
    cases hm : Router.mapFind method r.methods with
    | none => simp [hm] at h
    | some e =>
      simp only [hm] at h
      cases ha : e.auth with
      | none =>
        simp only [ha] at h
        injection h with h1 h2
        exact ⟨r, e, by rw [h2], hm, h1, by intro a h'; rw [ha] at h'; cases h'⟩
      | some a =>
        simp only [ha] at h
        cases hc : (chal a).isEmpty
        · simp [hc] at h
        · simp [hc] at h
          exact ⟨r, e, by rw [h.2], hm, h.1, by intro a' h'; rw [ha] at h'; cases h'; exact hc⟩

end Via

namespace Via

/-- `Route::search_path` and `Route::has_parameters` of the translated constructor = the model's -/
theorem RT_searchPath (r : Router.Route) : GenRouter.searchPath r.path = r.searchPath := by
  unfold GenRouter.searchPath Router.Route.searchPath
  simp only []
  cases findByte 58 r.path <;> rfl

theorem RT_hasParameters (r : Router.Route) :
    GenRouter.hasParameters r.path (GenRouter.searchPath r.path) = r.hasParameters := by
  rw [RT_searchPath]; rfl

end Via

namespace Via
/-- non-vacuity of `RT_guard`: a protected route whose authenticator accepts reaches its handler; one that returns a
    challenge gets 401 with that challenge -/
example : GenRouter.handleRequest (some ({ path := b!"/p", methods := [(b!"GET", { handler := 7, auth := some 1 })] }, []))
    (b!"GET") (fun _ => []) = .handler 7 [] := by decide
example : GenRouter.handleRequest (some ({ path := b!"/p", methods := [(b!"GET", { handler := 7, auth := some 1 })] }, []))
    (b!"GET") (fun _ => b!"Basic") = .status "UNAUTHORISED" [("HEADER_WWW_AUTHENTICATE", b!"Basic")] := by decide
end Via
