import ViaGen.ENC
/-
  The encoders as they are in /repo NOW (ViaGen/ENC.lean, tools/cxx2lean_enc.py: `http_version`,
  `header_field::to_header / content_length / chunked_encoding`, `response_status::content_permitted`,
  `request_line::to_string`, `tx_request::message`, `response_line::to_string`, `tx_response::message`,
  `chunk_header::to_string`, `last_chunk::to_string`) = the hand-written encoder model `Via.Enc.*` about which the
  round-trip theorems (`ViaProofs/Roundtrip.lean`), the C04 encoder algebra and C13 are stated.  With `Trans/RR`,
  `Trans/RS` this makes `decode (encode m) = m` a statement about the translated source on both sides.
-/
namespace Via

theorem ENC_httpVersion (maj min : Byte) : GenEnc.httpVersion maj min = Enc.httpVersion maj min := by
  simp [GenEnc.httpVersion, Enc.httpVersion]

theorem ENC_toHeader (n v : Bytes) : GenEnc.toHeader n v = Enc.toHeader n v := by
  simp [GenEnc.toHeader, Enc.toHeader, Gen.cSEPARATOR, Enc.crlf, Gen.cCRLF]

theorem ENC_contentLengthHeader (n : Nat) : GenEnc.contentLengthHeader n = Enc.contentLengthHeader n := by
  simp [GenEnc.contentLengthHeader, Enc.contentLengthHeader, Gen.cHEADER_CONTENT_LENGTH, Gen.cSEPARATOR, Enc.crlf, Gen.cCRLF]

theorem ENC_chunkedEncodingHeader : GenEnc.chunkedEncodingHeader = Enc.chunkedEncodingHeader := by
  simp [GenEnc.chunkedEncodingHeader, Enc.chunkedEncodingHeader, Gen.cHEADER_TRANSFER_ENCODING, Gen.cSEPARATOR, Gen.cCHUNKED,
    Enc.crlf, Gen.cCRLF]

theorem ENC_contentPermitted (st : Int) : GenEnc.contentPermitted st = Enc.contentPermitted st := by
  simp [GenEnc.contentPermitted, Enc.contentPermitted, Gen.contentPermittedFrom, Gen.contentNotPermitted, Bool.and_assoc]

theorem ENC_requestLine (m u : Bytes) (maj min : Byte) : GenEnc.requestLine m u maj min = Enc.requestLine m u maj min := by
  simp [GenEnc.requestLine, Enc.requestLine, ENC_httpVersion, Enc.crlf, Gen.cCRLF]

theorem ENC_needs (hs : Bytes) :
    (!(containsSub ([67, 111, 110, 116, 101, 110, 116, 45, 76, 101, 110, 103, 116, 104] : Bytes) hs) &&
      !(containsSub ([84, 114, 97, 110, 115, 102, 101, 114, 45, 69, 110, 99, 111, 100, 105, 110, 103] : Bytes) hs)) =
    Enc.needsContentLength hs := rfl

theorem ENC_txRequestMessage (m u : Bytes) (maj min : Byte) (hs : Bytes) (cl : Nat) :
    GenEnc.txRequestMessage m u maj min hs cl = Enc.txRequestMessage m u maj min hs cl := by
  simp only [GenEnc.txRequestMessage, Enc.txRequestMessage, ENC_requestLine, ENC_contentLengthHeader, ENC_needs]
  cases Enc.needsContentLength hs <;> simp [Enc.crlf, Gen.cCRLF]

theorem ENC_responseLine (maj min : Byte) (st : Int) (r : Bytes) : GenEnc.responseLine maj min st r = Enc.responseLine maj min st r := by
  simp [GenEnc.responseLine, Enc.responseLine, ENC_httpVersion, Enc.crlf, Gen.cCRLF]

theorem ENC_txResponseMessage (maj min : Byte) (st : Int) (r hs : Bytes) (cl : Nat) :
    GenEnc.txResponseMessage maj min st r hs cl = Enc.txResponseMessage maj min st r hs cl := by
  simp only [GenEnc.txResponseMessage, Enc.txResponseMessage, ENC_responseLine, ENC_contentLengthHeader, ENC_needs,
    ENC_contentPermitted]
  cases Enc.needsContentLength hs <;> cases Enc.contentPermitted st <;> simp [Enc.crlf, Gen.cCRLF]

/-- `chunk_header(size, ext).to_string()`: the hex size member is `to_hex_string(size)` (extracted fact) -/
theorem ENC_chunkHeader (n : Nat) (ext : Bytes) (_h : GenEnc.hexSizeFromToHexString = true) :
    GenEnc.chunkHeader (toHexString n) ext = Enc.chunkHeader n ext := by
  simp only [GenEnc.chunkHeader, Enc.chunkHeader]
  cases ext <;> simp [Enc.crlf, Gen.cCRLF]

theorem ENC_hexSize_fact : GenEnc.hexSizeFromToHexString = true := by decide

theorem ENC_lastChunk (ext tr : Bytes) : GenEnc.lastChunk ext tr = Enc.lastChunk ext tr := by
  simp only [GenEnc.lastChunk, Enc.lastChunk]
  cases ext <;> simp [Enc.crlf, Gen.cCRLF]

/-! ### `are_headers_split` and `tx_response::is_valid` (C13) -/

theorem ENC_splitLoop (h : Bytes) : ∀ prev pprev : Byte, GenEnc.split.loop prev pprev h = splitLoop prev pprev h := by
  induction h with
  | nil => intro prev pprev; rfl
  | cons c cs ih =>
    intro prev pprev
    simp only [GenEnc.split.loop, splitLoop]
    by_cases h1 : (c == 10) = true
    · by_cases h2 : (prev == 10) = true
      · simp [h1, h2]
      · by_cases h3 : (prev == 13 && pprev == 10) = true
        · simp [h1, h2, h3]
        · simp only [h1, h2, h3, if_true, Bool.false_eq_true, if_false, Bool.false_or, Bool.and_false, Bool.true_and]
          exact ih c prev
    · simp only [h1, Bool.false_eq_true, if_false, Bool.false_and]
      exact ih c prev

theorem ENC_areHeadersSplit (h : Bytes) : GenEnc.areHeadersSplit h = areHeadersSplit h := by
  unfold GenEnc.areHeadersSplit areHeadersSplit
  cases h with
  | nil => rfl
  | cons c cs => simp only [List.isEmpty_cons, Bool.not_false, if_true]; exact ENC_splitLoop _ _ _

theorem ENC_headersValid (h : Bytes) : GenEnc.headersValid h = headersValid h := by
  simp [GenEnc.headersValid, headersValid, ENC_areHeadersSplit]

end Via
