import ViaGen.MHA
/-
  The header look-ups of `message_headers` — `content_length()`, `is_chunked()`, `close_connection()`,
  `expect_continue()` — as they are in /repo NOW (ViaGen/MHA.lean: which field is looked up, the empty-value case, the
  lower-casing, the keyword searched for and the sense of the test are translated from the source) = the model's
  `MH.contentLength`, `MH.isChunked`, `MH.closeConnection`, `MH.expectContinue`.  These are the functions the translated
  receivers (`Trans/RR`, `Trans/RS`) refer to by name.  Still mapped, not translated: the map look-up itself
  (`std::unordered_map::find` ↦ `Fields.find`), `from_dec_string` (`strtol` ↦ `fromDecString`), `std::string::find` ↦
  `containsSub`, `std::transform(…, ::tolower)` ↦ `lowerBytes`.
-/
namespace Via

theorem MHA_contentLength_translated (s : MH) : GenMHA.contentLength s = MH.contentLength s := rfl
theorem MHA_isChunked_translated (s : MH) : GenMHA.isChunked s = MH.isChunked s := rfl
theorem MHA_closeConnection_translated (s : MH) : GenMHA.closeConnection s = MH.closeConnection s := rfl
theorem MHA_expectContinue_translated (s : MH) : GenMHA.expectContinue s = MH.expectContinue s := rfl

end Via
