import ViaGen.RQ
import ViaGen.RP
import ViaProofs.Trans.RL
import ViaProofs.Trans.SL
import ViaProofs.Trans.MH
/-
  `rx_request::parse` and `rx_response::parse` as they are in /repo NOW (ViaGen/RQ.lean, ViaGen/RP.lean: the request /
  status line through `GenRL` / `GenSL`, the headers through `GenMH`) = the model's `RQ.parse` / `RP.parse`, for every
  configuration, state with `FieldFresh` headers, and input.
-/
namespace Via

theorem RQ_parse_translated (cfg : Cfg) (q : RQ) (buf : Bytes) (hff : q.headers.FieldFresh) :
    GenRQ.parse cfg q buf = RQ.parse cfg q buf := by
  unfold GenRQ.parse GenRQ.parse_k1 GenRQ.parse_k2 RQ.parse
  simp only [RL_parse_translated]
  cases hlv : q.line.valid
  · simp only [Bool.not_false, if_true, Bool.false_eq_true, if_false]
    cases hr : (RL.parse cfg q.line buf).2.2
    · simp
    · simp only [Bool.not_true, Bool.false_eq_true, if_false]
      rw [MH_parse_translated cfg _ _ hff]
      cases hhv : q.headers.valid <;> simp <;> split <;> simp_all
  · simp only [Bool.not_true, Bool.false_eq_true, if_false]
    rw [MH_parse_translated cfg _ _ hff]
    cases hhv : q.headers.valid <;> simp <;> split <;> simp_all

theorem RP_parse_translated (cfg : Cfg) (q : RP) (buf : Bytes) (hff : q.headers.FieldFresh) :
    GenRP.parse cfg q buf = RP.parse cfg q buf := by
  unfold GenRP.parse GenRP.parse_k1 GenRP.parse_k2 RP.parse
  simp only [SL_parse_translated]
  cases hlv : q.line.valid
  · simp only [Bool.not_false, if_true, Bool.false_eq_true, if_false]
    cases hr : (SL.parse cfg q.line buf).2.2
    · simp
    · simp only [Bool.not_true, Bool.false_eq_true, if_false]
      rw [MH_parse_translated cfg _ _ hff]
      cases hhv : q.headers.valid <;> simp <;> split <;> simp_all
  · simp only [Bool.not_true, Bool.false_eq_true, if_false]
    rw [MH_parse_translated cfg _ _ hff]
    cases hhv : q.headers.valid <;> simp <;> split <;> simp_all

end Via
