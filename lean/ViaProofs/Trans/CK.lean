import ViaGen.CK
import ViaProofs.Trans.CH
import ViaProofs.Trans.MH
/-
  The tie between the model and the C++ of `rx_chunk::parse`, checked by the kernel on every run: `ViaGen/CK.lean` is
  the translation of the function as it is in /repo NOW (signed `std::ptrdiff_t` arithmetic as `Int`, iterator arithmetic
  as `take` / `drop`, the chunk-header base class and the trailers member through their own translations); the theorem
  below states that the hand-written model `CK.parse` (natural-number arithmetic, pattern matching on the remaining
  input) returns the same state, remaining input and bool, for every configuration and input and every chunk state in
  which no data has been stored beyond the announced size (and none before the size is known) and the trailers satisfy
  `FieldFresh` — conditions that hold initially and are preserved.
-/
namespace Via

/-- the data part: signed arithmetic / iterator form = natural-number / pattern-matching form -/
theorem CK_data_translated (cfg : Cfg) (s : CK) (it : Bytes) (hsz : s.data.length ≤ s.hdr.size) :
    (let data_required : Int := ((s.hdr.size : Int) - (s.data.length : Int))
     let rx_size : Int := (it.length : Int)
     if rx_size > data_required then
       let sit := if data_required > (0 : Int) then
           ({ s with data := s.data ++ it.take data_required.toNat }, it.drop data_required.toNat) else (s, it)
       let s := sit.1
       let it := sit.2
       if (!s.dataCr && ((it.headD 0) == 13)) then
         let s := { s with dataCr := true }
         let it := it.drop 1
         if (it.isEmpty || ((it.headD 0) != 10)) then (s, it, false)
         else ({ s with valid := true }, it.drop 1, true)
       else if (cfg.strict && !s.dataCr) then (s, it, false)
       else if (it.isEmpty || ((it.headD 0) != 10)) then (s, it, false)
       else ({ s with valid := true }, it.drop 1, true)
     else ({ s with data := s.data ++ it }, ([] : Bytes), false)) = CK.parseData cfg s it := by
  unfold CK.parseData
  obtain ⟨hdr, data, trailers, valid, dataCr⟩ := s
  simp only [] at hsz ⊢
  have hreq : ((hdr.size : Int) - (data.length : Int)) = ((hdr.size - data.length : Nat) : Int) := by omega
  simp only [hreq, Int.toNat_natCast, gt_iff_lt, Int.ofNat_lt, Int.natCast_pos]
  generalize hdr.size - data.length = req
  by_cases hlt : req < it.length
  · simp only [hlt, if_true]
    have hrest : it.drop req ≠ [] := by
      intro h
      have := congrArg List.length h
      simp at this
      omega
    by_cases hpos : 0 < req
    · simp only [hpos, if_true]
      cases hd : it.drop req with
      | nil => exact absurd hd hrest
      | cons c cs =>
        simp only [List.headD_cons, List.drop_succ_cons, List.drop_zero, List.isEmpty_cons, Bool.false_or]
        cases dataCr <;> cases h13 : c == 13 <;> cases hs : cfg.strict <;> simp_all <;>
          (cases cs <;> simp_all)
    · have h0 : req = 0 := by omega
      subst h0
      simp only [Nat.lt_irrefl, if_false, List.take_zero, List.append_nil, List.drop_zero]
      cases it with
      | nil => simp at hlt
      | cons c cs =>
        simp only [List.headD_cons, List.drop_succ_cons, List.drop_zero, List.isEmpty_cons, Bool.false_or]
        cases dataCr <;> cases h13 : c == 13 <;> cases hs : cfg.strict <;> cases cs <;> simp_all
  · simp [hlt]

/-- no chunk data is stored beyond the announced size, none before the size is known; trailers as required by `Trans.MH` -/
structure CK.Sane (k : CK) : Prop where
  fits : k.hdr.valid = true → k.data.length ≤ k.hdr.size
  none_before : k.hdr.valid = false → k.data = []
  trailers : k.trailers.FieldFresh

theorem CK.sane_init : ({} : CK).Sane :=
  { fits := fun h => by simp at h, none_before := fun _ => rfl, trailers := MH.fieldFresh_init }

/-- the part of `rx_chunk::parse` after the chunk header is known -/
theorem CK_rest_translated (cfg : Cfg) (s : CK) (it : Bytes) (hsz : s.data.length ≤ s.hdr.size) (hff : s.trailers.FieldFresh) :
    (if (s.hdr.size == 0) then
       let r := GenMH.parse cfg s.trailers it
       let s := { s with trailers := r.1 }
       let it := r.2.1
       if !r.2.2 then (s, it, false) else ({ s with valid := true }, it, true)
     else
       let data_required : Int := ((s.hdr.size : Int) - (s.data.length : Int))
       let rx_size : Int := (it.length : Int)
       if rx_size > data_required then
         let sit := if data_required > (0 : Int) then
             ({ s with data := s.data ++ it.take data_required.toNat }, it.drop data_required.toNat) else (s, it)
         let s := sit.1
         let it := sit.2
         if (!s.dataCr && ((it.headD 0) == 13)) then
           let s := { s with dataCr := true }
           let it := it.drop 1
           if (it.isEmpty || ((it.headD 0) != 10)) then (s, it, false)
           else ({ s with valid := true }, it.drop 1, true)
         else if (cfg.strict && !s.dataCr) then (s, it, false)
         else if (it.isEmpty || ((it.headD 0) != 10)) then (s, it, false)
         else ({ s with valid := true }, it.drop 1, true)
       else ({ s with data := s.data ++ it }, ([] : Bytes), false)) =
    (if s.isLast then
       let r := MH.parse cfg s.trailers it
       if !r.2.2 then ({ s with trailers := r.1 }, r.2.1, false)
       else ({ s with trailers := r.1, valid := true }, r.2.1, true)
     else CK.parseData cfg s it) := by
  unfold CK.isLast
  split
  · rw [MH_parse_translated cfg _ _ hff]
  · exact CK_data_translated cfg s it hsz

/-- `rx_chunk::parse` as translated = the model's `CK.parse` -/
theorem CK_parse_translated (cfg : Cfg) (k : CK) (buf : Bytes) (h : k.Sane) : GenCK.parse cfg k buf = CK.parse cfg k buf := by
  unfold GenCK.parse CK.parse
  cases hv : k.hdr.valid
  · simp only [Bool.not_false, if_true, Bool.false_eq_true, if_false]
    rw [CH_parse_translated]
    cases hr : (CH.parse cfg k.hdr buf).2.2
    · simp
    · simp only [Bool.not_true, Bool.false_eq_true, if_false]
      have hd : k.data = [] := h.none_before hv
      exact CK_rest_translated cfg { k with hdr := (CH.parse cfg k.hdr buf).1 } _ (by simp [hd]) h.trailers
  · simp only [Bool.not_true, Bool.false_eq_true, if_false]
    exact CK_rest_translated cfg k buf (h.fits hv) h.trailers

/-! ### `CK.Sane` holds initially and is preserved by `CK.parse`, so the equivalence applies to every reachable chunk state -/

theorem CH.tr_sizeStep_valid (cfg : Cfg) (s : CH) (c : Byte) : (CH.sizeStep cfg s c).1.valid = s.valid := by
  unfold CH.sizeStep
  simp only []
  repeat' split
  all_goals rfl

theorem CH.tr_extStep_valid (cfg : Cfg) (s : CH) (c : Byte) : (CH.extStep cfg s c).1.valid = s.valid := by
  unfold CH.extStep
  repeat' split
  all_goals rfl

theorem CH.tr_parseChar_valid (cfg : Cfg) (s : CH) (c : Byte) : (s.parseChar cfg c).1.valid = s.valid := by
  unfold CH.parseChar
  simp only []
  repeat' split
  all_goals first | rfl | (simp only [CH.tr_sizeStep_valid, CH.tr_extStep_valid])

theorem CH.tr_loop_valid (cfg : Cfg) (buf : Bytes) : ∀ s : CH, (CH.loop cfg s buf).1.valid = s.valid := by
  induction buf with
  | nil => intro s; simp [CH.loop]
  | cons c cs ih =>
    intro s
    simp only [CH.loop]
    split
    · rfl
    · split
      · simp only [CH.tr_parseChar_valid]
      · rw [ih, CH.tr_parseChar_valid]

/-- `chunk_header::parse` returns true exactly when it leaves the header valid (given it was not valid before) -/
theorem CH.tr_parse_valid (cfg : Cfg) (s : CH) (buf : Bytes) (h : s.valid = false) :
    (CH.parse cfg s buf).1.valid = (CH.parse cfg s buf).2.2 := by
  unfold CH.parse
  simp only []
  split
  · simp only [CH.tr_loop_valid, h]
  · rfl

/-- what the data part can do to the chunk: header and trailers untouched, data extended by at most what is required -/
theorem CK.tr_parseData_facts (cfg : Cfg) (k : CK) (buf : Bytes) :
    (CK.parseData cfg k buf).1.hdr = k.hdr ∧ (CK.parseData cfg k buf).1.trailers = k.trailers ∧
    ((CK.parseData cfg k buf).1.data = k.data ++ buf.take (k.hdr.size - k.data.length) ∨
     ((CK.parseData cfg k buf).1.data = k.data ++ buf ∧ buf.length ≤ k.hdr.size - k.data.length)) := by
  unfold CK.parseData
  simp only []
  split
  · split
    · exact ⟨rfl, rfl, Or.inl rfl⟩
    · next c cs _ =>
      by_cases h1 : (!k.dataCr && c == 13) = true
      · simp only [h1, if_true]
        split
        · exact ⟨rfl, rfl, Or.inl rfl⟩
        · split
          · exact ⟨rfl, rfl, Or.inl rfl⟩
          · exact ⟨rfl, rfl, Or.inl rfl⟩
      · simp only [h1, Bool.false_eq_true, if_false]
        by_cases h2 : (cfg.strict && !k.dataCr) = true
        · simp only [h2, if_true]
          exact ⟨trivial, trivial, Or.inl trivial⟩
        · simp only [h2, Bool.false_eq_true, if_false]
          split
          · exact ⟨rfl, rfl, Or.inl rfl⟩
          · exact ⟨rfl, rfl, Or.inl rfl⟩
  · next hge => exact ⟨rfl, rfl, Or.inr ⟨rfl, by omega⟩⟩

theorem CK.tr_parseData_sane (cfg : Cfg) (k : CK) (buf : Bytes) (hv : k.hdr.valid = true) (h : k.Sane) :
    (CK.parseData cfg k buf).1.Sane := by
  have hfit := h.fits hv
  obtain ⟨e1, e3, e2⟩ := CK.tr_parseData_facts cfg k buf
  refine { fits := fun _ => ?a, none_before := fun hh => ?b, trailers := ?c }
  case b => rw [e1, hv] at hh; cases hh
  case c => rw [e3]; exact h.trailers
  rw [e1]
  rcases e2 with e2 | ⟨e2, hle⟩
  · rw [e2]; simp only [List.length_append, List.length_take]; omega
  · rw [e2]; simp only [List.length_append]; omega

theorem CK.parse_sane (cfg : Cfg) (k : CK) (buf : Bytes) (h : k.Sane) : (CK.parse cfg k buf).1.Sane := by
  unfold CK.parse
  cases hv : k.hdr.valid
  · simp only [Bool.false_eq_true, if_false]
    have hpv := CH.tr_parse_valid cfg k.hdr buf hv
    have hd : k.data = [] := h.none_before hv
    cases hr : (CH.parse cfg k.hdr buf).2.2
    · simp only [Bool.not_false, if_true]
      refine { fits := fun hh => ?_, none_before := fun _ => hd, trailers := h.trailers }
      simp only [] at hh; rw [hpv, hr] at hh; cases hh
    · simp only [Bool.not_true, Bool.false_eq_true, if_false]
      have hs' : ({ k with hdr := (CH.parse cfg k.hdr buf).1 } : CK).Sane := by
        refine { fits := fun _ => by simp [hd], none_before := fun hh => ?_, trailers := h.trailers }
        simp only [] at hh; rw [hpv, hr] at hh; cases hh
      split
      · split
        · exact ⟨hs'.fits, hs'.none_before, MH.parse_fieldFresh cfg _ _ h.trailers⟩
        · exact ⟨hs'.fits, hs'.none_before, MH.parse_fieldFresh cfg _ _ h.trailers⟩
      · exact CK.tr_parseData_sane cfg _ _ (by (simp only []; rw [hpv, hr])) hs'
  · simp only [if_true, Bool.not_true, Bool.false_eq_true, if_false]
    split
    · split
      · exact ⟨h.fits, h.none_before, MH.parse_fieldFresh cfg _ _ h.trailers⟩
      · exact ⟨h.fits, h.none_before, MH.parse_fieldFresh cfg _ _ h.trailers⟩
    · exact CK.tr_parseData_sane cfg k buf hv h

end Via
