import ViaGen.RL
/-
  The tie between the model and the C++ of `request_line::parse_char`, checked by the kernel on every run:
  `ViaGen/RL.lean` is the translation of the function as it is in /repo NOW (tools/cxx2lean.py); the theorem below
  states that the hand-written model `RL.parseChar` — the function all property theorems are about — computes the
  same new state and the same returned bool for EVERY configuration, state and byte.  A change to the C++ that alters
  the function's behaviour makes this stop checking.
-/
namespace Via

theorem RL_parseChar_translated (cfg : Cfg) (s : RL) (c : Byte) : GenRL.parseChar cfg s c = RL.parseChar cfg s c := by
  obtain ⟨method, uri, major, minor, st, ws, valid, fail⟩ := s
  cases st <;> first
    | rfl
    | (simp only [GenRL.parseChar, RL.parseChar]; repeat' split) <;> simp_all

end Via
