import ViaGen.RL
/-
  The tie between the model and the C++ of `request_line::parse_char` and `request_line::parse`, checked by the kernel on every run:
  `ViaGen/RL.lean` is the translation of the two functions as they are in /repo NOW (tools/cxx2lean.py); the theorems
  below state that the hand-written model functions `RL.parseChar` and `RL.parse` — the functions all property theorems
  are about — compute the same new state, the same remaining input and the same returned bool for EVERY configuration,
  state and input.  A change to the C++ that alters the behaviour of one of them makes this stop checking.
-/
namespace Via

theorem RL_parseChar_translated (cfg : Cfg) (s : RL) (c : Byte) : GenRL.parseChar cfg s c = RL.parseChar cfg s c := by
  obtain ⟨method, uri, major, minor, st, ws, valid, fail⟩ := s
  cases st <;> first
    | rfl
    | (simp only [GenRL.parseChar, RL.parseChar]; repeat' split) <;> simp_all

/-- the translated loop (with the code after the loop inlined at its exits) against the model's loop + epilogue -/
theorem RL_parseLoop_translated (cfg : Cfg) (buf : Bytes) : ∀ s : RL,
    GenRL.parseLoop cfg s buf =
      (let r := RL.loop cfg s buf
       if r.2.2 then (r.1, r.2.1, false)
       else ({ r.1 with valid := r.1.st == .valid }, r.2.1, r.1.st == .valid)) := by
  induction buf with
  | nil => intro s; simp [GenRL.parseLoop, RL.loop]
  | cons c cs ih =>
    intro s
    unfold GenRL.parseLoop RL.loop
    by_cases hv : s.st = .valid
    · simp [hv]
    · simp only [bne_iff_ne, ne_eq, hv, not_false_eq_true, ↓reduceIte, beq_iff_eq, RL_parseChar_translated]
      cases hr : (RL.parseChar cfg s c).2
      · simp
      · simp [ih]

theorem RL_parse_translated (cfg : Cfg) (s : RL) (buf : Bytes) : GenRL.parse cfg s buf = RL.parse cfg s buf := by
  unfold GenRL.parse RL.parse
  rw [RL_parseLoop_translated]

end Via
