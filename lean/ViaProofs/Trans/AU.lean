import ViaGen.AU
import ViaProofs.C17
/-
  The credential check as it is in /repo NOW (ViaGen/AU.lean, tools/cxx2lean_auth.py: `basic::is_valid`,
  `basic::authenticate_value`, `authentication::authenticate`) = the hand-written model `Via.Auth.*` about which C17 is
  stated.  `GenAuth.isValid` returns `none` where an exception would leave the C++ function (`substr` beyond the end), so
  `AU_isValid` also says that no header map and no user table make `is_valid` throw.  `base64::decode` (Boost archive
  iterators) is not translated: both sides use `Auth.decode`.
-/
namespace Via

theorem AU_findByte_lt {b : Byte} {s : Bytes} {i : Nat} (h : findByte b s = some i) : i < s.length := by
  unfold findByte at h
  simp only [] at h
  split at h
  · cases h; assumption
  · cases h

/-- `basic::is_valid` over the header map `hf` and the user table `table`: never throws, and equals the model -/
theorem AU_isValid (hf : Bytes → Option Bytes) (table : Auth.Table) :
    GenAuth.isValid hf (fun u => Auth.tableFind u table) = some (Auth.basicIsValid table (hf GenAuth.lcAuthorization)) := by
  unfold GenAuth.isValid Auth.basicIsValid GenAuth.lcAuthorization
  simp only []
  cases hf [97, 117, 116, 104, 111, 114, 105, 122, 97, 116, 105, 111, 110] with
  | none => rfl
  | some a =>
    simp only []
    cases hp : findSub ([66, 97, 115, 105, 99] : Bytes) a 0 with
    | none => simp [hp]
    | some p =>
      have hb : (b!"Basic") = ([66, 97, 115, 105, 99] : Bytes) := by decide
      simp only [hb, hp]
      by_cases hgt : p + 6 > a.length
      · simp [hgt]
      · simp only [hgt, if_false]
        cases hu : findByte 58 (Auth.decode (List.drop (p + 6) a)) with
        | none => simp
        | some ue =>
          have hlt := AU_findByte_lt hu
          simp only [Nat.not_lt_zero, if_false, List.drop_zero]
          cases Auth.tableFind (List.take ue (Auth.decode (List.drop (p + 6) a))) table with
          | none => simp
          | some pw =>
            have : ¬ (ue + 1 > (Auth.decode (List.drop (p + 6) a)).length) := by omega
            simp [this]

theorem AU_authenticateValue (realm : Bytes) : GenAuth.authenticateValue realm = Auth.authenticateValue realm := by
  unfold GenAuth.authenticateValue Auth.authenticateValue
  have h1 : (b!"Basic") = ([66, 97, 115, 105, 99] : Bytes) := by decide
  have h2 : (b!"Basic realm=\"") = ([66, 97, 115, 105, 99, 32, 114, 101, 97, 108, 109, 61, 34] : Bytes) := by decide
  have h3 : (b!"\"") = ([34] : Bytes) := by decide
  rw [h1, h2, h3]
  split <;> simp

/-- `authentication::authenticate` of the translated source = the model's `authenticate`, for every header map -/
theorem AU_authenticate (hf : Bytes → Option Bytes) (table : Auth.Table) (realm : Bytes) :
    (GenAuth.isValid hf (fun u => Auth.tableFind u table)).map (fun ok => GenAuth.authenticate ok (GenAuth.authenticateValue realm))
      = some (Auth.authenticate table realm (hf GenAuth.lcAuthorization)) := by
  rw [AU_isValid, AU_authenticateValue]
  simp [GenAuth.authenticate, Auth.authenticate]

/-- the structural fact the table model rests on: `add_user` is one `insert` (first registration wins) -/
theorem AU_addUserIsInsert : GenAuth.addUserIsInsert = true := rfl

end Via

namespace Via
/-- non-vacuity: the translated `is_valid` accepts "Basic dTpw" (= base64 of "u:p") for the table [("u","p")] and
    refuses it for [("u","q")] -/
example : GenAuth.isValid (fun k => if k = GenAuth.lcAuthorization then some (b!"Basic dTpw") else none)
    (fun u => Auth.tableFind u [(b!"u", b!"p")]) = some true := by decide
example : GenAuth.isValid (fun k => if k = GenAuth.lcAuthorization then some (b!"Basic dTpw") else none)
    (fun u => Auth.tableFind u [(b!"u", b!"q")]) = some false := by decide
end Via
