import ViaProofs.Roundtrip
import ViaProofs.Trans.ENC
import ViaProofs.Trans.RR
import ViaProofs.Trans.RS
/-
  C08 stated on the TRANSLATED source on both sides: what the encoder functions of /repo's current tree (as translated in
  ViaGen/ENC.lean) produce, the receiver functions of /repo's current tree (as translated in ViaGen/RR.lean, RS.lean, CK.lean)
  accept unchanged.  Obtained from the round-trip theorems on the hand-written model (`Roundtrip.lean`) through the
  equalities model = translation (`Trans/ENC`, `Trans/RR`, `Trans/RS`, `Trans/CK`).
-/
namespace Via
namespace RT

theorem source_request_roundtrip (cfg : Cfg) (m u : Bytes) (maj min : Byte) (hs : HdrList) (body rest : Bytes)
    (ok : HeadOk cfg m u maj min (hs ++ [clLine body.length]))
    (needs : Enc.needsContentLength (encHeaders hs) = true)
    (hnocl : ∀ p ∈ hs, lowerBytes p.1 ≠ (b!"content-length"))
    (hte : (fieldsOf [] hs).find (b!"transfer-encoding") = [])
    (hhost : ¬ (maj = 49 ∧ min = 49) ∨ (fieldsOf [] hs).find (b!"host") ≠ [])
    (hfit : body.length ≤ cfg.maxContent) (hmax : body.length ≤ LONG_MAX) (htrace : m ≠ (b!"TRACE")) :
    GenRR.receive cfg {} (GenEnc.txRequestMessage m u maj min (encHeaders hs) body.length ++ (body ++ rest)) =
      (receivedRequest cfg m u maj min (hs ++ [clLine body.length]) body, rest, .valid) := by
  rw [ENC_txRequestMessage, RR_receive_translated cfg {} _ RR.sane_init]
  exact request_roundtrip cfg m u maj min hs body rest ok needs hnocl hte hhost hfit hmax htrace

theorem source_response_roundtrip (cfg : Cfg) (maj min : Byte) (status : Nat) (reason : Bytes) (hs : HdrList)
    (body rest : Bytes) (ok : RespHeadOk cfg maj min status reason (hs ++ [clLine body.length]))
    (permitted : Enc.contentPermitted (status : Int) = true)
    (needs : Enc.needsContentLength (encHeaders hs) = true)
    (hnocl : ∀ p ∈ hs, lowerBytes p.1 ≠ (b!"content-length"))
    (hte : (fieldsOf [] hs).find (b!"transfer-encoding") = [])
    (hmax : body.length ≤ LONG_MAX) :
    GenRS.receive cfg {} (GenEnc.txResponseMessage maj min (status : Int) reason (encHeaders hs) body.length ++ (body ++ rest)) =
      ({ response := parsedResponse maj min status reason (hs ++ [clLine body.length]), body := body }, rest, .valid) := by
  rw [ENC_txResponseMessage, RS_receive_translated cfg {} _ RS.sane_init]
  exact response_roundtrip cfg maj min status reason hs body rest ok permitted needs hnocl hte hmax

theorem source_chunk_roundtrip (cfg : Cfg) (ext data rest : Bytes) (hne : data ≠ [])
    (ok : ChunkHdrOk cfg data.length ext) :
    GenCK.parse cfg {} (GenEnc.chunkHeader (toHexString data.length) ext ++ (data ++ 13 :: 10 :: rest)) =
      ({ hdr := parsedChunkHdr data.length ext, data := data, valid := true, dataCr := true }, rest, true) := by
  rw [ENC_chunkHeader _ _ ENC_hexSize_fact, CK_parse_translated cfg {} _ CK.sane_init]
  exact chunk_roundtrip cfg ext data rest hne ok

theorem source_lastChunk_roundtrip (cfg : Cfg) (ext : Bytes) (ts : HdrList) (rest : Bytes)
    (ok : ChunkHdrOk cfg 0 ext) (hlines : ∀ p ∈ ts, LineOk cfg p.1 p.2)
    (hl : totalLen ts ≤ cfg.maxHdrLen) (hn : ts.length ≤ cfg.maxHdrNum) :
    GenCK.parse cfg {} (GenEnc.lastChunk ext (encHeaders ts) ++ rest) =
      ({ hdr := parsedChunkHdr 0 ext,
         trailers := { fields := fieldsOf [] ts, valid := true, blankCr := true, number := ts.length,
                       length := totalLen ts },
         valid := true }, rest, true) := by
  rw [ENC_lastChunk, CK_parse_translated cfg {} _ CK.sane_init]
  exact lastChunk_roundtrip cfg ext ts rest ok hlines hl hn

end RT
end Via
