import ViaGen.RS
import ViaProofs.Trans.RR
/-
  `response_receiver::receive` (and `clear`) as they are in /repo NOW (ViaGen/RS.lean) = the model's `RS.receive`,
  for every configuration, input and receiver state satisfying `RS.Sane` (headers `FieldFresh`, chunk `Sane`) —
  conditions that hold for a fresh receiver and are preserved by `receive` and by what `http_client` does between calls.
-/
namespace Via

structure RS.Sane (r : RS) : Prop where
  headers : r.response.headers.FieldFresh
  chunk : r.chunk.Sane

theorem RS.sane_init : ({} : RS).Sane := ⟨MH.fieldFresh_init, CK.sane_init⟩
theorem RS.clear_sane (r : RS) : r.clear.Sane := RS.sane_init

/-- what follows the head in the model's `receive` -/
def RS.afterHead (cfg : Cfg) (r : RS) (responseParsed : Bool) (buf : Bytes) : RS × Bytes × Rx :=
  if !r.response.headers.isChunked then
    let cl0 : Int := r.response.headers.contentLength
    if cl0 < 0 then (r.clear, buf, .invalid)
    else
      let rxSize : Int := buf.length
      let noCl : Bool :=
        rxSize > 0 && cl0 == 0 && (r.response.headers.fields.find (b!"content-length")).isEmpty
      let cl : Int := if noCl then (cfg.maxContent : Int) else cl0
      let required : Int := cl - r.body.length
      if rxSize > required && noCl then (r.clear, buf, .invalid)
      else
        let take : Nat := if rxSize > required then required.toNat else buf.length
        let r := { r with body := r.body ++ buf.take take }
        let rest := buf.drop take
        if (r.body.length : Int) == cl0 then (r, rest, .valid) else (r, rest, .incomplete)
  else
    let r := if r.chunk.valid then { r with chunk := {} } else r
    if responseParsed then (r, buf, .valid)
    else
      let p := CK.parse cfg r.chunk buf
      let r := { r with chunk := p.1 }
      if !p.2.2 && (!p.2.1.isEmpty || r.chunk.fail) then (r.clear, p.2.1, .invalid)
      else if r.chunk.valid then (r, p.2.1, .chunk)
      else (r, p.2.1, .incomplete)

/-- the model's `receive` without the intermediate `Option` -/
theorem RS.receive_eq (cfg : Cfg) (r : RS) (buf : Bytes) :
    RS.receive cfg r buf =
      (if !r.response.valid then
         let p := RP.parse cfg r.response buf
         if !p.2.2 then
           if !p.2.1.isEmpty || p.1.fail then (({ r with response := p.1 } : RS).clear, p.2.1, .invalid)
           else ({ r with response := p.1 }, p.2.1, .incomplete)
         else RS.afterHead cfg { r with response := p.1 } true p.2.1
       else RS.afterHead cfg r false buf) := by
  unfold RS.receive RS.afterHead
  cases hv : r.response.valid
  · simp only [Bool.not_false, if_true]
    cases hp : (RP.parse cfg r.response buf).2.2
    · simp only [Bool.not_false, if_true]
      by_cases hbad : (!(RP.parse cfg r.response buf).2.1.isEmpty || (RP.parse cfg r.response buf).1.fail) = true
      · simp only [hbad, if_true]
      · simp only [hbad, Bool.false_eq_true, if_false]
    · simp only [Bool.not_true, Bool.false_eq_true, if_false]
  · simp only [Bool.not_true, Bool.false_eq_true, if_false]

theorem RS_k1_translated (cfg : Cfg) (s : RS) (rp : Bool) (it : Bytes) (hs : s.chunk.Sane) :
    GenRS.receive_k1 cfg rp s it = RS.afterHead cfg s rp it := by
  unfold GenRS.receive_k1 GenRS.receive_k3 GenRS.receive_k4 GenRS.receive_k2 RS.afterHead
  simp only [GenRS_clear_eq]
  by_cases hch : (!MH.isChunked s.response.headers) = true
  · simp only [hch, if_true]
    generalize hcl : MH.contentLength s.response.headers = cl
    by_cases hneg : cl < 0
    · simp only [hneg, if_true]
    · have hpos : 0 ≤ cl := by omega
      simp only [hneg, if_false]
      generalize hno : (decide ((it.length : Int) > 0) && (cl == 0) &&
        (Fields.find s.response.headers.fields ([99, 111, 110, 116, 101, 110, 116, 45, 108, 101, 110, 103, 116, 104] : Bytes)).isEmpty) = noCl
      generalize hcl2 : (if noCl = true then (cfg.maxContent : Int) else cl) = cl2
      by_cases hc : (it.length : Int) > cl2 - (s.body.length : Int)
      · simp only [hc, if_true, decide_true, Bool.true_and]
        cases noCl
        · simp only [Bool.false_eq_true, if_false, nat_beq_toNat _ _ hpos]
        · simp only [if_true]
      · simp only [hc, if_false, decide_false, Bool.false_and, Bool.false_eq_true]
        cases it with
        | nil =>
          simp only [List.isEmpty_nil, Bool.not_true, Bool.false_eq_true, if_false, List.take_nil, List.drop_nil,
            List.append_nil, hcl, nat_beq_toNat _ _ hpos]
        | cons c cs =>
          simp only [List.isEmpty_cons, Bool.not_false, if_true, List.take_length, List.drop_length, hcl,
            nat_beq_toNat _ _ hpos]
  · simp only [hch, Bool.false_eq_true, if_false]
    have hk : (if s.chunk.valid then ({ s with chunk := {} } : RS) else s).chunk.Sane := by
      split
      · exact CK.sane_init
      · exact hs
    cases hv : s.chunk.valid
    · simp only [Bool.false_eq_true, if_false]
      cases rp
      · simp only [Bool.false_eq_true, if_false, CK_parse_translated cfg _ _ hs, CK.fail, MH.fail]
        generalize CK.parse cfg s.chunk it = p
        obtain ⟨k, rest, ok⟩ := p
        cases ok <;> simp
      · simp only [if_true]
    · simp only [if_true]
      cases rp
      · simp only [Bool.false_eq_true, if_false, CK_parse_translated cfg _ _ CK.sane_init, CK.fail, MH.fail]
        generalize CK.parse cfg {} it = p
        obtain ⟨k, rest, ok⟩ := p
        cases ok <;> simp
      · simp only [if_true]

/-- **`response_receiver::receive` as it is in /repo now = the model's `RS.receive`.** -/
theorem RS_receive_translated (cfg : Cfg) (r : RS) (buf : Bytes) (h : r.Sane) :
    GenRS.receive cfg r buf = RS.receive cfg r buf := by
  rw [RS.receive_eq]
  unfold GenRS.receive
  simp only [GenRS_clear_eq, RP_parse_translated cfg _ _ h.headers, RP.fail, MH.fail]
  cases hv : r.response.valid
  · simp only [Bool.not_false, if_true]
    cases hp : (RP.parse cfg r.response buf).2.2
    · simp only [Bool.not_false, if_true]
      rfl
    · simp only [Bool.not_true, Bool.false_eq_true, if_false]
      exact RS_k1_translated cfg _ true _ h.chunk
  · simp only [Bool.not_true, Bool.false_eq_true, if_false]
    exact RS_k1_translated cfg r false buf h.chunk

/-! ### the conditions are preserved -/

theorem RP.parse_fieldFresh (cfg : Cfg) (q : RP) (buf : Bytes) (h : q.headers.FieldFresh) :
    (RP.parse cfg q buf).1.headers.FieldFresh := by
  unfold RP.parse
  have hm := fun b => MH.parse_fieldFresh cfg q.headers b h
  cases hlv : q.line.valid <;> simp only [Bool.false_eq_true, if_false, if_true]
  · cases hr : (SL.parse cfg q.line buf).2.2 <;> simp only [Bool.not_false, Bool.not_true, Bool.false_eq_true, if_true, if_false]
    · exact h
    · cases hhv : q.headers.valid <;> simp only [Bool.false_eq_true, if_false, if_true]
      · split <;> exact hm _
      · exact h
  · simp only [Bool.not_true, Bool.false_eq_true, if_false]
    cases hhv : q.headers.valid <;> simp only [Bool.false_eq_true, if_false, if_true]
    · split <;> exact hm _
    · exact h

theorem RS.afterHead_sane (cfg : Cfg) (r : RS) (rp : Bool) (buf : Bytes) (h : r.Sane) :
    (RS.afterHead cfg r rp buf).1.Sane := by
  have hk : ∀ k : CK, k.Sane → (CK.parse cfg k buf).1.Sane := fun k hk => CK.parse_sane cfg k buf hk
  unfold RS.afterHead
  split
  · simp only []
    repeat' split
    all_goals first
      | exact RS.sane_init
      | exact ⟨h.headers, h.chunk⟩
  · have h0 : (if r.chunk.valid then { r with chunk := {} } else r).Sane := by
      split
      · exact ⟨h.headers, CK.sane_init⟩
      · exact h
    generalize (if r.chunk.valid then { r with chunk := {} } else r) = r0 at h0
    simp only []
    have hp := hk r0.chunk h0.chunk
    repeat' split
    all_goals first
      | exact RS.sane_init
      | exact h0
      | exact ⟨h0.headers, hp⟩

theorem RS.receive_sane (cfg : Cfg) (r : RS) (buf : Bytes) (h : r.Sane) : (RS.receive cfg r buf).1.Sane := by
  rw [RS.receive_eq]
  have hq := RP.parse_fieldFresh cfg r.response buf h.headers
  split
  · simp only []
    split
    · split
      · exact RS.sane_init
      · exact ⟨hq, h.chunk⟩
    · exact RS.afterHead_sane cfg _ _ _ ⟨hq, h.chunk⟩
  · exact RS.afterHead_sane cfg _ _ _ h

theorem RS.afterResult_sane (r : RS) (x : Rx) (h : r.Sane) : (RS.afterResult r x).Sane := by
  cases x <;> simp only [RS.afterResult]
  · exact RS.sane_init
  · exact h
  · exact h
  · split
    · exact RS.sane_init
    · exact h
  · split
    · exact RS.sane_init
    · exact h

/-- the per-read loop of `http_client::receive_handler` (hand-written model) run with the TRANSLATED `receive` -/
def GenRS.readLoop (cfg : Cfg) : Nat → RS → Bytes → List RDelivery → RS × Bytes × List RDelivery
  | 0, r, buf, acc => (r, buf, acc.reverse)
  | fuel + 1, r, buf, acc =>
    if buf.isEmpty then (r, buf, acc.reverse)
    else
      let p := GenRS.receive cfg r buf
      let d : RDelivery := { rx := p.2.2, used := buf.length - p.2.1.length, snapshot := p.1 }
      let r' := RS.afterResult p.1 p.2.2
      if p.2.2 == .invalid then (r', p.2.1, (d :: acc).reverse)
      else GenRS.readLoop cfg fuel r' p.2.1 (d :: acc)

theorem RS_readLoop_translated (cfg : Cfg) : ∀ (fuel : Nat) (r : RS) (buf : Bytes) (acc : List RDelivery), r.Sane →
    GenRS.readLoop cfg fuel r buf acc = RS.readLoop cfg fuel r buf acc ∧ (RS.readLoop cfg fuel r buf acc).1.Sane := by
  intro fuel
  induction fuel with
  | zero => intro r buf acc h; exact ⟨rfl, h⟩
  | succ n ih =>
    intro r buf acc h
    unfold GenRS.readLoop RS.readLoop
    rw [RS_receive_translated cfg r buf h]
    have hs := RS.afterResult_sane _ (RS.receive cfg r buf).2.2 (RS.receive_sane cfg r buf h)
    split
    · exact ⟨rfl, h⟩
    · simp only []
      split
      · exact ⟨rfl, hs⟩
      · exact ih _ _ _ hs

end Via
