import ViaGen.FL
/-
  The tie between the model and the C++ of `field_line::parse_char` and `field_line::parse`, checked by the kernel on every run:
  `ViaGen/FL.lean` is the translation of the two functions as they are in /repo NOW (tools/cxx2lean.py); the theorems
  below state that the hand-written model functions `FL.parseChar` and `FL.parse` — the functions all property theorems
  are about — compute the same new state, the same remaining input and the same returned bool for EVERY configuration,
  state and input.  A change to the C++ that alters the behaviour of one of them makes this stop checking.
-/
namespace Via

theorem FL_parseChar_translated (cfg : Cfg) (s : FL) (c : Byte) : GenFL.parseChar cfg s c = FL.parseChar cfg s c := by
  obtain ⟨name, value, length, ws, st, fail⟩ := s
  cases st <;> first
    | rfl
    | (simp only [GenFL.parseChar, FL.parseChar]; repeat' split) <;> simp_all

/-- the fold look-ahead as the code writes it (`(iter != end) && std::isblank(*iter)`) is the model's `peek` -/
theorem FL_peek_translated (s : FL) (it : Bytes) :
    (if (s.st == .valid) then (if ((!it.isEmpty) && (isBlank (it.headD 0))) then { s with value := s.value ++ [32], st := .valueLs } else s) else s) = s.peek it := by
  cases it with
  | nil => simp [FL.peek]
  | cons d ds => simp [FL.peek]; split <;> simp_all

theorem FL_parseLoop_translated (cfg : Cfg) (buf : Bytes) : ∀ s : FL,
    GenFL.parseLoop cfg s buf = FL.loop cfg s buf := by
  induction buf with
  | nil => intro s; simp [GenFL.parseLoop, FL.loop]
  | cons c cs ih =>
    intro s
    unfold GenFL.parseLoop FL.loop
    by_cases hv : s.st = .valid
    · simp [hv]
    · simp only [bne_iff_ne, ne_eq, hv, not_false_eq_true, ↓reduceIte, beq_iff_eq, FL_parseChar_translated]
      cases hr : (FL.parseChar cfg s c).2
      · simp
      · simp only [Bool.not_true, Bool.false_eq_true, ↓reduceIte]
        rw [ih, ← FL_peek_translated]
        simp

theorem FL_parse_translated (cfg : Cfg) (s : FL) (buf : Bytes) : GenFL.parse cfg s buf = FL.parse cfg s buf := by
  unfold GenFL.parse FL.parse
  rw [FL_parseLoop_translated, ← FL_peek_translated]
  congr 1
  cases h : s.st == .valid <;> simp

end Via
