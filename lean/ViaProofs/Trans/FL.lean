import ViaGen.FL
/-
  The tie between the model and the C++ of `field_line::parse_char`, checked by the kernel on every run:
  `ViaGen/FL.lean` is the translation of the function as it is in /repo NOW (tools/cxx2lean.py); the theorem below
  states that the hand-written model `FL.parseChar` — the function all property theorems are about — computes the
  same new state and the same returned bool for EVERY configuration, state and byte.  A change to the C++ that alters
  the function's behaviour makes this stop checking.
-/
namespace Via

theorem FL_parseChar_translated (cfg : Cfg) (s : FL) (c : Byte) : GenFL.parseChar cfg s c = FL.parseChar cfg s c := by
  obtain ⟨name, value, length, ws, st, fail⟩ := s
  cases st <;> first
    | rfl
    | (simp only [GenFL.parseChar, FL.parseChar]; repeat' split) <;> simp_all

end Via
