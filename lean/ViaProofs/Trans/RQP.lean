import ViaGen.RQP
/-
  The predicates of `rx_request` / `rx_response` that the connection layer consults — `keep_alive()` (C09: close or
  keep the connection), `missing_host_header()`, `expect_continue()` (C15), `is_head()` (C14), `is_trace()` — as they are
  in /repo NOW (each a one-line `return`, resolved through the class hierarchy down to data members by
  tools/cxx2lean_rx.py) = the model's predicates, which the connection model (`Conn.lean`) and the property theorems use.
-/
namespace Via

theorem RQ_keepAlive_translated (q : RQ) : GenRQ.keepAlive q = q.keepAlive := rfl
theorem RQ_missingHost_translated (q : RQ) : GenRQ.missingHost q = q.missingHost := rfl
theorem RQ_expectContinue_translated (q : RQ) : GenRQ.expectContinue q = q.expectContinue := rfl
theorem RQ_isHead_translated (q : RQ) : GenRQ.isHead q = q.isHead := rfl
theorem RQ_isTrace_translated (q : RQ) : GenRQ.isTrace q = q.isTrace := rfl
theorem RP_keepAlive_translated (q : RP) : GenRP.keepAlive q = q.keepAlive := rfl

end Via
