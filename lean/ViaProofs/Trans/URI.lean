import ViaGen.URI
import ViaModel.Router
/-
  `request_uri::request_uri` as it is in /repo NOW (ViaGen/URI.lean, tools/cxx2lean_uri.py; `size_t` with wrap-around,
  `npos` = 2^64 - 1) = the hand-written `Router.parseUri` used by C16, for every string shorter than `npos`
  (`std::string::max_size()` is far below that), and no exception leaves the constructor.
-/
namespace Via

theorem URI_findByte_lt {b : Byte} {s : Bytes} {i : Nat} (h : findByte b s = some i) : i < s.length := by
  unfold findByte at h
  simp only [] at h
  split at h
  · cases h; assumption
  · cases h

theorem URI_parse (uri : Bytes) (hlen : uri.length < 2 ^ 64 - 1) :
    GenUri.parse uri = some ((Router.parseUri uri).path, (Router.parseUri uri).query, (Router.parseUri uri).fragment) := by
  unfold GenUri.parse Router.parseUri GenUri.sfind GenUri.npos GenUri.winc GenUri.wsub
  have hlen' : uri.length < 18446744073709551615 := hlen
  cases hq : findByte 63 uri with
  | none =>
    cases hf : findByte 35 uri with
    | none => simp [hq, hf]
    | some f =>
      have hfl := URI_findByte_lt hf
      have h1 : f ≠ 18446744073709551615 := by omega
      have h2 : ¬ (18446744073709551615 < f) := by omega
      have h3 : ¬ (f > uri.length) := by omega
      have h4 : (f + 1) % 18446744073709551616 = f + 1 := Nat.mod_eq_of_lt (by omega)
      have h5 : ¬ (f + 1 > uri.length) := by omega
      simp [hq, hf, h1, h2, h3, h4, h5]
  | some q =>
    have hql := URI_findByte_lt hq
    have g4 : (q + 1) % 18446744073709551616 = q + 1 := Nat.mod_eq_of_lt (by omega)
    have g3 : ¬ (q > uri.length) := by omega
    have g5 : ¬ (q + 1 > uri.length) := by omega
    cases hf : findByte 35 uri with
    | none =>
      have g1 : q < 18446744073709551615 := by omega
      have g6 : (18446744073709551615 + 18446744073709551616 - (q + 1)) % 18446744073709551616 = 18446744073709551615 - (q + 1) := by omega
      have g7 : (List.drop (q + 1) uri).take (18446744073709551615 - (q + 1)) = List.drop (q + 1) uri := by
        apply List.take_of_length_le; simp; omega
      simp [hq, hf, g1, g3, g4, g5]
      apply List.take_of_length_le; simp; omega
    | some f =>
      have hfl := URI_findByte_lt hf
      have h1 : f ≠ 18446744073709551615 := by omega
      have h4 : (f + 1) % 18446744073709551616 = f + 1 := Nat.mod_eq_of_lt (by omega)
      have h5 : ¬ (f + 1 > uri.length) := by omega
      have h3 : ¬ (f > uri.length) := by omega
      by_cases hqf : q < f
      · have g6 : (f + 18446744073709551616 - (q + 1)) % 18446744073709551616 = f - (q + 1) := by omega
        simp [hq, hf, hqf, h1, h3, h4, h5, g3, g4, g5]
        omega
      · simp [hq, hf, hqf, h1, h3, h4, h5, g3, g4, g5]

end Via

namespace Via
/-- non-vacuity: a target with a query and a fragment (hypothesis of `URI_parse` met, all three parts non-empty) -/
example : GenUri.parse (b!"/a/b?x=1#frag") = some (b!"/a/b", b!"x=1", b!"frag") ∧ (b!"/a/b?x=1#frag").length < 2 ^ 64 - 1 := by
  decide
/-- a '#' before the '?': no query, the fragment keeps the '?' -/
example : GenUri.parse (b!"/a#f?q") = some (b!"/a", [], b!"f?q") := by decide
end Via
