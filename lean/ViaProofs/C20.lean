import ViaProofs.Statements
/-
  C20 — a configured idle timeout actually closes silent connections.

  In the model nothing reacts to the passage of time: the connection layer has no timer, the timeout is only
  passed to `setsockopt(SO_RCVTIMEO / SO_SNDTIMEO)`, which has no effect on a socket driven by asynchronous
  (non-blocking) operations.  That this is what the source does is an extracted fact; under it the property is
  FALSE of the model, which is what `C20_counterexample` states.  The real-socket run (net_driver) confirms it on
  the implementation: known finding C20-KF1.  If a timer is added to the connection code the extracted fact
  changes, this file stops checking, and the real-socket run becomes the oracle.
-/
namespace Via

/-- the server-side connection code uses no timer; the timeout reaches the socket only through two setsockopt calls -/
theorem C20_no_timer_in_source : Gen.serverSideTimerUses = 0 ∧ Gen.rcvTimeoutSockoptUses = 2 := by decide

/-- passage of time is not an event of the connection layer: `tick` is the identity -/
def tick (w : Sim.World) : Sim.World := w

def ticks : Nat → Sim.World → Sim.World
  | 0, w => w
  | n + 1, w => ticks n (tick w)

/-- whatever the state of a connection and however long the peer stays silent, nothing closes it -/
theorem C20_counterexample (w : Sim.World) (i : Nat) (n : Nat) :
    ((ticks n w).get i).sockOpen = (w.get i).sockOpen := by
  induction n generalizing w with
  | zero => rfl
  | succ k ih => simpa [ticks, tick] using ih w

end Via
