import ViaProofs.Statements
import ViaProofs.C05
/-
  C07 — client-side response reception is faithful and fragmentation-invariant.

  The client's receiver shares the header and chunk parsers with the server (laws in `Frag/`).  This file lifts them
  to `response_receiver::receive` and to the per-read loop of `http_client::receive_handler`, exactly as
  `ViaProofs/C01.lean` does for requests:
  * `RS.receive_head_seq`, `RS.receive_head_fail_seq`  one `receive` call versus two while the response head is
                               being received / when it is rejected (a malformed response is INVALID whatever the cut);
  * `C07_frag`                 for every byte stream whose single-read run is clean (nothing rejected, every byte
                               consumed) every partition into non-empty reads delivers exactly the same responses and
                               chunks (status, reason, version, header fields, body, chunk data, extensions, trailers).

  The proof of `C07_frag` follows `C01.lean`: `C07.step_split` (one `receive` call on `a ++ b` versus the call on
  `a` followed by the rest of the loop on what it left and `b`), `C07.run_split` (two reads), `C07.feedE_flatten`
  (any number of reads), with the reachable-state invariant and the progress theorem of `C05.lean` (`RS.Ok`,
  `RS.receive_progress`, `RS.ok_step`).  The only read-dependent branch of `response_receiver::receive` — a response
  without Content-Length and bytes in the buffer — swallows the whole buffer and can never complete
  (`C07.body_lengthless`), so a run through it does not end in the initial state: `RClean` excludes it.
-/
namespace Via

namespace C07

/-- `rx_response::parse` returns `true` exactly when it sets `valid` -/
theorem RP_parse_valid (cfg : Cfg) (q : RP) (buf : Bytes) (hv : q.valid = false) :
    (RP.parse cfg q buf).1.valid = (RP.parse cfg q buf).2.2 := by
  unfold RP.parse
  dsimp only
  repeat' split
  all_goals simp_all

theorem RP_not_done (q : RP) (hd : RP.done q = false) :
    q.valid = false ∧ RP.fail q = false := by
  simp only [RP.done, Bool.or_eq_false_iff] at hd
  simp [RP.fail, MH.fail, hd]

theorem RP_done_of (q : RP) (hv : q.valid = false) (hf : RP.fail q = false) : RP.done q = false := by
  simp only [RP.fail, MH.fail, Bool.or_eq_false_iff] at hf
  simp [RP.done, hv, hf]

set_option linter.unusedSimpArgs false in
/-- the first part of `receive` while the response head is being parsed -/
theorem receive_head (cfg : Cfg) (r : RS) (buf : Bytes) (hv : r.response.valid = false) :
    RS.receive cfg r buf =
      (let p := RP.parse cfg r.response buf
       let r1 := { r with response := p.1 }
       if p.2.2 = false then
         if p.2.1 ≠ [] ∨ p.1.fail = true then (({} : RS), p.2.1, .invalid)
         else (r1, p.2.1, .incomplete)
       else C05.RS_tail cfg r1 true p.2.1) := by
  unfold RS.receive C05.RS_tail
  simp only [hv, Bool.not_false, if_true]
  generalize RP.parse cfg r.response buf = p
  obtain ⟨q1, rest, bo⟩ := p
  cases bo with
  | true =>
    simp only [Bool.not_true, Bool.false_eq_true, if_false]
    rfl
  | false => cases rest <;> cases hf : q1.fail <;> simp [hf, RS.clear, RP.fail]

end C07

theorem RS.receive_head_seq (cfg : Cfg) (r : RS) (a b : Bytes)
    (hv : r.response.valid = false) (hd : RP.done r.response = false)
    (hinc : RP.done (RP.parse cfg r.response a).1 = false ∧ (RP.parse cfg r.response a).2.1 = []) :
    RS.receive cfg r a = ({ r with response := (RP.parse cfg r.response a).1 }, [], .incomplete) ∧
    RS.receive cfg r (a ++ b) = RS.receive cfg { r with response := (RP.parse cfg r.response a).1 } b := by
  obtain ⟨h1, h2⟩ := hinc
  obtain ⟨hv1, hf1⟩ := C07.RP_not_done _ h1
  have hb := C07.RP_parse_valid cfg r.response a hv
  rw [hv1] at hb
  have law := RP.parse_seq cfg r.response a b hd
  simp only [h1, h2, List.isEmpty_nil, Bool.not_true, Bool.or_self, Bool.false_eq_true, if_false] at law
  constructor
  · rw [C07.receive_head cfg r a hv]
    simp [← hb, h2, hf1]
  · rw [C07.receive_head cfg r (a ++ b) hv, C07.receive_head cfg _ b hv1, law]

theorem RS.receive_head_fail_seq (cfg : Cfg) (r : RS) (a b : Bytes)
    (hv : r.response.valid = false) (hd : RP.done r.response = false)
    (hfail : (RP.parse cfg r.response a).2.2 = false ∧
             ((RP.parse cfg r.response a).1.fail = true ∨ (RP.parse cfg r.response a).2.1 ≠ [])) :
    (RS.receive cfg r a).2.2 = .invalid ∧
    RS.receive cfg r (a ++ b) = ((RS.receive cfg r a).1, (RS.receive cfg r a).2.1 ++ b, .invalid) := by
  obtain ⟨h1, h2⟩ := hfail
  have law := RP.parse_seq cfg r.response a b hd
  have hc : (RP.done (RP.parse cfg r.response a).1 || !(RP.parse cfg r.response a).2.1.isEmpty) = true := by
    rcases h2 with h2 | h2
    · have : RP.done (RP.parse cfg r.response a).1 = true := by
        simp only [RP.fail, MH.fail, Bool.or_eq_true] at h2
        simp only [RP.done, Bool.or_eq_true]
        rcases h2 with h2 | h2
        · exact Or.inl (Or.inr h2)
        · exact Or.inr h2
      simp [this]
    · cases h : (RP.parse cfg r.response a).2.1 with
      | nil => exact absurd h h2
      | cons c cs => simp
  simp only [hc, if_true] at law
  have hcond : ((RP.parse cfg r.response a).2.1 ≠ [] ∨ (RP.parse cfg r.response a).1.fail = true) := h2.symm
  have hcond' : ((RP.parse cfg r.response a).2.1 ++ b ≠ [] ∨ (RP.parse cfg r.response a).1.fail = true) := by
    rcases hcond with h | h
    · left
      intro e
      exact h (List.append_eq_nil_iff.mp e).1
    · exact Or.inr h
  rw [C07.receive_head cfg r (a ++ b) hv, C07.receive_head cfg r a hv, law]
  simp only [h1, if_true, hcond, hcond']
  exact ⟨trivial, trivial⟩


/-- `http_client::receive_handler` applied to successive reads -/
def RS.feed (cfg : Cfg) (r : RS) : List Bytes → RS × List RDelivery
  | [] => (r, [])
  | rd :: rest =>
    let x := RS.readLoop cfg (rd.length + 1) r rd []
    let y := RS.feed cfg x.1 rest
    (y.1, x.2.2 ++ y.2)

/-- what a response / chunk handler can observe -/
structure RView where
  rx : Rx
  status : Nat
  reason : Bytes
  major : Byte
  minor : Byte
  fields : Fields
  body : Bytes
  chunkSize : Nat
  chunkExt : Bytes
  chunkData : Bytes
  trailers : Fields
deriving DecidableEq, Repr

def rviewOf (d : RDelivery) : RView :=
  let r := d.snapshot
  { rx := d.rx, status := r.response.line.status, reason := r.response.line.reason, major := r.response.line.major,
    minor := r.response.line.minor, fields := r.response.headers.fields, body := r.body,
    chunkSize := r.chunk.hdr.size, chunkExt := r.chunk.hdr.ext, chunkData := r.chunk.data,
    trailers := r.chunk.trailers.fields }

def rpayload (ds : List RDelivery) : List RView :=
  (ds.filter fun d => d.rx == .valid || d.rx == .chunk).map rviewOf

/-- the single-read run is clean: nothing is rejected, every byte is consumed and every response is complete (the
    receiver is back in its initial state).  The last condition excludes a response WITHOUT Content-Length and without
    chunked coding that has a body: its body is delimited by the close of the connection, and whether bytes that
    follow the head belong to it depends on whether they arrive in the same read (outside the property, see C05). -/
def RClean (cfg : Cfg) (bs : Bytes) : Prop :=
  let x := RS.readLoop cfg (bs.length + 1) {} bs []
  x.2.1 = [] ∧ (∀ d ∈ x.2.2, d.rx ≠ .invalid) ∧ x.1 = {}

def C07_frag_statement : Prop :=
  ∀ (cfg : Cfg) (bs : Bytes), RClean cfg bs →
    ∀ (ps : List Bytes), ps.flatten = bs → (∀ p ∈ ps, p ≠ []) →
      rpayload (RS.feed cfg {} ps).2 = rpayload (RS.feed cfg {} [bs]).2

namespace C07

/-! ### `rx_chunk::parse` returns `true` exactly when it sets `valid` -/

theorem CK_lf_valid (k : CK) (x : Bytes) (hv : k.valid = false) :
    (Cmp.CK_lf k x).1.valid = (Cmp.CK_lf k x).2.2 := by
  cases x with
  | nil => exact hv
  | cons d ds =>
    simp only [Cmp.CK_lf]
    split
    · exact hv
    · rfl

theorem CK_tail_valid (cfg : Cfg) (k : CK) (x : Bytes) (hv : k.valid = false) :
    (Cmp.CK_tail cfg k x).1.valid = (Cmp.CK_tail cfg k x).2.2 := by
  cases x with
  | nil => exact hv
  | cons c cs =>
    simp only [Cmp.CK_tail]
    split
    · exact CK_lf_valid _ _ hv
    · split
      · exact hv
      · exact CK_lf_valid _ _ hv

theorem CK_body_valid (cfg : Cfg) (k : CK) (x : Bytes) (hv : k.valid = false) :
    (Cmp.CK_body cfg k x).1.valid = (Cmp.CK_body cfg k x).2.2 := by
  unfold Cmp.CK_body
  split
  · dsimp only
    split
    · exact hv
    · rfl
  · rw [Cmp.CK_parseData_eq]
    split
    · exact CK_tail_valid cfg _ _ hv
    · exact hv

theorem CK_parse_valid (cfg : Cfg) (k : CK) (x : Bytes) (hv : k.valid = false) :
    (CK.parse cfg k x).1.valid = (CK.parse cfg k x).2.2 := by
  rw [Cmp.CK_parse_eq]
  unfold Cmp.seq2
  split
  · exact CK_body_valid cfg k x hv
  · dsimp only
    split
    · exact CK_body_valid cfg _ _ hv
    · exact hv

theorem CK_fail_of_done (k : CK) (hv : k.valid = false) (hd : CK.done k = true) : CK.fail k = true := by
  simp only [CK.done, hv, Bool.false_or] at hd
  simpa [CK.fail, MH.fail] using hd

theorem CK_done_of (k : CK) (hv : k.valid = false) (hf : CK.fail k = false) : CK.done k = false := by
  simp only [CK.fail, MH.fail, Bool.or_eq_false_iff] at hf
  simp [CK.done, hv, hf]

/-! ### the chunked branch in normal form -/

/-- the previous chunk is dropped when a new one starts -/
def reset (r : RS) : RS := if r.chunk.valid then { r with chunk := {} } else r

/-- parse chunk bytes and classify the result -/
def chunkParse (cfg : Cfg) (r : RS) (buf : Bytes) : RS × Bytes × Rx :=
  let p := CK.parse cfg r.chunk buf
  let r := { r with chunk := p.1 }
  if !p.2.2 && (!p.2.1.isEmpty || r.chunk.fail) then (({} : RS), p.2.1, .invalid)
  else if r.chunk.valid then (r, p.2.1, .chunk)
  else (r, p.2.1, .incomplete)

theorem tail_chunked (cfg : Cfg) (r : RS) (rp : Bool) (buf : Bytes) (hc : r.response.headers.isChunked = true) :
    C05.RS_tail cfg r rp buf = if rp then (reset r, buf, .valid) else chunkParse cfg (reset r) buf := by
  unfold C05.RS_tail C05.RS_chunkCore
  simp only [hc, Bool.not_true, Bool.false_eq_true, if_false]
  rfl

theorem reset_facts (r : RS) : (reset r).response = r.response ∧ (reset r).body = r.body ∧
    (reset r).chunk.valid = false ∧
    ((r.chunk.valid = false → CK.done r.chunk = false) → CK.done (reset r).chunk = false) := by
  unfold reset
  split
  · exact ⟨rfl, rfl, rfl, fun _ => rfl⟩
  · rename_i h
    have : r.chunk.valid = false := by simpa using h
    exact ⟨rfl, rfl, this, fun h => h this⟩

theorem reset_of_not_valid (r : RS) (h : r.chunk.valid = false) : reset r = r := by
  unfold reset
  simp [h]

theorem chunkParse_fin (cfg : Cfg) (r : RS) (x b : Bytes) (hv : r.chunk.valid = false)
    (hd : CK.done r.chunk = false)
    (hc : (CK.done (CK.parse cfg r.chunk x).1 || !(CK.parse cfg r.chunk x).2.1.isEmpty) = true) :
    chunkParse cfg r (x ++ b) =
      ((chunkParse cfg r x).1, (chunkParse cfg r x).2.1 ++ b, (chunkParse cfg r x).2.2) := by
  have law := CK.parse_seq cfg r.chunk x b hd
  have hval := CK_parse_valid cfg r.chunk x hv
  simp only [hc, if_true] at law
  unfold chunkParse
  rw [law]
  generalize CK.parse cfg r.chunk x = P at hc hval
  obtain ⟨k1, rest, bo⟩ := P
  dsimp only at hc hval ⊢
  have hcond : (!bo && (!(rest ++ b).isEmpty || k1.fail)) = (!bo && (!rest.isEmpty || k1.fail)) := by
    cases bo with
    | true => rfl
    | false =>
      cases rest with
      | cons c cs => simp
      | nil =>
        have : CK.done k1 = true := by simpa using hc
        simp [CK_fail_of_done k1 hval this]
  rw [hcond]
  repeat' split
  all_goals rfl

theorem chunkParse_cont (cfg : Cfg) (r : RS) (x b : Bytes) (hv : r.chunk.valid = false)
    (hd : CK.done r.chunk = false)
    (hc : (CK.done (CK.parse cfg r.chunk x).1 || !(CK.parse cfg r.chunk x).2.1.isEmpty) = false) :
    chunkParse cfg r x = ({ r with chunk := (CK.parse cfg r.chunk x).1 }, [], .incomplete) ∧
    (CK.parse cfg r.chunk x).1.valid = false ∧ CK.done (CK.parse cfg r.chunk x).1 = false ∧
    chunkParse cfg r (x ++ b) = chunkParse cfg { r with chunk := (CK.parse cfg r.chunk x).1 } b := by
  have law := CK.parse_seq cfg r.chunk x b hd
  have hval := CK_parse_valid cfg r.chunk x hv
  simp only [hc, Bool.false_eq_true, if_false] at law
  simp only [Bool.or_eq_false_iff, Bool.not_eq_false', List.isEmpty_iff] at hc
  obtain ⟨hc1, hc2⟩ := hc
  have hv1 : (CK.parse cfg r.chunk x).1.valid = false := by
    simp only [CK.done, Bool.or_eq_false_iff] at hc1
    exact hc1.1.1
  have hf1 : (CK.parse cfg r.chunk x).1.fail = false := by
    simp only [CK.done, Bool.or_eq_false_iff] at hc1
    simp [CK.fail, MH.fail, hc1]
  refine ⟨?_, hv1, hc1, ?_⟩
  · unfold chunkParse
    rw [hv1] at hval
    simp [← hval, hc2, hf1, hv1]
  · unfold chunkParse
    rw [law]

theorem chunkParse_shape (cfg : Cfg) (r : RS) (buf : Bytes) (hv : r.chunk.valid = false) :
    (chunkParse cfg r buf).2.2 = .invalid ∨
    ((chunkParse cfg r buf).1.response = r.response ∧
     ((chunkParse cfg r buf).1.chunk.valid = false → CK.done (chunkParse cfg r buf).1.chunk = false)) := by
  have hval := CK_parse_valid cfg r.chunk buf hv
  unfold chunkParse
  dsimp only
  by_cases h1 : (!(CK.parse cfg r.chunk buf).2.2 &&
      (!(CK.parse cfg r.chunk buf).2.1.isEmpty || (CK.parse cfg r.chunk buf).1.fail)) = true
  · rw [if_pos h1]; exact Or.inl rfl
  · rw [if_neg h1]
    by_cases h2 : (CK.parse cfg r.chunk buf).1.valid = true
    · rw [if_pos h2]
      exact Or.inr ⟨rfl, fun h => by rw [h2] at h; cases h⟩
    · rw [if_neg h2]
      right
      refine ⟨rfl, fun _ => ?_⟩
      have h2' : (CK.parse cfg r.chunk buf).1.valid = false := by simpa using h2
      rw [h2'] at hval
      have hf : (CK.parse cfg r.chunk buf).1.fail = false := by
        cases hf : (CK.parse cfg r.chunk buf).1.fail
        · rfl
        · exfalso; apply h1; simp [← hval, hf]
      exact CK_done_of _ h2' hf

/-! ### the non-chunked branch in normal form -/

/-- the number of body bytes taken from a buffer of `m` bytes when `n` are stored: `min m (cl - n)` -/
def takeN (cl : Int) (n m : Nat) : Nat := if (m : Int) > cl - n then (cl - n).toNat else m

/-- the accumulation step when the length of the body is known -/
def accum (r : RS) (buf : Bytes) : RS × Bytes × Rx :=
  let cl : Int := r.response.headers.contentLength
  let take : Nat := takeN cl r.body.length buf.length
  let r1 := { r with body := r.body ++ buf.take take }
  if (r1.body.length : Int) == cl then (r1, buf.drop take, .valid)
  else (r1, buf.drop take, .incomplete)

/-- no Content-Length header -/
def lengthless (r : RS) : Bool := (r.response.headers.fields.find (b!"content-length")).isEmpty

theorem lengthless_cl (r : RS) (h : lengthless r = true) : r.response.headers.contentLength = 0 :=
  C05.RS_contentLength_absent r h

/-- with a Content-Length header the buffer does not influence the length -/
theorem body_known (cfg : Cfg) (r : RS) (buf : Bytes) (h : lengthless r = false) :
    C05.RS_body cfg r buf =
      if r.response.headers.contentLength < 0 then (({} : RS), buf, .invalid) else accum r buf := by
  have hn : C05.RS_noCl r buf = false := by
    unfold lengthless at h
    simp [C05.RS_noCl, h]
  unfold C05.RS_body
  simp only [C05.RS_cl, hn, Bool.and_false, Bool.false_eq_true, if_false, RS.clear]
  rfl

/-- without one, a non-empty buffer is either rejected or swallowed whole, and the response can never complete -/
theorem body_lengthless (cfg : Cfg) (r : RS) (buf : Bytes) (h : lengthless r = true) (hne : buf ≠ [])
    (hinv : (C05.RS_body cfg r buf).2.2 ≠ .invalid) :
    C05.RS_body cfg r buf = ({ r with body := r.body ++ buf }, [], .incomplete) := by
  have h0 := lengthless_cl r h
  have hpos : 0 < buf.length := List.length_pos_iff.mpr hne
  have hn : C05.RS_noCl r buf = true := by
    unfold lengthless at h
    simp only [C05.RS_noCl, h0, h, Bool.and_true, beq_self_eq_true, decide_eq_true_eq]
    omega
  unfold C05.RS_body at hinv ⊢
  simp only [C05.RS_cl, hn, h0, if_true, Bool.and_true] at hinv ⊢
  have hneg : ¬ ((0 : Int) < 0) := by omega
  simp only [hneg, if_false] at hinv ⊢
  by_cases hov : ((buf.length : Int) > (cfg.maxContent : Int) - r.body.length)
  · simp [hov] at hinv
  · have htl : C05.takeLen (cfg.maxContent : Int) r.body buf = buf.length := by
      simp [C05.takeLen, hov]
    simp only [hov, decide_false, Bool.false_eq_true, if_false, htl, List.take_length, List.drop_length]
    have : ¬ ((r.body.length : Int) + buf.length = 0) := by omega
    simp [this]

theorem accum_short (r : RS) (a : Bytes)
    (h : (r.body.length : Int) + a.length < r.response.headers.contentLength) :
    accum r a = ({ r with body := r.body ++ a }, [], .incomplete) := by
  unfold accum takeN
  have h1 : ¬ ((a.length : Int) > r.response.headers.contentLength - r.body.length) := by omega
  simp only [h1, if_false, List.take_length, List.drop_length, List.length_append]
  have h2 : ¬ ((r.body.length : Int) + a.length = r.response.headers.contentLength) := by omega
  simp [h2]

theorem accum_short_append (r : RS) (a b : Bytes)
    (h : (r.body.length : Int) + a.length < r.response.headers.contentLength) :
    accum r (a ++ b) = accum { r with body := r.body ++ a } b := by
  unfold accum takeN
  dsimp only
  have e1 : (if ((a ++ b).length : Int) > r.response.headers.contentLength - r.body.length
        then (r.response.headers.contentLength - r.body.length).toNat else (a ++ b).length) =
      a.length + (if (b.length : Int) > r.response.headers.contentLength - (r.body ++ a).length
        then (r.response.headers.contentLength - ((r.body ++ a).length : Nat)).toNat else b.length) := by
    simp only [List.length_append]
    split <;> split <;> omega
  rw [e1]
  simp only [List.take_append, List.drop_append, List.take_of_length_le (Nat.le_add_right _ _),
    List.drop_eq_nil_of_le (Nat.le_add_right a.length _), Nat.add_sub_cancel_left, List.nil_append,
    List.append_assoc]

theorem accum_long (r : RS) (a b : Bytes)
    (hpos : (r.body.length : Int) ≤ r.response.headers.contentLength)
    (h : r.response.headers.contentLength ≤ (r.body.length : Int) + a.length) :
    (accum r a).2.2 = .valid ∧
    accum r (a ++ b) = ((accum r a).1, (accum r a).2.1 ++ b, .valid) := by
  unfold accum takeN
  dsimp only
  have e1 : (if ((a ++ b).length : Int) > r.response.headers.contentLength - r.body.length
        then (r.response.headers.contentLength - r.body.length).toNat else (a ++ b).length) =
      (r.response.headers.contentLength - r.body.length).toNat := by
    simp only [List.length_append]
    split <;> omega
  have e2 : (if (a.length : Int) > r.response.headers.contentLength - r.body.length
        then (r.response.headers.contentLength - r.body.length).toNat else a.length) =
      (r.response.headers.contentLength - r.body.length).toNat := by
    split <;> omega
  have hle : (r.response.headers.contentLength - r.body.length).toNat ≤ a.length := by omega
  rw [e1, e2]
  have e3 : ((r.body ++ a.take (r.response.headers.contentLength - r.body.length).toNat).length : Int)
      = r.response.headers.contentLength := by
    simp only [List.length_append, List.length_take]
    omega
  simp only [List.take_append_of_le_length hle, List.drop_append_of_le_length hle, e3, beq_self_eq_true,
    if_true, and_self]

theorem accum_facts (r : RS) (buf : Bytes) : (accum r buf).1.response = r.response ∧
    (accum r buf).1.chunk = r.chunk ∧
    ((accum r buf).2.2 = .valid ∨ (accum r buf).2.2 = .incomplete) := by
  unfold accum
  dsimp only
  split
  · exact ⟨rfl, rfl, Or.inl rfl⟩
  · exact ⟨rfl, rfl, Or.inr rfl⟩


/-! ### the client loop without the `used` bookkeeping -/

/-- a delivery without the byte count -/
abbrev Ev := Rx × RS

def ev (d : RDelivery) : Ev := (d.rx, d.snapshot)

def viewE (e : Ev) : RView := rviewOf { rx := e.1, used := 0, snapshot := e.2 }

def pay (es : List Ev) : List RView :=
  (es.filter fun e => e.1 == .valid || e.1 == .chunk).map viewE

def okE (es : List Ev) : Prop := ∀ e ∈ es, e.1 ≠ .invalid

theorem payload_eq_pay (ds : List RDelivery) : rpayload ds = pay (ds.map ev) := by
  simp only [rpayload, pay, List.filter_map, List.map_map]
  rfl

theorem pay_append (xs ys : List Ev) : pay (xs ++ ys) = pay xs ++ pay ys := by
  simp [pay]

theorem pay_cons (e : Ev) (xs : List Ev) : pay (e :: xs) = pay [e] ++ pay xs :=
  pay_append [e] xs

theorem okE_cons (e : Ev) (xs : List Ev) : okE (e :: xs) ↔ e.1 ≠ .invalid ∧ okE xs := by
  simp [okE]

/-- `RS.readLoop` without accumulator and byte counts -/
def loop (cfg : Cfg) : Nat → RS → Bytes → RS × Bytes × List Ev
  | 0, r, buf => (r, buf, [])
  | fuel + 1, r, buf =>
    if buf.isEmpty then (r, buf, [])
    else
      let p := RS.receive cfg r buf
      let r' := RS.afterResult p.1 p.2.2
      if p.2.2 == .invalid then (r', p.2.1, [(p.2.2, p.1)])
      else
        let y := loop cfg fuel r' p.2.1
        (y.1, y.2.1, (p.2.2, p.1) :: y.2.2)

theorem readLoop_loop (cfg : Cfg) : ∀ (fuel : Nat) (r : RS) (buf : Bytes) (acc : List RDelivery),
    (RS.readLoop cfg fuel r buf acc).1 = (loop cfg fuel r buf).1 ∧
    (RS.readLoop cfg fuel r buf acc).2.1 = (loop cfg fuel r buf).2.1 ∧
    (RS.readLoop cfg fuel r buf acc).2.2.map ev = acc.reverse.map ev ++ (loop cfg fuel r buf).2.2 := by
  intro fuel
  induction fuel with
  | zero => intro r buf acc; simp [RS.readLoop, loop]
  | succ fuel ih =>
    intro r buf acc
    simp only [RS.readLoop, loop]
    split
    · simp
    · split
      · simp [ev]
      · obtain ⟨h1, h2, h3⟩ := ih (RS.afterResult (RS.receive cfg r buf).1 (RS.receive cfg r buf).2.2)
          (RS.receive cfg r buf).2.1
          ({ rx := (RS.receive cfg r buf).2.2, used := buf.length - (RS.receive cfg r buf).2.1.length,
             snapshot := (RS.receive cfg r buf).1 } :: acc)
        refine ⟨h1, h2, ?_⟩
        rw [h3]
        simp [ev]

/-- the loop with the fuel the client gives it -/
def run (cfg : Cfg) (r : RS) (buf : Bytes) : RS × Bytes × List Ev := loop cfg (buf.length + 1) r buf

/-- the reads one after the other -/
def feedE (cfg : Cfg) (r : RS) : List Bytes → RS × List Ev
  | [] => (r, [])
  | rd :: rest =>
    let x := run cfg r rd
    let y := feedE cfg x.1 rest
    (y.1, x.2.2 ++ y.2)

theorem feed_feedE (cfg : Cfg) (ps : List Bytes) : ∀ r : RS,
    (RS.feed cfg r ps).1 = (feedE cfg r ps).1 ∧ (RS.feed cfg r ps).2.map ev = (feedE cfg r ps).2 := by
  induction ps with
  | nil => intro r; simp [RS.feed, feedE]
  | cons p ps ih =>
    intro r
    obtain ⟨h1, h2, h3⟩ := readLoop_loop cfg (p.length + 1) r p []
    simp only [RS.feed, feedE, run]
    rw [h1]
    obtain ⟨i1, i2⟩ := ih (loop cfg (p.length + 1) r p).1
    refine ⟨i1, ?_⟩
    rw [List.map_append, h3, i2]
    simp

/-! ### the reachable-state invariant -/

def Inv (cfg : Cfg) (r : RS) : Prop :=
  RS.Ok cfg r ∧
  (r.response.valid = false → RP.done r.response = false) ∧
  (r.chunk.valid = false → CK.done r.chunk = false)

theorem inv_init (cfg : Cfg) : Inv cfg {} :=
  ⟨RS.ok_init cfg, fun _ => rfl, fun _ => rfl⟩

theorem tail_shape (cfg : Cfg) (r : RS) (rp : Bool) (buf : Bytes) (hv : r.response.valid = true)
    (hC : r.chunk.valid = false → CK.done r.chunk = false) :
    (C05.RS_tail cfg r rp buf).2.2 = .invalid ∨
    ((C05.RS_tail cfg r rp buf).1.response.valid = true ∧
     ((C05.RS_tail cfg r rp buf).1.chunk.valid = false → CK.done (C05.RS_tail cfg r rp buf).1.chunk = false)) := by
  cases hc : r.response.headers.isChunked
  · have e : C05.RS_tail cfg r rp buf = C05.RS_body cfg r buf := by simp [C05.RS_tail, hc]
    rw [e]
    unfold C05.RS_body
    dsimp only
    repeat' split
    all_goals first
      | exact Or.inl rfl
      | exact Or.inr ⟨hv, hC⟩
  · rw [tail_chunked cfg r rp buf hc]
    obtain ⟨f1, _, f3, f4⟩ := reset_facts r
    cases rp with
    | true =>
      simp only [if_true]
      exact Or.inr ⟨by rw [f1]; exact hv, fun _ => f4 hC⟩
    | false =>
      simp only [Bool.false_eq_true, if_false]
      rcases chunkParse_shape cfg (reset r) buf f3 with h | ⟨h1, h2⟩
      · exact Or.inl h
      · exact Or.inr ⟨by rw [h1, f1]; exact hv, h2⟩

/-- what the invariant needs from a `receive` result -/
theorem receive_shape (cfg : Cfg) (r : RS) (buf : Bytes) (h : Inv cfg r) :
    (RS.receive cfg r buf).2.2 = .invalid ∨
    (((RS.receive cfg r buf).1.response.valid = false → RP.done (RS.receive cfg r buf).1.response = false) ∧
     ((RS.receive cfg r buf).1.chunk.valid = false → CK.done (RS.receive cfg r buf).1.chunk = false)) := by
  obtain ⟨_, hA, hC⟩ := h
  by_cases hv : r.response.valid = true
  · rw [C05.RS_receive_valid cfg r buf hv]
    rcases tail_shape cfg r false buf hv hC with h | ⟨h1, h2⟩
    · exact Or.inl h
    · exact Or.inr ⟨fun h => (by rw [h1] at h; cases h), h2⟩
  · have hv' : r.response.valid = false := by simpa using hv
    have hval := RP_parse_valid cfg r.response buf hv'
    rw [receive_head cfg r buf hv']
    dsimp only
    split
    · rename_i hbo
      split
      · exact Or.inl rfl
      · rename_i hfin
        right
        rw [hbo] at hval
        have hf : (RP.parse cfg r.response buf).1.fail = false := by
          cases h : (RP.parse cfg r.response buf).1.fail
          · rfl
          · exact absurd (Or.inr h) hfin
        exact ⟨fun _ => RP_done_of _ hval hf, hC⟩
    · rename_i hbo
      have hbo' : (RP.parse cfg r.response buf).2.2 = true := by simpa using hbo
      rw [hbo'] at hval
      rcases tail_shape cfg { r with response := (RP.parse cfg r.response buf).1 } true
        (RP.parse cfg r.response buf).2.1 hval hC with h | ⟨h1, h2⟩
      · exact Or.inl h
      · exact Or.inr ⟨fun h => (by rw [h1] at h; cases h), h2⟩

theorem inv_step (cfg : Cfg) (r : RS) (buf : Bytes) (h : Inv cfg r) :
    Inv cfg (RS.afterResult (RS.receive cfg r buf).1 (RS.receive cfg r buf).2.2) := by
  have hok := RS.ok_step cfg r buf h.1
  have hsh := receive_shape cfg r buf h
  generalize RS.receive cfg r buf = p at hok hsh
  obtain ⟨s, rest, x⟩ := p
  dsimp only at hok hsh ⊢
  rcases hsh with hsh | ⟨hA, hC⟩
  · subst hsh; exact inv_init cfg
  · cases x with
    | invalid => exact inv_init cfg
    | expectContinue => exact ⟨hok, hA, hC⟩
    | incomplete => exact ⟨hok, hA, hC⟩
    | valid =>
      simp only [RS.afterResult] at hok ⊢
      split
      · exact inv_init cfg
      · rename_i hc
        simp only [hc] at hok
        exact ⟨hok, hA, hC⟩
    | chunk =>
      simp only [RS.afterResult] at hok ⊢
      split
      · exact inv_init cfg
      · rename_i hc
        simp only [hc] at hok
        exact ⟨hok, hA, hC⟩

theorem receive_lt (cfg : Cfg) (r : RS) (buf : Bytes) (hI : Inv cfg r) (hne : buf ≠ [])
    (hinv : (RS.receive cfg r buf).2.2 ≠ .invalid) : (RS.receive cfg r buf).2.1.length < buf.length := by
  rcases RS.receive_progress cfg r buf hI.1 hne with hp | hp
  · exact absurd hp hinv
  · exact hp

/-- enough fuel is as good as any -/
theorem loop_fuel (cfg : Cfg) : ∀ (f f' : Nat) (r : RS) (buf : Bytes), Inv cfg r →
    buf.length < f → buf.length < f' → loop cfg f r buf = loop cfg f' r buf := by
  intro f
  induction f with
  | zero => intro f' r buf _ h; omega
  | succ f ih =>
    intro f' r buf hI h1 h2
    cases f' with
    | zero => omega
    | succ f' =>
      simp only [loop]
      split
      · rfl
      · rename_i hne
        split
        · rfl
        · rename_i hinv
          have hne' : buf ≠ [] := by intro e; simp [e] at hne
          have hlt : (RS.receive cfg r buf).2.1.length < buf.length := by
            apply receive_lt cfg r buf hI hne'
            intro hp
            simp [hp] at hinv
          rw [ih f' _ _ (inv_step cfg r buf hI) (by omega) (by omega)]

theorem run_nil (cfg : Cfg) (r : RS) : run cfg r [] = (r, [], []) := by
  simp [run, loop]

def consE (e : Ev) (x : RS × Bytes × List Ev) : RS × Bytes × List Ev := (x.1, x.2.1, e :: x.2.2)

/-- a `receive` result followed by the rest of the loop -/
def stepRun (cfg : Cfg) (p : RS × Bytes × Rx) : RS × Bytes × List Ev :=
  consE (p.2.2, p.1) (run cfg (RS.afterResult p.1 p.2.2) p.2.1)

theorem run_cons (cfg : Cfg) (r : RS) (buf : Bytes) (hI : Inv cfg r) (hne : buf ≠ [])
    (hinv : (RS.receive cfg r buf).2.2 ≠ .invalid) : run cfg r buf = stepRun cfg (RS.receive cfg r buf) := by
  have hlt := receive_lt cfg r buf hI hne hinv
  have he : buf.isEmpty = false := by cases buf <;> simp_all
  have hb : ((RS.receive cfg r buf).2.2 == Rx.invalid) = false := by
    cases h : (RS.receive cfg r buf).2.2 <;> simp_all
  simp only [run, stepRun, consE]
  rw [loop]
  simp only [he, Bool.false_eq_true, if_false, hb]
  rw [loop_fuel cfg buf.length ((RS.receive cfg r buf).2.1.length + 1) _ _ (inv_step cfg r buf hI) hlt
    (Nat.lt_succ_self _)]

theorem run_cons_invalid (cfg : Cfg) (r : RS) (buf : Bytes) (hne : buf ≠ [])
    (hinv : (RS.receive cfg r buf).2.2 = .invalid) : ¬ okE (run cfg r buf).2.2 := by
  have he : buf.isEmpty = false := by cases buf <;> simp_all
  simp only [run, loop, he, Bool.false_eq_true, if_false, hinv, beq_self_eq_true, if_true]
  intro h
  exact h _ (List.mem_singleton.mpr rfl) rfl

theorem run_inv (cfg : Cfg) : ∀ (n : Nat) (r : RS) (buf : Bytes), buf.length ≤ n → Inv cfg r →
    Inv cfg (run cfg r buf).1 := by
  intro n
  induction n with
  | zero =>
    intro r buf hn hI
    have : buf = [] := List.length_eq_zero_iff.mp (by omega)
    subst this
    rw [run_nil]; exact hI
  | succ n ih =>
    intro r buf hn hI
    by_cases hne : buf = []
    · subst hne; rw [run_nil]; exact hI
    · by_cases hinv : (RS.receive cfg r buf).2.2 = .invalid
      · have he : buf.isEmpty = false := by cases buf <;> simp_all
        simp only [run, loop, he, Bool.false_eq_true, if_false, hinv, beq_self_eq_true, if_true]
        have := inv_step cfg r buf hI
        rw [hinv] at this
        exact this
      · rw [run_cons cfg r buf hI hne hinv]
        have hlt := receive_lt cfg r buf hI hne hinv
        exact ih _ _ (by omega) (inv_step cfg r buf hI)

/-! ### one `receive` call on `a ++ b` versus the loop over `a` followed by `b` -/

/-- two runs with the same observable behaviour -/
def REq (x y : RS × Bytes × List Ev) : Prop :=
  x.1 = y.1 ∧ x.2.1 = y.2.1 ∧ pay x.2.2 = pay y.2.2 ∧ (okE x.2.2 ↔ okE y.2.2)

theorem REq.rfl' (x : RS × Bytes × List Ev) : REq x x := ⟨rfl, rfl, rfl, Iff.rfl⟩

/-- an INCOMPLETE result is not a delivery -/
theorem REq_skip (e : Ev) (x y : RS × Bytes × List Ev) (he : e.1 = .incomplete)
    (h : REq x y) : REq x (consE e y) := by
  obtain ⟨h1, h2, h3, h4⟩ := h
  refine ⟨h1, h2, ?_, ?_⟩
  · simp only [consE]
    rw [pay_cons, h3]
    simp [pay, he]
  · simp only [consE, okE_cons, h4]
    simp [he]

theorem split_fin (cfg : Cfg) (p p' : RS × Bytes × Rx) (b : Bytes) (h : p = (p'.1, p'.2.1 ++ b, p'.2.2))
    (hinv : p.2.2 ≠ .invalid) :
    p'.2.2 ≠ .invalid ∧
    REq (stepRun cfg p) (consE (p'.2.2, p'.1) (run cfg (RS.afterResult p'.1 p'.2.2) (p'.2.1 ++ b))) := by
  subst h
  exact ⟨hinv, REq.rfl' _⟩

theorem split_cont (cfg : Cfg) (p p' : RS × Bytes × Rx) (b : Bytes) (r' : RS) (h' : p' = (r', [], .incomplete))
    (h : p = RS.receive cfg r' b) (hI : Inv cfg r') (hb : b ≠ []) (hinv : p.2.2 ≠ .invalid) :
    p'.2.2 ≠ .invalid ∧
    REq (stepRun cfg p) (consE (p'.2.2, p'.1) (run cfg (RS.afterResult p'.1 p'.2.2) (p'.2.1 ++ b))) := by
  subst h h'
  refine ⟨by simp, ?_⟩
  simp only [RS.afterResult, List.nil_append]
  rw [← run_cons cfg r' b hI hb hinv]
  exact REq_skip _ _ _ rfl (REq.rfl' _)


theorem tail_split (cfg : Cfg) (r : RS) (rp : Bool) (x b : Bytes) (hv : r.response.valid = true) (hb : b ≠ [])
    (hle : r.response.headers.isChunked = false → lengthless r = false →
      0 ≤ r.response.headers.contentLength → (r.body.length : Int) ≤ r.response.headers.contentLength)
    (hck : r.chunk.valid = false → CK.done r.chunk = false)
    (hinv : (C05.RS_tail cfg r rp (x ++ b)).2.2 ≠ .invalid)
    (hfin : (stepRun cfg (C05.RS_tail cfg r rp (x ++ b))).1 = {})
    (hI1 : Inv cfg (RS.afterResult (C05.RS_tail cfg r rp x).1 (C05.RS_tail cfg r rp x).2.2)) :
    (C05.RS_tail cfg r rp x).2.2 ≠ .invalid ∧
    REq (stepRun cfg (C05.RS_tail cfg r rp (x ++ b)))
      (consE ((C05.RS_tail cfg r rp x).2.2, (C05.RS_tail cfg r rp x).1)
        (run cfg (RS.afterResult (C05.RS_tail cfg r rp x).1 (C05.RS_tail cfg r rp x).2.2)
          ((C05.RS_tail cfg r rp x).2.1 ++ b))) := by
  cases hc : r.response.headers.isChunked
  · -- body delimited by Content-Length
    have e : ∀ buf, C05.RS_tail cfg r rp buf = C05.RS_body cfg r buf := by
      intro buf; simp [C05.RS_tail, hc]
    rw [e x] at hI1 ⊢
    rw [e (x ++ b)] at hinv hfin ⊢
    have hxb : x ++ b ≠ [] := by simp [hb]
    cases hL : lengthless r
    · have hcl : ¬ r.response.headers.contentLength < 0 := by
        intro h
        apply hinv
        rw [body_known cfg r _ hL, if_pos h]
      have eX : C05.RS_body cfg r x = accum r x := by rw [body_known cfg r _ hL, if_neg hcl]
      have eXB : C05.RS_body cfg r (x ++ b) = accum r (x ++ b) := by rw [body_known cfg r _ hL, if_neg hcl]
      have hle' := hle hc hL (by omega)
      by_cases hshort : (r.body.length : Int) + x.length < r.response.headers.contentLength
      · rw [accum_short r x hshort] at eX
        rw [accum_short_append r x b hshort] at eXB
        have hrec : RS.receive cfg { r with body := r.body ++ x } b = accum { r with body := r.body ++ x } b := by
          rw [C05.RS_receive_valid cfg { r with body := r.body ++ x } b hv]
          have e' : C05.RS_tail cfg { r with body := r.body ++ x } false b =
              C05.RS_body cfg { r with body := r.body ++ x } b := by simp [C05.RS_tail, hc]
          rw [e', body_known cfg { r with body := r.body ++ x } b hL, if_neg hcl]
        rw [← hrec] at eXB
        have hI' : Inv cfg { r with body := r.body ++ x } := by
          have := hI1
          rw [eX] at this
          exact this
        exact split_cont cfg _ _ b _ eX eXB hI' hb hinv
      · obtain ⟨hl1, hl2⟩ := accum_long r x b hle' (by omega)
        rw [← eX] at hl1
        rw [← eX, ← eXB, ← hl1] at hl2
        exact split_fin cfg _ _ b hl2 hinv
    · -- no Content-Length and bytes in the buffer: the response can never complete
      exfalso
      have h := body_lengthless cfg r (x ++ b) hL hxb hinv
      rw [h] at hfin
      simp only [stepRun, consE, RS.afterResult, run_nil] at hfin
      have := congrArg RS.body hfin
      simp only [List.append_eq_nil_iff] at this
      exact hb this.2.2
  · -- chunked
    rw [tail_chunked cfg r rp x hc] at hI1 ⊢
    rw [tail_chunked cfg r rp (x ++ b) hc] at hinv ⊢
    cases rp with
    | true =>
      simp only [if_true] at hinv ⊢
      exact split_fin cfg (reset r, x ++ b, Rx.valid) (reset r, x, Rx.valid) b rfl (by simp)
    | false =>
      simp only [Bool.false_eq_true, if_false] at hinv hI1 ⊢
      obtain ⟨f1, _, f6, f7⟩ := reset_facts r
      have hd0 := f7 hck
      by_cases hcnd : (CK.done (CK.parse cfg (reset r).chunk x).1 ||
          !(CK.parse cfg (reset r).chunk x).2.1.isEmpty) = true
      · apply split_fin cfg _ _ b _ hinv
        exact chunkParse_fin cfg (reset r) x b f6 hd0 hcnd
      · have hcnd' : (CK.done (CK.parse cfg (reset r).chunk x).1 ||
            !(CK.parse cfg (reset r).chunk x).2.1.isEmpty) = false := by simpa using hcnd
        obtain ⟨c1, c2, _, c4⟩ := chunkParse_cont cfg (reset r) x b f6 hd0 hcnd'
        have hv' : ({ reset r with chunk := (CK.parse cfg (reset r).chunk x).1 } : RS).response.valid = true := by
          show (reset r).response.valid = true
          rw [f1]; exact hv
        have hc' : ({ reset r with chunk := (CK.parse cfg (reset r).chunk x).1 } : RS).response.headers.isChunked
            = true := by
          show (reset r).response.headers.isChunked = true
          rw [f1]; exact hc
        have hrec : RS.receive cfg { reset r with chunk := (CK.parse cfg (reset r).chunk x).1 } b =
            chunkParse cfg { reset r with chunk := (CK.parse cfg (reset r).chunk x).1 } b := by
          rw [C05.RS_receive_valid cfg _ b hv', tail_chunked cfg _ false b hc']
          simp only [Bool.false_eq_true, if_false]
          rw [reset_of_not_valid { reset r with chunk := (CK.parse cfg (reset r).chunk x).1 } c2]
        have eXB := c4.trans hrec.symm
        have hI' : Inv cfg { reset r with chunk := (CK.parse cfg (reset r).chunk x).1 } := by
          have := hI1
          rw [c1] at this
          exact this
        exact split_cont cfg _ _ b _ c1 eXB hI' hb hinv

theorem step_split (cfg : Cfg) (r : RS) (a b : Bytes) (hI : Inv cfg r) (hb : b ≠ [])
    (hinv : (RS.receive cfg r (a ++ b)).2.2 ≠ .invalid)
    (hfin : (stepRun cfg (RS.receive cfg r (a ++ b))).1 = {}) :
    (RS.receive cfg r a).2.2 ≠ .invalid ∧
    REq (stepRun cfg (RS.receive cfg r (a ++ b)))
      (consE ((RS.receive cfg r a).2.2, (RS.receive cfg r a).1)
        (run cfg (RS.afterResult (RS.receive cfg r a).1 (RS.receive cfg r a).2.2)
          ((RS.receive cfg r a).2.1 ++ b))) := by
  have hI1 := inv_step cfg r a hI
  obtain ⟨⟨ok1, _, ok3⟩, hA, hC⟩ := hI
  by_cases hv : r.response.valid = true
  · rw [C05.RS_receive_valid cfg r a hv] at hI1 ⊢
    rw [C05.RS_receive_valid cfg r (a ++ b) hv] at hinv hfin ⊢
    refine tail_split cfg r false a b hv hb ?_ hC hinv hfin hI1
    intro hc hL _
    have := (ok1 hv hc).1 hL
    omega
  · have hv' : r.response.valid = false := by simpa using hv
    have hd := hA hv'
    have hval := RP_parse_valid cfg r.response a hv'
    have law := RP.parse_seq cfg r.response a b hd
    by_cases hbo : (RP.parse cfg r.response a).2.2 = true
    · -- the head is completed inside `a`
      rw [hbo] at hval
      have hdone : RP.done (RP.parse cfg r.response a).1 = true := by simp [RP.done, hval]
      simp only [hdone, Bool.true_or, if_true] at law
      have eA : RS.receive cfg r a =
          C05.RS_tail cfg { r with response := (RP.parse cfg r.response a).1 } true
            (RP.parse cfg r.response a).2.1 := by
        rw [receive_head cfg r a hv']
        simp [hbo]
      have eAB : RS.receive cfg r (a ++ b) =
          C05.RS_tail cfg { r with response := (RP.parse cfg r.response a).1 } true
            ((RP.parse cfg r.response a).2.1 ++ b) := by
        rw [receive_head cfg r (a ++ b) hv', law]
        simp [hbo]
      rw [eA] at hI1 ⊢
      rw [eAB] at hinv hfin ⊢
      refine tail_split cfg _ true _ b hval hb ?_ hC hinv hfin hI1
      intro _ _ h0
      show ((r.body.length : Nat) : Int) ≤ _
      rw [ok3 hv']
      exact h0
    · have hbo' : (RP.parse cfg r.response a).2.2 = false := by simpa using hbo
      rw [hbo'] at hval
      by_cases hfail : (RP.parse cfg r.response a).1.fail = true ∨ (RP.parse cfg r.response a).2.1 ≠ []
      · exfalso
        obtain ⟨_, h2⟩ := RS.receive_head_fail_seq cfg r a b hv' hd ⟨hbo', hfail⟩
        apply hinv
        rw [h2]
      · have hf : (RP.parse cfg r.response a).1.fail = false := by
          cases h : (RP.parse cfg r.response a).1.fail
          · rfl
          · exact absurd (Or.inl h) hfail
        have hr : (RP.parse cfg r.response a).2.1 = [] := by
          cases h : (RP.parse cfg r.response a).2.1
          · rfl
          · exact absurd (Or.inr (by simp [h])) hfail
        have hd1 := RP_done_of _ hval hf
        obtain ⟨h1, h2⟩ := RS.receive_head_seq cfg r a b hv' hd ⟨hd1, hr⟩
        have hI' : Inv cfg { r with response := (RP.parse cfg r.response a).1 } := by
          have := hI1
          rw [h1] at this
          exact this
        exact split_cont cfg _ _ b _ h1 h2 hI' hb hinv

/-- two reads: the run over `a ++ b` is the run over `a` followed by the run over `b` -/
theorem run_split (cfg : Cfg) (b : Bytes) (hb : b ≠ []) : ∀ (n : Nat) (a : Bytes) (r : RS), a.length ≤ n →
    Inv cfg r → okE (run cfg r (a ++ b)).2.2 → (run cfg r (a ++ b)).2.1 = [] → (run cfg r (a ++ b)).1 = {} →
    okE (run cfg r a).2.2 ∧ (run cfg r a).2.1 = [] ∧
    okE (run cfg (run cfg r a).1 b).2.2 ∧ (run cfg (run cfg r a).1 b).2.1 = [] ∧
    (run cfg (run cfg r a).1 b).1 = {} ∧
    pay (run cfg r (a ++ b)).2.2 = pay (run cfg r a).2.2 ++ pay (run cfg (run cfg r a).1 b).2.2 := by
  intro n
  induction n with
  | zero =>
    intro a r hn hI hok hrest hst
    have : a = [] := List.length_eq_zero_iff.mp (by omega)
    subst this
    rw [run_nil]
    simp only [List.nil_append] at hok hrest hst
    exact ⟨by simp [okE], rfl, hok, hrest, hst, by simp [pay]⟩
  | succ n ih =>
    intro a r hn hI hok hrest hst
    by_cases ha : a = []
    · subst ha
      rw [run_nil]
      simp only [List.nil_append] at hok hrest hst
      exact ⟨by simp [okE], rfl, hok, hrest, hst, by simp [pay]⟩
    · have hab : a ++ b ≠ [] := by simp [ha]
      have hinv : (RS.receive cfg r (a ++ b)).2.2 ≠ .invalid := by
        intro h
        exact run_cons_invalid cfg r (a ++ b) hab h hok
      rw [run_cons cfg r (a ++ b) hI hab hinv] at hok hrest hst ⊢
      obtain ⟨hinv', e1, e2, e3, e4⟩ := step_split cfg r a b hI hb hinv hst
      have hlt := receive_lt cfg r a hI ha hinv'
      have hI' := inv_step cfg r a hI
      simp only [consE] at e1 e2 e3 e4
      rw [e1] at hst
      rw [e2] at hrest
      rw [e4, okE_cons] at hok
      obtain ⟨i1, i2, i3, i4, i5, i6⟩ := ih (RS.receive cfg r a).2.1 _ (by omega) hI' hok.2 hrest hst
      rw [e3, run_cons cfg r a hI ha hinv']
      simp only [stepRun, consE]
      refine ⟨(okE_cons _ _).mpr ⟨hinv', i1⟩, i2, i3, i4, i5, ?_⟩
      rw [pay_cons, i6, pay_cons _ (run cfg _ (RS.receive cfg r a).2.1).2.2, List.append_assoc]

theorem feedE_flatten (cfg : Cfg) (ps : List Bytes) (hne : ∀ p ∈ ps, p ≠ []) : ∀ (r : RS), Inv cfg r →
    okE (run cfg r ps.flatten).2.2 → (run cfg r ps.flatten).2.1 = [] → (run cfg r ps.flatten).1 = {} →
    pay (feedE cfg r ps).2 = pay (run cfg r ps.flatten).2.2 := by
  induction ps with
  | nil => intro r _ _ _ _; simp [feedE, run_nil]
  | cons p ps ih =>
    intro r hI hok hrest hst
    simp only [feedE, List.flatten_cons] at hok hrest hst ⊢
    by_cases hps : ps = []
    · subst hps
      simp [feedE]
    · have hfl : ps.flatten ≠ [] := by
        cases ps with
        | nil => exact absurd rfl hps
        | cons q qs =>
          have := hne q (by simp)
          simp [this]
      obtain ⟨_, _, i3, i4, i5, i6⟩ := run_split cfg ps.flatten hfl _ p r (Nat.le_refl _) hI hok hrest hst
      rw [pay_append, i6]
      rw [ih (fun q hq => hne q (List.mem_cons_of_mem _ hq)) _ (run_inv cfg _ _ _ (Nat.le_refl _) hI) i3 i4 i5]

end C07

theorem C07_frag : C07_frag_statement := by
  intro cfg bs hclean ps hps hne
  obtain ⟨l1, l2, l3⟩ := C07.readLoop_loop cfg (bs.length + 1) {} bs []
  simp only [RClean] at hclean
  obtain ⟨c1, c2, c3⟩ := hclean
  rw [l2] at c1
  rw [l1] at c3
  have hok : C07.okE (C07.run cfg {} bs).2.2 := by
    intro e he
    simp only [List.reverse_nil, List.map_nil, List.nil_append] at l3
    rw [C07.run, ← l3] at he
    obtain ⟨d, hd, rfl⟩ := List.mem_map.mp he
    exact c2 d hd
  rw [C07.payload_eq_pay, C07.payload_eq_pay, (C07.feed_feedE cfg ps {}).2, (C07.feed_feedE cfg [bs] {}).2]
  subst hps
  rw [C07.feedE_flatten cfg ps hne {} (C07.inv_init cfg) hok c1 c3]
  simp [C07.feedE]

/-- the hypothesis of `C07_frag` is satisfiable by a non-trivial stream: a response with a body, a chunked response
    with a chunk extension and a trailer, and a response with an empty body -/
example : RClean {} (b!"HTTP/1.1 200 OK\r\nContent-Length: 3\r\n\r\nabcHTTP/1.1 200 OK\r\nTransfer-Encoding: chunked\r\n\r\n2;x=1\r\nhi\r\n0\r\nT: v\r\n\r\nHTTP/1.1 204 None\r\nContent-Length: 0\r\n\r\n") := by
  unfold RClean
  decide +kernel

example : rpayload (RS.feed {} {} [b!"HTTP/1.1 200 OK\r\nContent-Le", b!"ngth: 3\r\n\r\na",
      b!"bcHTTP/1.1 204 None\r", b!"\nContent-Length: 0\r\n\r\n"]).2 =
    rpayload (RS.feed {} {}
      [b!"HTTP/1.1 200 OK\r\nContent-Length: 3\r\n\r\nabcHTTP/1.1 204 None\r\nContent-Length: 0\r\n\r\n"]).2 :=
  C07_frag {} _ (by unfold RClean; decide +kernel) _ rfl (by decide)

end Via
