import ViaModel.HashMapConc
import ViaProofs.C18
/-
  C18 — linearizability of `threadsafe_hash_map` for EVERY schedule.

  `ViaModel/HashMapConc.lean` is the interleaving semantics: any number of threads, every operation split into the
  micro-steps of the C++ (take mutex / read bucket / write bucket / release; whole-map operations take all mutexes in
  index order first), a mutex obtainable only when no other thread holds it in a conflicting mode, and nothing assumed
  about the scheduler.  This file proves an invariant of every reachable state from which linearizability follows:

  * `Inv.logA`, `Inv.logR`: the operations, in the order of their linearization points (the write of a single-bucket
    operation; the moment a whole-map operation has visited its last bucket, all mutexes still held), form a legal
    SEQUENTIAL run of the map from the empty map, producing exactly the results the threads return;
  * `Inv.hist…`: in the event history every thread's events are `inv, lin, ret` triples in program order, the `lin`
    event lying between invocation and return and carrying the returned result — the textbook definition of
    linearization points, which gives the real-time order condition (`C18_real_time`).
  Together with `C18_seq` (the sequential map is an ordinary map) this is the property for all schedules.
-/
namespace Via.HM.Conc
open Via Via.HM

variable {V : Type}

@[simp] theorem upd_same {α} (f : Nat → α) (t : Nat) (x : α) : upd f t x t = x := by simp [upd]
theorem upd_other {α} (f : Nat → α) (t u : Nat) (x : α) (h : u ≠ t) : upd f t x u = f u := by simp [upd, h]

/-- facts a thread state carries about its operation, its progress and what it has read -/
def TOk (n : Nat) (hash : Nat → Nat) (mem abs : List (Bucket V)) : TS V → Prop
  | .idle => True
  | .sWait op k => key? op = some k
  | .sHeld op k => key? op = some k
  | .sRead op k l => key? op = some k ∧ l = mem.getD (hash k % n) []
  | .sDone op k _ => key? op = some k
  | .mAcq op i => key? op = none ∧ i ≤ n
  | .mAcc op i acc => key? op = none ∧ i ≤ n ∧ acc = abs.take i
  | .mRel op i _ => key? op = none ∧ i ≤ n

def opsOf (log : List (Nat × Op V × Res V)) : List (Op V) := log.map (fun e => e.2.1)
def ressOf (log : List (Nat × Op V × Res V)) : List (Res V) := log.map (fun e => e.2.2)

structure Inv (n : Nat) (hash : Nat → Nat) (s : St V) : Prop where
  npos : 0 < n
  memlen : s.mem.length = n
  absn : s.abs.n = n
  abshash : s.abs.hash = hash
  abslen : s.abs.buckets.length = n
  /-- mutual exclusion: an exclusively held mutex is held by nobody else -/
  me : ∀ t u b, t ≠ u → (s.thr t).holdsX n hash b = true → (s.thr u).holds n hash b = false
  tok : ∀ t, TOk n hash s.mem s.abs.buckets (s.thr t)
  /-- buckets already visited by a `clear` in progress hold what `clear` stores -/
  memC : ∀ t op i acc, s.thr t = .mAcc op i acc → writes op = true → ∀ b, b < i →
    s.mem.getD b [] = bucketFn op (s.abs.buckets.getD b [])
  /-- every other bucket holds what the sequential map holds -/
  memA : ∀ b, b < n → (∀ t op i acc, s.thr t = .mAcc op i acc → writes op = true → ¬ b < i) →
    s.mem.getD b [] = s.abs.buckets.getD b []
  /-- the log is a sequential run from the empty map … -/
  logA : s.abs = ((Map.empty n hash).run (opsOf s.log)).1
  /-- … with exactly the logged results -/
  logR : ((Map.empty n hash).run (opsOf s.log)).2 = ressOf s.log

/-! ### sequential facts -/

theorem run_append (m : Map V) (ops : List (Op V)) (op : Op V) :
    m.run (ops ++ [op]) = (((m.run ops).1.step op).1, (m.run ops).2 ++ [((m.run ops).1.step op).2]) := by
  induction ops generalizing m with
  | nil => simp [Map.run]
  | cons o os ih =>
    simp only [List.cons_append, Map.run]
    rw [ih]

theorem modify_id {α} (l : List α) (i : Nat) : l.modify i (fun x => x) = l := by
  induction l generalizing i with
  | nil => simp
  | cons a l ih => cases i <;> simp [List.modify_cons, ih]

theorem getD_modify_same {α} (l : List α) (i : Nat) (f : α → α) (d : α) (h : i < l.length) :
    (l.modify i f).getD i d = f (l.getD i d) := by
  simp [List.getD_eq_getElem?_getD, h]

theorem getD_set_same {α} (l : List α) (i : Nat) (x d : α) (h : i < l.length) : (l.set i x).getD i d = x := by
  simp [List.getD_eq_getElem?_getD, h]

theorem getD_set_ne {α} (l : List α) (i j : Nat) (x d : α) (h : i ≠ j) : (l.set i x).getD j d = l.getD j d := by
  simp [List.getD_eq_getElem?_getD, List.getElem?_set_ne h]

theorem set_getD_self {α} (l : List α) (i : Nat) (d : α) : l.set i (l.getD i d) = l := by
  by_cases h : i < l.length
  · apply List.ext_getElem? 
    intro j
    by_cases e : i = j
    · subst e; simp [List.getD_eq_getElem?_getD, h]
    · simp [List.getElem?_set_ne e]
  · simp [List.set_eq_of_length_le (by omega : l.length ≤ i)]

theorem take_succ_getD {α} (l : List α) (i : Nat) (d : α) (h : i < l.length) :
    l.take (i + 1) = l.take i ++ [l.getD i d] := by
  rw [List.take_add_one]
  simp [List.getD_eq_getElem?_getD, List.getElem?_eq_getElem h]

theorem getD_map_lt {α β} (l : List α) (f : α → β) (i : Nat) (d : α) (e : β) (h : i < l.length) :
    (l.map f).getD i e = f (l.getD i d) := by
  simp [List.getD_eq_getElem?_getD, List.getElem?_eq_getElem h]

/-- a single-bucket operation on the sequential map: one bucket transformed, result from that bucket -/
theorem step_single (m : Map V) (op : Op V) (k : Nat) (hk : key? op = some k) :
    (m.step op).1 = { m with buckets := m.buckets.modify (m.idx k) (bucketFn op) } ∧
    (m.step op).2 = resOf op [m.buckets.getD (m.idx k) []] := by
  cases op with
  | insert k' v => simp [key?] at hk; subst hk; exact ⟨rfl, rfl⟩
  | erase k' => simp [key?] at hk; subst hk; exact ⟨rfl, rfl⟩
  | find k' =>
    simp [key?] at hk; subst hk
    refine ⟨?_, rfl⟩
    have : (bucketFn (Op.find k' : Op V)) = (fun x => x) := by funext b; rfl
    rw [this, modify_id]
    rfl
  | isEmpty => simp [key?] at hk
  | data => simp [key?] at hk
  | clear => simp [key?] at hk

/-- a whole-map operation on the sequential map: every bucket transformed, result from all buckets -/
theorem step_multi (m : Map V) (op : Op V) (hk : key? op = none) :
    (m.step op).1 = { m with buckets := if writes op then m.buckets.map (bucketFn op) else m.buckets } ∧
    (m.step op).2 = resOf op m.buckets := by
  cases op <;> simp [key?] at hk
  · exact ⟨rfl, rfl⟩
  · exact ⟨rfl, rfl⟩
  · exact ⟨rfl, rfl⟩

theorem bucketFn_reader (op : Op V) (h : writes op = false) (b : Bucket V) : bucketFn op b = b := by
  cases op <;> simp [writes] at h <;> rfl

/-! ### the invariant holds initially -/

theorem init_inv (n : Nat) (hash : Nat → Nat) (hn : 0 < n) : Inv n hash (St.init (V := V) n hash) := by
  refine ⟨hn, by simp [St.init], rfl, rfl, by simp [St.init, Map.empty], ?_, ?_, ?_, ?_, rfl, rfl⟩
  · intro t u b _ h; simp [St.init, TS.holdsX, TS.holds] at h
  · intro t; simp [St.init, TOk]
  · intro t op i acc h; simp [St.init] at h
  · intro b _ _; simp [St.init, Map.empty]

/-! ### lock facts -/

theorem holdsX_holds (n : Nat) (hash : Nat → Nat) (ts : TS V) (b : Nat) (h : ts.holdsX n hash b = true) :
    ts.holds n hash b = true := by
  simp only [TS.holdsX, Bool.and_eq_true] at h; exact h.1

/-- two threads cannot hold the same mutex when one of them holds it exclusively -/
theorem Inv.excl {n : Nat} {hash : Nat → Nat} {s : St V} (h : Inv n hash s) (t u b : Nat) (htu : t ≠ u)
    (ht : (s.thr t).holds n hash b = true) (hu : (s.thr u).holdsX n hash b = true) : False := by
  have := h.me u t b (Ne.symm htu) hu
  rw [ht] at this; exact Bool.noConfusion this

/-- while a thread holds a mutex no OTHER thread is in the middle of a `clear` -/
theorem Inv.no_clear {n : Nat} {hash : Nat → Nat} {s : St V} (h : Inv n hash s) (t b : Nat) (hb : b < n)
    (ht : (s.thr t).holds n hash b = true) (u : Nat) (op : Op V) (i : Nat) (acc : List (Bucket V))
    (hu : s.thr u = .mAcc op i acc) (hw : writes op = true) : u = t := by
  by_cases e : t = u
  · exact e.symm
  · exact (h.excl t u b e ht (by simp [hu, TS.holdsX, TS.holds, TS.op?, hw, hb])).elim

/-! ### steps that touch neither the memory nor the sequential map -/

theorem frame {n : Nat} {hash : Nat → Nat} {s : St V} (h : Inv n hash s) (t : Nat) (ts' : TS V) (hist' : List (Ev V))
    (hme1 : ∀ u b, u ≠ t → ts'.holdsX n hash b = true → (s.thr u).holds n hash b = false)
    (hme2 : ∀ u b, u ≠ t → (s.thr u).holdsX n hash b = true → ts'.holds n hash b = false)
    (htok : TOk n hash s.mem s.abs.buckets ts')
    (hnot : ∀ op i acc, s.thr t = .mAcc op i acc → writes op = false)
    (hts' : ∀ op i acc, ts' = .mAcc op i acc → writes op = true → i = 0) :
    Inv n hash { s with thr := upd s.thr t ts', hist := hist' } := by
  refine ⟨h.npos, h.memlen, h.absn, h.abshash, h.abslen, ?_, ?_, ?_, ?_, h.logA, h.logR⟩
  · intro a u b hau ha
    simp only [upd] at ha ⊢
    by_cases e1 : a = t
    · subst e1
      have e2 : u ≠ a := Ne.symm hau
      simp only [if_true, e2, if_false] at ha ⊢
      exact hme1 u b e2 ha
    · by_cases e2 : u = t
      · subst e2
        simp only [e1, if_false, if_true] at ha ⊢
        exact hme2 a b e1 ha
      · simp only [e1, e2, if_false] at ha ⊢
        exact h.me a u b hau ha
  · intro a
    simp only [upd]
    by_cases e : a = t
    · simp only [e, if_true]; exact htok
    · simp only [e, if_false]; exact h.tok a
  · intro a op i acc ha hw b hb
    simp only [upd] at ha
    by_cases e : a = t
    · simp only [e, if_true] at ha
      have := hts' op i acc ha hw
      omega
    · simp only [e, if_false] at ha
      exact h.memC a op i acc ha hw b hb
  · intro b hb hc
    apply h.memA b hb
    intro a op i acc ha hw
    by_cases e : a = t
    · subst e
      have := hnot op i acc ha
      rw [hw] at this; exact Bool.noConfusion this
    · exact hc a op i acc (by simp only [upd, e, if_false]; exact ha) hw

/-- … in particular steps after which the thread holds no more mutexes than before, for the same operation -/
theorem frame_sub {n : Nat} {hash : Nat → Nat} {s : St V} (h : Inv n hash s) (t : Nat) (ts' : TS V) (hist' : List (Ev V))
    (hsub : ∀ b, ts'.holds n hash b = true → (s.thr t).holds n hash b = true)
    (hop : ∀ op, ts'.op? = some op → (s.thr t).op? = some op)
    (htok : TOk n hash s.mem s.abs.buckets ts')
    (hnot : ∀ op i acc, s.thr t = .mAcc op i acc → writes op = false)
    (hts' : ∀ op i acc, ts' = .mAcc op i acc → writes op = true → i = 0) :
    Inv n hash { s with thr := upd s.thr t ts', hist := hist' } := by
  refine frame h t ts' hist' ?_ ?_ htok hnot hts'
  · intro u b hu hx
    apply h.me t u b (Ne.symm hu)
    simp only [TS.holdsX, Bool.and_eq_true] at hx ⊢
    refine ⟨hsub b hx.1, ?_⟩
    cases ho : ts'.op? with
    | none => rw [ho] at hx; exact absurd hx.2 (by simp)
    | some op => rw [ho] at hx; rw [hop op ho]; exact hx.2
  · intro u b hu hx
    have := h.me u t b hu hx
    cases hb : ts'.holds n hash b with
    | false => rfl
    | true => rw [hsub b hb] at this; exact Bool.noConfusion this

/-- mutual exclusion survives a step after which the thread holds no more mutexes than before -/
theorem me_sub {n : Nat} {hash : Nat → Nat} {s : St V} (h : Inv n hash s) (t : Nat) (ts' : TS V)
    (hsub : ∀ b, ts'.holds n hash b = true → (s.thr t).holds n hash b = true)
    (hop : ∀ op, ts'.op? = some op → (s.thr t).op? = some op) :
    ∀ a u b, a ≠ u → (upd s.thr t ts' a).holdsX n hash b = true → (upd s.thr t ts' u).holds n hash b = false := by
  have hx1 : ∀ b, ts'.holdsX n hash b = true → (s.thr t).holdsX n hash b = true := by
    intro b hx
    simp only [TS.holdsX, Bool.and_eq_true] at hx ⊢
    refine ⟨hsub b hx.1, ?_⟩
    cases ho : ts'.op? with
    | none => rw [ho] at hx; exact absurd hx.2 (by simp)
    | some op => rw [ho] at hx; rw [hop op ho]; exact hx.2
  intro a u b hau ha
  simp only [upd] at ha ⊢
  by_cases e1 : a = t
  · subst e1
    have e2 : u ≠ a := Ne.symm hau
    simp only [if_true, e2, if_false] at ha ⊢
    exact h.me a u b hau (hx1 b ha)
  · by_cases e2 : u = t
    · subst e2
      simp only [e1, if_false, if_true] at ha ⊢
      have := h.me a u b hau ha
      cases hb : ts'.holds n hash b with
      | false => rfl
      | true => rw [hsub b hb] at this; exact Bool.noConfusion this
    · simp only [e1, e2, if_false] at ha ⊢
      exact h.me a u b hau ha

/-- appending a linearization point to the log -/
theorem log_step {n : Nat} {hash : Nat → Nat} {s : St V} (h : Inv n hash s) (t : Nat) (op : Op V) (r : Res V)
    (hr : r = (s.abs.step op).2) :
    (s.abs.step op).1 = ((Map.empty n hash).run (opsOf (s.log ++ [(t, op, r)]))).1 ∧
    ((Map.empty n hash).run (opsOf (s.log ++ [(t, op, r)]))).2 = ressOf (s.log ++ [(t, op, r)]) := by
  have e : opsOf (s.log ++ [(t, op, r)]) = opsOf s.log ++ [op] := by simp [opsOf]
  rw [e, run_append, ← h.logA, h.logR]
  simp [ressOf, hr]

/-- replacing the ghost log (and history) by one that is again a run to the same sequential map -/
theorem Inv.with_log {n : Nat} {hash : Nat → Nat} {s : St V} (h : Inv n hash s) (log' : List (Nat × Op V × Res V))
    (hist' : List (Ev V)) (hA : s.abs = ((Map.empty n hash).run (opsOf log')).1)
    (hR : ((Map.empty n hash).run (opsOf log')).2 = ressOf log') :
    Inv n hash { s with log := log', hist := hist' } :=
  ⟨h.npos, h.memlen, h.absn, h.abshash, h.abslen, h.me, h.tok, h.memC, h.memA, hA, hR⟩

/-! ### every micro-step preserves the invariant -/

theorem step_inv {n : Nat} {hash : Nat → Nat} {s s' : St V} (h : Inv n hash s) (st : Step n hash s s') :
    Inv n hash s' := by
  cases st with
  | invokeS t op k hi hk =>
    exact frame h t _ _ (by intro u b _ hx; simp [TS.holdsX, TS.holds] at hx) (by intro u b _ _; simp [TS.holds])
      (by simpa [TOk] using hk) (by intro op i acc e; rw [hi] at e; cases e) (by intro op i acc e; cases e)
  | invokeM t op hi hk =>
    exact frame h t _ _ (by intro u b _ hx; simp [TS.holdsX, TS.holds] at hx) (by intro u b _ _; simp [TS.holds])
      (by simpa [TOk] using hk) (by intro op i acc e; rw [hi] at e; cases e) (by intro op i acc e; cases e)
  | acqS t op k hw hfree =>
    have hk : key? op = some k := by have := h.tok t; rw [hw] at this; exact this
    refine frame h t _ s.hist ?_ ?_ (by simpa [TOk] using hk) (by intro op i acc e; rw [hw] at e; cases e)
      (by intro op i acc e; cases e)
    · intro u b hu hx
      simp only [TS.holdsX, TS.holds, TS.op?, Bool.and_eq_true, beq_iff_eq] at hx
      obtain ⟨hb, hwr⟩ := hx
      subst hb
      have := hfree u hu
      simpa [free, hwr] using this
    · intro u b hu hx
      simp only [TS.holds]
      by_cases hb : b = hash k % n
      · subst hb
        have := hfree u hu
        unfold free at this
        split at this
        · rw [holdsX_holds n hash _ _ hx] at this; exact Bool.noConfusion this
        · rw [hx] at this; exact Bool.noConfusion this
      · simpa using hb
  | readS t op k hw =>
    have hk : key? op = some k := by have := h.tok t; rw [hw] at this; exact this
    exact frame_sub h t _ s.hist (by intro b hb; rw [hw]; simpa [TS.holds] using hb)
      (by intro o ho; rw [hw]; simpa [TS.op?] using ho) (by simp [TOk, hk])
      (by intro op i acc e; rw [hw] at e; cases e) (by intro op i acc e; cases e)
  | writeS t op k l hw =>
    have htk := h.tok t
    rw [hw] at htk
    obtain ⟨hk, hl⟩ := htk
    have hbn : hash k % n < n := Nat.mod_lt _ h.npos
    have hidx : s.abs.idx k = hash k % n := by simp [Map.idx, h.abshash, h.absn]
    obtain ⟨hA, hR⟩ := step_single s.abs op k hk
    rw [hidx] at hA hR
    have hholds : (s.thr t).holds n hash (hash k % n) = true := by rw [hw]; simp [TS.holds]
    have hnoclear : ∀ u op' i acc, s.thr u = .mAcc op' i acc → writes op' = true → False := by
      intro u op' i acc hu hw'
      have := h.no_clear t _ hbn hholds u op' i acc hu hw'
      subst this; rw [hw] at hu; cases hu
    have hmem : s.mem.getD (hash k % n) [] = s.abs.buckets.getD (hash k % n) [] :=
      h.memA _ hbn (fun u op' i acc hu hw' _ => hnoclear u op' i acc hu hw')
    have hres : resOf op [l] = (s.abs.step op).2 := by rw [hR, hl, hmem]
    obtain ⟨hLA, hLR⟩ := log_step h t op (resOf op [l]) hres
    have hsub : ∀ b, (TS.sDone op k (resOf op [l])).holds n hash b = true → (s.thr t).holds n hash b = true := by
      intro b hb; rw [hw]; simpa [TS.holds] using hb
    have hop : ∀ o, (TS.sDone op k (resOf op [l])).op? = some o → (s.thr t).op? = some o := by
      intro o ho; rw [hw]; simpa [TS.op?] using ho
    by_cases hwr : writes op = true
    · have hothers : ∀ u, u ≠ t → (s.thr u).holds n hash (hash k % n) = false := by
        intro u hu
        apply h.me t u _ (Ne.symm hu)
        rw [hw]; simp [TS.holdsX, TS.holds, TS.op?, hwr]
      refine ⟨h.npos, by simp [h.memlen], by rw [hA]; exact h.absn, by rw [hA]; exact h.abshash,
        by rw [hA]; simp [h.abslen], me_sub h t _ hsub hop, ?_, ?_, ?_, hLA, hLR⟩
      · intro u
        by_cases e : u = t
        · subst e; simp [TOk, hk]
        · simp only [upd, e, if_false]
          have hu := hothers u e
          have htu := h.tok u
          cases hthr : s.thr u with
          | idle => simp [TOk]
          | sWait op' k' => rw [hthr] at htu; simpa [TOk] using htu
          | sHeld op' k' => rw [hthr] at htu; simpa [TOk] using htu
          | sDone op' k' r' => rw [hthr] at htu; simpa [TOk] using htu
          | mAcq op' i => rw [hthr] at htu; simpa [TOk] using htu
          | mRel op' i r' => rw [hthr] at htu; simpa [TOk] using htu
          | sRead op' k' l' =>
            rw [hthr] at htu hu
            simp only [TOk] at htu ⊢
            simp only [TS.holds, beq_eq_false_iff_ne, ne_eq] at hu
            refine ⟨htu.1, ?_⟩
            rw [getD_set_ne _ _ _ _ _ hu]
            exact htu.2
          | mAcc op' i acc =>
            rw [hthr] at hu
            simp [TS.holds] at hu
            omega
      · intro u op' i acc hu hw' b hb
        by_cases e : u = t
        · subst e; simp [upd] at hu
        · simp only [upd, e, if_false] at hu
          exact (hnoclear u op' i acc hu hw').elim
      · intro b hb hc
        by_cases e : b = hash k % n
        · subst e
          rw [getD_set_same _ _ _ _ (by rw [h.memlen]; exact hbn), hA]
          simp only []
          rw [getD_modify_same _ _ _ _ (by rw [h.abslen]; exact hbn), hl, hmem]
        · rw [getD_set_ne _ _ _ _ _ (Ne.symm e), hA]
          simp only []
          rw [getD_modify_ne _ _ _ _ _ (Ne.symm e)]
          exact h.memA b hb (fun u op' i acc hu hw' _ => hnoclear u op' i acc hu hw')
    · have hwr' : writes op = false := by simpa using hwr
      have hf : bucketFn op = fun x => x := funext (bucketFn_reader op hwr')
      have hmem' : s.mem.set (hash k % n) (bucketFn op l) = s.mem := by
        rw [hf, hl]; exact set_getD_self _ _ _
      have habs' : (s.abs.step op).1 = s.abs := by
        rw [hA, hf, modify_id]
      have hI := frame_sub h t (.sDone op k (resOf op [l])) s.hist hsub hop (by simp [TOk, hk])
        (by intro op i acc e; rw [hw] at e; cases e) (by intro op i acc e; cases e)
      have := Inv.with_log hI (s.log ++ [(t, op, resOf op [l])]) (s.hist ++ [.lin t op (resOf op [l])])
        (by rw [← habs']; exact hLA) hLR
      rw [hmem', habs']
      exact this
  | retS t op k r hw =>
    exact frame_sub h t _ _ (by intro b hb; simp [TS.holds] at hb) (by intro o ho; simp [TS.op?] at ho) (by simp [TOk])
      (by intro op i acc e; rw [hw] at e; cases e) (by intro op i acc e; cases e)
  | acqM t op i hw hi hfree =>
    have hk : key? op = none := by have := h.tok t; rw [hw] at this; exact this.1
    refine frame h t _ s.hist ?_ ?_ (by simp [TOk, hk]; omega) (by intro op i acc e; rw [hw] at e; cases e)
      (by intro op i acc e; cases e)
    · intro u b hu hx
      simp only [TS.holdsX, TS.holds, TS.op?, Bool.and_eq_true, decide_eq_true_eq] at hx
      obtain ⟨hb, hwr⟩ := hx
      by_cases hbi : b < i
      · apply h.me t u b (Ne.symm hu)
        rw [hw]; simp [TS.holdsX, TS.holds, TS.op?, hbi, hwr]
      · have : b = i := by omega
        subst this
        have := hfree u hu
        simpa [free, hwr] using this
    · intro u b hu hx
      simp only [TS.holds, decide_eq_false_iff_not]
      intro hb
      by_cases hbi : b < i
      · have := h.me u t b hu hx
        rw [hw] at this
        simp [TS.holds, hbi] at this
      · have : b = i := by omega
        subst this
        have := hfree u hu
        unfold free at this
        split at this
        · rw [holdsX_holds n hash _ _ hx] at this; exact Bool.noConfusion this
        · rw [hx] at this; exact Bool.noConfusion this
  | startM t op hw =>
    have hk : key? op = none := by have := h.tok t; rw [hw] at this; exact this.1
    exact frame_sub h t _ s.hist (by intro b hb; rw [hw]; simpa [TS.holds] using hb)
      (by intro o ho; rw [hw]; simpa [TS.op?] using ho) (by simp [TOk, hk])
      (by intro op i acc e; rw [hw] at e; cases e) (by intro op i acc e _; cases e; rfl)
  | accM t op i acc hw hi =>
    have htk := h.tok t
    rw [hw] at htk
    obtain ⟨hk, _, hacc⟩ := htk
    have hholds : ∀ b, b < n → (s.thr t).holds n hash b = true := by
      intro b hb; rw [hw]; simp [TS.holds, hb]
    have hnoclear : ∀ u, u ≠ t → ∀ op' i' acc', s.thr u = .mAcc op' i' acc' → writes op' = true → False := by
      intro u hu op' i' acc' htu hw'
      exact hu (h.no_clear t i hi (hholds i hi) u op' i' acc' htu hw')
    have hmemi : s.mem.getD i [] = s.abs.buckets.getD i [] := by
      apply h.memA i hi
      intro u op' i' acc' htu hw'
      by_cases e : u = t
      · subst e; rw [hw] at htu; cases htu; omega
      · exact (hnoclear u e op' i' acc' htu hw').elim
    have hacc' : acc ++ [s.mem.getD i []] = s.abs.buckets.take (i + 1) := by
      rw [hacc, hmemi, take_succ_getD _ _ _ (by rw [h.abslen]; exact hi)]
    have hsub : ∀ b, (TS.mAcc op (i + 1) (acc ++ [s.mem.getD i []])).holds n hash b = true →
        (s.thr t).holds n hash b = true := by
      intro b hb; rw [hw]; simpa [TS.holds] using hb
    have hop : ∀ o, (TS.mAcc op (i + 1) (acc ++ [s.mem.getD i []])).op? = some o → (s.thr t).op? = some o := by
      intro o ho; rw [hw]; simpa [TS.op?] using ho
    by_cases hwr : writes op = true
    · have hothers : ∀ u, u ≠ t → ∀ b, b < n → (s.thr u).holds n hash b = false := by
        intro u hu b hb
        apply h.me t u b (Ne.symm hu)
        rw [hw]; simp [TS.holdsX, TS.holds, TS.op?, hwr, hb]
      refine ⟨h.npos, by simp [h.memlen], h.absn, h.abshash, h.abslen, me_sub h t _ hsub hop, ?_, ?_, ?_, h.logA, h.logR⟩
      · intro u
        by_cases e : u = t
        · subst e; simp only [upd_same, TOk]; exact ⟨hk, by omega, hacc'⟩
        · simp only [upd, e, if_false]
          have htu := h.tok u
          cases hthr : s.thr u with
          | idle => simp [TOk]
          | sWait op' k' => rw [hthr] at htu; simpa [TOk] using htu
          | sHeld op' k' => rw [hthr] at htu; simpa [TOk] using htu
          | sDone op' k' r' => rw [hthr] at htu; simpa [TOk] using htu
          | mAcq op' i' => rw [hthr] at htu; simpa [TOk] using htu
          | mRel op' i' r' => rw [hthr] at htu; simpa [TOk] using htu
          | sRead op' k' l' =>
            have := hothers u e (hash k' % n) (Nat.mod_lt _ h.npos)
            rw [hthr] at this; simp [TS.holds] at this
          | mAcc op' i' acc' =>
            have := hothers u e 0 h.npos
            rw [hthr] at this; simp [TS.holds, h.npos] at this
      · intro u op' i' acc' hu hw' b hb
        by_cases e : u = t
        · subst e
          simp only [upd_same] at hu
          cases hu
          by_cases eb : b = i
          · subst eb
            rw [getD_set_same _ _ _ _ (by rw [h.memlen]; exact hi), hmemi]
          · rw [getD_set_ne _ _ _ _ _ (Ne.symm eb)]
            exact h.memC u op i acc hw hw' b (by omega)
        · simp only [upd, e, if_false] at hu
          exact (hnoclear u e op' i' acc' hu hw').elim
      · intro b hb hc
        have hbi : ¬ b < i + 1 := hc t op (i + 1) (acc ++ [s.mem.getD i []]) (by simp only [upd_same]) hwr
        rw [getD_set_ne _ _ _ _ _ (by omega)]
        apply h.memA b hb
        intro u op' i' acc' htu hw'
        by_cases e : u = t
        · subst e; rw [hw] at htu; cases htu; omega
        · exact (hnoclear u e op' i' acc' htu hw').elim
    · have hwr' : writes op = false := by simpa using hwr
      have hmem' : s.mem.set i (bucketFn op (s.mem.getD i [])) = s.mem := by
        rw [bucketFn_reader op hwr']; exact set_getD_self _ _ _
      have hI := frame_sub h t (.mAcc op (i + 1) (acc ++ [s.mem.getD i []])) s.hist hsub hop
        (by simp only [TOk]; exact ⟨hk, by omega, hacc'⟩)
        (by intro op' i' acc' e; rw [hw] at e; cases e; exact hwr')
        (by intro op' i' acc' e hw'; cases e; rw [hwr'] at hw'; exact Bool.noConfusion hw')
      rw [hmem']
      exact hI
  | linM t op acc hw =>
    have htk := h.tok t
    rw [hw] at htk
    obtain ⟨hk, _, hacc⟩ := htk
    have hacc' : acc = s.abs.buckets := by rw [hacc, ← h.abslen, List.take_length]
    obtain ⟨hA, hR⟩ := step_multi s.abs op hk
    have hres : resOf op acc = (s.abs.step op).2 := by rw [hR, hacc']
    obtain ⟨hLA, hLR⟩ := log_step h t op (resOf op acc) hres
    have hholds : ∀ b, b < n → (s.thr t).holds n hash b = true := by
      intro b hb; rw [hw]; simp [TS.holds, hb]
    have hnoclear : ∀ u, u ≠ t → ∀ op' i' acc', s.thr u = .mAcc op' i' acc' → writes op' = true → False := by
      intro u hu op' i' acc' htu hw'
      exact hu (h.no_clear t 0 h.npos (hholds 0 h.npos) u op' i' acc' htu hw')
    have hsub : ∀ b, (TS.mRel op 0 (resOf op acc)).holds n hash b = true → (s.thr t).holds n hash b = true := by
      intro b hb; rw [hw]; simpa [TS.holds] using hb
    have hop : ∀ o, (TS.mRel op 0 (resOf op acc)).op? = some o → (s.thr t).op? = some o := by
      intro o ho; rw [hw]; simpa [TS.op?] using ho
    by_cases hwr : writes op = true
    · have hothers : ∀ u, u ≠ t → ∀ b, b < n → (s.thr u).holds n hash b = false := by
        intro u hu b hb
        apply h.me t u b (Ne.symm hu)
        rw [hw]; simp [TS.holdsX, TS.holds, TS.op?, hwr, hb]
      have hAb : (s.abs.step op).1.buckets = s.abs.buckets.map (bucketFn op) := by rw [hA]; simp [hwr]
      refine ⟨h.npos, h.memlen, by rw [hA]; exact h.absn, by rw [hA]; exact h.abshash,
        by rw [hAb]; simp [h.abslen], me_sub h t _ hsub hop, ?_, ?_, ?_, hLA, hLR⟩
      · intro u
        by_cases e : u = t
        · subst e; simp [TOk, hk]
        · simp only [upd, e, if_false]
          have htu := h.tok u
          cases hthr : s.thr u with
          | idle => simp [TOk]
          | sWait op' k' => rw [hthr] at htu; simpa [TOk] using htu
          | sHeld op' k' => rw [hthr] at htu; simpa [TOk] using htu
          | sDone op' k' r' => rw [hthr] at htu; simpa [TOk] using htu
          | mAcq op' i' => rw [hthr] at htu; simpa [TOk] using htu
          | mRel op' i' r' => rw [hthr] at htu; simpa [TOk] using htu
          | sRead op' k' l' => rw [hthr] at htu; simpa [TOk] using htu
          | mAcc op' i' acc' =>
            have := hothers u e 0 h.npos
            rw [hthr] at this; simp [TS.holds, h.npos] at this
      · intro u op' i' acc' hu hw' b hb
        by_cases e : u = t
        · subst e; simp at hu
        · simp only [upd, e, if_false] at hu
          exact (hnoclear u e op' i' acc' hu hw').elim
      · intro b hb _
        rw [hAb, getD_map_lt _ _ _ [] _ (by rw [h.abslen]; exact hb)]
        exact h.memC t op n acc hw hwr b hb
    · have hwr' : writes op = false := by simpa using hwr
      have habs' : (s.abs.step op).1 = s.abs := by rw [hA]; simp [hwr']
      have hI := frame_sub h t (.mRel op 0 (resOf op acc)) s.hist hsub hop (by simp [TOk, hk])
        (by intro op' i' acc' e; rw [hw] at e; cases e; exact hwr') (by intro op' i' acc' e; cases e)
      have := Inv.with_log hI (s.log ++ [(t, op, resOf op acc)]) (s.hist ++ [.lin t op (resOf op acc)])
        (by rw [← habs']; exact hLA) hLR
      rw [habs']
      exact this
  | relM t op i r hw hi =>
    have hk : key? op = none := by have := h.tok t; rw [hw] at this; exact this.1
    exact frame_sub h t _ s.hist
      (by intro b hb; rw [hw]; simp only [TS.holds, Bool.and_eq_true, decide_eq_true_eq] at hb ⊢; omega)
      (by intro o ho; rw [hw]; simpa [TS.op?] using ho) (by simp [TOk, hk]; omega)
      (by intro op i acc e; rw [hw] at e; cases e) (by intro op i acc e; cases e)
  | retM t op r hw =>
    exact frame_sub h t _ _ (by intro b hb; simp [TS.holds] at hb) (by intro o ho; simp [TS.op?] at ho) (by simp [TOk])
      (by intro op i acc e; rw [hw] at e; cases e) (by intro op i acc e; cases e)

theorem reach_inv {n : Nat} {hash : Nat → Nat} (hn : 0 < n) {s : St V} (hr : Reach n hash s) : Inv n hash s := by
  induction hr with
  | init => exact init_inv n hash hn
  | step s s' _ st ih => exact step_inv ih st

/-! ### the event history: every operation has its linearization point between invocation and return -/

def Ev.tid : Ev V → Nat
  | .inv t _ => t
  | .lin t _ _ => t
  | .ret t _ _ => t

def linOf : Ev V → Option (Nat × Op V × Res V)
  | .lin t op r => some (t, op, r)
  | _ => none

/-- the events of a thread's operation in progress -/
def pend (t : Nat) : TS V → List (Ev V)
  | .idle => []
  | .sWait op _ => [.inv t op]
  | .sHeld op _ => [.inv t op]
  | .sRead op _ _ => [.inv t op]
  | .sDone op _ r => [.inv t op, .lin t op r]
  | .mAcq op _ => [.inv t op]
  | .mAcc op _ _ => [.inv t op]
  | .mRel op _ r => [.inv t op, .lin t op r]

/-- completed operations of thread `t`: invocation, linearization point, return — with one result -/
inductive Complete (t : Nat) : List (Ev V) → Prop where
  | nil : Complete t []
  | snoc (l : List (Ev V)) (op : Op V) (r : Res V) : Complete t l → Complete t (l ++ [.inv t op, .lin t op r, .ret t op r])

def proj (t : Nat) (h : List (Ev V)) : List (Ev V) := h.filter (fun e => e.tid == t)

structure HInv (s : St V) : Prop where
  /-- per thread: completed triples, then the events of the operation in progress -/
  shape : ∀ t, ∃ pre, Complete t pre ∧ proj t s.hist = pre ++ pend t (s.thr t)
  /-- the linearization events, in history order, are the log -/
  lins : s.hist.filterMap linOf = s.log

theorem proj_append_other (t u : Nat) (h : List (Ev V)) (e : Ev V) (he : e.tid = t) (hu : u ≠ t) :
    proj u (h ++ [e]) = proj u h := by
  have : (e.tid == u) = false := by rw [he]; simpa using (Ne.symm hu)
  simp [proj, List.filter_append, this]

theorem proj_append_self (t : Nat) (h : List (Ev V)) (e : Ev V) (he : e.tid = t) :
    proj t (h ++ [e]) = proj t h ++ [e] := by
  simp [proj, List.filter_append, he]

/-- a step that adds no event and leaves the pending events of its thread as they are -/
theorem hframe {s : St V} (h : HInv s) (t : Nat) (ts' : TS V) (hp : pend t ts' = pend t (s.thr t))
    (mem' : List (Bucket V)) :
    HInv { s with mem := mem', thr := upd s.thr t ts' } := by
  refine ⟨?_, h.lins⟩
  intro u
  obtain ⟨pre, hc, hpj⟩ := h.shape u
  refine ⟨pre, hc, ?_⟩
  by_cases e : u = t
  · subst e; simp only [upd_same, hp]; exact hpj
  · simp only [upd, e, if_false]; exact hpj

/-- a step that appends one event of its thread, extending the events of the operation in progress -/
theorem hgrow {s : St V} (h : HInv s) (t : Nat) (ts' : TS V) (e : Ev V) (he : e.tid = t)
    (hp : pend t ts' = pend t (s.thr t) ++ [e]) (mem' : List (Bucket V)) (abs' : Map V)
    (log' : List (Nat × Op V × Res V)) (hl : (s.hist ++ [e]).filterMap linOf = log') :
    HInv { s with mem := mem', thr := upd s.thr t ts', abs := abs', log := log', hist := s.hist ++ [e] } := by
  refine ⟨?_, hl⟩
  intro u
  obtain ⟨pre, hc, hpj⟩ := h.shape u
  by_cases eu : u = t
  · subst eu
    refine ⟨pre, hc, ?_⟩
    simp only [upd_same, hp, proj_append_self u _ e he, hpj, List.append_assoc]
  · exact ⟨pre, hc, by simp only [upd, eu, if_false]; rw [proj_append_other t u _ e he eu]; exact hpj⟩

/-- the return step: the pending `inv, lin` become a completed triple -/
theorem hret {s : St V} (h : HInv s) (t : Nat) (op : Op V) (r : Res V)
    (hp : pend t (s.thr t) = [.inv t op, .lin t op r]) :
    HInv { s with thr := upd s.thr t .idle, hist := s.hist ++ [.ret t op r] } := by
  refine ⟨?_, by simp [List.filterMap_append, linOf, h.lins]⟩
  intro u
  obtain ⟨pre, hc, hpj⟩ := h.shape u
  by_cases eu : u = t
  · subst eu
    refine ⟨_, Complete.snoc pre op r hc, ?_⟩
    rw [proj_append_self u _ (.ret u op r) rfl, hpj, hp]
    simp [pend]
  · exact ⟨pre, hc, by simp only [upd, eu, if_false]; rw [proj_append_other t u _ (.ret t op r) rfl eu]; exact hpj⟩

theorem step_hinv {n : Nat} {hash : Nat → Nat} {s s' : St V} (h : HInv s) (st : Step n hash s s') : HInv s' := by
  cases st with
  | invokeS t op k hi hk =>
    exact hgrow h t _ (.inv t op) rfl (by rw [hi]; rfl) s.mem s.abs s.log
      (by simp [List.filterMap_append, linOf, h.lins])
  | invokeM t op hi hk =>
    exact hgrow h t _ (.inv t op) rfl (by rw [hi]; rfl) s.mem s.abs s.log
      (by simp [List.filterMap_append, linOf, h.lins])
  | acqS t op k hw hfree => exact hframe h t _ (by rw [hw]; rfl) s.mem
  | readS t op k hw => exact hframe h t _ (by rw [hw]; rfl) s.mem
  | writeS t op k l hw =>
    exact hgrow h t _ (.lin t op (resOf op [l])) rfl (by rw [hw]; rfl) _ _ _
      (by simp [List.filterMap_append, linOf, h.lins])
  | retS t op k r hw => exact hret h t op r (by rw [hw]; rfl)
  | acqM t op i hw hi hfree => exact hframe h t _ (by rw [hw]; rfl) s.mem
  | startM t op hw => exact hframe h t _ (by rw [hw]; rfl) s.mem
  | accM t op i acc hw hi => exact hframe h t _ (by rw [hw]; rfl) _
  | linM t op acc hw =>
    exact hgrow h t _ (.lin t op (resOf op acc)) rfl (by rw [hw]; rfl) s.mem _ _
      (by simp [List.filterMap_append, linOf, h.lins])
  | relM t op i r hw hi => exact hframe h t _ (by rw [hw]; rfl) s.mem
  | retM t op r hw => exact hret h t op r (by rw [hw]; rfl)

theorem reach_hinv {n : Nat} {hash : Nat → Nat} {s : St V} (hr : Reach n hash s) : HInv s := by
  induction hr with
  | init => exact ⟨fun t => ⟨[], Complete.nil, by simp [St.init, proj, pend]⟩, rfl⟩
  | step s s' _ st ih => exact step_hinv ih st

theorem complete_ret_lin (t : Nat) (l : List (Ev V)) (hc : Complete t l) (u : Nat) (op : Op V) (r : Res V)
    (hm : Ev.ret u op r ∈ l) : Ev.lin u op r ∈ l := by
  induction hc with
  | nil => simp at hm
  | snoc l op' r' _ ih =>
    simp only [List.mem_append, List.mem_cons, List.not_mem_nil, or_false] at hm ⊢
    rcases hm with hm | hm | hm | hm
    · exact Or.inl (ih hm)
    · cases hm
    · cases hm
    · cases hm; exact Or.inr (Or.inr (Or.inl rfl))

theorem pend_no_ret (t : Nat) (ts : TS V) (u : Nat) (op : Op V) (r : Res V) : Ev.ret u op r ∉ pend t ts := by
  cases ts <;> simp [pend]

/-- **C18, every schedule.**  In every state reachable under ANY interleaving of the micro-steps of any number of
    threads:
    1. the linearization points, in the order in which they occur, form a run of the SEQUENTIAL map from the empty map,
       and the result each of them carries is the result of that sequential run (`C18_seq` then says: of an ordinary map);
    2. every thread's events are `invocation, linearization point, return` triples in program order, followed by the
       events of its operation in progress — so each linearization point lies between invocation and return, and
       the value returned is the value at the linearization point;
    3. whenever no operation is in progress, the buckets in memory are exactly those of the sequential map. -/
theorem C18_linearizable (n : Nat) (hash : Nat → Nat) (hn : 0 < n) (s : St V) (hr : Reach n hash s) :
    ((Map.empty n hash).run (opsOf (s.hist.filterMap linOf))).2 = ressOf (s.hist.filterMap linOf) ∧
    (∀ t, ∃ pre, Complete t pre ∧ proj t s.hist = pre ++ pend t (s.thr t)) ∧
    ((∀ t, s.thr t = .idle) → s.mem = ((Map.empty n hash).run (opsOf (s.hist.filterMap linOf))).1.buckets) := by
  have hI := reach_inv hn hr
  have hH := reach_hinv hr
  rw [hH.lins]
  refine ⟨hI.logR, hH.shape, ?_⟩
  intro hidle
  rw [← hI.logA]
  apply List.ext_getElem?
  intro b
  by_cases hb : b < n
  · have := hI.memA b hb (by intro t op i acc ht; rw [hidle t] at ht; cases ht)
    simp only [List.getD_eq_getElem?_getD] at this
    have h1 : b < s.mem.length := by rw [hI.memlen]; exact hb
    have h2 : b < s.abs.buckets.length := by rw [hI.abslen]; exact hb
    rw [List.getElem?_eq_getElem h1, List.getElem?_eq_getElem h2] at this ⊢
    simpa using this
  · rw [List.getElem?_eq_none (by rw [hI.memlen]; omega), List.getElem?_eq_none (by rw [hI.abslen]; omega)]

/-- every value returned is the value of the operation's linearization point -/
theorem C18_returned (n : Nat) (hash : Nat → Nat) (s : St V) (hr : Reach n hash s) (t : Nat) (op : Op V) (r : Res V)
    (hm : Ev.ret t op r ∈ s.hist) : Ev.lin t op r ∈ s.hist := by
  obtain ⟨pre, hc, hpj⟩ := (reach_hinv hr).shape t
  have h1 : Ev.ret t op r ∈ proj t s.hist := by simp [proj, hm, Ev.tid]
  rw [hpj, List.mem_append] at h1
  rcases h1 with h1 | h1
  · have := complete_ret_lin t pre hc t op r h1
    have h2 : Ev.lin t op r ∈ proj t s.hist := by rw [hpj]; exact List.mem_append_left _ this
    exact (List.mem_filter.1 h2).1
  · exact (pend_no_ret t _ t op r h1).elim

/-- the tie to the source: the mutex mode of each operation in the interleaving model (`writes`) is the mode the C++
    uses NOW (`Gen.lockExclusive`, re-extracted from threadsafe_hash_map.hpp on every run: `lock_guard` / `unique_lock`
    = exclusive, `shared_lock` = shared; the extraction also requires that the whole-map operations take every mutex
    before they touch the first bucket) -/
theorem C18_lock_modes_match :
    Gen.lockExclusive =
      [("value_for", writes (Op.find 0 : Op Unit)), ("add_or_update_mapping", writes (Op.insert 0 () : Op Unit)),
       ("remove_mapping", writes (Op.erase 0 : Op Unit)), ("empty", writes (Op.isEmpty : Op Unit)),
       ("data", writes (Op.data : Op Unit)), ("clear", writes (Op.clear : Op Unit))] := by
  decide

/-- non-vacuity: states with two operations of two threads in progress on the same bucket — one holding the mutex
    with the bucket already read, the other waiting for it — are reachable -/
example : ∃ s : St Nat, Reach 1 (fun k => k) s ∧ s.hist.length = 2 ∧
    s.thr 0 = .sRead (.insert 1 7) 1 [] ∧ s.thr 1 = .sWait (.find 1) 1 := by
  refine ⟨_, Reach.step _ _ (Reach.step _ _ (Reach.step _ _ (Reach.step _ _ Reach.init
    (Step.invokeS _ 0 (.insert 1 7) 1 rfl rfl))
    (Step.invokeS _ 1 (.find 1) 1 (by simp [upd, St.init]) rfl))
    (Step.acqS _ 0 (.insert 1 7) 1 (by simp [upd]) (by intro u hu; by_cases h1 : u = 1 <;> simp [free, writes, upd, hu, h1, TS.holds, St.init])))
    (Step.readS _ 0 (.insert 1 7) 1 (by simp [upd])), ?_⟩
  simp [St.init, upd]

end Via.HM.Conc
