import ViaProofs.Statements
import ViaProofs.Lemmas.Basic
namespace Via
open Auth

theorem b64Val_char : ∀ n : Fin 64, b64Val (b64Char n.val) = some n.val := by decide

theorem b64Char_props : ∀ n : Fin 64, isSpace (b64Char n.val) = false ∧ b64Char n.val ≠ 61 := by decide

theorem ofNat_eq (a : UInt8) (n : Nat) (h : n = a.toNat) : UInt8.ofNat n = a := by
  subst h; simp

/-- a byte is an output character of the encoder -/
def IsB64 (c : Byte) : Prop := ∃ n : Fin 64, c = b64Char n.val

theorem isB64_mk (n : Nat) (h : n < 64) : IsB64 (b64Char n) := ⟨⟨n, h⟩, rfl⟩

theorem encGroups_b64 (x : Bytes) : ∀ c ∈ encGroups x, IsB64 c := by
  fun_induction encGroups x with
  | case1 => simp
  | case2 a =>
    have := a.toNat_lt
    intro c hc
    simp only [List.mem_cons, List.not_mem_nil, or_false] at hc
    rcases hc with rfl | rfl <;> apply isB64_mk <;> omega
  | case3 a b =>
    have := a.toNat_lt; have := b.toNat_lt
    intro c hc
    simp only [List.mem_cons, List.not_mem_nil, or_false] at hc
    rcases hc with rfl | rfl | rfl <;> apply isB64_mk <;> omega
  | case4 a b c rest ih =>
    have := a.toNat_lt; have := b.toNat_lt; have := c.toNat_lt
    intro d hd
    simp only [List.mem_cons] at hd
    rcases hd with rfl | rfl | rfl | rfl | hd
    · apply isB64_mk; omega
    · apply isB64_mk; omega
    · apply isB64_mk; omega
    · apply isB64_mk; omega
    · exact ih d hd

theorem isB64_notSpace {c : Byte} (h : IsB64 c) : isSpace c = false := by
  obtain ⟨n, rfl⟩ := h; exact (b64Char_props n).1

theorem isB64_ne_pad {c : Byte} (h : IsB64 c) : c ≠ 61 := by
  obtain ⟨n, rfl⟩ := h; exact (b64Char_props n).2

/-- the line breaks inserted by the encoder are removed again by the whitespace filter -/
theorem filter_insertBreaks (s : Bytes) : ∀ n, (∀ c ∈ s, isSpace c = false) →
    (insertBreaks n s).filter (fun c => !isSpace c) = s := by
  induction s with
  | nil => intro n _; simp [insertBreaks]
  | cons c cs ih =>
    intro n h
    have hc : isSpace c = false := h c (by simp)
    have hcs : ∀ d ∈ cs, isSpace d = false := fun d hd => h d (by simp [hd])
    unfold insertBreaks
    split
    · have h10 : isSpace 10 = true := by decide
      simp [List.filter_cons, h10, hc, ih 1 hcs]
    · simp [List.filter_cons, hc, ih (n + 1) hcs]

/-- what the decoder computes on the cleaned, padded character string -/
def padOf (x : Bytes) : Nat := (3 - x.length % 3) % 3

def cleanVals (x : Bytes) : Option (List Nat) :=
  mapOpt b64Val ((encGroups x ++ List.replicate (padOf x) 61).map (fun c => if c == 61 then 65 else c))

theorem padOf_cons3 (a b c : Byte) (rest : Bytes) : padOf (a :: b :: c :: rest) = padOf rest := by
  unfold padOf; simp only [List.length_cons]; omega

theorem ofNat_zero (n : Nat) (h : n = 0) : UInt8.ofNat n = 0 := by subst h; rfl

theorem val_of_b64 (n : Nat) (h : n < 64) :
    b64Val (if b64Char n = 61 then 65 else b64Char n) = some n := by
  have h1 := (b64Char_props ⟨n, h⟩).2
  have h2 := b64Val_char ⟨n, h⟩
  simp only at h1 h2
  simp [h1, h2]

theorem clean_spec (x : Bytes) :
    ∃ vals, cleanVals x = some vals ∧ decGroups vals = x ++ List.replicate (padOf x) 0 ∧
      (encGroups x ++ List.replicate (padOf x) 61).length % 4 = 0 := by
  fun_induction encGroups x with
  | case1 => exact ⟨[], by simp [cleanVals, padOf, mapOpt, encGroups], by simp [decGroups, padOf], by simp [padOf, encGroups]⟩
  | case2 a =>
    have ha := a.toNat_lt
    refine ⟨[a.toNat / 4, a.toNat % 4 * 16, 0, 0], ?_, ?_, by simp [padOf, encGroups]⟩
    · have e1 := val_of_b64 (a.toNat / 4) (by omega)
      have e2 := val_of_b64 (a.toNat % 4 * 16) (by omega)
      have e3 : b64Val 65 = some 0 := by decide
      simp [cleanVals, padOf, mapOpt, List.replicate, encGroups, e1, e2, e3]
    · simp only [decGroups, padOf, List.length_cons, List.length_nil]
      show _ = [a, 0, 0]
      congr 1
      · apply ofNat_eq; omega
      congr 1
      · apply ofNat_zero; omega
  | case3 a b =>
    have ha := a.toNat_lt; have hb := b.toNat_lt
    refine ⟨[a.toNat / 4, a.toNat % 4 * 16 + b.toNat / 16, b.toNat % 16 * 4, 0], ?_, ?_, by simp [padOf, encGroups]⟩
    · have e1 := val_of_b64 (a.toNat / 4) (by omega)
      have e2 := val_of_b64 (a.toNat % 4 * 16 + b.toNat / 16) (by omega)
      have e3 := val_of_b64 (b.toNat % 16 * 4) (by omega)
      have e4 : b64Val 65 = some 0 := by decide
      simp [cleanVals, padOf, mapOpt, List.replicate, encGroups, e1, e2, e3, e4]
    · simp only [decGroups, padOf, List.length_cons, List.length_nil]
      show _ = [a, b, 0]
      congr 1
      · apply ofNat_eq; omega
      congr 1
      · apply ofNat_eq; omega
      congr 1
      · apply ofNat_zero; omega
  | case4 a b c rest ih =>
    have ha := a.toNat_lt; have hb := b.toNat_lt; have hc := c.toNat_lt
    obtain ⟨vals, hv, hd, hl⟩ := ih
    refine ⟨a.toNat / 4 :: (a.toNat % 4 * 16 + b.toNat / 16) :: (b.toNat % 16 * 4 + c.toNat / 64) :: (c.toNat % 64) :: vals, ?_, ?_, ?_⟩
    · have e1 := val_of_b64 (a.toNat / 4) (by omega)
      have e2 := val_of_b64 (a.toNat % 4 * 16 + b.toNat / 16) (by omega)
      have e3 := val_of_b64 (b.toNat % 16 * 4 + c.toNat / 64) (by omega)
      have e4 := val_of_b64 (c.toNat % 64) (by omega)
      unfold cleanVals at hv ⊢
      rw [padOf_cons3]
      simp only [beq_iff_eq] at hv ⊢
      simp only [encGroups, List.cons_append, List.map_cons, mapOpt, e1, e2, e3, e4, hv]
    · rw [padOf_cons3]
      simp only [decGroups, hd, List.cons_append]
      congr 1
      · apply ofNat_eq; omega
      congr 1
      · apply ofNat_eq; omega
      congr 1
      · apply ofNat_eq; omega
    · rw [padOf_cons3]
      simp only [encGroups, List.cons_append, List.length_cons] at hl ⊢
      omega

theorem b64_roundtrip : b64_roundtrip_statement := by
  intro x
  obtain ⟨vals, hv, hd, hl⟩ := clean_spec x
  have hb := encGroups_b64 x
  have hns : ∀ c ∈ encGroups x, isSpace c = false := fun c hc => isB64_notSpace (hb c hc)
  have h61 : isSpace 61 = false := by decide
  have hcount : (encGroups x).count 61 = 0 :=
    List.count_eq_zero.2 (fun h => isB64_ne_pad (hb 61 h) rfl)
  unfold decode encode
  show (match mapOpt b64Val _ with | none => _ | some vals => _) = x
  have hfilt : (insertBreaks 0 (encGroups x) ++ List.replicate ((3 - x.length % 3) % 3) 61).filter (fun c => !isSpace c)
      = encGroups x ++ List.replicate (padOf x) 61 := by
    rw [List.filter_append, filter_insertBreaks _ 0 hns, List.filter_replicate]
    simp [h61, padOf]
  simp only [hfilt]
  have hpad0 : (4 - (encGroups x ++ List.replicate (padOf x) 61).length % 4) % 4 = 0 := by omega
  rw [hpad0, List.replicate_zero, List.append_nil]
  have hcnt : (encGroups x ++ List.replicate (padOf x) 61).count 61 = padOf x := by
    rw [List.count_append, hcount, List.count_replicate]; simp
  unfold cleanVals at hv
  simp only [hv, hcnt, hd]
  simp
  intro h; omega

theorem C17_guard : C17_guard_statement := by
  intro table hdr h
  unfold basicIsValid at h
  split at h
  · cases h
  · rename_i a
    split at h
    · cases h
    · rename_i p hp
      simp only at h
      split at h
      · cases h
      · rename_i hle
        split at h
        · cases h
        · rename_i ue hue
          split at h
          · cases h
          · rename_i pw hpw
            have hpw' : (decode (a.drop (p + 6))).drop (ue + 1) = pw := by simpa using h
            obtain ⟨hs1, hs2⟩ := findByte_spec 58 _ ue hue
            refine ⟨a, p, (decode (a.drop (p + 6))).take ue, pw, rfl, hp, by omega, ?_, hs2, hpw⟩
            rw [← hpw']; exact hs1

theorem C17_challenge : C17_challenge_statement := by
  intro table realm hdr h
  refine ⟨by simp [authenticate, h], ?_, ?_⟩
  · unfold authenticateValue; split <;> simp
  · intro hr; unfold authenticateValue; simp [hr]

theorem findSub_prefix (pat s : Bytes) (i : Nat) (h : pat.isPrefixOf s = true) (hs : s ≠ []) :
    findSub pat s i = some i := by
  cases s with
  | nil => exact absurd rfl hs
  | cons c cs => simp [findSub, h]

theorem C17_accepts : C17_accepts_statement := by
  intro table u pw hu hpw
  have hfind : findSub (b!"Basic") ((b!"Basic ") ++ encode (u ++ [58] ++ pw)) 0 = some 0 := by
    apply findSub_prefix
    · simp [List.isPrefixOf]
    · simp
  have hrt : decode (encode (u ++ [58] ++ pw)) = u ++ [58] ++ pw := b64_roundtrip _
  have hfb : findByte 58 (u ++ [58] ++ pw) = some u.length := by
    rw [List.append_assoc]; exact findByte_append 58 u pw hu
  unfold basicIsValid
  simp only [hfind]
  have hdrop : ((b!"Basic ") ++ encode (u ++ [58] ++ pw)).drop (0 + 6) = encode (u ++ [58] ++ pw) := by simp
  have hlen : ¬ (0 + 6 > ((b!"Basic ") ++ encode (u ++ [58] ++ pw)).length) := by simp
  simp only [hlen, ↓reduceIte, hdrop, hrt, hfb]
  have ht : (u ++ [58] ++ pw).take u.length = u := by simp
  have hd : (u ++ [58] ++ pw).drop (u.length + 1) = pw := by simp
  simp [ht, hd, hpw]

/-- non-vacuity: a registered pair with an empty password and one with ':' in the password -/
example : tableFind (b!"u") [((b!"u"), []), ((b!"v"), (b!"a:b"))] = some [] ∧ (58 : Byte) ∉ (b!"u") := by decide

example : basicIsValid [((b!"v"), (b!"a:b"))] (some (b!"Basic djphOmI=")) = true := by decide

/-- the values that made the unrepaired code throw / corrupt memory are plain rejections -/
example : basicIsValid [((b!"v"), (b!"a:b"))] (some (b!"Basic")) = false ∧
          basicIsValid [((b!"v"), (b!"a:b"))] (some (b!"Basic =")) = false := by decide

end Via
