import ViaProofs.Statements
namespace Via

/-- relation between the line in progress and the two-byte window of `are_headers_split` -/
def WinInv (cur : Bytes) (prev pprev : Byte) : Prop :=
  (cur = [] ∧ prev = 10) ∨ (cur = [13] ∧ prev = 13 ∧ pprev = 10) ∨
  (cur ≠ [] ∧ cur ≠ [13] ∧ prev ≠ 10 ∧ (prev = 13 → pprev ≠ 10))

theorem splitLoop_iff_blank (s : Bytes) : ∀ (cur : Bytes) (prev pprev : Byte),
    WinInv cur prev pprev → (splitLoop prev pprev s = true ↔ blankLines cur s > 0) := by
  induction s with
  | nil => intro cur prev pprev _; simp [splitLoop, blankLines]
  | cons c cs ih =>
    intro cur prev pprev hinv
    unfold splitLoop blankLines
    by_cases hc : c = 10
    · subst hc
      have hA : WinInv [] 10 prev := Or.inl ⟨rfl, rfl⟩
      rcases hinv with ⟨h1, h2⟩ | ⟨h1, h2, h3⟩ | ⟨h1, h2, h3, h4⟩
      · subst h1; subst h2; simp; omega
      · subst h1; subst h2; subst h3; simp; omega
      · have hn : ¬ (prev = 13 ∧ pprev = 10) := fun ⟨a, b⟩ => h4 a b
        have := ih [] 10 prev hA
        simp [h1, h2, h3, hn, this]
    · have hc' : (c == 10) = false := by simp [hc]
      simp only [hc', Bool.false_and, Bool.false_eq_true, ↓reduceIte]
      apply ih
      rcases hinv with ⟨h1, h2⟩ | ⟨h1, h2, h3⟩ | ⟨h1, h2, h3, h4⟩
      · subst h1; subst h2
        by_cases h13 : c = 13
        · subst h13; exact Or.inr (Or.inl ⟨rfl, rfl, rfl⟩)
        · refine Or.inr (Or.inr ⟨by simp, by simp [h13], hc, fun h => absurd h h13⟩)
      · subst h1; subst h2; subst h3
        refine Or.inr (Or.inr ⟨by simp, by simp, hc, fun _ => by decide⟩)
      · refine Or.inr (Or.inr ⟨by simp, ?_, hc, fun _ => h3⟩)
        intro h; simp at h; exact h1 h.2

theorem areHeadersSplit_iff (h : Bytes) : areHeadersSplit h = true ↔ blankLines [] h > 0 :=
  splitLoop_iff_blank h [] 10 48 (Or.inl ⟨rfl, rfl⟩)

/-- a segment without LF followed by LF: one line -/
theorem blankLines_line (s : Bytes) : ∀ (cur rest : Bytes), 10 ∉ s →
    blankLines cur (s ++ 10 :: rest) =
      (if (s.reverse ++ cur == [] || s.reverse ++ cur == [13]) then 1 else 0) + blankLines [] rest := by
  induction s with
  | nil => intro cur rest _; simp [blankLines]
  | cons c cs ih =>
    intro cur rest hs
    have hc : c ≠ 10 := fun h => hs (by simp [h])
    have hcs : 10 ∉ cs := fun h => hs (by simp [h])
    simp only [List.cons_append, blankLines, beq_iff_eq, hc, ↓reduceIte]
    rw [ih (c :: cur) rest hcs]
    simp

/-- `blankLines` is additive over a prefix that is empty or ends with LF -/
theorem blankLines_append (a : Bytes) : ∀ (cur b : Bytes), a.getLast? = some 10 →
    blankLines cur (a ++ b) = blankLines cur a + blankLines [] b := by
  induction a with
  | nil => intro cur b h; simp at h
  | cons c cs ih =>
    intro cur b h
    simp only [List.cons_append, blankLines]
    by_cases hcs : cs = []
    · subst hcs
      simp at h; subst h
      simp [blankLines]
    · have h' : cs.getLast? = some 10 := by
        rw [List.getLast?_cons_of_ne_nil hcs] at h; exact h
      split
      · rw [ih [] b h']; omega
      · rw [ih (c :: cur) b h']

theorem blankLines_append' (a b : Bytes) (h : a = [] ∨ a.getLast? = some 10) :
    blankLines [] (a ++ b) = blankLines [] a + blankLines [] b := by
  rcases h with h | h
  · subst h; simp [blankLines]
  · exact blankLines_append a [] b h

theorem lowHex_ne_LF (k : Nat) (hk : k < 16) : lowHex k ≠ 10 := by
  have : ∀ k : Fin 16, lowHex k.val ≠ 10 := by decide
  exact this ⟨k, hk⟩

theorem toDigitsAux_noLF (base : Nat) (hb : 2 ≤ base) (hb16 : base ≤ 16) : ∀ (fuel n : Nat) (acc : Bytes),
    10 ∉ acc → 10 ∉ toDigitsAux base hb fuel n acc := by
  intro fuel
  induction fuel with
  | zero => intro n acc h; simpa [toDigitsAux]
  | succ f ih =>
    intro n acc h
    unfold toDigitsAux
    split
    · rename_i hn
      have := lowHex_ne_LF n (by omega)
      simp [h, this.symm]
    · have := lowHex_ne_LF (n % base) (by have := Nat.mod_lt n (by omega : base > 0); omega)
      apply ih; simp [h, this.symm]

theorem intToDecString_noLF (i : Int) : 10 ∉ intToDecString i := by
  unfold intToDecString toDecString
  split
  · simp only [List.mem_cons, not_or]
    exact ⟨by decide, toDigitsAux_noLF 10 _ (by decide) _ _ [] (by simp)⟩
  · exact toDigitsAux_noLF 10 _ (by decide) _ _ [] (by simp)

theorem toDecString_noLF (n : Nat) : 10 ∉ toDecString n :=
  toDigitsAux_noLF 10 _ (by decide) _ _ [] (by simp)

/-- the status line is one non-empty terminated line -/
theorem responseLine_blank (maj min : Byte) (status : Int) (reason : Bytes)
    (hmaj : maj ≠ 10) (hmin : min ≠ 10) (hr : 10 ∉ reason) :
    blankLines [] (Enc.responseLine maj min status reason) = 0 ∧
    (Enc.responseLine maj min status reason).getLast? = some 10 := by
  have hcr : Enc.crlf = [13, 10] := by decide
  constructor
  · unfold Enc.responseLine Enc.httpVersion
    rw [hcr]
    have : ([72, 84, 84, 80, 47] ++ [maj] ++ [46] ++ [min] ++ [32] ++ intToDecString status ++ [32] ++ reason ++ [13, 10] : Bytes)
         = ([72, 84, 84, 80, 47] ++ [maj] ++ [46] ++ [min] ++ [32] ++ intToDecString status ++ [32] ++ reason ++ [13]) ++ 10 :: [] := by simp
    rw [this, blankLines_line]
    · simp [blankLines]
    · have := intToDecString_noLF status
      simp only [List.mem_append, List.mem_cons, List.mem_singleton, List.not_mem_nil, not_or]
      simp [hmaj.symm, hmin.symm, hr, this]
  · unfold Enc.responseLine
    rw [hcr, List.getLast?_append]; simp

theorem contentLengthHeader_blank (n : Nat) :
    blankLines [] (Enc.contentLengthHeader n) = 0 ∧ (Enc.contentLengthHeader n).getLast? = some 10 := by
  have hcr : Enc.crlf = [13, 10] := by decide
  have hcl : Gen.cHEADER_CONTENT_LENGTH = [67, 111, 110, 116, 101, 110, 116, 45, 76, 101, 110, 103, 116, 104] := by decide
  have hsep : Gen.cSEPARATOR = [58, 32] := by decide
  constructor
  · unfold Enc.contentLengthHeader
    rw [hcr, hcl, hsep]
    have : ([67, 111, 110, 116, 101, 110, 116, 45, 76, 101, 110, 103, 116, 104] ++ [58, 32] ++ toDecString n ++ [13, 10] : Bytes)
         = ([67, 111, 110, 116, 101, 110, 116, 45, 76, 101, 110, 103, 116, 104] ++ [58, 32] ++ toDecString n ++ [13]) ++ 10 :: [] := by simp
    rw [this, blankLines_line]
    · simp [blankLines]
    · have := toDecString_noLF n
      simp only [List.mem_append, List.mem_cons, List.mem_singleton, List.not_mem_nil, not_or]
      simp [this]
  · unfold Enc.contentLengthHeader
    rw [hcr, List.getLast?_append]; simp

theorem C13 : C13_statement := by
  intro maj min status reason h cl hmaj hmin hr hv
  unfold headersValid at hv
  simp only [Bool.and_eq_true, Bool.not_eq_true', Bool.or_eq_true, List.isEmpty_iff, beq_iff_eq] at hv
  obtain ⟨hns, hterm⟩ := hv
  have hb : blankLines [] h = 0 := by
    have := not_congr (areHeadersSplit_iff h)
    simp [hns] at this; exact this
  obtain ⟨hl0, hl1⟩ := responseLine_blank maj min status reason hmaj hmin hr
  have hcr : Enc.crlf = [13, 10] := by decide
  -- the optional Content-Length line
  let opt : Bytes := if Enc.needsContentLength h && Enc.contentPermitted status then Enc.contentLengthHeader cl else []
  have hopt : blankLines [] opt = 0 ∧ (opt = [] ∨ opt.getLast? = some 10) := by
    show blankLines [] (if _ then _ else _) = 0 ∧ ((if _ then _ else _) = [] ∨ (if _ then _ else _ : Bytes).getLast? = some 10)
    split
    · exact ⟨(contentLengthHeader_blank cl).1, Or.inr (contentLengthHeader_blank cl).2⟩
    · exact ⟨by simp [blankLines], Or.inl rfl⟩
  refine ⟨Enc.responseLine maj min status reason ++ h ++ opt, ?_, ?_, ?_⟩
  · unfold Enc.txResponseMessage; rw [hcr]
  · rw [List.append_assoc, blankLines_append' _ _ (Or.inr hl1), blankLines_append' _ _ hterm, hl0, hb, hopt.1]
  · rcases hopt.2 with ho | ho
    · rw [ho, List.append_nil]
      rcases hterm with ht | ht
      · rw [ht, List.append_nil]; exact hl1
      · rw [List.getLast?_append, ht]; simp
    · rw [List.getLast?_append, ho]; simp

theorem C13_refuse_when_blank : C13_refuse_statement := by
  intro h hyp
  unfold headersValid
  rcases hyp with hb | ⟨hne, hl⟩
  · have := (areHeadersSplit_iff h).2 hb
    simp [this]
  · simp [hne, hl]

/-- non-vacuity: an ordinary header block satisfies the hypotheses of `C13` -/
example : headersValid (b!"X-A: 1\r\nX-B: 2\r\n") = true ∧ (10 : Byte) ∉ (b!"OK") := by decide

/-- the two shapes the unrepaired check let through are refused -/
example : headersValid (b!"\r\nX: 1\r\n") = false ∧ headersValid (b!"\nX: 1\r\n") = false ∧
          headersValid (b!"X: y") = false := by decide

end Via
