import ViaProofs.Frag.Defs
/-
  Fragmentation law for the three single-line parsers: `request_line`, `response_line`, `chunk_header`.
-/
namespace Via

/-! ### request_line -/

theorem RL.parseChar_valid (cfg : Cfg) (s : RL) (c : Byte) :
    (s.parseChar cfg c).1.valid = s.valid := by
  unfold RL.parseChar
  repeat' (first | split | (dsimp only; split))
  all_goals rfl

theorem RL.parseChar_fail (cfg : Cfg) (s : RL) (c : Byte) :
    (s.parseChar cfg c).1.fail = s.fail := by
  unfold RL.parseChar
  repeat' (first | split | (dsimp only; split))
  all_goals rfl

theorem RL.loop_of_valid (cfg : Cfg) (s : RL) (b : Bytes) (h : (s.st == .valid) = true) :
    RL.loop cfg s b = (s, b, false) := by
  cases b <;> simp [RL.loop, h]

theorem RL.loop_append (cfg : Cfg) (a b : Bytes) : ∀ s : RL,
    RL.loop cfg s (a ++ b) =
      (let r := RL.loop cfg s a
       if r.2.2 || r.1.st == .valid then (r.1, r.2.1 ++ b, r.2.2) else RL.loop cfg r.1 b) := by
  induction a with
  | nil =>
    intro s
    by_cases h : (s.st == .valid) = true
    · simp [RL.loop, h, RL.loop_of_valid]
    · simp [RL.loop, h]
  | cons c cs ih =>
    intro s
    simp only [List.cons_append, RL.loop]
    by_cases h : (s.st == .valid) = true
    · simp [h]
    · by_cases h2 : (s.parseChar cfg c).2 = true
      · simp only [h, h2]
        exact ih _
      · simp [h, h2]

theorem RL.loop_inv (cfg : Cfg) (a : Bytes) : ∀ s : RL,
    (RL.loop cfg s a).1.valid = s.valid ∧
    ((RL.loop cfg s a).2.2 = true → (RL.loop cfg s a).1.fail = true) ∧
    ((RL.loop cfg s a).2.2 = false → s.fail = false → (RL.loop cfg s a).1.fail = false) ∧
    ((RL.loop cfg s a).2.2 = false → ((RL.loop cfg s a).1.st == .valid) = false →
      (RL.loop cfg s a).2.1 = []) := by
  induction a with
  | nil => intro s; simp [RL.loop]
  | cons c cs ih =>
    intro s
    simp only [RL.loop]
    by_cases h : (s.st == .valid) = true
    · simp [h]
    · by_cases h2 : (s.parseChar cfg c).2 = true
      · have pv := RL.parseChar_valid cfg s c
        have := ih { (s.parseChar cfg c).1 with fail := false }
        simp only [h, h2, Bool.not_true, Bool.false_eq_true, if_false]
        exact ⟨this.1.trans pv, this.2.1, fun hh _ => this.2.2.1 hh rfl, this.2.2.2⟩
      · simp [h, h2, RL.parseChar_valid]

theorem RL.loop_suffix (cfg : Cfg) (buf : Bytes) : ∀ s : RL,
    ∃ pre, buf = pre ++ (RL.loop cfg s buf).2.1 := by
  induction buf with
  | nil => intro s; exact ⟨[], rfl⟩
  | cons c cs ih =>
    intro s
    simp only [RL.loop]
    split
    · exact ⟨[], rfl⟩
    · split
      · exact ⟨[c], rfl⟩
      · obtain ⟨p, hp⟩ := ih { (s.parseChar cfg c).1 with fail := false }
        exact ⟨c :: p, by rw [List.cons_append, ← hp]⟩

/-! ### response_line -/

theorem SL.parseChar_valid (cfg : Cfg) (s : SL) (c : Byte) :
    (s.parseChar cfg c).1.valid = s.valid := by
  unfold SL.parseChar SL.crStep
  repeat' (first | split | (dsimp only; split))
  all_goals rfl

theorem SL.parseChar_fail (cfg : Cfg) (s : SL) (c : Byte) :
    (s.parseChar cfg c).1.fail = s.fail := by
  unfold SL.parseChar SL.crStep
  repeat' (first | split | (dsimp only; split))
  all_goals rfl

theorem SL.loop_of_valid (cfg : Cfg) (s : SL) (b : Bytes) (h : (s.st == .valid) = true) :
    SL.loop cfg s b = (s, b, false) := by
  cases b <;> simp [SL.loop, h]

theorem SL.loop_append (cfg : Cfg) (a b : Bytes) : ∀ s : SL,
    SL.loop cfg s (a ++ b) =
      (let r := SL.loop cfg s a
       if r.2.2 || r.1.st == .valid then (r.1, r.2.1 ++ b, r.2.2) else SL.loop cfg r.1 b) := by
  induction a with
  | nil =>
    intro s
    by_cases h : (s.st == .valid) = true
    · simp [SL.loop, h, SL.loop_of_valid]
    · simp [SL.loop, h]
  | cons c cs ih =>
    intro s
    simp only [List.cons_append, SL.loop]
    by_cases h : (s.st == .valid) = true
    · simp [h]
    · by_cases h2 : (s.parseChar cfg c).2 = true
      · simp only [h, h2]
        exact ih _
      · simp [h, h2]

theorem SL.loop_inv (cfg : Cfg) (a : Bytes) : ∀ s : SL,
    (SL.loop cfg s a).1.valid = s.valid ∧
    ((SL.loop cfg s a).2.2 = true → (SL.loop cfg s a).1.fail = true) ∧
    ((SL.loop cfg s a).2.2 = false → s.fail = false → (SL.loop cfg s a).1.fail = false) ∧
    ((SL.loop cfg s a).2.2 = false → ((SL.loop cfg s a).1.st == .valid) = false →
      (SL.loop cfg s a).2.1 = []) := by
  induction a with
  | nil => intro s; simp [SL.loop]
  | cons c cs ih =>
    intro s
    simp only [SL.loop]
    by_cases h : (s.st == .valid) = true
    · simp [h]
    · by_cases h2 : (s.parseChar cfg c).2 = true
      · have pv := SL.parseChar_valid cfg s c
        have := ih { (s.parseChar cfg c).1 with fail := false }
        simp only [h, h2, Bool.not_true, Bool.false_eq_true, if_false]
        exact ⟨this.1.trans pv, this.2.1, fun hh _ => this.2.2.1 hh rfl, this.2.2.2⟩
      · simp [h, h2, SL.parseChar_valid]

theorem SL.loop_suffix (cfg : Cfg) (buf : Bytes) : ∀ s : SL,
    ∃ pre, buf = pre ++ (SL.loop cfg s buf).2.1 := by
  induction buf with
  | nil => intro s; exact ⟨[], rfl⟩
  | cons c cs ih =>
    intro s
    simp only [SL.loop]
    split
    · exact ⟨[], rfl⟩
    · split
      · exact ⟨[c], rfl⟩
      · obtain ⟨p, hp⟩ := ih { (s.parseChar cfg c).1 with fail := false }
        exact ⟨c :: p, by rw [List.cons_append, ← hp]⟩

/-! ### chunk_header -/

theorem CH.sizeStep_valid (cfg : Cfg) (s : CH) (c : Byte) :
    (CH.sizeStep cfg s c).1.valid = s.valid := by
  unfold CH.sizeStep
  repeat' (first | split | (dsimp only; split))
  all_goals rfl

theorem CH.extStep_valid (cfg : Cfg) (s : CH) (c : Byte) :
    (CH.extStep cfg s c).1.valid = s.valid := by
  unfold CH.extStep
  repeat' (first | split | (dsimp only; split))
  all_goals rfl

theorem CH.parseChar_valid (cfg : Cfg) (s : CH) (c : Byte) :
    (s.parseChar cfg c).1.valid = s.valid := by
  unfold CH.parseChar
  dsimp only
  by_cases h : s.length + 1 > cfg.maxLine
  · simp only [h, if_true]
  · simp only [h, if_false]
    split <;> (repeat' (first | split | (dsimp only; split))) <;>
      simp only [CH.sizeStep_valid, CH.extStep_valid]

theorem CH.sizeStep_fail (cfg : Cfg) (s : CH) (c : Byte) :
    (CH.sizeStep cfg s c).1.fail = s.fail := by
  unfold CH.sizeStep
  repeat' (first | split | (dsimp only; split))
  all_goals rfl

theorem CH.extStep_fail (cfg : Cfg) (s : CH) (c : Byte) :
    (CH.extStep cfg s c).1.fail = s.fail := by
  unfold CH.extStep
  repeat' (first | split | (dsimp only; split))
  all_goals rfl

theorem CH.parseChar_fail (cfg : Cfg) (s : CH) (c : Byte) :
    (s.parseChar cfg c).1.fail = s.fail := by
  unfold CH.parseChar
  dsimp only
  by_cases h : s.length + 1 > cfg.maxLine
  · simp only [h, if_true]
  · simp only [h, if_false]
    split <;> (repeat' (first | split | (dsimp only; split))) <;>
      simp only [CH.sizeStep_fail, CH.extStep_fail]

theorem CH.loop_of_valid (cfg : Cfg) (s : CH) (b : Bytes) (h : (s.st == .valid) = true) :
    CH.loop cfg s b = (s, b, false) := by
  cases b <;> simp [CH.loop, h]

theorem CH.loop_append (cfg : Cfg) (a b : Bytes) : ∀ s : CH,
    CH.loop cfg s (a ++ b) =
      (let r := CH.loop cfg s a
       if r.2.2 || r.1.st == .valid then (r.1, r.2.1 ++ b, r.2.2) else CH.loop cfg r.1 b) := by
  induction a with
  | nil =>
    intro s
    by_cases h : (s.st == .valid) = true
    · simp [CH.loop, h, CH.loop_of_valid]
    · simp [CH.loop, h]
  | cons c cs ih =>
    intro s
    simp only [List.cons_append, CH.loop]
    by_cases h : (s.st == .valid) = true
    · simp [h]
    · by_cases h2 : (s.parseChar cfg c).2 = true
      · simp only [h, h2]
        exact ih _
      · simp [h, h2]

theorem CH.loop_inv (cfg : Cfg) (a : Bytes) : ∀ s : CH,
    (CH.loop cfg s a).1.valid = s.valid ∧
    ((CH.loop cfg s a).2.2 = true → (CH.loop cfg s a).1.fail = true) ∧
    ((CH.loop cfg s a).2.2 = false → s.fail = false → (CH.loop cfg s a).1.fail = false) ∧
    ((CH.loop cfg s a).2.2 = false → ((CH.loop cfg s a).1.st == .valid) = false →
      (CH.loop cfg s a).2.1 = []) := by
  induction a with
  | nil => intro s; simp [CH.loop]
  | cons c cs ih =>
    intro s
    simp only [CH.loop]
    by_cases h : (s.st == .valid) = true
    · simp [h]
    · by_cases h2 : (s.parseChar cfg c).2 = true
      · have pv := CH.parseChar_valid cfg s c
        have := ih (s.parseChar cfg c).1
        simp only [h, h2, Bool.not_true, Bool.false_eq_true, if_false]
        exact ⟨this.1.trans pv, this.2.1,
          fun hh hf => this.2.2.1 hh ((CH.parseChar_fail cfg s c).trans hf), this.2.2.2⟩
      · simp [h, h2, CH.parseChar_valid]

theorem CH.loop_suffix (cfg : Cfg) (buf : Bytes) : ∀ s : CH,
    ∃ pre, buf = pre ++ (CH.loop cfg s buf).2.1 := by
  induction buf with
  | nil => intro s; exact ⟨[], rfl⟩
  | cons c cs ih =>
    intro s
    simp only [CH.loop]
    split
    · exact ⟨[], rfl⟩
    · split
      · exact ⟨[c], rfl⟩
      · obtain ⟨p, hp⟩ := ih (s.parseChar cfg c).1
        exact ⟨c :: p, by rw [List.cons_append, ← hp]⟩

/-! ### the laws -/

theorem RL.parse_seq (cfg : Cfg) : SeqLaw (RL.parse cfg) RL.done := by
  intro s a b hd
  simp only [RL.done, Bool.or_eq_false_iff] at hd
  obtain ⟨⟨hf, hv⟩, hst⟩ := hd
  unfold RL.parse
  rw [RL.loop_append]
  have inv := RL.loop_inv cfg a s
  generalize RL.loop cfg s a = r at inv
  obtain ⟨r1, r2, r3⟩ := r
  simp only [hv, hf] at inv
  obtain ⟨i1, i2, i3, i4⟩ := inv
  cases r3 with
  | true => simp [RL.done, i2 rfl]
  | false =>
    have i3' := i3 rfl trivial
    by_cases hr : (r1.st == .valid) = true
    · simp [RL.done, hr]
    · have hr' : (r1.st == .valid) = false := by simpa using hr
      have i4' := i4 rfl hr'
      subst i4'
      obtain ⟨m, u, ma, mi, st, ws, v, f⟩ := r1
      simp only at i1 i3' hr'
      subst i1 i3'
      simp [RL.done, hr']

theorem SL.parse_seq (cfg : Cfg) : SeqLaw (SL.parse cfg) SL.done := by
  intro s a b hd
  simp only [SL.done, Bool.or_eq_false_iff] at hd
  obtain ⟨⟨hf, hv⟩, hst⟩ := hd
  unfold SL.parse
  rw [SL.loop_append]
  have inv := SL.loop_inv cfg a s
  generalize SL.loop cfg s a = r at inv
  obtain ⟨r1, r2, r3⟩ := r
  simp only [hv, hf] at inv
  obtain ⟨i1, i2, i3, i4⟩ := inv
  cases r3 with
  | true => simp [SL.done, i2 rfl]
  | false =>
    have i3' := i3 rfl trivial
    by_cases hr : (r1.st == .valid) = true
    · simp [SL.done, hr]
    · have hr' : (r1.st == .valid) = false := by simpa using hr
      have i4' := i4 rfl hr'
      subst i4'
      obtain ⟨sn, rs, ma, mi, st, ws, sr, v, f⟩ := r1
      simp only at i1 i3' hr'
      subst i1 i3'
      simp [SL.done, hr']

theorem CH.parse_seq (cfg : Cfg) : SeqLaw (CH.parse cfg) CH.done := by
  intro s a b hd
  simp only [CH.done, Bool.or_eq_false_iff] at hd
  obtain ⟨⟨hf, hv⟩, hst⟩ := hd
  unfold CH.parse
  rw [CH.loop_append]
  have inv := CH.loop_inv cfg a s
  generalize CH.loop cfg s a = r at inv
  obtain ⟨r1, r2, r3⟩ := r
  simp only [hv, hf] at inv
  obtain ⟨i1, i2, i3, i4⟩ := inv
  cases r3 with
  | true => simp [CH.done, i2 rfl]
  | false =>
    have i3' := i3 rfl trivial
    by_cases hr : (r1.st == .valid) = true
    · simp [CH.done, hr]
    · have hr' : (r1.st == .valid) = false := by simpa using hr
      have i4' := i4 rfl hr'
      subst i4'
      obtain ⟨sz, ln, ws, hx, ex, st, sr, v, f⟩ := r1
      simp only at i1 i3' hr'
      subst i1 i3'
      simp [CH.done, hr']

theorem RL.parse_suffix (cfg : Cfg) : SuffixLaw (RL.parse cfg) := by
  intro s buf
  obtain ⟨p, hp⟩ := RL.loop_suffix cfg buf s
  refine ⟨p, ?_⟩
  simp only [RL.parse]
  split <;> exact hp

theorem SL.parse_suffix (cfg : Cfg) : SuffixLaw (SL.parse cfg) := by
  intro s buf
  obtain ⟨p, hp⟩ := SL.loop_suffix cfg buf s
  refine ⟨p, ?_⟩
  simp only [SL.parse]
  split <;> exact hp

theorem CH.parse_suffix (cfg : Cfg) : SuffixLaw (CH.parse cfg) := by
  intro s buf
  obtain ⟨p, hp⟩ := CH.loop_suffix cfg buf s
  refine ⟨p, ?_⟩
  simp only [CH.parse]
  split <;> exact hp

end Via
