import ViaModel
/-
  Fragmentation ("sequential composition") law for the incremental parsers.

  A parser `P : S → Bytes → S × Bytes × Bool` (new state, unconsumed rest, returned bool) satisfies the
  law w.r.t. `done : S → Bool` when parsing `a ++ b` in one call is the same as parsing `a` and, if that
  call consumed all of `a` without reaching a final state, parsing `b` from the state it left.
  All parsers of the library keep their state between calls; this law is exactly what makes the result
  independent of where the network cuts the byte stream.
-/
namespace Via

def SeqLaw {S : Type} (P : S → Bytes → S × Bytes × Bool) (done : S → Bool) : Prop :=
  ∀ (s : S) (a b : Bytes), done s = false →
    P s (a ++ b) =
      (let r := P s a
       if done r.1 || !r.2.1.isEmpty then (r.1, r.2.1 ++ b, r.2.2) else P r.1 b)

/-- a parser never returns more than it was given: the rest is a suffix of the input -/
def SuffixLaw {S : Type} (P : S → Bytes → S × Bytes × Bool) : Prop :=
  ∀ (s : S) (buf : Bytes), ∃ pre, buf = pre ++ (P s buf).2.1

def RL.done (s : RL) : Bool := s.fail || s.valid || s.st == .valid
def SL.done (s : SL) : Bool := s.fail || s.valid || s.st == .valid
def CH.done (s : CH) : Bool := s.fail || s.valid || s.st == .valid
def MH.done (h : MH) : Bool := h.valid || h.field.fail
def CK.done (k : CK) : Bool := k.valid || k.hdr.fail || k.trailers.field.fail
def RQ.done (q : RQ) : Bool := q.valid || q.line.fail || q.headers.field.fail
def RP.done (q : RP) : Bool := q.valid || q.line.fail || q.headers.field.fail

end Via
