import ViaProofs.Frag.Defs
/-
  Fragmentation law for `message_headers::parse` (with `field_line::parse` and its fold look-ahead).
-/
namespace Via

/-! ### field_line: invariants of `parseChar`, `peek`, `loop` -/

theorem FL.valueStep_fail (cfg : Cfg) (s : FL) (c : Byte) : (FL.valueStep cfg s c).1.fail = s.fail := by
  unfold FL.valueStep; repeat' split
  all_goals rfl

theorem FL.parseChar_fail (cfg : Cfg) (s : FL) (c : Byte) : (s.parseChar cfg c).1.fail = s.fail := by
  unfold FL.parseChar
  simp only
  repeat' split
  all_goals simp [FL.valueStep_fail]

theorem FL.peek_fail (s : FL) (b : Bytes) : (s.peek b).fail = s.fail := by
  unfold FL.peek; repeat' split
  all_goals rfl

theorem FL.peek_append (s : FL) (d : Byte) (ds b : Bytes) : s.peek ((d :: ds) ++ b) = s.peek (d :: ds) := by
  simp [FL.peek]

theorem FL.valueStep_length (cfg : Cfg) (s : FL) (c : Byte) : (FL.valueStep cfg s c).1.length = s.length := by
  unfold FL.valueStep; repeat' split
  all_goals rfl

theorem FL.parseChar_length (cfg : Cfg) (s : FL) (c : Byte) : (s.parseChar cfg c).1.length = s.length + 1 := by
  unfold FL.parseChar
  simp only
  repeat' split
  all_goals simp [FL.valueStep_length]

theorem FL.peek_length (s : FL) (b : Bytes) : (s.peek b).length = s.length := by
  unfold FL.peek; repeat' split
  all_goals rfl

/-- a failed loop returns false -/
theorem FL.loop_fail_ok (cfg : Cfg) (s : FL) (a : Bytes) (hf : s.fail = false) :
    (FL.loop cfg s a).1.fail = true → (FL.loop cfg s a).2.2 = false := by
  induction a generalizing s with
  | nil => simp [FL.loop, hf]
  | cons c cs ih =>
    simp only [FL.loop]
    split
    · simp [hf]
    · by_cases hok : (s.parseChar cfg c).2 = true
      · simp only [hok]
        exact ih _ (by rw [FL.peek_fail, FL.parseChar_fail, hf])
      · simp [hok]

/-- if the loop stops with bytes left and has not failed, the line is complete -/
theorem FL.loop_rest_valid (cfg : Cfg) (s : FL) (a : Bytes) :
    (FL.loop cfg s a).2.1 ≠ [] → (FL.loop cfg s a).1.fail = false → (FL.loop cfg s a).2.2 = true := by
  induction a generalizing s with
  | nil => simp [FL.loop]
  | cons c cs ih =>
    simp only [FL.loop]
    split
    · simp
    · by_cases hok : (s.parseChar cfg c).2 = true
      · simp only [hok]
        exact ih _
      · simp [hok]

theorem FL.loop_length_ge (cfg : Cfg) (s : FL) (a : Bytes) : s.length ≤ (FL.loop cfg s a).1.length := by
  induction a generalizing s with
  | nil => simp [FL.loop]
  | cons c cs ih =>
    simp only [FL.loop]
    split
    · simp
    · by_cases hok : (s.parseChar cfg c).2 = true
      · simp only [hok]
        have := ih ((s.parseChar cfg c).1.peek cs)
        rw [FL.peek_length, FL.parseChar_length] at this
        simp only [Bool.not_true, Bool.false_eq_true, if_false]
        omega
      · simp [hok, FL.parseChar_length]

theorem FL.loop_length_pos (cfg : Cfg) (s : FL) (c : Byte) (cs : Bytes) (hs : s.st ≠ .valid) :
    (FL.loop cfg s (c :: cs)).1.started = true := by
  have hv : (s.st == HS.valid) = false := by simp [hs]
  simp only [FL.loop, hv, FL.started]
  by_cases hok : (s.parseChar cfg c).2 = true
  · simp only [hok]
    have := FL.loop_length_ge cfg ((s.parseChar cfg c).1.peek cs) cs
    rw [FL.peek_length, FL.parseChar_length] at this
    simp only [Bool.not_true, Bool.false_eq_true, if_false, gt_iff_lt, decide_eq_true_eq]
    omega
  · simp [hok, FL.parseChar_length]

/-- Fragmentation lemma for the field-line loop: `a ++ b` in one read equals `a` then `b`,
    where the second read starts with the re-entry look-ahead. -/
theorem FL.loop_append (cfg : Cfg) (s : FL) (a b : Bytes) (hne : a ≠ []) (hf : s.fail = false) :
    FL.loop cfg s (a ++ b) =
      let r := FL.loop cfg s a
      if r.1.fail then (r.1, r.2.1 ++ b, false)
      else if r.2.1 ≠ [] then (r.1, r.2.1 ++ b, r.2.2)
      else FL.loop cfg (r.1.peek b) b := by
  induction a generalizing s with
  | nil => exact absurd rfl hne
  | cons c cs ih =>
    by_cases hv : (s.st == HS.valid) = true
    · simp [FL.loop, hv, hf]
    · simp only [List.cons_append, FL.loop, hv]
      by_cases hok : (s.parseChar cfg c).2 = true
      · simp only [hok]
        have hf0 : (s.parseChar cfg c).1.fail = false := by rw [FL.parseChar_fail, hf]
        cases cs with
        | nil =>
          simp [FL.loop, FL.peek, hf0]
        | cons d ds =>
          rw [FL.peek_append]
          have hf1 : ((s.parseChar cfg c).1.peek (d :: ds)).fail = false := by rw [FL.peek_fail, hf0]
          exact ih _ (by simp) hf1
      · simp [hok]

theorem FL.loop_suffix (cfg : Cfg) (s : FL) (buf : Bytes) : ∃ pre, buf = pre ++ (FL.loop cfg s buf).2.1 := by
  induction buf generalizing s with
  | nil => exact ⟨[], by simp [FL.loop]⟩
  | cons c cs ih =>
    simp only [FL.loop]
    split
    · exact ⟨[], rfl⟩
    · split
      · exact ⟨[c], rfl⟩
      · obtain ⟨pre, hpre⟩ := ih ((s.parseChar cfg c).1.peek cs)
        exact ⟨c :: pre, by rw [List.cons_append, ← hpre]⟩

/-! ### message_headers -/

theorem MH.commit_valid (cfg : Cfg) (h : MH) (f : FL) : (MH.commit cfg h f).1.valid = h.valid := by
  unfold MH.commit; simp only; split <;> rfl

theorem MH.commit_blankCr (cfg : Cfg) (h : MH) (f : FL) : (MH.commit cfg h f).1.blankCr = h.blankCr := by
  unfold MH.commit; simp only; split <;> rfl

theorem MH.commit_field (cfg : Cfg) (h : MH) (f : FL) : (MH.commit cfg h f).1.field = {} := by
  unfold MH.commit; simp only; split <;> rfl

theorem MH.commit_done (cfg : Cfg) (h : MH) (f : FL) (hd : h.done = false) :
    (MH.commit cfg h f).1.done = false := by
  simp only [MH.done, Bool.or_eq_false_iff] at hd ⊢
  rw [MH.commit_valid, MH.commit_field]
  exact ⟨hd.1, rfl⟩

theorem MH.commit_field_irrel (cfg : Cfg) (h : MH) (f g : FL) :
    MH.commit cfg { h with field := g } f = MH.commit cfg h f := by
  simp [MH.commit]

theorem MH.fresh_nil (cfg : Cfg) (h : MH) : MH.fresh cfg h [] = (h, [], false) := by
  rw [MH.fresh]

theorem MH.fresh_cons (cfg : Cfg) (h : MH) (c : Byte) (cs : Bytes) :
    MH.fresh cfg h (c :: cs) =
      if isEol c then MH.blank cfg h (c :: cs)
      else
        let r := FL.loop cfg {} (c :: cs)
        if !r.2.2 then ({ h with field := r.1 }, r.2.1, false)
        else if r.2.1.isEmpty then ({ h with field := r.1 }, [], false)
        else
          let hc := MH.commit cfg h r.1
          if !hc.2 then (hc.1, r.2.1, false)
          else MH.fresh cfg hc.1 r.2.1 := by
  rw [MH.fresh]

theorem MH.blank_append (cfg : Cfg) (h : MH) (a b : Bytes) (hd : h.done = false) :
    MH.blank cfg h (a ++ b) =
      let r := MH.blank cfg h a
      if r.1.done || !r.2.1.isEmpty then (r.1, r.2.1 ++ b, r.2.2)
      else MH.blank cfg r.1 b := by
  simp only [MH.done, Bool.or_eq_false_iff] at hd
  obtain ⟨hv, hff⟩ := hd
  cases a with
  | nil => simp [MH.blank, MH.done, hv, hff]
  | cons c cs =>
    simp only [List.cons_append, MH.blank]
    by_cases h1 : (!h.blankCr && !isEol c) = true
    · simp [h1, MH.done, hv, hff]
    · simp only [h1]
      by_cases h2 : (!(!h.blankCr && c == 13) && cfg.strict && !h.blankCr) = true
      · simp only [h2, if_true]
        simp [MH.done, hv]
      · simp only [h2]
        by_cases h3 : (!h.blankCr && c == 13) = true
        · simp only [h3]
          cases cs with
          | nil =>
            cases b with
            | nil => simp [MH.done, hv, hff]
            | cons d ds => simp [MH.done, hv, hff]
          | cons d ds =>
            by_cases h4 : (d != 10) = true <;> simp [h4, MH.done, hv, hff]
        · simp only [h3]
          by_cases h4 : (c != 10) = true <;> simp [h4, MH.done, hv, hff]

/-- the blank-line code keeps a set CR flag -/
theorem MH.blank_blankCr (cfg : Cfg) (h : MH) (a : Bytes) (hbc : h.blankCr = true) :
    (MH.blank cfg h a).1.blankCr = true := by
  cases a with
  | nil => simp [MH.blank, hbc]
  | cons c cs =>
    simp only [MH.blank, hbc]
    by_cases h4 : (c != 10) = true <;> simp [h4, hbc]

/-- an incomplete blank line (nothing left, not valid) has seen its CR -/
theorem MH.blank_incomplete (cfg : Cfg) (h : MH) (c : Byte) (cs : Bytes) (he : isEol c = true)
    (hbc : h.blankCr = false) :
    (MH.blank cfg h (c :: cs)).1.valid = false → (MH.blank cfg h (c :: cs)).2.1 = [] →
      (MH.blank cfg h (c :: cs)).1.blankCr = true := by
  simp only [MH.blank, hbc, he]
  by_cases h13 : c = 13
  · subst h13
    cases cs with
    | nil => simp
    | cons d ds => by_cases h3 : (d != 10) = true <;> simp [h3]
  · have h10 : c = 10 := by
      simp only [isEol, Bool.or_eq_true, beq_iff_eq] at he
      rcases he with he | he
      · exact absurd he h13
      · exact he
    subst h10
    by_cases hs : cfg.strict = true <;> simp [hs]

theorem MH.fresh_append (cfg : Cfg) (h : MH) (a b : Bytes)
    (hd : h.done = false) (hbc : h.blankCr = false) (hns : h.field.started = false) :
    MH.fresh cfg h (a ++ b) =
      let r := MH.fresh cfg h a
      if r.1.done || !r.2.1.isEmpty then (r.1, r.2.1 ++ b, r.2.2)
      else MH.parse cfg r.1 b := by
  generalize hn : a.length = n
  induction n using Nat.strongRecOn generalizing a h with
  | _ n ih =>
    cases a with
    | nil =>
      simp only [List.nil_append, MH.fresh_nil]
      simp [hd, MH.parse, hbc, hns]
    | cons c cs =>
      simp only [List.cons_append, MH.fresh_cons]
      by_cases he : isEol c = true
      · simp only [he, if_true]
        have hba := MH.blank_append cfg h (c :: cs) b hd
        simp only [List.cons_append] at hba
        rw [hba]
        by_cases hdone : ((MH.blank cfg h (c :: cs)).1.done || !(MH.blank cfg h (c :: cs)).2.1.isEmpty) = true
        · simp only [hdone, if_true]
        · simp only [hdone]
          simp only [Bool.or_eq_true, not_or, Bool.not_eq_true, Bool.not_eq_eq_eq_not, Bool.not_true] at hdone
          have hvalid : (MH.blank cfg h (c :: cs)).1.valid = false := by
            have := hdone.1
            simp only [MH.done, Bool.or_eq_false_iff] at this
            exact this.1
          have hrest : (MH.blank cfg h (c :: cs)).2.1 = [] := by
            have := hdone.2
            simpa using this
          have hcr := MH.blank_incomplete cfg h c cs he hbc hvalid hrest
          simp [MH.parse, hcr]
      · simp only [he]
        have hla := FL.loop_append cfg {} (c :: cs) b (by simp) rfl
        simp only [List.cons_append] at hla
        rw [hla]
        have hprog := FL.loop_progress cfg {} c cs (by decide)
        have hfo := FL.loop_fail_ok cfg {} (c :: cs) rfl
        have hrv := FL.loop_rest_valid cfg {} (c :: cs)
        have hpos := FL.loop_length_pos cfg {} c cs (by decide)
        generalize hra : FL.loop cfg {} (c :: cs) = ra at *
        have hd' := hd
        simp only [MH.done, Bool.or_eq_false_iff] at hd'
        obtain ⟨hv, hff⟩ := hd'
        by_cases hfail : ra.1.fail = true
        · have hok : ra.2.2 = false := hfo hfail
          simp [hfail, hok, MH.done]
        · have hfail' : ra.1.fail = false := by simpa using hfail
          simp only [hfail', Bool.false_eq_true, if_false]
          by_cases hrest : ra.2.1 = []
          · -- everything consumed: the second read continues this field
            simp only [hrest, ne_eq, not_true_eq_false, if_false]
            cases b with
            | nil =>
              simp [FL.loop, FL.peek, MH.parse, hbc, hpos, MH.done, hv, hfail']
            | cons d ds =>
              by_cases hok : ra.2.2 = true <;>
                simp [hok, MH.parse, hbc, hpos, FL.parse, MH.commit, MH.done, hv, hfail']
          · have hok : ra.2.2 = true := hrv hrest hfail'
            have hne : ra.2.1.isEmpty = false := by simpa using hrest
            have hne' : (ra.2.1 ++ b).isEmpty = false := by simp [hrest]
            simp only [hrest, ne_eq, not_false_eq_true, if_true, hok, Bool.not_true, Bool.false_eq_true, if_false,
              hne, hne']
            by_cases hc : (MH.commit cfg h ra.1).2 = true
            · simp only [hc, Bool.not_true, Bool.false_eq_true, if_false]
              exact ih ra.2.1.length (by simp only [List.length_cons] at hn; omega) (MH.commit cfg h ra.1).1 ra.2.1
                (MH.commit_done cfg h ra.1 hd) (by rw [MH.commit_blankCr, hbc])
                (by rw [MH.commit_field]; rfl) rfl
            · have hc' : (MH.commit cfg h ra.1).2 = false := by simpa using hc
              simp [hc', hne]

theorem MH.parse_nil (cfg : Cfg) (h : MH) : MH.parse cfg h [] = (h, [], false) := by
  unfold MH.parse
  split
  · rfl
  · split
    · rfl
    · exact MH.fresh_nil cfg h

/-- what `message_headers::parse` does with the result of `field_line::parse` -/
def MH.finish (cfg : Cfg) (h : MH) (r : FL × Bytes × Bool) : MH × Bytes × Bool :=
  if !r.2.2 then ({ h with field := r.1 }, r.2.1, false)
  else if r.2.1.isEmpty then ({ h with field := r.1 }, [], false)
  else
    let hc := MH.commit cfg h r.1
    if !hc.2 then (hc.1, r.2.1, false)
    else MH.fresh cfg hc.1 r.2.1

theorem MH.parse_started (cfg : Cfg) (h : MH) (c : Byte) (cs : Bytes)
    (hbc : h.blankCr = false) (hst : h.field.started = true) :
    MH.parse cfg h (c :: cs) = MH.finish cfg h (FL.loop cfg (h.field.peek (c :: cs)) (c :: cs)) := by
  unfold MH.parse
  rw [if_neg (by simp [hbc]), if_pos hst]
  rfl

theorem MH.finish_append (cfg : Cfg) (h : MH) (s : FL) (c : Byte) (cs b : Bytes)
    (hd : h.done = false) (hbc : h.blankCr = false) (hsf : s.fail = false) (hsl : s.started = true) :
    MH.finish cfg h (FL.loop cfg s ((c :: cs) ++ b)) =
      let r := MH.finish cfg h (FL.loop cfg s (c :: cs))
      if r.1.done || !r.2.1.isEmpty then (r.1, r.2.1 ++ b, r.2.2)
      else MH.parse cfg r.1 b := by
  have hd' := hd
  simp only [MH.done, Bool.or_eq_false_iff] at hd'
  obtain ⟨hv, hff⟩ := hd'
  rw [FL.loop_append cfg s (c :: cs) b (by simp) hsf]
  have hfo := FL.loop_fail_ok cfg s (c :: cs) hsf
  have hrv := FL.loop_rest_valid cfg s (c :: cs)
  have hpos : (FL.loop cfg s (c :: cs)).1.started = true := by
    have := FL.loop_length_ge cfg s (c :: cs)
    simp only [FL.started, gt_iff_lt, decide_eq_true_eq] at hsl ⊢
    omega
  generalize hra : FL.loop cfg s (c :: cs) = ra at *
  simp only [MH.finish]
  by_cases hfail : ra.1.fail = true
  · have hok : ra.2.2 = false := hfo hfail
    simp [hfail, hok, MH.done]
  · have hfail' : ra.1.fail = false := by simpa using hfail
    simp only [hfail', Bool.false_eq_true, if_false]
    by_cases hrest : ra.2.1 = []
    · simp only [hrest, ne_eq, not_true_eq_false, if_false]
      cases b with
      | nil =>
        simp [FL.loop, FL.peek, MH.parse, hbc, hpos, MH.done, hv, hfail']
      | cons d ds =>
        by_cases hok : ra.2.2 = true <;>
          simp [hok, MH.parse, hbc, hpos, FL.parse, MH.commit, MH.done, hv, hfail']
    · have hok : ra.2.2 = true := hrv hrest hfail'
      have hne : ra.2.1.isEmpty = false := by simpa using hrest
      have hne' : (ra.2.1 ++ b).isEmpty = false := by simp [hrest]
      simp only [hrest, ne_eq, not_false_eq_true, if_true, hok, Bool.not_true, Bool.false_eq_true, if_false,
        hne, hne']
      by_cases hc : (MH.commit cfg h ra.1).2 = true
      · simp only [hc, Bool.not_true, Bool.false_eq_true, if_false]
        exact MH.fresh_append cfg (MH.commit cfg h ra.1).1 ra.2.1 b
          (MH.commit_done cfg h ra.1 hd) (by rw [MH.commit_blankCr, hbc])
          (by rw [MH.commit_field]; rfl)
      · have hc' : (MH.commit cfg h ra.1).2 = false := by simpa using hc
        simp [hc', hne]

/-- the law in the dispatch case "a field line is in progress" -/
theorem MH.parse_started_append (cfg : Cfg) (h : MH) (c : Byte) (cs b : Bytes)
    (hd : h.done = false) (hbc : h.blankCr = false) (hst : h.field.started = true) :
    MH.parse cfg h ((c :: cs) ++ b) =
      let r := MH.parse cfg h (c :: cs)
      if r.1.done || !r.2.1.isEmpty then (r.1, r.2.1 ++ b, r.2.2)
      else MH.parse cfg r.1 b := by
  have hff : h.field.fail = false := by
    simp only [MH.done, Bool.or_eq_false_iff] at hd
    exact hd.2
  have hpk : h.field.peek (c :: (cs ++ b)) = h.field.peek (c :: cs) := by simp [FL.peek]
  rw [List.cons_append, MH.parse_started cfg h c (cs ++ b) hbc hst, MH.parse_started cfg h c cs hbc hst, hpk]
  exact MH.finish_append cfg h (h.field.peek (c :: cs)) c cs b hd hbc
    (by rw [FL.peek_fail, hff])
    (by simp only [FL.started, FL.peek_length] at hst ⊢; exact hst)

theorem MH.parse_seq (cfg : Cfg) : SeqLaw (MH.parse cfg) MH.done := by
  intro h a b hd
  by_cases hbc : h.blankCr = true
  · have hp : ∀ x, MH.parse cfg h x = MH.blank cfg h x := by
      intro x; simp [MH.parse, hbc]
    rw [hp, hp, MH.blank_append cfg h a b hd]
    have hcr := MH.blank_blankCr cfg h a hbc
    simp only [MH.parse, hcr, if_true]
  · have hbc' : h.blankCr = false := by simpa using hbc
    by_cases hst : h.field.started = true
    · cases a with
      | nil => simp [MH.parse_nil, hd]
      | cons c cs => exact MH.parse_started_append cfg h c cs b hd hbc' hst
    · have hst' : h.field.started = false := by simpa using hst
      have hp : ∀ x, MH.parse cfg h x = MH.fresh cfg h x := by
        intro x; simp [MH.parse, hbc', hst']
      rw [hp, hp]
      exact MH.fresh_append cfg h a b hd hbc' hst'

/-! ### the rest is a suffix of the input -/

theorem MH.blank_suffix (cfg : Cfg) (h : MH) (buf : Bytes) : ∃ pre, buf = pre ++ (MH.blank cfg h buf).2.1 := by
  cases buf with
  | nil => exact ⟨[], by simp [MH.blank]⟩
  | cons c cs =>
    simp only [MH.blank]
    by_cases h1 : (!h.blankCr && !isEol c) = true
    · simp only [h1, if_true]; exact ⟨[], rfl⟩
    · simp only [h1, Bool.false_eq_true, if_false]
      by_cases h2 : (!(!h.blankCr && c == 13) && cfg.strict && !h.blankCr) = true
      · simp only [h2, if_true]; exact ⟨[], rfl⟩
      · simp only [h2, Bool.false_eq_true, if_false]
        by_cases h3 : (!h.blankCr && c == 13) = true
        · simp only [h3, if_true]
          cases cs with
          | nil => exact ⟨[c], rfl⟩
          | cons d ds =>
            by_cases h4 : (d != 10) = true
            · simp only [h4, if_true]; exact ⟨[c], rfl⟩
            · simp only [h4, Bool.false_eq_true, if_false]; exact ⟨[c, d], rfl⟩
        · simp only [h3, Bool.false_eq_true, if_false]
          by_cases h4 : (c != 10) = true
          · simp only [h4, if_true]; exact ⟨[], rfl⟩
          · simp only [h4, Bool.false_eq_true, if_false]; exact ⟨[c], rfl⟩

theorem MH.fresh_suffix (cfg : Cfg) (h : MH) (buf : Bytes) : ∃ pre, buf = pre ++ (MH.fresh cfg h buf).2.1 := by
  generalize hn : buf.length = n
  induction n using Nat.strongRecOn generalizing buf h with
  | _ n ih =>
    cases buf with
    | nil => exact ⟨[], by simp [MH.fresh_nil]⟩
    | cons c cs =>
      rw [MH.fresh_cons]
      by_cases he : isEol c = true
      · simp only [he, if_true]
        exact MH.blank_suffix cfg h (c :: cs)
      · simp only [he]
        have hprog := FL.loop_progress cfg {} c cs (by decide)
        obtain ⟨pre, hpre⟩ := FL.loop_suffix cfg {} (c :: cs)
        generalize hra : FL.loop cfg {} (c :: cs) = ra at *
        by_cases hok : ra.2.2 = true
        · simp only [hok, Bool.not_true, Bool.false_eq_true, if_false]
          by_cases hrest : ra.2.1.isEmpty = true
          · simp only [hrest, if_true]
            exact ⟨c :: cs, by simp⟩
          · simp only [hrest]
            by_cases hc : (MH.commit cfg h ra.1).2 = true
            · simp only [hc, Bool.not_true, Bool.false_eq_true, if_false]
              obtain ⟨pre2, hpre2⟩ := ih ra.2.1.length (by simp only [List.length_cons] at hn; omega)
                (MH.commit cfg h ra.1).1 ra.2.1 rfl
              refine ⟨pre ++ pre2, ?_⟩
              rw [List.append_assoc, ← hpre2]
              exact hpre
            · simp only [hc]
              exact ⟨pre, hpre⟩
        · simp only [hok]
          exact ⟨pre, hpre⟩

theorem MH.finish_suffix (cfg : Cfg) (h : MH) (r : FL × Bytes × Bool) (pre buf : Bytes)
    (hpre : buf = pre ++ r.2.1) : ∃ pre', buf = pre' ++ (MH.finish cfg h r).2.1 := by
  unfold MH.finish
  by_cases hok : r.2.2 = true
  · simp only [hok, Bool.not_true, Bool.false_eq_true, if_false]
    by_cases hrest : r.2.1.isEmpty = true
    · simp only [hrest, if_true]
      exact ⟨buf, by simp⟩
    · simp only [hrest]
      by_cases hc : (MH.commit cfg h r.1).2 = true
      · simp only [hc, Bool.not_true, Bool.false_eq_true, if_false]
        obtain ⟨pre2, hpre2⟩ := MH.fresh_suffix cfg (MH.commit cfg h r.1).1 r.2.1
        refine ⟨pre ++ pre2, ?_⟩
        rw [List.append_assoc, ← hpre2]
        exact hpre
      · simp only [hc]
        exact ⟨pre, hpre⟩
  · simp only [hok]
    exact ⟨pre, hpre⟩

theorem MH.parse_suffix (cfg : Cfg) : SuffixLaw (MH.parse cfg) := by
  intro h buf
  by_cases hbc : h.blankCr = true
  · have hp : MH.parse cfg h buf = MH.blank cfg h buf := by simp [MH.parse, hbc]
    rw [hp]
    exact MH.blank_suffix cfg h buf
  · have hbc' : h.blankCr = false := by simpa using hbc
    by_cases hst : h.field.started = true
    · cases buf with
      | nil => exact ⟨[], by simp [MH.parse_nil]⟩
      | cons c cs =>
        rw [MH.parse_started cfg h c cs hbc' hst]
        obtain ⟨pre, hpre⟩ := FL.loop_suffix cfg (h.field.peek (c :: cs)) (c :: cs)
        exact MH.finish_suffix cfg h _ pre (c :: cs) hpre
    · have hp : MH.parse cfg h buf = MH.fresh cfg h buf := by simp [MH.parse, hbc', hst]
      rw [hp]
      exact MH.fresh_suffix cfg h buf

end Via
