import ViaProofs.Frag.Lines
import ViaProofs.Frag.Headers
/-
  Fragmentation law for the composite parsers: `rx_request`, `rx_response`, `rx_chunk`.
-/
namespace Via

namespace Cmp

/-! ### generic two-phase composition -/

/-- a parser made of a first phase `P1` working on a component (`get`/`set`) which is skipped once the
    component is `lvalid`, followed by a second phase `P2` on the whole state -/
def seq2 {S L : Type} (get : S → L) (set : S → L → S) (lvalid : L → Bool)
    (P1 : L → Bytes → L × Bytes × Bool) (P2 : S → Bytes → S × Bytes × Bool)
    (s : S) (buf : Bytes) : S × Bytes × Bool :=
  if lvalid (get s) then P2 s buf
  else
    let r := P1 (get s) buf
    if r.2.2 then P2 (set s r.1) r.2.1 else (set s r.1, r.2.1, false)

/-- what the composition needs from the first phase: the returned bool is the `valid` flag, success
    leaves `fail` clear, and the fragmentation law with "finished" expressed by the flags the composite
    can see -/
def Strong1 {L : Type} (P1 : L → Bytes → L × Bytes × Bool) (lvalid lfail : L → Bool) : Prop :=
  ∀ (l : L) (a b : Bytes), lvalid l = false → lfail l = false →
    (P1 l a).2.2 = lvalid (P1 l a).1 ∧
    ((P1 l a).2.2 = true → lfail (P1 l a).1 = false) ∧
    P1 l (a ++ b) =
      (let r := P1 l a
       if r.2.2 || lfail r.1 || !r.2.1.isEmpty then (r.1, r.2.1 ++ b, r.2.2) else P1 r.1 b)

theorem strong1_of {L : Type} (P1 : L → Bytes → L × Bytes × Bool) (lvalid lfail done1 : L → Bool)
    (hseq : SeqLaw P1 done1)
    (hfacts : ∀ l a, lvalid l = false → lfail l = false →
      (P1 l a).2.2 = lvalid (P1 l a).1 ∧
      ((P1 l a).2.2 = true → lfail (P1 l a).1 = false) ∧
      done1 (P1 l a).1 = ((P1 l a).2.2 || lfail (P1 l a).1))
    (hdone : ∀ l, lvalid l = false → lfail l = false → done1 l = true →
      ∃ l', ∀ x, P1 l x = (l', x, true)) :
    Strong1 P1 lvalid lfail := by
  intro l a b hv hf
  obtain ⟨f1, f2, f3⟩ := hfacts l a hv hf
  refine ⟨f1, f2, ?_⟩
  by_cases hd : done1 l = true
  · obtain ⟨l', hl'⟩ := hdone l hv hf hd
    rw [hl', hl']
    simp
  · have hd' : done1 l = false := by simpa using hd
    rw [hseq l a b hd']
    simp only [f3]

theorem seq2_law {S L : Type} (get : S → L) (set : S → L → S) (lvalid lfail : L → Bool)
    (P1 : L → Bytes → L × Bytes × Bool) (P2 : S → Bytes → S × Bytes × Bool) (d2 done : S → Bool)
    (hdone : ∀ s, done s = (lfail (get s) || d2 s))
    (hgs : ∀ s l, get (set s l) = l) (hss : ∀ s l l', set (set s l) l' = set s l')
    (hd2 : ∀ s l, d2 (set s l) = d2 s)
    (hg2 : ∀ s buf, get (P2 s buf).1 = get s)
    (h1 : Strong1 P1 lvalid lfail) (h2 : SeqLaw P2 d2) :
    SeqLaw (seq2 get set lvalid P1 P2) done := by
  intro s a b hd
  rw [hdone] at hd
  simp only [Bool.or_eq_false_iff] at hd
  obtain ⟨hf, hds⟩ := hd
  by_cases hv : lvalid (get s) = true
  · -- phase 1 already complete
    have e : ∀ x, seq2 get set lvalid P1 P2 s x = P2 s x := by
      intro x; simp only [seq2, hv, if_true]
    rw [e, e, h2 s a b hds]
    have hg := hg2 s a
    generalize P2 s a = r at hg
    obtain ⟨r1, rr, rb⟩ := r
    simp only at hg
    simp only [hdone, hg, hf, Bool.false_or]
    split
    · rfl
    · simp only [seq2, hg, hv, if_true]
  · have hv' : lvalid (get s) = false := by simpa using hv
    have e : ∀ x, seq2 get set lvalid P1 P2 s x =
        (let r := P1 (get s) x
         if r.2.2 then P2 (set s r.1) r.2.1 else (set s r.1, r.2.1, false)) := by
      intro x; simp only [seq2, hv', Bool.false_eq_true, if_false]
    obtain ⟨f1, f2, f3⟩ := h1 (get s) a b hv' hf
    rw [e, e, f3]
    generalize P1 (get s) a = r at f1 f2
    obtain ⟨l1, lr, lb⟩ := r
    simp only at f1 f2 ⊢
    cases lb with
    | true =>
      have lf := f2 rfl
      have lv : lvalid l1 = true := f1.symm
      simp only [Bool.true_or, if_true]
      have hds' : d2 (set s l1) = false := by rw [hd2]; exact hds
      rw [h2 (set s l1) lr b hds']
      have hg := hg2 (set s l1) lr
      rw [hgs] at hg
      generalize P2 (set s l1) lr = r at hg
      obtain ⟨r1, rr, rb⟩ := r
      simp only at hg ⊢
      simp only [hdone, hg, lf, Bool.false_or]
      split
      · rfl
      · simp only [seq2, hg, lv, if_true]
    | false =>
      have lv : lvalid l1 = false := f1.symm
      simp only [Bool.false_or, Bool.false_eq_true, if_false, hdone, hgs, hd2, hds, Bool.or_false]
      split
      · rfl
      · simp only [seq2, hgs, lv, Bool.false_eq_true, if_false, hss]

theorem seq2_suffix {S L : Type} (get : S → L) (set : S → L → S) (lvalid : L → Bool)
    (P1 : L → Bytes → L × Bytes × Bool) (P2 : S → Bytes → S × Bytes × Bool)
    (h1 : SuffixLaw P1) (h2 : SuffixLaw P2) : SuffixLaw (seq2 get set lvalid P1 P2) := by
  intro s buf
  unfold seq2
  split
  · exact h2 s buf
  · obtain ⟨p1, e1⟩ := h1 (get s) buf
    simp only
    split
    · obtain ⟨p2, e2⟩ := h2 (set s (P1 (get s) buf).1) (P1 (get s) buf).2.1
      exact ⟨p1 ++ p2, by rw [List.append_assoc, ← e2, ← e1]⟩
    · exact ⟨p1, e1⟩

/-! ### the line parsers -/


theorem RL_parseChar_valid (cfg : Cfg) (s : RL) (c : Byte) :
    (s.parseChar cfg c).1.valid = s.valid := by
  unfold RL.parseChar
  repeat' first | rfl | split | dsimp only

theorem RL_loop_of_valid (cfg : Cfg) (s : RL) (b : Bytes) (h : (s.st == .valid) = true) :
    RL.loop cfg s b = (s, b, false) := by
  cases b <;> simp [RL.loop, h]

theorem RL_loop_facts (cfg : Cfg) (a : Bytes) : ∀ s : RL,
    (RL.loop cfg s a).1.valid = s.valid ∧
    ((RL.loop cfg s a).2.2 = true → (RL.loop cfg s a).1.fail = true) ∧
    ((RL.loop cfg s a).2.2 = false → s.fail = false → (RL.loop cfg s a).1.fail = false) := by
  induction a with
  | nil => intro s; simp [RL.loop]
  | cons c cs ih =>
    intro s
    simp only [RL.loop]
    by_cases h : (s.st == .valid) = true
    · simp [h]
    · by_cases h2 : (s.parseChar cfg c).2 = true
      · simp only [h, h2, Bool.not_true, Bool.false_eq_true, if_false]
        obtain ⟨i1, i2, i3⟩ := ih { (s.parseChar cfg c).1 with fail := false }
        exact ⟨i1.trans (RL_parseChar_valid cfg s c), i2, fun hh _ => i3 hh rfl⟩
      · simp [h, h2, RL_parseChar_valid]

theorem RL_strong (cfg : Cfg) : Strong1 (RL.parse cfg) RL.valid RL.fail := by
  apply strong1_of _ _ _ RL.done (RL.parse_seq cfg)
  · intro l a hv hf
    have F := RL_loop_facts cfg a l
    unfold RL.parse
    generalize RL.loop cfg l a = r at F
    obtain ⟨r1, rr, rb⟩ := r
    obtain ⟨F1, F2, F3⟩ := F
    simp only at F1 F2 F3
    cases rb with
    | true => simp [RL.done, F1, hv, F2 rfl]
    | false =>
      have := F3 rfl hf
      cases h : (r1.st == RLS.valid) <;> simp [RL.done, this, h]
  · intro l hv hf hd
    have hst : (l.st == RLS.valid) = true := by simpa [RL.done, hv, hf] using hd
    refine ⟨{ l with valid := true }, ?_⟩
    intro x
    unfold RL.parse
    rw [RL_loop_of_valid cfg l x hst]
    simp [hst]

theorem SL_parseChar_valid (cfg : Cfg) (s : SL) (c : Byte) :
    (s.parseChar cfg c).1.valid = s.valid := by
  unfold SL.parseChar SL.crStep
  repeat' first | rfl | split | dsimp only

theorem SL_loop_of_valid (cfg : Cfg) (s : SL) (b : Bytes) (h : (s.st == .valid) = true) :
    SL.loop cfg s b = (s, b, false) := by
  cases b <;> simp [SL.loop, h]

theorem SL_loop_facts (cfg : Cfg) (a : Bytes) : ∀ s : SL,
    (SL.loop cfg s a).1.valid = s.valid ∧
    ((SL.loop cfg s a).2.2 = true → (SL.loop cfg s a).1.fail = true) ∧
    ((SL.loop cfg s a).2.2 = false → s.fail = false → (SL.loop cfg s a).1.fail = false) := by
  induction a with
  | nil => intro s; simp [SL.loop]
  | cons c cs ih =>
    intro s
    simp only [SL.loop]
    by_cases h : (s.st == .valid) = true
    · simp [h]
    · by_cases h2 : (s.parseChar cfg c).2 = true
      · simp only [h, h2, Bool.not_true, Bool.false_eq_true, if_false]
        obtain ⟨i1, i2, i3⟩ := ih { (s.parseChar cfg c).1 with fail := false }
        exact ⟨i1.trans (SL_parseChar_valid cfg s c), i2, fun hh _ => i3 hh rfl⟩
      · simp [h, h2, SL_parseChar_valid]

theorem SL_strong (cfg : Cfg) : Strong1 (SL.parse cfg) SL.valid SL.fail := by
  apply strong1_of _ _ _ SL.done (SL.parse_seq cfg)
  · intro l a hv hf
    have F := SL_loop_facts cfg a l
    unfold SL.parse
    generalize SL.loop cfg l a = r at F
    obtain ⟨r1, rr, rb⟩ := r
    obtain ⟨F1, F2, F3⟩ := F
    simp only at F1 F2 F3
    cases rb with
    | true => simp [SL.done, F1, hv, F2 rfl]
    | false =>
      have := F3 rfl hf
      cases h : (r1.st == SLS.valid) <;> simp [SL.done, this, h]
  · intro l hv hf hd
    have hst : (l.st == SLS.valid) = true := by simpa [SL.done, hv, hf] using hd
    refine ⟨{ l with valid := true }, ?_⟩
    intro x
    unfold SL.parse
    rw [SL_loop_of_valid cfg l x hst]
    simp [hst]

theorem CH_sizeStep_vf (cfg : Cfg) (s : CH) (c : Byte) :
    (CH.sizeStep cfg s c).1.valid = s.valid ∧ (CH.sizeStep cfg s c).1.fail = s.fail := by
  unfold CH.sizeStep
  repeat' first | exact ⟨rfl, rfl⟩ | split | dsimp only

theorem CH_extStep_vf (cfg : Cfg) (s : CH) (c : Byte) :
    (CH.extStep cfg s c).1.valid = s.valid ∧ (CH.extStep cfg s c).1.fail = s.fail := by
  unfold CH.extStep
  repeat' first | exact ⟨rfl, rfl⟩ | split | dsimp only

/-- the `switch` of `chunk_header::parse_char` -/
def CH_switch (cfg : Cfg) (s : CH) (c : Byte) : CH × Bool :=
  match s.st with
  | .sizeLs =>
    if isBlank c then
      let s := { s with ws := s.ws + 1 }
      if s.ws > cfg.maxWs then ({ s with st := .errWs }, false) else (s, true)
    else CH.sizeStep cfg { s with st := .size } c
  | .size => CH.sizeStep cfg s c
  | .extensionLs =>
    if isBlank c then
      let s := { s with ws := s.ws + 1 }
      if s.ws > cfg.maxWs then (s, false) else (s, true)
    else CH.extStep cfg { s with st := .extension } c
  | .extension => CH.extStep cfg s c
  | .lf => if c == 10 then ({ s with st := .valid }, true) else (s, false)
  | _ => (s, false)

theorem CH_switch_vf (cfg : Cfg) (s : CH) (c : Byte) :
    (CH_switch cfg s c).1.valid = s.valid ∧ (CH_switch cfg s c).1.fail = s.fail := by
  unfold CH_switch
  split
  · split
    · dsimp only; split <;> exact ⟨rfl, rfl⟩
    · exact CH_sizeStep_vf cfg _ c
  · exact CH_sizeStep_vf cfg _ c
  · split
    · dsimp only; split <;> exact ⟨rfl, rfl⟩
    · exact CH_extStep_vf cfg _ c
  · exact CH_extStep_vf cfg _ c
  · split <;> exact ⟨rfl, rfl⟩
  · exact ⟨rfl, rfl⟩

theorem CH_parseChar_vf (cfg : Cfg) (s : CH) (c : Byte) :
    (s.parseChar cfg c).1.valid = s.valid ∧ (s.parseChar cfg c).1.fail = s.fail := by
  have e : s.parseChar cfg c = CH_switch cfg
      (if s.length + 1 > cfg.maxLine then { s with length := s.length + 1, st := .errLength }
       else { s with length := s.length + 1 }) c := rfl
  rw [e]
  obtain ⟨h1, h2⟩ := CH_switch_vf cfg
      (if s.length + 1 > cfg.maxLine then { s with length := s.length + 1, st := .errLength }
       else { s with length := s.length + 1 }) c
  rw [h1, h2]
  split <;> exact ⟨rfl, rfl⟩

theorem CH_parseChar_valid (cfg : Cfg) (s : CH) (c : Byte) :
    (s.parseChar cfg c).1.valid = s.valid := (CH_parseChar_vf cfg s c).1

theorem CH_parseChar_fail (cfg : Cfg) (s : CH) (c : Byte) :
    (s.parseChar cfg c).1.fail = s.fail := (CH_parseChar_vf cfg s c).2

theorem CH_loop_of_valid (cfg : Cfg) (s : CH) (b : Bytes) (h : (s.st == .valid) = true) :
    CH.loop cfg s b = (s, b, false) := by
  cases b <;> simp [CH.loop, h]

theorem CH_loop_facts (cfg : Cfg) (a : Bytes) : ∀ s : CH,
    (CH.loop cfg s a).1.valid = s.valid ∧
    ((CH.loop cfg s a).2.2 = true → (CH.loop cfg s a).1.fail = true) ∧
    ((CH.loop cfg s a).2.2 = false → s.fail = false → (CH.loop cfg s a).1.fail = false) := by
  induction a with
  | nil => intro s; simp [CH.loop]
  | cons c cs ih =>
    intro s
    simp only [CH.loop]
    by_cases h : (s.st == .valid) = true
    · simp [h]
    · by_cases h2 : (s.parseChar cfg c).2 = true
      · simp only [h, h2, Bool.not_true, Bool.false_eq_true, if_false]
        obtain ⟨i1, i2, i3⟩ := ih (s.parseChar cfg c).1
        exact ⟨i1.trans (CH_parseChar_valid cfg s c), i2,
          fun hh hf => i3 hh ((CH_parseChar_fail cfg s c).trans hf)⟩
      · simp [h, h2, CH_parseChar_valid]

theorem CH_strong (cfg : Cfg) : Strong1 (CH.parse cfg) CH.valid CH.fail := by
  apply strong1_of _ _ _ CH.done (CH.parse_seq cfg)
  · intro l a hv hf
    have F := CH_loop_facts cfg a l
    unfold CH.parse
    generalize CH.loop cfg l a = r at F
    obtain ⟨r1, rr, rb⟩ := r
    obtain ⟨F1, F2, F3⟩ := F
    simp only at F1 F2 F3
    cases rb with
    | true => simp [CH.done, F1, hv, F2 rfl]
    | false =>
      have := F3 rfl hf
      cases h : (r1.st == CS.valid) <;> simp [CH.done, this, h]
  · intro l hv hf hd
    have hst : (l.st == CS.valid) = true := by simpa [CH.done, hv, hf] using hd
    refine ⟨{ l with valid := true }, ?_⟩
    intro x
    unfold CH.parse
    rw [CH_loop_of_valid cfg l x hst]
    simp [hst]


/-! ### message_headers: the `valid` flag is write-only -/


/-- force the `valid` flag of a `message_headers::parse` result -/
def setV (v : Bool) (r : MH × Bytes × Bool) : MH × Bytes × Bool :=
  ({ r.1 with valid := v || r.2.2 }, r.2.1, r.2.2)

/-- the LF stage of `MH.blank` -/
def blankLf (x : MH) : Bytes → MH × Bytes × Bool
  | [] => (x, [], false)
  | d :: ds => if d != 10 then (x, d :: ds, false) else ({ x with valid := true }, ds, true)

theorem blankLf_V (x : MH) (v : Bool) (buf : Bytes) :
    blankLf { x with valid := v } buf = setV v (blankLf x buf) := by
  cases buf with
  | nil => simp [blankLf, setV]
  | cons d ds =>
    simp only [blankLf]
    split <;> simp [setV]

theorem MH_blank_eq (cfg : Cfg) (h : MH) (c : Byte) (cs : Bytes) :
    MH.blank cfg h (c :: cs) =
      if !h.blankCr && !isEol c then (h, c :: cs, false)
      else if !(!h.blankCr && c == 13) && cfg.strict && !h.blankCr then (h, c :: cs, false)
      else if !h.blankCr && c == 13 then blankLf { h with blankCr := true } cs
      else blankLf h (c :: cs) := by
  simp only [MH.blank]
  split
  · rfl
  · split
    · rfl
    · by_cases h3 : (!h.blankCr && c == 13) = true
      · simp only [h3, if_true]
        cases cs <;> rfl
      · simp only [h3]
        rfl

theorem MH_blank_V (cfg : Cfg) (h : MH) (v : Bool) (buf : Bytes) :
    MH.blank cfg { h with valid := v } buf = setV v (MH.blank cfg h buf) := by
  cases buf with
  | nil => simp [MH.blank, setV]
  | cons c cs =>
    rw [MH_blank_eq, MH_blank_eq]
    dsimp only
    split
    · simp [setV]
    · split
      · simp [setV]
      · split
        · exact blankLf_V { h with blankCr := true } v cs
        · exact blankLf_V h v _

theorem MH_commit_V (cfg : Cfg) (h : MH) (v : Bool) (f : FL) :
    MH.commit cfg { h with valid := v } f =
      ({ (MH.commit cfg h f).1 with valid := v }, (MH.commit cfg h f).2) := by
  unfold MH.commit
  dsimp only
  split <;> rfl

theorem MH_commit_valid (cfg : Cfg) (h : MH) (f : FL) : (MH.commit cfg h f).1.valid = h.valid := by
  unfold MH.commit
  dsimp only
  split <;> rfl

theorem MH_fresh_V (cfg : Cfg) (v : Bool) (h : MH) (buf : Bytes) :
    MH.fresh cfg { h with valid := v } buf = setV v (MH.fresh cfg h buf) := by
  induction h, buf using MH.fresh.induct cfg with
  | case1 h => simp [MH.fresh, setV]
  | case2 h d tail he =>
    rw [MH.fresh, MH.fresh]
    simp only [he, if_true]
    exact MH_blank_V cfg h v _
  | case3 h d tail he r hr =>
    rw [MH.fresh, MH.fresh]
    simp only [he, Bool.false_eq_true, if_false]
    simp only [r] at hr
    simp [hr, setV]
  | case4 h d tail he r hr hemp =>
    rw [MH.fresh, MH.fresh]
    simp only [he, Bool.false_eq_true, if_false]
    simp only [r] at hr hemp
    simp [hr, hemp, setV]
  | case5 h d tail he r hr hemp hc hcb =>
    rw [MH.fresh, MH.fresh]
    simp only [he, Bool.false_eq_true, if_false]
    simp only [r, hc] at hr hemp hcb
    simp only [hr, hemp, MH_commit_V, hcb, if_true]
    simp [setV]
  | case6 h d tail he r hr hemp hc hcb ih =>
    rw [MH.fresh, MH.fresh]
    simp only [he, Bool.false_eq_true, if_false]
    simp only [r, hc] at hr hemp hcb ih
    simp only [hr, hemp, MH_commit_V, hcb]
    exact ih

theorem MH_parse_V (cfg : Cfg) (v : Bool) (h : MH) (buf : Bytes) :
    MH.parse cfg { h with valid := v } buf = setV v (MH.parse cfg h buf) := by
  unfold MH.parse
  dsimp only
  split
  · exact MH_blank_V cfg h v buf
  · split
    · cases buf with
      | nil => simp [setV]
      | cons c cs =>
        dsimp only
        by_cases hr : (!(FL.parse cfg h.field (c :: cs)).2.2) = true
        · simp [hr, setV]
        · by_cases hemp : (FL.parse cfg h.field (c :: cs)).2.1.isEmpty = true
          · simp [hr, hemp, setV]
          · simp only [hr, hemp, MH_commit_V]
            by_cases hcb : (!(MH.commit cfg h (FL.parse cfg h.field (c :: cs)).1).2) = true
            · simp [hcb, setV]
            · simp only [hcb]
              exact MH_fresh_V cfg v _ _
    · exact MH_fresh_V cfg v h buf

theorem MH_parse_valid (cfg : Cfg) (h : MH) (buf : Bytes) :
    (MH.parse cfg h buf).1.valid = (h.valid || (MH.parse cfg h buf).2.2) := by
  have e := MH_parse_V cfg h.valid h buf
  have e' : ({ h with valid := h.valid } : MH) = h := rfl
  rw [e'] at e
  have := congrArg (fun r => r.1.valid) e
  simpa [setV] using this

theorem MH_parse_seq_aux (cfg : Cfg) (h' : MH) (v : Bool) (a b : Bytes)
    (hv' : h'.valid = false) (hf : h'.field.fail = false) :
    MH.parse cfg { h' with valid := v } (a ++ b) =
      (let r := MH.parse cfg { h' with valid := v } a
       if r.2.2 || r.1.field.fail || !r.2.1.isEmpty then (r.1, r.2.1 ++ b, r.2.2)
       else MH.parse cfg r.1 b) := by
  have hd : MH.done h' = false := by simp [MH.done, hf, hv']
  have law := MH.parse_seq cfg h' a b hd
  have hv := MH_parse_valid cfg h' a
  rw [MH_parse_V cfg v h' (a ++ b), MH_parse_V cfg v h' a, law]
  generalize MH.parse cfg h' a = r at hv
  obtain ⟨r1, rr, rb⟩ := r
  simp only [hv', Bool.false_or] at hv
  simp only [MH.done, hv]
  by_cases hc : (rb || r1.field.fail || !rr.isEmpty) = true
  · simp only [hc, if_true, setV]
  · have hrb : rb = false := by
      cases rb
      · rfl
      · simp at hc
    subst hrb
    have := MH_parse_V cfg v r1 b
    simp only [setV] at this
    simp only [hc, Bool.false_eq_true, if_false, setV, Bool.or_false]
    exact this.symm

/-- the fragmentation law of `message_headers::parse` for every state whose field line has not failed,
    whatever its `valid` flag (which `parse` never reads) -/
theorem MH_parse_seq' (cfg : Cfg) (h : MH) (a b : Bytes) (hf : h.field.fail = false) :
    MH.parse cfg h (a ++ b) =
      (let r := MH.parse cfg h a
       if r.2.2 || r.1.field.fail || !r.2.1.isEmpty then (r.1, r.2.1 ++ b, r.2.2)
       else MH.parse cfg r.1 b) :=
  MH_parse_seq_aux cfg { h with valid := false } h.valid a b rfl hf



/-! ### rx_request / rx_response -/


/-- the header phase of `rx_request::parse` -/
def RQ_hdrs (cfg : Cfg) (q : RQ) (buf : Bytes) : RQ × Bytes × Bool :=
  if q.headers.valid then ({ q with valid := true }, buf, true)
  else
    let r := MH.parse cfg q.headers buf
    if !r.2.2 then ({ q with headers := r.1 }, r.2.1, false)
    else ({ q with headers := r.1, valid := true }, r.2.1, true)

theorem RQ_parse_eq (cfg : Cfg) :
    RQ.parse cfg = seq2 RQ.line (fun q l => { q with line := l }) RL.valid (RL.parse cfg) (RQ_hdrs cfg) := by
  funext q buf
  unfold RQ.parse seq2 RQ_hdrs
  cases hv : q.line.valid
  · cases hr : (RL.parse cfg q.line buf).2.2 <;> simp [hr]
  · simp

theorem RQ_hdrs_line (cfg : Cfg) (q : RQ) (buf : Bytes) : (RQ_hdrs cfg q buf).1.line = q.line := by
  unfold RQ_hdrs
  split
  · rfl
  · dsimp only
    split <;> rfl

theorem RQ_hdrs_seq (cfg : Cfg) :
    SeqLaw (RQ_hdrs cfg) (fun q => q.valid || q.headers.field.fail) := by
  intro q a b hd
  simp only [Bool.or_eq_false_iff] at hd
  obtain ⟨hv, hf⟩ := hd
  cases hh : q.headers.valid
  · have law := MH_parse_seq' cfg q.headers a b hf
    have hval := MH_parse_valid cfg q.headers a
    simp only [RQ_hdrs, hh, Bool.false_eq_true, if_false, law]
    generalize MH.parse cfg q.headers a = r at hval
    obtain ⟨r1, rr, rb⟩ := r
    simp only [hh, Bool.false_or] at hval
    cases rb with
    | true => simp
    | false =>
      simp only [Bool.false_or, Bool.not_false, if_true, hv]
      split
      · simp
      · simp [hval]
  · simp [RQ_hdrs, hh]

theorem RQ_hdrs_suffix (cfg : Cfg) : SuffixLaw (RQ_hdrs cfg) := by
  intro q buf
  unfold RQ_hdrs
  split
  · exact ⟨[], rfl⟩
  · obtain ⟨p, hp⟩ := MH.parse_suffix cfg q.headers buf
    refine ⟨p, ?_⟩
    dsimp only
    split <;> exact hp

/-- the header phase of `rx_response::parse` -/
def RP_hdrs (cfg : Cfg) (q : RP) (buf : Bytes) : RP × Bytes × Bool :=
  if q.headers.valid then ({ q with valid := true }, buf, true)
  else
    let r := MH.parse cfg q.headers buf
    if !r.2.2 then ({ q with headers := r.1 }, r.2.1, false)
    else ({ q with headers := r.1, valid := true }, r.2.1, true)

theorem RP_parse_eq (cfg : Cfg) :
    RP.parse cfg = seq2 RP.line (fun q l => { q with line := l }) SL.valid (SL.parse cfg) (RP_hdrs cfg) := by
  funext q buf
  unfold RP.parse seq2 RP_hdrs
  cases hv : q.line.valid
  · cases hr : (SL.parse cfg q.line buf).2.2 <;> simp [hr]
  · simp

theorem RP_hdrs_line (cfg : Cfg) (q : RP) (buf : Bytes) : (RP_hdrs cfg q buf).1.line = q.line := by
  unfold RP_hdrs
  split
  · rfl
  · dsimp only
    split <;> rfl

theorem RP_hdrs_seq (cfg : Cfg) :
    SeqLaw (RP_hdrs cfg) (fun q => q.valid || q.headers.field.fail) := by
  intro q a b hd
  simp only [Bool.or_eq_false_iff] at hd
  obtain ⟨hv, hf⟩ := hd
  cases hh : q.headers.valid
  · have law := MH_parse_seq' cfg q.headers a b hf
    have hval := MH_parse_valid cfg q.headers a
    simp only [RP_hdrs, hh, Bool.false_eq_true, if_false, law]
    generalize MH.parse cfg q.headers a = r at hval
    obtain ⟨r1, rr, rb⟩ := r
    simp only [hh, Bool.false_or] at hval
    cases rb with
    | true => simp
    | false =>
      simp only [Bool.false_or, Bool.not_false, if_true, hv]
      split
      · simp
      · simp [hval]
  · simp [RP_hdrs, hh]

theorem RP_hdrs_suffix (cfg : Cfg) : SuffixLaw (RP_hdrs cfg) := by
  intro q buf
  unfold RP_hdrs
  split
  · exact ⟨[], rfl⟩
  · obtain ⟨p, hp⟩ := MH.parse_suffix cfg q.headers buf
    refine ⟨p, ?_⟩
    dsimp only
    split <;> exact hp


/-! ### rx_chunk -/


/-- the LF after the chunk data -/
def CK_lf (k2 : CK) : Bytes → CK × Bytes × Bool
  | [] => (k2, [], false)
  | d :: ds => if d != 10 then (k2, d :: ds, false) else ({ k2 with valid := true }, ds, true)

/-- the CRLF after the chunk data -/
def CK_tail (cfg : Cfg) (k1 : CK) : Bytes → CK × Bytes × Bool
  | [] => (k1, [], false)
  | c :: cs =>
    if !k1.dataCr && c == 13 then CK_lf { k1 with dataCr := true } cs
    else if cfg.strict && !k1.dataCr then (k1, c :: cs, false)
    else CK_lf k1 (c :: cs)

theorem CK_parseData_eq (cfg : Cfg) (k : CK) (buf : Bytes) :
    CK.parseData cfg k buf =
      if buf.length > k.hdr.size - k.data.length then
        CK_tail cfg { k with data := k.data ++ buf.take (k.hdr.size - k.data.length) }
          (buf.drop (k.hdr.size - k.data.length))
      else ({ k with data := k.data ++ buf }, [], false) := by
  unfold CK.parseData
  dsimp only
  split
  · generalize buf.drop (k.hdr.size - k.data.length) = rest
    cases rest with
    | nil => rfl
    | cons c cs =>
      dsimp only [CK_tail]
      by_cases h1 : (!k.dataCr && c == 13) = true
      · simp only [h1, if_true]
        cases cs <;> rfl
      · simp only [h1, Bool.false_eq_true, if_false]
        by_cases h2 : (cfg.strict && !k.dataCr) = true
        · simp only [h2, if_true]
        · simp only [h2, Bool.false_eq_true, if_false]
          rfl
  · rfl

theorem CK_lf_law (k2 : CK) (d : Byte) (ds b : Bytes) :
    CK_lf k2 (d :: ds ++ b) =
      ((CK_lf k2 (d :: ds)).1, (CK_lf k2 (d :: ds)).2.1 ++ b, (CK_lf k2 (d :: ds)).2.2) ∧
    ((CK_lf k2 (d :: ds)).1.valid || !(CK_lf k2 (d :: ds)).2.1.isEmpty) = true := by
  simp only [List.cons_append, CK_lf]
  split <;> simp

theorem CK_lf_hdr (k2 : CK) (x : Bytes) :
    (CK_lf k2 x).1.hdr = k2.hdr ∧ (CK_lf k2 x).1.trailers = k2.trailers := by
  cases x with
  | nil => exact ⟨rfl, rfl⟩
  | cons d ds =>
    simp only [CK_lf]
    split <;> exact ⟨rfl, rfl⟩

theorem CK_tail_hdr (cfg : Cfg) (k1 : CK) (x : Bytes) :
    (CK_tail cfg k1 x).1.hdr = k1.hdr ∧ (CK_tail cfg k1 x).1.trailers = k1.trailers := by
  cases x with
  | nil => exact ⟨rfl, rfl⟩
  | cons c cs =>
    simp only [CK_tail]
    split
    · exact CK_lf_hdr _ _
    · split
      · exact ⟨rfl, rfl⟩
      · exact CK_lf_hdr _ _

theorem CK_parseData_hdr (cfg : Cfg) (k : CK) (x : Bytes) :
    (CK.parseData cfg k x).1.hdr = k.hdr ∧ (CK.parseData cfg k x).1.trailers = k.trailers := by
  rw [CK_parseData_eq]
  split
  · exact CK_tail_hdr cfg _ _
  · exact ⟨rfl, rfl⟩

theorem CK_tail_law (cfg : Cfg) (k1 : CK) (c : Byte) (cs b : Bytes)
    (hv : k1.valid = false) (hreq : k1.hdr.size - k1.data.length = 0) :
    CK_tail cfg k1 (c :: cs ++ b) =
      (let r := CK_tail cfg k1 (c :: cs)
       if r.1.valid || !r.2.1.isEmpty then (r.1, r.2.1 ++ b, r.2.2) else CK.parseData cfg r.1 b) := by
  simp only [List.cons_append, CK_tail]
  split
  · cases cs with
    | nil =>
      simp only [List.nil_append, CK_lf, hv, List.isEmpty_nil, Bool.not_true, Bool.or_self,
        Bool.false_eq_true, if_false]
      rw [CK_parseData_eq]
      simp only [hreq]
      cases b with
      | nil => simp
      | cons d ds => simp [CK_tail, CK_lf]
    | cons d ds =>
      obtain ⟨e1, e2⟩ := CK_lf_law { k1 with dataCr := true } d ds b
      simp only [e2, if_true]
      exact e1
  · split
    · simp
    · obtain ⟨e1, e2⟩ := CK_lf_law k1 c cs b
      simp only [List.cons_append] at e1
      simp only [e1, e2, if_true]

theorem CK_parseData_law (cfg : Cfg) (k : CK) (a b : Bytes) (hv : k.valid = false) :
    CK.parseData cfg k (a ++ b) =
      (let r := CK.parseData cfg k a
       if r.1.valid || !r.2.1.isEmpty then (r.1, r.2.1 ++ b, r.2.2) else CK.parseData cfg r.1 b) := by
  by_cases hlen : a.length > k.hdr.size - k.data.length
  · -- the data ends inside `a`
    obtain ⟨c, cs, hdrop⟩ : ∃ c cs, a.drop (k.hdr.size - k.data.length) = c :: cs := by
      cases h : a.drop (k.hdr.size - k.data.length) with
      | nil =>
        have := congrArg List.length h
        simp only [List.length_drop, List.length_nil] at this
        omega
      | cons c cs => exact ⟨c, cs, rfl⟩
    have hlen' : (a ++ b).length > k.hdr.size - k.data.length := by
      simp only [List.length_append]; omega
    have ht : (a ++ b).take (k.hdr.size - k.data.length) = a.take (k.hdr.size - k.data.length) :=
      List.take_append_of_le_length (by omega)
    have hd : (a ++ b).drop (k.hdr.size - k.data.length) = c :: cs ++ b := by
      rw [List.drop_append_of_le_length (by omega), hdrop]
    rw [CK_parseData_eq cfg k (a ++ b), CK_parseData_eq cfg k a]
    simp only [hlen, hlen', if_true, ht, hd, hdrop]
    apply CK_tail_law
    · exact hv
    · simp only [List.length_append, List.length_take]
      omega
  · -- all of `a` is data
    have hle : a.length ≤ k.hdr.size - k.data.length := by omega
    rw [CK_parseData_eq cfg k a]
    simp only [hlen, if_false, hv, List.isEmpty_nil, Bool.not_true, Bool.or_self, Bool.false_eq_true]
    rw [CK_parseData_eq, CK_parseData_eq]
    have hreq : k.hdr.size - (k.data ++ a).length = k.hdr.size - k.data.length - a.length := by
      simp only [List.length_append]; omega
    simp only [hreq]
    by_cases hb : b.length > k.hdr.size - k.data.length - a.length
    · have hab : (a ++ b).length > k.hdr.size - k.data.length := by
        simp only [List.length_append]; omega
      simp only [hb, hab, if_true, List.take_append, List.drop_append, List.take_of_length_le hle,
        List.drop_eq_nil_of_le hle, List.nil_append, List.append_assoc]
      simp only [hv]
    · have hab : ¬ (a ++ b).length > k.hdr.size - k.data.length := by
        simp only [List.length_append]; omega
      simp only [hb, hab, if_false, List.append_assoc]
      simp only [hv]

theorem CK_lf_suffix (k2 : CK) (x : Bytes) : ∃ pre, x = pre ++ (CK_lf k2 x).2.1 := by
  cases x with
  | nil => exact ⟨[], rfl⟩
  | cons d ds =>
    simp only [CK_lf]
    split
    · exact ⟨[], rfl⟩
    · exact ⟨[d], rfl⟩

theorem CK_tail_suffix (cfg : Cfg) (k1 : CK) (x : Bytes) : ∃ pre, x = pre ++ (CK_tail cfg k1 x).2.1 := by
  cases x with
  | nil => exact ⟨[], rfl⟩
  | cons c cs =>
    simp only [CK_tail]
    split
    · obtain ⟨p, hp⟩ := CK_lf_suffix { k1 with dataCr := true } cs
      exact ⟨c :: p, by rw [List.cons_append, ← hp]⟩
    · split
      · exact ⟨[], rfl⟩
      · exact CK_lf_suffix k1 (c :: cs)

theorem CK_parseData_suffix (cfg : Cfg) : SuffixLaw (CK.parseData cfg) := by
  intro k buf
  rw [CK_parseData_eq]
  split
  · obtain ⟨p, hp⟩ := CK_tail_suffix cfg
      { k with data := k.data ++ buf.take (k.hdr.size - k.data.length) }
      (buf.drop (k.hdr.size - k.data.length))
    refine ⟨buf.take (k.hdr.size - k.data.length) ++ p, ?_⟩
    rw [List.append_assoc, ← hp, List.take_append_drop]
  · exact ⟨buf, by simp⟩

/-- what `rx_chunk::parse` does after the chunk header: trailers for the last chunk, data otherwise -/
def CK_body (cfg : Cfg) (k : CK) (buf : Bytes) : CK × Bytes × Bool :=
  if k.isLast then
    let r := MH.parse cfg k.trailers buf
    if !r.2.2 then ({ k with trailers := r.1 }, r.2.1, false)
    else ({ k with trailers := r.1, valid := true }, r.2.1, true)
  else CK.parseData cfg k buf

theorem CK_parse_eq (cfg : Cfg) :
    CK.parse cfg = seq2 CK.hdr (fun k h => { k with hdr := h }) CH.valid (CH.parse cfg) (CK_body cfg) := by
  funext k buf
  unfold CK.parse seq2 CK_body
  cases hv : k.hdr.valid
  · cases hr : (CH.parse cfg k.hdr buf).2.2 <;> simp [hr]
  · simp

theorem CK_body_hdr (cfg : Cfg) (k : CK) (buf : Bytes) : (CK_body cfg k buf).1.hdr = k.hdr := by
  unfold CK_body
  split
  · dsimp only
    split <;> rfl
  · exact (CK_parseData_hdr cfg k buf).1

theorem CK_body_seq (cfg : Cfg) :
    SeqLaw (CK_body cfg) (fun k => k.valid || k.trailers.field.fail) := by
  intro k a b hd
  simp only [Bool.or_eq_false_iff] at hd
  obtain ⟨hv, hf⟩ := hd
  cases hl : k.isLast
  · have law := CK_parseData_law cfg k a b hv
    obtain ⟨h1, h2⟩ := CK_parseData_hdr cfg k a
    simp only [CK_body, hl, Bool.false_eq_true, if_false, law]
    generalize CK.parseData cfg k a = r at h1 h2
    obtain ⟨r1, rr, rb⟩ := r
    simp only at h1 h2
    have hl' : r1.isLast = false := by simp only [CK.isLast, h1]; exact hl
    simp only [h2, hf, Bool.or_false, hl', Bool.false_eq_true, if_false]
  · have law := MH_parse_seq' cfg k.trailers a b hf
    simp only [CK_body, hl, if_true, law]
    generalize MH.parse cfg k.trailers a = r
    obtain ⟨r1, rr, rb⟩ := r
    have hl' : (k.hdr.size == 0) = true := hl
    cases rb with
    | true => simp
    | false =>
      simp only [Bool.false_or, Bool.not_false, if_true, hv]
      split
      · simp
      · simp [CK.isLast, hl']

theorem CK_body_suffix (cfg : Cfg) : SuffixLaw (CK_body cfg) := by
  intro k buf
  unfold CK_body
  split
  · obtain ⟨p, hp⟩ := MH.parse_suffix cfg k.trailers buf
    refine ⟨p, ?_⟩
    dsimp only
    split <;> exact hp
  · exact CK_parseData_suffix cfg k buf

end Cmp

theorem RQ.parse_seq (cfg : Cfg) : SeqLaw (RQ.parse cfg) RQ.done := by
  rw [Cmp.RQ_parse_eq]
  apply Cmp.seq2_law RQ.line (fun q l => { q with line := l }) RL.valid RL.fail (RL.parse cfg)
    (Cmp.RQ_hdrs cfg) (fun q => q.valid || q.headers.field.fail) RQ.done
  · intro q
    simp only [RQ.done]
    cases q.valid <;> cases q.line.fail <;> rfl
  · intro s l; rfl
  · intro s l l'; rfl
  · intro s l; rfl
  · exact Cmp.RQ_hdrs_line cfg
  · exact Cmp.RL_strong cfg
  · exact Cmp.RQ_hdrs_seq cfg

theorem RP.parse_seq (cfg : Cfg) : SeqLaw (RP.parse cfg) RP.done := by
  rw [Cmp.RP_parse_eq]
  apply Cmp.seq2_law RP.line (fun q l => { q with line := l }) SL.valid SL.fail (SL.parse cfg)
    (Cmp.RP_hdrs cfg) (fun q => q.valid || q.headers.field.fail) RP.done
  · intro q
    simp only [RP.done]
    cases q.valid <;> cases q.line.fail <;> rfl
  · intro s l; rfl
  · intro s l l'; rfl
  · intro s l; rfl
  · exact Cmp.RP_hdrs_line cfg
  · exact Cmp.SL_strong cfg
  · exact Cmp.RP_hdrs_seq cfg

theorem CK.parse_seq (cfg : Cfg) : SeqLaw (CK.parse cfg) CK.done := by
  rw [Cmp.CK_parse_eq]
  apply Cmp.seq2_law CK.hdr (fun k h => { k with hdr := h }) CH.valid CH.fail (CH.parse cfg)
    (Cmp.CK_body cfg) (fun k => k.valid || k.trailers.field.fail) CK.done
  · intro k
    simp only [CK.done]
    cases k.valid <;> cases k.hdr.fail <;> rfl
  · intro s l; rfl
  · intro s l l'; rfl
  · intro s l; rfl
  · exact Cmp.CK_body_hdr cfg
  · exact Cmp.CH_strong cfg
  · exact Cmp.CK_body_seq cfg

theorem RQ.parse_suffix (cfg : Cfg) : SuffixLaw (RQ.parse cfg) := by
  rw [Cmp.RQ_parse_eq]
  exact Cmp.seq2_suffix _ _ _ _ _ (RL.parse_suffix cfg) (Cmp.RQ_hdrs_suffix cfg)

theorem RP.parse_suffix (cfg : Cfg) : SuffixLaw (RP.parse cfg) := by
  rw [Cmp.RP_parse_eq]
  exact Cmp.seq2_suffix _ _ _ _ _ (SL.parse_suffix cfg) (Cmp.RP_hdrs_suffix cfg)

theorem CK.parse_suffix (cfg : Cfg) : SuffixLaw (CK.parse cfg) := by
  rw [Cmp.CK_parse_eq]
  exact Cmp.seq2_suffix _ _ _ _ _ (CH.parse_suffix cfg) (Cmp.CK_body_suffix cfg)

end Via
