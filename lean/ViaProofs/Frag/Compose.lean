import ViaProofs.Frag.Lines
import ViaProofs.Frag.Headers
/-
  Fragmentation law for the composite parsers: `rx_request`, `rx_response`, `rx_chunk`.
-/
namespace Via

namespace Cmp

/-! ### generic two-phase composition -/

/-- a parser made of a first phase `P1` working on a component (`get`/`set`) which is skipped once the
    component is `lvalid`, followed by a second phase `P2` on the whole state -/
def seq2 {S L : Type} (get : S → L) (set : S → L → S) (lvalid : L → Bool)
    (P1 : L → Bytes → L × Bytes × Bool) (P2 : S → Bytes → S × Bytes × Bool)
    (s : S) (buf : Bytes) : S × Bytes × Bool :=
  if lvalid (get s) then P2 s buf
  else
    let r := P1 (get s) buf
    if r.2.2 then P2 (set s r.1) r.2.1 else (set s r.1, r.2.1, false)

/-- what the composition needs from the first phase: the returned bool is the `valid` flag, success
    leaves `fail` clear, and the fragmentation law with "finished" expressed by the flags the composite
    can see -/
def Strong1 {L : Type} (P1 : L → Bytes → L × Bytes × Bool) (lvalid lfail : L → Bool) : Prop :=
  ∀ (l : L) (a b : Bytes), lvalid l = false → lfail l = false →
    (P1 l a).2.2 = lvalid (P1 l a).1 ∧
    ((P1 l a).2.2 = true → lfail (P1 l a).1 = false) ∧
    P1 l (a ++ b) =
      (let r := P1 l a
       if r.2.2 || lfail r.1 || !r.2.1.isEmpty then (r.1, r.2.1 ++ b, r.2.2) else P1 r.1 b)

theorem strong1_of {L : Type} (P1 : L → Bytes → L × Bytes × Bool) (lvalid lfail done1 : L → Bool)
    (hseq : SeqLaw P1 done1)
    (hfacts : ∀ l a, lvalid l = false → lfail l = false →
      (P1 l a).2.2 = lvalid (P1 l a).1 ∧
      ((P1 l a).2.2 = true → lfail (P1 l a).1 = false) ∧
      done1 (P1 l a).1 = ((P1 l a).2.2 || lfail (P1 l a).1))
    (hdone : ∀ l, lvalid l = false → lfail l = false → done1 l = true →
      ∃ l', ∀ x, P1 l x = (l', x, true)) :
    Strong1 P1 lvalid lfail := by
  intro l a b hv hf
  obtain ⟨f1, f2, f3⟩ := hfacts l a hv hf
  refine ⟨f1, f2, ?_⟩
  by_cases hd : done1 l = true
  · obtain ⟨l', hl'⟩ := hdone l hv hf hd
    rw [hl', hl']
    simp
  · have hd' : done1 l = false := by simpa using hd
    rw [hseq l a b hd']
    simp only [f3]

theorem seq2_law {S L : Type} (get : S → L) (set : S → L → S) (lvalid lfail : L → Bool)
    (P1 : L → Bytes → L × Bytes × Bool) (P2 : S → Bytes → S × Bytes × Bool) (d2 done : S → Bool)
    (hdone : ∀ s, done s = (lfail (get s) || d2 s))
    (hgs : ∀ s l, get (set s l) = l) (hss : ∀ s l l', set (set s l) l' = set s l')
    (hd2 : ∀ s l, d2 (set s l) = d2 s)
    (hg2 : ∀ s buf, get (P2 s buf).1 = get s)
    (h1 : Strong1 P1 lvalid lfail) (h2 : SeqLaw P2 d2) :
    SeqLaw (seq2 get set lvalid P1 P2) done := by
  intro s a b hd
  rw [hdone] at hd
  simp only [Bool.or_eq_false_iff] at hd
  obtain ⟨hf, hds⟩ := hd
  by_cases hv : lvalid (get s) = true
  · -- phase 1 already complete
    have e : ∀ x, seq2 get set lvalid P1 P2 s x = P2 s x := by
      intro x; simp only [seq2, hv, if_true]
    rw [e, e, h2 s a b hds]
    have hg := hg2 s a
    generalize P2 s a = r at hg
    obtain ⟨r1, rr, rb⟩ := r
    simp only at hg
    simp only [hdone, hg, hf, Bool.false_or]
    split
    · rfl
    · simp only [seq2, hg, hv, if_true]
  · have hv' : lvalid (get s) = false := by simpa using hv
    have e : ∀ x, seq2 get set lvalid P1 P2 s x =
        (let r := P1 (get s) x
         if r.2.2 then P2 (set s r.1) r.2.1 else (set s r.1, r.2.1, false)) := by
      intro x; simp only [seq2, hv', Bool.false_eq_true, if_false]
    obtain ⟨f1, f2, f3⟩ := h1 (get s) a b hv' hf
    rw [e, e, f3]
    generalize P1 (get s) a = r at f1 f2
    obtain ⟨l1, lr, lb⟩ := r
    simp only at f1 f2 ⊢
    cases lb with
    | true =>
      have lf := f2 rfl
      have lv : lvalid l1 = true := f1.symm
      simp only [Bool.true_or, if_true]
      have hds' : d2 (set s l1) = false := by rw [hd2]; exact hds
      rw [h2 (set s l1) lr b hds']
      have hg := hg2 (set s l1) lr
      rw [hgs] at hg
      generalize P2 (set s l1) lr = r at hg
      obtain ⟨r1, rr, rb⟩ := r
      simp only at hg ⊢
      simp only [hdone, hg, lf, Bool.false_or]
      split
      · rfl
      · simp only [seq2, hg, lv, if_true]
    | false =>
      have lv : lvalid l1 = false := f1.symm
      simp only [Bool.false_or, Bool.false_eq_true, if_false, hdone, hgs, hd2, hds, Bool.or_false]
      split
      · rfl
      · simp only [seq2, hgs, lv, Bool.false_eq_true, if_false, hss]

theorem seq2_suffix {S L : Type} (get : S → L) (set : S → L → S) (lvalid : L → Bool)
    (P1 : L → Bytes → L × Bytes × Bool) (P2 : S → Bytes → S × Bytes × Bool)
    (h1 : SuffixLaw P1) (h2 : SuffixLaw P2) : SuffixLaw (seq2 get set lvalid P1 P2) := by
  intro s buf
  unfold seq2
  split
  · exact h2 s buf
  · obtain ⟨p1, e1⟩ := h1 (get s) buf
    simp only
    split
    · obtain ⟨p2, e2⟩ := h2 (set s (P1 (get s) buf).1) (P1 (get s) buf).2.1
      exact ⟨p1 ++ p2, by rw [List.append_assoc, ← e2, ← e1]⟩
    · exact ⟨p1, e1⟩

end Cmp

theorem RQ.parse_seq (cfg : Cfg) : SeqLaw (RQ.parse cfg) RQ.done := by
  sorry

theorem RP.parse_seq (cfg : Cfg) : SeqLaw (RP.parse cfg) RP.done := by
  sorry

theorem CK.parse_seq (cfg : Cfg) : SeqLaw (CK.parse cfg) CK.done := by
  sorry

theorem RQ.parse_suffix (cfg : Cfg) : SuffixLaw (RQ.parse cfg) := by
  sorry

theorem RP.parse_suffix (cfg : Cfg) : SuffixLaw (RP.parse cfg) := by
  sorry

theorem CK.parse_suffix (cfg : Cfg) : SuffixLaw (CK.parse cfg) := by
  sorry

end Via
