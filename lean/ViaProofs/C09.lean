import ViaProofs.ConnLemmas
import ViaProofs.ConnWrites
/-
  C09 — connections close exactly when HTTP says so, never before the response is out.

  Decision logic of the close path, for every world, connection, payload and both adaptor flavours:
  * `C09_close_deferred`   the send of a response to a NON keep-alive request starts the write and only RECORDS the
                           close (`disconnect_pending_`); no shutdown is issued while the write is in flight
                           (this is the repaired `shutdown()` → `disconnect()`);
  * `C09_close_on_completion` the completion of that write performs the shutdown;
  * `C09_keepalive_stays_open` a keep-alive response schedules nothing and its completion only signals SENT;
  * `C09_keepalive_iff`    what "keep-alive" means: HTTP version above 1.0 and no `close` token in Connection.
  The bytes of the response are resolved when the adaptor completes the write, after which (and only then) the
  shutdown happens, so no announced byte can be cut off by it — whatever the size (the model has no size limit) and
  whatever the progress schedule (completion is an event of the environment).
-/
namespace Via
open Sim

theorem C09_close_deferred (fuel : Nat) (w : World) (i : Nat) (bufs : List Buf) (hi : i < w.conns.length)
    (halive : (w.get i).alive = true) (hc : (w.get i).connected = true) (ht : (w.get i).transmitting = false)
    (hss : (w.get i).shutdownSent = false) (hka : (w.get i).rx.request.keepAlive = false) :
    let r := httpSendTail (fuel + 2) w i bufs false
    r.2 = false ∧ (r.1.get i).disconnectPending = true ∧ (r.1.get i).shutdownSent = false ∧
    (r.1.get i).writes = (w.get i).writes ++ [bufs] :=
  sendTail_close_deferred fuel w i bufs hi halive hc ht hss hka

theorem C09_no_shutdown_while_writing (fuel : Nat) (w : World) (i : Nat) (h : (w.get i).transmitting = true) :
    disconnectConn (fuel + 1) w i = w.upd i fun c => { c with disconnectPending := true } :=
  disconnect_defers fuel w i h

theorem C09_close_on_completion (fuel : Nat) (w : World) (i : Nat)
    (halive : (w.get i).alive = true) (hss : (w.get i).shutdownSent = false)
    (hdp : (w.get i).disconnectPending = true) :
    writeCallback (fuel + 1) w i none = shutdownConn fuel w i :=
  writeDone_then_shutdown fuel w i halive hss hdp

theorem C09_keepalive_stays_open (fuel : Nat) (w : World) (i : Nat) (bufs : List Buf) (hi : i < w.conns.length)
    (halive : (w.get i).alive = true) (hc : (w.get i).connected = true) (ht : (w.get i).transmitting = false)
    (hka : (w.get i).rx.request.keepAlive = true) :
    let r := httpSendTail (fuel + 2) w i bufs false
    r.2 = true ∧ (r.1.get i).disconnectPending = (w.get i).disconnectPending ∧
    (r.1.get i).shutdownSent = (w.get i).shutdownSent :=
  sendTail_keepalive fuel w i bufs hi halive hc ht hka

theorem C09_keepalive_completion (fuel : Nat) (w : World) (i : Nat)
    (halive : (w.get i).alive = true) (hss : (w.get i).shutdownSent = false)
    (hdp : (w.get i).disconnectPending = false) :
    writeCallback (fuel + 1) w i none =
      commsEvent fuel (w.upd i fun c => { c with transmitting := false }) i 1 :=
  writeDone_keepalive fuel w i halive hss hdp

/-- TRACE LEVEL (every history of accepts, completions with any outcome, errors, application actions and teardowns on a
    fresh server, every connection, both adaptor flavours): at most one write is in flight, and a connection that is not
    `transmitting_` has NO write in flight.  Hence `disconnect()` — which shuts down at once only when `transmitting_` is
    false and otherwise only records the request (`C09_no_shutdown_while_writing`) — never shuts a connection down over
    a response that is still being written, and when the completion of a write performs the recorded shutdown
    (`C09_close_on_completion`) that write was the only one in flight: nothing announced is cut off by the close,
    whatever the response size and whatever the schedule of completions. -/
theorem C09_no_truncation (serverOptions : List String) (history : List (List String)) (i : Nat) :
    let w := history.foldl simOp (mkServer serverOptions)
    (w.get i).writes.length ≤ 1 ∧ ((w.get i).transmitting = false → (w.get i).writes = []) := by
  intro w
  obtain ⟨h1, h2, _⟩ := winv_get (history_winv serverOptions history) i
  refine ⟨h1, fun ht => ?_⟩
  cases hw : (w.get i).writes with
  | nil => rfl
  | cons a l =>
    have hne : (w.get i).writes ≠ [] := by rw [hw]; exact List.cons_ne_nil _ _
    have : (w.get i).transmitting = true := h2 hne
    rw [ht] at this
    cases this

/-- … so the library-initiated shutdown of a reachable connection that is not transmitting happens with nothing in flight -/
theorem C09_disconnect_shuts_down_idle_only (serverOptions : List String) (history : List (List String)) (i fuel : Nat) :
    let w := history.foldl simOp (mkServer serverOptions)
    (disconnectConn (fuel + 1) w i = shutdownConn fuel w i ∧ (w.get i).writes = []) ∨
    (disconnectConn (fuel + 1) w i = w.upd i fun c => { c with disconnectPending := true }) := by
  intro w
  cases ht : (w.get i).transmitting with
  | false =>
    left
    exact ⟨by simp [disconnectConn, ht], (C09_no_truncation serverOptions history i).2 ht⟩
  | true => right; simp [disconnectConn, ht]

/-- the close decision: HTTP/1.0 or earlier, or a `close` token (any case, anywhere in the value) in Connection -/
theorem C09_keepalive_iff (q : RQ) :
    q.keepAlive = true ↔
      (q.line.isHttp10OrEarlier = false ∧
       ((q.headers.fields.find (b!"connection")).isEmpty = true ∨
        containsSub (b!"close") (lowerBytes (q.headers.fields.find (b!"connection"))) = false)) := by
  unfold RQ.keepAlive MH.closeConnection
  cases h1 : q.line.isHttp10OrEarlier <;> cases h2 : (q.headers.fields.find (b!"connection")).isEmpty <;>
    cases h3 : containsSub (b!"close") (lowerBytes (q.headers.fields.find (b!"connection"))) <;> simp_all

end Via
