import ViaProofs.Statements
import ViaProofs.Lemmas.Basic
namespace Via
open Router

/-! ### `split` -/

theorem splitAux_sep (d : Byte) (a b : Bytes) : ∀ cur,
    splitAux d (a ++ d :: b) cur = splitAux d a cur ++ split b d := by
  induction a with
  | nil => intro cur; simp [splitAux, split]
  | cons c cs ih =>
    intro cur
    simp only [List.cons_append, splitAux]
    split
    · rw [ih]; simp
    · rw [ih]

theorem split_sep (d : Byte) (a b : Bytes) : split (a ++ d :: b) d = split a d ++ split b d :=
  splitAux_sep d a b []

theorem splitAux_ne_nil (d : Byte) (s : Bytes) : ∀ cur, splitAux d s cur ≠ [] := by
  induction s with
  | nil => intro cur; simp [splitAux]
  | cons c cs ih => intro cur; simp only [splitAux]; split <;> simp [ih]

theorem split_ne_nil (d : Byte) (s : Bytes) : split s d ≠ [] := splitAux_ne_nil d s []

theorem joinWith_cons (sep x : Bytes) (rest : List Bytes) (h : rest ≠ []) :
    joinWith sep (x :: rest) = x ++ sep ++ joinWith sep rest := by
  cases rest with
  | nil => exact absurd rfl h
  | cons y ys => simp [joinWith]

theorem joinAux_split (d : Byte) (s : Bytes) : ∀ cur,
    joinWith [d] (splitAux d s cur) = cur.reverse ++ s := by
  induction s with
  | nil => intro cur; simp [splitAux, joinWith]
  | cons c cs ih =>
    intro cur
    simp only [splitAux]
    split
    · rename_i h
      have : c = d := by simpa using h
      subst this
      rw [joinWith_cons _ _ _ (splitAux_ne_nil c cs []), ih]; simp
    · rw [ih]; simp

theorem join_split (d : Byte) (s : Bytes) : joinWith [d] (split s d) = s := by
  simpa [split] using joinAux_split d s []

theorem split_injective (d : Byte) (a b : Bytes) (h : split a d = split b d) : a = b := by
  rw [← join_split d a, ← join_split d b, h]

theorem joinWith_append (sep : Bytes) (A B : List Bytes) (hA : A ≠ []) (hB : B ≠ []) :
    joinWith sep (A ++ B) = joinWith sep A ++ sep ++ joinWith sep B := by
  induction A with
  | nil => exact absurd rfl hA
  | cons x xs ih =>
    by_cases hx : xs = []
    · subst hx; simp [joinWith_cons sep x B hB, joinWith]
    · rw [List.cons_append, joinWith_cons sep x (xs ++ B) (by simp [hx]), ih hx, joinWith_cons sep x xs hx]
      simp

/-- pieces of a string without the delimiter: itself -/
theorem split_no_sep (d : Byte) (s : Bytes) (h : d ∉ s) : split s d = [s] := by
  have : ∀ cur, splitAux d s cur = [cur.reverse ++ s] := by
    induction s with
    | nil => intro cur; simp [splitAux]
    | cons c cs ih =>
      intro cur
      have hc : c ≠ d := fun e => h (by simp [e])
      have hcs : d ∉ cs := fun e => h (by simp [e])
      simp [splitAux, hc, ih hcs]
  simpa [split] using this []

theorem mem_splitAux (d : Byte) (s : Bytes) : ∀ cur piece, piece ∈ splitAux d s cur →
    ∀ c ∈ piece, c ∈ cur ∨ c ∈ s := by
  induction s with
  | nil => intro cur piece h c hc; simp [splitAux] at h; subst h; left; simpa using hc
  | cons x xs ih =>
    intro cur piece h c hc
    simp only [splitAux] at h
    split at h
    · rcases List.mem_cons.1 h with e | e
      · subst e; left; simpa using hc
      · rcases ih [] piece e c hc with a | a
        · simp at a
        · right; simp [a]
    · rcases ih (x :: cur) piece h c hc with a | a
      · rcases List.mem_cons.1 a with e | e
        · right; simp [e]
        · left; exact e
      · right; simp [a]

theorem mem_split (d : Byte) (s piece : Bytes) (h : piece ∈ split s d) : ∀ c ∈ piece, c ∈ s := by
  intro c hc
  rcases mem_splitAux d s [] piece h c hc with a | a
  · simp at a
  · exact a

/-- the first piece of a string that starts with a non-delimiter starts with that byte -/
theorem split_head (d c : Byte) (s : Bytes) (hc : c ≠ d) :
    ∃ n0 N, split (c :: s) d = n0 :: N ∧ n0.head? = some c := by
  have : ∀ (s : Bytes) (cur : Bytes), cur ≠ [] → ∃ n0 N, splitAux d s cur = n0 :: N ∧ n0.head? = cur.getLast? := by
    intro s
    induction s with
    | nil => intro cur h; exact ⟨cur.reverse, [], by simp [splitAux], by simp [List.head?_reverse]⟩
    | cons x xs ih =>
      intro cur h
      simp only [splitAux]
      split
      · exact ⟨cur.reverse, _, rfl, by simp [List.head?_reverse]⟩
      · obtain ⟨n0, N, e1, e2⟩ := ih (x :: cur) (by simp)
        refine ⟨n0, N, e1, ?_⟩
        rw [e2, List.getLast?_cons_of_ne_nil h]
  have hcd : (c == d) = false := by simp [hc]
  obtain ⟨n0, N, e1, e2⟩ := this s [c] (by simp)
  exact ⟨n0, N, by simp [split, splitAux, hcd, e1], by simpa using e2⟩

/-! ### segment matching -/

def Literal (R : List Bytes) : Prop := ∀ s ∈ R, s.head? ≠ some 58

theorem specSegs_literal (R : List Bytes) (h : Literal R) : ∀ (P : List Bytes) (acc : Params),
    specSegs R P acc = if R = P then some acc else none := by
  induction R with
  | nil => intro P acc; cases P <;> simp [specSegs]
  | cons r rs ih =>
    intro P acc
    have hr : r.head? ≠ some 58 := h r (by simp)
    have hrs : Literal rs := fun s hs => h s (by simp [hs])
    cases P with
    | nil => simp [specSegs]
    | cons p ps =>
      simp only [specSegs, hr, ↓reduceIte, List.cons.injEq]
      by_cases e : r = p
      · simp [e, ih hrs]
      · simp [e]

theorem specSegs_literal_prefix (S : List Bytes) (hS : Literal S) (N : List Bytes) :
    ∀ (V : List Bytes) (acc : Params), specSegs (S ++ N) (S ++ V) acc = specSegs N V acc := by
  induction S with
  | nil => intro V acc; rfl
  | cons r rs ih =>
    intro V acc
    have hr : r.head? ≠ some 58 := hS r (by simp)
    have hrs : Literal rs := fun s hs => hS s (by simp [hs])
    simp [specSegs, hr, ih hrs]

theorem specSegs_literal_prefix_inv (S : List Bytes) (hS : Literal S) (N : List Bytes) :
    ∀ (P : List Bytes) (acc ps : Params), specSegs (S ++ N) P acc = some ps → ∃ V, P = S ++ V := by
  induction S with
  | nil => intro P acc ps _; exact ⟨P, rfl⟩
  | cons r rs ih =>
    intro P acc ps h
    have hr : r.head? ≠ some 58 := hS r (by simp)
    have hrs : Literal rs := fun s hs => hS s (by simp [hs])
    cases P with
    | nil => simp [specSegs] at h
    | cons p pt =>
      simp only [List.cons_append, specSegs, hr, ↓reduceIte] at h
      by_cases e : r = p
      · simp only [e, ↓reduceIte] at h
        obtain ⟨V, hV⟩ := ih hrs pt acc ps h
        exact ⟨V, by simp [e, hV]⟩
      · simp [e] at h

theorem specSegs_length (N : List Bytes) : ∀ (V : List Bytes) (acc ps : Params),
    specSegs N V acc = some ps → N.length = V.length := by
  induction N with
  | nil => intro V acc ps h; cases V <;> simp_all [specSegs]
  | cons n ns ih =>
    intro V acc ps h
    cases V with
    | nil => simp [specSegs] at h
    | cons v vs =>
      simp only [specSegs] at h
      split at h
      · simp [ih vs _ ps h]
      · split at h
        · simp [ih vs _ ps h]
        · cases h

theorem bindLoop_eq_specSegs (N : List Bytes) : ∀ (V : List Bytes) (acc : Params),
    N.length = V.length → bindLoop N V acc = specSegs N V acc := by
  induction N with
  | nil => intro V acc h; cases V <;> simp_all [bindLoop, specSegs]
  | cons n ns ih =>
    intro V acc h
    cases V with
    | nil => simp at h
    | cons v vs =>
      have hl : ns.length = vs.length := by simpa using h
      simp only [bindLoop, specSegs]
      by_cases hn : n.head? = some 58
      · simp [hn, ih vs _ hl]
      · by_cases e : n = v
        · simp [hn, e, ih vs _ hl]
        · simp [hn, e]

theorem mapInsert_ne_nil {V} (k : Bytes) (v : V) (l : List (Bytes × V)) : mapInsert k v l ≠ [] := by
  cases l with
  | nil => simp [mapInsert]
  | cons p r =>
    obtain ⟨k', v'⟩ := p
    simp only [mapInsert]
    split
    · simp
    · split <;> simp

theorem specSegs_ne_nil (N : List Bytes) : ∀ (V : List Bytes) (acc ps : Params),
    acc ≠ [] → specSegs N V acc = some ps → ps ≠ [] := by
  induction N with
  | nil => intro V acc ps ha h; cases V <;> simp_all [specSegs]
  | cons n ns ih =>
    intro V acc ps ha h
    cases V with
    | nil => simp [specSegs] at h
    | cons v vs =>
      simp only [specSegs] at h
      split at h
      · exact ih vs _ ps (mapInsert_ne_nil _ _ _) h
      · split at h
        · exact ih vs _ ps ha h
        · cases h

/-! ### one route -/

/-- the decision `find_route` takes for one route -/
def implMatch (r : Route) (u : Bytes) : Option Params :=
  if r.searchPath.isPrefixOf u then
    if r.hasParameters then
      let ps := getRouteParameters u r.path
      if !ps.isEmpty then some ps else none
    else if u.length == r.searchPath.length then some [] else none
  else none

theorem findRoute_eq (u : Bytes) (routes : List Route) :
    findRoute u routes = (match routes with
      | [] => none
      | r :: rest => match implMatch r u with
        | some ps => some (r, ps)
        | none => findRoute u rest) := by
  cases routes with
  | nil => rfl
  | cons r rest =>
    simp only [findRoute, implMatch]
    split <;> (try split) <;> (try split) <;> simp_all

theorem literal_of_not_mem (d : Byte) (s : Bytes) (h : 58 ∉ s) : Literal (split s d) := by
  intro piece hp hh
  cases piece with
  | nil => simp at hh
  | cons c cs =>
    simp at hh; subst hh
    exact h (mem_split d s _ hp 58 (by simp))

theorem implMatch_eq_spec (r : Route) (hw : WfPattern r.path) (u : Bytes) :
    implMatch r u = specRoute r u := by
  unfold implMatch specRoute Route.hasParameters Route.searchPath
  cases hf : findByte 58 r.path with
  | none =>
    have hno : 58 ∉ r.path := findByte_none 58 r.path hf
    simp only [bne_self_eq_false, Bool.false_eq_true, ↓reduceIte]
    rw [specSegs_literal _ (literal_of_not_mem 47 r.path hno)]
    by_cases e : r.path = u
    · subst e; simp
    · have hs : split r.path 47 ≠ split u 47 := fun h => e (split_injective 47 _ _ h)
      simp only [hs, ↓reduceIte]
      split
      · rename_i hp
        split
        · rename_i hl
          exfalso
          have hpre := List.isPrefixOf_iff_prefix.1 hp
          have hl' : u.length = r.path.length := by simpa using hl
          exact e (hpre.eq_of_length hl'.symm)
        · rfl
      · rfl
  | some p =>
    obtain ⟨hdec, hnot⟩ := findByte_spec 58 r.path p hf
    -- position of the colon
    have hp_lt : p < r.path.length := by
      have := congrArg List.length hdec
      simp at this; omega
    have hcol : r.path[p]? = some (58 : Byte) := by
      rw [hdec]; simp [List.getElem?_append, List.length_take, Nat.min_eq_left (Nat.le_of_lt hp_lt)]
    obtain ⟨hp0, hslash⟩ := hw p hcol
    -- pre = pre' ++ "/"
    have htake : r.path.take p = r.path.take (p - 1) ++ [47] := by
      have : p = (p - 1) + 1 := by omega
      conv => lhs; rw [this, List.take_add_one, hslash]
      simp
    have hdrop : r.path.drop p = 58 :: r.path.drop (p + 1) := by
      rw [List.drop_eq_getElem_cons hp_lt]
      have := List.getElem?_eq_some_iff.1 hcol
      obtain ⟨_, e⟩ := this
      rw [e]
    have hpath : r.path = r.path.take (p - 1) ++ 47 :: r.path.drop p := by
      conv => lhs; rw [← List.take_append_drop p r.path, htake]
      simp
    have hnot' : 58 ∉ r.path.take (p - 1) := fun h => hnot (by rw [htake]; simp [h])
    have hS : Literal (split (r.path.take (p - 1)) 47) := literal_of_not_mem 47 _ hnot'
    have hsplit : split r.path 47 = split (r.path.take (p - 1)) 47 ++ split (r.path.drop p) 47 := by
      conv => lhs; rw [hpath]
      exact split_sep 47 _ _
    have hlen : (r.path.take p).length = p := by simp [List.length_take]; omega
    have hhas : (r.path.length != (r.path.take p).length) = true := by
      rw [hlen]; simp; omega
    simp only [hhas, ↓reduceIte]
    -- names start with a parameter
    obtain ⟨n0, N', hN, hn0⟩ := split_head 47 58 (r.path.drop (p + 1)) (by decide)
    rw [← hdrop] at hN
    by_cases hpre : (r.path.take p).isPrefixOf u = true
    · -- the literal prefix matches
      simp only [hpre, ↓reduceIte]
      have hu : u = r.path.take (p - 1) ++ 47 :: u.drop p := by
        have := List.prefix_iff_eq_append.1 (List.isPrefixOf_iff_prefix.1 hpre)
        rw [hlen, htake] at this
        conv => lhs; rw [← this]
        simp
      have husplit : split u 47 = split (r.path.take (p - 1)) 47 ++ split (u.drop p) 47 := by
        conv => lhs; rw [hu]
        exact split_sep 47 _ _
      rw [hsplit, husplit, specSegs_literal_prefix _ hS]
      unfold getRouteParameters
      simp only [hf]
      by_cases hl : (split (r.path.drop p) 47).length = (split (u.drop p) 47).length
      · simp only [hl, beq_self_eq_true, ↓reduceIte]
        rw [bindLoop_eq_specSegs _ _ _ hl]
        cases ho : specSegs (split (r.path.drop p) 47) (split (u.drop p) 47) [] with
        | none => simp
        | some ps =>
          have hne : ps ≠ [] := by
            rw [hN] at ho
            cases hv : split (u.drop p) 47 with
            | nil => rw [hv] at ho; simp [specSegs] at ho
            | cons v vs =>
              rw [hv] at ho
              simp only [specSegs, hn0, ↓reduceIte] at ho
              exact specSegs_ne_nil _ _ _ _ (mapInsert_ne_nil _ _ _) ho
          cases ps with
          | nil => exact absurd rfl hne
          | cons q qs => simp
      · have hb : ((split (r.path.drop p) 47).length == (split (u.drop p) 47).length) = false := by simp [hl]
        simp only [hb, Bool.false_eq_true, ↓reduceIte, List.isEmpty_nil, Bool.not_true]
        cases ho : specSegs (split (r.path.drop p) 47) (split (u.drop p) 47) [] with
        | none => rfl
        | some ps => exact absurd (specSegs_length _ _ _ _ ho) hl
    · -- the literal prefix does not match: the specification does not match either
      simp only [hpre, Bool.false_eq_true, ↓reduceIte]
      cases ho : specSegs (split r.path 47) (split u 47) [] with
      | none => rfl
      | some ps =>
        exfalso
        rw [hsplit] at ho
        obtain ⟨V, hV⟩ := specSegs_literal_prefix_inv _ hS _ _ _ _ ho
        rw [hV, specSegs_literal_prefix _ hS] at ho
        have hVne : V ≠ [] := by
          intro e; subst e
          have := specSegs_length _ _ _ _ ho
          rw [hN] at this; simp at this
        have hu : u = r.path.take (p - 1) ++ [47] ++ joinWith [47] V := by
          conv => lhs; rw [← join_split 47 u, hV, joinWith_append _ _ _ (split_ne_nil 47 _) hVne, join_split]
        apply hpre
        rw [List.isPrefixOf_iff_prefix, htake, hu]
        exact List.prefix_append _ _

theorem findRoute_eq_spec (u : Bytes) (routes : List Route) (hw : ∀ r ∈ routes, WfPattern r.path) :
    findRoute u routes = specFind u routes := by
  induction routes with
  | nil => rfl
  | cons r rest ih =>
    rw [findRoute_eq]
    simp only [specFind]
    rw [implMatch_eq_spec r (hw r (by simp)) u, ih (fun r' h => hw r' (by simp [h]))]
    cases specRoute r u <;> rfl

/-! ### the request path -/

theorem cstr_of_no_nul (t : Bytes) (h : 0 ∉ t) : cstr t = t := by
  unfold cstr
  induction t with
  | nil => rfl
  | cons c cs ih =>
    have hc : c ≠ 0 := fun e => h (by simp [e])
    have hcs : 0 ∉ cs := fun e => h (by simp [e])
    simp [List.takeWhile_cons, hc, ih hcs]

theorem takeWhile_two (t : Bytes) :
    t.takeWhile (fun c => c != 63 && c != 35) =
      t.take (min ((findByte 63 t).getD t.length) ((findByte 35 t).getD t.length)) := by
  induction t with
  | nil => simp
  | cons c cs ih =>
    have key : ∀ b : Byte, (findByte b (c :: cs)).getD (c :: cs).length =
        if c = b then 0 else (findByte b cs).getD cs.length + 1 := by
      intro b
      unfold findByte
      simp only [List.findIdx_cons, List.length_cons]
      by_cases e : c = b
      · simp [e]
      · have : (c == b) = false := by simp [e]
        simp only [this, cond_false, e, ↓reduceIte]
        by_cases hl : List.findIdx (fun x => x == b) cs < cs.length
        · simp [hl]
        · simp [hl]
    rw [key 63, key 35, List.takeWhile_cons]
    by_cases e1 : c = 63
    · simp [e1]
    · by_cases e2 : c = 35
      · simp [e2]
      · simp only [e1, e2, ↓reduceIte]
        have : (c != 63 && c != 35) = true := by simp [e1, e2]
        rw [this, ih]
        simp only [↓reduceIte]
        have hm : min ((findByte 63 cs).getD cs.length + 1) ((findByte 35 cs).getD cs.length + 1)
            = min ((findByte 63 cs).getD cs.length) ((findByte 35 cs).getD cs.length) + 1 := by omega
        rw [hm, List.take_succ_cons]

theorem parseUri_path (t : Bytes) : (parseUri t).path = stripQueryFragment t := by
  unfold parseUri stripQueryFragment
  rw [takeWhile_two]
  simp only
  cases hq : findByte 63 t with
  | none =>
    cases hfr : findByte 35 t with
    | none => simp
    | some f =>
      have hlt : f ≤ t.length := by
        have := (findByte_spec 35 t f hfr).1
        have := congrArg List.length this; simp at this; omega
      simp [Nat.min_eq_right hlt]
  | some q =>
    have hql : q ≤ t.length := by
      have := (findByte_spec 63 t q hq).1
      have := congrArg List.length this; simp at this; omega
    cases hfr : findByte 35 t with
    | none => simp [Nat.min_eq_left hql]
    | some f =>
      by_cases hqf : q < f
      · simp [hqf, Nat.min_eq_left (Nat.le_of_lt hqf)]
      · have : f ≤ q := by omega
        simp [hqf, Nat.min_eq_right this]

theorem C16 : C16_statement := by
  intro routes authOk method target hw
  unfold handleRequest specHandle
  rw [parseUri_path target, findRoute_eq_spec _ routes hw]
  cases specFind (stripQueryFragment target) routes with
  | none => rfl
  | some rp =>
    obtain ⟨r, ps⟩ := rp
    simp only [Route.allowedMethods]
    rfl

/-- the router invokes at most one handler and never throws: `handleRequest` is a total function
    returning a single outcome; the out-of-range `substr` in `get_route_parameters` is unreachable
    because the route prefix has been matched at the start of the path -/
theorem C16_no_throw (r : Route) (u : Bytes) (p : Nat) (hf : findByte 58 r.path = some p)
    (hm : r.searchPath.isPrefixOf u = true) : p ≤ u.length := by
  unfold Route.searchPath at hm
  rw [hf] at hm
  have hpre := List.isPrefixOf_iff_prefix.1 hm
  have hl := hpre.length_le
  have hdec := (findByte_spec 58 r.path p hf).1
  have := congrArg List.length hdec
  simp [List.length_take] at hl this
  omega

/-- non-vacuity: the documented example patterns are well-formed and dispatch as documented -/
example : handleRequest [{ path := (b!"/hello/:name"), methods := [((b!"GET"), { handler := 7, auth := none })] }]
    (fun _ => true) (b!"GET") (b!"/hello/world?x=1") = .handler 7 [((b!"name"), (b!"world"))] := by decide

end Via
