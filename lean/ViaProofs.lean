import ViaModel
