import ViaModel.Driver
def main (args : List String) : IO Unit := do
  let out ← IO.getStdout
  match args with
  | [path] =>
    let h ← IO.FS.Handle.mk path .read
    Via.Driver.loop (IO.FS.Stream.ofHandle h) out {}
  | _ => Via.Driver.loop (← IO.getStdin) out {}
