#!/usr/bin/env python3
"""cxx2lean.py — translate the character-level state machines of the parsers from /repo's CURRENT C++ sources into
Lean definitions (lean/ViaModel/GenParsers.lean).

This is a real (if narrow) translator: it tokenises and parses the body of each `parse_char(char c)` member function
(request_line, response_line, field_line, chunk_header) in a C++ subset — switch / case / default / fall-through,
if / else (nearest-if binding), return, break, blocks, local `static constexpr` constants, assignments `=`, `*=`, `+=`,
pre-increment inside conditions, `push_back`, `size()`, `empty()`, calls of the <cctype> / character.hpp predicates —
and emits, for each function, one Lean definition per `case` label plus the dispatching definition, in
continuation-passing form (every path ends in `(state, returned bool)`).  The hand-written model (`RL.parseChar`,
`SL.parseChar`, `FL.parseChar`, `CH.parseChar`), about which the property theorems are proved, is then PROVED equal to
the translation for every state, byte and configuration (ViaProofs/Translated.lean), so an edit to one of these
functions that changes its behaviour stops the proof from checking.

It fails closed: any construct outside the subset, an unknown member, constant, function or enum constant raises and
leaves no GenParsers.lean, so everything importing it stops building.
"""
import os
import re
import sys

REPO = os.environ.get("VERIF_REPO", "/repo")
VERIF = os.path.dirname(os.path.dirname(os.path.abspath(__file__)))
OUTDIR = os.environ.get("VIA_GEN_OUT") or os.path.join(VERIF, "lean", "ViaGen")
INC = os.path.join(REPO, "include", "via")


class Unsupported(Exception):
    pass


# ------------------------------------------------------------------------------------------------
# what the translation is relative to: member -> field of the hand-written state record

FUNCS = {
    "isupper": "isUpper", "std::isupper": "isUpper",
    "isblank": "isBlank", "std::isblank": "isBlank",
    "isdigit": "isDigit", "std::isdigit": "isDigit",
    "isxdigit": "isXDigit", "std::isxdigit": "isXDigit",
    "isgraph": "isGraph", "std::isgraph": "isGraph",
    "isalpha": "isAlpha", "std::isalpha": "isAlpha",
    "isalnum": "isAlnum", "std::isalnum": "isAlnum",
    "iscntrl": "isCntrl", "std::iscntrl": "isCntrl",
    "tolower": "toLower", "std::tolower": "toLower",
    "is_end_of_line": "isEol",
    "is_separator": "isSeparator",
    "is_token": "isToken",
    "read_digit": "readDigit",
    # `size_ = from_hex_string(hex_size_)` stores a ptrdiff_t into a size_t: -1 becomes SIZE_MAX
    "from_hex_string": "chunkSizeOf",
}
FUNC_TYPES = {"isUpper": "bool", "isBlank": "bool", "isDigit": "bool", "isXDigit": "bool", "isGraph": "bool",
              "isAlpha": "bool", "isAlnum": "bool", "isCntrl": "bool", "isEol": "bool", "isSeparator": "bool",
              "isToken": "bool", "toLower": "byte", "readDigit": "nat", "chunkSizeOf": "nat"}

CLASSES = [
    {
        "cls": "request_line", "file": "http/request.hpp", "enum": "Request", "struct": "RL", "ns": "GenRL",
        "members": {"method_": ("method", "bytes"), "uri_": ("uri", "bytes"), "major_version_": ("major", "byte"),
                    "minor_version_": ("minor", "byte"), "state_": ("st", "enum"), "ws_count_": ("ws", "nat"),
                    "valid_": ("valid", "bool"), "fail_": ("fail", "bool")},
        "consts": {"MAX_METHOD_LENGTH": ("cfg.maxMethod", "nat"), "MAX_URI_LENGTH": ("cfg.maxUri", "nat"),
                   "MAX_WHITESPACE_CHARS": ("cfg.maxWs", "nat"), "STRICT_CRLF": ("cfg.strict", "bool")},
    },
    {
        "cls": "response_line", "file": "http/response.hpp", "enum": "Response", "struct": "SL", "ns": "GenSL",
        "members": {"status_": ("status", "nat"), "reason_phrase_": ("reason", "bytes"),
                    "major_version_": ("major", "byte"), "minor_version_": ("minor", "byte"),
                    "state_": ("st", "enum"), "ws_count_": ("ws", "nat"), "status_read_": ("statusRead", "bool"),
                    "valid_": ("valid", "bool"), "fail_": ("fail", "bool")},
        "consts": {"MAX_STATUS_NUMBER": ("cfg.maxUri", "nat"), "MAX_REASON_LENGTH": ("cfg.maxMethod", "nat"),
                   "MAX_WHITESPACE_CHARS": ("cfg.maxWs", "nat"), "STRICT_CRLF": ("cfg.strict", "bool")},
    },
    {
        "cls": "field_line", "file": "http/headers.hpp", "enum": "Header", "struct": "FL", "ns": "GenFL",
        "members": {"name_": ("name", "bytes"), "value_": ("value", "bytes"), "length_": ("length", "nat"),
                    "ws_count_": ("ws", "nat"), "state_": ("st", "enum"), "fail_": ("fail", "bool")},
        "consts": {"MAX_LINE_LENGTH": ("cfg.maxLine", "nat"), "MAX_WHITESPACE_CHARS": ("cfg.maxWs", "nat"),
                   "STRICT_CRLF": ("cfg.strict", "bool")},
    },
    {
        "cls": "chunk_header", "file": "http/chunk.hpp", "enum": "Chunk", "struct": "CH", "ns": "GenCH",
        "members": {"size_": ("size", "nat"), "length_": ("length", "nat"), "ws_count_": ("ws", "nat"),
                    "hex_size_": ("hexSize", "bytes"), "extension_": ("ext", "bytes"), "state_": ("st", "enum"),
                    "size_read_": ("sizeRead", "bool"), "valid_": ("valid", "bool"), "fail_": ("fail", "bool")},
        "consts": {"MAX_LINE_LENGTH": ("cfg.maxLine", "nat"), "MAX_WHITESPACE_CHARS": ("cfg.maxWs", "nat"),
                   "STRICT_CRLF": ("cfg.strict", "bool"), "max_chunk_size_": ("cfg.maxChunk", "nat")},
    },
]


def ctor_name(c):
    """METHOD -> method, HTTP_T1 -> httpT1, ERROR_METHOD_LENGTH -> errMethodLength"""
    parts = c.split("_")
    parts = ["ERR" if p == "ERROR" else p for p in parts]
    out = parts[0].lower()
    for p in parts[1:]:
        out += p[0].upper() + p[1:].lower()
    return out


# ------------------------------------------------------------------------------------------------
# lexer

TOKEN = re.compile(r"""
    (?P<ws>\s+)
  | (?P<comment>//[^\n]*|/\*.*?\*/)
  | (?P<attr>\[\[\s*fallthrough\s*\]\])
  | (?P<char>'(?:\\.|[^'\\])')
  | (?P<num>\d+[uUlL]*)
  | (?P<id>[A-Za-z_]\w*(?:::[A-Za-z_]\w*)*)
  | (?P<op>\+\+|--|==|!=|>=|<=|&&|\|\||\*=|\+=|-=|[-+*/%<>=!(){};:,.?\[\]&|])
""", re.X | re.S)


def lex(text):
    toks = []
    pos = 0
    while pos < len(text):
        m = TOKEN.match(text, pos)
        if not m:
            raise Unsupported("cannot tokenise at %r" % text[pos:pos + 30])
        pos = m.end()
        k = m.lastgroup
        if k in ("ws", "comment"):
            continue
        toks.append((k, m.group(k)))
    return toks


def char_value(lit):
    body = lit[1:-1]
    if body.startswith("\\"):
        table = {"r": 13, "n": 10, "t": 9, "0": 0, "\\": 92, "'": 39, '"': 34}
        if body[1] not in table:
            raise Unsupported("escape " + lit)
        return table[body[1]]
    return ord(body)


def function_body(text, cls, signature_regex):
    """the brace-balanced body of the first function matching signature_regex inside `class <cls>`"""
    m = re.search(r"\bclass\s+%s\b" % cls, text)
    if not m:
        raise Unsupported("class %s not found" % cls)
    m2 = re.compile(signature_regex).search(text, m.end())
    if not m2:
        raise Unsupported("%s::parse_char not found" % cls)
    i = text.index("{", m2.end())
    depth = 0
    j = i
    in_char = False
    while j < len(text):
        ch = text[j]
        if text.startswith("//", j):
            j = text.index("\n", j)
            continue
        if ch == "'" and not in_char:
            mm = re.match(r"'(?:\\.|[^'\\])'", text[j:])
            if mm:
                j += mm.end()
                continue
        if ch == "{":
            depth += 1
        elif ch == "}":
            depth -= 1
            if depth == 0:
                return text[i:j + 1]
        j += 1
    raise Unsupported("unbalanced braces in %s" % cls)


# ------------------------------------------------------------------------------------------------
# parser: statements and expressions of the subset

class P:
    def __init__(self, toks):
        self.t = toks
        self.i = 0

    def peek(self, k=0):
        return self.t[self.i + k] if self.i + k < len(self.t) else ("eof", "")

    def next(self):
        tok = self.peek()
        self.i += 1
        return tok

    def accept(self, val):
        if self.peek()[1] == val:
            self.i += 1
            return True
        return False

    def expect(self, val):
        if not self.accept(val):
            raise Unsupported("expected %r, found %r (token %d)" % (val, self.peek()[1], self.i))

    # --- statements
    def stmt(self):
        k, v = self.peek()
        if v == "{":
            self.next()
            body = []
            while not self.accept("}"):
                body.append(self.stmt())
            return ("block", body)
        if v == "if":
            self.next()
            self.accept("constexpr")        # `if constexpr (B)`: same value semantics as `if (B)` for a bool constant
            self.expect("(")
            c = self.expr()
            self.expect(")")
            th = self.stmt()
            el = None
            if self.accept("else"):
                el = self.stmt()
            return ("if", c, th, el)
        if v == "while":
            self.next()
            self.expect("(")
            c = self.expr()
            self.expect(")")
            return ("while", c, self.stmt())
        if v == "char" and self.peek(1)[0] == "id" and self.peek(2)[1] == "(":
            # char c(<expr>);
            self.next()
            name = self.next()[1]
            self.expect("(")
            e = self.expr()
            self.expect(")")
            self.expect(";")
            return ("decl", name, e)
        if v == "const" and self.peek(1)[1] in ("std::ptrdiff_t", "ForwardIterator", "bool", "size_t", "std::size_t", "auto", "std::string"):
            self.next()      # a const local: same value semantics
            k, v = self.peek()
        if k == "id" and v in ("std::ptrdiff_t", "ForwardIterator", "bool", "size_t", "std::size_t", "auto", "std::string") and \
                self.peek(1)[0] == "id" and self.peek(2)[1] == "(":
            ty = self.next()[1]
            name = self.next()[1]
            self.expect("(")
            e = self.expr()
            self.expect(")")
            self.expect(";")
            return ("ldecl", ty, name, e)
        if v == "switch":
            self.next()
            self.expect("(")
            e = self.expr()
            self.expect(")")
            self.expect("{")
            cases = []
            while not self.accept("}"):
                labels = []
                while True:
                    if self.accept("case"):
                        kk, lab = self.next()
                        if kk != "id":
                            raise Unsupported("case label " + lab)
                        self.expect(":")
                        labels.append(lab)
                    elif self.accept("default"):
                        self.expect(":")
                        labels.append(None)
                    else:
                        break
                if not labels:
                    raise Unsupported("statement outside a case in switch: %r" % (self.peek(),))
                body = []
                while self.peek()[1] not in ("case", "default", "}"):
                    body.append(self.stmt())
                cases.append((labels, body))
            return ("switch", e, cases)
        if v == "return":
            self.next()
            e = self.expr()
            self.expect(";")
            return ("return", e)
        if v == "break":
            self.next()
            self.expect(";")
            return ("break",)
        if k == "attr":
            self.next()
            self.expect(";")
            return ("fallthrough",)
        if v == "static":
            # static constexpr <type> NAME(<num>);
            self.next()
            self.expect("constexpr")
            self.next()  # type
            kk, name = self.next()
            self.expect("(")
            kn, num = self.next()
            if kn != "num":
                raise Unsupported("local constant initialiser")
            self.expect(")")
            self.expect(";")
            return ("const", name, int(re.match(r"\d+", num).group(0)))
        e = self.expr()
        self.expect(";")
        return ("expr", e)

    # --- expressions
    def expr(self):
        lhs = self.lor()
        if self.peek()[1] in ("=", "*=", "+="):
            op = self.next()[1]
            rhs = self.expr()
            return ("assign", op, lhs, rhs)
        if self.peek()[1] == "?":
            self.next()
            a = self.expr()
            self.expect(":")
            b = self.expr()
            return ("cond", lhs, a, b)
        return lhs

    def lor(self):
        e = self.land()
        while self.accept("||"):
            e = ("or", e, self.land())
        return e

    def land(self):
        e = self.eq()
        while self.accept("&&"):
            e = ("and", e, self.eq())
        return e

    def eq(self):
        e = self.rel()
        while self.peek()[1] in ("==", "!="):
            op = self.next()[1]
            e = ("cmp", op, e, self.rel())
        return e

    def rel(self):
        e = self.additive()
        while self.peek()[1] in ("<", ">", "<=", ">="):
            op = self.next()[1]
            e = ("cmp", op, e, self.additive())
        return e

    def additive(self):
        e = self.unary()
        while self.peek()[1] in ("+", "-"):
            op = self.next()[1]
            e = ("add" if op == "+" else "sub", e, self.unary())
        return e

    def unary(self):
        if self.accept("!"):
            return ("not", self.unary())
        if self.accept("++"):
            return ("preinc", self.unary())
        if self.accept("*"):
            return ("deref", self.unary())
        return self.postfix()

    def postfix(self):
        k, v = self.next()
        if k == "char":
            e = ("char", char_value(v))
        elif k == "num":
            e = ("num", int(re.match(r"\d+", v).group(0)))
        elif v == "(":
            e = self.expr()
            self.expect(")")
        elif k == "id":
            if v == "static_cast":
                # static_cast<T>(e): value-preserving on the bytes concerned; a cast to std::ptrdiff_t makes the value signed
                self.expect("<")
                tys = []
                while not self.accept(">"):
                    tys.append(self.next()[1])
                self.expect("(")
                e = self.expr()
                self.expect(")")
                if tys == ["std::ptrdiff_t"]:
                    e = ("toint", e)
                elif tys in (["size_t"], ["std::size_t"]):
                    e = ("tonat", e)
            elif v in ("true", "false"):
                e = ("bool", v == "true")
            else:
                e = ("id", v)
        else:
            raise Unsupported("unexpected token %r" % v)
        while True:
            if self.accept("("):
                args = []
                if not self.accept(")"):
                    while True:
                        args.append(self.expr())
                        if self.accept(")"):
                            break
                        self.expect(",")
                e = ("call", e, args)
            elif self.accept("."):
                kk, name = self.next()
                e = ("member", e, name)
            elif self.accept("++"):
                e = ("postinc", e)
            else:
                return e


# ------------------------------------------------------------------------------------------------
# code generation

def may_exit(st):
    k = st[0]
    if k in ("return", "break", "fallthrough", "switch", "while"):
        return True
    if k == "block":
        return any(may_exit(s) for s in st[1])
    if k == "if":
        return may_exit(st[2]) or (st[3] is not None and may_exit(st[3]))
    return False


class Gen:
    def __init__(self, spec, enum_consts):
        self.spec = spec
        self.enum = spec["enum"]
        self.enum_consts = enum_consts
        self.locals = {}
        self.it = None          # Lean term for the remaining input (`iter` .. `end`) where the code may look at it

    # ---- expressions: returns (prelude lines, lean text, type)
    def ex(self, e):
        k = e[0]
        if k == "char":
            return [], str(e[1]), "byte"
        if k == "num":
            return [], str(e[1]), "nat"
        if k == "bool":
            return [], ("true" if e[1] else "false"), "bool"
        if k == "id":
            v = e[1]
            if v == "c":
                return [], "c", "byte"
            if v in self.spec["members"]:
                f, ty = self.spec["members"][v]
                return [], "s." + f, ty
            if v in self.spec["consts"]:
                t, ty = self.spec["consts"][v]
                return [], t, ty
            if v in self.locals:
                return [], "(%d : Nat)" % self.locals[v], "nat"
            if v.startswith(self.enum + "::"):
                cn = v.split("::", 1)[1]
                if cn not in self.enum_consts:
                    raise Unsupported("unknown enum constant " + v)
                return [], "." + ctor_name(cn), "enum"
            raise Unsupported("unknown identifier %s in %s" % (v, self.spec["cls"]))
        if k == "not":
            p, t, ty = self.ex(e[1])
            return p, "!" + self.as_bool(t, ty), "bool"
        if k in ("and", "or"):
            p1, t1, ty1 = self.ex(e[1])
            p2, t2, ty2 = self.ex(e[2])
            if p2:
                raise Unsupported("side effect on the right of a short-circuit operator")
            op = "&&" if k == "and" else "||"
            return p1, "(%s %s %s)" % (self.as_bool(t1, ty1), op, self.as_bool(t2, ty2)), "bool"
        if k == "cmp" and e[2] in (("id", "iter"), ("id", "end")) and e[3] in (("id", "iter"), ("id", "end")) and e[2] != e[3]:
            if self.it is None or e[1] not in ("==", "!="):
                raise Unsupported("iterator comparison here")
            return [], ("(!%s.isEmpty)" if e[1] == "!=" else "%s.isEmpty") % self.it, "bool"
        if k == "deref":
            if e[1] != ("id", "iter") or self.it is None:
                raise Unsupported("dereference of something other than iter")
            # `*iter`: guarded by `iter != end` in the code; the translation reads 0 past the end
            return [], "(%s.headD 0)" % self.it, "byte"
        if k == "assign":
            lines = self.effect(("expr", e))
            f, fty = self.spec["members"][e[2][1]]
            return lines, "s." + f, fty
        if k == "call" and e[1] == ("id", "parse_char"):
            if e[2] != [("id", "c")]:
                raise Unsupported("parse_char called with something other than c")
            return ["let r := %s.parseChar cfg s c" % self.spec["ns"], "let s := r.1"], "r.2", "bool"
        if k == "cmp":
            op = e[1]
            p1, t1, ty1 = self.ex(e[2])
            p2, t2, ty2 = self.ex(e[3])
            if p2:
                raise Unsupported("side effect on the right of a comparison")
            if op in ("==", "!="):
                # put the variable on the left: 'H' == c  ->  c == 72
                if e[2][0] in ("char", "num") or (e[2][0] == "id" and e[2][1].startswith(self.enum + "::")):
                    t1, t2, ty1, ty2 = t2, t1, ty2, ty1
                if {ty1, ty2} - {"byte"} and {ty1, ty2} - {"enum"} and {ty1, ty2} - {"nat"} and {ty1, ty2} - {"bool"}:
                    raise Unsupported("comparison of different types: %s %s" % (ty1, ty2))
                txt = "(%s %s %s)" % (t1, "==" if op == "==" else "!=", t2)
                return p1, txt, "bool"
            if ty1 != "nat" or ty2 != "nat":
                raise Unsupported("ordering comparison on non-numbers")
            return p1, "(%s %s %s)" % (t1, op, t2), "prop"
        if k == "add":
            p1, t1, ty1 = self.ex(e[1])
            p2, t2, ty2 = self.ex(e[2])
            if p1 or p2 or ty1 != "nat" or ty2 != "nat":
                raise Unsupported("addition of non-numbers or with side effects")
            return [], "(%s + %s)" % (t1, t2), "nat"
        if k == "preinc":
            tgt = e[1]
            if tgt[0] != "id" or tgt[1] not in self.spec["members"]:
                raise Unsupported("++ on a non-member")
            f, ty = self.spec["members"][tgt[1]]
            if ty != "nat":
                raise Unsupported("++ on a non-number")
            return ["let s := { s with %s := s.%s + 1 }" % (f, f)], "s." + f, "nat"
        if k == "call":
            fn = e[1]
            if fn[0] == "id":
                name = fn[1]
                if name not in FUNCS:
                    raise Unsupported("call of unknown function " + name)
                lf = FUNCS[name]
                if len(e[2]) != 1:
                    raise Unsupported("arity of " + name)
                p, t, ty = self.ex(e[2][0])
                return p, "(%s %s)" % (lf, t), FUNC_TYPES[lf]
            if fn[0] == "member":
                p, t, ty = self.ex(fn[1])
                if ty != "bytes":
                    raise Unsupported("method call on a non-container")
                if fn[2] == "empty" and not e[2]:
                    return p, "%s.isEmpty" % t, "bool"
                if fn[2] == "size" and not e[2]:
                    return p, "%s.length" % t, "nat"
                raise Unsupported("container method " + fn[2])
        raise Unsupported("expression form %r" % (e,))

    def as_bool(self, t, ty):
        if ty == "bool":
            return t
        if ty == "prop":
            return "decide %s" % t
        raise Unsupported("a %s used as a condition" % ty)

    def cond(self, t, ty):
        if ty in ("bool", "prop"):
            return t
        raise Unsupported("a %s used as a condition" % ty)

    # ---- a statement that cannot exit: list of `let s := …` lines
    def effect(self, st):
        k = st[0]
        if k == "block":
            out = []
            for s in st[1]:
                out += self.effect(s)
            return out
        if k == "const":
            self.locals[st[1]] = st[2]
            return []
        if k == "expr":
            e = st[1]
            if e[0] == "assign":
                op, lhs, rhs = e[1], e[2], e[3]
                if lhs[0] != "id" or lhs[1] not in self.spec["members"]:
                    raise Unsupported("assignment to a non-member")
                f, fty = self.spec["members"][lhs[1]]
                p, t, ty = self.ex(rhs)
                if fty == "bool" and ty == "prop":
                    t, ty = "decide " + t, "bool"
                if fty != ty:
                    raise Unsupported("assignment of %s to %s member %s" % (ty, fty, lhs[1]))
                if op == "=":
                    return p + ["let s := { s with %s := %s }" % (f, t)]
                if fty != "nat":
                    raise Unsupported("compound assignment on non-number")
                return p + ["let s := { s with %s := s.%s %s %s }" % (f, f, op[0], t)]
            if e[0] == "preinc":
                p, _, _ = self.ex(e)
                return p
            if e[0] == "call" and e[1][0] == "member" and e[1][2] == "push_back":
                tgt = e[1][1]
                if tgt[0] != "id" or tgt[1] not in self.spec["members"]:
                    raise Unsupported("push_back on a non-member")
                f, fty = self.spec["members"][tgt[1]]
                if fty != "bytes" or len(e[2]) != 1:
                    raise Unsupported("push_back form")
                p, t, ty = self.ex(e[2][0])
                if ty != "byte":
                    raise Unsupported("push_back of a %s" % ty)
                return p + ["let s := { s with %s := s.%s ++ [%s] }" % (f, f, t)]
            raise Unsupported("expression statement %r" % (e,))
        if k == "if":
            p, t, ty = self.ex(st[1])
            th = self.effect(st[2])
            el = self.effect(st[3]) if st[3] is not None else []
            return p + ["let s := if %s then (%s) else (%s)" % (self.cond(t, ty), self.seq(th, "s"), self.seq(el, "s"))]
        raise Unsupported("statement %r cannot be used here" % (k,))

    @staticmethod
    def seq(lines, tail):
        return "; ".join(lines + [tail]) if lines else tail

    # ---- statements with continuations: returns a Lean term of type  S × Bool
    def comp(self, stmts, k_end, k_break):
        """stmts: list; k_end: text used when control falls off the end; k_break: text for `break`"""
        if not stmts:
            return k_end
        st, rest = stmts[0], stmts[1:]
        k = st[0]
        if not may_exit(st):
            lines = self.effect(st)
            tail = self.comp(rest, k_end, k_break)
            return self.seq(lines, tail) if lines else tail
        if k == "return":
            p, t, ty = self.ex(st[1])
            return self.seq(p, "(s, %s)" % self.as_bool(t, ty))
        if k == "break":
            return k_break
        if k == "fallthrough":
            return self.comp(rest, k_end, k_break)
        if k == "block":
            return self.comp(st[1] + rest, k_end, k_break)
        if k == "if":
            p, t, ty = self.ex(st[1])
            th = self.comp([st[2]] + rest, k_end, k_break)
            el = self.comp(([st[3]] if st[3] is not None else []) + rest, k_end, k_break)
            return self.seq(p, "(if %s then %s else %s)" % (self.cond(t, ty), th, el))
        raise Unsupported("statement %r in exit position" % (k,))

    def comp3(self, stmts, k_end, it):
        """like comp, for code whose result is (state, remaining input, returned bool); `it` = the remaining input"""
        saved = self.it
        self.it = it
        try:
            return self._comp3(stmts, k_end, it)
        finally:
            self.it = saved

    def _comp3(self, stmts, k_end, it):
        if not stmts:
            return k_end
        st, rest = stmts[0], stmts[1:]
        k = st[0]
        if not may_exit(st):
            lines = self.effect(st)
            tail = self._comp3(rest, k_end, it)
            if tail is None:
                return None
            return self.seq(lines, tail) if lines else tail
        if k == "return":
            p, t, ty = self.ex(st[1])
            return self.seq(p, "(s, %s, %s)" % (it, self.as_bool(t, ty)))
        if k == "block":
            return self._comp3(st[1] + rest, k_end, it)
        if k == "if":
            p, t, ty = self.ex(st[1])
            th = self._comp3([st[2]] + rest, k_end, it)
            el = self._comp3(([st[3]] if st[3] is not None else []) + rest, k_end, it)
            if th is None or el is None:
                return None
            return self.seq(p, "(if %s then %s else %s)" % (self.cond(t, ty), th, el))
        raise Unsupported("statement %r in a parse function" % (k,))

    def function(self, body_stmts):
        """body: prelude statements, one switch on state_, then `return <bool>;`"""
        ns, S = self.spec["ns"], self.spec["struct"]
        idx = [i for i, s in enumerate(body_stmts) if s[0] == "switch"]
        if len(idx) != 1:
            raise Unsupported("%s::parse_char: expected exactly one switch" % self.spec["cls"])
        pre, sw, post = body_stmts[:idx[0]], body_stmts[idx[0]], body_stmts[idx[0] + 1:]
        if sw[1] != ("id", "state_"):
            raise Unsupported("switch is not on state_")
        after = self.comp(post, None, None)
        if after is None:
            raise Unsupported("function can fall off its end")
        pre_lines = []
        for s in pre:
            if may_exit(s):
                raise Unsupported("exit before the switch")
            pre_lines += self.effect(s)
        cases = sw[2]
        defs = []
        # each case: a definition; falling off its end continues in the next case's definition
        names = []
        for labels, _ in cases:
            lab = labels[0]
            names.append("caseDefault" if lab is None else "case_" + ctor_name(lab.split("::", 1)[1]))
        for n, (labels, body) in enumerate(cases):
            for lab in labels:
                if lab is not None and (not lab.startswith(self.enum + "::") or lab.split("::", 1)[1] not in self.enum_consts):
                    raise Unsupported("case label " + lab)
            k_end = ("%s.%s cfg s c" % (ns, names[n + 1])) if n + 1 < len(cases) else after
            term = self.comp(body, k_end, after)
            defs.append((names[n], term))
        out = []
        for name, term in reversed(defs):
            out.append("def %s.%s (cfg : Cfg) (s : %s) (c : Byte) : %s × Bool :=\n  %s\n" % (ns, name, S, S, term))
        arms = []
        have_default = False
        for n, (labels, _) in enumerate(cases):
            for lab in labels:
                if lab is None:
                    have_default = True
                    arms.append("  | _ => %s.%s cfg s c" % (ns, names[n]))
                else:
                    arms.append("  | .%s => %s.%s cfg s c" % (ctor_name(lab.split("::", 1)[1]), ns, names[n]))
        # default last
        arms.sort(key=lambda a: a.startswith("  | _"))
        if not have_default:
            listed = {lab.split("::", 1)[1] for labels, _ in cases for lab in labels}
            if listed != set(self.enum_consts):
                arms.append("  | _ => %s" % after)
        main = "def %s.parseChar (cfg : Cfg) (s : %s) (c : Byte) : %s × Bool :=\n" % (ns, S, S)
        for l in pre_lines:
            main += "  %s\n" % l
        main += "  match s.st with\n" + "\n".join(arms) + "\n"
        out.append(main)
        return "\n".join(out)


def gen_parse_function(g, body_stmts):
    """`bool parse(ForwardIterator& iter, ForwardIterator end)` of a line parser:
         <statements that may peek at *iter>   while ((iter != end) && COND) { char c(*iter++); BODY }   <statements> return e;
       becomes a structurally recursive function over the remaining input; result = (state, remaining input, returned bool)"""
    ns, S = g.spec["ns"], g.spec["struct"]
    idx = [i for i, st in enumerate(body_stmts) if st[0] == "while"]
    if len(idx) != 1:
        raise Unsupported("%s::parse: expected exactly one while loop" % g.spec["cls"])
    pre, loop, post = body_stmts[:idx[0]], body_stmts[idx[0]], body_stmts[idx[0] + 1:]
    cond, body = loop[1], loop[2]
    if cond[0] != "and" or cond[1] != ("cmp", "!=", ("id", "iter"), ("id", "end")):
        raise Unsupported("loop condition is not `(iter != end) && ...`")
    body = body[1] if body[0] == "block" else [body]
    if not body or body[0][0] != "decl" or body[0][1] != "c" or body[0][2] != ("deref", ("postinc", ("id", "iter"))):
        raise Unsupported("loop body does not start with `char c(*iter++)`")

    after_nil = g.comp3(post, None, "[]")
    after_cons = g.comp3(post, None, "(c0 :: it)")
    if after_nil is None or after_cons is None:
        raise Unsupported("parse can fall off its end")
    g.it = None
    p, t, ty = g.ex(cond[2])
    if p:
        raise Unsupported("side effect in the loop condition")
    g.it = "it"
    body_term = g.comp3(body[1:], "%s.parseLoop cfg s it" % ns, "it")
    loop_def = ("def %s.parseLoop (cfg : Cfg) (s : %s) : Bytes → %s × Bytes × Bool\n"
                "  | [] => %s\n"
                "  | c0 :: it =>\n    if %s then\n      let c := c0\n      %s\n    else %s\n" % (
                    ns, S, S, after_nil, g.cond(t, ty), body_term, after_cons))
    g.it = "buf"
    pre_lines = []
    for st in pre:
        if may_exit(st):
            raise Unsupported("exit before the loop")
        pre_lines += g.effect(st)
    main = "def %s.parse (cfg : Cfg) (s : %s) (buf : Bytes) : %s × Bytes × Bool :=\n" % (ns, S, S)
    for l in pre_lines:
        main += "  %s\n" % l
    main += "  %s.parseLoop cfg s buf\n" % ns
    g.it = None
    return loop_def + "\n" + main


def enum_members(text, name):
    m = re.search(r"enum\s+class\s+%s\s*\{(.*?)\}" % name, text, re.S)
    if not m:
        raise Unsupported("enum class %s" % name)
    body = re.sub(r"//[^\n]*", "", m.group(1))
    return [p.strip() for p in body.split(",") if p.strip()]


# ------------------------------------------------------------------------------------------------
# mode 2: functions that thread the input iterator through sub-parsers (message_headers::parse)

SPEC_MH = {
    "cls": "message_headers", "file": "http/headers.hpp", "struct": "MH", "ns": "GenMH", "enum": "Header",
    "members": {"blank_cr_": ("blankCr", "bool"), "number_": ("number", "nat"), "length_": ("length", "nat"),
                "valid_": ("valid", "bool")},
    "consts": {"MAX_HEADER_LENGTH": ("cfg.maxHdrLen", "nat"), "MAX_HEADER_NUMBER": ("cfg.maxHdrNum", "nat"),
               "STRICT_CRLF": ("cfg.strict", "bool")},
    # member sub-objects: C++ member -> (field of the model record, class spec of the sub-object, its translated parse)
    "subobjects": {"field_": ("field", "field_line", "GenFL")},
    # member functions of this class that are mapped to model functions by name (not translated): trusted
    "helpers": {"add": ("let s := { s with fields := s.fields.add %s %s }", ["bytes", "bytes"])},
}


def accessor_expr(text, cls, name):
    """the expression of a one-line accessor `T name() const noexcept { return <expr>; }` of class cls"""
    m = re.search(r"\bclass\s+%s\b" % cls, text)
    if not m:
        raise Unsupported("class %s not found" % cls)
    m2 = re.compile(r"\b%s\s*\(\s*\)\s*const\s*(?:noexcept)?\s*\{\s*return\s+([^;{}]*);\s*\}" % re.escape(name)).search(text, m.end())
    if not m2:
        raise Unsupported("accessor %s::%s() is not a one-line `return <expr>;`" % (cls, name))
    p = P(lex(m2.group(1)))
    e = p.expr()
    if p.peek()[0] != "eof":
        raise Unsupported("accessor %s::%s(): trailing tokens" % (cls, name))
    return e


class GenAcc(Gen):
    """expressions of one-line accessors: unqualified zero-argument calls are other accessors of the same class"""

    def __init__(self, spec, text, cls):
        Gen.__init__(self, spec, [])
        self.text, self.cls = text, cls

    def ex(self, e):
        if e[0] == "call" and e[1][0] == "id" and e[1][1] not in FUNCS and not e[2] and "::" not in e[1][1]:
            return self.ex(accessor_expr(self.text, self.cls, e[1][1]))
        return Gen.ex(self, e)


class Gen2(Gen):
    """statements and expressions over (state `s`, remaining input `it`); results are triples (s, it, returned bool)"""

    def __init__(self, spec, texts, sub_specs):
        Gen.__init__(self, spec, [])
        self.texts = texts            # class name -> source text of its header
        self.sub_specs = sub_specs
        self.it = "it"
        self.ilocals = {}             # signed locals: name -> lean name
        self.itlocals = {}            # iterator locals: name -> (offset lean text)

    def sub_of(self, e):
        """(member key, method) when e is a call on a sub-object: `field_.m(...)` or `Base::m(...)`"""
        if e[0] != "call":
            return None
        f = e[1]
        if f[0] == "member" and f[1][0] == "id" and f[1][1] in self.spec["subobjects"]:
            return f[1][1], f[2]
        if f[0] == "id" and "::" in f[1]:
            base, meth = f[1].rsplit("::", 1)
            if base + "::" in self.spec["subobjects"]:
                return base + "::", meth
        return None

    def sub_gen(self, member):
        field, cls, ns = self.spec["subobjects"][member]
        base = self.sub_specs[cls]
        spec = dict(base)
        spec["members"] = {k: (field + "." + f, ty) for k, (f, ty) in base["members"].items()}
        return GenAcc(spec, self.texts[cls], cls), field, cls, ns

    def ex(self, e):
        k = e[0]
        so = self.sub_of(e)
        if so:
            member, meth = so
            g, field, cls, ns = self.sub_gen(member)
            if meth == "parse":
                if e[2] != [("id", "iter"), ("id", "end")]:
                    raise Unsupported("sub-parser called with something other than (iter, end)")
                return (["let r := %s.parse cfg s.%s it" % (ns, field), "let s := { s with %s := r.1 }" % field, "let it := r.2.1"],
                        "r.2.2", "bool")
            if e[2]:
                raise Unsupported("accessor with arguments: %s" % meth)
            return g.ex(accessor_expr(self.texts[cls], cls, meth))
        if k == "id" and e[1] in self.ilocals:
            return [], self.ilocals[e[1]], "int"
        if k == "toint":
            p, t, ty = self.ex(e[1])
            if ty != "nat":
                raise Unsupported("cast of a %s to a signed number" % ty)
            return p, "(%s : Int)" % t, "int"
        if k == "sub":
            p1, t1, ty1 = self.ex(e[1])
            p2, t2, ty2 = self.ex(e[2])
            if p1 or p2 or ty1 != "int" or ty2 != "int":
                raise Unsupported("subtraction of unsigned numbers (wraps) or with side effects")
            return [], "(%s - %s)" % (t1, t2), "int"
        if k == "call" and e[1] == ("id", "std::distance") and e[2] == [("id", "iter"), ("id", "end")]:
            return [], "(it.length : Int)", "int"
        if k == "cmp" and e[1] in ("<", ">", "<=", ">="):
            p1, t1, ty1 = self.ex(e[2])
            p2, t2, ty2 = self.ex(e[3])
            if "int" in (ty1, ty2):
                if p1 or p2:
                    raise Unsupported("side effect in a signed comparison")
                if ty1 == "nat" and e[2][0] == "num":
                    t1 = "(%s : Int)" % t1
                elif ty1 != "int":
                    raise Unsupported("mixed signed/unsigned comparison")
                if ty2 == "nat" and e[3][0] == "num":
                    t2 = "(%s : Int)" % t2
                elif ty2 != "int":
                    raise Unsupported("mixed signed/unsigned comparison")
                return [], "(%s %s %s)" % (t1, e[1], t2), "prop"
        return Gen.ex(self, e)

    def effect(self, st):
        if st[0] == "if":
            return self.effect_if(st)
        if st[0] == "block":
            out = []
            for x in st[1]:
                out += self.effect(x)
            return out
        if st[0] == "ldecl":
            ty, name, e = st[1], st[2], st[3]
            if ty == "std::ptrdiff_t":
                p, t, ety = self.ex(e)
                if ety != "int":
                    raise Unsupported("signed local initialised with a %s" % ety)
                self.ilocals[name] = name
                return p + ["let %s : Int := %s" % (name, t)]
            if ty == "ForwardIterator":
                # ForwardIterator next(iter + n)
                if e[0] != "add" or e[1] != ("id", "iter"):
                    raise Unsupported("iterator local that is not `iter + n`")
                p, t, ety = self.ex(e[2])
                if p or ety != "int":
                    raise Unsupported("iterator offset")
                self.itlocals[name] = "%s.toNat" % t
                return []
            raise Unsupported("local of type " + ty)
        if st[0] == "expr":
            e = st[1]
            if e == ("preinc", ("id", "iter")):
                return ["let it := it.drop 1"]
            if e[0] == "assign" and e[1] == "=" and e[2] == ("id", "iter"):
                if e[3] == ("id", "end"):
                    return ["let it := ([] : Bytes)"]
                if e[3][0] == "id" and e[3][1] in self.itlocals:
                    return ["let it := it.drop %s" % self.itlocals[e[3][1]]]
                raise Unsupported("assignment to iter")
            so = self.sub_of(e)
            if so and so[1] == "clear" and not e[2]:
                field = self.spec["subobjects"][so[0]][0]
                return ["let s := { s with %s := {} }" % field]
            if e[0] == "call" and e[1][0] == "member" and e[1][2] == "insert" and e[1][1][0] == "id" and \
                    e[1][1][1] in self.spec["members"] and len(e[2]) == 3:
                # c.insert(c.end(), iter, X): append the input between iter and X
                f, fty = self.spec["members"][e[1][1][1]]
                a0, a1, a2 = e[2]
                if fty != "bytes" or a0 != ("call", ("member", e[1][1], "end"), []) or a1 != ("id", "iter"):
                    raise Unsupported("insert form")
                if a2 == ("id", "end"):
                    return ["let s := { s with %s := s.%s ++ it }" % (f, f)]
                if a2[0] == "id" and a2[1] in self.itlocals:
                    return ["let s := { s with %s := s.%s ++ it.take %s }" % (f, f, self.itlocals[a2[1]])]
                raise Unsupported("insert range")
            if e[0] == "call" and e[1][0] == "id" and e[1][1] in self.spec.get("helpers", {}):
                tmpl, tys = self.spec["helpers"][e[1][1]]
                if len(e[2]) != len(tys):
                    raise Unsupported("arity of helper " + e[1][1])
                pre, args = [], []
                for a, ty in zip(e[2], tys):
                    p, t, aty = self.ex(a)
                    if aty != ty:
                        raise Unsupported("helper %s argument type %s" % (e[1][1], aty))
                    pre += p
                    args.append(t)
                return pre + [tmpl % tuple(args)]
        return Gen.effect(self, st)

    def effect_if(self, st):
        """an `if` without exits: both the state and the iterator may change in its branches"""
        p, t, ty = self.ex(st[1])
        saved = (dict(self.ilocals), dict(self.itlocals))
        th = self.effect(st[2])
        self.ilocals, self.itlocals = dict(saved[0]), dict(saved[1])
        el = self.effect(st[3]) if st[3] is not None else []
        self.ilocals, self.itlocals = saved
        return p + ["let sit := if %s then (%s) else (%s)" % (self.cond(t, ty), self.seq(th, "(s, it)"), self.seq(el, "(s, it)")),
                    "let s := sit.1", "let it := sit.2"]

    def has_effect(self, e):
        if isinstance(e, tuple):
            if e[0] in ("preinc", "assign"):
                return True
            so = self.sub_of(e) if e[0] == "call" else None
            if so and so[1] == "parse":
                return True
            return any(self.has_effect(x) for x in e[1:] if isinstance(x, (tuple, list)))
        if isinstance(e, list):
            return any(self.has_effect(x) for x in e)
        return False

    def stmts(self, stmts, k_end):
        """k_end: Lean term used when control falls off the end (None = must not happen)"""
        if not stmts:
            return k_end
        st, rest = stmts[0], stmts[1:]
        k = st[0]
        if k == "while":
            raise Unsupported("nested loop")
        if k == "ldecl" or not may_exit(st):
            lines = self.effect(st)
            tail = self.stmts(rest, k_end)
            if tail is None:
                return None
            return self.seq(lines, tail) if lines else tail
        if k == "return":
            p, t, ty = self.ex(st[1])
            return self.seq(p, "(s, it, %s)" % self.as_bool(t, ty))
        if k == "block":
            return self.stmts(st[1] + rest, k_end)
        if k == "if":
            c = st[1]
            if c[0] == "and" and self.has_effect(c[2]):
                # `if (A && B)` with a side effect in B: B is evaluated only when A holds
                inner = ("if", c[2], st[2], st[3])
                return self.stmts([("if", c[1], inner, st[3])] + rest, k_end)
            p, t, ty = self.ex(c)
            th = self.stmts([st[2]] + rest, k_end)
            el = self.stmts(([st[3]] if st[3] is not None else []) + rest, k_end)
            if th is None or el is None:
                return None
            return self.seq(p, "(if %s then %s else %s)" % (self.cond(t, ty), th, el))
        raise Unsupported("statement %r in an iterator-threading function" % (k,))


def translate_mh(sub_specs):
    spec = SPEC_MH
    with open(os.path.join(INC, spec["file"]), encoding="latin-1") as f:
        text = f.read()
    body = function_body(text, spec["cls"], r"\bbool\s+parse\s*\(\s*ForwardIterator\s*&\s*iter\s*,\s*ForwardIterator\s+end\s*\)")
    p = P(lex(body))
    st = p.stmt()
    if p.peek()[0] != "eof" or st[0] != "block":
        raise Unsupported("trailing tokens after message_headers::parse")
    stmts = st[1]
    idx = [i for i, x in enumerate(stmts) if x[0] == "while"]
    if len(idx) != 1 or idx[0] != 0:
        raise Unsupported("message_headers::parse: expected `while (...) {...}` followed by straight-line code")
    loop, post = stmts[0], stmts[1:]
    g = Gen2(spec, {"field_line": text, "message_headers": text}, sub_specs)
    tail = g.stmts(post, None)
    if tail is None:
        raise Unsupported("message_headers::parse can fall off its end")
    pc, tc, tyc = g.ex(loop[1])
    if pc:
        raise Unsupported("side effect in the loop condition")
    body_stmts = loop[2][1] if loop[2][0] == "block" else [loop[2]]
    bt = g.stmts(body_stmts, "GenMH.parseLoop cfg fuel s it")
    ns, S = spec["ns"], spec["struct"]
    out = ["import ViaGen.FL\n/-\n  GENERATED by tools/cxx2lean.py from message_headers::parse in include/via/http/headers.hpp of /repo's CURRENT tree\n"
           "  (and the one-line accessors of field_line it calls).  Do not edit.  ViaProofs/Trans/MH.lean proves the hand-written\n"
           "  model equal to this translation.  The loop calls a sub-parser that consumes a variable amount of input, so it is\n"
           "  translated with a fuel argument (initially: input length + 2); the proof shows the fuel never runs out.\n-/\n"
           "set_option linter.unusedVariables false\nnamespace Via\n",
           "/-- the code after the loop of `message_headers::parse` (the blank line) -/\n"
           "def %s.parseTail (cfg : Cfg) (s : %s) (it : Bytes) : %s × Bytes × Bool :=\n  %s\n" % (ns, S, S, tail),
           "def %s.parseLoop (cfg : Cfg) : Nat → %s → Bytes → %s × Bytes × Bool\n"
           "  | 0, s, it => (s, it, false)\n"
           "  | fuel + 1, s, it =>\n    if %s then\n      %s\n    else %s.parseTail cfg s it\n" % (ns, S, S, g.cond(tc, tyc), bt, ns),
           "def %s.parse (cfg : Cfg) (s : %s) (buf : Bytes) : %s × Bytes × Bool :=\n  %s.parseLoop cfg (buf.length + 2) s buf\n" % (ns, S, S, ns),
           "end Via\n"]
    return "\n".join(out)


SPEC_CK = {
    "cls": "rx_chunk", "file": "http/chunk.hpp", "struct": "CK", "ns": "GenCK", "enum": "Chunk",
    "members": {"data_": ("data", "bytes"), "valid_": ("valid", "bool"), "data_cr_": ("dataCr", "bool")},
    "consts": {"STRICT_CRLF": ("cfg.strict", "bool")},
    # the chunk_header base class and the trailers member
    "subobjects": {"ChunkHeader::": ("hdr", "chunk_header", "GenCH"), "trailers_": ("trailers", "message_headers", "GenMH")},
    "helpers": {},
}


def translate_ck(sub_specs):
    spec = SPEC_CK
    with open(os.path.join(INC, spec["file"]), encoding="latin-1") as f:
        text = f.read()
    with open(os.path.join(INC, "http/headers.hpp"), encoding="latin-1") as f:
        htext = f.read()
    body = function_body(text, spec["cls"], r"\bbool\s+parse\s*\(\s*ForwardIterator\s*&\s*iter\s*,\s*ForwardIterator\s+end\s*\)")
    p = P(lex(body))
    st = p.stmt()
    if p.peek()[0] != "eof" or st[0] != "block":
        raise Unsupported("trailing tokens after rx_chunk::parse")
    if any(x[0] == "while" for x in st[1]):
        raise Unsupported("rx_chunk::parse: unexpected loop")
    subs = dict(sub_specs)
    subs["message_headers"] = SPEC_MH
    g = Gen2(spec, {"chunk_header": text, "message_headers": htext, "rx_chunk": text}, subs)
    term = g.stmts(st[1], None)
    if term is None:
        raise Unsupported("rx_chunk::parse can fall off its end")
    return ("import ViaGen.CH\nimport ViaGen.MH\n/-\n  GENERATED by tools/cxx2lean.py from rx_chunk::parse in include/via/http/chunk.hpp of /repo's CURRENT tree\n"
            "  (with the one-line accessors of chunk_header it calls; `std::ptrdiff_t` values are `Int`).  Do not edit.\n"
            "  ViaProofs/Trans/CK.lean proves the hand-written model equal to this translation.\n-/\n"
            "set_option linter.unusedVariables false\nnamespace Via\n\n"
            "def GenCK.parse (cfg : Cfg) (s : CK) (it : Bytes) : CK × Bytes × Bool :=\n  %s\n\nend Via\n" % term)


IMPORTS = {"RL": "ViaModel.ReqLine", "SL": "ViaModel.RespLine", "FL": "ViaModel.Headers", "CH": "ViaModel.Chunk"}


def state_type(spec):
    return {"RL": "RLS", "SL": "SLS", "FL": "HS", "CH": "CS"}[spec["struct"]]


def translate(spec):
    with open(os.path.join(INC, spec["file"]), encoding="latin-1") as f:
        text = f.read()
    consts = enum_members(text, spec["enum"])
    body = function_body(text, spec["cls"], r"\bbool\s+parse_char\s*\(\s*char\s+c\s*\)")
    p = P(lex(body))
    st = p.stmt()
    if p.peek()[0] != "eof" or st[0] != "block":
        raise Unsupported("trailing tokens after the body of %s::parse_char" % spec["cls"])
    g = Gen(spec, consts)
    T = state_type(spec)
    parts = ["import %s\n/-\n  GENERATED by tools/cxx2lean.py from %s::parse_char in include/via/%s of /repo's CURRENT tree.\n"
             "  Do not edit.  ViaProofs/Trans/%s.lean proves the hand-written model equal to this translation.\n-/\n"
             "set_option linter.unusedVariables false\nnamespace Via\n" % (IMPORTS[spec["struct"]], spec["cls"], spec["file"], spec["struct"])]
    if spec["struct"] == "SL":
        parts.append("/-- `read_digit` (character.hpp): `c - '0'` for a digit -/\ndef readDigit (c : Byte) : Nat := c.toNat - 48\n")
    parts.append("/-! states of the C++ enum `%s`, in declaration order: %s -/\n" % (spec["enum"], ", ".join(consts)))
    # the enum constants of the C++, in order, are exactly the constructors of the model's state type, in order
    parts.append("theorem %s.states_match : [%s].map %s.ctorIdx = List.range %d ∧ (∀ x : %s, x.ctorIdx < %d) := by\n"
                 "  refine ⟨by decide, fun x => ?_⟩\n  cases x <;> decide\n" % (
                     spec["ns"], ", ".join("%s.%s" % (T, ctor_name(c)) for c in consts), T, len(consts), T, len(consts)))
    parts.append(g.function(st[1]))
    body2 = function_body(text, spec["cls"], r"\bbool\s+parse\s*\(\s*ForwardIterator\s*&\s*iter\s*,\s*ForwardIterator\s+end\s*\)")
    p2 = P(lex(body2))
    st2 = p2.stmt()
    if p2.peek()[0] != "eof" or st2[0] != "block":
        raise Unsupported("trailing tokens after the body of %s::parse" % spec["cls"])
    parts.append("/-! ### %s::parse -/\n" % spec["cls"])
    parts.append(gen_parse_function(Gen(spec, consts), st2[1]))
    parts.append("end Via\n")
    return "\n".join(parts)


def main():
    os.makedirs(OUTDIR, exist_ok=True)
    failed = 0
    for spec in CLASSES:
        out = os.path.join(OUTDIR, spec["struct"] + ".lean")
        try:
            text = translate(spec)
        except (Unsupported, OSError, ValueError, IndexError) as e:
            if os.path.exists(out):
                os.remove(out)
            sys.stderr.write("cxx2lean: cannot translate %s (parse_char / parse): %s\n" % (spec["cls"], e))
            failed += 1
            continue
        old = open(out).read() if os.path.exists(out) else None
        if old != text:
            with open(out, "w") as f:
                f.write(text)
        print("ViaGen/%s.lean: %d lines" % (spec["struct"], text.count("\n")))
    out = os.path.join(OUTDIR, "MH.lean")
    try:
        text = translate_mh({c["cls"]: c for c in CLASSES})
        old = open(out).read() if os.path.exists(out) else None
        if old != text:
            with open(out, "w") as f:
                f.write(text)
        print("ViaGen/MH.lean: %d lines" % text.count("\n"))
    except (Unsupported, OSError, ValueError, IndexError, KeyError) as e:
        if os.path.exists(out):
            os.remove(out)
        sys.stderr.write("cxx2lean: cannot translate message_headers::parse: %s\n" % (e,))
        failed += 1
    out = os.path.join(OUTDIR, "CK.lean")
    try:
        text = translate_ck({c["cls"]: c for c in CLASSES})
        old = open(out).read() if os.path.exists(out) else None
        if old != text:
            with open(out, "w") as f:
                f.write(text)
        print("ViaGen/CK.lean: %d lines" % text.count("\n"))
    except (Unsupported, OSError, ValueError, IndexError, KeyError) as e:
        if os.path.exists(out):
            os.remove(out)
        sys.stderr.write("cxx2lean: cannot translate rx_chunk::parse: %s\n" % (e,))
        failed += 1
    # mode 3: the receivers (tools/cxx2lean_rx.py)
    import cxx2lean_rx
    import cxx2lean_enc      # mode 4: the encoders (tools/cxx2lean_enc.py)
    import cxx2lean_auth     # mode 5: the credential check (tools/cxx2lean_auth.py)
    import cxx2lean_router   # mode 6: the decision chain of request_router::handle_request
    import cxx2lean_uri      # mode 7: the constructor of request_uri
    for name, job in cxx2lean_rx.JOBS + [("ENC", cxx2lean_enc.translate_encoders), ("AU", cxx2lean_auth.translate_auth), ("RT", cxx2lean_router.translate_router), ("URI", cxx2lean_uri.translate_uri)]:
        out = os.path.join(OUTDIR, name + ".lean")
        try:
            text = job()
            old = open(out).read() if os.path.exists(out) else None
            if old != text:
                with open(out, "w") as f:
                    f.write(text)
            print("ViaGen/%s.lean: %d lines" % (name, text.count("\n")))
        except Exception as e:      # fail closed, whatever went wrong
            if os.path.exists(out):
                os.remove(out)
            sys.stderr.write("cxx2lean: cannot translate %s: %s: %s\n" % (name, type(e).__name__, e))
            failed += 1
    sys.exit(1 if failed else 0)


if __name__ == "__main__":
    main()
