#!/usr/bin/env python3
"""check.py <PROPERTY> [--tier quick|thorough] [--replay FILE]

Decides one property on /repo's current working tree (DESIGN.md §4):
  exit 0  : proofs check, model and implementation agree, the property oracle never failed
            (known findings are printed as KNOWN-FINDING lines)
  exit 1  : a line "VIOLATION property=<id> replay=<path>[ no-failing-input-found]" was printed
"""
import argparse
import importlib
import json
import os
import sys
import time
import traceback

sys.path.insert(0, os.path.dirname(os.path.abspath(__file__)))
import vlib
from vlib import Case


def log(msg):
    sys.stderr.write("[check] %s\n" % msg)
    sys.stderr.flush()


def load_plugin(prop):
    return importlib.import_module("props.%s" % prop.lower())


def proof_status(plugin):
    """regenerate + build + audit.  returns (ok, broken: [str], obligations, discharged, theorem names)"""
    broken = []
    ok, out = vlib.regenerate(log)
    if not ok:
        broken.append("extraction of Generated.lean from the sources failed: " + out[-1500:])
    targets = ["ViaModel", "via_model"] + plugin.LEAN_MODULES + getattr(plugin, "LEMMA_MODULES", [])
    ok, out = vlib.lake_build(targets, log)
    names = []
    lemma_names = []
    for m in plugin.LEAN_MODULES:
        try:
            names += vlib.theorems_in(m)
        except OSError as e:
            broken.append("module %s missing: %s" % (m, e))
    for m in getattr(plugin, "LEMMA_MODULES", []):
        try:
            lemma_names += vlib.theorems_in(m)
        except OSError as e:
            broken.append("module %s missing: %s" % (m, e))
    if not ok:
        # name the modules / theorems that failed
        errs = [l for l in out.splitlines() if "error" in l]
        broken.append("lake build failed: " + "\n".join(errs[:12]))
        return False, broken, len(names) + len(lemma_names), 0, names
    bad = vlib.audit_sources(plugin.LEAN_MODULES + getattr(plugin, "LEMMA_MODULES", []))
    if bad:
        broken.append("forbidden construct in Lean sources: " + "; ".join(bad))
    required = getattr(plugin, "REQUIRED_THEOREMS", [])
    for r in required:
        if r not in names:
            broken.append("required theorem %s is not stated in %s" % (r, plugin.LEAN_MODULES))
    ax = vlib.print_axioms(plugin.LEAN_MODULES, names, log)
    discharged = len(lemma_names)
    for n in names:
        extra = ax.get(n, {"<error>"}) - vlib.AXIOM_WHITELIST
        if extra:
            broken.append("theorem %s depends on non-whitelisted axioms %s" % (n, sorted(extra)))
        else:
            discharged += 1
    return not broken, broken, len(names) + len(lemma_names), discharged, names


def run_cases(plugin, cases, binaries, need_model=True):
    """returns (impl_out, model_out, stderr_tail) as {case id: lines}"""
    harness = plugin.HARNESS
    impl, err = vlib.run_parallel(binaries[harness], cases, "impl")
    model = {}
    if need_model:
        mcases = [c for c in cases if not c.meta.get("impl_only")]
        model, _ = vlib.run_parallel(vlib.model_binary(), mcases, "model")
    return impl, model, err


def generic_search(plugin, rng, binaries, findings, limit=60000):
    """widened search on the implementation alone: thorough-tier generation with a fresh seed, first failure of the
    property oracle that no known finding explains"""
    try:
        cases = plugin.generate("thorough", rng)
    except Exception as e:      # a generator problem must not hide the verdict
        log("search: generator failed: %r" % e)
        return None
    if len(cases) > limit:
        rng.shuffle(cases)
        cases = cases[:limit]
    impl, _ = vlib.run_parallel(binaries[plugin.HARNESS], cases, "search")
    model = {}
    if hasattr(plugin, "compare") and os.path.exists(vlib.model_binary()):
        # the known-finding marker of a history comes from the model
        model, _ = vlib.run_parallel(vlib.model_binary(), cases, "searchm")
    for c in cases:
        il = impl.get(c.id, [])
        if model:
            plugin.compare(c, il, model.get(c.id) or [])
        f = plugin.oracle(c, il)
        if f:
            fid = plugin.classify(c, f, il, findings) if hasattr(plugin, "classify") else None
            if not fid:
                return (c, f, il)
    return None


def main():
    ap = argparse.ArgumentParser()
    ap.add_argument("prop")
    ap.add_argument("--tier", default=os.environ.get("VERIF_TIER", "quick"))
    ap.add_argument("--replay")
    args = ap.parse_args()
    prop = args.prop.upper()
    tier = args.tier if args.tier in ("quick", "thorough") else "quick"
    seed = int(os.environ.get("VERIF_SEED", "1") or "1")
    t0 = time.time()
    plugin = load_plugin(prop)
    rng = vlib.Rng(seed).fork(prop)
    violations = []      # (replay path, suffix)
    known_lines = []
    notes = []

    # ---- 1. proof status
    p_ok, p_broken, obligations, discharged, theorem_names = proof_status(plugin)
    for b in p_broken:
        log("PROOF BROKEN: " + b)

    # ---- 2. harness build
    binaries = {}
    build_broken = None
    try:
        binaries[plugin.HARNESS] = vlib.build_harness(plugin.HARNESS, log)
    except vlib.BuildError as e:
        build_broken = str(e)
        log("HARNESS BUILD BROKEN: " + build_broken[-800:])

    have_model = os.path.exists(vlib.model_binary()) and not any("lake build failed" in b for b in p_broken)

    # ---- 3. cases
    cases = []
    if args.replay:
        txt = open(args.replay).read()
        cur = None
        for line in txt.splitlines():
            if line.startswith("case "):
                cur = Case(line[5:], [], {"replay": True})
                cases.append(cur)
            elif cur is not None and line and not line.startswith("#"):
                cur.lines.append(line)
    else:
        cases = plugin.generate(tier, rng)
    log("%d cases generated" % len(cases))

    evaluations = 0
    disagreements = []
    oracle_failures = []
    distinct = set()
    samples = []
    stats = {}
    extra_cov = {}
    if not build_broken:
        # a model binary from an earlier build still marks the known-finding point of a history when the current
        # build is broken (its verdicts are not used then)
        stale_model = (not have_model) and os.path.exists(vlib.model_binary())
        impl, model, err = run_cases(plugin, cases, binaries, need_model=have_model or stale_model)
        for c in cases:
            il = impl.get(c.id)
            if il is None:
                oracle_failures.append((c, "no output from the implementation harness", []))
                continue
            evaluations += 1
            key = plugin.nontrivial(c, il) if hasattr(plugin, "nontrivial") else c.id
            if key is not None:
                distinct.add(key)
            if len(samples) < 4 and key is not None:
                samples.append({"case": c.id, "ops": c.lines[:6], "impl": il[:6]})
            for k in c.meta.get("tags", []):
                stats[k] = stats.get(k, 0) + 1
            if (have_model or stale_model) and not c.meta.get("impl_only"):
                ml = model.get(c.id)
                if hasattr(plugin, "compare"):
                    if not plugin.compare(c, il, ml or []) and have_model:
                        disagreements.append((c, il, ml))
                elif ml != il and have_model:
                    disagreements.append((c, il, ml))
            fail = plugin.oracle(c, il)
            if fail:
                oracle_failures.append((c, fail, il))
        if hasattr(plugin, "extra_checks"):
            # property-specific checks that are not script based (e.g. in-harness enumerations)
            for (ok, what, replay_text, cov) in plugin.extra_checks(tier, rng, binaries, log):
                extra_cov.update(cov)
                if not ok:
                    oracle_failures.append((Case("extra", [replay_text]), what, []))

    # ---- 4. verdict
    findings = [f for f in vlib.load_known_findings() if f.get("property") == prop and f.get("status", "open") == "open"]
    unexplained = []
    seen_findings = set()
    for (c, fail, il) in oracle_failures:
        fid = plugin.classify(c, fail, il, findings) if hasattr(plugin, "classify") else None
        if fid:
            seen_findings.add(fid)
        else:
            unexplained.append((c, fail, il))
    for f in findings:
        if f["id"] in seen_findings:
            known_lines.append("KNOWN-FINDING: property=%s %s" % (prop, f["what"]))
        else:
            notes.append("known finding %s was not reproduced by this run" % f["id"])

    if unexplained:
        c, fail, il = unexplained[0]
        text = "# property %s violated on the implementation\n# %s\n%s# implementation output:\n%s\n" % (
            prop, fail.replace("\n", "\n# "), c.script(), "\n".join("# " + l for l in il))
        path = vlib.write_replay(prop, "violation", text)
        violations.append((path, ""))
    else:
        # nothing failed on the implementation; is the property still *shown*?
        broken_reasons = list(p_broken)
        if build_broken:
            broken_reasons.append("harness build: " + build_broken[-1500:])
        if disagreements:
            # disagreements inside a known-finding class are explained by the finding
            real = []
            for (c, il, ml) in disagreements:
                fid = plugin.classify(c, "correspondence", il, findings) if hasattr(plugin, "classify") else None
                if not fid:
                    real.append((c, il, ml))
            if real:
                c, il, ml = real[0]
                broken_reasons.append("correspondence: model and implementation differ on %d of %d cases; first:\n%s"
                                      "impl : %s\nmodel: %s" % (len(real), evaluations, c.script(),
                                                                 "\n       ".join(il), "\n       ".join(ml or ["<none>"])))
        if broken_reasons:
            # search the implementation for a concrete failing input
            found = None
            if not build_broken:
                log("proof or correspondence broken; searching for a failing input")
                found = generic_search(plugin, rng.fork("search"), binaries, findings)
            if found:
                c, fail, il = found
                text = "# property %s violated on the implementation (found by the widened search)\n# %s\n%s# implementation output:\n%s\n" % (
                    prop, fail.replace("\n", "\n# "), c.script(), "\n".join("# " + l for l in il))
                violations.append((vlib.write_replay(prop, "violation", text), ""))
            else:
                text = "# property %s is no longer shown to hold; no failing input was found\n" % prop
                for b in broken_reasons:
                    text += "# no longer checks: " + b.replace("\n", "\n#   ") + "\n"
                violations.append((vlib.write_replay(prop, "unproved", text), " no-failing-input-found"))

    for l in known_lines:
        print(l)
    for (path, suffix) in violations:
        print("VIOLATION property=%s replay=%s%s" % (prop, path, suffix))
    for n in notes:
        log(n)

    # ---- 5. evidence
    wall = time.time() - t0
    coverage = {
        "obligations": obligations,
        "discharged": discharged if p_ok else min(discharged, max(0, obligations - 1)),
        "checker_cmd": "cd lean && lake build " + " ".join(plugin.LEAN_MODULES) +
                       " && lake env lean <#print axioms of every property theorem>",
        "trusted_base": plugin.TRUSTED_BASE,
        "theorems": theorem_names,
        "evaluations": evaluations,
        "distinct_nontrivial": len(distinct),
        "rule": plugin.RULE,
        "samples": samples,
        "traces_validated_against_impl": evaluations,
        "correspondence_disagreements": len(disagreements),
        "oracle_failures": len(oracle_failures),
        "known_findings_reproduced": sorted(seen_findings),
        "input_distribution": stats,
    }
    coverage.update(extra_cov)
    if hasattr(plugin, "EXHAUSTIVE") and plugin.EXHAUSTIVE.get(tier):
        coverage["exhaustive_subdomain"] = plugin.EXHAUSTIVE[tier]
    vlib.write_evidence(prop, tier, seed, plugin.LEVEL, coverage, plugin.ASSUMPTIONS, wall, len(violations))
    log("%s: %d cases, %d disagreements, %d oracle failures, %d violations, %.1fs" % (
        prop, evaluations, len(disagreements), len(oracle_failures), len(violations), wall))
    sys.exit(1 if violations else 0)


if __name__ == "__main__":
    try:
        main()
    except SystemExit:
        raise
    except Exception:
        traceback.print_exc()
        # a crash of the machinery is not a verdict about the code: report it as an unproved property
        sys.exit(2)
