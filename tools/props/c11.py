"""C11 — shutdown, close and destruction are safe at every moment."""
import simcommon as S
import gen_sim
from vlib import Case, hx

HARNESS = "sim_driver"
LEAN_MODULES = ["ViaProofs.C11"]
LEMMA_MODULES = ['ViaProofs.ConnLemmas']
REQUIRED_THEOREMS = ['Via.C11_invariant_at_every_point', 'Via.C11_close_releases']
LEVEL = "proof"
TRUSTED_BASE = S.SIM_TRUSTED
ASSUMPTIONS = S.SIM_ASSUMPTIONS
compare = S.compare

PROP = "C11"

RULE = ("every prefix of generated histories followed by shutdown() / close() / destruction / disconnect() and then the remaining "
        "completions in random order incl. operation_aborted; a dedicated family completes everything after shutdown() and must "
        "end with no retained connection and no pending work; ASan / checked-iterator aborts are outcomes; non-trivial = teardown "
        "with at least one live connection")


def generate(tier, rng):
    cases = S.corpus_cases("C11") + kf_cases()
    quick = tier == "quick"
    for td in ("srv-shutdown", "srv-close", "srv-destroy"):
        cases += S.make_cases("c11-" + td[4:], tier, rng, 150, 5000, teardown=td)
    # complete shutdown: every connection finishes its write, its TLS shutdown and is forgotten
    for i in range(120 if quick else 4000):
        lines, o = gen_sim.history(rng, teardown="", length=rng.range(2, 14))
        lines = [l for l in lines if l != "state"]
        lines.append("srv-shutdown")
        for c in range(4):
            lines += ["wdone c%d" % c] * 5 + ["shutdone c%d ok" % c]
        lines += ["poll", "state"]
        cases.append(Case("c11-full-%d" % i, lines, {"opts": o, "full_shutdown": True, "tags": ["full-shutdown", o["flavour"]]}))
    return cases


def kf_cases():
    import os, json
    root = os.path.dirname(os.path.dirname(os.path.dirname(os.path.abspath(__file__))))
    cases = []
    for f in json.load(open(os.path.join(root, "known_findings.json")))["findings"]:
        if f["property"] != PROP or f.get("status") != "open":
            continue
        txt = open(os.path.join(root, f["witness"])).read()
        lines = [l for l in txt.splitlines() if l and not l.startswith("#") and not l.startswith("case ")]
        opts = {}
        for tok in lines[0].split()[1:]:
            a, b = tok.split("=", 1)
            opts[a] = b
        opts.setdefault("flavour", "tcp")
        opts.setdefault("policy", "sync")
        cases.append(Case("kf-" + f["id"], lines, {"opts": opts, "kf_witness": f["id"], "complete": True, "tags": ["kf-witness"]}))
    return cases


def _load_findings():
    import os, json
    root = os.path.dirname(os.path.dirname(os.path.dirname(os.path.abspath(__file__))))
    return [f for f in json.load(open(os.path.join(root, "known_findings.json")))["findings"] if f["property"] == PROP]


FINDINGS_ALL = _load_findings()


def classify(case, fail, il, findings):
    ids = set(f["id"] for f in findings)
    if "C11-KF1" in ids and case.meta.get("kf_witness") == "C11-KF1":
        return "C11-KF1"
    if "C11-KF2" in ids and case.meta.get("kf") and "abort" in fail and S.aborted(S.cut(case, il)) is None:
        return "C11-KF2"
    return None


def oracle(case, out):
    return S.oracle_c11(case, out)


def nontrivial(case, out):
    return case.id if len(case.lines) > 4 else None


def search(rng, binaries, log):
    from vlib import run_parallel
    cases = generate("thorough", rng)[:4000]
    impl, _ = run_parallel(binaries[HARNESS], cases, "search")
    for c in cases:
        il = impl.get(c.id, [])
        f = oracle(c, il)
        if f and not classify(c, f, il, FINDINGS_ALL):
            return (c, f, il)
    return None
